---- MODULE MC_UdpJob_TTrace_1790423512 ----
EXTENDS MC_UdpJob, Sequences, TLCExt, Toolbox, Naturals, TLC

_expression ==
    LET MC_UdpJob_TEExpression == INSTANCE MC_UdpJob_TEExpression
    IN MC_UdpJob_TEExpression!expression
----

_trace ==
    LET MC_UdpJob_TETrace == INSTANCE MC_UdpJob_TETrace
    IN MC_UdpJob_TETrace!trace
----

_inv ==
    ~(
        TLCGet("level") = Len(_TETrace)
        /\
        cur = ((w1 :> 0 @@ rb :> 0))
        /\
        leased = (1)
        /\
        rpc = ((rb :> "fin"))
        /\
        err = ("")
        /\
        idle = (<<2>>)
        /\
        pinfo = (<<[c |-> None, k |-> "hit", o |-> "none"], [c |-> None, k |-> "hit", o |-> "none"], [c |-> c1, k |-> "failhit", o |-> "none"]>>)
        /\
        nsent = (3)
        /\
        fl = ((w1 :> "no" @@ rb :> "rel"))
        /\
        ov = (<<"no", "no", "no">>)
        /\
        rpend = ((rb :> <<>>))
        /\
        inFlight = (1)
        /\
        oout = (<<[wrote |-> FALSE, handoff |-> FALSE, panic |-> FALSE, set |-> FALSE], [wrote |-> FALSE, handoff |-> FALSE, panic |-> FALSE, set |-> FALSE], [wrote |-> FALSE, handoff |-> FALSE, panic |-> FALSE, set |-> FALSE]>>)
        /\
        slab = (<<[wrote |-> TRUE, state |-> "serving", rx |-> 3, replay |-> FALSE, txLen |-> 1, raddr |-> c1, tx |-> 3, txck |-> None, txhd |-> 1, sends |-> 1, jb |-> None, ew |-> None, rawSA |-> c1], [wrote |-> FALSE, state |-> "free", rx |-> None, replay |-> FALSE, txLen |-> 0, raddr |-> c1, tx |-> None, txck |-> None, txhd |-> None, sends |-> 0, jb |-> None, ew |-> None, rawSA |-> c1], [wrote |-> FALSE, state |-> "free", rx |-> None, replay |-> FALSE, txLen |-> 0, raddr |-> None, tx |-> None, txck |-> None, txhd |-> None, sends |-> 0, jb |-> None, ew |-> None, rawSA |-> None]>>)
        /\
        out = ((w1 :> [wrote |-> FALSE, handoff |-> FALSE, panic |-> FALSE, set |-> FALSE] @@ rb :> [wrote |-> TRUE, handoff |-> FALSE, panic |-> FALSE, set |-> TRUE]))
        /\
        rheld = ((rb :> <<>>))
        /\
        wire = (<<[slab |-> 1, wrote |-> TRUE, kind |-> "failhit", from |-> c1, rx |-> 3, to |-> c1, tx |-> 3, ck |-> None, want |-> None, hd |-> 1, nth |-> 1]>>)
        /\
        ready = (<<>>)
        /\
        hpc = ((w1 :> "poll" @@ rb :> "poll"))
        /\
        burst = ((w1 :> <<>> @@ rb :> <<1>>))
        /\
        alloc = ({1, 2})
        /\
        inbox = (<<>>)
    )
----

_init ==
    /\ rheld = _TETrace[1].rheld
    /\ ready = _TETrace[1].ready
    /\ wire = _TETrace[1].wire
    /\ idle = _TETrace[1].idle
    /\ slab = _TETrace[1].slab
    /\ cur = _TETrace[1].cur
    /\ alloc = _TETrace[1].alloc
    /\ oout = _TETrace[1].oout
    /\ hpc = _TETrace[1].hpc
    /\ out = _TETrace[1].out
    /\ ov = _TETrace[1].ov
    /\ rpc = _TETrace[1].rpc
    /\ pinfo = _TETrace[1].pinfo
    /\ rpend = _TETrace[1].rpend
    /\ fl = _TETrace[1].fl
    /\ leased = _TETrace[1].leased
    /\ inFlight = _TETrace[1].inFlight
    /\ nsent = _TETrace[1].nsent
    /\ burst = _TETrace[1].burst
    /\ err = _TETrace[1].err
    /\ inbox = _TETrace[1].inbox
----

_next ==
    /\ \E i,j \in DOMAIN _TETrace:
        /\ \/ /\ j = i + 1
              /\ i = TLCGet("level")
        /\ rheld  = _TETrace[i].rheld
        /\ rheld' = _TETrace[j].rheld
        /\ ready  = _TETrace[i].ready
        /\ ready' = _TETrace[j].ready
        /\ wire  = _TETrace[i].wire
        /\ wire' = _TETrace[j].wire
        /\ idle  = _TETrace[i].idle
        /\ idle' = _TETrace[j].idle
        /\ slab  = _TETrace[i].slab
        /\ slab' = _TETrace[j].slab
        /\ cur  = _TETrace[i].cur
        /\ cur' = _TETrace[j].cur
        /\ alloc  = _TETrace[i].alloc
        /\ alloc' = _TETrace[j].alloc
        /\ oout  = _TETrace[i].oout
        /\ oout' = _TETrace[j].oout
        /\ hpc  = _TETrace[i].hpc
        /\ hpc' = _TETrace[j].hpc
        /\ out  = _TETrace[i].out
        /\ out' = _TETrace[j].out
        /\ ov  = _TETrace[i].ov
        /\ ov' = _TETrace[j].ov
        /\ rpc  = _TETrace[i].rpc
        /\ rpc' = _TETrace[j].rpc
        /\ pinfo  = _TETrace[i].pinfo
        /\ pinfo' = _TETrace[j].pinfo
        /\ rpend  = _TETrace[i].rpend
        /\ rpend' = _TETrace[j].rpend
        /\ fl  = _TETrace[i].fl
        /\ fl' = _TETrace[j].fl
        /\ leased  = _TETrace[i].leased
        /\ leased' = _TETrace[j].leased
        /\ inFlight  = _TETrace[i].inFlight
        /\ inFlight' = _TETrace[j].inFlight
        /\ nsent  = _TETrace[i].nsent
        /\ nsent' = _TETrace[j].nsent
        /\ burst  = _TETrace[i].burst
        /\ burst' = _TETrace[j].burst
        /\ err  = _TETrace[i].err
        /\ err' = _TETrace[j].err
        /\ inbox  = _TETrace[i].inbox
        /\ inbox' = _TETrace[j].inbox

\* Uncomment the ASSUME below to write the states of the error trace
\* to the given file in Json format. Note that you can pass any tuple
\* to `JsonSerialize`. For example, a sub-sequence of _TETrace.
    \* ASSUME
    \*     LET J == INSTANCE Json
    \*         IN J!JsonSerialize("MC_UdpJob_TTrace_1790423512.json", _TETrace)

=============================================================================

 Note that you can extract this module `MC_UdpJob_TEExpression`
  to a dedicated file to reuse `expression` (the module in the 
  dedicated `MC_UdpJob_TEExpression.tla` file takes precedence 
  over the module `MC_UdpJob_TEExpression` below).

---- MODULE MC_UdpJob_TEExpression ----
EXTENDS MC_UdpJob, Sequences, TLCExt, Toolbox, Naturals, TLC

expression == 
    [
        \* To hide variables of the `MC_UdpJob` spec from the error trace,
        \* remove the variables below.  The trace will be written in the order
        \* of the fields of this record.
        rheld |-> rheld
        ,ready |-> ready
        ,wire |-> wire
        ,idle |-> idle
        ,slab |-> slab
        ,cur |-> cur
        ,alloc |-> alloc
        ,oout |-> oout
        ,hpc |-> hpc
        ,out |-> out
        ,ov |-> ov
        ,rpc |-> rpc
        ,pinfo |-> pinfo
        ,rpend |-> rpend
        ,fl |-> fl
        ,leased |-> leased
        ,inFlight |-> inFlight
        ,nsent |-> nsent
        ,burst |-> burst
        ,err |-> err
        ,inbox |-> inbox
        
        \* Put additional constant-, state-, and action-level expressions here:
        \* ,_stateNumber |-> _TEPosition
        \* ,_rheldUnchanged |-> rheld = rheld'
        
        \* Format the `rheld` variable as Json value.
        \* ,_rheldJson |->
        \*     LET J == INSTANCE Json
        \*     IN J!ToJson(rheld)
        
        \* Lastly, you may build expressions over arbitrary sets of states by
        \* leveraging the _TETrace operator.  For example, this is how to
        \* count the number of times a spec variable changed up to the current
        \* state in the trace.
        \* ,_rheldModCount |->
        \*     LET F[s \in DOMAIN _TETrace] ==
        \*         IF s = 1 THEN 0
        \*         ELSE IF _TETrace[s].rheld # _TETrace[s-1].rheld
        \*             THEN 1 + F[s-1] ELSE F[s-1]
        \*     IN F[_TEPosition - 1]
    ]

=============================================================================



Parsing and semantic processing can take forever if the trace below is long.
 In this case, it is advised to uncomment the module below to deserialize the
 trace from a generated binary file.

\*
\*---- MODULE MC_UdpJob_TETrace ----
\*EXTENDS MC_UdpJob, IOUtils, TLC
\*
\*trace == IODeserialize("MC_UdpJob_TTrace_1790423512.bin", TRUE)
\*
\*=============================================================================
\*

---- MODULE MC_UdpJob_TETrace ----
EXTENDS MC_UdpJob, TLC

trace == 
    <<
    ([cur |-> (w1 :> 0 @@ rb :> 0),leased |-> 0,rpc |-> (rb :> "top"),err |-> "",idle |-> <<>>,pinfo |-> <<[c |-> None, k |-> "hit", o |-> "none"], [c |-> None, k |-> "hit", o |-> "none"], [c |-> None, k |-> "hit", o |-> "none"]>>,nsent |-> 0,fl |-> (w1 :> "no" @@ rb :> "no"),ov |-> <<"no", "no", "no">>,rpend |-> (rb :> <<>>),inFlight |-> 0,oout |-> <<[wrote |-> FALSE, handoff |-> FALSE, panic |-> FALSE, set |-> FALSE], [wrote |-> FALSE, handoff |-> FALSE, panic |-> FALSE, set |-> FALSE], [wrote |-> FALSE, handoff |-> FALSE, panic |-> FALSE, set |-> FALSE]>>,slab |-> <<[wrote |-> FALSE, state |-> "free", rx |-> None, replay |-> FALSE, txLen |-> 0, raddr |-> None, tx |-> None, txck |-> None, txhd |-> None, sends |-> 0, jb |-> None, ew |-> None, rawSA |-> None], [wrote |-> FALSE, state |-> "free", rx |-> None, replay |-> FALSE, txLen |-> 0, raddr |-> None, tx |-> None, txck |-> None, txhd |-> None, sends |-> 0, jb |-> None, ew |-> None, rawSA |-> None], [wrote |-> FALSE, state |-> "free", rx |-> None, replay |-> FALSE, txLen |-> 0, raddr |-> None, tx |-> None, txck |-> None, txhd |-> None, sends |-> 0, jb |-> None, ew |-> None, rawSA |-> None]>>,out |-> (w1 :> [wrote |-> FALSE, handoff |-> FALSE, panic |-> FALSE, set |-> FALSE] @@ rb :> [wrote |-> FALSE, handoff |-> FALSE, panic |-> FALSE, set |-> FALSE]),rheld |-> (rb :> <<>>),wire |-> <<>>,ready |-> <<>>,hpc |-> (w1 :> "poll" @@ rb :> "poll"),burst |-> (w1 :> <<>> @@ rb :> <<>>),alloc |-> {},inbox |-> <<>>]),
    ([cur |-> (w1 :> 0 @@ rb :> 0),leased |-> 0,rpc |-> (rb :> "top"),err |-> "",idle |-> <<>>,pinfo |-> <<[c |-> c1, k |-> "hit", o |-> "none"], [c |-> None, k |-> "hit", o |-> "none"], [c |-> None, k |-> "hit", o |-> "none"]>>,nsent |-> 1,fl |-> (w1 :> "no" @@ rb :> "no"),ov |-> <<"no", "no", "no">>,rpend |-> (rb :> <<>>),inFlight |-> 0,oout |-> <<[wrote |-> FALSE, handoff |-> FALSE, panic |-> FALSE, set |-> FALSE], [wrote |-> FALSE, handoff |-> FALSE, panic |-> FALSE, set |-> FALSE], [wrote |-> FALSE, handoff |-> FALSE, panic |-> FALSE, set |-> FALSE]>>,slab |-> <<[wrote |-> FALSE, state |-> "free", rx |-> None, replay |-> FALSE, txLen |-> 0, raddr |-> None, tx |-> None, txck |-> None, txhd |-> None, sends |-> 0, jb |-> None, ew |-> None, rawSA |-> None], [wrote |-> FALSE, state |-> "free", rx |-> None, replay |-> FALSE, txLen |-> 0, raddr |-> None, tx |-> None, txck |-> None, txhd |-> None, sends |-> 0, jb |-> None, ew |-> None, rawSA |-> None], [wrote |-> FALSE, state |-> "free", rx |-> None, replay |-> FALSE, txLen |-> 0, raddr |-> None, tx |-> None, txck |-> None, txhd |-> None, sends |-> 0, jb |-> None, ew |-> None, rawSA |-> None]>>,out |-> (w1 :> [wrote |-> FALSE, handoff |-> FALSE, panic |-> FALSE, set |-> FALSE] @@ rb :> [wrote |-> FALSE, handoff |-> FALSE, panic |-> FALSE, set |-> FALSE]),rheld |-> (rb :> <<>>),wire |-> <<>>,ready |-> <<>>,hpc |-> (w1 :> "poll" @@ rb :> "poll"),burst |-> (w1 :> <<>> @@ rb :> <<>>),alloc |-> {},inbox |-> <<1>>]),
    ([cur |-> (w1 :> 0 @@ rb :> 0),leased |-> 0,rpc |-> (rb :> "top"),err |-> "",idle |-> <<>>,pinfo |-> <<[c |-> c1, k |-> "hit", o |-> "none"], [c |-> c1, k |-> "malformed", o |-> "none"], [c |-> None, k |-> "hit", o |-> "none"]>>,nsent |-> 2,fl |-> (w1 :> "no" @@ rb :> "no"),ov |-> <<"no", "no", "no">>,rpend |-> (rb :> <<>>),inFlight |-> 0,oout |-> <<[wrote |-> FALSE, handoff |-> FALSE, panic |-> FALSE, set |-> FALSE], [wrote |-> FALSE, handoff |-> FALSE, panic |-> FALSE, set |-> FALSE], [wrote |-> FALSE, handoff |-> FALSE, panic |-> FALSE, set |-> FALSE]>>,slab |-> <<[wrote |-> FALSE, state |-> "free", rx |-> None, replay |-> FALSE, txLen |-> 0, raddr |-> None, tx |-> None, txck |-> None, txhd |-> None, sends |-> 0, jb |-> None, ew |-> None, rawSA |-> None], [wrote |-> FALSE, state |-> "free", rx |-> None, replay |-> FALSE, txLen |-> 0, raddr |-> None, tx |-> None, txck |-> None, txhd |-> None, sends |-> 0, jb |-> None, ew |-> None, rawSA |-> None], [wrote |-> FALSE, state |-> "free", rx |-> None, replay |-> FALSE, txLen |-> 0, raddr |-> None, tx |-> None, txck |-> None, txhd |-> None, sends |-> 0, jb |-> None, ew |-> None, rawSA |-> None]>>,out |-> (w1 :> [wrote |-> FALSE, handoff |-> FALSE, panic |-> FALSE, set |-> FALSE] @@ rb :> [wrote |-> FALSE, handoff |-> FALSE, panic |-> FALSE, set |-> FALSE]),rheld |-> (rb :> <<>>),wire |-> <<>>,ready |-> <<>>,hpc |-> (w1 :> "poll" @@ rb :> "poll"),burst |-> (w1 :> <<>> @@ rb :> <<>>),alloc |-> {},inbox |-> <<1, 2>>]),
    ([cur |-> (w1 :> 0 @@ rb :> 0),leased |-> 0,rpc |-> (rb :> "top"),err |-> "",idle |-> <<>>,pinfo |-> <<[c |-> c1, k |-> "hit", o |-> "none"], [c |-> c1, k |-> "malformed", o |-> "none"], [c |-> c1, k |-> "failhit", o |-> "none"]>>,nsent |-> 3,fl |-> (w1 :> "no" @@ rb :> "no"),ov |-> <<"no", "no", "no">>,rpend |-> (rb :> <<>>),inFlight |-> 0,oout |-> <<[wrote |-> FALSE, handoff |-> FALSE, panic |-> FALSE, set |-> FALSE], [wrote |-> FALSE, handoff |-> FALSE, panic |-> FALSE, set |-> FALSE], [wrote |-> FALSE, handoff |-> FALSE, panic |-> FALSE, set |-> FALSE]>>,slab |-> <<[wrote |-> FALSE, state |-> "free", rx |-> None, replay |-> FALSE, txLen |-> 0, raddr |-> None, tx |-> None, txck |-> None, txhd |-> None, sends |-> 0, jb |-> None, ew |-> None, rawSA |-> None], [wrote |-> FALSE, state |-> "free", rx |-> None, replay |-> FALSE, txLen |-> 0, raddr |-> None, tx |-> None, txck |-> None, txhd |-> None, sends |-> 0, jb |-> None, ew |-> None, rawSA |-> None], [wrote |-> FALSE, state |-> "free", rx |-> None, replay |-> FALSE, txLen |-> 0, raddr |-> None, tx |-> None, txck |-> None, txhd |-> None, sends |-> 0, jb |-> None, ew |-> None, rawSA |-> None]>>,out |-> (w1 :> [wrote |-> FALSE, handoff |-> FALSE, panic |-> FALSE, set |-> FALSE] @@ rb :> [wrote |-> FALSE, handoff |-> FALSE, panic |-> FALSE, set |-> FALSE]),rheld |-> (rb :> <<>>),wire |-> <<>>,ready |-> <<>>,hpc |-> (w1 :> "poll" @@ rb :> "poll"),burst |-> (w1 :> <<>> @@ rb :> <<>>),alloc |-> {},inbox |-> <<1, 2, 3>>]),
    ([cur |-> (w1 :> 0 @@ rb :> 0),leased |-> 1,rpc |-> (rb :> "took"),err |-> "",idle |-> <<>>,pinfo |-> <<[c |-> c1, k |-> "hit", o |-> "none"], [c |-> c1, k |-> "malformed", o |-> "none"], [c |-> c1, k |-> "failhit", o |-> "none"]>>,nsent |-> 3,fl |-> (w1 :> "no" @@ rb :> "no"),ov |-> <<"no", "no", "no">>,rpend |-> (rb :> <<>>),inFlight |-> 0,oout |-> <<[wrote |-> FALSE, handoff |-> FALSE, panic |-> FALSE, set |-> FALSE], [wrote |-> FALSE, handoff |-> FALSE, panic |-> FALSE, set |-> FALSE], [wrote |-> FALSE, handoff |-> FALSE, panic |-> FALSE, set |-> FALSE]>>,slab |-> <<[wrote |-> FALSE, state |-> "free", rx |-> None, replay |-> FALSE, txLen |-> 0, raddr |-> None, tx |-> None, txck |-> None, txhd |-> None, sends |-> 0, jb |-> None, ew |-> None, rawSA |-> None], [wrote |-> FALSE, state |-> "free", rx |-> None, replay |-> FALSE, txLen |-> 0, raddr |-> None, tx |-> None, txck |-> None, txhd |-> None, sends |-> 0, jb |-> None, ew |-> None, rawSA |-> None], [wrote |-> FALSE, state |-> "free", rx |-> None, replay |-> FALSE, txLen |-> 0, raddr |-> None, tx |-> None, txck |-> None, txhd |-> None, sends |-> 0, jb |-> None, ew |-> None, rawSA |-> None]>>,out |-> (w1 :> [wrote |-> FALSE, handoff |-> FALSE, panic |-> FALSE, set |-> FALSE] @@ rb :> [wrote |-> FALSE, handoff |-> FALSE, panic |-> FALSE, set |-> FALSE]),rheld |-> (rb :> <<>>),wire |-> <<>>,ready |-> <<>>,hpc |-> (w1 :> "poll" @@ rb :> "poll"),burst |-> (w1 :> <<>> @@ rb :> <<>>),alloc |-> {},inbox |-> <<1, 2, 3>>]),
    ([cur |-> (w1 :> 0 @@ rb :> 0),leased |-> 1,rpc |-> (rb :> "top"),err |-> "",idle |-> <<>>,pinfo |-> <<[c |-> c1, k |-> "hit", o |-> "none"], [c |-> c1, k |-> "malformed", o |-> "none"], [c |-> c1, k |-> "failhit", o |-> "none"]>>,nsent |-> 3,fl |-> (w1 :> "no" @@ rb :> "no"),ov |-> <<"no", "no", "no">>,rpend |-> (rb :> <<>>),inFlight |-> 0,oout |-> <<[wrote |-> FALSE, handoff |-> FALSE, panic |-> FALSE, set |-> FALSE], [wrote |-> FALSE, handoff |-> FALSE, panic |-> FALSE, set |-> FALSE], [wrote |-> FALSE, handoff |-> FALSE, panic |-> FALSE, set |-> FALSE]>>,slab |-> <<[wrote |-> FALSE, state |-> "reading", rx |-> None, replay |-> FALSE, txLen |-> 0, raddr |-> None, tx |-> None, txck |-> None, txhd |-> None, sends |-> 0, jb |-> None, ew |-> None, rawSA |-> None], [wrote |-> FALSE, state |-> "free", rx |-> None, replay |-> FALSE, txLen |-> 0, raddr |-> None, tx |-> None, txck |-> None, txhd |-> None, sends |-> 0, jb |-> None, ew |-> None, rawSA |-> None], [wrote |-> FALSE, state |-> "free", rx |-> None, replay |-> FALSE, txLen |-> 0, raddr |-> None, tx |-> None, txck |-> None, txhd |-> None, sends |-> 0, jb |-> None, ew |-> None, rawSA |-> None]>>,out |-> (w1 :> [wrote |-> FALSE, handoff |-> FALSE, panic |-> FALSE, set |-> FALSE] @@ rb :> [wrote |-> FALSE, handoff |-> FALSE, panic |-> FALSE, set |-> FALSE]),rheld |-> (rb :> <<1>>),wire |-> <<>>,ready |-> <<>>,hpc |-> (w1 :> "poll" @@ rb :> "poll"),burst |-> (w1 :> <<>> @@ rb :> <<>>),alloc |-> {1},inbox |-> <<1, 2, 3>>]),
    ([cur |-> (w1 :> 0 @@ rb :> 0),leased |-> 2,rpc |-> (rb :> "took"),err |-> "",idle |-> <<>>,pinfo |-> <<[c |-> c1, k |-> "hit", o |-> "none"], [c |-> c1, k |-> "malformed", o |-> "none"], [c |-> c1, k |-> "failhit", o |-> "none"]>>,nsent |-> 3,fl |-> (w1 :> "no" @@ rb :> "no"),ov |-> <<"no", "no", "no">>,rpend |-> (rb :> <<>>),inFlight |-> 0,oout |-> <<[wrote |-> FALSE, handoff |-> FALSE, panic |-> FALSE, set |-> FALSE], [wrote |-> FALSE, handoff |-> FALSE, panic |-> FALSE, set |-> FALSE], [wrote |-> FALSE, handoff |-> FALSE, panic |-> FALSE, set |-> FALSE]>>,slab |-> <<[wrote |-> FALSE, state |-> "reading", rx |-> None, replay |-> FALSE, txLen |-> 0, raddr |-> None, tx |-> None, txck |-> None, txhd |-> None, sends |-> 0, jb |-> None, ew |-> None, rawSA |-> None], [wrote |-> FALSE, state |-> "free", rx |-> None, replay |-> FALSE, txLen |-> 0, raddr |-> None, tx |-> None, txck |-> None, txhd |-> None, sends |-> 0, jb |-> None, ew |-> None, rawSA |-> None], [wrote |-> FALSE, state |-> "free", rx |-> None, replay |-> FALSE, txLen |-> 0, raddr |-> None, tx |-> None, txck |-> None, txhd |-> None, sends |-> 0, jb |-> None, ew |-> None, rawSA |-> None]>>,out |-> (w1 :> [wrote |-> FALSE, handoff |-> FALSE, panic |-> FALSE, set |-> FALSE] @@ rb :> [wrote |-> FALSE, handoff |-> FALSE, panic |-> FALSE, set |-> FALSE]),rheld |-> (rb :> <<1>>),wire |-> <<>>,ready |-> <<>>,hpc |-> (w1 :> "poll" @@ rb :> "poll"),burst |-> (w1 :> <<>> @@ rb :> <<>>),alloc |-> {1},inbox |-> <<1, 2, 3>>]),
    ([cur |-> (w1 :> 0 @@ rb :> 0),leased |-> 2,rpc |-> (rb :> "top"),err |-> "",idle |-> <<>>,pinfo |-> <<[c |-> c1, k |-> "hit", o |-> "none"], [c |-> c1, k |-> "malformed", o |-> "none"], [c |-> c1, k |-> "failhit", o |-> "none"]>>,nsent |-> 3,fl |-> (w1 :> "no" @@ rb :> "no"),ov |-> <<"no", "no", "no">>,rpend |-> (rb :> <<>>),inFlight |-> 0,oout |-> <<[wrote |-> FALSE, handoff |-> FALSE, panic |-> FALSE, set |-> FALSE], [wrote |-> FALSE, handoff |-> FALSE, panic |-> FALSE, set |-> FALSE], [wrote |-> FALSE, handoff |-> FALSE, panic |-> FALSE, set |-> FALSE]>>,slab |-> <<[wrote |-> FALSE, state |-> "reading", rx |-> None, replay |-> FALSE, txLen |-> 0, raddr |-> None, tx |-> None, txck |-> None, txhd |-> None, sends |-> 0, jb |-> None, ew |-> None, rawSA |-> None], [wrote |-> FALSE, state |-> "reading", rx |-> None, replay |-> FALSE, txLen |-> 0, raddr |-> None, tx |-> None, txck |-> None, txhd |-> None, sends |-> 0, jb |-> None, ew |-> None, rawSA |-> None], [wrote |-> FALSE, state |-> "free", rx |-> None, replay |-> FALSE, txLen |-> 0, raddr |-> None, tx |-> None, txck |-> None, txhd |-> None, sends |-> 0, jb |-> None, ew |-> None, rawSA |-> None]>>,out |-> (w1 :> [wrote |-> FALSE, handoff |-> FALSE, panic |-> FALSE, set |-> FALSE] @@ rb :> [wrote |-> FALSE, handoff |-> FALSE, panic |-> FALSE, set |-> FALSE]),rheld |-> (rb :> <<1, 2>>),wire |-> <<>>,ready |-> <<>>,hpc |-> (w1 :> "poll" @@ rb :> "poll"),burst |-> (w1 :> <<>> @@ rb :> <<>>),alloc |-> {1, 2},inbox |-> <<1, 2, 3>>]),
    ([cur |-> (w1 :> 0 @@ rb :> 0),leased |-> 2,rpc |-> (rb :> "armed"),err |-> "",idle |-> <<>>,pinfo |-> <<[c |-> c1, k |-> "hit", o |-> "none"], [c |-> c1, k |-> "malformed", o |-> "none"], [c |-> c1, k |-> "failhit", o |-> "none"]>>,nsent |-> 3,fl |-> (w1 :> "no" @@ rb :> "no"),ov |-> <<"no", "no", "no">>,rpend |-> (rb :> <<>>),inFlight |-> 0,oout |-> <<[wrote |-> FALSE, handoff |-> FALSE, panic |-> FALSE, set |-> FALSE], [wrote |-> FALSE, handoff |-> FALSE, panic |-> FALSE, set |-> FALSE], [wrote |-> FALSE, handoff |-> FALSE, panic |-> FALSE, set |-> FALSE]>>,slab |-> <<[wrote |-> FALSE, state |-> "reading", rx |-> None, replay |-> FALSE, txLen |-> 0, raddr |-> None, tx |-> None, txck |-> None, txhd |-> None, sends |-> 0, jb |-> None, ew |-> None, rawSA |-> None], [wrote |-> FALSE, state |-> "reading", rx |-> None, replay |-> FALSE, txLen |-> 0, raddr |-> None, tx |-> None, txck |-> None, txhd |-> None, sends |-> 0, jb |-> None, ew |-> None, rawSA |-> None], [wrote |-> FALSE, state |-> "free", rx |-> None, replay |-> FALSE, txLen |-> 0, raddr |-> None, tx |-> None, txck |-> None, txhd |-> None, sends |-> 0, jb |-> None, ew |-> None, rawSA |-> None]>>,out |-> (w1 :> [wrote |-> FALSE, handoff |-> FALSE, panic |-> FALSE, set |-> FALSE] @@ rb :> [wrote |-> FALSE, handoff |-> FALSE, panic |-> FALSE, set |-> FALSE]),rheld |-> (rb :> <<1, 2>>),wire |-> <<>>,ready |-> <<>>,hpc |-> (w1 :> "poll" @@ rb :> "poll"),burst |-> (w1 :> <<>> @@ rb :> <<>>),alloc |-> {1, 2},inbox |-> <<1, 2, 3>>]),
    ([cur |-> (w1 :> 0 @@ rb :> 0),leased |-> 2,rpc |-> (rb :> "fin"),err |-> "",idle |-> <<>>,pinfo |-> <<[c |-> c1, k |-> "hit", o |-> "none"], [c |-> c1, k |-> "malformed", o |-> "none"], [c |-> c1, k |-> "failhit", o |-> "none"]>>,nsent |-> 3,fl |-> (w1 :> "no" @@ rb :> "no"),ov |-> <<"no", "no", "no">>,rpend |-> (rb :> <<1>>),inFlight |-> 0,oout |-> <<[wrote |-> FALSE, handoff |-> FALSE, panic |-> FALSE, set |-> FALSE], [wrote |-> FALSE, handoff |-> FALSE, panic |-> FALSE, set |-> FALSE], [wrote |-> FALSE, handoff |-> FALSE, panic |-> FALSE, set |-> FALSE]>>,slab |-> <<[wrote |-> FALSE, state |-> "reading", rx |-> 1, replay |-> FALSE, txLen |-> 0, raddr |-> c1, tx |-> None, txck |-> None, txhd |-> None, sends |-> 0, jb |-> None, ew |-> None, rawSA |-> c1], [wrote |-> FALSE, state |-> "reading", rx |-> None, replay |-> FALSE, txLen |-> 0, raddr |-> None, tx |-> None, txck |-> None, txhd |-> None, sends |-> 0, jb |-> None, ew |-> None, rawSA |-> None], [wrote |-> FALSE, state |-> "free", rx |-> None, replay |-> FALSE, txLen |-> 0, raddr |-> None, tx |-> None, txck |-> None, txhd |-> None, sends |-> 0, jb |-> None, ew |-> None, rawSA |-> None]>>,out |-> (w1 :> [wrote |-> FALSE, handoff |-> FALSE, panic |-> FALSE, set |-> FALSE] @@ rb :> [wrote |-> FALSE, handoff |-> FALSE, panic |-> FALSE, set |-> FALSE]),rheld |-> (rb :> <<2>>),wire |-> <<>>,ready |-> <<>>,hpc |-> (w1 :> "poll" @@ rb :> "poll"),burst |-> (w1 :> <<>> @@ rb :> <<>>),alloc |-> {1, 2},inbox |-> <<2, 3>>]),
    ([cur |-> (w1 :> 0 @@ rb :> 1),leased |-> 2,rpc |-> (rb :> "inl"),err |-> "",idle |-> <<>>,pinfo |-> <<[c |-> c1, k |-> "hit", o |-> "none"], [c |-> c1, k |-> "malformed", o |-> "none"], [c |-> c1, k |-> "failhit", o |-> "none"]>>,nsent |-> 3,fl |-> (w1 :> "no" @@ rb :> "no"),ov |-> <<"no", "no", "no">>,rpend |-> (rb :> <<>>),inFlight |-> 1,oout |-> <<[wrote |-> FALSE, handoff |-> FALSE, panic |-> FALSE, set |-> FALSE], [wrote |-> FALSE, handoff |-> FALSE, panic |-> FALSE, set |-> FALSE], [wrote |-> FALSE, handoff |-> FALSE, panic |-> FALSE, set |-> FALSE]>>,slab |-> <<[wrote |-> FALSE, state |-> "serving", rx |-> 1, replay |-> FALSE, txLen |-> 0, raddr |-> c1, tx |-> None, txck |-> None, txhd |-> None, sends |-> 0, jb |-> rb, ew |-> None, rawSA |-> c1], [wrote |-> FALSE, state |-> "reading", rx |-> None, replay |-> FALSE, txLen |-> 0, raddr |-> None, tx |-> None, txck |-> None, txhd |-> None, sends |-> 0, jb |-> None, ew |-> None, rawSA |-> None], [wrote |-> FALSE, state |-> "free", rx |-> None, replay |-> FALSE, txLen |-> 0, raddr |-> None, tx |-> None, txck |-> None, txhd |-> None, sends |-> 0, jb |-> None, ew |-> None, rawSA |-> None]>>,out |-> (w1 :> [wrote |-> FALSE, handoff |-> FALSE, panic |-> FALSE, set |-> FALSE] @@ rb :> [wrote |-> FALSE, handoff |-> FALSE, panic |-> FALSE, set |-> FALSE]),rheld |-> (rb :> <<2>>),wire |-> <<>>,ready |-> <<>>,hpc |-> (w1 :> "poll" @@ rb :> "poll"),burst |-> (w1 :> <<>> @@ rb :> <<>>),alloc |-> {1, 2},inbox |-> <<2, 3>>]),
    ([cur |-> (w1 :> 0 @@ rb :> 1),leased |-> 2,rpc |-> (rb :> "inl"),err |-> "",idle |-> <<>>,pinfo |-> <<[c |-> c1, k |-> "hit", o |-> "none"], [c |-> c1, k |-> "malformed", o |-> "none"], [c |-> c1, k |-> "failhit", o |-> "none"]>>,nsent |-> 3,fl |-> (w1 :> "no" @@ rb :> "no"),ov |-> <<"no", "no", "no">>,rpend |-> (rb :> <<>>),inFlight |-> 1,oout |-> <<[wrote |-> FALSE, handoff |-> FALSE, panic |-> FALSE, set |-> FALSE], [wrote |-> FALSE, handoff |-> FALSE, panic |-> FALSE, set |-> FALSE], [wrote |-> FALSE, handoff |-> FALSE, panic |-> FALSE, set |-> FALSE]>>,slab |-> <<[wrote |-> TRUE, state |-> "serving", rx |-> 1, replay |-> FALSE, txLen |-> 1, raddr |-> c1, tx |-> 1, txck |-> None, txhd |-> 1, sends |-> 0, jb |-> rb, ew |-> None, rawSA |-> c1], [wrote |-> FALSE, state |-> "reading", rx |-> None, replay |-> FALSE, txLen |-> 0, raddr |-> None, tx |-> None, txck |-> None, txhd |-> None, sends |-> 0, jb |-> None, ew |-> None, rawSA |-> None], [wrote |-> FALSE, state |-> "free", rx |-> None, replay |-> FALSE, txLen |-> 0, raddr |-> None, tx |-> None, txck |-> None, txhd |-> None, sends |-> 0, jb |-> None, ew |-> None, rawSA |-> None]>>,out |-> (w1 :> [wrote |-> FALSE, handoff |-> FALSE, panic |-> FALSE, set |-> FALSE] @@ rb :> [wrote |-> TRUE, handoff |-> FALSE, panic |-> FALSE, set |-> TRUE]),rheld |-> (rb :> <<2>>),wire |-> <<>>,ready |-> <<>>,hpc |-> (w1 :> "poll" @@ rb :> "poll"),burst |-> (w1 :> <<>> @@ rb :> <<>>),alloc |-> {1, 2},inbox |-> <<2, 3>>]),
    ([cur |-> (w1 :> 0 @@ rb :> 0),leased |-> 2,rpc |-> (rb :> "fin"),err |-> "",idle |-> <<>>,pinfo |-> <<[c |-> c1, k |-> "hit", o |-> "none"], [c |-> c1, k |-> "malformed", o |-> "none"], [c |-> c1, k |-> "failhit", o |-> "none"]>>,nsent |-> 3,fl |-> (w1 :> "no" @@ rb :> "no"),ov |-> <<"no", "no", "no">>,rpend |-> (rb :> <<>>),inFlight |-> 1,oout |-> <<[wrote |-> FALSE, handoff |-> FALSE, panic |-> FALSE, set |-> FALSE], [wrote |-> FALSE, handoff |-> FALSE, panic |-> FALSE, set |-> FALSE], [wrote |-> FALSE, handoff |-> FALSE, panic |-> FALSE, set |-> FALSE]>>,slab |-> <<[wrote |-> TRUE, state |-> "serving", rx |-> 1, replay |-> FALSE, txLen |-> 1, raddr |-> c1, tx |-> 1, txck |-> None, txhd |-> 1, sends |-> 0, jb |-> None, ew |-> None, rawSA |-> c1], [wrote |-> FALSE, state |-> "reading", rx |-> None, replay |-> FALSE, txLen |-> 0, raddr |-> None, tx |-> None, txck |-> None, txhd |-> None, sends |-> 0, jb |-> None, ew |-> None, rawSA |-> None], [wrote |-> FALSE, state |-> "free", rx |-> None, replay |-> FALSE, txLen |-> 0, raddr |-> None, tx |-> None, txck |-> None, txhd |-> None, sends |-> 0, jb |-> None, ew |-> None, rawSA |-> None]>>,out |-> (w1 :> [wrote |-> FALSE, handoff |-> FALSE, panic |-> FALSE, set |-> FALSE] @@ rb :> [wrote |-> TRUE, handoff |-> FALSE, panic |-> FALSE, set |-> TRUE]),rheld |-> (rb :> <<2>>),wire |-> <<>>,ready |-> <<>>,hpc |-> (w1 :> "poll" @@ rb :> "poll"),burst |-> (w1 :> <<>> @@ rb :> <<1>>),alloc |-> {1, 2},inbox |-> <<2, 3>>]),
    ([cur |-> (w1 :> 0 @@ rb :> 0),leased |-> 2,rpc |-> (rb :> "fin"),err |-> "",idle |-> <<>>,pinfo |-> <<[c |-> c1, k |-> "hit", o |-> "none"], [c |-> c1, k |-> "malformed", o |-> "none"], [c |-> c1, k |-> "failhit", o |-> "none"]>>,nsent |-> 3,fl |-> (w1 :> "no" @@ rb :> "send"),ov |-> <<"no", "no", "no">>,rpend |-> (rb :> <<>>),inFlight |-> 1,oout |-> <<[wrote |-> FALSE, handoff |-> FALSE, panic |-> FALSE, set |-> FALSE], [wrote |-> FALSE, handoff |-> FALSE, panic |-> FALSE, set |-> FALSE], [wrote |-> FALSE, handoff |-> FALSE, panic |-> FALSE, set |-> FALSE]>>,slab |-> <<[wrote |-> TRUE, state |-> "serving", rx |-> 1, replay |-> FALSE, txLen |-> 1, raddr |-> c1, tx |-> 1, txck |-> None, txhd |-> 1, sends |-> 0, jb |-> None, ew |-> None, rawSA |-> c1], [wrote |-> FALSE, state |-> "reading", rx |-> None, replay |-> FALSE, txLen |-> 0, raddr |-> None, tx |-> None, txck |-> None, txhd |-> None, sends |-> 0, jb |-> None, ew |-> None, rawSA |-> None], [wrote |-> FALSE, state |-> "free", rx |-> None, replay |-> FALSE, txLen |-> 0, raddr |-> None, tx |-> None, txck |-> None, txhd |-> None, sends |-> 0, jb |-> None, ew |-> None, rawSA |-> None]>>,out |-> (w1 :> [wrote |-> FALSE, handoff |-> FALSE, panic |-> FALSE, set |-> FALSE] @@ rb :> [wrote |-> TRUE, handoff |-> FALSE, panic |-> FALSE, set |-> TRUE]),rheld |-> (rb :> <<2>>),wire |-> <<>>,ready |-> <<>>,hpc |-> (w1 :> "poll" @@ rb :> "poll"),burst |-> (w1 :> <<>> @@ rb :> <<1>>),alloc |-> {1, 2},inbox |-> <<2, 3>>]),
    ([cur |-> (w1 :> 0 @@ rb :> 0),leased |-> 2,rpc |-> (rb :> "fin"),err |-> "",idle |-> <<>>,pinfo |-> <<[c |-> c1, k |-> "hit", o |-> "none"], [c |-> c1, k |-> "malformed", o |-> "none"], [c |-> c1, k |-> "failhit", o |-> "none"]>>,nsent |-> 3,fl |-> (w1 :> "no" @@ rb :> "rel"),ov |-> <<"no", "no", "no">>,rpend |-> (rb :> <<>>),inFlight |-> 1,oout |-> <<[wrote |-> FALSE, handoff |-> FALSE, panic |-> FALSE, set |-> FALSE], [wrote |-> FALSE, handoff |-> FALSE, panic |-> FALSE, set |-> FALSE], [wrote |-> FALSE, handoff |-> FALSE, panic |-> FALSE, set |-> FALSE]>>,slab |-> <<[wrote |-> TRUE, state |-> "serving", rx |-> 1, replay |-> FALSE, txLen |-> 1, raddr |-> c1, tx |-> 1, txck |-> None, txhd |-> 1, sends |-> 1, jb |-> None, ew |-> None, rawSA |-> c1], [wrote |-> FALSE, state |-> "reading", rx |-> None, replay |-> FALSE, txLen |-> 0, raddr |-> None, tx |-> None, txck |-> None, txhd |-> None, sends |-> 0, jb |-> None, ew |-> None, rawSA |-> None], [wrote |-> FALSE, state |-> "free", rx |-> None, replay |-> FALSE, txLen |-> 0, raddr |-> None, tx |-> None, txck |-> None, txhd |-> None, sends |-> 0, jb |-> None, ew |-> None, rawSA |-> None]>>,out |-> (w1 :> [wrote |-> FALSE, handoff |-> FALSE, panic |-> FALSE, set |-> FALSE] @@ rb :> [wrote |-> TRUE, handoff |-> FALSE, panic |-> FALSE, set |-> TRUE]),rheld |-> (rb :> <<2>>),wire |-> <<>>,ready |-> <<>>,hpc |-> (w1 :> "poll" @@ rb :> "poll"),burst |-> (w1 :> <<>> @@ rb :> <<1>>),alloc |-> {1, 2},inbox |-> <<2, 3>>]),
    ([cur |-> (w1 :> 0 @@ rb :> 0),leased |-> 1,rpc |-> (rb :> "fin"),err |-> "",idle |-> <<1>>,pinfo |-> <<[c |-> None, k |-> "hit", o |-> "none"], [c |-> c1, k |-> "malformed", o |-> "none"], [c |-> c1, k |-> "failhit", o |-> "none"]>>,nsent |-> 3,fl |-> (w1 :> "no" @@ rb :> "rel"),ov |-> <<"no", "no", "no">>,rpend |-> (rb :> <<>>),inFlight |-> 0,oout |-> <<[wrote |-> FALSE, handoff |-> FALSE, panic |-> FALSE, set |-> FALSE], [wrote |-> FALSE, handoff |-> FALSE, panic |-> FALSE, set |-> FALSE], [wrote |-> FALSE, handoff |-> FALSE, panic |-> FALSE, set |-> FALSE]>>,slab |-> <<[wrote |-> FALSE, state |-> "free", rx |-> None, replay |-> FALSE, txLen |-> 0, raddr |-> c1, tx |-> 1, txck |-> None, txhd |-> 1, sends |-> 0, jb |-> None, ew |-> None, rawSA |-> c1], [wrote |-> FALSE, state |-> "reading", rx |-> None, replay |-> FALSE, txLen |-> 0, raddr |-> None, tx |-> None, txck |-> None, txhd |-> None, sends |-> 0, jb |-> None, ew |-> None, rawSA |-> None], [wrote |-> FALSE, state |-> "free", rx |-> None, replay |-> FALSE, txLen |-> 0, raddr |-> None, tx |-> None, txck |-> None, txhd |-> None, sends |-> 0, jb |-> None, ew |-> None, rawSA |-> None]>>,out |-> (w1 :> [wrote |-> FALSE, handoff |-> FALSE, panic |-> FALSE, set |-> FALSE] @@ rb :> [wrote |-> TRUE, handoff |-> FALSE, panic |-> FALSE, set |-> TRUE]),rheld |-> (rb :> <<2>>),wire |-> <<>>,ready |-> <<>>,hpc |-> (w1 :> "poll" @@ rb :> "poll"),burst |-> (w1 :> <<>> @@ rb :> <<>>),alloc |-> {1, 2},inbox |-> <<2, 3>>]),
    ([cur |-> (w1 :> 0 @@ rb :> 0),leased |-> 1,rpc |-> (rb :> "top"),err |-> "",idle |-> <<1>>,pinfo |-> <<[c |-> None, k |-> "hit", o |-> "none"], [c |-> c1, k |-> "malformed", o |-> "none"], [c |-> c1, k |-> "failhit", o |-> "none"]>>,nsent |-> 3,fl |-> (w1 :> "no" @@ rb :> "no"),ov |-> <<"no", "no", "no">>,rpend |-> (rb :> <<>>),inFlight |-> 0,oout |-> <<[wrote |-> FALSE, handoff |-> FALSE, panic |-> FALSE, set |-> FALSE], [wrote |-> FALSE, handoff |-> FALSE, panic |-> FALSE, set |-> FALSE], [wrote |-> FALSE, handoff |-> FALSE, panic |-> FALSE, set |-> FALSE]>>,slab |-> <<[wrote |-> FALSE, state |-> "free", rx |-> None, replay |-> FALSE, txLen |-> 0, raddr |-> c1, tx |-> 1, txck |-> None, txhd |-> 1, sends |-> 0, jb |-> None, ew |-> None, rawSA |-> c1], [wrote |-> FALSE, state |-> "reading", rx |-> None, replay |-> FALSE, txLen |-> 0, raddr |-> None, tx |-> None, txck |-> None, txhd |-> None, sends |-> 0, jb |-> None, ew |-> None, rawSA |-> None], [wrote |-> FALSE, state |-> "free", rx |-> None, replay |-> FALSE, txLen |-> 0, raddr |-> None, tx |-> None, txck |-> None, txhd |-> None, sends |-> 0, jb |-> None, ew |-> None, rawSA |-> None]>>,out |-> (w1 :> [wrote |-> FALSE, handoff |-> FALSE, panic |-> FALSE, set |-> FALSE] @@ rb :> [wrote |-> TRUE, handoff |-> FALSE, panic |-> FALSE, set |-> TRUE]),rheld |-> (rb :> <<2>>),wire |-> <<>>,ready |-> <<>>,hpc |-> (w1 :> "poll" @@ rb :> "poll"),burst |-> (w1 :> <<>> @@ rb :> <<>>),alloc |-> {1, 2},inbox |-> <<2, 3>>]),
    ([cur |-> (w1 :> 0 @@ rb :> 0),leased |-> 2,rpc |-> (rb :> "took"),err |-> "",idle |-> <<1>>,pinfo |-> <<[c |-> None, k |-> "hit", o |-> "none"], [c |-> c1, k |-> "malformed", o |-> "none"], [c |-> c1, k |-> "failhit", o |-> "none"]>>,nsent |-> 3,fl |-> (w1 :> "no" @@ rb :> "no"),ov |-> <<"no", "no", "no">>,rpend |-> (rb :> <<>>),inFlight |-> 0,oout |-> <<[wrote |-> FALSE, handoff |-> FALSE, panic |-> FALSE, set |-> FALSE], [wrote |-> FALSE, handoff |-> FALSE, panic |-> FALSE, set |-> FALSE], [wrote |-> FALSE, handoff |-> FALSE, panic |-> FALSE, set |-> FALSE]>>,slab |-> <<[wrote |-> FALSE, state |-> "free", rx |-> None, replay |-> FALSE, txLen |-> 0, raddr |-> c1, tx |-> 1, txck |-> None, txhd |-> 1, sends |-> 0, jb |-> None, ew |-> None, rawSA |-> c1], [wrote |-> FALSE, state |-> "reading", rx |-> None, replay |-> FALSE, txLen |-> 0, raddr |-> None, tx |-> None, txck |-> None, txhd |-> None, sends |-> 0, jb |-> None, ew |-> None, rawSA |-> None], [wrote |-> FALSE, state |-> "free", rx |-> None, replay |-> FALSE, txLen |-> 0, raddr |-> None, tx |-> None, txck |-> None, txhd |-> None, sends |-> 0, jb |-> None, ew |-> None, rawSA |-> None]>>,out |-> (w1 :> [wrote |-> FALSE, handoff |-> FALSE, panic |-> FALSE, set |-> FALSE] @@ rb :> [wrote |-> TRUE, handoff |-> FALSE, panic |-> FALSE, set |-> TRUE]),rheld |-> (rb :> <<2>>),wire |-> <<>>,ready |-> <<>>,hpc |-> (w1 :> "poll" @@ rb :> "poll"),burst |-> (w1 :> <<>> @@ rb :> <<>>),alloc |-> {1, 2},inbox |-> <<2, 3>>]),
    ([cur |-> (w1 :> 0 @@ rb :> 0),leased |-> 2,rpc |-> (rb :> "top"),err |-> "",idle |-> <<>>,pinfo |-> <<[c |-> None, k |-> "hit", o |-> "none"], [c |-> c1, k |-> "malformed", o |-> "none"], [c |-> c1, k |-> "failhit", o |-> "none"]>>,nsent |-> 3,fl |-> (w1 :> "no" @@ rb :> "no"),ov |-> <<"no", "no", "no">>,rpend |-> (rb :> <<>>),inFlight |-> 0,oout |-> <<[wrote |-> FALSE, handoff |-> FALSE, panic |-> FALSE, set |-> FALSE], [wrote |-> FALSE, handoff |-> FALSE, panic |-> FALSE, set |-> FALSE], [wrote |-> FALSE, handoff |-> FALSE, panic |-> FALSE, set |-> FALSE]>>,slab |-> <<[wrote |-> FALSE, state |-> "reading", rx |-> None, replay |-> FALSE, txLen |-> 0, raddr |-> c1, tx |-> 1, txck |-> None, txhd |-> 1, sends |-> 0, jb |-> None, ew |-> None, rawSA |-> c1], [wrote |-> FALSE, state |-> "reading", rx |-> None, replay |-> FALSE, txLen |-> 0, raddr |-> None, tx |-> None, txck |-> None, txhd |-> None, sends |-> 0, jb |-> None, ew |-> None, rawSA |-> None], [wrote |-> FALSE, state |-> "free", rx |-> None, replay |-> FALSE, txLen |-> 0, raddr |-> None, tx |-> None, txck |-> None, txhd |-> None, sends |-> 0, jb |-> None, ew |-> None, rawSA |-> None]>>,out |-> (w1 :> [wrote |-> FALSE, handoff |-> FALSE, panic |-> FALSE, set |-> FALSE] @@ rb :> [wrote |-> TRUE, handoff |-> FALSE, panic |-> FALSE, set |-> TRUE]),rheld |-> (rb :> <<2, 1>>),wire |-> <<>>,ready |-> <<>>,hpc |-> (w1 :> "poll" @@ rb :> "poll"),burst |-> (w1 :> <<>> @@ rb :> <<>>),alloc |-> {1, 2},inbox |-> <<2, 3>>]),
    ([cur |-> (w1 :> 0 @@ rb :> 0),leased |-> 2,rpc |-> (rb :> "armed"),err |-> "",idle |-> <<>>,pinfo |-> <<[c |-> None, k |-> "hit", o |-> "none"], [c |-> c1, k |-> "malformed", o |-> "none"], [c |-> c1, k |-> "failhit", o |-> "none"]>>,nsent |-> 3,fl |-> (w1 :> "no" @@ rb :> "no"),ov |-> <<"no", "no", "no">>,rpend |-> (rb :> <<>>),inFlight |-> 0,oout |-> <<[wrote |-> FALSE, handoff |-> FALSE, panic |-> FALSE, set |-> FALSE], [wrote |-> FALSE, handoff |-> FALSE, panic |-> FALSE, set |-> FALSE], [wrote |-> FALSE, handoff |-> FALSE, panic |-> FALSE, set |-> FALSE]>>,slab |-> <<[wrote |-> FALSE, state |-> "reading", rx |-> None, replay |-> FALSE, txLen |-> 0, raddr |-> c1, tx |-> 1, txck |-> None, txhd |-> 1, sends |-> 0, jb |-> None, ew |-> None, rawSA |-> c1], [wrote |-> FALSE, state |-> "reading", rx |-> None, replay |-> FALSE, txLen |-> 0, raddr |-> None, tx |-> None, txck |-> None, txhd |-> None, sends |-> 0, jb |-> None, ew |-> None, rawSA |-> None], [wrote |-> FALSE, state |-> "free", rx |-> None, replay |-> FALSE, txLen |-> 0, raddr |-> None, tx |-> None, txck |-> None, txhd |-> None, sends |-> 0, jb |-> None, ew |-> None, rawSA |-> None]>>,out |-> (w1 :> [wrote |-> FALSE, handoff |-> FALSE, panic |-> FALSE, set |-> FALSE] @@ rb :> [wrote |-> TRUE, handoff |-> FALSE, panic |-> FALSE, set |-> TRUE]),rheld |-> (rb :> <<2, 1>>),wire |-> <<>>,ready |-> <<>>,hpc |-> (w1 :> "poll" @@ rb :> "poll"),burst |-> (w1 :> <<>> @@ rb :> <<>>),alloc |-> {1, 2},inbox |-> <<2, 3>>]),
    ([cur |-> (w1 :> 0 @@ rb :> 0),leased |-> 2,rpc |-> (rb :> "fin"),err |-> "",idle |-> <<>>,pinfo |-> <<[c |-> None, k |-> "hit", o |-> "none"], [c |-> c1, k |-> "malformed", o |-> "none"], [c |-> c1, k |-> "failhit", o |-> "none"]>>,nsent |-> 3,fl |-> (w1 :> "no" @@ rb :> "no"),ov |-> <<"no", "no", "no">>,rpend |-> (rb :> <<2, 1>>),inFlight |-> 0,oout |-> <<[wrote |-> FALSE, handoff |-> FALSE, panic |-> FALSE, set |-> FALSE], [wrote |-> FALSE, handoff |-> FALSE, panic |-> FALSE, set |-> FALSE], [wrote |-> FALSE, handoff |-> FALSE, panic |-> FALSE, set |-> FALSE]>>,slab |-> <<[wrote |-> FALSE, state |-> "reading", rx |-> 3, replay |-> FALSE, txLen |-> 0, raddr |-> c1, tx |-> 1, txck |-> None, txhd |-> 1, sends |-> 0, jb |-> None, ew |-> None, rawSA |-> c1], [wrote |-> FALSE, state |-> "reading", rx |-> 2, replay |-> FALSE, txLen |-> 0, raddr |-> c1, tx |-> None, txck |-> None, txhd |-> None, sends |-> 0, jb |-> None, ew |-> None, rawSA |-> c1], [wrote |-> FALSE, state |-> "free", rx |-> None, replay |-> FALSE, txLen |-> 0, raddr |-> None, tx |-> None, txck |-> None, txhd |-> None, sends |-> 0, jb |-> None, ew |-> None, rawSA |-> None]>>,out |-> (w1 :> [wrote |-> FALSE, handoff |-> FALSE, panic |-> FALSE, set |-> FALSE] @@ rb :> [wrote |-> TRUE, handoff |-> FALSE, panic |-> FALSE, set |-> TRUE]),rheld |-> (rb :> <<>>),wire |-> <<>>,ready |-> <<>>,hpc |-> (w1 :> "poll" @@ rb :> "poll"),burst |-> (w1 :> <<>> @@ rb :> <<>>),alloc |-> {1, 2},inbox |-> <<>>]),
    ([cur |-> (w1 :> 0 @@ rb :> 2),leased |-> 2,rpc |-> (rb :> "inl"),err |-> "",idle |-> <<>>,pinfo |-> <<[c |-> None, k |-> "hit", o |-> "none"], [c |-> c1, k |-> "malformed", o |-> "none"], [c |-> c1, k |-> "failhit", o |-> "none"]>>,nsent |-> 3,fl |-> (w1 :> "no" @@ rb :> "no"),ov |-> <<"no", "no", "no">>,rpend |-> (rb :> <<1>>),inFlight |-> 1,oout |-> <<[wrote |-> FALSE, handoff |-> FALSE, panic |-> FALSE, set |-> FALSE], [wrote |-> FALSE, handoff |-> FALSE, panic |-> FALSE, set |-> FALSE], [wrote |-> FALSE, handoff |-> FALSE, panic |-> FALSE, set |-> FALSE]>>,slab |-> <<[wrote |-> FALSE, state |-> "reading", rx |-> 3, replay |-> FALSE, txLen |-> 0, raddr |-> c1, tx |-> 1, txck |-> None, txhd |-> 1, sends |-> 0, jb |-> None, ew |-> None, rawSA |-> c1], [wrote |-> FALSE, state |-> "serving", rx |-> 2, replay |-> FALSE, txLen |-> 0, raddr |-> c1, tx |-> None, txck |-> None, txhd |-> None, sends |-> 0, jb |-> rb, ew |-> None, rawSA |-> c1], [wrote |-> FALSE, state |-> "free", rx |-> None, replay |-> FALSE, txLen |-> 0, raddr |-> None, tx |-> None, txck |-> None, txhd |-> None, sends |-> 0, jb |-> None, ew |-> None, rawSA |-> None]>>,out |-> (w1 :> [wrote |-> FALSE, handoff |-> FALSE, panic |-> FALSE, set |-> FALSE] @@ rb :> [wrote |-> FALSE, handoff |-> FALSE, panic |-> FALSE, set |-> FALSE]),rheld |-> (rb :> <<>>),wire |-> <<>>,ready |-> <<>>,hpc |-> (w1 :> "poll" @@ rb :> "poll"),burst |-> (w1 :> <<>> @@ rb :> <<>>),alloc |-> {1, 2},inbox |-> <<>>]),
    ([cur |-> (w1 :> 0 @@ rb :> 2),leased |-> 2,rpc |-> (rb :> "inl"),err |-> "",idle |-> <<>>,pinfo |-> <<[c |-> None, k |-> "hit", o |-> "none"], [c |-> c1, k |-> "malformed", o |-> "none"], [c |-> c1, k |-> "failhit", o |-> "none"]>>,nsent |-> 3,fl |-> (w1 :> "no" @@ rb :> "no"),ov |-> <<"no", "no", "no">>,rpend |-> (rb :> <<1>>),inFlight |-> 1,oout |-> <<[wrote |-> FALSE, handoff |-> FALSE, panic |-> FALSE, set |-> FALSE], [wrote |-> FALSE, handoff |-> FALSE, panic |-> FALSE, set |-> FALSE], [wrote |-> FALSE, handoff |-> FALSE, panic |-> FALSE, set |-> FALSE]>>,slab |-> <<[wrote |-> FALSE, state |-> "reading", rx |-> 3, replay |-> FALSE, txLen |-> 0, raddr |-> c1, tx |-> 1, txck |-> None, txhd |-> 1, sends |-> 0, jb |-> None, ew |-> None, rawSA |-> c1], [wrote |-> FALSE, state |-> "serving", rx |-> 2, replay |-> FALSE, txLen |-> 0, raddr |-> c1, tx |-> None, txck |-> None, txhd |-> None, sends |-> 0, jb |-> rb, ew |-> None, rawSA |-> c1], [wrote |-> FALSE, state |-> "free", rx |-> None, replay |-> FALSE, txLen |-> 0, raddr |-> None, tx |-> None, txck |-> None, txhd |-> None, sends |-> 0, jb |-> None, ew |-> None, rawSA |-> None]>>,out |-> (w1 :> [wrote |-> FALSE, handoff |-> FALSE, panic |-> FALSE, set |-> FALSE] @@ rb :> [wrote |-> FALSE, handoff |-> FALSE, panic |-> FALSE, set |-> TRUE]),rheld |-> (rb :> <<>>),wire |-> <<>>,ready |-> <<>>,hpc |-> (w1 :> "poll" @@ rb :> "poll"),burst |-> (w1 :> <<>> @@ rb :> <<>>),alloc |-> {1, 2},inbox |-> <<>>]),
    ([cur |-> (w1 :> 0 @@ rb :> 0),leased |-> 1,rpc |-> (rb :> "fin"),err |-> "",idle |-> <<2>>,pinfo |-> <<[c |-> None, k |-> "hit", o |-> "none"], [c |-> None, k |-> "hit", o |-> "none"], [c |-> c1, k |-> "failhit", o |-> "none"]>>,nsent |-> 3,fl |-> (w1 :> "no" @@ rb :> "no"),ov |-> <<"no", "no", "no">>,rpend |-> (rb :> <<1>>),inFlight |-> 0,oout |-> <<[wrote |-> FALSE, handoff |-> FALSE, panic |-> FALSE, set |-> FALSE], [wrote |-> FALSE, handoff |-> FALSE, panic |-> FALSE, set |-> FALSE], [wrote |-> FALSE, handoff |-> FALSE, panic |-> FALSE, set |-> FALSE]>>,slab |-> <<[wrote |-> FALSE, state |-> "reading", rx |-> 3, replay |-> FALSE, txLen |-> 0, raddr |-> c1, tx |-> 1, txck |-> None, txhd |-> 1, sends |-> 0, jb |-> None, ew |-> None, rawSA |-> c1], [wrote |-> FALSE, state |-> "free", rx |-> None, replay |-> FALSE, txLen |-> 0, raddr |-> c1, tx |-> None, txck |-> None, txhd |-> None, sends |-> 0, jb |-> None, ew |-> None, rawSA |-> c1], [wrote |-> FALSE, state |-> "free", rx |-> None, replay |-> FALSE, txLen |-> 0, raddr |-> None, tx |-> None, txck |-> None, txhd |-> None, sends |-> 0, jb |-> None, ew |-> None, rawSA |-> None]>>,out |-> (w1 :> [wrote |-> FALSE, handoff |-> FALSE, panic |-> FALSE, set |-> FALSE] @@ rb :> [wrote |-> FALSE, handoff |-> FALSE, panic |-> FALSE, set |-> TRUE]),rheld |-> (rb :> <<>>),wire |-> <<>>,ready |-> <<>>,hpc |-> (w1 :> "poll" @@ rb :> "poll"),burst |-> (w1 :> <<>> @@ rb :> <<>>),alloc |-> {1, 2},inbox |-> <<>>]),
    ([cur |-> (w1 :> 0 @@ rb :> 1),leased |-> 1,rpc |-> (rb :> "inl"),err |-> "",idle |-> <<2>>,pinfo |-> <<[c |-> None, k |-> "hit", o |-> "none"], [c |-> None, k |-> "hit", o |-> "none"], [c |-> c1, k |-> "failhit", o |-> "none"]>>,nsent |-> 3,fl |-> (w1 :> "no" @@ rb :> "no"),ov |-> <<"no", "no", "no">>,rpend |-> (rb :> <<>>),inFlight |-> 1,oout |-> <<[wrote |-> FALSE, handoff |-> FALSE, panic |-> FALSE, set |-> FALSE], [wrote |-> FALSE, handoff |-> FALSE, panic |-> FALSE, set |-> FALSE], [wrote |-> FALSE, handoff |-> FALSE, panic |-> FALSE, set |-> FALSE]>>,slab |-> <<[wrote |-> FALSE, state |-> "serving", rx |-> 3, replay |-> FALSE, txLen |-> 0, raddr |-> c1, tx |-> 1, txck |-> None, txhd |-> 1, sends |-> 0, jb |-> rb, ew |-> None, rawSA |-> c1], [wrote |-> FALSE, state |-> "free", rx |-> None, replay |-> FALSE, txLen |-> 0, raddr |-> c1, tx |-> None, txck |-> None, txhd |-> None, sends |-> 0, jb |-> None, ew |-> None, rawSA |-> c1], [wrote |-> FALSE, state |-> "free", rx |-> None, replay |-> FALSE, txLen |-> 0, raddr |-> None, tx |-> None, txck |-> None, txhd |-> None, sends |-> 0, jb |-> None, ew |-> None, rawSA |-> None]>>,out |-> (w1 :> [wrote |-> FALSE, handoff |-> FALSE, panic |-> FALSE, set |-> FALSE] @@ rb :> [wrote |-> FALSE, handoff |-> FALSE, panic |-> FALSE, set |-> FALSE]),rheld |-> (rb :> <<>>),wire |-> <<>>,ready |-> <<>>,hpc |-> (w1 :> "poll" @@ rb :> "poll"),burst |-> (w1 :> <<>> @@ rb :> <<>>),alloc |-> {1, 2},inbox |-> <<>>]),
    ([cur |-> (w1 :> 0 @@ rb :> 1),leased |-> 1,rpc |-> (rb :> "inl"),err |-> "",idle |-> <<2>>,pinfo |-> <<[c |-> None, k |-> "hit", o |-> "none"], [c |-> None, k |-> "hit", o |-> "none"], [c |-> c1, k |-> "failhit", o |-> "none"]>>,nsent |-> 3,fl |-> (w1 :> "no" @@ rb :> "no"),ov |-> <<"no", "no", "no">>,rpend |-> (rb :> <<>>),inFlight |-> 1,oout |-> <<[wrote |-> FALSE, handoff |-> FALSE, panic |-> FALSE, set |-> FALSE], [wrote |-> FALSE, handoff |-> FALSE, panic |-> FALSE, set |-> FALSE], [wrote |-> FALSE, handoff |-> FALSE, panic |-> FALSE, set |-> FALSE]>>,slab |-> <<[wrote |-> TRUE, state |-> "serving", rx |-> 3, replay |-> FALSE, txLen |-> 1, raddr |-> c1, tx |-> 3, txck |-> None, txhd |-> 1, sends |-> 0, jb |-> rb, ew |-> None, rawSA |-> c1], [wrote |-> FALSE, state |-> "free", rx |-> None, replay |-> FALSE, txLen |-> 0, raddr |-> c1, tx |-> None, txck |-> None, txhd |-> None, sends |-> 0, jb |-> None, ew |-> None, rawSA |-> c1], [wrote |-> FALSE, state |-> "free", rx |-> None, replay |-> FALSE, txLen |-> 0, raddr |-> None, tx |-> None, txck |-> None, txhd |-> None, sends |-> 0, jb |-> None, ew |-> None, rawSA |-> None]>>,out |-> (w1 :> [wrote |-> FALSE, handoff |-> FALSE, panic |-> FALSE, set |-> FALSE] @@ rb :> [wrote |-> TRUE, handoff |-> FALSE, panic |-> FALSE, set |-> TRUE]),rheld |-> (rb :> <<>>),wire |-> <<>>,ready |-> <<>>,hpc |-> (w1 :> "poll" @@ rb :> "poll"),burst |-> (w1 :> <<>> @@ rb :> <<>>),alloc |-> {1, 2},inbox |-> <<>>]),
    ([cur |-> (w1 :> 0 @@ rb :> 0),leased |-> 1,rpc |-> (rb :> "fin"),err |-> "",idle |-> <<2>>,pinfo |-> <<[c |-> None, k |-> "hit", o |-> "none"], [c |-> None, k |-> "hit", o |-> "none"], [c |-> c1, k |-> "failhit", o |-> "none"]>>,nsent |-> 3,fl |-> (w1 :> "no" @@ rb :> "no"),ov |-> <<"no", "no", "no">>,rpend |-> (rb :> <<>>),inFlight |-> 1,oout |-> <<[wrote |-> FALSE, handoff |-> FALSE, panic |-> FALSE, set |-> FALSE], [wrote |-> FALSE, handoff |-> FALSE, panic |-> FALSE, set |-> FALSE], [wrote |-> FALSE, handoff |-> FALSE, panic |-> FALSE, set |-> FALSE]>>,slab |-> <<[wrote |-> TRUE, state |-> "serving", rx |-> 3, replay |-> FALSE, txLen |-> 1, raddr |-> c1, tx |-> 3, txck |-> None, txhd |-> 1, sends |-> 0, jb |-> None, ew |-> None, rawSA |-> c1], [wrote |-> FALSE, state |-> "free", rx |-> None, replay |-> FALSE, txLen |-> 0, raddr |-> c1, tx |-> None, txck |-> None, txhd |-> None, sends |-> 0, jb |-> None, ew |-> None, rawSA |-> c1], [wrote |-> FALSE, state |-> "free", rx |-> None, replay |-> FALSE, txLen |-> 0, raddr |-> None, tx |-> None, txck |-> None, txhd |-> None, sends |-> 0, jb |-> None, ew |-> None, rawSA |-> None]>>,out |-> (w1 :> [wrote |-> FALSE, handoff |-> FALSE, panic |-> FALSE, set |-> FALSE] @@ rb :> [wrote |-> TRUE, handoff |-> FALSE, panic |-> FALSE, set |-> TRUE]),rheld |-> (rb :> <<>>),wire |-> <<>>,ready |-> <<>>,hpc |-> (w1 :> "poll" @@ rb :> "poll"),burst |-> (w1 :> <<>> @@ rb :> <<1>>),alloc |-> {1, 2},inbox |-> <<>>]),
    ([cur |-> (w1 :> 0 @@ rb :> 0),leased |-> 1,rpc |-> (rb :> "fin"),err |-> "",idle |-> <<2>>,pinfo |-> <<[c |-> None, k |-> "hit", o |-> "none"], [c |-> None, k |-> "hit", o |-> "none"], [c |-> c1, k |-> "failhit", o |-> "none"]>>,nsent |-> 3,fl |-> (w1 :> "no" @@ rb :> "send"),ov |-> <<"no", "no", "no">>,rpend |-> (rb :> <<>>),inFlight |-> 1,oout |-> <<[wrote |-> FALSE, handoff |-> FALSE, panic |-> FALSE, set |-> FALSE], [wrote |-> FALSE, handoff |-> FALSE, panic |-> FALSE, set |-> FALSE], [wrote |-> FALSE, handoff |-> FALSE, panic |-> FALSE, set |-> FALSE]>>,slab |-> <<[wrote |-> TRUE, state |-> "serving", rx |-> 3, replay |-> FALSE, txLen |-> 1, raddr |-> c1, tx |-> 3, txck |-> None, txhd |-> 1, sends |-> 0, jb |-> None, ew |-> None, rawSA |-> c1], [wrote |-> FALSE, state |-> "free", rx |-> None, replay |-> FALSE, txLen |-> 0, raddr |-> c1, tx |-> None, txck |-> None, txhd |-> None, sends |-> 0, jb |-> None, ew |-> None, rawSA |-> c1], [wrote |-> FALSE, state |-> "free", rx |-> None, replay |-> FALSE, txLen |-> 0, raddr |-> None, tx |-> None, txck |-> None, txhd |-> None, sends |-> 0, jb |-> None, ew |-> None, rawSA |-> None]>>,out |-> (w1 :> [wrote |-> FALSE, handoff |-> FALSE, panic |-> FALSE, set |-> FALSE] @@ rb :> [wrote |-> TRUE, handoff |-> FALSE, panic |-> FALSE, set |-> TRUE]),rheld |-> (rb :> <<>>),wire |-> <<>>,ready |-> <<>>,hpc |-> (w1 :> "poll" @@ rb :> "poll"),burst |-> (w1 :> <<>> @@ rb :> <<1>>),alloc |-> {1, 2},inbox |-> <<>>]),
    ([cur |-> (w1 :> 0 @@ rb :> 0),leased |-> 1,rpc |-> (rb :> "fin"),err |-> "",idle |-> <<2>>,pinfo |-> <<[c |-> None, k |-> "hit", o |-> "none"], [c |-> None, k |-> "hit", o |-> "none"], [c |-> c1, k |-> "failhit", o |-> "none"]>>,nsent |-> 3,fl |-> (w1 :> "no" @@ rb :> "rel"),ov |-> <<"no", "no", "no">>,rpend |-> (rb :> <<>>),inFlight |-> 1,oout |-> <<[wrote |-> FALSE, handoff |-> FALSE, panic |-> FALSE, set |-> FALSE], [wrote |-> FALSE, handoff |-> FALSE, panic |-> FALSE, set |-> FALSE], [wrote |-> FALSE, handoff |-> FALSE, panic |-> FALSE, set |-> FALSE]>>,slab |-> <<[wrote |-> TRUE, state |-> "serving", rx |-> 3, replay |-> FALSE, txLen |-> 1, raddr |-> c1, tx |-> 3, txck |-> None, txhd |-> 1, sends |-> 1, jb |-> None, ew |-> None, rawSA |-> c1], [wrote |-> FALSE, state |-> "free", rx |-> None, replay |-> FALSE, txLen |-> 0, raddr |-> c1, tx |-> None, txck |-> None, txhd |-> None, sends |-> 0, jb |-> None, ew |-> None, rawSA |-> c1], [wrote |-> FALSE, state |-> "free", rx |-> None, replay |-> FALSE, txLen |-> 0, raddr |-> None, tx |-> None, txck |-> None, txhd |-> None, sends |-> 0, jb |-> None, ew |-> None, rawSA |-> None]>>,out |-> (w1 :> [wrote |-> FALSE, handoff |-> FALSE, panic |-> FALSE, set |-> FALSE] @@ rb :> [wrote |-> TRUE, handoff |-> FALSE, panic |-> FALSE, set |-> TRUE]),rheld |-> (rb :> <<>>),wire |-> <<[slab |-> 1, wrote |-> TRUE, kind |-> "failhit", from |-> c1, rx |-> 3, to |-> c1, tx |-> 3, ck |-> None, want |-> None, hd |-> 1, nth |-> 1]>>,ready |-> <<>>,hpc |-> (w1 :> "poll" @@ rb :> "poll"),burst |-> (w1 :> <<>> @@ rb :> <<1>>),alloc |-> {1, 2},inbox |-> <<>>])
    >>
----


=============================================================================

---- CONFIG MC_UdpJob_TTrace_1790423512 ----
CONSTANTS
    None = None
    c1 = c1
    c2 = c2
    c3 = c3
    w1 = w1
    w2 = w2
    rp = rp
    rb = rb
    NSlab = 3
    Cap = 3
    Q = 1
    NPkt = 3
    Clients = { c1 , c2 }
    Kinds <- KHdr
    Workers = { w1 }
    PReaders <- NoReaders
    BReaders = { rb }
    B = 2
    TXMax = 2
    Inline = TRUE
    BatchTX = TRUE
    Drops = FALSE
    ScrubTxLen = TRUE
    ResetRawSA = TRUE
    BothOnHandoff = FALSE
    ClearHdr = FALSE
    TruncRelease = TRUE
    ResetSlot = TRUE
    Opts <- ONone
    w2 = w2
    rp = rp
    None = None
    rb = rb
    c3 = c3
    w1 = w1
    c1 = c1
    c2 = c2

INVARIANT
    _inv

CHECK_DEADLOCK
    \* CHECK_DEADLOCK off because of PROPERTY or INVARIANT above.
    FALSE

INIT
    _init

NEXT
    _next

CONSTANT
    _TETrace <- _trace

ALIAS
    _expression
=============================================================================
\* Generated on Sat Sep 26 11:51:56 UTC 2026