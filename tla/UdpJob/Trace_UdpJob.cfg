CONSTANTS
  None = None
  ScrubTxLen = TRUE
  ResetRawSA = TRUE
  ResetSlot = TRUE
  ClearHdr = TRUE
  SilentRK <- TSilent
SPECIFICATION TraceSpec
INVARIANTS ReplyIsOwn SilentStaysSilent AtMostOneSend OwnershipWalk LeaseBound AllHome
POSTCONDITION TraceAccepted
CHECK_DEADLOCK FALSE
