---------------------------- MODULE Trace_UdpJob ----------------------------
(***************************************************************************)
(* Validation of walks recorded from the real UDP engine by the verif      *)
(* trace hook (hooks/c10_engine_trace.patch, recorded by harness/c10).     *)
(* One NDJSON line per trace point, emitted by the goroutine that owns the *)
(* job at that moment and sequenced under the recorder's lock, so the line *)
(* order is consistent with the ownership order.  Several engine runs are  *)
(* concatenated; each starts with a `reset` line and ends with `final`.    *)
(*                                                                         *)
(* Every line is explained with the SAME per-slab operators UdpJob.tla is  *)
(* built from (UdpSlab.tla).  Where the observed slab differs from what    *)
(* the operator predicts the difference is counted as drift and the state  *)
(* is re-synchronised from the observation, so the property monitors below *)
(* are always evaluated on what the engine really did:                     *)
(*   ReplyIsOwn, SilentStaysSilent, AtMostOneSend   at every send          *)
(*   ReplyOptIsOwn (the COOKIE option of the bytes leaving is built from   *)
(*   the client cookie of the packet in RX, or absent)   at every send     *)
(*   OwnershipWalk (SingleOwner / ReleaseOnce)      at every transition    *)
(*   LeaseBound                                     at every line          *)
(*   AllHome (Quiesced <=> nothing queued/serving)  at every `final`       *)
(***************************************************************************)
EXTENDS Integers, Sequences, FiniteSets, TLC, Json, IOUtils, UdpSlab

CONSTANT SilentRK        \* rx kinds that are decided in silence
TSilent == {"short", "qr", "st", "ph"}   \* <12 bytes, QR=1, silent tail, panic ahead of recovery

TraceLog == ndJsonDeserialize(IOEnv.TRACE_FILE)

VARIABLES l, sl, cfg, last, own, drift, home
tvars == <<l, sl, cfg, last, own, drift, home>>

NoSend == [valid |-> FALSE]
NoCfg  == [cap |-> 0, takers |-> 0, mode |-> "none"]

TraceInit ==
  /\ l = 1 /\ sl = <<>> /\ cfg = NoCfg /\ last = NoSend
  /\ own = TRUE /\ drift = 0 /\ home = TRUE

Line == TraceLog[l]
Is(e) == l <= Len(TraceLog) /\ Line.ev = e /\ l' = l + 1

Get(j) == IF j \in DOMAIN sl THEN sl[j] ELSE FreshSlab
Addr(a) == IF a = "" THEN None ELSE a
RxTag == IF Line.rxid = -1 /\ Line.rxq = "" /\ Line.rk = "" THEN None
         ELSE [id |-> Line.rxid, q |-> Line.rxq, k |-> Line.rk, opt |-> Line.rxopt, ck |-> Line.rxck,
               n |-> Line.rxn, ka |-> Line.rxk]
Ck(c) == IF c = "" THEN None ELSE c
TxTag == [id |-> Line.txid, q |-> Line.txq]
TL == IF Line.tl > 0 THEN 1 ELSE 0

(* what the hook saw of the slab, as far as the model keeps it *)
Proj(s) == [state |-> s.state, txLen |-> s.txLen, replay |-> s.replay, rawSA |-> s.rawSA]
Sync(m, st) == [m EXCEPT !.state = st, !.txLen = TL, !.replay = Line.rp, !.rawSA = Addr(Line.sa)]

Step(j, m, st) ==
  LET n == Sync(m, st) IN
  /\ sl' = (j :> n) @@ sl
  /\ drift' = drift + (IF Proj(m) = Proj(n) THEN 0 ELSE 1)

Reset ==
  /\ Is("reset")
  /\ sl' = <<>> /\ last' = NoSend /\ own' = TRUE /\ home' = TRUE /\ drift' = drift
  /\ cfg' = [cap |-> Line.cfg_cap, takers |-> Line.cfg_takers, mode |-> Line.cfg_mode]

(* the packet a reader put into the slab: the batch reader keeps the kernel *)
(* sockaddr, the portable reader clears it                                 *)
ReadOp(s) ==
  IF s.replay THEN s
  ELSE IF Line.sa # "" /\ Line.sa = Line.src
         THEN OpReadBatch(s, RxTag, Addr(Line.src))
         ELSE OpReadPortable(s, RxTag, Addr(Line.src))

Take ==
  /\ Is("take")
  /\ Step(Line.j, Get(Line.j), Line.st)
  /\ UNCHANGED <<cfg, own>> /\ last' = NoSend /\ home' = home

Trans ==
  /\ Is("trans")
  /\ LET j == Line.j  s == Get(j) IN
     /\ own' = (own /\ Line.st = Line.from)
     /\ CASE Line.from = "free" /\ Line.to = "reading"    -> Step(j, OpArm(s), "reading")
          [] Line.from = "reading" /\ Line.to = "serving" -> Step(j, OpInlineBegin(ReadOp(s), None), "serving")
          [] Line.from = "queued" /\ Line.to = "serving"  -> Step(j, OpServeBegin(s, None), "serving")
          [] Line.from = "serving" /\ Line.to = "reading" -> Step(j, OpHandoff(s), "reading")
          [] Line.to = "free" ->      \* top of release(): nothing has been scrubbed yet
               /\ sl' = (j :> s) @@ sl
               /\ drift' = drift + (IF s.state = Line.from THEN 0 ELSE 1)
          [] OTHER -> Step(j, s, Line.to) /\ PrintT(<<"unmodelled transition", Line.from, Line.to>>)
  /\ UNCHANGED cfg /\ last' = NoSend /\ home' = home

Queued ==
  /\ Is("queued")
  /\ Step(Line.j, OpQueued(ReadOp(Get(Line.j))), "queued")
  /\ UNCHANGED <<cfg, own>> /\ last' = NoSend /\ home' = home

Overflow ==
  /\ Is("overflow")
  /\ Step(Line.j, Get(Line.j), Line.st)
  /\ UNCHANGED <<cfg, own>> /\ last' = NoSend /\ home' = home

Stage ==
  /\ Is("stage")
  /\ LET s == Get(Line.j) m == [OpStage(s) EXCEPT !.tx = TxTag, !.txck = Ck(Line.txck)] IN Step(Line.j, m, Line.st)
  /\ UNCHANGED <<cfg, own>> /\ last' = NoSend /\ home' = home

BurstAdd ==
  /\ Is("burstAdd")
  /\ Step(Line.j, OpServeEnd(Get(Line.j)), Line.st)
  /\ UNCHANGED <<cfg, own>> /\ last' = NoSend /\ home' = home

(* a datagram leaves: what it carries, where it goes, what it answers *)
Send(how) ==
  /\ Is(how)
  /\ LET j == Line.j  s == Get(j) IN
     /\ last' = [valid |-> TRUE, how |-> how, slab |-> j,
                 to    |-> IF how = "sendBatch" THEN Addr(Line.sa) ELSE Addr(Line.src),
                 from  |-> s.raddr,
                 rx    |-> s.rx, txid |-> Line.txid, txq |-> Line.txq,
                 txck  |-> Line.txck,        \* client half of the COOKIE option in the bytes leaving
                 txn   |-> Line.txn, txk |-> Line.txk,   \* ... their NSID / edns-tcp-keepalive options
                 txad  |-> Line.txad, txtc |-> Line.txtc, txz |-> Line.txz,   \* ... the AD / TC / Z bits of their flags word
                 wrote |-> (how = "sendNow") \/ s.wrote,
                 nth   |-> s.sends + 1]
     /\ Step(j, IF how = "sendNow" THEN OpWriteNow(s) ELSE OpSent(s), Line.st)
  /\ UNCHANGED <<cfg, own>> /\ home' = home

Release ==
  /\ Is("release")
  /\ Step(Line.j, OpRelease(Get(Line.j)), "free")
  /\ UNCHANGED <<cfg, own>> /\ last' = NoSend /\ home' = home

Final ==
  /\ Is("final")
  /\ LET reading == {j \in DOMAIN sl : sl[j].state = "reading"}
         busy    == {j \in DOMAIN sl : sl[j].state \in {"queued", "serving"}}
     IN \* ... and no slab is held by nobody: the slabs out in `reading` are no more than the readers of the run
        \* can have armed between them (Line.hold; a slab a reader consumed and neither served nor released stays
        \* `reading`, leased, and in no reader's ring)
        /\ home' = (Line.quiesced /\ Line.if = 0 /\ busy = {} /\ Cardinality(reading) = Line.ls
                    /\ Cardinality(reading) <= Line.hold)
        /\ PrintT(<<"drift", drift, "slabs", Cardinality(DOMAIN sl)>>)
  /\ UNCHANGED <<sl, cfg, own, drift>> /\ last' = NoSend

TraceNext ==
  \/ Reset \/ Take \/ Trans \/ Queued \/ Overflow \/ Stage \/ BurstAdd
  \/ Send("sendNow") \/ Send("sendDirect") \/ Send("sendBatch") \/ Release \/ Final

TraceSpec == TraceInit /\ [][TraceNext]_tvars

---------------------------------------------------------------------------
(* a Send(j) transmits bytes produced for j.rx, to the address j.rx came from *)
ReplyIsOwn ==
  last.valid =>
    /\ last.rx # None
    /\ last.txid = last.rx.id
    /\ last.txq = "" \/ last.txq = last.rx.q
    /\ last.to # None /\ last.to = last.from

(* the OPT of the bytes leaving derives only from the packet they answer:   *)
(* a COOKIE option only if that packet carried a client cookie, and then    *)
(* built from exactly those 8 bytes -- never from what an earlier request   *)
(* left in the job-owned edns writer slot; NSID and edns-tcp-keepalive only  *)
(* if that packet asked (the wishes in the slot are the current request's)  *)
ReplyOptIsOwn ==
  last.valid =>
    /\ last.txck # "" => (last.rx # None /\ last.txck = last.rx.ck)
    /\ last.txn => (last.rx # None /\ last.rx.n)
    /\ last.txk => (last.rx # None /\ last.rx.ka)

(* the flags word of the bytes leaving is the reply's own: AD only in the   *)
(* answer to a packet whose name the tail validates (rx kind "a"), the      *)
(* reserved bit never -- not what an earlier reply left in the slab's TX    *)
(* buffer under a reply composed in place (UdpSlab txhd / ClearHdr)         *)
ReplyHeaderIsOwn ==
  last.valid =>
    /\ last.txad => (last.rx # None /\ last.rx.k = "a")
    /\ ~last.txz

(* a request decided in silence causes no datagram; nothing staged by an   *)
(* earlier lease survives into this one                                    *)
SilentStaysSilent ==
  last.valid =>
    /\ last.wrote
    /\ last.rx # None => last.rx.k \notin SilentRK

AtMostOneSend == last.valid => last.nth = 1

(* transition() found the state it asserted: one owner, one release *)
OwnershipWalk == own

(* leased <= cap + concurrent takers, and never more than cap slabs out *)
LeaseBound ==
  (l > 1 /\ TraceLog[l-1].ev \notin {"reset", "final"}) =>
    /\ TraceLog[l-1].ls <= cfg.cap + cfg.takers
    /\ TraceLog[l-1].if >= 0
    /\ Cardinality({j \in DOMAIN sl : sl[j].state # "free"}) <= cfg.cap

(* Quiesced() <=> nothing queued, serving or staged; the readers' armed     *)
(* slabs are the only leases left                                          *)
AllHome == home

TraceAccepted ==
  /\ TLCGet("stats").diameter - 1 = Len(TraceLog)
  /\ PrintT(<<"trace-lines", Len(TraceLog)>>)
(* drift is reported through an invariant that is only listed in the       *)
(* conformance cfg: its failure is DRIFT, never a violation                *)
NoDrift == drift = 0
=============================================================================
