--------------------------- MODULE LeaseNegAlias ---------------------------
(***************************************************************************)
(* C04, one sentence of it: "no cached ... negative answer ... is served     *)
(* after its lifetime ends, where the lifetime is the smallest of the record *)
(* TTLs (floored at 5 s ...), ..., the SOA negative TTL ...", for a negative *)
(* answer that reaches the cache IN ONE PIECE behind an alias (RFC 2308 2.2: *)
(* CNAMEs in the answer section, the SOA of the target's zone in authority,  *)
(* rcode NOERROR for NODATA or NXDOMAIN) - what the resolver's own chase and *)
(* every forwarder upstream hand to the cache writer on the miss path.       *)
(* Lease.tla admits every hop as its own entry, so its negative end always   *)
(* is an answer-less message; this module is the other admission shape.      *)
(*                                                                           *)
(* Transcribed from dnsutil.ClassifyResponse (NOERROR with answer records is *)
(* TypeSuccess whatever the authority section holds; NXDOMAIN is negative by *)
(* rcode) and dnsutil.CalculateCacheTTL (minimum over the record TTLs of     *)
(* answer and authority; SOA MINIMUM counted when the reply bears an SOA in  *)
(* its authority section - as built before the repair: only when the class  *)
(* is negative, see MinimumByClassOnly), floored at 5 s.                     *)
(***************************************************************************)
EXTENDS Integers, FiniteSets, TLC

CONSTANTS Rcodes,      \* subset of {"NOERROR", "NXDOMAIN"}
          TtlCs,       \* TTL of the CNAME record(s)
          TtlSs,       \* TTL of the SOA record
          Mins,        \* SOA MINIMUM
          Ticks,       \* seconds between admission and the second query
          HopSet,      \* number of CNAMEs in the answer section
          MinimumByClassOnly   \* as built before the repair: MINIMUM bounds the entry only when the reply was
                               \* classified negative (NXDOMAIN, or NOERROR without answer records)

VARIABLES phase,   \* "admit" | "stored" | "aged" | "done"
          msg,     \* the admitted reply
          age,     \* seconds since admission
          out      \* what the second query got: "na" | "hit" | "miss"

vars == <<phase, msg, age, out>>

Floor == 5
Min2(a, b) == IF a < b THEN a ELSE b
Max2(a, b) == IF a > b THEN a ELSE b

Msgs == [rcode : Rcodes, ttlC : TtlCs, ttlS : TtlSs, min : Mins, hops : HopSet]

ClassNegative(m) == m.rcode = "NXDOMAIN"          \* NOERROR + answer records = TypeSuccess
(* the lifetime the statement gives the entry *)
Life(m) == Max2(Floor, Min2(m.ttlC, Min2(m.ttlS, m.min)))
(* the lifetime the code computes *)
CodeLife(m) ==
  IF MinimumByClassOnly /\ ~ClassNegative(m)
    THEN Max2(Floor, Min2(m.ttlC, m.ttlS))
    ELSE Life(m)

Init == phase = "admit" /\ msg \in Msgs /\ age = 0 /\ out = "na"

Admit == phase = "admit" /\ phase' = "stored" /\ UNCHANGED <<msg, age, out>>
Tick(d) == phase = "stored" /\ phase' = "aged" /\ age' = d /\ UNCHANGED <<msg, out>>
Query ==
  /\ phase = "aged" /\ phase' = "done"
  /\ out' = IF age < CodeLife(msg) THEN "hit" ELSE "miss"
  /\ UNCHANGED <<msg, age>>

Next == Admit \/ (\E d \in Ticks : Tick(d)) \/ Query
Spec == Init /\ [][Next]_vars

TypeOK == phase \in {"admit", "stored", "aged", "done"} /\ msg \in Msgs /\ age \in {0} \cup Ticks
          /\ out \in {"na", "hit", "miss"}

(* C04 *)
ServedLive == (phase = "done" /\ out = "hit") => age < Life(msg)
(* not a predicate of the statement, the model's own sanity: nothing is dropped early either *)
KeptWhileLive == (phase = "done" /\ out = "miss") => age >= Life(msg)
=============================================================================
