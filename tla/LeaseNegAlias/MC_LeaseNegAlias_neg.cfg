CONSTANTS
  Rcodes <- MCRcodes
  TtlCs <- MCTtlCs
  TtlSs <- MCTtlSs
  Mins <- MCMins
  Ticks <- MCTicks
  HopSet <- MCHops
  MinimumByClassOnly = TRUE
SPECIFICATION Spec
INVARIANTS ServedLive
CHECK_DEADLOCK FALSE
