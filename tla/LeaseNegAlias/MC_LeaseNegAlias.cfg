CONSTANTS
  Rcodes <- MCRcodes
  TtlCs <- MCTtlCs
  TtlSs <- MCTtlSs
  Mins <- MCMins
  Ticks <- MCTicks
  HopSet <- MCHops
  MinimumByClassOnly = FALSE
SPECIFICATION Spec
INVARIANTS TypeOK ServedLive KeptWhileLive
CHECK_DEADLOCK FALSE
