------------------------- MODULE MC_LeaseNegAlias -------------------------
EXTENDS LeaseNegAlias
MCRcodes == {"NOERROR", "NXDOMAIN"}
MCTtlCs == {6, 600}
MCTtlSs == {7, 300}
MCMins == {3, 8, 60, 3600}
MCTicks == {2, 6, 9, 70}
MCHops == {1, 2}
=============================================================================
