CONSTANTS
  Chain <- MCChain
  ClientOnlyH <- MCClientOnly
  Answering <- MCAnswering
  TailH = "resolver"
  Nets <- SNets
  Srcs <- SSrcs
  Covers <- SCovers
  AclSets <- SAcls
  MaxViews = 1
  Admit <- AdmitSent
  Borns = {"wire", "msg"}
  Answers = {"cache", "tail"}
  Transports <- SentTransports
  Ports = {"eph"}
  SentinelSrcs <- SSentinel
  StreamIgnoresPort <- MCTrue
INIT Init
NEXT Next
INVARIANTS DeniedTouchesNothing
CHECK_DEADLOCK FALSE
