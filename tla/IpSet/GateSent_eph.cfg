CONSTANTS
  Chain <- MCChain
  ClientOnlyH <- MCClientOnly
  Answering <- MCAnswering
  TailH = "resolver"
  Nets <- SNets
  Srcs <- SSrcs
  Covers <- SCovers
  AclSets <- SAcls
  MaxViews = 1
  Admit <- AdmitSent
  Borns = {"wire", "msg"}
  Answers = {"cache", "tail"}
  Transports <- SentTransports
  Ports = {"eph"}
  SentinelSrcs <- SSentinel
INIT Init
NEXT Next
INVARIANTS TypeOK GateAhead DeniedTouchesNothing ClientNeverInternal AllowedIsServed FirstMatchingView InternalSkipsClientPolicy UnparsableEntryIgnored Emit
CHECK_DEADLOCK FALSE
