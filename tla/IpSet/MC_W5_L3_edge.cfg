CONSTANTS
  HB = 2
  LB = 3
  V4 = 2
  MapPat = 7
  Fams = {4, 6}
  MaxLen = 3
  WithBad = TRUE
  QueryEdges = FALSE
  HostBits = "edge"
  Canon = TRUE
INIT Init
NEXT Next
VIEW View
INVARIANTS TypeOK Exact UnparsableEntryIgnored MappedAsV4 CompiledShape AddsMatch CompileMatch
PROPERTIES QueryExact UnparsableEntryIgnoredA
CHECK_DEADLOCK FALSE
