CONSTANTS
  Chain <- MCChain
  ClientOnlyH <- MCClientOnly
  Answering <- MCAnswering
  TailH = "resolver"
  Nets <- SNets
  Srcs <- SSrcs
  Covers <- SCovers
  AclSets <- SAcls
  MaxViews = 1
  Admit <- AdmitSent
  Borns = {"wire", "msg"}
  Answers = {"cache", "tail"}
  Transports <- SentTransports
  Ports = {"zero", "eph"}
  SentinelSrcs <- SSentinel
INIT Init
NEXT Next
INVARIANTS DeniedTouchesNothing
CHECK_DEADLOCK FALSE
