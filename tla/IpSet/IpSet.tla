------------------------------- MODULE IpSet -------------------------------
(***************************************************************************)
(* Literal model of /repo/internal/ipset (property C17, membership half).  *)
(*                                                                         *)
(* One action per call the code makes:                                     *)
(*   Add(f,a,l) / AddBad  -- the body of the loop in ipset.New: ParsePrefix*)
(*                           ok => Set.add (Masked, bounds, append to the  *)
(*                           family slice); error => BadEntry, nothing     *)
(*                           appended                                      *)
(*   Compile(..)          -- Set.compile: sort.Slice by lo (NOT stable, so *)
(*                           every lo-sorted permutation is a possible     *)
(*                           outcome), then the running maximum of hi      *)
(*   Query(f,a)           -- Set.Contains: unmap IPv4-mapped IPv6, pick    *)
(*                           the family slice, hand-written binary search  *)
(*                           for the last span with lo <= k, compare with  *)
(*                           its maxHi                                     *)
(*                                                                         *)
(* Addresses are numbers.  The code's u128{hi,lo} is kept as two words of  *)
(* HB and LB bits (real: 64/64) so that lessEq, key, bounds and ones are   *)
(* transcribed with their word-boundary case split; IPv4 is V4 bits wide   *)
(* (real: 32) and lives in the low word only.  An IPv6 address whose top   *)
(* W6-V4 bits equal MapPat is "IPv4-mapped" (real: 0^80 1^16).             *)
(*                                                                         *)
(* Ghost: `list` (the configured entries, the oracle's input) and `last`   *)
(* (what the last call returned; hidden by VIEW).                          *)
(***************************************************************************)
EXTENDS Integers, Sequences, FiniteSets, TLC

CONSTANTS HB, LB, V4, MapPat,
          Fams,        \* subset of {4, 6}
          MaxLen,      \* entries per list
          WithBad,     \* BOOLEAN: lists may contain an unparsable entry
          QueryEdges,  \* BOOLEAN: enumerate Query transitions (the state invariants
                       \*          already quantify over every source)
          HostBits,    \* "all": every (address, length) pair is an entry; "edge": only entries
                       \*          whose host bits are all clear or all set (quick tier)
          Canon        \* BOOLEAN: only lists whose entries are appended in the fixed
                       \*          order EKey.  Sound as a reduction because Compile
                       \*          already yields EVERY lo-sorted permutation (sort.Slice
                       \*          is not stable), so the set of compiled slices does
                       \*          not depend on the order of the configuration; the
                       \*          FALSE configs enumerate all ordered lists anyway.

ASSUME /\ HB \in Nat /\ LB \in Nat \ {0} /\ V4 \in 1..LB /\ HB <= LB
       /\ Fams \subseteq {4, 6} /\ Fams # {}
       /\ MapPat \in 0..(2^(HB + LB - V4) - 1)

W6 == HB + LB
Width(f) == IF f = 4 THEN V4 ELSE W6
AddrsOf(f) == 0..(2^Width(f) - 1)

BadEntry == [bad |-> TRUE, fam |-> 0, a |-> 0, l |-> 0]
GoodEntries == UNION {[bad : {FALSE}, fam : {f}, a : AddrsOf(f), l : 0..Width(f)] : f \in Fams}
Entries == GoodEntries \cup (IF WithBad THEN {BadEntry} ELSE {})
Sources == UNION {[fam : {f}, a : AddrsOf(f)] : f \in Fams}

(* ------------------------------ u128 --------------------------------- *)
Zero == [hi |-> 0, lo |-> 0]
LessEq(x, y) == x.hi < y.hi \/ (x.hi = y.hi /\ x.lo <= y.lo)      \* u128.lessEq

RECURSIVE OrBits(_, _, _)
OrBits(x, y, n) == IF n = 0 THEN 0
                   ELSE (IF x % 2 = 1 \/ y % 2 = 1 THEN 1 ELSE 0) + 2 * OrBits(x \div 2, y \div 2, n - 1)
Or(x, y) == OrBits(x, y, LB)

(* ones(n): n low bits set, saturating at both ends (word = LB bits) *)
Ones(n) == IF n <= 0 THEN 0 ELSE IF n >= LB THEN 2^LB - 1 ELSE 2^n - 1

(* key(addr): IPv4 in the low word, IPv6 split over both *)
Key(f, a) == IF f = 4 THEN [hi |-> 0, lo |-> a]
             ELSE [hi |-> a \div 2^LB, lo |-> a % 2^LB]

(* netip.Prefix.Masked: host bits cleared *)
Masked(f, a, l) == (a \div 2^(Width(f) - l)) * 2^(Width(f) - l)

(* bounds(p): first and last address of a masked prefix *)
Bounds(f, a, l) ==
  LET lo   == Key(f, Masked(f, a, l))
      host == Width(f) - l
  IN IF f = 4 \/ host < LB
       THEN <<lo, [hi |-> lo.hi, lo |-> Or(lo.lo, Ones(host))]>>
       ELSE <<lo, [hi |-> Or(lo.hi, Ones(host - LB)), lo |-> 2^LB - 1]>>

(* a fixed total order on entries, used only by the Canon reduction *)
EKey(e) == IF e.bad THEN 0
           ELSE (IF e.fam = 4 THEN 1 ELSE 1 + 2^V4 * (V4 + 1)) + e.a * (Width(e.fam) + 1) + e.l
CanAppend(lst, e) == IF ~Canon \/ Len(lst) = 0 THEN TRUE ELSE EKey(lst[Len(lst)]) <= EKey(e)

HostOK(f, a, l) == IF HostBits = "all" THEN TRUE
                   ELSE (a % 2^(Width(f) - l)) \in {0, 2^(Width(f) - l) - 1}

SpanOf(e) == LET b == Bounds(e.fam, e.a, e.l) IN [lo |-> b[1], hi |-> b[2], maxHi |-> Zero]

(* ----------------------------- compile ------------------------------- *)
(* the comparator handed to sort.Slice *)
SortLess(x, y) == IF x.lo.hi # y.lo.hi THEN x.lo.hi < y.lo.hi ELSE x.lo.lo < y.lo.lo

PermsOf(n) == IF n = 0 THEN {<<>>} ELSE Permutations(1..n)
Permute(s, p) == [i \in 1..Len(s) |-> s[p[i]]]
IsSorted(t) == \A i \in 1..(Len(t) - 1) : ~SortLess(t[i + 1], t[i])
SortOutcomes(s) == {t \in {Permute(s, p) : p \in PermsOf(Len(s))} : IsSorted(t)}

RECURSIVE RunMax(_, _, _)
RunMax(t, i, max) ==                 \* `var max u128; for i := range spans {...}`
  IF i > Len(t) THEN t
  ELSE LET m == IF LessEq(max, t[i].hi) THEN t[i].hi ELSE max
       IN RunMax([t EXCEPT ![i].maxHi = m], i + 1, m)

CompileOutcomes(s) == {RunMax(t, 1, Zero) : t \in SortOutcomes(s)}

(* what ipset.New leaves in a family slice before compile, as a function of the list *)
FamSpans(lst, f) ==
  LET g == SelectSeq(lst, LAMBDA e : ~e.bad /\ e.fam = f) IN [i \in 1..Len(g) |-> SpanOf(g[i])]

(* ----------------------------- Contains ------------------------------ *)
Is4In6(a) == a \div 2^V4 = MapPat
Eff(src) == IF src.fam = 6 /\ Is4In6(src.a) THEN [fam |-> 4, a |-> src.a % 2^V4] ELSE src

RECURSIVE BSearch(_, _, _, _)
BSearch(s, k, i, j) ==               \* `for i < j { m := (i+j)>>1; ... }`, 0-based i, j
  IF i < j
    THEN LET m == (i + j) \div 2
         IN IF LessEq(s[m + 1].lo, k) THEN BSearch(s, k, m + 1, j) ELSE BSearch(s, k, i, m)
    ELSE i

ContainsOn(s4, s6, src) ==
  LET e     == Eff(src)
      spans == IF e.fam = 4 THEN s4 ELSE s6
  IN IF Len(spans) = 0 THEN FALSE
     ELSE LET k == Key(e.fam, e.a)
              i == BSearch(spans, k, 0, Len(spans))
          IN IF i = 0 THEN FALSE ELSE LessEq(k, spans[i].maxHi)

(* --------------------------- the reference --------------------------- *)
InPrefix(f, a, e) == /\ ~e.bad /\ e.fam = f
                     /\ a \div 2^(Width(f) - e.l) = e.a \div 2^(Width(f) - e.l)
RefOn(lst, src) == LET e == Eff(src) IN \E i \in 1..Len(lst) : InPrefix(e.fam, e.a, lst[i])

(* ---------------------------- state machine -------------------------- *)
VARIABLES list,      \* ghost: entries in configuration order
          v4, v6,    \* Set.v4 / Set.v6
          nbad,      \* len(bad) returned by New
          compiled,  \* New has returned
          last       \* ghost: result of the last call

vars == <<list, v4, v6, nbad, compiled, last>>

Init == /\ list = <<>> /\ v4 = <<>> /\ v6 = <<>> /\ nbad = 0
        /\ compiled = FALSE /\ last = [op |-> "init"]

Add(f, a, l) ==
  /\ ~compiled /\ Len(list) < MaxLen
  /\ f \in Fams /\ a \in AddrsOf(f) /\ l \in 0..Width(f) /\ HostOK(f, a, l)
  /\ LET e == [bad |-> FALSE, fam |-> f, a |-> a, l |-> l] IN
     /\ CanAppend(list, e)
     /\ list' = Append(list, e)
     /\ IF f = 4 THEN v4' = Append(v4, SpanOf(e)) /\ UNCHANGED v6
                 ELSE v6' = Append(v6, SpanOf(e)) /\ UNCHANGED v4
  /\ last' = [op |-> "add"]
  /\ UNCHANGED <<nbad, compiled>>

AddBad ==
  /\ WithBad /\ ~compiled /\ Len(list) < MaxLen
  /\ CanAppend(list, BadEntry)
  /\ list' = Append(list, BadEntry)
  /\ nbad' = nbad + 1
  /\ last' = [op |-> "addbad"]
  /\ UNCHANGED <<v4, v6, compiled>>

Compile ==
  /\ ~compiled
  /\ v4' \in CompileOutcomes(v4)
  /\ v6' \in CompileOutcomes(v6)
  /\ compiled' = TRUE
  /\ last' = [op |-> "compile"]
  /\ UNCHANGED <<list, nbad>>

Query(f, a) ==
  /\ QueryEdges /\ compiled
  /\ f \in Fams /\ a \in AddrsOf(f)
  /\ last' = [op |-> "query", fam |-> f, a |-> a, got |-> ContainsOn(v4, v6, [fam |-> f, a |-> a])]
  /\ UNCHANGED <<list, v4, v6, nbad, compiled>>

Next ==
  \/ \E f \in Fams : \E a \in AddrsOf(f), l \in 0..Width(f) : Add(f, a, l)
  \/ AddBad
  \/ Compile
  \/ \E f \in Fams : \E a \in AddrsOf(f) : Query(f, a)

Spec == Init /\ [][Next]_vars

(* ------------------------------ properties --------------------------- *)
TypeOK ==
  /\ Len(list) <= MaxLen /\ \A i \in 1..Len(list) : list[i] \in Entries
  /\ nbad \in 0..MaxLen /\ compiled \in BOOLEAN
  /\ Len(v4) + Len(v6) + nbad = Len(list)

(* C17: membership is exactly "the address lies in at least one configured CIDR",
   an IPv4-mapped IPv6 source counting as IPv4 *)
Exact == compiled => \A s \in Sources : ContainsOn(v4, v6, s) = RefOn(list, s)

(* the same, on the call that was made (Query edges) *)
QueryExact ==
  [][last'.op = "query" => last'.got = RefOn(list, [fam |-> last'.fam, a |-> last'.a])]_vars

(* an unparsable entry is reported (counted in nbad) and leaves both family slices
   untouched; with Exact -- whose reference quantifies over parsable entries only --
   it can therefore neither widen nor narrow access *)
NBad(lst) == Cardinality({i \in 1..Len(lst) : lst[i].bad})
UnparsableEntryIgnored == nbad = NBad(list) /\ Len(v4) + Len(v6) = Len(list) - NBad(list)
UnparsableEntryIgnoredA ==
  [][(Len(list') = Len(list) + 1 /\ list'[Len(list')].bad) => (v4' = v4 /\ v6' = v6)]_vars
(* the corollary, spelled out (thorough configs): whatever Contains admits is covered by a
   parsable entry *)
BadNeverWidens ==
  compiled => \A s \in Sources :
     ContainsOn(v4, v6, s) =>
        LET e == Eff(s) IN \E i \in 1..Len(list) : ~list[i].bad /\ InPrefix(e.fam, e.a, list[i])

(* ::ffff:a.b.c.d is answered as a.b.c.d, whatever IPv6 prefixes cover it numerically *)
MappedAsV4 ==
  (compiled /\ 6 \in Fams) =>
     \A a \in 0..(2^V4 - 1) :
        ContainsOn(v4, v6, [fam |-> 6, a |-> MapPat * 2^V4 + a]) = RefOn(list, [fam |-> 4, a |-> a])

(* shape of the compiled slices the stabbing query relies on *)
Compiled1(s) ==
  /\ \A i \in 1..(Len(s) - 1) : LessEq(s[i].lo, s[i + 1].lo) /\ LessEq(s[i].maxHi, s[i + 1].maxHi)
  /\ \A i \in 1..Len(s) : /\ LessEq(s[i].lo, s[i].hi) /\ LessEq(s[i].hi, s[i].maxHi)
                          /\ \E j \in 1..i : s[j].hi = s[i].maxHi
CompiledShape == compiled => Compiled1(v4) /\ Compiled1(v6)

(* New's loop is the pure function of the list that the case emitter (Cases.tla) uses *)
AddsMatch == ~compiled => v4 = FamSpans(list, 4) /\ v6 = FamSpans(list, 6)
CompileMatch == compiled => v4 \in CompileOutcomes(FamSpans(list, 4)) /\ v6 \in CompileOutcomes(FamSpans(list, 6))

(* `last` is a ghost; invariants never mention it, QueryExact is an action property *)
View == <<list, v4, v6, nbad, compiled>>
=============================================================================
