------------------------------- MODULE Cases -------------------------------
(***************************************************************************)
(* Case emitter for the spec -> code replay (harness/c17/ipset_test.go).   *)
(* Every ORDERED list of at most EmitLen entries is printed once, as JSON, *)
(* together with what the model's compile and Contains produce for it      *)
(* (the operators of IpSet.tla that the state machine's Add/Compile/Query  *)
(* use -- AddsMatch / CompileMatch tie the two together).  The real sort   *)
(* is deterministic for a given input order, so the replay needs ordered   *)
(* lists; the model answer does not depend on the sort outcome chosen      *)
(* (Exact holds for every outcome), so CHOOSE is harmless here.            *)
(***************************************************************************)
EXTENDS IpSet, Json

CONSTANT EmitLen

ListsUpTo(n) == UNION {[1..k -> Entries] : k \in 0..n}

CaseOf(lst) ==
  LET s4 == CHOOSE c \in CompileOutcomes(FamSpans(lst, 4)) : TRUE
      s6 == CHOOSE c \in CompileOutcomes(FamSpans(lst, 6)) : TRUE
      exp(f) == IF f \in Fams
                  THEN [i \in 1..(2^Width(f)) |-> ContainsOn(s4, s6, [fam |-> f, a |-> i - 1])]
                  ELSE <<>>
  IN [list |-> lst, n4 |-> Len(s4), n6 |-> Len(s6), exp4 |-> exp(4), exp6 |-> exp(6)]

ASSUME \A lst \in ListsUpTo(EmitLen) : PrintT(ToJson(CaseOf(lst)))
=============================================================================
