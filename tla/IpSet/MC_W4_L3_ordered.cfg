CONSTANTS
  HB = 2
  LB = 2
  V4 = 2
  MapPat = 3
  Fams = {4, 6}
  MaxLen = 3
  WithBad = TRUE
  QueryEdges = FALSE
  HostBits = "all"
  Canon = FALSE
INIT Init
NEXT Next
VIEW View
INVARIANTS TypeOK Exact UnparsableEntryIgnored MappedAsV4 CompiledShape
PROPERTIES QueryExact UnparsableEntryIgnoredA
CHECK_DEADLOCK FALSE
