CONSTANTS
  HB = 2
  LB = 2
  V4 = 2
  MapPat = 3
  Fams = {4, 6}
  MaxLen = 2
  WithBad = TRUE
  QueryEdges = TRUE
  HostBits = "all"
  Canon = FALSE
INIT Init
NEXT Next
VIEW View
INVARIANTS TypeOK Exact UnparsableEntryIgnored MappedAsV4 CompiledShape AddsMatch CompileMatch BadNeverWidens
PROPERTIES QueryExact UnparsableEntryIgnoredA
CHECK_DEADLOCK FALSE
