CONSTANTS
  Chain <- MCChain
  ClientOnlyH <- MCClientOnly
  Answering <- MCAnswering
  TailH = "resolver"
  Nets <- MCNets
  Srcs <- MCSrcs
  Covers <- MCCovers
  AclSets <- AclViews
  MaxViews = 1
  Admit <- AdmitAll
  Borns = {"wire", "msg"}
  Answers = {"cache", "tail"}
  Transports = {"any"}
  Ports = {"eph"}
  SentinelSrcs <- NoSrcs
INIT Init
NEXT Next
INVARIANTS TypeOK GateAhead DeniedTouchesNothing AllowedIsServed FirstMatchingView InternalSkipsClientPolicy UnparsableEntryIgnored
CHECK_DEADLOCK FALSE
