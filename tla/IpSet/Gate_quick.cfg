CONSTANTS
  Chain <- MCChain
  ClientOnlyH <- MCClientOnly
  Answering <- MCAnswering
  TailH = "resolver"
  Nets <- MCNets
  Srcs <- MCSrcs
  Covers <- MCCovers
  AclSets <- AclAll
  MaxViews = 2
  Admit <- AdmitQuick
  Borns = {"wire", "msg"}
  Answers = {"cache", "tail"}
  Transports = {"any"}
  Ports = {"eph"}
  SentinelSrcs <- NoSrcs
INIT Init
NEXT Next
INVARIANTS TypeOK GateAhead DeniedTouchesNothing AllowedIsServed FirstMatchingView InternalSkipsClientPolicy UnparsableEntryIgnored Emit
CHECK_DEADLOCK FALSE
