-------------------------------- MODULE Gate --------------------------------
(***************************************************************************)
(* C17, gate half: one request walking the middleware chain, as far as the *)
(* access list, the per-client views and the internal sub-pipeline are     *)
(* concerned.  Containment itself is IpSet.tla's business; here networks   *)
(* and sources are classes with a fixed Covers relation (the harness turns *)
(* every class into several concrete CIDRs / addresses).                   *)
(*                                                                         *)
(* Transcribed from:                                                       *)
(*   accesslist.New        empty list => "0.0.0.0/0","::0/0"; bad entries  *)
(*                         are logged and skipped                          *)
(*   accesslist.ServeDNS   internal => Next; not contained => Cancel (no   *)
(*                         write); else Next                               *)
(*   views.ServeDNS        no views or internal => Next; first view whose  *)
(*                         networks contain the client decides: it answers *)
(*                         (write, Cancel) or, having no record for the    *)
(*                         question, `break`s -- later views are NOT       *)
(*                         consulted -- and the chain continues            *)
(*   Pipeline.autoWire     queryerSub = handlers minus ClientOnly ones;    *)
(*                         prefetchSub = queryerSub minus "cache"          *)
(*   pipelineQueryer.Query runs the sub-pipeline on an Internal() writer   *)
(*   Chain.Next / Cancel   pos/count                                       *)
(* Every other handler is a pass-through that is merely recorded in        *)
(* `touched`, except the two that answer in this model: "cache" (when the  *)
(* question is warm) and the tail (the resolver's stand-in).               *)
(*   responseWriter.Reset  (gap C17-r3-2) the chain's base writer decides  *)
(*                         Internal() for EVERY request: a *net.UDPAddr /  *)
(*                         *net.TCPAddr peer that is 127.0.0.255 (either   *)
(*                         byte form) with port 0 is the "sentinel" of a   *)
(*                         synthesised internal query, otherwise what the  *)
(*                         transport's own Internal() says (BufferWriter). *)
(*                         So the address type of the transport (udp, doq: *)
(*                         UDP; tcp, dot, doh: TCP), the source PORT and   *)
(*                         the sentinel address are request dimensions:    *)
(*                         `tr`, `port`, SentinelSrcs.  A network client   *)
(*                         is a client whatever address and port it shows  *)
(*                         (ClientNeverInternal).                          *)
(* In the main family (Gate_quick/full) no source is the sentinel, so no   *)
(* transcribed step reads the protocol there (Transports = {"any"}: the    *)
(* replay runs every case on udp/tcp/doh/doq writers); the sentinel family *)
(* (MC_Gate.tla SNets / SSrcs, GateSent_*.cfg) explores tr x port x the    *)
(* sources at and around 127.0.0.255.                                      *)
(***************************************************************************)
EXTENDS Integers, Sequences, FiniteSets, TLC

CONSTANTS Chain,        \* sequence of handler names, the registered order
          ClientOnlyH,  \* names whose handler reports ClientOnly() = TRUE
          Answering,    \* names of handlers that look up, resolve or answer
          TailH,         \* name of the last handler (resolver stand-in)
          Nets, Srcs, Covers,   \* Covers[n][s] \in BOOLEAN ; "bad" \in Nets is unparsable
          AclSets,      \* the access lists explored (subsets of Nets)
          MaxViews,
          Admit(_, _),  \* which (access list, views) configurations a run explores
          Borns,        \* {"wire","msg"}
          Answers,      \* {"cache","tail"}: who would answer the question downstream
          Transports,   \* SUBSET {"any","udp","tcp","doh","doq"}: the listener a client request came in on
          Ports,        \* SUBSET {"zero","eph"}: source port 0 / an ordinary port
          SentinelSrcs  \* SUBSET Srcs: source classes whose address is 127.0.0.255 (4-byte or v4-mapped form)

(* switches (zero-arity definitions a cfg overrides with `<-`): both FALSE is the code as built *)
StreamIgnoresPort    == FALSE   \* mutant (seeded C17-r3-2): the *net.TCPAddr branch of Reset lost `a.Port == 0 &&`
IngressDropsPortZero == FALSE   \* candidate repair: a listener never hands a peer with source port 0 to the chain

Idx(h) == CHOOSE i \in 1..Len(Chain) : Chain[i] = h
Has(h) == \E i \in 1..Len(Chain) : Chain[i] = h

(* autoWire *)
Filter(seq, drop) == SelectSeq(seq, LAMBDA h : h \notin drop)
QuerySub    == Filter(Chain, ClientOnlyH)
PrefetchSub == Filter(Chain, ClientOnlyH \cup {"cache"})

ViewRecs == [net : Nets, has : BOOLEAN]
ViewLists == UNION {[1..k -> ViewRecs] : k \in 0..MaxViews}

VARIABLES acl,       \* configured access list (set of net classes; may contain "bad")
          views,     \* configured views in declaration order
          req,       \* [kind, src, born, ans, pipe]
          pos,       \* index of the next handler in the request's pipeline
          live,      \* Chain.count > 0
          written,   \* "none" or the name of the handler that wrote the reply
          viewSel,   \* index of the view that answered, 0 if none
          touched    \* handlers whose ServeDNS ran for this request

vars == <<acl, views, req, pos, live, written, viewSel, touched>>

NoReq == [kind |-> "none", src |-> "-", born |-> "-", ans |-> "-", pipe |-> "-", tr |-> "-", port |-> "-"]

PipeOf(r) == IF r.pipe = "main" THEN Chain
             ELSE IF r.pipe = "query" THEN QuerySub ELSE PrefetchSub

(* ipset.New on the configured strings: the unparsable entry contributes nothing *)
Contains(netset, s) == \E n \in netset : n # "bad" /\ Covers[n][s]
(* accesslist.New + List.ServeDNS *)
Allowed(a, s) == IF a = {} THEN TRUE ELSE Contains(a, s)

Matching(s) == {i \in 1..Len(views) : Contains({views[i].net}, s)}
FirstMatch(s) == IF Matching(s) = {} THEN 0
                 ELSE CHOOSE i \in Matching(s) : \A j \in Matching(s) : i <= j

Init == /\ acl \in AclSets /\ views \in ViewLists /\ Admit(acl, views)
        /\ req = NoReq /\ pos = 1 /\ live = FALSE
        /\ written = "none" /\ viewSel = 0 /\ touched = {}

Idle == req.kind = "none"
Done == req.kind # "none" /\ (~live \/ pos > Len(PipeOf(req)))

(* Server.ServeRaw / ServeMsg: a client request enters the full chain (with the repair: a peer with
   source port 0 is dropped by the listener, the chain never runs) *)
Begin(s, b, a, t, pt) ==
  /\ Idle /\ s \in Srcs /\ b \in Borns /\ a \in Answers /\ t \in Transports /\ pt \in Ports
  /\ req' = [kind |-> "client", src |-> s, born |-> b, ans |-> a, pipe |-> "main", tr |-> t, port |-> pt]
  /\ pos' = 1 /\ live' = ~(IngressDropsPortZero /\ pt = "zero")
  /\ written' = "none" /\ viewSel' = 0 /\ touched' = {}
  /\ UNCHANGED <<acl, views>>

(* Queryer.Query from inside the resolver / cache: BufferWriter, Internal() = TRUE *)
InternalSubquery(p, a) ==
  /\ Idle /\ p \in {"query", "prefetch"} /\ a \in Answers
  /\ req' = [kind |-> "internal", src |-> "-", born |-> "msg", ans |-> a, pipe |-> p, tr |-> "-", port |-> "-"]
  /\ pos' = 1 /\ live' = TRUE /\ written' = "none" /\ viewSel' = 0 /\ touched' = {}
  /\ UNCHANGED <<acl, views>>

Cur == PipeOf(req)[pos]
Running == req.kind # "none" /\ live /\ pos <= Len(PipeOf(req))
SubQuery == req.kind = "internal"
(* responseWriter.Reset: the address type of the transport, then the sentinel test of that branch *)
AddrKind(t) == IF t \in {"udp", "doq"} THEN "udp" ELSE "tcp"
SentinelHit ==
  /\ req.kind = "client" /\ req.src \in SentinelSrcs
  /\ \/ req.port = "zero" /\ ~IngressDropsPortZero     \* (dropped by the listener: no writer ever sees it)
     \/ StreamIgnoresPort /\ AddrKind(req.tr) = "tcp"
(* what ch.Writer.Internal() reports to accesslist / views (and ratelimit, reflex, cache, dns64, accesslog) *)
Internal == SubQuery \/ SentinelHit

NextH  == /\ pos' = pos + 1 /\ UNCHANGED <<live, written, viewSel>>
Cancel == /\ pos' = pos + 1 /\ live' = FALSE /\ UNCHANGED <<written, viewSel>>
Write(h, v) == /\ pos' = pos + 1 /\ live' = FALSE /\ written' = h /\ viewSel' = v

ServeAccessList ==
  /\ Running /\ Cur = "accesslist"
  /\ touched' = touched \cup {"accesslist"}
  /\ IF Internal THEN NextH
     ELSE IF ~Allowed(acl, req.src) THEN Cancel      \* no reply to client
     ELSE NextH
  /\ UNCHANGED <<acl, views, req>>

SelectView ==
  /\ Running /\ Cur = "views"
  /\ touched' = touched \cup {"views"}
  /\ IF Len(views) = 0 \/ Internal THEN NextH
     ELSE LET i == FirstMatch(req.src) IN
          IF i # 0 /\ views[i].has THEN Write("views", i) ELSE NextH
  /\ UNCHANGED <<acl, views, req>>

ServeCache ==
  /\ Running /\ Cur = "cache"
  /\ touched' = touched \cup {"cache"}
  /\ IF req.ans = "cache" THEN Write("cache", 0) ELSE NextH
  /\ UNCHANGED <<acl, views, req>>

ServeTail ==
  /\ Running /\ Cur = TailH
  /\ touched' = touched \cup {TailH}
  /\ Write(TailH, 0)
  /\ UNCHANGED <<acl, views, req>>

Pass(h) ==
  /\ Running /\ Cur = h /\ h \notin {"accesslist", "views", "cache", TailH}
  /\ touched' = touched \cup {h}
  /\ NextH
  /\ UNCHANGED <<acl, views, req>>

Finish ==
  /\ Done
  /\ req' = NoReq /\ pos' = 1 /\ live' = FALSE /\ written' = "none" /\ viewSel' = 0 /\ touched' = {}
  /\ UNCHANGED <<acl, views>>

Next ==
  \/ \E s \in Srcs, b \in Borns, a \in Answers, t \in Transports, pt \in Ports : Begin(s, b, a, t, pt)
  \/ \E p \in {"query", "prefetch"}, a \in Answers : InternalSubquery(p, a)
  \/ ServeAccessList \/ SelectView \/ ServeCache \/ ServeTail
  \/ \E i \in 1..Len(Chain) : Pass(Chain[i])
  \/ Finish

Spec == Init /\ [][Next]_vars

(* ------------------------------ properties --------------------------- *)
TypeOK ==
  /\ acl \subseteq Nets /\ views \in ViewLists
  /\ written \in {"none", "views", "cache", TailH}
  /\ viewSel \in 0..MaxViews /\ touched \subseteq {Chain[i] : i \in 1..Len(Chain)}

After(h) == {Chain[i] : i \in (Idx(h) + 1)..Len(Chain)}
Client == req.kind = "client"

(* the gate stands ahead of every handler that looks up, resolves or answers *)
GateAhead == Has("accesslist") /\ \A h \in Answering : Has(h) => Idx("accesslist") < Idx(h)

(* source outside the access list: no reply, nothing downstream runs -- either birth *)
DeniedTouchesNothing ==
  (Client /\ ~Allowed(acl, req.src)) =>
     /\ written = "none"
     /\ touched \cap After("accesslist") = {}
     /\ touched \cap Answering = {}

(* "applies to clients only": what came in through a listener is a client, never a resolver-internal
   sub-query, whatever address and port it claims *)
ClientNeverInternal == Client => ~Internal

(* and the gate does not over-deny: an allowed client is answered by someone *)
AllowedIsServed == (Client /\ Done /\ Allowed(acl, req.src) /\ ~(IngressDropsPortZero /\ req.port = "zero")) => written # "none"

(* per-client views: same containment rule, first matching view in declaration order;
   a matching view without a record lets the query fall through, it does not hand the
   client to a later view *)
FirstMatchingView ==       \* stated without the FirstMatch operator the action uses
  LET In(i)    == Contains({views[i].net}, req.src)
      Firstly(i) == In(i) /\ \A j \in 1..(i - 1) : ~In(j)
  IN
  /\ written = "views" =>
        /\ Client /\ viewSel \in 1..Len(views) /\ Firstly(viewSel) /\ views[viewSel].has
  /\ (Client /\ Done /\ Allowed(acl, req.src) /\ ~(IngressDropsPortZero /\ req.port = "zero")) =>
        /\ \A i \in 1..Len(views) :
              Firstly(i) => IF views[i].has THEN written = "views" /\ viewSel = i
                            ELSE written \in {"cache", TailH}
        /\ (\A i \in 1..Len(views) : ~In(i)) => written \in {"cache", TailH}

(* resolver-internal sub-queries never meet client policy *)
PolicyH == {"accesslist", "ratelimit", "reflex", "views"}
InternalSkipsClientPolicy ==
  /\ \A i \in 1..Len(QuerySub)    : QuerySub[i] \notin ClientOnlyH
  /\ \A i \in 1..Len(PrefetchSub) : PrefetchSub[i] \notin ClientOnlyH \cup {"cache"}
  /\ PolicyH \cap {Chain[i] : i \in 1..Len(Chain)} \subseteq ClientOnlyH
  /\ SubQuery => /\ touched \cap PolicyH = {}
                 /\ touched \cap ClientOnlyH = {}
                 /\ written \in {"none", "cache", TailH}
                 /\ (Done => written = IF req.ans = "cache" /\ req.pipe = "query" THEN "cache" ELSE TailH)

(* an unparsable entry never widens access, for the gate and for a view *)
Good(a) == a \ {"bad"}
UnparsableEntryIgnored ==
  /\ (Client /\ touched \cap After("accesslist") # {}) =>
        (acl = {} \/ Contains(Good(acl), req.src))
  /\ written = "views" => views[viewSel].net # "bad"
  /\ \A s \in Srcs : Contains(acl, s) = Contains(Good(acl), s)

(* what the replay compares the real chain with, at the end of a request *)
Outcome == [acl |-> acl, views |-> views, req |-> req, written |-> written,
            viewSel |-> viewSel, touched |-> touched, internal |-> Internal,
            allowed |-> (IF Client THEN Allowed(acl, req.src) ELSE TRUE)]
=============================================================================
