CONSTANTS
  HB = 2
  LB = 2
  V4 = 2
  MapPat = 3
  Fams = {4, 6}
  MaxLen = 3
  WithBad = TRUE
  QueryEdges = TRUE
  HostBits = "all"
  Canon = FALSE
INIT Init
NEXT Next
CHECK_DEADLOCK FALSE
