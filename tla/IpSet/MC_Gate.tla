------------------------------ MODULE MC_Gate ------------------------------
(* the default chain of gen.go / defaults.go with the resolver as the tail *)
EXTENDS Gate

MCChain == <<"recovery", "metrics", "dnstap", "accesslist", "ratelimit", "reflex", "edns",
             "accesslog", "chaos", "hostsfile", "views", "blocklist", "as112", "kubernetes",
             "dns64", "cache", "failover", "resolver">>
MCClientOnly == {"metrics", "dnstap", "accesslist", "ratelimit", "reflex", "accesslog", "views", "dns64"}
MCAnswering == {"chaos", "hostsfile", "views", "blocklist", "as112", "kubernetes", "dns64",
                "cache", "failover", "resolver"}

(* network classes: v4all = 0.0.0.0/0, v4net = some IPv4 prefix, v6all = ::/0,
   v6net = some IPv6 prefix, bad = an unparsable string.
   source classes: inside / outside v4net, inside / outside v6net, and the
   IPv4-mapped IPv6 form of the two IPv4 sources (which count as IPv4: ::/0 does
   not admit them, 0.0.0.0/0 does) *)
MCNets == {"v4all", "v4net", "v6all", "v6net", "bad"}
MCSrcs == {"v4in", "v4out", "v6in", "v6out", "mapin", "mapout"}
MCCovers ==
  [n \in MCNets |-> [s \in MCSrcs |->
     CASE n = "v4all" -> s \in {"v4in", "v4out", "mapin", "mapout"}
       [] n = "v4net" -> s \in {"v4in", "mapin"}
       [] n = "v6all" -> s \in {"v6in", "v6out"}
       [] n = "v6net" -> s = "v6in"
       [] OTHER       -> FALSE]]

AclAll   == SUBSET MCNets
(* for the view-order configs: the open default, a two-family list, a list that is only unparsable *)
AclViews == {{}, {"v4net", "v6net"}, {"v4all", "bad"}}
AdmitAll(a, v) == TRUE
(* quick tier: every access list against at most one view, and three access lists
   against every pair of views *)
AdmitQuick(a, v) == Len(v) <= 1 \/ a \in AclViews
=============================================================================
