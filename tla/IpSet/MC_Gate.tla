------------------------------ MODULE MC_Gate ------------------------------
(* the default chain of gen.go / defaults.go with the resolver as the tail *)
EXTENDS Gate

MCChain == <<"recovery", "metrics", "dnstap", "accesslist", "ratelimit", "reflex", "edns",
             "accesslog", "chaos", "hostsfile", "views", "blocklist", "as112", "kubernetes",
             "dns64", "cache", "failover", "resolver">>
MCClientOnly == {"metrics", "dnstap", "accesslist", "ratelimit", "reflex", "accesslog", "views", "dns64"}
MCAnswering == {"chaos", "hostsfile", "views", "blocklist", "as112", "kubernetes", "dns64",
                "cache", "failover", "resolver"}

(* network classes: v4all = 0.0.0.0/0, v4net = some IPv4 prefix, v6all = ::/0,
   v6net = some IPv6 prefix, bad = an unparsable string.
   source classes: inside / outside v4net, inside / outside v6net, and the
   IPv4-mapped IPv6 form of the two IPv4 sources (which count as IPv4: ::/0 does
   not admit them, 0.0.0.0/0 does) *)
MCNets == {"v4all", "v4net", "v6all", "v6net", "bad"}
MCSrcs == {"v4in", "v4out", "v6in", "v6out", "mapin", "mapout"}
MCCovers ==
  [n \in MCNets |-> [s \in MCSrcs |->
     CASE n = "v4all" -> s \in {"v4in", "v4out", "mapin", "mapout"}
       [] n = "v4net" -> s \in {"v4in", "mapin"}
       [] n = "v6all" -> s \in {"v6in", "v6out"}
       [] n = "v6net" -> s = "v6in"
       [] OTHER       -> FALSE]]

AclAll   == SUBSET MCNets
(* for the view-order configs: the open default, a two-family list, a list that is only unparsable *)
AclViews == {{}, {"v4net", "v6net"}, {"v4all", "bad"}}
AdmitAll(a, v) == TRUE
(* quick tier: every access list against at most one view, and three access lists
   against every pair of views *)
AdmitQuick(a, v) == Len(v) <= 1 \/ a \in AclViews

(* ---- the sentinel family (gap C17-r3-2) --------------------------------------------------
   responseWriter.Reset takes a *net.UDPAddr / *net.TCPAddr peer 127.0.0.255 with port 0 for a
   synthesised internal query.  Networks and sources are concrete here (the harness uses exactly
   these, also on real UDP / TCP sockets):
     all4 0.0.0.0/0   lo8 127.0.0.0/8   lolow 127.0.0.0/25   sent32 127.0.0.255/32
     near32 127.0.0.254/32   hi31 127.0.0.254/31   all6 ::/0   bad (unparsable)
     lo1 127.0.0.1   near 127.0.0.254   sent 127.0.0.255   mapsent ::ffff:127.0.0.255 (counts as IPv4)
     ext 198.51.100.7   v6x 2001:db8::17 *)
SNets == {"all4", "lo8", "lolow", "sent32", "near32", "hi31", "all6", "bad"}
SSrcs == {"lo1", "near", "sent", "mapsent", "ext", "v6x"}
SSentinel == {"sent", "mapsent"}
SCovers ==
  [n \in SNets |-> [s \in SSrcs |->
     CASE n = "all4"   -> s \in {"lo1", "near", "sent", "mapsent", "ext"}
       [] n = "lo8"    -> s \in {"lo1", "near", "sent", "mapsent"}
       [] n = "lolow"  -> s = "lo1"
       [] n = "sent32" -> s \in {"sent", "mapsent"}
       [] n = "near32" -> s = "near"
       [] n = "hi31"   -> s \in {"near", "sent", "mapsent"}
       [] n = "all6"   -> s = "v6x"
       [] OTHER        -> FALSE]]
SAcls == {{}, {"all4"}, {"lo8"}, {"lolow"}, {"sent32"}, {"near32"}, {"hi31"}, {"lolow", "sent32"},
          {"lolow", "near32"}, {"all6"}, {"lolow", "bad"}, {"all6", "lolow"}}
(* every access list without views; a view over the sentinel (or not) under three of them *)
AdmitSent(a, v) == IF Len(v) = 0 THEN TRUE     \* (IF, not \/: TLC splits a disjunction of Init into branches)
                   ELSE v[1].net \in {"all4", "hi31", "lolow"} /\ a \in {{}, {"lolow"}, {"lo8"}}
SentTransports == {"udp", "tcp", "doh", "doq"}
NoSrcs == {}
MCTrue == TRUE
=============================================================================
