----------------------------- MODULE GateCases -----------------------------
(* Case emitter for harness/c17/gate_test.go: every terminal state of Gate.tla  *)
(* (a finished client request or internal sub-query, with the configuration it  *)
(* ran under and the model's outcome) is printed once as JSON.  TLC evaluates a *)
(* state invariant exactly once per distinct state, which is what is wanted.    *)
EXTENDS MC_Gate, Json

Emit == Done => PrintT(ToJson(Outcome))
=============================================================================
