CONSTANTS
  HB = 2
  LB = 2
  V4 = 2
  MapPat = 3
  Fams = {4, 6}
  MaxLen = 0
  WithBad = TRUE
  QueryEdges = FALSE
  HostBits = "all"
  Canon = FALSE
  EmitLen = 2
INIT Init
NEXT Next
CHECK_DEADLOCK FALSE
