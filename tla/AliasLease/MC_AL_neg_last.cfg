CONSTANTS
  Leases <- L2
  SLeases <- S100
  RecTTLs <- R600
  Kinds1 <- KA
  Kinds2 <- KA
  Aliases <- ACname
  Names <- NB
  Horizon = 6
  MaxAsks = 3
  MaxChanges = 1
  TickSet <- T13
  FoldMode = "last"
  FloorLate = FALSE
INIT Init
NEXT Next
INVARIANTS TypeOK FollowsParent
CHECK_DEADLOCK FALSE
