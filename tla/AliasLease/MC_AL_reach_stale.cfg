CONSTANTS
  Leases <- L27
  SLeases <- S100
  RecTTLs <- R600
  Kinds1 <- KAll
  Kinds2 <- KA
  Aliases <- ABoth
  Names <- NTA
  Horizon = 6
  MaxAsks = 3
  MaxChanges = 1
  TickSet <- T13
  FoldMode = "min"
  FloorLate = FALSE
INIT Init
NEXT Next
INVARIANTS TypeOK NeverStaleDerived
CHECK_DEADLOCK FALSE
