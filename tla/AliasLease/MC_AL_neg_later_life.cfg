CONSTANTS
  Leases <- L2
  SLeases <- S100
  RecTTLs <- R600
  Kinds1 <- KNeg
  Kinds2 <- KA
  Aliases <- ABoth
  Names <- NTA
  Horizon = 6
  MaxAsks = 3
  MaxChanges = 1
  TickSet <- T13
  FoldMode = "later"
  FloorLate = FALSE
INIT Init
NEXT Next
INVARIANTS TypeOK EntryWithinPieces
CHECK_DEADLOCK FALSE
