CONSTANTS
  Leases <- L27
  SLeases <- S3_100
  RecTTLs <- R1_600
  Kinds1 <- KAll
  Kinds2 <- KAll
  Aliases <- ABoth
  Names <- NTA
  Horizon = 8
  MaxAsks = 4
  MaxChanges = 2
  TickSet <- T13
  FoldMode = "min"
  FloorLate = FALSE
INIT Init
NEXT Next
INVARIANTS TypeOK FollowsParent LeaseWithinGrant EntryWithinPieces ServedLive ShownTTL
CHECK_DEADLOCK FALSE
