CONSTANTS
  Leases <- L7
  SLeases <- S100
  RecTTLs <- R1_600
  Kinds1 <- KAll
  Kinds2 <- KA
  Aliases <- ABoth
  Names <- NTA
  Horizon = 9
  MaxAsks = 4
  MaxChanges = 1
  TickSet <- T13
  FoldMode = "min"
  FloorLate = FALSE
INIT Init
NEXT Next
INVARIANTS TypeOK FollowsParent LeaseWithinGrant EntryWithinPieces ServedLive ShownTTL
CHECK_DEADLOCK FALSE
