CONSTANTS
  Leases <- L27
  SLeases <- S3_100
  RecTTLs <- R1_600
  Kinds1 <- KA
  Kinds2 <- KA
  Aliases <- ACname
  Names <- NB
  Horizon = 9
  MaxAsks = 4
  MaxChanges = 1
  TickSet <- T13
  FoldMode = "min"
  FloorLate = FALSE
INIT Init
NEXT Next
INVARIANTS TypeOK FollowsParent LeaseWithinGrant EntryWithinPieces ServedLive ShownTTL
CHECK_DEADLOCK FALSE
