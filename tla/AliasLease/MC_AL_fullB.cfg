CONSTANTS
  Leases <- L27
  SLeases <- S3_100
  RecTTLs <- R1_600
  Kinds1 <- KNx
  Kinds2 <- KA
  Aliases <- ACname
  Names <- NAll
  Horizon = 9
  MaxAsks = 4
  MaxChanges = 2
  TickSet <- T13
  FoldMode = "min"
  FloorLate = FALSE
INIT Init
NEXT Next
INVARIANTS TypeOK FollowsParent LeaseWithinGrant EntryWithinPieces ServedLive ShownTTL
CHECK_DEADLOCK FALSE
