CONSTANTS
  Leases <- L27
  SLeases <- S100
  RecTTLs <- R600
  Kinds1 <- KAll
  Kinds2 <- KA
  Aliases <- ABoth
  Names <- NTA
  Horizon = 6
  MaxAsks = 4
  MaxChanges = 1
  TickSet <- T13
  FoldMode = "min"
  FloorLate = FALSE
INIT Init
NEXT Next
INVARIANTS TypeOK NeverFloorTension
CHECK_DEADLOCK FALSE
