CONSTANTS
  Leases <- L2
  SLeases <- S100
  RecTTLs <- R1_600
  Kinds1 <- KNeg
  Kinds2 <- KA
  Aliases <- ACname
  Names <- NTA
  Horizon = 6
  MaxAsks = 3
  MaxChanges = 1
  TickSet <- T13
  FoldMode = "min"
  FloorLate = TRUE
INIT Init
NEXT Next
INVARIANTS TypeOK ShownTTL
CHECK_DEADLOCK FALSE
