---------------------------- MODULE AliasLease ----------------------------
(***************************************************************************)
(* X08AL (serves C08, C04): delegation leases across alias chases that are *)
(* served from the cache -- derived entries.                               *)
(*                                                                         *)
(*   root    delegates  stable. (NS TTL = cfg.slease)  and                  *)
(*                      ghost.  (NS TTL = cfg.lease: below / above the 5 s  *)
(*                               cache floor)                               *)
(*   stable. alias.stable. CNAME t.ghost.   |   d.stable. DNAME ghost.      *)
(*   ghost.  version v of the zone: t.ghost. is a positive A, a NODATA or   *)
(*           an NXDOMAIN (cfg.kind1 for v = 1, cfg.kind2 afterwards); every *)
(*           datum carries v.  The parent re-points ghost. to a new server  *)
(*           (v+1, other data) or removes the delegation; the old servers   *)
(*           stay alive.  Every version also holds an alias of its own,     *)
(*           back.ghost. CNAME h<v>.stable. : the reverse case, a record of *)
(*           the LEASED zone whose chase ends in the stable one.            *)
(*                                                                         *)
(* The resolver+cache is the INTENDED one, one action per client question  *)
(* (latency is far below the 1 s clock unit), written after                *)
(*   middleware/cache/cache.go  handleCacheHit, boundRequestToEntryLifetime,*)
(*       ResponseWriter.WriteMsg, additionalAnswer (+ internalExchange /    *)
(*       subQueryLineage.inherit), entry_wire_chase.go serveChaseHit        *)
(*   middleware/resolver/resolver.go  processDelegation / noteCut,          *)
(*       checkDname + answer (the DNAME leg: forked cut folded back)        *)
(*   middleware/chain.go  ResponseMeta.BoundCutFor (min-only fold)          *)
(*                                                                         *)
(*   entry        = [kind, ver, st, ttl, cut]   hard expiry = min(st+ttl,  *)
(*                   cut); ttl is floored at 5 s, cut is not                *)
(*   hit          : the request tree is bound to the entry's hard expiry    *)
(*   miss         : ... to the delegation lease(s) on the descent path      *)
(*   derived entry: cut = min(lease of the alias's own zone, bound of the   *)
(*                   chase sub-query)                                       *)
(*                                                                         *)
(* Partitions: with DNSSEC off the handler resolves with CD=1, so the      *)
(* resolver's DNAME leg reads / writes the CD=1 partition of the answer     *)
(* cache (eT[2]); client questions and the cache's own CNAME chase use      *)
(* CD=0 (eT[1]).                                                            *)
(*                                                                         *)
(* Ghost variables (grant, grantS, gT, gA) record what the PARENTS granted  *)
(* and what the authorities' TTLs allowed; the properties compare the       *)
(* cache's mechanics with them.                                             *)
(***************************************************************************)
EXTENDS Naturals, FiniteSets, TLC

CONSTANTS Leases, SLeases, RecTTLs, Kinds1, Kinds2, Aliases,
          Names,        \* the questions clients ask: "t" (target), "a" (alias in stable.), "b" (alias in ghost.)
          Horizon, MaxAsks, MaxChanges, TickSet,
          FoldMode,     \* "min" (the code) | "later" | "posonly" | "owncut" | "last"   (model mutants)
          FloorLate     \* TRUE: the 5 s floor is applied after the lease fold   (model mutant)

VARIABLES cfg, now, gver, nextV, dG, dS, eT, eA, eB, eH, reply, nask, nch,
          grant, grantS, gT, gA, gB

vars == <<cfg, now, gver, nextV, dG, dS, eT, eA, eB, eH, reply, nask, nch, grant, grantS, gT, gA, gB>>

Inf     == 9999
Floor   == 5
CT      == 600      \* TTL of the alias record itself
RootNeg == 60       \* negative TTL of the parent's own denial
MaxV    == 3
Min(a, b) == IF a < b THEN a ELSE b
Max(a, b) == IF a > b THEN a ELSE b
Min3(a, b, c) == Min(a, Min(b, c))

NoE == [kind |-> "none", ver |-> 0, st |-> 0, ttl |-> 0, cut |-> 0]
NoD == [exp |-> 0, ver |-> 0]
NoReply == [kind |-> "none", data |-> {}]

Cfgs == [lease : Leases, slease : SLeases, rt : RecTTLs, kind1 : Kinds1, kind2 : Kinds2, alias : Aliases]

KindOf(v) == IF v = 1 THEN cfg.kind1 ELSE cfg.kind2
Part == IF cfg.alias = "dname" THEN 2 ELSE 1

Hard(e)  == Min(e.st + e.ttl, e.cut)
Live(e)  == e.kind # "none" /\ now < Hard(e)
LiveD(d) == d.ver # 0 /\ now < d.exp

\* boundRequestToEntryLifetime: what a cache hit folds into the request tree
Bound(e) ==
  CASE FoldMode = "later"   -> IF e.cut # Inf /\ e.cut > e.st + e.ttl THEN e.cut ELSE e.st + e.ttl
    [] FoldMode = "posonly" -> IF e.kind = "a" THEN Hard(e) ELSE e.st + e.ttl
    [] OTHER                -> Hard(e)

\* ResponseMeta.BoundCutFor: fold bound b into a tree already bound by a (Inf = nothing to fold)
Fold(a, b) == IF b = Inf THEN a ELSE IF FoldMode = "last" THEN b ELSE Min(a, b)

Init == /\ cfg \in Cfgs
        /\ now = 0 /\ gver = 1 /\ nextV = 2
        /\ dG = NoD /\ dS = 0
        /\ eT = [p \in 1..2 |-> NoE] /\ eA = NoE /\ eB = NoE /\ eH = [v \in 1..MaxV |-> NoE]
        /\ reply = NoReply /\ nask = 0 /\ nch = 0
        /\ grant = [v \in 1..MaxV |-> 0] /\ grantS = 0
        /\ gT = [p \in 1..2 |-> 0] /\ gA = 0 /\ gB = 0

(***************************************************************************)
(* The world a sub-computation threads through                             *)
(***************************************************************************)
World == [dG |-> dG, grant |-> grant, eT |-> eT, gT |-> gT]

\* a question for t.ghost. in partition p, in world w: hit or resolve.
\* result: [w, kind, data, cb (bound folded into the asking tree), sttl (TTL the datum shows)]
AskT(w, p) ==
  LET e == w.eT[p] IN
  IF Live(e)
  THEN \* a served TTL is the remaining lifetime in WHOLE seconds, rounded down: one less than the model's integer
       \* remainder as soon as any time at all has passed since the clock value
       [w |-> w, kind |-> e.kind, cb |-> Bound(e), sttl |-> Max(Hard(e) - now, 1) - 1,
        data |-> {[ver |-> e.ver, cache |-> TRUE, ttl |-> Hard(e) - now, lim |-> w.gT[p]]}]
  ELSE
    LET needRef == ~LiveD(w.dG)
        d1 == IF ~needRef THEN w.dG
              ELSE IF gver # 0 THEN [exp |-> now + cfg.lease, ver |-> gver] ELSE NoD
        g1 == IF needRef /\ gver # 0 THEN [w.grant EXCEPT ![gver] = now + cfg.lease] ELSE w.grant
    IN IF d1.ver = 0
       THEN \* the parent's own denial: no delegation, no lease
            LET ne == [kind |-> "nx", ver |-> 0, st |-> now, ttl |-> Max(RootNeg, Floor), cut |-> Inf]
                lm == now + Max(RootNeg, Floor)
            IN [w |-> [dG |-> d1, grant |-> g1, eT |-> [w.eT EXCEPT ![p] = ne], gT |-> [w.gT EXCEPT ![p] = lm]],
                kind |-> "nx", cb |-> Inf, sttl |-> RootNeg,
                data |-> {[ver |-> 0, cache |-> FALSE, ttl |-> RootNeg, lim |-> lm]}]
       ELSE LET k  == KindOf(d1.ver)
                ne == [kind |-> k, ver |-> d1.ver, st |-> now, ttl |-> Max(cfg.rt, Floor), cut |-> d1.exp]
                lm == Min(now + Max(cfg.rt, Floor), g1[d1.ver])
            IN [w |-> [dG |-> d1, grant |-> g1, eT |-> [w.eT EXCEPT ![p] = ne], gT |-> [w.gT EXCEPT ![p] = lm]],
                kind |-> k, cb |-> d1.exp, sttl |-> cfg.rt,
                data |-> {[ver |-> d1.ver, cache |-> FALSE, ttl |-> cfg.rt, lim |-> lm]}]

Vers(data) == {d.ver : d \in data}
\* searchAdditionalAnswer drops an authority record that duplicates one already present (same rdata = same version)
Merge(have, more) == have \cup {d \in more : d.ver \notin Vers(have)}

Install(w) == /\ dG' = w.dG /\ grant' = w.grant /\ eT' = w.eT /\ gT' = w.gT

(***************************************************************************)
(* Client questions                                                        *)
(***************************************************************************)
AskTarget ==
  LET r == AskT(World, 1) IN
  /\ Install(r.w)
  /\ reply' = [kind |-> r.kind, data |-> r.data]
  /\ UNCHANGED <<dS, eA, grantS, gA, eB, eH, gB>>

AliasHit ==
  IF eA.kind = "nx"
  THEN \* RFC 6604: a cached NXDOMAIN at the end of an alias is terminal
       /\ reply' = [kind |-> "nx", data |-> {[ver |-> eA.ver, cache |-> TRUE, ttl |-> Hard(eA) - now, lim |-> gA]}]
       /\ UNCHANGED <<dG, grant, eT, gT, dS, eA, grantS, gA, eB, eH, gB>>
  ELSE \* the stored alias (plus, for a NODATA, the stored SOA) is completed by a fresh chase (CD=0 partition)
       LET r    == AskT(World, 1)
           own  == IF eA.kind = "nodata"
                   THEN {[ver |-> eA.ver, cache |-> TRUE, ttl |-> Hard(eA) - now, lim |-> gA]} ELSE {}
           data == IF r.kind = "a" THEN own \cup r.data ELSE Merge(own, r.data)
       IN /\ Install(r.w)
          /\ reply' = [kind |-> r.kind, data |-> data]
          /\ UNCHANGED <<dS, eA, grantS, gA, eB, eH, gB>>

AliasMiss ==
  LET dS1  == IF now < dS THEN dS ELSE now + cfg.slease
      gS1  == IF now < dS THEN grantS ELSE now + cfg.slease
      r1   == AskT(World, Part)
      \* DNAME: the resolver splices the target in; when that leaves no terminal record the cache's own
      \* chase follows the synthesized CNAME once more, in the CD=0 partition
      again == cfg.alias = "dname" /\ r1.kind = "nodata"
      r2   == IF again THEN AskT(r1.w, 1) ELSE r1
      w2   == r2.w
      cut1 == IF again THEN Fold(Fold(dS1, r1.cb), r2.cb) ELSE Fold(dS1, r1.cb)
      data == IF again THEN Merge(r1.data, r2.data) ELSE r1.data
      kind == IF again THEN r2.kind ELSE r1.kind
      \* what the stored alias entry retains: the alias record, plus the SOA of a denial
      \* (a second SOA of the same version is a duplicate and is dropped: only the first one's TTL is retained)
      dup  == again /\ Vers(r2.data) \subseteq Vers(r1.data)
      pttl == IF kind = "a" THEN CT ELSE Min(CT, Min(r1.sttl, IF again /\ ~dup THEN r2.sttl ELSE r1.sttl))
      ttl  == Max(Floor, pttl)
      cut0 == IF FoldMode = "owncut" THEN dS1 ELSE cut1
      cut  == IF FloorLate THEN Max(cut0, now + Floor) ELSE cut0
      ver  == IF kind = "a" THEN 0 ELSE (CHOOSE d \in r1.data : TRUE).ver
      \* truth: the alias record rests on stable.'s delegation; a stored denial also on everything its SOA rests on
      lims == {d.lim : d \in data}
      lim  == IF kind = "a" THEN Min(gS1, now + Max(Floor, CT))
              ELSE Min3(gS1, now + Max(Floor, CT), CHOOSE m \in lims : \A x \in lims : m <= x)
  IN /\ Install(w2)
     /\ dS' = dS1 /\ grantS' = gS1
     /\ eA' = [kind |-> kind, ver |-> ver, st |-> now, ttl |-> ttl, cut |-> cut]
     /\ gA' = lim
     /\ reply' = [kind |-> kind, data |-> data]
     /\ UNCHANGED <<eB, eH, gB>>

AskAlias == IF Live(eA) THEN AliasHit ELSE AliasMiss

(***************************************************************************)
(* back.ghost. CNAME h<v>.stable. : the alias lives in the leased zone, its *)
(* chase ends in stable. (entry eH[v], leased by stable.'s delegation)      *)
(***************************************************************************)
\* the chase of h<v>.stable.: hit, or resolve under stable.'s lease.  [dS, gS, eH, cb]
ChaseH(v) ==
  IF Live(eH[v])
  THEN [dS |-> dS, gS |-> grantS, eH |-> eH, cb |-> Bound(eH[v])]
  ELSE LET dS1 == IF now < dS THEN dS ELSE now + cfg.slease
           gS1 == IF now < dS THEN grantS ELSE now + cfg.slease
       IN [dS |-> dS1, gS |-> gS1, cb |-> dS1,
           eH |-> [eH EXCEPT ![v] = [kind |-> "a", ver |-> v, st |-> now, ttl |-> Max(CT, Floor), cut |-> dS1]]]

BackHit ==
  IF eB.kind = "nx"
  THEN /\ reply' = [kind |-> "nx", data |-> {[ver |-> eB.ver, cache |-> TRUE, ttl |-> Hard(eB) - now, lim |-> gB]}]
       /\ UNCHANGED <<dG, grant, dS, grantS, eH, eB, gB>>
  ELSE LET c == ChaseH(eB.ver)
       IN /\ dS' = c.dS /\ grantS' = c.gS /\ eH' = c.eH
          /\ reply' = [kind |-> "a", data |-> {[ver |-> eB.ver, cache |-> TRUE, ttl |-> Hard(eB) - now, lim |-> gB]}]
          /\ UNCHANGED <<dG, grant, eB, gB>>

BackMiss ==
  LET needRef == ~LiveD(dG)
      d1 == IF ~needRef THEN dG
            ELSE IF gver # 0 THEN [exp |-> now + cfg.lease, ver |-> gver] ELSE NoD
      g1 == IF needRef /\ gver # 0 THEN [grant EXCEPT ![gver] = now + cfg.lease] ELSE grant
  IN /\ dG' = d1 /\ grant' = g1
     /\ IF d1.ver = 0
        THEN /\ eB' = [kind |-> "nx", ver |-> 0, st |-> now, ttl |-> Max(RootNeg, Floor), cut |-> Inf]
             /\ gB' = now + Max(RootNeg, Floor)
             /\ reply' = [kind |-> "nx", data |-> {[ver |-> 0, cache |-> FALSE, ttl |-> RootNeg, lim |-> now + Max(RootNeg, Floor)]}]
             /\ UNCHANGED <<dS, grantS, eH>>
        ELSE LET v   == d1.ver
                 c   == ChaseH(v)
                 lm  == Min(g1[v], now + Max(cfg.rt, Floor))
                 cut == IF FoldMode = "owncut" THEN d1.exp ELSE Fold(d1.exp, c.cb)
             IN /\ eB' = [kind |-> "a", ver |-> v, st |-> now, ttl |-> Max(cfg.rt, Floor),
                           cut |-> IF FloorLate THEN Max(cut, now + Floor) ELSE cut]
                /\ gB' = lm
                /\ dS' = c.dS /\ grantS' = c.gS /\ eH' = c.eH
                /\ reply' = [kind |-> "a", data |-> {[ver |-> v, cache |-> FALSE, ttl |-> cfg.rt, lim |-> lm]}]

AskBack == /\ IF Live(eB) THEN BackHit ELSE BackMiss
           /\ UNCHANGED <<eT, gT, eA, gA>>

\* path: decoded ("msg") or wire-born ("wire") client question -- same observable behaviour, different code
Ask(n, path) ==
  /\ nask < MaxAsks
  /\ nask' = nask + 1
  /\ CASE n = "t" -> AskTarget
       [] n = "a" -> AskAlias
       [] OTHER   -> AskBack
  /\ UNCHANGED <<cfg, now, gver, nextV, nch>>

Tick(d) ==
  /\ now + d <= Horizon
  /\ now' = now + d
  /\ reply' = NoReply
  /\ UNCHANGED <<cfg, gver, nextV, dG, dS, eT, eA, eB, eH, nask, nch, grant, grantS, gT, gA, gB>>

Changed == /\ nch' = nch + 1 /\ reply' = NoReply
           /\ UNCHANGED <<cfg, now, dG, dS, eT, eA, eB, eH, nask, grant, grantS, gT, gA, gB>>

Repoint == /\ nch < MaxChanges /\ gver # 0 /\ nextV <= MaxV
           /\ gver' = nextV /\ nextV' = nextV + 1
           /\ Changed

Remove == /\ nch < MaxChanges /\ gver # 0
          /\ gver' = 0 /\ UNCHANGED nextV
          /\ Changed

Next == \/ \E n \in Names, path \in {"msg", "wire"} : Ask(n, path)
        \/ \E d \in TickSet : Tick(d)
        \/ Repoint \/ Remove

Spec == Init /\ [][Next]_vars

(***************************************************************************)
(* Properties                                                              *)
(***************************************************************************)
TypeOK == /\ now \in 0..Horizon /\ gver \in 0..MaxV /\ nask \in 0..MaxAsks /\ nch \in 0..MaxChanges
          /\ eA.kind \in {"none", "a", "nodata", "nx"} /\ eB.kind \in {"none", "a", "nx"}
          /\ \A p \in 1..2 : eT[p].kind \in {"none", "a", "nodata", "nx"}

\* C08: what was learned through a delegation the parent has meanwhile changed is served only while a lease the
\* parent granted for that version is still running -- directly or through an alias, whatever TTL / floor applies
FollowsParent ==
  \A d \in reply.data : (d.ver # 0 /\ d.ver # gver) => now < grant[d.ver]

\* a delegation is used for at most what the parent granted
LeaseWithinGrant == LiveD(dG) => dG.exp <= grant[dG.ver]

\* C04: a (derived) entry lives no longer than min(lease of every delegation it rests on, its pieces' lifetimes)
EntryWithinPieces ==
  /\ \A p \in 1..2 : Live(eT[p]) => Hard(eT[p]) <= gT[p]
  /\ Live(eA) => Hard(eA) <= gA
  /\ Live(eB) => Hard(eB) <= gB

\* C04: nothing is served past that, and the TTL shown on a cached datum never exceeds what is left of it
ServedLive == \A d \in reply.data : now < d.lim
ShownTTL   == \A d \in reply.data : d.cache => now + d.ttl <= d.lim

\* reachability (must FAIL): a derived reply from cache that is stale but still leased / after the lease has ended the
\* alias follows the parent although its own TTL would still run
NeverStaleDerived == ~(\E d \in reply.data : d.cache /\ d.ver # 0 /\ d.ver # gver /\ d.lim = gA /\ eA.kind # "none")
NeverFloorTension == ~(eA.kind \in {"nx", "nodata"} /\ eA.cut < eA.st + eA.ttl /\ eA.cut <= now /\ now < eA.st + eA.ttl
                       /\ eA.ver # gver /\ reply.kind # "none" /\ nask > 2)
=============================================================================
