CONSTANTS
  Leases <- L27
  SLeases <- S3_100
  RecTTLs <- R1_600
  Kinds1 <- KAll
  Kinds2 <- KAll
  Aliases <- ABoth
  Names <- NAll
  Horizon = 10
  MaxAsks = 6
  MaxChanges = 2
  TickSet <- T123
  FoldMode = "min"
  FloorLate = FALSE
INIT Init
NEXT Next
INVARIANTS TypeOK
CHECK_DEADLOCK FALSE
