CONSTANTS
  Readers = {}
  Workers = {}
  OvIds = {}
  Q = 1
  Cap = 3
  NSlab = 3
  NPkt = 0
  Batch = 1
  Inline = FALSE
  Kinds = {"hit", "miss", "silent"}
  MaxTrim = 1
  Conns = {"c1", "c2"}
  MaxConns = 2
  SmallCap = 1
  LargeCap = 1
  NFrames = 2
  Classes = {"small", "large"}
  ConnTimeouts = FALSE
  EarlyCancel = FALSE
  Sched = TRUE
  Mut = {}
SPECIFICATION Spec
INVARIANTS TypeOK NoPanic
CHECK_DEADLOCK FALSE
