CONSTANTS
  Readers = {"r1"}
  Workers = {"w1"}
  OvIds = {"o1"}
  Q = 1
  Cap = 2
  NSlab = 2
  NPkt = 1
  Batch = 2
  Inline = TRUE
  Kinds = {"hit", "miss", "silent"}
  MaxTrim = 0
  Conns = {}
  MaxConns = 1
  SmallCap = 1
  LargeCap = 1
  NFrames = 0
  Classes = {"small"}
  ConnTimeouts = FALSE
  EarlyCancel = FALSE
  Sched = FALSE
  Mut = {}
SPECIFICATION LiveSpec
PROPERTIES EventuallyStopped EventuallyHome
CHECK_DEADLOCK FALSE
