CONSTANTS
  Readers = {"r1"}
  Workers = {"w1"}
  OvIds = {"o1"}
  Q = 1
  Cap = 3
  NSlab = 5
  NPkt = 1
  Batch = 3
  Inline = TRUE
  Kinds = {"hit", "miss", "silent"}
  MaxTrim = 1
  Conns = {"c1"}
  MaxConns = 2
  SmallCap = 1
  LargeCap = 1
  NFrames = 1
  Classes = {"small"}
  ConnTimeouts = FALSE
  EarlyCancel = FALSE
  Sched = TRUE
  Mut = {}
SPECIFICATION Spec
INVARIANTS TypeOK NoPanic
CHECK_DEADLOCK FALSE
