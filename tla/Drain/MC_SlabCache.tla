---------------------------- MODULE MC_SlabCache ----------------------------
EXTENDS SlabCache
H2 == [p \in {"a", "b"} |-> IF p = "a" THEN 0 ELSE 1]
H3 == [p \in {"a", "b", "c"} |-> IF p = "a" THEN 0 ELSE IF p = "b" THEN 1 ELSE 0]
H3x == [p \in {"a", "b", "c"} |-> IF p = "a" THEN 0 ELSE IF p = "b" THEN 0 ELSE 1]
=============================================================================
