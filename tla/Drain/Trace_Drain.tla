---------------------------- MODULE Trace_Drain ----------------------------
(***************************************************************************)
(* Validation of runs recorded from the real server.Server against         *)
(* Drain.tla (code -> spec).  One NDJSON line per event, stamped from one  *)
(* harness-side sequence:                                                  *)
(*   - every point of the UDP trace hook (server/verif_trace_on.go), logged *)
(*     by the goroutine that owns the job there; the ownership steps       *)
(*     (trans / queued / overflow / release) are the [gate] actions of the *)
(*     model with the slab bound from the line, the others are skipped;    *)
(*   - the clients (send, dial, frames, clientClose), the handler at the   *)
(*     end of the chain (hExit), the cancel, the trimmer, and - in the     *)
(*     gated replay - the passing of the drain deadline (late);            *)
(*   - observations: obs / final (counters at a quiet point: conformance)  *)
(*     and oq / os (Quiesced() / Stopped() seen true by a free-running     *)
(*     sampler: their guard is the property predicate itself).             *)
(* Everything the hook does not see (the counters' atomics, the shutdown   *)
(* chain, the waiters, the TCP connection loops, timers) is composed in as *)
(* silent steps, so a log is accepted when some interleaving consumes it   *)
(* all; the high-water mark of `l` is kept in TLC register 1 (-workers 1). *)
(* A log that gets stuck on an oq / os line is a run in which Quiesced()   *)
(* or Stopped() was true although no explanation of the recorded events    *)
(* has the server quiescent / stopped there: a property violation.  Stuck  *)
(* anywhere else: the model does not explain the code (drift).             *)
(***************************************************************************)
EXTENDS MC_Drain, Json, IOUtils

TraceLog == ndJsonDeserialize(IOEnv.TRACE_FILE)
MaxStall == 300000

VARIABLES l, gated, freeRun, clock, qwin, qU, qT
tvars2 == <<vars, l, gated, freeRun, clock, qwin, qU, qT>>

ClockOff == [late |-> FALSE, tmo |-> FALSE]
TraceInit == Init /\ l = 1 /\ gated = FALSE /\ freeRun = FALSE /\ clock = ClockOff /\ TLCSet(1, 0) /\ TLCSet(2, 0)
             /\ qwin = FALSE /\ qU = FALSE /\ qT = FALSE
Line == TraceLog[l]
More == l <= Len(TraceLog)
IsEv(e) == More /\ Line.ev = e /\ l' = l + 1

(* In a gated run the goroutine is parked INSIDE the hook: the step the hook *)
(* announces happens when the driver opens the gate (its `grant` line, which *)
(* carries the hook point and the slab).  In a free run (and after the      *)
(* `ungated` line of a gated one) the hook line itself is the step.  A      *)
(* query parked in the handler returns when the driver says so (hRel); one  *)
(* that was never parked when the handler logs its return (hExit).          *)
HookEvs == {"trans", "queued", "overflow", "release"}

KindOf(ln) == IF ln.qr THEN "silent" ELSE IF ln.q = "h-0" THEN "hit" ELSE "miss"

Skipped == {"take", "stage", "burstAdd", "sendNow", "sendDirect", "sendBatch", "recv", "hEnter",
            "tcpRecv", "tcpEOF", "begin", "stopped", "qs", "qf", "dialFailed"}

TSkip ==
  /\ More /\ l' = l + 1
  /\ \/ Line.ev \in Skipped
     \/ Line.ev = "trans" /\ Line.to = "free"
     \/ Line.ev = "trim" /\ Line.n = 0
     \/ gated /\ Line.ev \in HookEvs
     \/ Line.ev = "hExit" /\ Line.parked
  /\ UNCHANGED <<vars, gated, freeRun, clock>>

(* the driver opened every gate for good: from here a hook line is the step *)
TUngate == IsEv("ungated") /\ gated' = FALSE /\ UNCHANGED <<vars, freeRun, clock>>

(* a free run says on its reset line what its end showed of the clock: whether a *)
(* drain deadline was exceeded (late), whether it lasted long enough for a     *)
(* connection timer (tmo); the search does not try timers the run cannot have  *)
(* seen                                                                        *)
TReset == /\ IsEv("reset") /\ ResetAll /\ gated' = Line.gated /\ freeRun' = Line.free
          /\ clock' = IF Line.free THEN [late |-> Line.late, tmo |-> Line.tmo] ELSE ClockOff

(* the ownership step a hook point / a grant stands for, on slab j *)
Step(ev, from, to, j) ==
     \/ /\ ev = "trans" /\ from = "free" /\ to = "reading"
        /\ \E r \in Readers : rcur[r] = j /\ RArm(r)
     \/ /\ ev = "trans" /\ from = "reading" /\ to = "serving"
        /\ \E r \in Readers : rcur[r] = j /\ RInlineBegin(r)
     \/ /\ ev = "trans" /\ from = "serving" /\ to = "reading"
        /\ \E r \in Readers : rcur[r] = j /\ RHandoff(r)
     \/ /\ ev = "trans" /\ from = "queued" /\ to = "serving"
        /\ \/ \E w \in Workers : wcur[w] = j /\ WServeBegin(w)
           \/ \E o \in OvIds : ocur[o] = j /\ OvBegin(o)
     \/ /\ ev = "queued"
        /\ \E r \in Readers : rcur[r] = j /\ REnqSend(r)
     \/ /\ ev = "overflow"
        /\ \E r \in Readers : rcur[r] = j /\ ROvSpawn(r)
     \/ /\ ev = "release" /\ from = "reading"
        /\ \E r \in Readers : rheld[r] # <<>> /\ Head(rheld[r]) = j /\ RStopRel(r)
     \/ /\ ev = "release" /\ from = "serving"
        /\ \/ \E r \in Readers : rcur[r] = j /\ RInlineRel(r)
           \/ \E r \in Readers : rburst[r] # <<>> /\ Head(rburst[r]) = j /\ RFlushRel(r)
           \/ \E w \in Workers : wcur[w] = j /\ WRel(w)
           \/ \E w \in Workers : wburst[w] # <<>> /\ Head(wburst[w]) = j /\ WFlushRel(w)
           \/ \E o \in OvIds : ocur[o] = j /\ OvRel(o)

THook ==
  /\ More /\ l' = l + 1 /\ UNCHANGED <<gated, freeRun, clock>>
  /\ \/ ~gated /\ Line.ev \in HookEvs /\ ~(Line.ev = "trans" /\ Line.to = "free")
        /\ Step(Line.ev, Line.from, Line.to, Line.j)
     \/ gated /\ Line.ev = "grant" /\ Step(Line.gev, Line.from, Line.to, Line.j)

TEnv ==
  /\ More /\ l' = l + 1 /\ UNCHANGED <<gated, freeRun, clock>>
  /\ \/ /\ Line.ev = "send"
        /\ IF sockOpen THEN ClientSend(KindOf(Line)) ELSE UNCHANGED vars   \* sent at a socket already closed
     \/ /\ Line.ev = "hExit" /\ ~Line.parked /\ Line.k = "udp"
        /\ \/ \E w \in Workers : WHandlerEnv(w)
           \/ \E o \in OvIds : OvHandlerEnv(o)
     \/ Line.ev = "hExit" /\ ~Line.parked /\ Line.k = "tcp" /\ CHandler(Line.c)
     \/ /\ Line.ev = "hRel" /\ Line.k = "udp"
        /\ \/ \E w \in Workers : (Line.j = 0 \/ wcur[w] = Line.j) /\ WHandlerEnv(w)
           \/ \E o \in OvIds : (Line.j = 0 \/ ocur[o] = Line.j) /\ OvHandlerEnv(o)
     \/ Line.ev = "hRel" /\ Line.k = "tcp" /\ CHandler(Line.c)
     \/ Line.ev = "dial" /\ Dial(Line.c)
     \/ /\ Line.ev = "frames"
        /\ IF cpc[Line.c] \in ClientSide /\ Line.c \notin forced
             THEN SendFrames(Line.c, Line.k) ELSE UNCHANGED vars    \* written into a socket the server has left
     \/ /\ Line.ev = "clientClose"
        /\ IF cpc[Line.c] \in ClientSide \cup {"exit", "exit2"}
             THEN ClientClose(Line.c) ELSE UNCHANGED vars
     \/ Line.ev = "cancel" /\ Cancel
     \/ Line.ev = "late" /\ (IF late THEN UNCHANGED vars ELSE DeadlinePass)
     \/ Line.ev = "late2" /\ (IF late2 THEN UNCHANGED vars ELSE GiveUpPass)
     \/ Line.ev = "trim" /\ Line.n > 0 /\ Trim

(* counters at a quiet point of the gated replay, and at the end of any run *)
TObs ==
  /\ More /\ Line.ev \in {"obs", "final"} /\ l' = l + 1
  /\ leased = Line.ls /\ inFlight = Line.if /\ Cardinality(idle) = Line.idle
  /\ free["small"] = Line.small /\ free["large"] = Line.large /\ active = Line.active
  /\ Line.ev = "obs" => (Quiesced = Line.quiesced /\ Stopped = Line.stopped)
  /\ Line.ev = "final" => (Line.stopped => Stopped)
  /\ UNCHANGED <<vars, gated, freeRun, clock>>

(* Quiesced() / Stopped() were seen true by the free-running sampler.  The  *)
(* sampler brackets each Quiesced() call with a qs line before it and an oq  *)
(* (true) / qf (false) line after it; Server.Quiesced asks the UDP listener  *)
(* first and the TCP listener second, so a true answer needs a moment inside *)
(* the bracket at which no UDP reply was owed and, at or after it, a moment  *)
(* at which no TCP frame held a job (qU, qT below follow that).  Stopped()   *)
(* is final, so having been true before the os line it is true at it.       *)
UdpQuiet == Outstanding = {}
TcpQuiet == \A c \in Conns : job[c] = "none"
TSeen ==
  /\ More /\ l' = l + 1
  /\ \/ Line.ev = "oq" /\ qT
     \/ Line.ev = "os" /\ Stopped
  /\ UNCHANGED <<vars, gated, freeRun, clock>>

Track ==
  LET ev == IF l' # l THEN Line.ev ELSE "silent" IN
  /\ qwin' = (CASE ev = "qs" -> TRUE [] ev \in {"oq", "qf", "reset"} -> FALSE [] OTHER -> qwin)
  /\ qU' = (qwin' /\ (IF ev = "qs" THEN UdpQuiet' ELSE qU \/ UdpQuiet'))
  /\ qT' = (qwin' /\ (IF ev = "qs" THEN UdpQuiet' /\ TcpQuiet' ELSE qT \/ (qU' /\ TcpQuiet')))

(* what no line records *)
(* The two listeners share nothing but the supervisor, so their unobserved   *)
(* steps commute with each other and with the other side's lines: a step of *)
(* one side can always be postponed to just before the next line that side  *)
(* has a stake in (postponing a TCP step only makes "no frame holds a job"   *)
(* last longer, so no oq line becomes harder to explain).  Only exploring   *)
(* those orders keeps the search from multiplying one side's interleavings  *)
(* by the other's.                                                          *)
UdpOnly == {"take", "trans", "queued", "overflow", "stage", "burstAdd", "sendNow", "sendDirect", "sendBatch",
            "release", "send", "recv", "grant", "ungated", "trim"}
TcpOnly == {"frames", "clientClose", "dial", "dialFailed", "tcpRecv", "tcpEOF"}
NextIsUdpOnly == Line.ev \in UdpOnly \/ (Line.ev \in {"hExit", "hRel", "hEnter"} /\ Line.k = "udp")
NextIsTcpOnly == Line.ev \in TcpOnly \/ (Line.ev \in {"hExit", "hRel", "hEnter"} /\ Line.k = "tcp")

Silent ==
  /\ More
  /\ \/ freeRun /\ clock.late /\ (DeadlinePass \/ GiveUpPass)     \* a driven run logs the clock (late, late2)
     \/ freeRun /\ clock.tmo /\ ~NextIsUdpOnly /\ \E c \in Conns : CTimeout(c)   \* (timers first = explored last)
     \/ InternalS
     \/ ~NextIsUdpOnly /\ InternalT
     \/ ~NextIsTcpOnly /\ InternalU
  /\ UNCHANGED <<l, gated, freeRun, clock>>

(* Silent last: with the LIFO state queue (StateDeque) the successors generated *)
(* last are explored first - the unobserved steps run ahead of the next line,  *)
(* which is what the code did; the other order was measured to get lost       *)
TraceNext == (TReset \/ TUngate \/ TSkip \/ THook \/ TEnv \/ TObs \/ TSeen \/ Silent) /\ Track
TraceSpec == TraceInit /\ [][TraceNext]_tvars2

(* once some path has consumed the whole log nothing else needs exploring *)
HighWater ==
  /\ IF l > TLCGet(1) THEN TLCSet(1, l) /\ TLCSet(2, TLCGet("distinct")) ELSE TRUE
  /\ l > Len(TraceLog) \/ TLCGet(1) <= Len(TraceLog)
  \* a log that gets stuck must not cost the whole silent closure: give up MaxStall states after the last advance
  /\ TLCGet("distinct") - TLCGet(2) < MaxStall
TraceAccepted ==
  /\ PrintT(<<"high-water", TLCGet(1), "of", Len(TraceLog), "exhaustive", TLCGet("distinct") - TLCGet(2) < MaxStall>>)
  /\ IF TLCGet(1) <= Len(TraceLog)
       THEN PrintT(<<"stuck-at", TraceLog[TLCGet(1)]>>) ELSE TRUE
  /\ TLCGet(1) > Len(TraceLog)
=============================================================================
