CONSTANTS
  Takers = {"a", "b"}
  Hint <- H2
  NShard = 2
  Cap = 1
  NSlab = 4
  MaxOps = 2
  MaxTrim = 0
  Atomic = TRUE
  Mut = {"noSweep"}
SPECIFICATION Spec
INVARIANTS TypeOK AtMostOneTaker TrimNeverDropsLeased LeaseBound LiveBounded LiveWithinCap
PROPERTIES PutReturnsIt
CHECK_DEADLOCK FALSE
