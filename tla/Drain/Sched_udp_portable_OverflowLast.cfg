CONSTANTS
  Readers = {"r1"}
  Workers = {"w1"}
  OvIds = {"o1", "o2"}
  Q = 1
  Cap = 3
  NSlab = 3
  NPkt = 3
  Batch = 1
  Inline = FALSE
  Kinds = {"miss"}
  MaxTrim = 0
  Conns = {}
  MaxConns = 1
  SmallCap = 1
  LargeCap = 1
  NFrames = 0
  Classes = {"small"}
  ConnTimeouts = FALSE
  EarlyCancel = FALSE
  Sched = TRUE
  Mut = {}
SPECIFICATION Spec
INVARIANTS TypeOK NoPanic
ACTION_CONSTRAINT OverflowLast
CHECK_DEADLOCK FALSE
