------------------------------- MODULE Drain -------------------------------
(***************************************************************************)
(* Shutdown and drain barriers of the owned transports of sdns:            *)
(*                                                                         *)
(*   server/server.go        Run / superviseShutdown / Stopped / Quiesced  *)
(*   server/listener_udp.go  Serve (start handshake), Shutdown             *)
(*   server/udp_engine.go    take, reader, enqueue(+Counted), serveOverflow *)
(*                           worker, serve, release, stopAndDrain          *)
(*   server/udp_batch_linux.go  batch reader cycle, serveInline, flushTX   *)
(*   server/listener_tcp.go  Serve, Shutdown                               *)
(*   server/tcp_engine.go    startAccepting, acceptLoop, register,         *)
(*                           serveConn, acquire, put, shutdown             *)
(*                                                                         *)
(* One action per critical section / atomic / blocking point.  The data a  *)
(* slab carries is UdpJob.tla's business; here a slab is an identity with  *)
(* an ownership state, and the question is what the COUNTERS and BARRIERS  *)
(* (leased, inFlight, readers / workerG / overflowG, the ready queue's     *)
(* close, the TCP tokens, acceptG / wg, the registry) let the shutdown     *)
(* conclude.                                                               *)
(*                                                                         *)
(* Actions tagged [gate X] are the points the verif trace hook of the UDP  *)
(* job walk reaches (server/verif_trace_on.go): the conformance driver     *)
(* parks the goroutine there and lets it pass in the order TLC chose.      *)
(* Actions tagged [env] are the client's, the handler's or the clock's.    *)
(* SchedNext gives every other action priority (run to the next gate): it  *)
(* is the sub-behaviour set a driver with those controls can force.        *)
(*                                                                         *)
(* Deliberate deviations:                                                  *)
(*  - the idle cache is one unordered set (the shards and the sweep are    *)
(*    SlabCache.tla); release() is park+leased-- in one step, inFlight--   *)
(*    in the next (the code: put, leased.Add(-1), inFlight.Add(-1));       *)
(*  - a TX burst never fills (NPkt < udpTXMax), FlushStaged from inside a  *)
(*    handler is not modelled; flushTX transmits the whole burst in one    *)
(*    step, then releases job by job;                                      *)
(*  - wildcard/pktinfo, MSG_TRUNC and transient read errors are not here   *)
(*    (UdpJob.tla: PReadDrop);                                             *)
(*  - one clock: the UDP and the TCP drain deadline are the same instant   *)
(*    (both are QueryTimeout after the cancel), `late`; the TCP engine's   *)
(*    second wait (2 s after the force) is `late2`;                        *)
(*  - a TCP frame is whole when it is announced (the body read never       *)
(*    blocks); DoT shares nothing with the plain engine and is left out.   *)
(***************************************************************************)
EXTENDS Naturals, Sequences, FiniteSets, TLC

CONSTANTS
  Readers,      \* UDP reader goroutines (one per socket)
  Workers,      \* fixed workers
  OvIds,        \* identities for overflow goroutines
  Q,            \* ready queue depth (IngressQueue)
  Cap,          \* slabCap
  NSlab,        \* slab identities available to &udpJob{}
  NPkt,         \* datagrams the clients send in one behaviour
  Batch,        \* slabs a reader arms per cycle (1: portable reader)
  Inline,       \* the readers run the inline pass (engine.inline # nil)
  Kinds,        \* subset of {"hit","miss","silent"}
  MaxTrim,      \* how many times the trimmer may fire
  Conns,        \* TCP client connections
  MaxConns, SmallCap, LargeCap,
  NFrames,      \* frames one connection may send
  Classes,      \* subset of {"small","large"}
  ConnTimeouts, \* the per-connection read / token-wait timers may fire
  EarlyCancel,  \* the cancel may race the listeners' Serve
  Sched,        \* TRUE: what the driver does not control runs first (see Stable)
  Mut           \* guards switched off (mutants), {} for the code as it is

AllMut == {"noReaderJoin", "noOverflowWait", "noWorkerWait", "countLate", "noClosingCheck",
           "swapLeak", "noAcceptJoin", "noStoppedCheck", "exitLeak", "closeFirst"}
ASSUME Mut \subseteq AllMut
ASSUME Kinds \subseteq {"hit", "miss", "silent"} /\ Classes \subseteq {"small", "large"}

Slabs == 1..NSlab
Gor   == Readers \cup Workers \cup OvIds
Min(a, b) == IF a < b THEN a ELSE b
Range(s) == {s[i] : i \in 1..Len(s)}

VARIABLES
  (* UDP engine *)
  sst, sk, idle, leased, inFlight, ready, readyClosed, inbox, nsent, ntrim,
  rpc, rheld, rpend, rcur, rburst,
  wpc, wcur, wburst,
  opc, ocur,
  pdec,
  readersWG, workerWG, overflowWG, ovWaitBegun,
  (* UDP listener *)
  userve, uclosing, rdExpired, sockOpen, ush, uwt, udrain,
  (* TCP engine + listener *)
  cpc, job, tok, buf, kbuf, nfr, closed, free, tconns, active, wgc, acceptG, apc, acur,
  tstopped, tclosing, lnOpen, forced, tserve, tsh, twt, tdrain, wgWaitBegun,
  (* server *)
  cancelled, late, late2, sup, running,
  (* ghosts *)
  err, lost, nreplied, lateJoin

uvars == <<sst, sk, idle, leased, inFlight, ready, readyClosed, inbox, nsent, ntrim,
           rpc, rheld, rpend, rcur, rburst, wpc, wcur, wburst, opc, ocur, pdec,
           readersWG, workerWG, overflowWG, ovWaitBegun>>
ulvars == <<userve, uclosing, rdExpired, sockOpen, ush, uwt, udrain>>
tvars == <<cpc, job, tok, buf, kbuf, nfr, closed, free, tconns, active, wgc, acceptG, apc, acur,
           tstopped, tclosing, lnOpen, forced, tserve, tsh, twt, tdrain, wgWaitBegun>>
svars == <<cancelled, late, late2, sup, running>>
gvars == <<err, lost, nreplied, lateJoin>>
vars == <<uvars, ulvars, tvars, svars, gvars>>

NoTok == [small |-> 0, large |-> 0]
CapOf(k) == IF k = "small" THEN SmallCap ELSE LargeCap

Init ==
  /\ sst = [j \in Slabs |-> "unborn"] /\ sk = [j \in Slabs |-> "none"]
  /\ idle = {} /\ leased = 0 /\ inFlight = 0
  /\ ready = <<>> /\ readyClosed = FALSE /\ inbox = <<>> /\ nsent = 0 /\ ntrim = 0
  /\ rpc = [r \in Readers |-> IF EarlyCancel THEN "unstarted" ELSE "top"]
  /\ rheld = [r \in Readers |-> <<>>] /\ rpend = [r \in Readers |-> <<>>]
  /\ rcur = [r \in Readers |-> 0] /\ rburst = [r \in Readers |-> <<>>]
  /\ wpc = [w \in Workers |-> IF EarlyCancel THEN "unstarted" ELSE "poll"]
  /\ wcur = [w \in Workers |-> 0] /\ wburst = [w \in Workers |-> <<>>]
  /\ opc = [o \in OvIds |-> "no"] /\ ocur = [o \in OvIds |-> 0]
  /\ pdec = [g \in Gor |-> FALSE]
  /\ readersWG = IF EarlyCancel THEN 0 ELSE Cardinality(Readers)
  /\ workerWG = IF EarlyCancel THEN 0 ELSE Cardinality(Workers)
  /\ overflowWG = 0 /\ ovWaitBegun = FALSE
  /\ userve = IF EarlyCancel THEN "init" ELSE "started"
  /\ uclosing = FALSE /\ rdExpired = FALSE /\ sockOpen = TRUE
  /\ ush = "run" /\ uwt = "none" /\ udrain = "none"
  /\ cpc = [c \in Conns |-> "idle"] /\ job = [c \in Conns |-> "none"]
  /\ tok = [c \in Conns |-> NoTok] /\ buf = [c \in Conns |-> <<>>] /\ kbuf = [c \in Conns |-> <<>>]
  /\ nfr = [c \in Conns |-> 0] /\ closed = {} /\ acur = "none"
  /\ free = [k \in {"small", "large"} |-> CapOf(k)]
  /\ tconns = {} /\ active = 0 /\ wgc = 0
  /\ acceptG = IF EarlyCancel THEN 0 ELSE 1
  /\ apc = IF EarlyCancel THEN "none" ELSE "loop"
  /\ tstopped = FALSE /\ tclosing = FALSE /\ lnOpen = TRUE /\ forced = {}
  /\ tserve = IF EarlyCancel THEN "init" ELSE "accepting"
  /\ tsh = "run" /\ twt = "none" /\ tdrain = "none" /\ wgWaitBegun = FALSE
  /\ cancelled = FALSE /\ late = FALSE /\ late2 = FALSE /\ sup = "wait" /\ running = 2
  /\ err = "" /\ lost = FALSE /\ nreplied = 0 /\ lateJoin = FALSE

(* Init again, as a step: the trace specification starts every recorded run from it *)
ResetAll ==
  /\ sst' = [j \in Slabs |-> "unborn"] /\ sk' = [j \in Slabs |-> "none"]
  /\ idle' = {} /\ leased' = 0 /\ inFlight' = 0
  /\ ready' = <<>> /\ readyClosed' = FALSE /\ inbox' = <<>> /\ nsent' = 0 /\ ntrim' = 0
  /\ rpc' = [r \in Readers |-> IF EarlyCancel THEN "unstarted" ELSE "top"]
  /\ rheld' = [r \in Readers |-> <<>>] /\ rpend' = [r \in Readers |-> <<>>]
  /\ rcur' = [r \in Readers |-> 0] /\ rburst' = [r \in Readers |-> <<>>]
  /\ wpc' = [w \in Workers |-> IF EarlyCancel THEN "unstarted" ELSE "poll"]
  /\ wcur' = [w \in Workers |-> 0] /\ wburst' = [w \in Workers |-> <<>>]
  /\ opc' = [o \in OvIds |-> "no"] /\ ocur' = [o \in OvIds |-> 0]
  /\ pdec' = [g \in Gor |-> FALSE]
  /\ readersWG' = IF EarlyCancel THEN 0 ELSE Cardinality(Readers)
  /\ workerWG' = IF EarlyCancel THEN 0 ELSE Cardinality(Workers)
  /\ overflowWG' = 0 /\ ovWaitBegun' = FALSE
  /\ userve' = IF EarlyCancel THEN "init" ELSE "started"
  /\ uclosing' = FALSE /\ rdExpired' = FALSE /\ sockOpen' = TRUE
  /\ ush' = "run" /\ uwt' = "none" /\ udrain' = "none"
  /\ cpc' = [c \in Conns |-> "idle"] /\ job' = [c \in Conns |-> "none"]
  /\ tok' = [c \in Conns |-> NoTok] /\ buf' = [c \in Conns |-> <<>>] /\ kbuf' = [c \in Conns |-> <<>>]
  /\ nfr' = [c \in Conns |-> 0] /\ closed' = {} /\ acur' = "none"
  /\ free' = [k \in {"small", "large"} |-> CapOf(k)]
  /\ tconns' = {} /\ active' = 0 /\ wgc' = 0
  /\ acceptG' = IF EarlyCancel THEN 0 ELSE 1
  /\ apc' = IF EarlyCancel THEN "none" ELSE "loop"
  /\ tstopped' = FALSE /\ tclosing' = FALSE /\ lnOpen' = TRUE /\ forced' = {}
  /\ tserve' = IF EarlyCancel THEN "init" ELSE "accepting"
  /\ tsh' = "run" /\ twt' = "none" /\ tdrain' = "none" /\ wgWaitBegun' = FALSE
  /\ cancelled' = FALSE /\ late' = FALSE /\ late2' = FALSE /\ sup' = "wait" /\ running' = 2
  /\ err' = "" /\ lost' = FALSE /\ nreplied' = 0 /\ lateJoin' = FALSE

---------------------------------------------------------------------------
(* release(from): scrub, cache.put, leased.Add(-1); the inFlight count is  *)
(* taken down by the same goroutine in its next step (pdec)                *)
ParkX(g, j, from, x) ==     \* x: a slab whose query meets its expired budget in the same step (0: none)
  /\ sst' = [sst EXCEPT ![j] = "idle"]
  /\ sk' = [i \in Slabs |-> IF i = j THEN "none" ELSE IF i = x /\ late THEN "silent" ELSE sk[i]]
  /\ idle' = idle \cup {j}
  /\ leased' = leased - 1
  /\ pdec' = [pdec EXCEPT ![g] = (from \in {"queued", "serving"})]
Park(g, j, from) == ParkX(g, j, from, 0)

Uncount(g) ==
  /\ pdec[g]
  /\ inFlight' = inFlight - 1
  /\ pdec' = [pdec EXCEPT ![g] = FALSE]
  /\ UNCHANGED <<sst, sk, idle, leased, ready, readyClosed, inbox, nsent, ntrim, rpc, rheld, rpend,
                 rcur, rburst, wpc, wcur, wburst, opc, ocur, readersWG, workerWG, overflowWG,
                 ovWaitBegun, ulvars, tvars, svars, gvars>>

(* a datagram leaves through the listener's socket *)
Transmit(n) ==
  /\ nreplied' = nreplied + (IF sockOpen THEN n ELSE 0)
  /\ lost' = (lost \/ (n > 0 /\ ~sockOpen))

---------------------------------------------------------------------------
(* clients [env] *)
ClientSend(k) ==
  /\ nsent < NPkt /\ sockOpen
  /\ nsent' = nsent + 1
  /\ inbox' = Append(inbox, k)
  /\ UNCHANGED <<sst, sk, idle, leased, inFlight, ready, readyClosed, ntrim, rpc, rheld, rpend, rcur,
                 rburst, wpc, wcur, wburst, opc, ocur, pdec, readersWG, workerWG, overflowWG,
                 ovWaitBegun, ulvars, tvars, svars, gvars>>

(* the opt-in trimmer (trim.go): drops the parked slabs, touches no counter *)
Trim ==
  /\ ntrim < MaxTrim /\ idle # {}
  /\ ntrim' = ntrim + 1
  /\ sst' = [j \in Slabs |-> IF j \in idle THEN "gone" ELSE sst[j]]
  /\ idle' = {}
  /\ UNCHANGED <<sk, leased, inFlight, ready, readyClosed, inbox, nsent, rpc, rheld, rpend, rcur,
                 rburst, wpc, wcur, wburst, opc, ocur, pdec, readersWG, workerWG, overflowWG,
                 ovWaitBegun, ulvars, tvars, svars, gvars>>

---------------------------------------------------------------------------
(* reader: take() = fetch-add, roll back above the cap, pop or allocate *)
UNCH_R == UNCHANGED <<ready, readyClosed, nsent, ntrim, wpc, wcur, wburst, opc, ocur,
                      readersWG, workerWG, ovWaitBegun, ulvars, tvars, svars>>

RTakeAdd(r) ==
  /\ rpc[r] = "top" /\ ~pdec[r] /\ Len(rheld[r]) < Batch
  /\ leased' = leased + 1
  /\ rpc' = [rpc EXCEPT ![r] = "took"]
  /\ UNCHANGED <<sst, sk, idle, inFlight, inbox, rheld, rpend, rcur, rburst, pdec, overflowWG, gvars>>
  /\ UNCH_R

FreshSlab == CHOOSE j \in Slabs : sst[j] = "unborn" /\ \A i \in Slabs : sst[i] = "unborn" => j <= i

RTakeCheck(r) ==
  /\ rpc[r] = "took"
  /\ IF leased > Cap
       THEN /\ leased' = leased - 1
            /\ rpc' = [rpc EXCEPT ![r] = IF rheld[r] = <<>> THEN "shed" ELSE "armed"]
            /\ UNCHANGED <<sst, idle, rcur, err>>
       ELSE IF idle # {}
         THEN \E j \in idle :
              /\ idle' = idle \ {j}
              /\ sst' = [sst EXCEPT ![j] = "taken"]
              /\ rcur' = [rcur EXCEPT ![r] = j]
              /\ rpc' = [rpc EXCEPT ![r] = "gateArm"]
              /\ UNCHANGED <<leased, err>>
         ELSE IF \E j \in Slabs : sst[j] = "unborn"
           THEN /\ rcur' = [rcur EXCEPT ![r] = FreshSlab]
                /\ sst' = [sst EXCEPT ![FreshSlab] = "taken"]
                /\ rpc' = [rpc EXCEPT ![r] = "gateArm"]
                /\ UNCHANGED <<idle, leased, err>>
           ELSE /\ err' = "model: out of slab identities"
                /\ UNCHANGED <<sst, idle, leased, rcur, rpc>>
  /\ UNCHANGED <<sk, inFlight, inbox, rheld, rpend, rburst, pdec, overflowWG, lost, nreplied, lateJoin>>
  /\ UNCH_R

(* [gate trans free->reading] the reader has just taken a slab *)
RArm(r) ==
  /\ rpc[r] = "gateArm"
  /\ sst' = [sst EXCEPT ![rcur[r]] = "reading"]
  /\ rheld' = [rheld EXCEPT ![r] = Append(@, rcur[r])]
  /\ rcur' = [rcur EXCEPT ![r] = 0]
  /\ rpc' = [rpc EXCEPT ![r] = IF Len(rheld[r]) + 1 < Batch THEN "top" ELSE "armed"]
  /\ UNCHANGED <<sk, idle, leased, inFlight, inbox, rpend, rburst, pdec, overflowWG, gvars>>
  /\ UNCH_R

CanRead == sockOpen /\ ~rdExpired

(* the blocked read returns datagrams (recvmmsg: as many as are queued and armed) *)
RRecv(r) ==
  /\ rpc[r] = "armed" /\ CanRead /\ inbox # <<>>
  /\ \E n \in 1..Min(Len(inbox), Len(rheld[r])) :
       /\ Sched => n = Min(Len(inbox), Len(rheld[r]))   \* what is queued is what recvmmsg returns
       /\ rpend' = [rpend EXCEPT ![r] = SubSeq(rheld[r], 1, n)]
       /\ rheld' = [rheld EXCEPT ![r] = SubSeq(@, n + 1, Len(@))]
       /\ sk' = [j \in Slabs |-> IF \E i \in 1..n : rheld[r][i] = j
                                  THEN inbox[CHOOSE i \in 1..n : rheld[r][i] = j] ELSE sk[j]]
       /\ inbox' = SubSeq(inbox, n + 1, Len(inbox))
  /\ rpc' = [rpc EXCEPT ![r] = "fin"]
  /\ UNCHANGED <<sst, idle, leased, inFlight, rcur, rburst, pdec, overflowWG, gvars>>
  /\ UNCH_R

(* the read fails on the expired deadline (or the closed socket): the loop ends *)
RStop(r) ==
  /\ rpc[r] \in {"armed", "shed"} /\ ~CanRead
  /\ rpc' = [rpc EXCEPT ![r] = "stopping"]
  /\ UNCHANGED <<sst, sk, idle, leased, inFlight, inbox, rheld, rpend, rcur, rburst, pdec, overflowWG, gvars>>
  /\ UNCH_R

(* [gate release] releaseHeld / release(udpJobReading) on the way out *)
RStopRel(r) ==
  /\ rpc[r] = "stopping" /\ rheld[r] # <<>>
  /\ Park(r, Head(rheld[r]), "reading")
  /\ rheld' = [rheld EXCEPT ![r] = Tail(@)]
  /\ UNCHANGED <<inFlight, inbox, rpc, rpend, rcur, rburst, overflowWG, gvars>>
  /\ UNCH_R

RExit(r) ==
  /\ rpc[r] = "stopping" /\ rheld[r] = <<>>
  /\ rpc' = [rpc EXCEPT ![r] = "exited"]
  /\ readersWG' = readersWG - 1
  /\ UNCHANGED <<sst, sk, idle, leased, inFlight, ready, readyClosed, inbox, nsent, ntrim, rheld, rpend,
                 rcur, rburst, wpc, wcur, wburst, opc, ocur, pdec, workerWG, overflowWG, ovWaitBegun,
                 ulvars, tvars, svars, gvars>>

(* cap reached with nothing armed: consume into the discard buffer *)
RShed(r) ==
  /\ rpc[r] = "shed" /\ CanRead /\ inbox # <<>>
  /\ \E n \in 1..(IF Batch = 1 THEN 1 ELSE Len(inbox)) :
       /\ Sched => n = (IF Batch = 1 THEN 1 ELSE Len(inbox))
       /\ inbox' = SubSeq(inbox, n + 1, Len(inbox))
  /\ rpc' = [rpc EXCEPT ![r] = "top"]
  /\ UNCHANGED <<sst, sk, idle, leased, inFlight, rheld, rpend, rcur, rburst, pdec, overflowWG, gvars>>
  /\ UNCH_R

(* finishRecv of the next filled slab *)
RFinBegin(r) ==
  /\ rpc[r] = "fin" /\ rpend[r] # <<>> /\ rcur[r] = 0 /\ ~pdec[r]
  /\ LET j == Head(rpend[r]) IN
     /\ rpend' = [rpend EXCEPT ![r] = Tail(@)]
     /\ rcur' = [rcur EXCEPT ![r] = j]
     /\ IF Inline
          THEN /\ rpc' = [rpc EXCEPT ![r] = "gateInl"]
               /\ UNCHANGED <<sst, inFlight>>
          ELSE \* enqueue: inFlight.Add(1), then enqueueCounted: state = queued
               /\ inFlight' = IF "countLate" \in Mut THEN inFlight ELSE inFlight + 1
               /\ sst' = [sst EXCEPT ![j] = "queued"]
               /\ rpc' = [rpc EXCEPT ![r] = "gateQ"]
  /\ UNCHANGED <<sk, idle, leased, inbox, rheld, rburst, pdec, overflowWG, gvars>>
  /\ UNCH_R

(* [gate trans reading->serving] serveInline: the job is outstanding from here *)
RInlineBegin(r) ==
  /\ rpc[r] = "gateInl"
  /\ sst' = [sst EXCEPT ![rcur[r]] = "serving"]
  /\ sk' = [sk EXCEPT ![rcur[r]] = IF late THEN "silent" ELSE @]
  /\ inFlight' = inFlight + 1
  /\ rpc' = [rpc EXCEPT ![r] = "inl"]
  /\ UNCHANGED <<idle, leased, inbox, rheld, rpend, rcur, rburst, pdec, overflowWG, gvars>>
  /\ UNCH_R

(* the inline pass: a hit is staged on the reader's burst, a miss comes back *)
(* unserved (handoff), a silent terminal releases                          *)
RInlineOut(r) ==
  /\ rpc[r] = "inl"
  /\ LET j == rcur[r] IN
     CASE sk[j] = "hit" ->
            /\ rburst' = [rburst EXCEPT ![r] = Append(@, j)]
            /\ rcur' = [rcur EXCEPT ![r] = 0]
            /\ rpc' = [rpc EXCEPT ![r] = "fin"]
       [] sk[j] = "miss" ->
            /\ rpc' = [rpc EXCEPT ![r] = "gateHand"]
            /\ UNCHANGED <<rburst, rcur>>
       [] OTHER ->
            /\ rpc' = [rpc EXCEPT ![r] = "gateRelInl"]
            /\ UNCHANGED <<rburst, rcur>>
  /\ UNCHANGED <<sst, sk, idle, leased, inFlight, inbox, rheld, rpend, pdec, overflowWG, gvars>>
  /\ UNCH_R

(* [gate trans serving->reading] handoff: count carried, enqueueCounted sets queued *)
RHandoff(r) ==
  /\ rpc[r] = "gateHand"
  /\ sst' = [sst EXCEPT ![rcur[r]] = "queued"]
  /\ rpc' = [rpc EXCEPT ![r] = "gateQ"]
  /\ UNCHANGED <<sk, idle, leased, inFlight, inbox, rheld, rpend, rcur, rburst, pdec, overflowWG, gvars>>
  /\ UNCH_R

(* [gate release] silent inline terminal *)
RInlineRel(r) ==
  /\ rpc[r] = "gateRelInl"
  /\ Park(r, rcur[r], "serving")
  /\ rcur' = [rcur EXCEPT ![r] = 0]
  /\ rpc' = [rpc EXCEPT ![r] = "fin"]
  /\ UNCHANGED <<inFlight, inbox, rheld, rpend, rburst, overflowWG, gvars>>
  /\ UNCH_R

(* [gate queued] the hand to the ready queue, or overflowG.Add(1) when it is full *)
REnqSend(r) ==
  /\ rpc[r] = "gateQ"
  /\ inFlight' = IF "countLate" \in Mut /\ ~Inline THEN inFlight + 1 ELSE inFlight
  /\ IF readyClosed
       THEN /\ err' = "panic: send on closed channel (ready)"
            /\ UNCHANGED <<ready, rcur, rpc, overflowWG, lateJoin>>
       ELSE IF Len(ready) < Q
         THEN /\ ready' = Append(ready, rcur[r])
              /\ rcur' = [rcur EXCEPT ![r] = 0]
              /\ rpc' = [rpc EXCEPT ![r] = "fin"]
              /\ UNCHANGED <<overflowWG, lateJoin, err>>
         ELSE /\ overflowWG' = overflowWG + 1
              /\ lateJoin' = (lateJoin \/ ovWaitBegun)
              /\ rpc' = [rpc EXCEPT ![r] = "gateOv"]
              /\ UNCHANGED <<ready, rcur, err>>
  /\ UNCHANGED <<sst, sk, idle, leased, readyClosed, inbox, nsent, ntrim, rheld, rpend, rburst,
                 wpc, wcur, wburst, opc, ocur, pdec, readersWG, workerWG, ovWaitBegun,
                 ulvars, tvars, svars, lost, nreplied>>

(* [gate overflow] go e.serveOverflow(j) *)
ROvSpawn(r) ==
  /\ rpc[r] = "gateOv"
  /\ IF \E o \in OvIds : opc[o] = "no"
       THEN LET o == CHOOSE o \in OvIds : opc[o] = "no" IN
            /\ opc' = [opc EXCEPT ![o] = "spawned"]
            /\ ocur' = [ocur EXCEPT ![o] = rcur[r]]
            /\ rcur' = [rcur EXCEPT ![r] = 0]
            /\ rpc' = [rpc EXCEPT ![r] = "fin"]
            /\ err' = err
       ELSE /\ err' = "model: out of overflow identities"
            /\ UNCHANGED <<opc, ocur, rcur, rpc>>
  /\ UNCHANGED <<sst, sk, idle, leased, inFlight, ready, readyClosed, inbox, nsent, ntrim, rheld, rpend,
                 rburst, wpc, wcur, wburst, pdec, readersWG, workerWG, overflowWG, ovWaitBegun,
                 ulvars, tvars, svars, lost, nreplied, lateJoin>>

(* end of the cycle: the inline replies leave as one transmit batch *)
RFinEnd(r) ==
  /\ rpc[r] = "fin" /\ rpend[r] = <<>> /\ rcur[r] = 0 /\ ~pdec[r]
  /\ IF rburst[r] # <<>>
       THEN /\ Transmit(Len(rburst[r]))
            /\ rpc' = [rpc EXCEPT ![r] = "rfrel"]
       ELSE /\ rpc' = [rpc EXCEPT ![r] = "top"]
            /\ UNCHANGED <<lost, nreplied>>
  /\ UNCHANGED <<sst, sk, idle, leased, inFlight, inbox, rheld, rpend, rcur, rburst, pdec, overflowWG,
                 err, lateJoin>>
  /\ UNCH_R

(* [gate release] burst.release(), job by job *)
RFlushRel(r) ==
  /\ rpc[r] = "rfrel" /\ ~pdec[r] /\ rburst[r] # <<>>
  /\ Park(r, Head(rburst[r]), "serving")
  /\ rburst' = [rburst EXCEPT ![r] = Tail(@)]
  /\ rpc' = [rpc EXCEPT ![r] = IF Len(rburst[r]) = 1 THEN "top" ELSE "rfrel"]
  /\ UNCHANGED <<inFlight, inbox, rheld, rpend, rcur, overflowWG, gvars>>
  /\ UNCH_R

---------------------------------------------------------------------------
(* worker *)
UNCH_W == UNCHANGED <<inbox, nsent, ntrim, rpc, rheld, rpend, rcur, rburst, opc, ocur, readyClosed,
                      readersWG, overflowWG, ovWaitBegun, ulvars, tvars, svars, err, lateJoin>>

(* the non-blocking select at the top of the loop *)
WPoll(w) ==
  /\ wpc[w] = "poll" /\ ~pdec[w]
  /\ IF ready # <<>>
       THEN /\ wcur' = [wcur EXCEPT ![w] = Head(ready)]
            /\ ready' = Tail(ready)
            /\ wpc' = [wpc EXCEPT ![w] = "gateServe"]
            /\ UNCHANGED <<lost, nreplied>>
       ELSE /\ UNCHANGED <<wcur, ready>>
            /\ IF wburst[w] # <<>>
                 THEN /\ Transmit(Len(wburst[w]))      \* flushTX before returning / blocking
                      /\ wpc' = [wpc EXCEPT ![w] = "wfrel"]
                 ELSE /\ wpc' = [wpc EXCEPT ![w] = IF readyClosed THEN "exiting" ELSE "block"]
                      /\ UNCHANGED <<lost, nreplied>>
  /\ UNCHANGED <<sst, sk, idle, leased, inFlight, wburst, pdec, workerWG>>
  /\ UNCH_W

(* [gate release] burst.release(): at the top of the loop (wfrel), or from   *)
(* inside a serve (mfrel, see WMidFlush)                                    *)
WFlushRel(w) ==
  /\ wpc[w] \in {"wfrel", "mfrel"} /\ ~pdec[w] /\ wburst[w] # <<>>
  \* Materialize looks at the budget again once the flush is done: a query that spent it here ends unserved
  /\ ParkX(w, Head(wburst[w]), "serving", IF wpc[w] = "mfrel" /\ Len(wburst[w]) = 1 THEN wcur[w] ELSE 0)
  /\ wburst' = [wburst EXCEPT ![w] = Tail(@)]
  /\ wpc' = [wpc EXCEPT ![w] = IF Len(wburst[w]) > 1 THEN @
                                ELSE IF @ = "wfrel" THEN "poll" ELSE "serve"]
  /\ UNCHANGED <<inFlight, ready, wcur, workerWG, lost, nreplied>>
  /\ UNCH_W

(* udpJob.FlushStaged: a query that leaves the strict path (Chain.Materialize, *)
(* the decoded fallback) first sends what its worker has staged             *)
WMidFlush(w) ==
  /\ wpc[w] = "serve" /\ sk[wcur[w]] = "miss" /\ wburst[w] # <<>>
  /\ Transmit(Len(wburst[w]))
  /\ wpc' = [wpc EXCEPT ![w] = "mfrel"]
  /\ UNCHANGED <<sst, sk, idle, leased, inFlight, ready, wcur, wburst, pdec, workerWG>>
  /\ UNCH_W

(* the blocking receive *)
WBlock(w) ==
  /\ wpc[w] = "block" /\ ~pdec[w]
  /\ \/ /\ ready # <<>>
        /\ wcur' = [wcur EXCEPT ![w] = Head(ready)]
        /\ ready' = Tail(ready)
        /\ wpc' = [wpc EXCEPT ![w] = "gateServe"]
     \/ /\ ready = <<>> /\ readyClosed
        /\ wpc' = [wpc EXCEPT ![w] = "exiting"]
        /\ UNCHANGED <<wcur, ready>>
  /\ UNCHANGED <<sst, sk, idle, leased, inFlight, wburst, pdec, workerWG, lost, nreplied>>
  /\ UNCH_W

(* A query's budget is QueryTimeout from its arrival, the drain deadline the *)
(* same span from the (later) cancel: once the deadline has passed, a job   *)
(* that only now reaches serveWire is dropped unserved (EffectiveError).    *)
Expire(j) == sk' = [sk EXCEPT ![j] = IF late THEN "silent" ELSE @]

(* [gate trans queued->serving] *)
WServeBegin(w) ==
  /\ wpc[w] = "gateServe"
  /\ sst' = [sst EXCEPT ![wcur[w]] = "serving"]
  /\ Expire(wcur[w])
  /\ wpc' = [wpc EXCEPT ![w] = "serve"]
  /\ UNCHANGED <<idle, leased, inFlight, ready, wcur, wburst, pdec, workerWG, lost, nreplied>>
  /\ UNCH_W

(* the chain ran: a reply is staged for the burst, or the terminal is silent. *)
(* [env] for a miss (the handler at the end of the chain decides when)       *)
WHandler(w) ==
  /\ wpc[w] = "serve" /\ ~pdec[w]
  /\ sk[wcur[w]] = "miss" => wburst[w] = <<>>
  /\ IF sk[wcur[w]] = "silent"
       THEN /\ wpc' = [wpc EXCEPT ![w] = "gateRel"]
            /\ UNCHANGED <<wburst, wcur>>
       ELSE /\ wburst' = [wburst EXCEPT ![w] = Append(@, wcur[w])]
            /\ wcur' = [wcur EXCEPT ![w] = 0]
            /\ wpc' = [wpc EXCEPT ![w] = "poll"]
  /\ UNCHANGED <<sst, sk, idle, leased, inFlight, ready, pdec, workerWG, lost, nreplied>>
  /\ UNCH_W

(* [gate release] serve's deferred release of a job with nothing staged *)
WRel(w) ==
  /\ wpc[w] = "gateRel"
  /\ Park(w, wcur[w], "serving")
  /\ wcur' = [wcur EXCEPT ![w] = 0]
  /\ wpc' = [wpc EXCEPT ![w] = "poll"]
  /\ UNCHANGED <<inFlight, ready, wburst, workerWG, lost, nreplied>>
  /\ UNCH_W

WExit(w) ==
  /\ wpc[w] = "exiting" /\ ~pdec[w]
  /\ wpc' = [wpc EXCEPT ![w] = "exited"]
  /\ workerWG' = workerWG - 1
  /\ UNCHANGED <<sst, sk, idle, leased, inFlight, ready, wcur, wburst, pdec, lost, nreplied>>
  /\ UNCH_W

---------------------------------------------------------------------------
(* overflow goroutine: serve(j, nil), a Write leaves at once *)
UNCH_O == UNCHANGED <<ready, readyClosed, inbox, nsent, ntrim, rpc, rheld, rpend, rcur, rburst,
                      wpc, wcur, wburst, readersWG, workerWG, ovWaitBegun, ulvars, tvars, svars,
                      err, lateJoin>>

(* [gate trans queued->serving] *)
OvBegin(o) ==
  /\ opc[o] = "spawned"
  /\ sst' = [sst EXCEPT ![ocur[o]] = "serving"]
  /\ Expire(ocur[o])
  /\ opc' = [opc EXCEPT ![o] = "serving"]
  /\ UNCHANGED <<idle, leased, inFlight, ocur, pdec, overflowWG, lost, nreplied>>
  /\ UNCH_O

OvHandler(o) ==
  /\ opc[o] = "serving"
  /\ IF sk[ocur[o]] = "silent" THEN UNCHANGED <<lost, nreplied>> ELSE Transmit(1)
  /\ opc' = [opc EXCEPT ![o] = "gateRel"]
  /\ UNCHANGED <<sst, sk, idle, leased, inFlight, ocur, pdec, overflowWG>>
  /\ UNCH_O

(* [gate release] *)
OvRel(o) ==
  /\ opc[o] = "gateRel"
  /\ Park(o, ocur[o], "serving")
  /\ ocur' = [ocur EXCEPT ![o] = 0]
  /\ opc' = [opc EXCEPT ![o] = "done"]
  /\ UNCHANGED <<inFlight, overflowWG, lost, nreplied>>
  /\ UNCH_O

OvExit(o) ==
  /\ opc[o] = "done" /\ ~pdec[o]
  /\ opc' = [opc EXCEPT ![o] = "no"]
  /\ overflowWG' = overflowWG - 1
  /\ UNCHANGED <<sst, sk, idle, leased, inFlight, ocur, pdec, lost, nreplied>>
  /\ UNCH_O

---------------------------------------------------------------------------
(* udpListener.Serve: the start / shutdown handshake under the listener lock *)
UServeStart ==
  /\ userve = "init"
  /\ IF uclosing /\ "noClosingCheck" \notin Mut
       THEN /\ userve' = "skipped"
            /\ UNCHANGED <<rpc, wpc, readersWG, workerWG>>
       ELSE /\ userve' = "started"
            /\ rpc' = [r \in Readers |-> "top"]
            /\ wpc' = [w \in Workers |-> "poll"]
            /\ readersWG' = Cardinality(Readers)
            /\ workerWG' = Cardinality(Workers)
  /\ UNCHANGED <<sst, sk, idle, leased, inFlight, ready, readyClosed, inbox, nsent, ntrim, rheld, rpend,
                 rcur, rburst, wcur, wburst, opc, ocur, pdec, overflowWG, ovWaitBegun,
                 uclosing, rdExpired, sockOpen, ush, uwt, udrain, tvars, svars, gvars>>

UServeExit ==
  /\ \/ userve = "skipped"
     \/ userve = "started" /\ ush = "done"
  /\ userve' = "exited"
  /\ running' = running - 1
  /\ UNCHANGED <<uvars, uclosing, rdExpired, sockOpen, ush, uwt, udrain, tvars, cancelled, late, late2, sup, gvars>>

(* udpListener.Shutdown + udpEngine.stopAndDrain *)
UNCH_US == UNCHANGED <<sst, sk, idle, leased, inFlight, ready, inbox, nsent, ntrim, rpc, rheld, rpend,
                       rcur, rburst, wpc, wcur, wburst, opc, ocur, pdec, readersWG, workerWG,
                       overflowWG, userve, tvars, svars, gvars>>

UShClosing ==
  /\ ush = "start"
  /\ uclosing' = TRUE
  /\ ush' = IF "closeFirst" \in Mut THEN "closeSock0" ELSE "deadline"
  /\ UNCHANGED <<readyClosed, ovWaitBegun, rdExpired, sockOpen, uwt, udrain>> /\ UNCH_US

(* mutant closeFirst: the sockets are closed before the drain *)
UShCloseSockFirst ==
  /\ ush = "closeSock0"
  /\ sockOpen' = FALSE
  /\ ush' = "deadline"
  /\ UNCHANGED <<readyClosed, ovWaitBegun, uclosing, rdExpired, uwt, udrain>> /\ UNCH_US

UShDeadline ==
  /\ ush = "deadline"
  /\ rdExpired' = TRUE
  /\ ush' = "joinReaders"
  /\ UNCHANGED <<readyClosed, ovWaitBegun, uclosing, sockOpen, uwt, udrain>> /\ UNCH_US

(* e.readers.Wait(); close(e.ready); go waiter *)
UShJoinReaders ==
  /\ ush = "joinReaders"
  /\ readersWG = 0 \/ "noReaderJoin" \in Mut
  /\ readyClosed' = TRUE
  /\ uwt' = "workers"
  /\ ush' = "select"
  /\ UNCHANGED <<ovWaitBegun, uclosing, rdExpired, sockOpen, udrain>> /\ UNCH_US

UWtWorkers ==
  /\ uwt = "workers"
  /\ workerWG = 0 \/ "noWorkerWait" \in Mut
  /\ uwt' = "overflow"
  /\ ovWaitBegun' = TRUE
  /\ UNCHANGED <<readyClosed, uclosing, rdExpired, sockOpen, ush, udrain>> /\ UNCH_US

UWtOverflow ==
  /\ uwt = "overflow"
  /\ overflowWG = 0 \/ "noOverflowWait" \in Mut
  /\ uwt' = "closed"
  /\ UNCHANGED <<readyClosed, ovWaitBegun, uclosing, rdExpired, sockOpen, ush, udrain>> /\ UNCH_US

UShDrained ==
  /\ ush = "select" /\ uwt = "closed"
  /\ udrain' = "ok"
  /\ ush' = "closeSock"
  /\ UNCHANGED <<readyClosed, ovWaitBegun, uclosing, rdExpired, sockOpen, uwt>> /\ UNCH_US

UShTimeout ==
  /\ ush = "select" /\ late
  /\ udrain' = "timeout"
  /\ ush' = "closeSock"
  /\ UNCHANGED <<readyClosed, ovWaitBegun, uclosing, rdExpired, sockOpen, uwt>> /\ UNCH_US

UShCloseSock ==
  /\ ush = "closeSock"
  /\ sockOpen' = FALSE
  /\ ush' = "closeDone"
  /\ UNCHANGED <<readyClosed, ovWaitBegun, uclosing, rdExpired, uwt, udrain>> /\ UNCH_US

UShDone ==
  /\ ush = "closeDone"
  /\ ush' = "done"
  /\ UNCHANGED <<readyClosed, ovWaitBegun, uclosing, rdExpired, sockOpen, uwt, udrain>> /\ UNCH_US

---------------------------------------------------------------------------
(* TCP: clients [env] *)
UNCH_NT == UNCHANGED <<uvars, ulvars, svars>>

ServePcs == {"top", "relBlock", "blocked", "prefix", "acq", "waitTok", "serve", "exit", "exit2"}

Dial(c) ==
  /\ cpc[c] = "idle" /\ lnOpen
  /\ cpc' = [cpc EXCEPT ![c] = "backlog"]
  /\ UNCHANGED <<job, tok, buf, kbuf, nfr, closed, free, tconns, active, wgc, acceptG, apc, acur,
                 tstopped, tclosing, lnOpen, forced, tserve, tsh, twt, tdrain, wgWaitBegun, gvars>>
  /\ UNCH_NT

FrameSeqs == {<<k>> : k \in Classes} \cup {<<a, b>> : a \in Classes, b \in Classes}

ClientSide == (ServePcs \ {"exit", "exit2"}) \cup {"backlog", "accepted"}   \* the client still has a socket

SendFrames(c, fs) ==
  /\ cpc[c] \in ClientSide /\ c \notin closed /\ c \notin forced
  /\ nfr[c] + Len(fs) <= NFrames
  /\ nfr' = [nfr EXCEPT ![c] = @ + Len(fs)]
  /\ kbuf' = [kbuf EXCEPT ![c] = @ \o fs]
  /\ UNCHANGED <<cpc, job, tok, buf, closed, free, tconns, active, wgc, acceptG, apc, acur,
                 tstopped, tclosing, lnOpen, forced, tserve, tsh, twt, tdrain, wgWaitBegun, gvars>>
  /\ UNCH_NT

ClientClose(c) ==
  /\ cpc[c] \in ClientSide \cup {"exit", "exit2"} /\ c \notin closed
  /\ closed' = closed \cup {c}
  /\ UNCHANGED <<cpc, job, tok, buf, kbuf, nfr, free, tconns, active, wgc, acceptG, apc, acur,
                 tstopped, tclosing, lnOpen, forced, tserve, tsh, twt, tdrain, wgWaitBegun, gvars>>
  /\ UNCH_NT

(* accept loop *)
AAccept(c) ==
  /\ apc = "loop" /\ lnOpen /\ cpc[c] = "backlog"
  /\ apc' = "got" /\ acur' = c
  /\ cpc' = [cpc EXCEPT ![c] = "accepted"]
  /\ UNCHANGED <<job, tok, buf, kbuf, nfr, closed, free, tconns, active, wgc, acceptG,
                 tstopped, tclosing, lnOpen, forced, tserve, tsh, twt, tdrain, wgWaitBegun, gvars>>
  /\ UNCH_NT

(* the admission cap, then register(conn); go serveConn *)
ARegister ==
  /\ apc = "got"
  /\ apc' = "loop" /\ acur' = "none"
  /\ IF active >= MaxConns
       THEN /\ cpc' = [cpc EXCEPT ![acur] = "refused"]
            /\ UNCHANGED <<active, wgc, tconns, lateJoin>>
       ELSE /\ cpc' = [cpc EXCEPT ![acur] = "top"]
            /\ active' = active + 1
            /\ wgc' = wgc + 1
            /\ tconns' = tconns \cup {acur}
            /\ lateJoin' = (lateJoin \/ wgWaitBegun)
  /\ UNCHANGED <<job, tok, buf, kbuf, nfr, closed, free, acceptG,
                 tstopped, tclosing, lnOpen, forced, tserve, tsh, twt, tdrain, wgWaitBegun,
                 err, lost, nreplied>>
  /\ UNCH_NT

AExit ==
  /\ apc = "loop" /\ ~lnOpen
  /\ apc' = "exited"
  /\ acceptG' = acceptG - 1
  /\ UNCHANGED <<cpc, job, tok, buf, kbuf, nfr, closed, free, tconns, active, wgc, acur,
                 tstopped, tclosing, lnOpen, forced, tserve, tsh, twt, tdrain, wgWaitBegun, gvars>>
  /\ UNCH_NT

(* engine.put: the double-release guard, park, token back *)
TPut(c) ==
  LET k == job[c] IN
  /\ IF tok[c][k] = 0
       THEN err' = "panic: tcp job released twice"
       ELSE err' = err
  /\ free' = [free EXCEPT ![k] = @ + 1]
  /\ tok' = [tok EXCEPT ![c][k] = IF @ = 0 THEN 0 ELSE @ - 1]
  /\ job' = [job EXCEPT ![c] = "none"]

UNCH_C == UNCHANGED <<nfr, closed, tconns, active, wgc, acceptG, apc, acur, tstopped, tclosing, lnOpen,
                      forced, tserve, tsh, twt, tdrain, wgWaitBegun, lost, nreplied, lateJoin>>

(* top of the serveConn loop: shutdown between frames, then "about to block?" *)
CTop(c) ==
  /\ cpc[c] = "top"
  /\ cpc' = [cpc EXCEPT ![c] =
        IF tclosing THEN "exit"
        ELSE IF buf[c] # <<>> THEN "prefix"
        ELSE IF job[c] # "none" THEN "relBlock" ELSE "blocked"]
  /\ UNCHANGED <<job, tok, buf, kbuf, free, err>> /\ UNCH_C /\ UNCH_NT

(* release() before the connection blocks: an idle connection pins no slab *)
CRelBlock(c) ==
  /\ cpc[c] = "relBlock"
  /\ TPut(c)
  /\ cpc' = [cpc EXCEPT ![c] = "blocked"]
  /\ UNCHANGED <<buf, kbuf>> /\ UNCH_C /\ UNCH_NT

(* the blocked read returns what the client sent *)
CRead(c) ==
  /\ cpc[c] = "blocked" /\ kbuf[c] # <<>> /\ c \notin forced
  /\ buf' = [buf EXCEPT ![c] = kbuf[c]]
  /\ kbuf' = [kbuf EXCEPT ![c] = <<>>]
  /\ cpc' = [cpc EXCEPT ![c] = "prefix"]
  /\ UNCHANGED <<job, tok, free, err>> /\ UNCH_C /\ UNCH_NT

(* ... or fails: the client left, the shutdown force-closed it *)
CReadFail(c) ==
  /\ cpc[c] = "blocked"
  /\ c \in forced \/ (c \in closed /\ kbuf[c] = <<>>)
  /\ cpc' = [cpc EXCEPT ![c] = "exit"]
  /\ UNCHANGED <<job, tok, buf, kbuf, free, err>> /\ UNCH_C /\ UNCH_NT

(* [env] the first-read / idle / token-wait timer *)
CTimeout(c) ==
  /\ ConnTimeouts /\ cpc[c] \in {"blocked", "waitTok"}
  /\ cpc' = [cpc EXCEPT ![c] = "exit"]
  /\ UNCHANGED <<job, tok, buf, kbuf, free, err>> /\ UNCH_C /\ UNCH_NT

(* the class belongs to the frame: a held job of the other class goes back *)
CPrefix(c) ==
  /\ cpc[c] = "prefix"
  /\ IF job[c] # "none" /\ job[c] # Head(buf[c])
       THEN IF "swapLeak" \in Mut
              THEN /\ job' = [job EXCEPT ![c] = "none"]
                   /\ UNCHANGED <<tok, free, err>>
              ELSE TPut(c)
       ELSE UNCHANGED <<job, tok, free, err>>
  /\ cpc' = [cpc EXCEPT ![c] = "acq"]
  /\ UNCHANGED <<buf, kbuf>> /\ UNCH_C /\ UNCH_NT

TakeTok(c, k) ==
  /\ free' = [free EXCEPT ![k] = @ - 1]
  /\ tok' = [tok EXCEPT ![c][k] = @ + 1]
  /\ job' = [job EXCEPT ![c] = k]
  /\ buf' = [buf EXCEPT ![c] = Tail(@)]
  /\ cpc' = [cpc EXCEPT ![c] = "serve"]

(* acquire: the non-blocking take, else park for a token *)
CAcquire(c) ==
  /\ cpc[c] = "acq"
  /\ LET k == Head(buf[c]) IN
     IF job[c] = k
       THEN /\ buf' = [buf EXCEPT ![c] = Tail(@)]
            /\ cpc' = [cpc EXCEPT ![c] = "serve"]
            /\ UNCHANGED <<job, tok, free>>
       ELSE IF free[k] > 0
         THEN TakeTok(c, k)
         ELSE /\ cpc' = [cpc EXCEPT ![c] = "waitTok"]
              /\ UNCHANGED <<job, tok, free, buf>>
  /\ UNCHANGED <<kbuf, err>> /\ UNCH_C /\ UNCH_NT

CWaitTok(c) ==
  /\ cpc[c] = "waitTok"
  /\ \/ /\ free[Head(buf[c])] > 0
        /\ TakeTok(c, Head(buf[c]))
     \/ /\ tclosing
        /\ cpc' = [cpc EXCEPT ![c] = "exit"]
        /\ UNCHANGED <<job, tok, free, buf>>
  /\ UNCHANGED <<kbuf, err>> /\ UNCH_C /\ UNCH_NT

(* [env] serveFrame: the handler returns, the reply is staged *)
CHandler(c) ==
  /\ cpc[c] = "serve"
  /\ cpc' = [cpc EXCEPT ![c] = "top"]
  /\ UNCHANGED <<job, tok, buf, kbuf, free, err>> /\ UNCH_C /\ UNCH_NT

(* the deferred release(), then the last flush, conn.Close, unregister *)
CExit1(c) ==
  /\ cpc[c] = "exit"
  /\ IF job[c] # "none" /\ "exitLeak" \notin Mut
       THEN TPut(c) ELSE UNCHANGED <<job, tok, free, err>>
  /\ cpc' = [cpc EXCEPT ![c] = "exit2"]
  /\ UNCHANGED <<buf, kbuf>> /\ UNCH_C /\ UNCH_NT

CExit2(c) ==
  /\ cpc[c] = "exit2"
  /\ cpc' = [cpc EXCEPT ![c] = "gone"]
  /\ tconns' = tconns \ {c}
  /\ active' = active - 1
  /\ wgc' = wgc - 1
  /\ UNCHANGED <<job, tok, buf, kbuf, nfr, closed, free, acceptG, apc, acur, tstopped, tclosing, lnOpen,
                 forced, tserve, tsh, twt, tdrain, wgWaitBegun, gvars>>
  /\ UNCH_NT

---------------------------------------------------------------------------
(* tcpListener.Serve -> engine.startAccepting, under the engine lock *)
UNCH_TS == UNCHANGED <<cpc, job, tok, buf, kbuf, nfr, closed, free, tconns, active, wgc, acur>>

AcceptWaitBegun == tsh \notin {"run", "start", "closing", "stopped"}

TServeStart ==
  /\ tserve = "init"
  /\ IF tstopped /\ "noStoppedCheck" \notin Mut
       THEN /\ tserve' = "refused"
            /\ lnOpen' = FALSE
            /\ UNCHANGED <<acceptG, apc, lateJoin>>
       ELSE /\ tserve' = "accepting"
            /\ acceptG' = acceptG + 1
            /\ apc' = "loop"
            /\ lateJoin' = (lateJoin \/ AcceptWaitBegun)
            /\ UNCHANGED lnOpen
  /\ UNCHANGED <<tstopped, tclosing, forced, tsh, twt, tdrain, wgWaitBegun, err, lost, nreplied>>
  /\ UNCH_TS /\ UNCH_NT

TServeExit ==
  /\ tserve \in {"accepting", "refused"} /\ tsh = "done"
  /\ tserve' = "exited"
  /\ running' = running - 1
  /\ UNCHANGED <<uvars, ulvars, cpc, job, tok, buf, kbuf, nfr, closed, free, tconns, active, wgc, acceptG,
                 apc, acur, tstopped, tclosing, lnOpen, forced, tsh, twt, tdrain, wgWaitBegun,
                 cancelled, late, late2, sup, gvars>>

(* tcpListener.Shutdown + tcpEngine.shutdown *)
UNCH_TH == UNCHANGED <<acceptG, apc, tserve, gvars>> /\ UNCH_TS /\ UNCH_NT

TShLnClose ==
  /\ tsh = "start"
  /\ lnOpen' = FALSE /\ tsh' = "closing"
  /\ UNCHANGED <<tstopped, tclosing, forced, twt, tdrain, wgWaitBegun>> /\ UNCH_TH

TShClosing ==
  /\ tsh = "closing"
  /\ tclosing' = TRUE /\ tsh' = "stopped"
  /\ UNCHANGED <<tstopped, lnOpen, forced, twt, tdrain, wgWaitBegun>> /\ UNCH_TH

TShStopped ==
  /\ tsh = "stopped"
  /\ tstopped' = TRUE /\ tsh' = "joinAccept"
  /\ UNCHANGED <<tclosing, lnOpen, forced, twt, tdrain, wgWaitBegun>> /\ UNCH_TH

(* e.acceptG.Wait(); go func() { e.wg.Wait(); close(done) }() *)
TShJoinAccept ==
  /\ tsh = "joinAccept"
  /\ acceptG = 0 \/ "noAcceptJoin" \in Mut
  /\ wgWaitBegun' = TRUE /\ twt' = "wait" /\ tsh' = "select1"
  /\ UNCHANGED <<tstopped, tclosing, lnOpen, forced, tdrain>> /\ UNCH_TH

TWt ==
  /\ twt = "wait" /\ wgc = 0
  /\ twt' = "closed"
  /\ UNCHANGED <<tstopped, tclosing, lnOpen, forced, tsh, tdrain, wgWaitBegun>> /\ UNCH_TH

TShDrained ==
  /\ tsh = "select1" /\ twt = "closed"
  /\ tdrain' = "ok" /\ tsh' = "closeDone"
  /\ UNCHANGED <<tstopped, tclosing, lnOpen, forced, twt, wgWaitBegun>> /\ UNCH_TH

TShTimeout ==
  /\ tsh = "select1" /\ late
  /\ tsh' = "force"
  /\ UNCHANGED <<tstopped, tclosing, lnOpen, forced, twt, tdrain, wgWaitBegun>> /\ UNCH_TH

(* force phase: close the survivors outright *)
TShForce ==
  /\ tsh = "force"
  /\ forced' = tconns /\ tsh' = "select2"
  /\ UNCHANGED <<tstopped, tclosing, lnOpen, twt, tdrain, wgWaitBegun>> /\ UNCH_TH

TShDrained2 ==
  /\ tsh = "select2" /\ twt = "closed"
  /\ tdrain' = "forced" /\ tsh' = "closeDone"
  /\ UNCHANGED <<tstopped, tclosing, lnOpen, forced, twt, wgWaitBegun>> /\ UNCH_TH

TShGiveUp ==
  /\ tsh = "select2" /\ late2
  /\ tdrain' = "timeout" /\ tsh' = "closeDone"
  /\ UNCHANGED <<tstopped, tclosing, lnOpen, forced, twt, wgWaitBegun>> /\ UNCH_TH

TShDone ==
  /\ tsh = "closeDone"
  /\ tsh' = "done"
  /\ UNCHANGED <<tstopped, tclosing, lnOpen, forced, twt, tdrain, wgWaitBegun>> /\ UNCH_TH

---------------------------------------------------------------------------
(* server.Run's supervisor, and the clock *)
Cancel ==
  /\ ~cancelled
  /\ cancelled' = TRUE
  /\ UNCHANGED <<uvars, ulvars, tvars, late, late2, sup, running, gvars>>

(* The side of the server a configuration leaves empty (no readers / no    *)
(* connections, no Serve race) has nothing to interleave with: its whole   *)
(* shutdown is taken in this one step so that it does not multiply the     *)
(* other side's interleavings.                                             *)
UdpIdle == Readers = {} /\ ~EarlyCancel
TcpIdle == Conns = {} /\ ~EarlyCancel

SupWake ==
  /\ sup = "wait" /\ cancelled
  /\ sup' = "shutting"
  /\ IF UdpIdle
       THEN /\ ush' = "done" /\ uclosing' = TRUE /\ rdExpired' = TRUE /\ sockOpen' = FALSE
            /\ uwt' = "closed" /\ udrain' = "ok" /\ readyClosed' = TRUE /\ ovWaitBegun' = TRUE
       ELSE /\ ush' = "start"
            /\ UNCHANGED <<uclosing, rdExpired, sockOpen, uwt, udrain, readyClosed, ovWaitBegun>>
  /\ IF TcpIdle
       THEN /\ tsh' = "done" /\ lnOpen' = FALSE /\ tclosing' = TRUE /\ tstopped' = TRUE
            /\ apc' = "exited" /\ acceptG' = 0 /\ twt' = "closed" /\ tdrain' = "ok"
            /\ wgWaitBegun' = TRUE
       ELSE /\ tsh' = "start"
            /\ UNCHANGED <<lnOpen, tclosing, tstopped, apc, acceptG, twt, tdrain, wgWaitBegun>>
  /\ UNCHANGED <<sst, sk, idle, leased, inFlight, ready, inbox, nsent, ntrim, rpc, rheld, rpend, rcur,
                 rburst, wpc, wcur, wburst, opc, ocur, pdec, readersWG, workerWG, overflowWG, userve,
                 cpc, job, tok, buf, kbuf, nfr, closed, free, tconns, active, wgc, acur, forced, tserve,
                 cancelled, late, late2, running, gvars>>

SupJoin ==
  /\ sup = "shutting" /\ ush = "done" /\ tsh = "done"
  /\ sup' = "stop"
  /\ UNCHANGED <<uvars, ulvars, tvars, cancelled, late, late2, running, gvars>>

SupDone ==      \* s.Stop(); close(done)
  /\ sup = "stop"
  /\ sup' = "done"
  /\ UNCHANGED <<uvars, ulvars, tvars, cancelled, late, late2, running, gvars>>

(* [env] the drain deadline (QueryTimeout after the cancel) passes *)
DeadlinePass ==
  /\ sup = "shutting" /\ ~late
  /\ ush \in {"select"} \/ tsh \in {"select1"}
  /\ late' = TRUE
  /\ UNCHANGED <<uvars, ulvars, tvars, cancelled, late2, sup, running, gvars>>

(* [env] two more seconds after the force *)
GiveUpPass ==
  /\ tsh = "select2" /\ ~late2
  /\ late2' = TRUE
  /\ UNCHANGED <<uvars, ulvars, tvars, cancelled, late, sup, running, gvars>>

---------------------------------------------------------------------------
WHandlerEnv(w) == wpc[w] = "serve" /\ sk[wcur[w]] = "miss" /\ WHandler(w)
WHandlerInt(w) == wpc[w] = "serve" /\ sk[wcur[w]] # "miss" /\ WHandler(w)
OvHandlerEnv(o) == opc[o] = "serving" /\ sk[ocur[o]] = "miss" /\ OvHandler(o)
OvHandlerInt(o) == opc[o] = "serving" /\ sk[ocur[o]] # "miss" /\ OvHandler(o)

(* what a driver controls: the clients, the handler at the end of the chain, *)
(* the clock, the cancel, and the gates of the trace hook.  Under Sched      *)
(* everything else runs first, until it blocks: these are the behaviours a  *)
(* driver holding every gate can force.                                     *)
InternalU ==      \* the UDP listener and its engine
  \/ \E g \in Gor : Uncount(g)
  \/ \E r \in Readers : RTakeAdd(r) \/ RTakeCheck(r) \/ RRecv(r) \/ RStop(r) \/ RExit(r) \/ RShed(r)
                        \/ RFinBegin(r) \/ RInlineOut(r) \/ RFinEnd(r)
  \/ \E w \in Workers : WPoll(w) \/ WBlock(w) \/ WMidFlush(w) \/ WHandlerInt(w) \/ WExit(w)
  \/ \E o \in OvIds : OvHandlerInt(o) \/ OvExit(o)
  \/ UServeStart \/ UServeExit
  \/ UShClosing \/ UShCloseSockFirst \/ UShDeadline \/ UShJoinReaders \/ UWtWorkers \/ UWtOverflow
  \/ UShDrained \/ UShTimeout \/ UShCloseSock \/ UShDone
InternalT ==      \* the TCP listener and its engine
  \/ \E c \in Conns : AAccept(c) \/ CTop(c) \/ CRelBlock(c) \/ CRead(c) \/ CReadFail(c) \/ CPrefix(c)
                      \/ CAcquire(c) \/ CWaitTok(c) \/ CExit1(c) \/ CExit2(c)
  \/ ARegister \/ AExit
  \/ TServeStart \/ TServeExit
  \/ TShLnClose \/ TShClosing \/ TShStopped \/ TShJoinAccept \/ TWt \/ TShDrained \/ TShTimeout
  \/ TShForce \/ TShDrained2 \/ TShGiveUp \/ TShDone
InternalS == SupWake \/ SupJoin \/ SupDone       \* the supervisor
Internal == InternalU \/ InternalT \/ InternalS

Stable == ~Sched \/ ~ENABLED Internal

eClientSend(k)    == Stable /\ ClientSend(k)
eHandlerW(w)      == Stable /\ WHandlerEnv(w)
eHandlerO(o)      == Stable /\ OvHandlerEnv(o)
eDial(c)          == Stable /\ Dial(c)
eClientClose(c)   == Stable /\ ClientClose(c)
eHandlerC(c)      == Stable /\ CHandler(c)
eConnTimeout(c)   == Stable /\ CTimeout(c)
eSendFrames(c, fs) == Stable /\ SendFrames(c, fs)
eCancel           == Stable /\ Cancel
eDeadlinePass     == Stable /\ DeadlinePass
eGiveUpPass       == Stable /\ GiveUpPass
eTrim             == Stable /\ Trim
gArm(r)        == Stable /\ RArm(r)
gInlineBegin(r) == Stable /\ RInlineBegin(r)
gHandoff(r)    == Stable /\ RHandoff(r)
gInlineRel(r)  == Stable /\ RInlineRel(r)
gEnqSend(r)    == Stable /\ REnqSend(r)
gOvSpawn(r)    == Stable /\ ROvSpawn(r)
gStopRel(r)    == Stable /\ RStopRel(r)
gFlushRelR(r)  == Stable /\ RFlushRel(r)
gServeBeginW(w) == Stable /\ WServeBegin(w)
gRelW(w)       == Stable /\ WRel(w)
gFlushRelW(w)  == Stable /\ WFlushRel(w)
gServeBeginO(o) == Stable /\ OvBegin(o)
gRelO(o)       == Stable /\ OvRel(o)

Env ==
  \/ \E k \in Kinds : eClientSend(k)
  \/ \E w \in Workers : eHandlerW(w)
  \/ \E o \in OvIds : eHandlerO(o)
  \/ \E c \in Conns : eDial(c) \/ eClientClose(c) \/ eHandlerC(c) \/ eConnTimeout(c)
  \/ \E c \in Conns, fs \in FrameSeqs : eSendFrames(c, fs)
  \/ eCancel \/ eDeadlinePass \/ eGiveUpPass \/ eTrim

Gates ==
  \/ \E r \in Readers : gArm(r) \/ gInlineBegin(r) \/ gHandoff(r) \/ gInlineRel(r) \/ gEnqSend(r)
                        \/ gOvSpawn(r) \/ gStopRel(r) \/ gFlushRelR(r)
  \/ \E w \in Workers : gServeBeginW(w) \/ gRelW(w) \/ gFlushRelW(w)
  \/ \E o \in OvIds : gServeBeginO(o) \/ gRelO(o)

Next == Env \/ Gates \/ Internal
Spec == Init /\ [][Next]_vars

(* fairness for the liveness configuration: everything but the clients, the *)
(* cancel and the trimmer keeps moving (handlers return, timers fire)       *)
Progress ==
  \/ Gates \/ Internal
  \/ \E w \in Workers : WHandlerEnv(w)
  \/ \E o \in OvIds : OvHandlerEnv(o)
  \/ \E c \in Conns : CHandler(c)
  \/ DeadlinePass \/ GiveUpPass
LiveSpec == Init /\ [][Next]_vars /\ WF_vars(Progress)

---------------------------------------------------------------------------
(* Steering for -simulate (ACTION_CONSTRAINT): the cancel only falls where  *)
(* the UDP engine is in the middle of something - a job queued, being       *)
(* served, in a burst, on an overflow goroutine, or between two gates of a  *)
(* reader - so that random behaviours do not spend themselves on idle stops *)
BusyUDP ==
  \/ \E j \in Slabs : sst[j] \in {"queued", "serving"}
  \/ \E o \in OvIds : opc[o] # "no"
  \/ \E r \in Readers : rpc[r] \in {"gateQ", "gateOv", "gateInl", "gateHand", "gateRelInl", "rfrel"}
  \/ \E r \in Readers : rpc[r] = "gateArm" /\ inbox # <<>>
StopBusy == (cancelled' # cancelled) => BusyUDP
OverflowLive == \E o \in OvIds : opc[o] # "no"
StopOverflow == (cancelled' # cancelled) => OverflowLive

(* ... and after the cancel one party is let go LAST (its barrier is the one  *)
(* the shutdown must still be waiting on), with the deadline out of the way  *)
RCtl == \E r \in Readers : gArm(r) \/ gInlineBegin(r) \/ gHandoff(r) \/ gInlineRel(r) \/ gEnqSend(r)
                           \/ gOvSpawn(r) \/ gStopRel(r) \/ gFlushRelR(r)
WCtl == \E w \in Workers : gServeBeginW(w) \/ gRelW(w) \/ gFlushRelW(w) \/ eHandlerW(w)
OCtl == \E o \in OvIds : gServeBeginO(o) \/ gRelO(o) \/ eHandlerO(o)
AtGate == cancelled /\ ~ENABLED Internal
RStep == \E r \in Readers : rpc'[r] # rpc[r]
WStep == \E w \in Workers : wpc'[w] # wpc[w]
OStep == \E o \in OvIds : opc[o] \in {"spawned", "serving", "gateRel"} /\ opc'[o] # opc[o]
NoClock == late' = late /\ ntrim' = ntrim
OverflowLast == NoClock /\ StopOverflow /\ ((AtGate /\ OStep) => ~ENABLED (RCtl \/ WCtl))
WorkerLast   == NoClock /\ StopBusy /\ ((AtGate /\ WStep) => ~ENABLED (RCtl \/ OCtl))
ReaderLast   == NoClock /\ StopBusy /\ ((AtGate /\ RStep) => ~ENABLED (WCtl \/ OCtl))

---------------------------------------------------------------------------
Stopped  == running = 0 /\ sup = "done"
Quiesced == inFlight = 0 /\ free["small"] = SmallCap /\ free["large"] = LargeCap

Outstanding == {j \in Slabs : sst[j] \in {"queued", "serving"}}
Held        == {j \in Slabs : sst[j] \in {"reading", "queued", "serving"}}
Takers      == {r \in Readers : rpc[r] \in {"took", "gateArm"}}
Live        == {j \in Slabs : sst[j] \notin {"unborn", "gone"}}
EngineGone  ==
  /\ \A r \in Readers : rpc[r] \in {"exited", "unstarted"}
  /\ \A w \in Workers : wpc[w] \in {"exited", "unstarted"}
  /\ \A o \in OvIds : opc[o] = "no"

TypeOK ==
  /\ \A j \in Slabs : sst[j] \in {"unborn", "idle", "taken", "reading", "queued", "serving", "gone"}
  /\ idle \subseteq Slabs /\ leased \in 0..(Cap + Cardinality(Readers)) /\ inFlight \in 0..NSlab
  /\ Len(ready) <= Q /\ Len(inbox) <= NPkt
  /\ readersWG \in 0..Cardinality(Readers) /\ workerWG \in 0..Cardinality(Workers)
  /\ overflowWG \in 0..Cardinality(OvIds)
  /\ \A k \in {"small", "large"} : free[k] \in 0..CapOf(k)
  /\ active \in 0..Cardinality(Conns) /\ wgc \in 0..Cardinality(Conns) /\ acceptG \in 0..1
  /\ running \in 0..2

(* no engine assertion, no runtime panic *)
NoPanic == err = ""

(* Quiesced() is never true while a reply is owed *)
QuiescedSound ==
  /\ inFlight = 0 => Outstanding = {}
  /\ (free["small"] = SmallCap /\ free["large"] = LargeCap) => \A c \in Conns : job[c] = "none"
(* ... and reads exactly the outstanding work once the releasers have counted down *)
QuiescedExact ==
  (\A g \in Gor : ~pdec[g]) /\ (\A r \in Readers : rpc[r] # "gateQ" \/ "countLate" \notin Mut)
    => inFlight = Cardinality(Outstanding)

(* admission: the lease counter is the slabs out of the cache plus the takers *)
LeaseExact == leased = Cardinality(Held) + Cardinality(Takers)
LeaseBound == leased <= Cap + Cardinality({r \in Readers : rpc[r] = "took"})
             /\ Cardinality(Held) <= Cap
             /\ Cardinality(Live) <= Cap
IdleIsFree ==
  \A j \in Slabs :
    /\ (j \in idle <=> sst[j] = "idle")
    /\ (sst[j] = "taken" <=> \E r \in Readers : rpc[r] = "gateArm" /\ rcur[r] = j)

(* the drain barrier cannot be passed while work is outstanding *)
UdpBarrierSound ==
  udrain = "ok" =>
    /\ Outstanding = {} /\ inFlight = 0 /\ leased = 0
    /\ EngineGone
    /\ ready = <<>>
(* every reply of a drained listener left through an open socket *)
NoReplyAfterClose == udrain = "ok" => ~lost
(* nobody joins a WaitGroup that is already being waited on *)
NoLateJoin == ~lateJoin

(* TCP tokens: conserved, one class at a time, home when the connection is gone *)
TokenConservation ==
  \A k \in {"small", "large"} :
    free[k] + Cardinality({c \in Conns : tok[c][k] = 1}) = CapOf(k)
    /\ \A c \in Conns : tok[c][k] \in {0, 1}
OneClassAtATime ==
  \A c \in Conns : /\ tok[c]["small"] + tok[c]["large"] <= 1
                   /\ job[c] # "none" => tok[c][job[c]] = 1
                   /\ job[c] = "none" => tok[c] = NoTok
GoneHoldsNothing == \A c \in Conns : cpc[c] \notin ServePcs => tok[c] = NoTok
AdmissionCap == active <= MaxConns /\ active = Cardinality(tconns) /\ wgc = active
TcpBarrierSound ==
  tdrain \in {"ok", "forced"} =>
    /\ active = 0 /\ tconns = {} /\ apc # "loop" /\ apc # "got"
    /\ \A c \in Conns : cpc[c] \notin ServePcs
    /\ free["small"] = SmallCap /\ free["large"] = LargeCap
(* after the shutdown closed the door, startAccepting refuses *)
RefusesAfterShutdown == [][(tserve = "init" /\ tserve' # "init" /\ tstopped) => tserve' = "refused"]_vars

(* Stopped() says the shutdown is complete *)
StoppedSound ==
  Stopped => /\ ush = "done" /\ tsh = "done" /\ ~sockOpen /\ ~lnOpen
             /\ userve = "exited" /\ tserve = "exited"
             /\ (udrain = "ok" => EngineGone /\ leased = 0)
             /\ (tdrain \in {"ok", "forced"} => Quiesced \/ inFlight > 0)
StoppedIsFinal == [][Stopped => Stopped']_vars

(* liveness: a cancelled server stops, and with every handler returned all *)
(* of it comes home                                                        *)
EventuallyStopped == cancelled ~> Stopped
EventuallyHome ==
  cancelled ~> (Stopped /\ EngineGone /\ leased = 0 /\ inFlight = 0
                /\ free["small"] = SmallCap /\ free["large"] = LargeCap /\ active = 0)
=============================================================================
