CONSTANTS
  Readers = {"r1"}
  Workers = {"w1"}
  OvIds = {"o1"}
  Q = 1
  Cap = 2
  NSlab = 2
  NPkt = 2
  Batch = 1
  Inline = FALSE
  Kinds = {"miss"}
  MaxTrim = 0
  Conns = {}
  MaxConns = 1
  SmallCap = 1
  LargeCap = 1
  NFrames = 0
  Classes = {"small"}
  ConnTimeouts = FALSE
  EarlyCancel = FALSE
  Sched = FALSE
  Mut = {"countLate"}
SPECIFICATION Spec
INVARIANTS TypeOK NoPanic QuiescedSound QuiescedExact LeaseExact LeaseBound IdleIsFree
  UdpBarrierSound NoReplyAfterClose NoLateJoin TokenConservation OneClassAtATime GoneHoldsNothing
  AdmissionCap TcpBarrierSound StoppedSound
PROPERTIES RefusesAfterShutdown StoppedIsFinal
CHECK_DEADLOCK FALSE
