#!/usr/bin/env python3
"""Generates the MC_/Sim_ configurations of Drain.tla (run in this directory)."""
INV = """INVARIANTS TypeOK NoPanic QuiescedSound QuiescedExact LeaseExact LeaseBound IdleIsFree
  UdpBarrierSound NoReplyAfterClose NoLateJoin TokenConservation OneClassAtATime GoneHoldsNothing
  AdmissionCap TcpBarrierSound StoppedSound
PROPERTIES RefusesAfterShutdown StoppedIsFinal
CHECK_DEADLOCK FALSE
"""
BASE = dict(Readers='{"r1"}', Workers='{"w1"}', OvIds='{"o1"}', Q=1, Cap=3, NSlab=3, NPkt=0, Batch=1,
            Inline="FALSE", Kinds='{"miss"}', MaxTrim=0, Conns="{}", MaxConns=1, SmallCap=1, LargeCap=1,
            NFrames=0, Classes='{"small"}', ConnTimeouts="FALSE", EarlyCancel="FALSE", Sched="FALSE", Mut="{}")


def cfg(name, spec="Spec", tail=INV, **kw):
    d = dict(BASE)
    d.update(kw)
    with open(name, "w") as f:
        f.write("CONSTANTS\n")
        for k, v in d.items():
            f.write("  %s = %s\n" % (k, v))
        f.write("SPECIFICATION %s\n" % spec)
        f.write(tail)


UDP3 = dict(NPkt=3, OvIds='{"o1", "o2"}')
cfg("MC_udp_overflow.cfg", **UDP3)
cfg("MC_udp_kinds.cfg", NPkt=2, Cap=2, NSlab=2, Kinds='{"miss", "silent", "hit"}')
cfg("MC_udp_inline.cfg", NPkt=2, Batch=2, Inline="TRUE", Kinds='{"hit", "miss", "silent"}')
cfg("MC_udp_trim.cfg", NPkt=2, Cap=2, NSlab=4, MaxTrim=1)
cfg("MC_udp_early.cfg", NPkt=1, Cap=2, NSlab=2, EarlyCancel="TRUE")
cfg("MC_udp_2readers.cfg", Readers='{"r1", "r2"}', NPkt=2, Cap=3)
cfg("MC_q_udp.cfg", NPkt=2, Cap=2, NSlab=2)
cfg("MC_q_inline.cfg", NPkt=1, Cap=2, NSlab=2, Batch=2, Inline="TRUE", Kinds='{"hit", "miss", "silent"}')
TCP = dict(Readers="{}", Workers="{}", OvIds="{}", Conns='{"c1", "c2"}', MaxConns=2, NFrames=2,
           Classes='{"small", "large"}')
cfg("MC_q_tcp.cfg", **dict(TCP, Conns='{"c1"}', MaxConns=1, NFrames=2))
cfg("MC_tcp_swap.cfg", **dict(TCP, Conns='{"c1"}', MaxConns=1, NFrames=3))
cfg("MC_tcp_two.cfg", **dict(TCP, NFrames=1, Classes='{"small"}'))
cfg("MC_tcp_cap.cfg", **dict(TCP, MaxConns=1, NFrames=1, Classes='{"small"}', ConnTimeouts="TRUE"))
cfg("MC_tcp_early.cfg", **dict(TCP, Conns='{"c1"}', NFrames=1, Classes='{"small"}', EarlyCancel="TRUE"))
# negative configurations: one guard off, one named invariant must fail
UQ = dict(NPkt=2, Cap=2, NSlab=2)
NEG = {
    "noReaderJoin": (UQ, "NoPanic"),
    "noOverflowWait": (UQ, "UdpBarrierSound"),
    "noWorkerWait": (UQ, "UdpBarrierSound"),
    "countLate": (UQ, "QuiescedSound"),
    "closeFirst": (UQ, "NoReplyAfterClose"),
    "noClosingCheck": (dict(NPkt=1, Cap=2, NSlab=2, EarlyCancel="TRUE"), "UdpBarrierSound"),
    "swapLeak": (dict(TCP, Conns='{"c1"}', MaxConns=1, NFrames=2), "OneClassAtATime"),
    "exitLeak": (dict(TCP, Conns='{"c1"}', MaxConns=1, NFrames=1, Classes='{"small"}'), "GoneHoldsNothing"),
    "noAcceptJoin": (dict(TCP, Conns='{"c1"}', MaxConns=1, NFrames=0, Classes='{"small"}'), "NoLateJoin"),
    "noStoppedCheck": (dict(TCP, Conns='{"c1"}', MaxConns=1, NFrames=0, Classes='{"small"}', EarlyCancel="TRUE"),
                       "NoLateJoin"),
}
for m, (kw, inv) in NEG.items():
    cfg("MC_neg_%s.cfg" % m, **dict(kw, Mut='{"%s"}' % m))
LIVE = "PROPERTIES EventuallyStopped EventuallyHome\nCHECK_DEADLOCK FALSE\n"
cfg("MC_live_udp.cfg", spec="LiveSpec", tail=LIVE, **UQ)
cfg("MC_live_inline.cfg", spec="LiveSpec", tail=LIVE, NPkt=1, Cap=2, NSlab=2, Batch=2, Inline="TRUE",
    Kinds='{"hit", "miss", "silent"}')
cfg("MC_live_tcp.cfg", spec="LiveSpec", tail=LIVE, **dict(TCP, Conns='{"c1"}', MaxConns=1, NFrames=2))
# scheduled graphs for the gated replay (Sched = TRUE: internal steps first)
NOINV = "INVARIANTS TypeOK NoPanic\nCHECK_DEADLOCK FALSE\n"
SCHED = dict(tail=NOINV, Sched="TRUE", MaxTrim=1, Kinds='{"hit", "miss", "silent"}')
cfg("Sched_udp_portable.cfg", **dict(SCHED, NPkt=3, NSlab=5, OvIds='{"o1", "o2"}'))
cfg("Sched_udp_batch.cfg", **dict(SCHED, NPkt=3, NSlab=5, Batch=3, Inline="TRUE", OvIds='{"o1", "o2"}'))
def steer(c):
    return "INVARIANTS TypeOK NoPanic\nACTION_CONSTRAINT %s\nCHECK_DEADLOCK FALSE\n" % c


UP = dict(SCHED, MaxTrim=0, NPkt=3, NSlab=3, OvIds='{"o1", "o2"}')
UB = dict(UP, Batch=3, Inline="TRUE")
for c in ("OverflowLast", "WorkerLast", "ReaderLast"):
    cfg("Sched_udp_portable_%s.cfg" % c, **dict(UP, tail=steer(c), Kinds='{"miss"}' if c == "OverflowLast" else '{"hit", "miss"}'))
    cfg("Sched_udp_batch_%s.cfg" % c, **dict(UB, tail=steer(c), Kinds='{"miss"}' if c == "OverflowLast" else '{"hit", "miss", "silent"}'))
cfg("Sched_tcp.cfg", **dict(SCHED, **dict(TCP, NFrames=2)))
cfg("Sched_tcp_cap1.cfg", **dict(SCHED, **dict(TCP, MaxConns=1, NFrames=1)))
cfg("Sched_both.cfg", **dict(SCHED, NPkt=1, NSlab=5, Batch=3, Inline="TRUE", Conns='{"c1"}', MaxConns=2, NFrames=1, Classes='{"small"}'))
# trace validation (code -> spec): generous bounds, every timer may fire
TRACE = "INVARIANTS NoPanic QuiescedSound LeaseExact TokenConservation OneClassAtATime\nCONSTRAINT HighWater\nPOSTCONDITION TraceAccepted\nCHECK_DEADLOCK FALSE\n"
TR = dict(spec="TraceSpec", tail=TRACE, NPkt=100000, NSlab=12, OvIds='{"o1", "o2", "o3"}', MaxTrim=100000,
          Kinds='{"hit", "miss", "silent"}', Conns='{"c1", "c2", "c3"}', MaxConns=2, NFrames=100000,
          Classes='{"small", "large"}', ConnTimeouts="TRUE")
cfg("Trace_portable.cfg", **TR)
cfg("Trace_batch.cfg", **dict(TR, Batch=3, Inline="TRUE"))
cfg("Trace_portable_cap1.cfg", **dict(TR, MaxConns=1))
cfg("Trace_batch_cap1.cfg", **dict(TR, Batch=3, Inline="TRUE", MaxConns=1))


# ---- SlabCache.tla
def ccfg(name, inv, props="PutReturnsIt", **kw):
    d = dict(Takers='{"a", "b"}', Hint="H2", NShard=2, Cap=2, NSlab=4, MaxOps=2, MaxTrim=1, Atomic="FALSE", Mut="{}")
    d.update(kw)
    with open(name, "w") as f:
        f.write("CONSTANTS\n")
        for k, v in d.items():
            f.write(("  %s <- %s\n" if k == "Hint" else "  %s = %s\n") % (k, v))
        f.write("SPECIFICATION Spec\nINVARIANTS %s\n" % inv)
        if props:
            f.write("PROPERTIES %s\n" % props)
        f.write("CHECK_DEADLOCK FALSE\n")


CINV = "TypeOK AtMostOneTaker TrimNeverDropsLeased LeaseBound LiveBounded"
ccfg("MC_cache_2.cfg", CINV)
ccfg("MC_cache_3.cfg", CINV, Takers='{"a", "b", "c"}', Hint="H3", NSlab=5, MaxOps=2)
ccfg("MC_cache_3x.cfg", CINV, Takers='{"a", "b", "c"}', Hint="H3x", NSlab=5, MaxOps=2, MaxTrim=0)
ccfg("MC_cache_livebound.cfg", CINV + " LiveWithinCap", Takers='{"a", "b", "c"}', Hint="H3x", NSlab=5, MaxOps=2, MaxTrim=0)
ccfg("MC_cache_neg_noSweep.cfg", CINV + " LiveWithinCap", Mut='{"noSweep"}', MaxTrim=0, Atomic="TRUE", Cap=1)
ccfg("MC_cache_neg_dupPut.cfg", CINV, Mut='{"dupPut"}')
ccfg("MC_cache_neg_decFirst.cfg", CINV + " LiveWithinCap", Mut='{"decFirst"}', MaxTrim=0, Atomic="TRUE", Cap=1)
ccfg("Sim_cache.cfg", CINV + " LiveWithinCap", props="", Takers='{"a", "b", "c"}', Hint="H3", NShard=2, Cap=2, NSlab=8,
     MaxOps=6, MaxTrim=2, Atomic="TRUE")
ccfg("MC_cache_atomic.cfg", CINV + " LiveWithinCap", Takers='{"a", "b", "c"}', Hint="H3", NSlab=5, MaxOps=3, MaxTrim=1, Atomic="TRUE")
