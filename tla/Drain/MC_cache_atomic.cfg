CONSTANTS
  Takers = {"a", "b", "c"}
  Hint <- H3
  NShard = 2
  Cap = 2
  NSlab = 5
  MaxOps = 3
  MaxTrim = 1
  Atomic = TRUE
  Mut = {}
SPECIFICATION Spec
INVARIANTS TypeOK AtMostOneTaker TrimNeverDropsLeased LeaseBound LiveBounded LiveWithinCap
PROPERTIES PutReturnsIt
CHECK_DEADLOCK FALSE
