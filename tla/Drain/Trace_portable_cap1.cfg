CONSTANTS
  Readers = {"r1"}
  Workers = {"w1"}
  OvIds = {"o1", "o2", "o3"}
  Q = 1
  Cap = 3
  NSlab = 12
  NPkt = 100000
  Batch = 1
  Inline = FALSE
  Kinds = {"hit", "miss", "silent"}
  MaxTrim = 100000
  Conns = {"c1", "c2", "c3"}
  MaxConns = 1
  SmallCap = 1
  LargeCap = 1
  NFrames = 100000
  Classes = {"small", "large"}
  ConnTimeouts = TRUE
  EarlyCancel = FALSE
  Sched = FALSE
  Mut = {}
SPECIFICATION TraceSpec
INVARIANTS NoPanic QuiescedSound LeaseExact TokenConservation OneClassAtATime
CONSTRAINT HighWater
POSTCONDITION TraceAccepted
CHECK_DEADLOCK FALSE
