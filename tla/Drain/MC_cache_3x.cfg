CONSTANTS
  Takers = {"a", "b", "c"}
  Hint <- H3x
  NShard = 2
  Cap = 2
  NSlab = 5
  MaxOps = 2
  MaxTrim = 0
  Atomic = FALSE
  Mut = {}
SPECIFICATION Spec
INVARIANTS TypeOK AtMostOneTaker TrimNeverDropsLeased LeaseBound LiveBounded
PROPERTIES PutReturnsIt
CHECK_DEADLOCK FALSE
