CONSTANTS
  Readers = {}
  Workers = {}
  OvIds = {}
  Q = 1
  Cap = 3
  NSlab = 3
  NPkt = 0
  Batch = 1
  Inline = FALSE
  Kinds = {"miss"}
  MaxTrim = 0
  Conns = {"c1", "c2"}
  MaxConns = 1
  SmallCap = 1
  LargeCap = 1
  NFrames = 1
  Classes = {"small"}
  ConnTimeouts = TRUE
  EarlyCancel = FALSE
  Sched = FALSE
  Mut = {}
SPECIFICATION Spec
INVARIANTS TypeOK NoPanic QuiescedSound QuiescedExact LeaseExact LeaseBound IdleIsFree
  UdpBarrierSound NoReplyAfterClose NoLateJoin TokenConservation OneClassAtATime GoneHoldsNothing
  AdmissionCap TcpBarrierSound StoppedSound
PROPERTIES RefusesAfterShutdown StoppedIsFinal
CHECK_DEADLOCK FALSE
