CONSTANTS
  Readers = {"r1"}
  Workers = {"w1"}
  OvIds = {"o1", "o2"}
  Q = 1
  Cap = 3
  NSlab = 5
  NPkt = 3
  Batch = 1
  Inline = FALSE
  Kinds = {"hit", "miss", "silent"}
  MaxTrim = 1
  Conns = {}
  MaxConns = 1
  SmallCap = 1
  LargeCap = 1
  NFrames = 0
  Classes = {"small"}
  ConnTimeouts = FALSE
  EarlyCancel = FALSE
  Sched = TRUE
  Mut = {}
SPECIFICATION Spec
INVARIANTS TypeOK NoPanic
CHECK_DEADLOCK FALSE
