----------------------------- MODULE SlabCache -----------------------------
(***************************************************************************)
(* server/slab_cache.go - the sharded idle cache - with the admission      *)
(* counter the UDP engine puts in front of it (udpEngine.take / release;   *)
(* the TCP engine's token is the same shape):                              *)
(*                                                                         *)
(*   take     leased.Add(1) > cap ? roll back : cache.get(hint) or allocate *)
(*   get      sweep the shards from the hinted one, pop() each under its   *)
(*            own lock, stop at the first slab                             *)
(*   release  cache.put(hint, slab), then leased.Add(-1)                   *)
(*   trim     shard by shard: drop every idle slab                         *)
(*                                                                         *)
(* One action per critical section (one shard lock) / atomic.  With Atomic *)
(* a whole get is one step (the sequential replay of the real cache).      *)
(* A slab goes back to the shard of the taker that took it (slabShard).    *)
(***************************************************************************)
EXTENDS Naturals, Sequences, FiniteSets, TLC

CONSTANTS
  Takers,     \* goroutines that take and release (readers / connections)
  Hint,       \* Takers -> shard hint
  NShard,     \* shards 0..NShard-1
  Cap,        \* admission cap
  NSlab,      \* slab identities
  MaxOps,     \* takes per taker
  MaxTrim,
  Atomic,     \* get is one step
  Mut         \* {"noSweep"}: get looks at the hinted shard only; {"dupPut"}: put parks the slab twice;
              \* {"decFirst"}: release counts down before it parks

Shards == 0..(NShard - 1)
Slabs == 1..NSlab
Range(s) == {s[i] : i \in 1..Len(s)}

VARIABLES shard, leased, pc, held, pos, ops, born, gone, ntrim, tpos, lastPut

vars == <<shard, leased, pc, held, pos, ops, born, gone, ntrim, tpos, lastPut>>

Init ==
  /\ shard = [k \in Shards |-> <<>>]
  /\ leased = 0
  /\ pc = [p \in Takers |-> "idle"]
  /\ held = [p \in Takers |-> 0]
  /\ pos = [p \in Takers |-> 0]
  /\ ops = [p \in Takers |-> 0]
  /\ born = {} /\ gone = {}
  /\ ntrim = 0 /\ tpos = NShard
  /\ lastPut = 0

Fresh == CHOOSE j \in Slabs \ born : \A i \in Slabs \ born : j <= i

TakeAdd(p) ==
  /\ pc[p] = "idle" /\ ops[p] < MaxOps
  /\ ops' = [ops EXCEPT ![p] = @ + 1]
  /\ leased' = leased + 1
  /\ pc' = [pc EXCEPT ![p] = "check"]
  /\ UNCHANGED <<shard, held, pos, born, gone, ntrim, tpos, lastPut>>

TakeCheck(p) ==
  /\ pc[p] = "check"
  /\ IF leased > Cap
       THEN leased' = leased - 1 /\ pc' = [pc EXCEPT ![p] = "idle"] /\ pos' = pos
       ELSE leased' = leased /\ pc' = [pc EXCEPT ![p] = "sweep"] /\ pos' = [pos EXCEPT ![p] = 0]
  /\ UNCHANGED <<shard, held, ops, born, gone, ntrim, tpos, lastPut>>

ShardAt(p, i) == (Hint[p] + i) % NShard
Last(s) == s[Len(s)]
Front(s) == SubSeq(s, 1, Len(s) - 1)

(* one pop() of the sweep; past the last shard the caller allocates *)
Pop(p) ==
  /\ pc[p] = "sweep" /\ ~Atomic
  /\ LET k == ShardAt(p, pos[p])
         lim == IF "noSweep" \in Mut THEN 1 ELSE NShard IN
     IF pos[p] >= lim
       THEN /\ Slabs \ born # {}
            /\ held' = [held EXCEPT ![p] = Fresh]
            /\ born' = born \cup {Fresh}
            /\ pc' = [pc EXCEPT ![p] = "have"]
            /\ UNCHANGED <<shard, pos>>
       ELSE IF shard[k] # <<>>
         THEN /\ held' = [held EXCEPT ![p] = Last(shard[k])]
              /\ shard' = [shard EXCEPT ![k] = Front(@)]
              /\ pc' = [pc EXCEPT ![p] = "have"]
              /\ UNCHANGED <<pos, born>>
         ELSE /\ pos' = [pos EXCEPT ![p] = @ + 1]
              /\ UNCHANGED <<shard, held, born, pc>>
  /\ UNCHANGED <<leased, ops, gone, ntrim, tpos, lastPut>>

(* the whole get as one step: the first non-empty shard from the hint on *)
GetAtomic(p) ==
  /\ pc[p] = "sweep" /\ Atomic
  /\ LET lim == IF "noSweep" \in Mut THEN 1 ELSE NShard
         cand == {i \in 0..(lim - 1) : shard[ShardAt(p, i)] # <<>>} IN
     IF cand = {}
       THEN /\ Slabs \ born # {}
            /\ held' = [held EXCEPT ![p] = Fresh]
            /\ born' = born \cup {Fresh}
            /\ shard' = shard
       ELSE LET i == CHOOSE i \in cand : \A m \in cand : i <= m
                k == ShardAt(p, i) IN
            /\ held' = [held EXCEPT ![p] = Last(shard[k])]
            /\ shard' = [shard EXCEPT ![k] = Front(@)]
            /\ born' = born
  /\ pc' = [pc EXCEPT ![p] = "have"]
  /\ UNCHANGED <<leased, pos, ops, gone, ntrim, tpos, lastPut>>

(* release: cache.put(slabShard, slab) ... *)
Put(p) ==
  /\ pc[p] = "have"
  /\ IF "decFirst" \in Mut
       THEN /\ leased' = leased - 1
            /\ pc' = [pc EXCEPT ![p] = "putLate"]
            /\ UNCHANGED <<shard, held, lastPut>>
       ELSE /\ shard' = [shard EXCEPT ![Hint[p]] = IF "dupPut" \in Mut THEN Append(Append(@, held[p]), held[p])
                                                                        ELSE Append(@, held[p])]
            /\ lastPut' = held[p]
            /\ held' = [held EXCEPT ![p] = 0]
            /\ pc' = [pc EXCEPT ![p] = "dec"]
            /\ leased' = leased
  /\ UNCHANGED <<pos, ops, born, gone, ntrim, tpos>>

PutLate(p) ==
  /\ pc[p] = "putLate"
  /\ shard' = [shard EXCEPT ![Hint[p]] = Append(@, held[p])]
  /\ lastPut' = held[p]
  /\ held' = [held EXCEPT ![p] = 0]
  /\ pc' = [pc EXCEPT ![p] = "idle"]
  /\ UNCHANGED <<leased, pos, ops, born, gone, ntrim, tpos>>

(* ... then leased.Add(-1) *)
Dec(p) ==
  /\ pc[p] = "dec"
  /\ leased' = leased - 1
  /\ pc' = [pc EXCEPT ![p] = "idle"]
  /\ UNCHANGED <<shard, held, pos, ops, born, gone, ntrim, tpos, lastPut>>

(* trim: one shard per lock *)
TrimStart ==
  /\ tpos = NShard /\ ntrim < MaxTrim
  /\ ntrim' = ntrim + 1 /\ tpos' = 0
  /\ UNCHANGED <<shard, leased, pc, held, pos, ops, born, gone, lastPut>>

TrimShard ==
  /\ tpos < NShard
  /\ gone' = gone \cup Range(shard[tpos])
  /\ shard' = [shard EXCEPT ![tpos] = <<>>]
  /\ tpos' = tpos + 1
  /\ UNCHANGED <<leased, pc, held, pos, ops, born, ntrim, lastPut>>

(* with Atomic, trim is one step too *)
TrimAtomic ==
  /\ Atomic /\ ntrim < MaxTrim
  /\ ntrim' = ntrim + 1
  /\ gone' = gone \cup UNION {Range(shard[k]) : k \in Shards}
  /\ shard' = [k \in Shards |-> <<>>]
  /\ UNCHANGED <<leased, pc, held, pos, ops, born, tpos, lastPut>>

Next ==
  \/ \E p \in Takers : TakeAdd(p) \/ TakeCheck(p) \/ Pop(p) \/ GetAtomic(p) \/ Put(p) \/ PutLate(p) \/ Dec(p)
  \/ (~Atomic /\ (TrimStart \/ TrimShard))
  \/ TrimAtomic

Spec == Init /\ [][Next]_vars

---------------------------------------------------------------------------
Idle == UNION {Range(shard[k]) : k \in Shards}
HeldSet == {held[p] : p \in Takers} \ {0}
Live == born \ gone

TypeOK ==
  /\ \A k \in Shards : Range(shard[k]) \subseteq Slabs
  /\ leased \in 0..(Cap + Cardinality(Takers))
  /\ \A p \in Takers : held[p] \in Slabs \cup {0}

(* a slab is handed to at most one taker, and never while it is parked *)
AtMostOneTaker ==
  /\ \A p, q \in Takers : p # q /\ held[p] # 0 => held[p] # held[q]
  /\ HeldSet \cap Idle = {}
  /\ \A k \in Shards : \A a, b \in 1..Len(shard[k]) : a # b => shard[k][a] # shard[k][b]
  /\ \A k, m \in Shards : k # m => Range(shard[k]) \cap Range(shard[m]) = {}

(* trim never drops a slab somebody holds; what it dropped is never seen again *)
TrimNeverDropsLeased == gone \cap (HeldSet \cup Idle) = {}

(* put parks the slab it was given, on the shard it was given for *)
PutReturnsIt == [][\A p \in Takers : (pc[p] = "have" /\ pc'[p] = "dec") => held[p] \in Range(shard'[Hint[p]])]_vars

(* admission *)
LeaseBound == Cardinality(HeldSet) <= Cap
(* the memory contract slab_cache.go states for get's sweep: "live slabs    *)
(* never exceed the admission cap".  With more than one shard and more than *)
(* one taker it is NOT an invariant of the code as written (see the         *)
(* configuration MC_cache_livebound.cfg): a slab parked behind a sweep that  *)
(* has already passed its shard is missed, and the taker allocates.          *)
LiveWithinCap == Cardinality(Live) <= Cap
(* ... what does hold: the overshoot is bounded by the concurrent takers *)
LiveBounded == Cardinality(Live) <= Cap + Cardinality(Takers) - 1
=============================================================================
