CONSTANTS
  Takers = {"a", "b"}
  Hint <- H2
  NShard = 2
  Cap = 2
  NSlab = 4
  MaxOps = 2
  MaxTrim = 1
  Atomic = FALSE
  Mut = {}
SPECIFICATION Spec
INVARIANTS TypeOK AtMostOneTaker TrimNeverDropsLeased LeaseBound LiveBounded
PROPERTIES PutReturnsIt
CHECK_DEADLOCK FALSE
