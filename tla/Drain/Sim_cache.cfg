CONSTANTS
  Takers = {"a", "b", "c"}
  Hint <- H3
  NShard = 2
  Cap = 2
  NSlab = 8
  MaxOps = 6
  MaxTrim = 2
  Atomic = TRUE
  Mut = {}
SPECIFICATION Spec
INVARIANTS TypeOK AtMostOneTaker TrimNeverDropsLeased LeaseBound LiveBounded LiveWithinCap
CHECK_DEADLOCK FALSE
