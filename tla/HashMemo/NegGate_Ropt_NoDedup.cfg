CONSTANTS
  Procs <- P3
  Prog <- Ropt_Prog
  Scope <- Ropt_Scope
  Bound = 8
  Refusers <- P3
  Mutant = "NoDedup"
  Gated = TRUE
SPECIFICATION Spec
INVARIANTS OneCompute
VIEW view
CHECK_DEADLOCK TRUE
