CONSTANTS
  Procs <- P3
  Prog <- Pair_Prog
  Scope <- AllReq3
  Bound = 8
  Refusers <- P3
  Mutant = "NoDedup"
  Gated = FALSE
SPECIFICATION Spec
INVARIANTS OwnerHoldsPending
VIEW view
CHECK_DEADLOCK TRUE
