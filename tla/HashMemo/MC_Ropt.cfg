CONSTANTS
  Procs <- P3
  Prog <- Ropt_Prog
  Scope <- Ropt_Scope
  Bound = 8
  Refusers <- P3
  Mutant = "none"
  Gated = FALSE
SPECIFICATION FairSpec
INVARIANTS TypeOK ValuesCorrect WaiterAfterPublish NoPoison OneCompute BoundRespected Directional OwnerHoldsPending
PROPERTIES Termination
CHECK_DEADLOCK TRUE
