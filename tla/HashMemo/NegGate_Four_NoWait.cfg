CONSTANTS
  Procs <- P4
  Prog <- Four_Prog
  Scope <- Four_Scope
  Bound = 8
  Refusers <- P4
  Mutant = "NoWait"
  Gated = TRUE
SPECIFICATION Spec
INVARIANTS ValuesCorrect
VIEW view
CHECK_DEADLOCK TRUE
