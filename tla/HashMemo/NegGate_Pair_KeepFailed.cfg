CONSTANTS
  Procs <- P3
  Prog <- Pair_Prog
  Scope <- AllReq3
  Bound = 8
  Refusers <- P3
  Mutant = "KeepFailed"
  Gated = TRUE
SPECIFICATION Spec
INVARIANTS NoPoison
VIEW view
CHECK_DEADLOCK TRUE
