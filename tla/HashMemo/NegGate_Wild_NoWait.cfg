CONSTANTS
  Procs <- P4
  Prog <- Wild_Prog
  Scope <- AllReq4
  Bound = 8
  Refusers <- P4
  Mutant = "NoWait"
  Gated = TRUE
SPECIFICATION Spec
INVARIANTS ValuesCorrect
VIEW view
CHECK_DEADLOCK TRUE
