CONSTANTS
  Procs <- P3
  Prog <- OptOut_Prog
  Scope <- AllReq3
  Bound = 8
  Refusers <- P3
  Mutant = "none"
  Gated = TRUE
SPECIFICATION TraceSpec
INVARIANTS TypeOK ValuesCorrect WaiterAfterPublish NoPoison OneCompute BoundRespected Directional OwnerHoldsPending
POSTCONDITION TraceAccepted
CHECK_DEADLOCK FALSE
