CONSTANTS
  Procs <- P4
  Prog <- Wild_Prog
  Scope <- AllReq4
  Bound = 8
  Refusers <- P4
  Mutant = "none"
  Gated = TRUE
SPECIFICATION TraceSpec
INVARIANTS TypeOK ValuesCorrect WaiterAfterPublish NoPoison OneCompute BoundRespected Directional OwnerHoldsPending
POSTCONDITION TraceAccepted
CHECK_DEADLOCK FALSE
