------------------------------ MODULE HashMemo ------------------------------
(***************************************************************************)
(* The request-tree NSEC3 hash memo of sdns                                *)
(* (middleware/resolver/dnssec/nsec3_memo.go) under concurrent validations *)
(* of ONE request tree.                                                    *)
(*                                                                         *)
(* A process is one validation (a Verify*ForZoneWithWork call or an        *)
(* EvaluateAggressiveNSEC3 call).  It needs the digests of a short         *)
(* sequence of keys, one after the other (Prog[p]); every digest goes      *)
(* through nsec3HashWithMemo:                                              *)
(*                                                                         *)
(*   Load(p)      access.Read.load(key): one critical section that looks   *)
(*                the entry up; absent -> go on to loadOrCompute on the    *)
(*                Write memo, present -> wait for entry.ready              *)
(*   Loc(p)       access.Write.loadOrCompute(key), first critical section: *)
(*                present -> wait; at the entry ceiling -> compute         *)
(*                privately; else REGISTER a pending entry                 *)
(*   Release(p) / Refuse(p)                                                *)
(*                compute() calls work.BeginNSEC3Hash(): the work governor *)
(*                admits the computation (the digest is computed) or       *)
(*                refuses it (budget, saturation, cancellation); the       *)
(*                process is PARKED there until the governor answers       *)
(*   Publish(p)   second critical section: value/err stored, an error      *)
(*                entry deleted, ready closed                              *)
(*   WaitDone(p)  a waiter whose entry is ready takes value / error        *)
(*                                                                         *)
(* Three memos with the directional Read/Write split of the production     *)
(* work adapters: required (Read = Write = req), resolver-optional         *)
(* (Read = req, Write = ropt), cache-optional (Read = Write = copt).       *)
(*                                                                         *)
(* Gated = TRUE restricts the behaviours to those a driver can FORCE on    *)
(* the real code with a gate in BeginNSEC3Hash only: Start / Release /     *)
(* Refuse are taken in quiescent states (every started process is parked,  *)
(* waiting on a pending entry, or done), everything else runs by itself.   *)
(*                                                                         *)
(* Mutant selects a deliberately wrong variant (negative configurations):  *)
(*   NoWait              load() does not wait for entry.ready              *)
(*   LocNoWait           loadOrCompute does not wait for entry.ready       *)
(*   EarlyClose          ready is closed before value/err are stored       *)
(*   KeepFailed          an error entry stays in the map                   *)
(*   NoCloseOnError      the error path forgets to close ready             *)
(*   KeyNoParams         the memo key omits salt / iterations              *)
(*   OverBoundRegisters  loadOrCompute registers above the ceiling         *)
(*   NoDedup             loadOrCompute does not look the entry up          *)
(*   CoptReadsReq        the cache-optional class reads the required memo  *)
(***************************************************************************)
EXTENDS Naturals, Sequences, FiniteSets, TLC

CONSTANTS Procs,      \* validations
          Prog,       \* [Procs -> Seq(Key)], Key = <<parameter set, owner name>>
          Scope,      \* [Procs -> {"req", "ropt", "copt"}]
          Bound,      \* entry ceiling of a memo (64 in the code)
          Refusers,   \* processes whose computations the governor may refuse
          Mutant,
          Gated

Memos == {"req", "ropt", "copt"}
NoObj == <<0, 0>>
Empty == <<"", "">>                       \* the zero digest a reader sees in a half-built entry

Range(s) == {s[i] : i \in DOMAIN s}
AllKeys == UNION {Range(Prog[p]) : p \in Procs}
MemoKey(k) == IF Mutant = "KeyNoParams" THEN <<"-", k[2]>> ELSE k
MemoKeys == {MemoKey(k) : k \in AllKeys}
H(k) == k                                 \* the digest of k identifies k
MaxLen == IF Procs = {} THEN 0
          ELSE CHOOSE n \in 0..8 : /\ \A p \in Procs : Len(Prog[p]) <= n
                                   /\ \E p \in Procs : Len(Prog[p]) = n
ObjIds == Procs \X (1..MaxLen)

ReadMemo(p) == CASE Scope[p] = "req" -> "req"
                 [] Scope[p] = "ropt" -> "req"
                 [] OTHER -> IF Mutant = "CoptReadsReq" THEN "req" ELSE "copt"
WriteMemo(p) == Scope[p]

VARIABLES pc,      \* [Procs -> idle | load | loc | wait | parked | publish | publish2 | done]
          ix,      \* [Procs -> index into Prog[p]]
          ref,     \* the entry a waiter holds a pointer to
          via,     \* "R": the pointer came from Read.load, "W": from loadOrCompute
          own,     \* the entry the process registered for its running computation (NoObj: private)
          res,     \* result of the computation, before it is published
          got,     \* digests obtained so far
          out,     \* "" | "ok" | "err"
          map,     \* [Memos -> [MemoKeys -> ObjIds \cup {NoObj}]]
          obj,     \* [ObjIds -> [st: none | pending | closed | ok | err, val]]
          \* ---- ghosts
          published,   \* entries whose Publish has completed
          unpub,       \* <<p, o>>: p took a value out of o before o was published
          computes,    \* [Memos -> [MemoKeys -> successful registered computations]]
          priv,        \* computations done privately (ceiling reached)
          touch        \* <<scope, memo, "r" | "w">> accesses that happened

vars == <<pc, ix, ref, via, own, res, got, out, map, obj, published, unpub, computes, priv, touch>>
view == <<pc, ix, ref, via, own, res, got, out, map, obj, published, unpub, computes, touch>>

Init ==
  /\ pc = [p \in Procs |-> "idle"]
  /\ ix = [p \in Procs |-> 0]
  /\ ref = [p \in Procs |-> NoObj]
  /\ via = [p \in Procs |-> ""]
  /\ own = [p \in Procs |-> NoObj]
  /\ res = [p \in Procs |-> [err |-> FALSE, val |-> Empty]]
  /\ got = [p \in Procs |-> <<>>]
  /\ out = [p \in Procs |-> ""]
  /\ map = [m \in Memos |-> [k \in MemoKeys |-> NoObj]]
  /\ obj = [o \in ObjIds |-> [st |-> "none", val |-> Empty]]
  /\ published = {}
  /\ unpub = {}
  /\ computes = [m \in Memos |-> [k \in MemoKeys |-> 0]]
  /\ priv = 0
  /\ touch = {}

CurKey(p) == Prog[p][ix[p]]
MK(p) == MemoKey(CurKey(p))
Size(m) == Cardinality({k \in MemoKeys : map[m][k] # NoObj})
Ready(o) == obj[o].st \in {"closed", "ok", "err"}

WaitEnabled(p) == /\ pc[p] = "wait"
                  /\ \/ Ready(ref[p])
                     \/ Mutant = "NoWait" /\ via[p] = "R"
                     \/ Mutant = "LocNoWait" /\ via[p] = "W"

Quiescent == \A p \in Procs : \/ pc[p] \in {"idle", "parked", "done"}
                              \/ pc[p] = "wait" /\ ~WaitEnabled(p)
Controlled == Gated => Quiescent

\* the process takes result r for its current key and moves on
Consume(p, r) ==
  IF r.err
  THEN /\ pc' = [pc EXCEPT ![p] = "done"]
       /\ out' = [out EXCEPT ![p] = "err"]
       /\ UNCHANGED <<ix, got>>
  ELSE /\ got' = [got EXCEPT ![p] = Append(@, r.val)]
       /\ IF ix[p] = Len(Prog[p])
          THEN /\ pc' = [pc EXCEPT ![p] = "done"]
               /\ out' = [out EXCEPT ![p] = "ok"]
               /\ UNCHANGED ix
          ELSE /\ pc' = [pc EXCEPT ![p] = "load"]
               /\ ix' = [ix EXCEPT ![p] = @ + 1]
               /\ UNCHANGED out

Start(p) ==
  /\ pc[p] = "idle"
  /\ Controlled
  /\ IF Len(Prog[p]) = 0
     THEN /\ pc' = [pc EXCEPT ![p] = "done"]
          /\ out' = [out EXCEPT ![p] = "ok"]
          /\ UNCHANGED ix
     ELSE /\ pc' = [pc EXCEPT ![p] = "load"]
          /\ ix' = [ix EXCEPT ![p] = 1]
          /\ UNCHANGED out
  /\ UNCHANGED <<ref, via, own, res, got, map, obj, published, unpub, computes, priv, touch>>

Load(p) ==
  /\ pc[p] = "load"
  /\ LET m == ReadMemo(p)
         o == map[m][MK(p)]
     IN /\ touch' = touch \cup {<<Scope[p], m, "r">>}
        /\ IF o = NoObj
           THEN /\ pc' = [pc EXCEPT ![p] = "loc"]
                /\ UNCHANGED <<ref, via>>
           ELSE /\ pc' = [pc EXCEPT ![p] = "wait"]
                /\ ref' = [ref EXCEPT ![p] = o]
                /\ via' = [via EXCEPT ![p] = "R"]
  /\ UNCHANGED <<ix, own, res, got, out, map, obj, published, unpub, computes, priv>>

Loc(p) ==
  /\ pc[p] = "loc"
  /\ LET m == WriteMemo(p)
         o == map[m][MK(p)]
         me == <<p, ix[p]>>
     IN /\ touch' = touch \cup {<<Scope[p], m, "w">>}
        /\ IF o # NoObj /\ Mutant # "NoDedup"
           THEN /\ pc' = [pc EXCEPT ![p] = "wait"]
                /\ ref' = [ref EXCEPT ![p] = o]
                /\ via' = [via EXCEPT ![p] = "W"]
                /\ UNCHANGED <<own, map, obj>>
           ELSE IF Size(m) >= Bound /\ Mutant # "OverBoundRegisters" /\ o = NoObj
           THEN /\ pc' = [pc EXCEPT ![p] = "parked"]
                /\ own' = [own EXCEPT ![p] = NoObj]
                /\ UNCHANGED <<ref, via, map, obj>>
           ELSE /\ pc' = [pc EXCEPT ![p] = "parked"]
                /\ own' = [own EXCEPT ![p] = me]
                /\ map' = [map EXCEPT ![m][MK(p)] = me]
                /\ obj' = [obj EXCEPT ![me] = [st |-> "pending", val |-> Empty]]
                /\ UNCHANGED <<ref, via>>
  /\ UNCHANGED <<ix, res, got, out, published, unpub, computes, priv>>

\* work.BeginNSEC3Hash() admits the computation; the digest is computed
Release(p) ==
  /\ pc[p] = "parked"
  /\ Controlled
  /\ pc' = [pc EXCEPT ![p] = "publish"]
  /\ res' = [res EXCEPT ![p] = [err |-> FALSE, val |-> H(CurKey(p))]]
  /\ IF own[p] = NoObj
     THEN priv' = priv + 1 /\ UNCHANGED computes
     ELSE /\ computes' = [computes EXCEPT ![WriteMemo(p)][MK(p)] = @ + 1]
          /\ UNCHANGED priv
  /\ UNCHANGED <<ix, ref, via, own, got, out, map, obj, published, unpub, touch>>

\* work.BeginNSEC3Hash() returns a work error
Refuse(p) ==
  /\ pc[p] = "parked"
  /\ p \in Refusers
  /\ Controlled
  /\ pc' = [pc EXCEPT ![p] = "publish"]
  /\ res' = [res EXCEPT ![p] = [err |-> TRUE, val |-> Empty]]
  /\ UNCHANGED <<ix, ref, via, own, got, out, map, obj, published, unpub, computes, priv, touch>>

Final(r) == [st |-> IF r.err THEN "err" ELSE "ok", val |-> r.val]
Unmapped(p) == IF res[p].err /\ Mutant # "KeepFailed"
               THEN [map EXCEPT ![WriteMemo(p)][MK(p)] = NoObj]
               ELSE map

Publish(p) ==
  /\ pc[p] = "publish"
  /\ IF own[p] = NoObj
     THEN /\ Consume(p, res[p])
          /\ UNCHANGED <<map, obj, published>>
     ELSE IF Mutant = "EarlyClose"
     THEN /\ obj' = [obj EXCEPT ![own[p]] = [st |-> "closed", val |-> Empty]]
          /\ pc' = [pc EXCEPT ![p] = "publish2"]
          /\ UNCHANGED <<ix, got, out, map, published>>
     ELSE IF Mutant = "NoCloseOnError" /\ res[p].err
     THEN /\ map' = Unmapped(p)
          /\ Consume(p, res[p])
          /\ UNCHANGED <<obj, published>>
     ELSE /\ obj' = [obj EXCEPT ![own[p]] = Final(res[p])]
          /\ map' = Unmapped(p)
          /\ published' = published \cup {own[p]}
          /\ Consume(p, res[p])
  /\ UNCHANGED <<ref, via, own, res, unpub, computes, priv, touch>>

Publish2(p) ==
  /\ pc[p] = "publish2"
  /\ obj' = [obj EXCEPT ![own[p]] = Final(res[p])]
  /\ map' = Unmapped(p)
  /\ published' = published \cup {own[p]}
  /\ Consume(p, res[p])
  /\ UNCHANGED <<ref, via, own, res, unpub, computes, priv, touch>>

WaitDone(p) ==
  /\ WaitEnabled(p)
  /\ LET o == ref[p]
     IN /\ unpub' = IF o \in published THEN unpub ELSE unpub \cup {<<p, o>>}
        /\ Consume(p, [err |-> obj[o].st = "err", val |-> obj[o].val])
  /\ UNCHANGED <<ref, via, own, res, map, obj, published, computes, priv, touch>>

AllDone == \A p \in Procs : pc[p] = "done"
Terminated == AllDone /\ UNCHANGED vars

Step(p) == \/ Start(p) \/ Load(p) \/ Loc(p) \/ Release(p) \/ Refuse(p)
           \/ Publish(p) \/ Publish2(p) \/ WaitDone(p)
Next == (\E p \in Procs : Step(p)) \/ Terminated

Fairness == \A p \in Procs :
              /\ WF_vars(Start(p)) /\ WF_vars(Load(p)) /\ WF_vars(Loc(p))
              /\ WF_vars(Publish(p)) /\ WF_vars(Publish2(p)) /\ WF_vars(WaitDone(p))
              /\ WF_vars(Release(p) \/ Refuse(p))      \* the governor answers every request

Spec == Init /\ [][Next]_vars
FairSpec == Spec /\ Fairness

-----------------------------------------------------------------------------
TypeOK ==
  /\ pc \in [Procs -> {"idle", "load", "loc", "wait", "parked", "publish", "publish2", "done"}]
  /\ \A p \in Procs : ix[p] \in 0..Len(Prog[p])
  /\ \A m \in Memos : \A k \in MemoKeys : map[m][k] \in ObjIds \cup {NoObj}
  /\ \A o \in ObjIds : obj[o].st \in {"none", "pending", "closed", "ok", "err"}

\* every digest a validation obtains for key k is H(k): never empty, partial or another key's
ValuesCorrect == \A p \in Procs : \A i \in DOMAIN got[p] : got[p][i] = H(Prog[p][i])

\* a waiter returns only after the owner's Publish
WaiterAfterPublish == unpub = {}

\* an error entry never poisons a later caller: the map never holds a failed entry
NoPoison == \A m \in Memos : \A k \in MemoKeys :
              map[m][k] # NoObj => obj[map[m][k]].st # "err"

\* work accounting (C12, drift level on the code): one hash unit per distinct digest and memo
OneCompute == \A m \in Memos : \A k \in MemoKeys : computes[m][k] <= 1

BoundRespected == \A m \in Memos : Size(m) <= Bound

\* the directional Read/Write split of the three work classes
Allowed == {<<"req", "req", "r">>, <<"req", "req", "w">>,
            <<"ropt", "req", "r">>, <<"ropt", "ropt", "w">>,
            <<"copt", "copt", "r">>, <<"copt", "copt", "w">>}
Directional == touch \subseteq Allowed

\* a parked computation owns the pending entry of its key (or computes privately)
OwnerHoldsPending == \A p \in Procs : pc[p] = "parked" /\ own[p] # NoObj =>
                       /\ obj[own[p]].st = "pending"
                       /\ map[WriteMemo(p)][MK(p)] = own[p]

\* no lost wake-up: every validation returns (liveness under FairSpec)
Termination == <>AllDone
=============================================================================
