CONSTANTS
  Procs <- P3
  Prog <- Bound_Prog
  Scope <- AllReq3
  Bound = 2
  Refusers <- P3
  Mutant = "none"
  Gated = TRUE
SPECIFICATION Spec
INVARIANTS TypeOK ValuesCorrect WaiterAfterPublish NoPoison OneCompute BoundRespected Directional OwnerHoldsPending
VIEW view
CHECK_DEADLOCK TRUE
