CONSTANTS
  Procs <- P3
  Prog <- OptOut_Prog
  Scope <- AllReq3
  Bound = 8
  Refusers <- P3
  Mutant = "NoWait"
  Gated = TRUE
SPECIFICATION Spec
INVARIANTS ValuesCorrect
VIEW view
CHECK_DEADLOCK TRUE
