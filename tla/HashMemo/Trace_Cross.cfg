CONSTANTS
  Procs <- P3
  Prog <- Cross_Prog
  Scope <- Cross_Scope
  Bound = 8
  Refusers <- P3
  Mutant = "none"
  Gated = TRUE
SPECIFICATION TraceSpec
INVARIANTS TypeOK ValuesCorrect WaiterAfterPublish NoPoison OneCompute BoundRespected Directional OwnerHoldsPending
POSTCONDITION TraceAccepted
CHECK_DEADLOCK FALSE
