CONSTANTS
  Procs <- P3
  Prog <- Bound_Prog
  Scope <- AllReq3
  Bound = 2
  Refusers <- P3
  Mutant = "OverBoundRegisters"
  Gated = FALSE
SPECIFICATION Spec
INVARIANTS BoundRespected
VIEW view
CHECK_DEADLOCK TRUE
