CONSTANTS
  Procs <- P3
  Prog <- Ropt_Prog
  Scope <- Ropt_Scope
  Bound = 8
  Refusers <- P3
  Mutant = "LocNoWait"
  Gated = TRUE
SPECIFICATION Spec
INVARIANTS ValuesCorrect
VIEW view
CHECK_DEADLOCK TRUE
