CONSTANTS
  Procs <- P3
  Prog <- Bound_Prog
  Scope <- AllReq3
  Bound = 2
  Refusers <- P3
  Mutant = "none"
  Gated = TRUE
SPECIFICATION TraceSpec
INVARIANTS TypeOK ValuesCorrect WaiterAfterPublish NoPoison OneCompute BoundRespected Directional OwnerHoldsPending
POSTCONDITION TraceAccepted
CHECK_DEADLOCK FALSE
