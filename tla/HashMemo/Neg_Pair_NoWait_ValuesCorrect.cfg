CONSTANTS
  Procs <- P3
  Prog <- Pair_Prog
  Scope <- AllReq3
  Bound = 8
  Refusers <- P3
  Mutant = "NoWait"
  Gated = FALSE
SPECIFICATION Spec
INVARIANTS ValuesCorrect
VIEW view
CHECK_DEADLOCK TRUE
