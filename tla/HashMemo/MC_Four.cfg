CONSTANTS
  Procs <- P4
  Prog <- Four_Prog
  Scope <- Four_Scope
  Bound = 8
  Refusers <- P4
  Mutant = "none"
  Gated = FALSE
SPECIFICATION Spec
INVARIANTS TypeOK ValuesCorrect WaiterAfterPublish NoPoison OneCompute BoundRespected Directional OwnerHoldsPending
VIEW view
CHECK_DEADLOCK TRUE
