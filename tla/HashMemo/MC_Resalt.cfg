CONSTANTS
  Procs <- P4
  Prog <- Resalt_Prog
  Scope <- AllReq4
  Bound = 8
  Refusers <- P4
  Mutant = "none"
  Gated = FALSE
SPECIFICATION FairSpec
INVARIANTS TypeOK ValuesCorrect WaiterAfterPublish NoPoison OneCompute BoundRespected Directional OwnerHoldsPending
PROPERTIES Termination
CHECK_DEADLOCK TRUE
