CONSTANTS
  Procs <- P4
  Prog <- Four_Prog
  Scope <- Four_Scope
  Bound = 8
  Refusers <- P4
  Mutant = "none"
  Gated = TRUE
SPECIFICATION TraceSpec
INVARIANTS TypeOK ValuesCorrect WaiterAfterPublish NoPoison OneCompute BoundRespected Directional OwnerHoldsPending
POSTCONDITION TraceAccepted
CHECK_DEADLOCK FALSE
