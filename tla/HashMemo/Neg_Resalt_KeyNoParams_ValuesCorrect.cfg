CONSTANTS
  Procs <- P4
  Prog <- Resalt_Prog
  Scope <- AllReq4
  Bound = 8
  Refusers <- P4
  Mutant = "KeyNoParams"
  Gated = FALSE
SPECIFICATION Spec
INVARIANTS ValuesCorrect
VIEW view
CHECK_DEADLOCK TRUE
