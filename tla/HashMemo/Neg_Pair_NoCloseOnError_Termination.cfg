CONSTANTS
  Procs <- P3
  Prog <- Pair_Prog
  Scope <- AllReq3
  Bound = 8
  Refusers <- P3
  Mutant = "NoCloseOnError"
  Gated = FALSE
SPECIFICATION FairSpec
PROPERTIES Termination
CHECK_DEADLOCK FALSE
