CONSTANTS
  Procs <- P4
  Prog <- Resalt_Prog
  Scope <- AllReq4
  Bound = 8
  Refusers <- P4
  Mutant = "none"
  Gated = TRUE
SPECIFICATION Spec
INVARIANTS TypeOK ValuesCorrect WaiterAfterPublish NoPoison OneCompute BoundRespected Directional OwnerHoldsPending
VIEW view
CHECK_DEADLOCK TRUE
