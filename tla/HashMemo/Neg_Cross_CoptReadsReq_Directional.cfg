CONSTANTS
  Procs <- P3
  Prog <- Cross_Prog
  Scope <- Cross_Scope
  Bound = 8
  Refusers <- P3
  Mutant = "CoptReadsReq"
  Gated = FALSE
SPECIFICATION Spec
INVARIANTS Directional
VIEW view
CHECK_DEADLOCK TRUE
