CONSTANTS
  Procs <- P3
  Prog <- OptOut_Prog
  Scope <- AllReq3
  Bound = 8
  Refusers <- P3
  Mutant = "none"
  Gated = FALSE
SPECIFICATION FairSpec
INVARIANTS TypeOK ValuesCorrect WaiterAfterPublish NoPoison OneCompute BoundRespected Directional OwnerHoldsPending
PROPERTIES Termination
CHECK_DEADLOCK TRUE
