---------------------------- MODULE MC_HashMemo ----------------------------
(* Scenario tables for HashMemo.tla.  A key is <<ring, owner>>: rings A, B *)
(* and C are three NSEC3 parameter sets of zone.test. (B: another salt, C:  *)
(* another iteration count -- a re-salted ring), O is the Opt-Out zone      *)
(* oo.test.; owner "@" is the apex, "*" the wildcard at the apex.  The      *)
(* programs are the digest sequences the REAL verifier calls ask for when   *)
(* run alone (harness/x02hm checks them against the code; the table         *)
(* SCENARIOS in checks/x02hm.py must mirror this file).                     *)
EXTENDS HashMemo

K(r, n) == <<r, n>>
NXnope(r)  == <<K(r, "nope"), K(r, "@"), K(r, "*")>>      \* NXDOMAIN proof / aggressive NXDOMAIN for nope
One(r, n)  == <<K(r, n)>>                                 \* exact-owner calls: NODATA, forged NXDOMAIN, delegation, wildcard next-closer
WildND(r)  == <<K(r, "x.wild"), K(r, "wild"), K(r, "*.wild")>>   \* wildcard NODATA for x.wild
InsOO      == <<K("O", "ins"), K("O", "@")>>              \* Opt-Out insecure delegation

P3 == 1..3
P4 == 1..4
AllReq3 == [p \in P3 |-> "req"]
AllReq4 == [p \in P4 |-> "req"]

\* Pair: NODATA(www TXT) | forged NXDOMAIN(www) | NXDOMAIN(nope)
Pair_Prog == (1 :> One("A", "www")) @@ (2 :> One("A", "www")) @@ (3 :> NXnope("A"))
\* Cross: the same NXDOMAIN in the three work classes
Cross_Prog == [p \in P3 |-> NXnope("A")]
Cross_Scope == (1 :> "req") @@ (2 :> "ropt") @@ (3 :> "copt")
\* Resalt: the same owner under three parameter sets (B: another salt, C: another iteration count):
\* forged NXDOMAIN(www) under A | B | C | NODATA(www TXT) under B
Resalt_Prog == (1 :> One("A", "www")) @@ (2 :> One("B", "www")) @@ (3 :> One("C", "www")) @@ (4 :> One("B", "www"))
\* Bound: the ceiling is reached half way (Bound = 2)
Bound_Prog == (1 :> NXnope("A")) @@ (2 :> WildND("A")) @@ (3 :> NXnope("A"))
\* Wild: wildcard answer next-closer | wildcard NODATA | forged wildcard answer over host.wild | NODATA(host.wild TXT)
Wild_Prog == (1 :> One("A", "x.wild")) @@ (2 :> WildND("A")) @@ (3 :> One("A", "host.wild")) @@ (4 :> One("A", "host.wild"))
\* OptOut: NODATA(sec TXT) | forged insecure delegation(sec) | insecure delegation(ins)
OptOut_Prog == (1 :> One("O", "sec")) @@ (2 :> One("O", "sec")) @@ (3 :> InsOO)
\* Ropt: three resolver-optional classifications (Read = req stays empty, they meet in loadOrCompute on ropt):
\* aggressive NODATA(www TXT) | aggressive denial of www A (refused alone: the type exists) | aggressive NXDOMAIN(nope)
Ropt_Prog == (1 :> One("A", "www")) @@ (2 :> One("A", "www")) @@ (3 :> NXnope("A"))
Ropt_Scope == [p \in P3 |-> "ropt"]
\* Four: two NXDOMAIN proofs, an aggressive one reading the required memo, a forged one
Four_Prog == (1 :> NXnope("A")) @@ (2 :> NXnope("A")) @@ (3 :> NXnope("A")) @@ (4 :> One("A", "www"))
Four_Scope == (1 :> "req") @@ (2 :> "req") @@ (3 :> "ropt") @@ (4 :> "req")
=============================================================================
