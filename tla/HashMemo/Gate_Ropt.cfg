CONSTANTS
  Procs <- P3
  Prog <- Ropt_Prog
  Scope <- Ropt_Scope
  Bound = 8
  Refusers <- P3
  Mutant = "none"
  Gated = TRUE
SPECIFICATION Spec
INVARIANTS TypeOK ValuesCorrect WaiterAfterPublish NoPoison OneCompute BoundRespected Directional OwnerHoldsPending
VIEW view
CHECK_DEADLOCK TRUE
