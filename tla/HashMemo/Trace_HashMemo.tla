--------------------------- MODULE Trace_HashMemo ---------------------------
(***************************************************************************)
(* Validation of executions recorded from the real hash memo               *)
(* (harness/x02hm) against the forceable behaviours of HashMemo.tla        *)
(* (Gated = TRUE).                                                         *)
(*                                                                         *)
(* The driver forces Start / Release / Refuse and, once every validation   *)
(* is parked in BeginNSEC3Hash, blocked on an entry's ready channel or     *)
(* returned, writes one NDJSON line: the step and the observed projection  *)
(* (per validation idle / parked / wait / done:ok / done:err; per          *)
(* compartment the number of resident entries and the keys of the pending  *)
(* ones).  Where the code resolves a race the model leaves open (which of  *)
(* two woken waiters registers the next key first) the driver follows the  *)
(* code, so a recorded run need not be the path TLC drew; it must still be *)
(* SOME behaviour of the model: internal steps are searched, a forced step *)
(* must be enabled, and the quiescent state it leads to must project to    *)
(* the line.  Runs are concatenated, separated by reset lines; the file    *)
(* ends with a reset line.  A trace that cannot be matched is drift, not a *)
(* verdict (digest values are not observable from outside).                *)
(***************************************************************************)
EXTENDS MC_HashMemo, Json, IOUtils

TraceLog == ndJsonDeserialize(IOEnv.TRACE_FILE)

VARIABLE ti
tvars == <<vars, ti>>

Ln == TraceLog[ti]
More == ti <= Len(TraceLog)

Proj(p) == IF pc[p] = "done" THEN "done:" \o out[p] ELSE pc[p]
PendingKeys(m) == {k \in MemoKeys : map[m][k] # NoObj /\ obj[map[m][k]].st = "pending"}
SeqSet(s) == {<<s[i][1], s[i][2]>> : i \in DOMAIN s}

\* the current (quiescent) state projects to the observation of line l
Matches(l) ==
  /\ Quiescent
  /\ \A p \in Procs : l.procs[p] = Proj(p)
  /\ \A m \in Memos : /\ l.memo[m].n = Size(m)
                      /\ SeqSet(l.memo[m].pending) = PendingKeys(m)

PrevOK == (ti > 1 /\ TraceLog[ti - 1].ev = "step") => Matches(TraceLog[ti - 1])
Progress == TLCSet(2, IF ti' > TLCGet(2) THEN ti' ELSE TLCGet(2))

Internal ==
  /\ \E p \in Procs : Load(p) \/ Loc(p) \/ Publish(p) \/ Publish2(p) \/ WaitDone(p)
  /\ ti' = ti

Forced ==
  /\ More /\ Ln.ev = "step"
  /\ PrevOK
  /\ \/ Ln.a = "Start" /\ Start(Ln.p)
     \/ Ln.a = "Release" /\ Release(Ln.p)
     \/ Ln.a = "Refuse" /\ Refuse(Ln.p)
  /\ ti' = ti + 1
  /\ Progress

Reset ==
  /\ More /\ Ln.ev = "reset"
  /\ PrevOK
  /\ pc' = [p \in Procs |-> "idle"]
  /\ ix' = [p \in Procs |-> 0]
  /\ ref' = [p \in Procs |-> NoObj]
  /\ via' = [p \in Procs |-> ""]
  /\ own' = [p \in Procs |-> NoObj]
  /\ res' = [p \in Procs |-> [err |-> FALSE, val |-> Empty]]
  /\ got' = [p \in Procs |-> <<>>]
  /\ out' = [p \in Procs |-> ""]
  /\ map' = [m \in Memos |-> [k \in MemoKeys |-> NoObj]]
  /\ obj' = [o \in ObjIds |-> [st |-> "none", val |-> Empty]]
  /\ published' = {} /\ unpub' = {}
  /\ computes' = [m \in Memos |-> [k \in MemoKeys |-> 0]]
  /\ priv' = 0 /\ touch' = {}
  /\ ti' = ti + 1
  /\ Progress

TraceInit == Init /\ ti = 1 /\ TLCSet(2, 1)
TraceNext == Internal \/ Forced \/ Reset
TraceSpec == TraceInit /\ [][TraceNext]_tvars

\* the whole file was consumed by some behaviour (TLCGet(2) = furthest line reached + 1)
TraceAccepted == /\ PrintT(<<"X02HMTRACE", TLCGet(2) - 1, Len(TraceLog)>>)
                 /\ TLCGet(2) = Len(TraceLog) + 1
=============================================================================
