--------------------------- MODULE MC_Adversarial ---------------------------
(* every assignment of 4 keys to ideal slots in the wrap window {6,7,0,1}:
   every cluster shape incl. the "three-key ghost" family; single value, no zero key *)
EXTENDS ProbeMap
MCIdeals8 == [1..4 -> {6, 7, 0, 1}]
MCHighBit == { [k \in 1..4 |-> 0], [k \in 1..4 |-> k % 2] }
=============================================================================
