---------------------------- MODULE MC_Cluster8 ----------------------------
(* quick tier: one fixed wrap-around ideal assignment, 4 keys + zero key, N=8->16 *)
EXTENDS ProbeMap
MCIdeals8 == { (1 :> 6 @@ 2 :> 7 @@ 3 :> 7 @@ 4 :> 0) }
MCHighBit == { (1 :> 0 @@ 2 :> 1 @@ 3 :> 0 @@ 4 :> 1) }
=============================================================================
