CONSTANTS
  NK = 4
  Vals = {1, 2}
  UseZero = TRUE
  Ideals8 <- MCIdeals8
  HighBit <- MCHighBit
INIT Init
NEXT Next
VIEW View
INVARIANTS TypeOK Refines NoDup Reachable SizeOK SlotsOK
PROPERTIES DelOnlyRemovesTarget EvictOnlyRemovesVictims PutOnlyTouchesTarget EvictSparesA EvictCountA EvictProgressA
CHECK_DEADLOCK FALSE
