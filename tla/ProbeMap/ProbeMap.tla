------------------------------ MODULE ProbeMap ------------------------------
(***************************************************************************)
(* Literal model of internal/cache.UInt64Map (open addressing, linear      *)
(* probing, backward-shift deletion, out-of-band zero key, growth with     *)
(* rehash, EvictKeysAt).  One action per public method; loops of the code  *)
(* are recursive operators that follow the code's control flow.            *)
(*                                                                         *)
(* Keys are 1..NK (the real keys are searched so that their ideal slots    *)
(* match ideal8/ideal16), key 0 is the out-of-band zero key.  `am` is the  *)
(* ghost abstract map the table must refine (property C16).                *)
(***************************************************************************)
EXTENDS Integers, FiniteSets, Sequences, TLC

CONSTANTS NK,          \* number of non-zero keys
          Vals,        \* set of values (positive integers)
          Ideals8,     \* set of candidate functions [1..NK -> 0..7]
          HighBit,     \* set of candidate functions [1..NK -> {0,1}]: ideal16 = ideal8 + 8*bit
          UseZero      \* BOOLEAN: include the zero key

Keys == 1..NK
AllKeys == IF UseZero THEN 0..NK ELSE Keys

VARIABLES data,     \* [0..n-1 -> 0..NK]   0 = empty slot
          val,      \* [0..n-1 -> Vals \cup {0}]
          n,        \* table length: 8 or 16
          size,     \* the code's m.size
          hasZero, zeroVal,
          ideal8, ideal16,   \* chosen at Init, never change
          am,       \* ghost: abstract map  [AllKeys -> Vals \cup {0}], 0 = absent
          last      \* ghost: what the last operation returned (for replay)

vars == <<data, val, n, size, hasZero, zeroVal, ideal8, ideal16, am, last>>

GrowAt(len) == (len * 3) \div 4
Idx(k, len) == IF len = 8 THEN ideal8[k] ELSE ideal16[k]

Empty(len) == [i \in 0..len-1 |-> 0]

Init ==
  /\ n = 8
  /\ data = Empty(8) /\ val = Empty(8)
  /\ size = 0 /\ hasZero = FALSE /\ zeroVal = 0
  /\ ideal8 \in Ideals8
  /\ \E hb \in HighBit : ideal16 = [k \in Keys |-> ideal8[k] + 8 * hb[k]]
  /\ am = [k \in AllKeys |-> 0]
  /\ last = [op |-> "init"]

(* first slot in probe order from the ideal slot that holds k or is empty; -1 if none *)
FindSlot(d, len, k) ==
  LET h == Idx(k, len)
      cand == {i \in 0..len-1 : d[(h+i) % len] = k \/ d[(h+i) % len] = 0}
  IN IF cand = {} THEN -1
     ELSE (h + (CHOOSE i \in cand : \A j \in cand : i <= j)) % len

(* the lookup the code performs (Get/Has): stops at the first empty slot *)
Lookup(d, v, len, k) ==
  LET s == FindSlot(d, len, k)
  IN IF s = -1 \/ d[s] = 0 THEN 0 ELSE v[s]

LookupAny(k) == IF k = 0 THEN (IF hasZero THEN zeroVal ELSE 0)
                ELSE Lookup(data, val, n, k)

(* ---- grow: re-insert slot by slot, in slot order, at first empty ------ *)
RECURSIVE Reinsert(_, _, _, _, _)
Reinsert(od, ov, i, nd, nv) ==
  IF i = 8 THEN <<nd, nv>>
  ELSE IF od[i] = 0 THEN Reinsert(od, ov, i+1, nd, nv)
  ELSE LET h == ideal16[od[i]]
           cand == {j \in 0..15 : nd[(h+j) % 16] = 0}
           s == (h + (CHOOSE j \in cand : \A j2 \in cand : j <= j2)) % 16
       IN Reinsert(od, ov, i+1, [nd EXCEPT ![s] = od[i]], [nv EXCEPT ![s] = ov[i]])

Grown == Reinsert(data, val, 0, Empty(16), Empty(16))

(* table (d, v, len) seen by Put after the growth check *)
NeedGrow == size >= GrowAt(n)
PreD == IF NeedGrow THEN Grown[1] ELSE data
PreV == IF NeedGrow THEN Grown[2] ELSE val
PreN == IF NeedGrow THEN 16 ELSE n

Put(k, v) ==
  /\ k \in AllKeys /\ v \in Vals
  /\ IF k = 0 THEN
       /\ size' = IF hasZero THEN size ELSE size + 1
       /\ hasZero' = TRUE /\ zeroVal' = v
       /\ UNCHANGED <<data, val, n>>
     ELSE
       /\ n = 8 \/ ~NeedGrow        \* the bounded model never grows past 16
       /\ LET s == FindSlot(PreD, PreN, k) IN
          /\ s # -1
          /\ data' = [PreD EXCEPT ![s] = k]
          /\ val'  = [PreV EXCEPT ![s] = v]
          /\ n' = PreN
          /\ size' = IF PreD[s] = 0 THEN size + 1 ELSE size
       /\ UNCHANGED <<hasZero, zeroVal>>
  /\ am' = [am EXCEPT ![k] = v]
  /\ last' = [op |-> "put", k |-> k, v |-> v]
  /\ UNCHANGED <<ideal8, ideal16>>

PutIfNotExists(k, v) ==
  /\ k \in AllKeys /\ v \in Vals
  /\ IF k = 0 THEN
       /\ IF hasZero
            THEN UNCHANGED <<size, hasZero, zeroVal>>
            ELSE size' = size + 1 /\ hasZero' = TRUE /\ zeroVal' = v
       /\ UNCHANGED <<data, val, n>>
       /\ last' = [op |-> "putnx", k |-> k, v |-> v,
                   ret |-> IF hasZero THEN zeroVal ELSE v, ins |-> ~hasZero]
     ELSE
       /\ n = 8 \/ ~NeedGrow
       /\ LET s == FindSlot(PreD, PreN, k) IN
          /\ s # -1
          /\ n' = PreN
          /\ IF PreD[s] = 0
               THEN /\ data' = [PreD EXCEPT ![s] = k]
                    /\ val'  = [PreV EXCEPT ![s] = v]
                    /\ size' = size + 1
               ELSE /\ data' = PreD /\ val' = PreV /\ size' = size
          /\ last' = [op |-> "putnx", k |-> k, v |-> v,
                      ret |-> IF PreD[s] = 0 THEN v ELSE PreV[s], ins |-> (PreD[s] = 0)]
       /\ UNCHANGED <<hasZero, zeroVal>>
  /\ am' = IF am[k] = 0 THEN [am EXCEPT ![k] = v] ELSE am
  /\ UNCHANGED <<ideal8, ideal16>>

(* ---- backwardShiftDelete(i): Knuth 6.4 R, continue past unmovable ----- *)
RECURSIVE BShift(_, _, _, _, _)
BShift(d, v, len, i, j) ==
  LET j1 == (j + 1) % len IN
  IF d[j1] = 0 THEN <<d, v>>
  ELSE LET k == Idx(d[j1], len)
           stay == IF i <= j1 THEN (i < k /\ k <= j1) ELSE (i < k \/ k <= j1)
       IN IF stay THEN BShift(d, v, len, i, j1)
          ELSE BShift([d EXCEPT ![i] = d[j1], ![j1] = 0],
                      [v EXCEPT ![i] = v[j1], ![j1] = 0], len, j1, j1)

DelAt(d, v, len, s) == BShift([d EXCEPT ![s] = 0], [v EXCEPT ![s] = 0], len, s, s)

Del(k) ==
  /\ k \in AllKeys
  /\ IF k = 0 THEN
       /\ IF hasZero THEN hasZero' = FALSE /\ zeroVal' = 0 /\ size' = size - 1
                     ELSE UNCHANGED <<hasZero, zeroVal, size>>
       /\ UNCHANGED <<data, val>>
       /\ last' = [op |-> "del", k |-> k, ok |-> hasZero]
     ELSE
       LET s == FindSlot(data, n, k)
           found == s # -1 /\ data[s] = k
       IN /\ IF found THEN LET r == DelAt(data, val, n, s) IN
                             data' = r[1] /\ val' = r[2] /\ size' = size - 1
                      ELSE UNCHANGED <<data, val, size>>
          /\ UNCHANGED <<hasZero, zeroVal>>
          /\ last' = [op |-> "del", k |-> k, ok |-> found]
  /\ am' = [am EXCEPT ![k] = 0]
  /\ UNCHANGED <<n, ideal8, ideal16>>

(* ---- EvictKeysAt(offset, cnt, skip) ----------------------------------- *)
RECURSIVE EvScan(_, _, _, _, _, _, _, _)
(* returns <<d, v, deleted, victims>> *)
EvScan(d, v, idx, scanned, deleted, cnt, skip, victims) ==
  IF ~(scanned <= n - 1 /\ deleted < cnt) THEN <<d, v, deleted, victims>>
  ELSE IF d[idx] = 0 \/ d[idx] = skip
       THEN EvScan(d, v, (idx + 1) % n, scanned + 1, deleted, cnt, skip, victims)
       ELSE LET r == DelAt(d, v, n, idx)
            IN EvScan(r[1], r[2], idx, scanned, deleted + 1, cnt, skip, victims \cup {d[idx]})

Evict(off, cnt, skip) ==
  /\ off \in 0..n-1 /\ cnt \in 1..2 /\ skip \in AllKeys
  /\ LET r == EvScan(data, val, off, 0, 0, cnt, skip, {})
         takeZero == r[3] < cnt /\ hasZero /\ skip # 0
         total == r[3] + (IF takeZero THEN 1 ELSE 0)
         victims == r[4] \cup (IF takeZero THEN {0} ELSE {})
     IN /\ data' = r[1] /\ val' = r[2]
        /\ size' = size - total
        /\ hasZero' = IF takeZero THEN FALSE ELSE hasZero
        /\ zeroVal' = IF takeZero THEN 0 ELSE zeroVal
        /\ am' = [k \in AllKeys |-> IF k \in victims THEN 0 ELSE am[k]]
        /\ last' = [op |-> "evict", off |-> off, cnt |-> cnt, skip |-> skip,
                    deleted |-> total, victims |-> victims]
  /\ UNCHANGED <<n, ideal8, ideal16>>

Clear ==
  /\ data' = Empty(n) /\ val' = Empty(n)
  /\ size' = 0 /\ hasZero' = FALSE /\ zeroVal' = 0
  /\ am' = [k \in AllKeys |-> 0]
  /\ last' = [op |-> "clear"]
  /\ UNCHANGED <<n, ideal8, ideal16>>

Next ==
  \/ \E k \in AllKeys, v \in Vals : Put(k, v)
  \/ \E k \in AllKeys, v \in Vals : PutIfNotExists(k, v)
  \/ \E k \in AllKeys : Del(k)
  \/ \E off \in 0..15, cnt \in 1..2, skip \in AllKeys : Evict(off, cnt, skip)
  \/ Clear

Spec == Init /\ [][Next]_vars

(* ------------------------------ properties ---------------------------- *)
TypeOK ==
  /\ n \in {8, 16}
  /\ data \in [0..n-1 -> 0..NK]
  /\ val \in [0..n-1 -> Vals \cup {0}]
  /\ size \in 0..NK+1
  /\ hasZero \in BOOLEAN

(* a key yields the value most recently stored under it unless removed/evicted *)
Refines == \A k \in AllKeys : LookupAny(k) = am[k]

(* distinct keys never alias / no key is duplicated *)
NoDup == \A i, j \in 0..n-1 : (i # j /\ data[i] # 0) => data[i] # data[j]

(* every stored key is reachable by the code's probe (no ghost entries) *)
Reachable == \A i \in 0..n-1 : data[i] # 0 => FindSlot(data, n, data[i]) = i

(* reported length equals the number of reachable entries *)
SizeOK == size = Cardinality({k \in AllKeys : am[k] # 0})
SlotsOK == Cardinality({i \in 0..n-1 : data[i] # 0}) + (IF hasZero THEN 1 ELSE 0) = size

(* eviction never removes the key being written and makes the progress it reports *)
(* (stated on `last`, which the VIEW hides, hence as action properties: TLC
   evaluates those on every transition, invariants only on unseen views) *)
EvictSparesA == [][last'.op = "evict" => last'.skip \notin last'.victims]_vars
EvictCountA  == [][last'.op = "evict" => last'.deleted = Cardinality(last'.victims)]_vars

(* action properties: removal/eviction touches only its targets *)
DelOnlyRemovesTarget ==
  [][\A k \in AllKeys :
       (last'.op = "del" /\ k # last'.k) => LookupAny(k)' = LookupAny(k)]_vars
EvictOnlyRemovesVictims ==
  [][\A k \in AllKeys :
       (last'.op = "evict" /\ k \notin last'.victims) => LookupAny(k)' = LookupAny(k)]_vars
PutOnlyTouchesTarget ==
  [][\A k \in AllKeys :
       (last'.op \in {"put", "putnx"} /\ k # last'.k) => LookupAny(k)' = LookupAny(k)]_vars

(* EvictKeysAt deletes min(cnt, live \ {skip}) -- stronger than C16 needs;
   kept as an invariant of the model, booked as drift on the code *)
EvictProgressA ==
  [][last'.op = "evict" =>
      LET liveBefore == Cardinality({k \in AllKeys : am[k] # 0 /\ k # last'.skip})
      IN last'.deleted = IF last'.cnt < liveBefore THEN last'.cnt ELSE liveBefore]_vars

View == <<data, val, n, size, hasZero, zeroVal, ideal8, ideal16, am>>
=============================================================================
