CONSTANTS
  MaxN3 <- MCMax
  OptCap = 32
  Needs <- MCNeeds
  OutsideLedger = FALSE
SPECIFICATION Spec
INVARIANTS TypeOK WithinBudget LedgerExact
CHECK_DEADLOCK FALSE
