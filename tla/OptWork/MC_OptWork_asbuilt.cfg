CONSTANTS
  MaxN3 <- MCMax
  OptCap = 32
  Needs <- MCNeeds
  OutsideLedger = TRUE
SPECIFICATION Spec
INVARIANTS WithinBudget
CHECK_DEADLOCK FALSE
