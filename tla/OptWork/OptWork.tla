------------------------------ MODULE OptWork ------------------------------
(***************************************************************************)
(* C12, one clause: "With the recursion firewall in enforce mode ... the    *)
(* DNSSEC operations spent on one request tree ... never exceed the         *)
(* configured budgets", for the NSEC3 hash operations of ONE request tree.  *)
(*                                                                         *)
(* Three spenders hash on behalf of a tree (dnssec.NSEC3HashMemoScope...):  *)
(*   required   validation of an upstream response (resolver): debits the   *)
(*              ledger's nsec3 counter, refused above max_nsec3_hashes      *)
(*   ropt       the resolver's optional proof classification                *)
(*              (middleware/resolver/aggressive_proof_work.go)              *)
(*   copt       the cache's aggressive-denial synthesis from retained       *)
(*              proofs (middleware/cache/denial_proof_work.go)              *)
(* As built (OutsideLedger = TRUE) the two optional spenders count against  *)
(* a private allowance OptCap (32 in the code) each and never touch the     *)
(* ledger; the repository pins that in                                      *)
(* TestDenialProofWorkDoesNotDebitRequestLedger.  With the switch off they  *)
(* debit the shared counter best-effort (a refused optional hash ends the   *)
(* optional work, latches nothing).                                         *)
(*                                                                         *)
(* A tree is a sequence of hash requests; Need[s] is how many the tree's    *)
(* data makes spender s ask for (a deep name below an NSEC3 zone: one per   *)
(* candidate closest encloser plus next closer plus wildcard).              *)
(***************************************************************************)
EXTENDS Integers, FiniteSets, TLC

CONSTANTS MaxN3,        \* set of configured max_nsec3_hashes values
          OptCap,       \* the private allowance of an optional spender
          Needs,        \* set of [required |-> n, ropt |-> n, copt |-> n]
          OutsideLedger \* as built

Spenders == {"required", "ropt", "copt"}

VARIABLES max, need, done, ledger, stopped
vars == <<max, need, done, ledger, stopped>>

Init == /\ max \in MaxN3 /\ need \in Needs
        /\ done = [s \in Spenders |-> 0] /\ ledger = 0 /\ stopped = {}

Hash(s) ==
  /\ s \notin stopped /\ done[s] < need[s]
  /\ IF s = "required" \/ ~OutsideLedger
       THEN IF ledger < max
              THEN /\ ledger' = ledger + 1 /\ done' = [done EXCEPT ![s] = @ + 1] /\ UNCHANGED stopped
              ELSE /\ stopped' = stopped \cup {s} /\ UNCHANGED <<ledger, done>>       \* limit error / optional work ends
       ELSE IF done[s] < OptCap
              THEN /\ done' = [done EXCEPT ![s] = @ + 1] /\ UNCHANGED <<ledger, stopped>>
              ELSE /\ stopped' = stopped \cup {s} /\ UNCHANGED <<ledger, done>>
  /\ UNCHANGED <<max, need>>

Next == \E s \in Spenders : Hash(s)
Spec == Init /\ [][Next]_vars

TypeOK == max \in MaxN3 /\ need \in Needs /\ ledger \in 0..max /\ stopped \subseteq Spenders
          /\ \A s \in Spenders : done[s] \in 0..need[s]

(* C12: the NSEC3 hash operations spent on the tree never exceed the configured budget *)
WithinBudget == done["required"] + done["ropt"] + done["copt"] <= max
(* the ledger's own accounting, whatever the switch *)
LedgerExact == IF OutsideLedger THEN ledger = done["required"] ELSE ledger = done["required"] + done["ropt"] + done["copt"]
=============================================================================
