------------------------------ MODULE LimConc ------------------------------
(***************************************************************************)
(* LimStore.tla with the dimension it lacked: several clients inside       *)
(* LimiterStore.Get at once.  Get is not one critical section but two:     *)
(*                                                                         *)
(*   RLook(c,k)  read lock:  hit -> stamp lastSeen, hand out the stored    *)
(*               limiter; miss -> give the read lock up and queue for the  *)
(*               write lock                                                *)
(*   WIns(c)     write lock: look the key up AGAIN (another client may     *)
(*               have created it in between) - hit -> stamp, hand out the  *)
(*               stored limiter; still absent -> evictOne() at the bound,  *)
(*               create, stamp, insert, hand out the new limiter           *)
(*                                                                         *)
(* Any number of clients can sit between the two (`cl`).  Recheck = FALSE  *)
(* is a model mutant: the second look-up is dropped, so a client whose key *)
(* was created meanwhile evicts (at the bound) and inserts once more,      *)
(* replacing the mapping another client was just handed.                   *)
(*                                                                         *)
(* Everything else (store, seen, fillers, evictOne's two regimes, Cleanup, *)
(* the invariants) is LimStore's.                                          *)
(***************************************************************************)
EXTENDS LimStore

CONSTANTS Clients,   \* goroutines calling Get
          Recheck    \* BOOLEAN: the write-locked section looks the key up again (the code: TRUE)

VARIABLE cl          \* Clients -> idle, or the key missed under the read lock
cvars == <<vars, cl>>

CIdle == [st |-> "idle", k |-> 0]

CInit == Init /\ cl = [c \in Clients |-> CIdle]

(* the write-locked section without the second look-up, entered although the key is mapped *)
Blind(k) ==
  /\ store[k] # 0
  /\ \/ /\ Size < MaxSize
        /\ store' = [store EXCEPT ![k] = nextId]
        /\ last' = [NoOp EXCEPT !.op = "get", !.k = k, !.id = nextId]
        /\ UNCHANGED nfill
     \/ /\ Size >= MaxSize /\ VictimIsFill(nfill)
        /\ nfill' = nfill - 1
        /\ store' = [store EXCEPT ![k] = nextId]
        /\ last' = [NoOp EXCEPT !.op = "get", !.k = k, !.id = nextId, !.victim = "fill"]
     \/ /\ Size >= MaxSize
        /\ \E v \in VictimKeys(Present, nfill) :
             /\ store' = [[store EXCEPT ![v] = 0] EXCEPT ![k] = nextId]
             /\ last' = [NoOp EXCEPT !.op = "get", !.k = k, !.id = nextId, !.victim = "key", !.vk = v]
        /\ UNCHANGED nfill
  /\ seen' = [seen EXCEPT ![k] = clock]
  /\ nextId' = nextId + 1

\* (the history bound counts completed calls; queued clients always get to finish)
RLook(c, k) ==
  /\ nops + Cardinality({x \in Clients : cl[x].st = "up"}) < MaxOps
  /\ cl[c].st = "idle"
  /\ \/ /\ Hit(k)
        /\ clock' = clock + 1 /\ nops' = nops + 1
        /\ UNCHANGED cl
     \/ /\ store[k] = 0
        /\ cl' = [cl EXCEPT ![c] = [st |-> "up", k |-> k]]
        /\ last' = [NoOp EXCEPT !.op = "look", !.k = k]
        /\ UNCHANGED <<store, seen, nfill, nextId, clock, nops>>

WIns(c) ==
  /\ cl[c].st = "up"
  /\ LET k == cl[c].k IN
       \/ /\ store[k] # 0 /\ Recheck /\ Hit(k)
       \/ /\ store[k] # 0 /\ ~Recheck /\ Blind(k)
       \/ /\ store[k] = 0 /\ (IF EvictAfterInsert THEN MissMutant(k) ELSE MissAsBuilt(k))
  /\ clock' = clock + 1 /\ nops' = nops + 1
  /\ cl' = [cl EXCEPT ![c] = CIdle]

CCleanup(d) == nops + Cardinality({x \in Clients : cl[x].st = "up"}) < MaxOps /\ Cleanup(d) /\ UNCHANGED cl

CNext ==
  \/ \E c \in Clients, k \in Keys : RLook(c, k)
  \/ \E c \in Clients : WIns(c)
  \/ \E d \in {1, 3} : CCleanup(d)

CSpec == CInit /\ [][CNext]_cvars

----------------------------------------------------------------------------
CTypeOK == TypeOK /\ cl \in [Clients -> [st : {"idle", "up"}, k : Keys \cup {0}]]

(* the store behaves as a map under get-or-create: a key that is mapped yields the mapped limiter - *)
(* Get never replaces a mapping, so every client asking for the key is handed the same limiter      *)
(* until the key is evicted                                                                         *)
GetOrCreate == [][(last'.op = "get" /\ nops' = nops + 1 /\ store[last'.k] # 0) => last'.id = store[last'.k]]_vars

(* storing one key costs at most one resident entry, and only at the bound: LimStore's EvictsOnlyAtBound *)
(* (re-checked here with several clients queued for the write lock)                                      *)
=============================================================================
