SPECIFICATION SpecGets
CONSTANTS
  Keys = {0, 1, 2, 3}
  Fill = 2
  Room = 2
  Sampled = TRUE
  EvictAfterInsert = FALSE
  MaxOps = 9
CHECK_DEADLOCK FALSE
