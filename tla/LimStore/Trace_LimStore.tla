--------------------------- MODULE Trace_LimStore ---------------------------
(***************************************************************************)
(* Histories recorded from the real LimiterStore (harness/c16:             *)
(* TestLimStore) validated against LimStore.tla.  One line per call with   *)
(* what the caller and an observer of the table can see afterwards: hit or *)
(* miss, the identity handed out (numbered in order of creation), which    *)
(* entry disappeared.  The victim of a sampled eviction is the code's      *)
(* choice; the model allows any, TLC picks the branch the line names.      *)
(* Histories are concatenated with Reset lines carrying the regime.        *)
(***************************************************************************)
EXTENDS LimStore, Json, IOUtils

TraceLog == ndJsonDeserialize(IOEnv.TRACE_FILE)

VARIABLE l
tvars == <<vars, l>>

TraceInit == Init /\ l = 1
Line == TraceLog[l]
IsEv(e) == l <= Len(TraceLog) /\ Line.ev = e /\ l' = l + 1

TGet ==
  /\ IsEv("get")
  /\ Get(Line.k)
  /\ last'.hit = Line.hit /\ last'.id = Line.id /\ last'.victim = Line.victim /\ last'.vk = Line.vk
  \* the table as an observer sees it after the call
  /\ \A k \in Keys : store'[k] = Line.store[ToString(k)]
  /\ nfill' = Line.nfill

TCleanup ==
  /\ IsEv("cleanup")
  /\ Cleanup(Line.k)
  /\ \A k \in Keys : store'[k] = Line.store[ToString(k)]
  /\ nfill' = Line.nfill

TReset ==
  /\ IsEv("Reset")
  /\ store' = [k \in Keys |-> 0] /\ seen' = [k \in Keys |-> 0]
  /\ nfill' = Fill /\ nextId' = 1 /\ clock' = 1 /\ nops' = 0 /\ last' = NoOp

TraceNext == TReset \/ TGet \/ TCleanup
TraceSpec == TraceInit /\ [][TraceNext]_tvars
TraceAccepted == TLCGet("stats").diameter > Len(TraceLog)
=============================================================================
