CONSTANTS
  MaxProcs = 8
  NKeys = 3
SPECIFICATION TraceSpec
CONSTRAINT HighWater
POSTCONDITION TraceAccepted
CHECK_DEADLOCK FALSE
