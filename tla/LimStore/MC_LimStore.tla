---------------------------- MODULE MC_LimStore ----------------------------
EXTENDS LimStore

\* call sequences without Cleanup (the sampled regime needs the fillers to stay)
NextGets == \E k \in Keys : Get(k)
SpecGets == Init /\ [][NextGets]_vars
=============================================================================
