--------------------------- MODULE Trace_LimConc ---------------------------
(***************************************************************************)
(* Property monitor for histories of the real LimiterStore with several    *)
(* clients inside Get at once (harness/c16/limconc_test.go), in the manner *)
(* of SegCache/Trace_LinMap.tla.                                           *)
(*                                                                         *)
(* The state is the abstract map `m` (key -> limiter identity, 0 = absent) *)
(* plus the anonymous fillers and the call each goroutine has in flight.   *)
(* Get(k) is get-or-create and takes effect atomically in one Lin step     *)
(* between its invocation line and its response line:                      *)
(*   k mapped    -> the call returns the limiter the store maps to k       *)
(*   k unmapped  -> the call returns a limiter nobody was handed before    *)
(*                  and the store maps k to it; below the bound nothing    *)
(*                  leaves the store, at the bound exactly one other entry *)
(*                  does (which one is the store's business: the statement *)
(*                  does not say)                                          *)
(* (a key yields the value most recently stored under it unless evicted;   *)
(* an insert never evicts the key it is writing; eviction never loses a    *)
(* second key; occupancy stays within the bound - the store's writers are  *)
(* serialised, so the statement's allowance for concurrent writers is not  *)
(* needed).  The limiter a call returns is known when the history is       *)
(* written, so the invocation line already carries it (`rid`).             *)
(*                                                                         *)
(* A `cleanup` line (no call in flight) may drop any entries; it carries   *)
(* the table observed right after.  A `q` line (no call in flight) must    *)
(* agree with the map on every model key and on the length.                *)
(*                                                                         *)
(* A history TLC cannot consume to the end admits no placement: a          *)
(* violation of C16 on the real code.  Rounds are concatenated with reset  *)
(* lines; the high-water mark of `l` is kept in TLC register 1 (run with   *)
(* -workers 1).                                                            *)
(***************************************************************************)
EXTENDS Integers, Sequences, FiniteSets, TLC, Json, IOUtils

CONSTANTS MaxProcs, NKeys

TraceLog == ndJsonDeserialize(IOEnv.TRACE_FILE)

Procs == 1..MaxProcs
Keys  == 1..NKeys      \* model key i of the harness is i - 1

VARIABLES l, m, nf, max, used, pend
tvars == <<l, m, nf, max, used, pend>>

Idle == [op |-> "none", k |-> 0, rid |-> 0, done |-> FALSE]

TraceInit ==
  /\ l = 1
  /\ m = [k \in Keys |-> 0] /\ nf = 0 /\ max = 0 /\ used = {}
  /\ pend = [p \in Procs |-> Idle]
  /\ TLCSet(1, 0)

Line == TraceLog[l]
IsEv(e) == l <= Len(TraceLog) /\ Line.t = e /\ l' = l + 1

Present == {k \in Keys : m[k] # 0}
Size    == nf + Cardinality(Present)

TReset ==
  /\ IsEv("reset")
  /\ m' = [k \in Keys |-> 0] /\ nf' = Line.fill /\ max' = Line.max /\ used' = {}
  /\ pend' = [p \in Procs |-> Idle]

TInv ==
  /\ IsEv("inv")
  /\ pend[Line.p].op = "none"
  /\ pend' = [pend EXCEPT ![Line.p] = [op |-> "get", k |-> Line.k, rid |-> Line.rid, done |-> FALSE]]
  /\ UNCHANGED <<m, nf, max, used>>

Lin(p) ==
  /\ l <= Len(TraceLog)
  /\ pend[p].op = "get" /\ ~pend[p].done
  /\ LET k == pend[p].k
         rid == pend[p].rid
     IN IF m[k] # 0
          THEN /\ rid = m[k]
               /\ UNCHANGED <<m, nf, used>>
          ELSE /\ rid \notin used
               /\ used' = used \cup {rid}
               /\ IF Size < max
                    THEN m' = [m EXCEPT ![k] = rid] /\ nf' = nf
                    ELSE \/ /\ nf > 0 /\ nf' = nf - 1
                            /\ m' = [m EXCEPT ![k] = rid]
                         \/ \E v \in Present :
                              /\ m' = [[m EXCEPT ![v] = 0] EXCEPT ![k] = rid]
                              /\ nf' = nf
  /\ pend' = [pend EXCEPT ![p].done = TRUE]
  /\ UNCHANGED <<l, max>>

TRes ==
  /\ IsEv("res")
  /\ pend[Line.p].op = "get" /\ pend[Line.p].done
  /\ pend' = [pend EXCEPT ![Line.p] = Idle]
  /\ UNCHANGED <<m, nf, max, used>>

\* Cleanup(olderThan) between batches: entries may go, none may come or change
TCleanup ==
  /\ IsEv("cleanup")
  /\ \A p \in Procs : pend[p].op = "none"
  /\ \A k \in Keys : Line.store[k] = 0 \/ Line.store[k] = m[k]
  /\ m' = [k \in Keys |-> Line.store[k]]
  /\ nf' = Line.nfill /\ Line.nfill <= nf
  /\ UNCHANGED <<max, used, pend>>

TQuiescent ==
  /\ IsEv("q")
  /\ \A p \in Procs : pend[p].op = "none"
  /\ \A k \in Keys : m[k] = Line.store[k]
  /\ Line.len = Size
  /\ Line.len <= max
  /\ UNCHANGED <<m, nf, max, used, pend>>

TraceNext ==
  \/ TReset \/ TInv \/ TRes \/ TCleanup \/ TQuiescent
  \/ \E p \in Procs : Lin(p)

TraceSpec == TraceInit /\ [][TraceNext]_tvars

HighWater == TLCSet(1, IF l > TLCGet(1) THEN l ELSE TLCGet(1))
TraceAccepted ==
  /\ PrintT(<<"limconc-high-water", TLCGet(1), Len(TraceLog)>>)
  /\ TLCGet(1) > Len(TraceLog)
=============================================================================
