SPECIFICATION FullSpec
CONSTANTS
  Keys = {0, 1, 2}
  Clients = {1, 2, 3}
  Fill = 2
  Room = 2
  Sampled = TRUE
  EvictAfterInsert = FALSE
  Recheck = TRUE
  MaxOps = 6
INVARIANTS CTypeOK Bounded NoAlias
PROPERTIES GetOrCreate JustWrittenStays HitIsCurrent EvictsOnlyAtBound OthersSurvive
CHECK_DEADLOCK FALSE
