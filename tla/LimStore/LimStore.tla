------------------------------ MODULE LimStore ------------------------------
(***************************************************************************)
(* middleware/ratelimit/limiter_store.go: LimiterStore, the bounded table  *)
(* behind the per-client limiters (one of C16's "limiter stores").         *)
(*                                                                         *)
(*   Get(k)     one critical section: hit -> stamp lastSeen, hand out the  *)
(*              stored limiter; miss -> if len >= maxSize evictOne(), then *)
(*              create, stamp, insert, hand out the new limiter.           *)
(*   evictOne   <= 1000 entries: the least recently seen entry goes;       *)
(*              > 1000 entries: the first entry of the map iteration goes  *)
(*              (Sampled = TRUE: any entry at all).                        *)
(*   Cleanup(d) every entry not seen for d ticks goes.                     *)
(*                                                                         *)
(* To reach the sampled regime with a handful of model keys the store is   *)
(* pre-filled with Fill anonymous entries (never asked for again, stamped  *)
(* before everything else); maxSize = Fill + Room.                         *)
(*                                                                         *)
(* EvictAfterInsert is a model mutant: insert first, evict when over the   *)
(* bound - in the sampled regime the victim can be the entry just written. *)
(***************************************************************************)
EXTENDS Integers, FiniteSets, Sequences, TLC

CONSTANTS Keys,              \* model keys (the zero key is one of them on the Go side)
          Fill,              \* anonymous filler entries present at the start
          Room,              \* maxSize - Fill
          Sampled,           \* BOOLEAN: evictOne takes any entry (len > 1000 in the code)
          EvictAfterInsert,  \* BOOLEAN: model mutant
          MaxOps             \* bound on the history length

VARIABLES store,   \* Keys -> 0 (absent) or the id of the limiter mapped
          seen,    \* Keys -> tick of the last Get
          nfill,   \* fillers still present
          nextId, clock, nops,
          last     \* outcome of the last step (what the caller can see), for the replay

vars == <<store, seen, nfill, nextId, clock, nops, last>>

MaxSize == Fill + Room
Present == {k \in Keys : store[k] # 0}
Size    == nfill + Cardinality(Present)
NoOp    == [op |-> "none", k |-> 0, id |-> 0, hit |-> FALSE, victim |-> "none", vk |-> 0]

Init ==
  /\ store = [k \in Keys |-> 0] /\ seen = [k \in Keys |-> 0]
  /\ nfill = Fill /\ nextId = 1 /\ clock = 1 /\ nops = 0 /\ last = NoOp

Oldest(S) == CHOOSE k \in S : \A j \in S : seen[k] <= seen[j]

(* victims evictOne may take from entry set S (fillers are older than any model key) *)
VictimIsFill(nf)  == IF Sampled THEN nf > 0 ELSE nf > 0
VictimKeys(S, nf) == IF Sampled THEN S ELSE IF nf > 0 THEN {} ELSE IF S = {} THEN {} ELSE {Oldest(S)}

Hit(k) ==
  /\ store[k] # 0
  /\ seen' = [seen EXCEPT ![k] = clock]
  /\ last' = [NoOp EXCEPT !.op = "get", !.k = k, !.id = store[k], !.hit = TRUE]
  /\ UNCHANGED <<store, nfill, nextId>>

MissAsBuilt(k) ==
  /\ store[k] = 0
  /\ \/ /\ Size < MaxSize
        /\ store' = [store EXCEPT ![k] = nextId]
        /\ last' = [NoOp EXCEPT !.op = "get", !.k = k, !.id = nextId]
        /\ UNCHANGED nfill
     \/ /\ Size >= MaxSize /\ VictimIsFill(nfill)
        /\ nfill' = nfill - 1
        /\ store' = [store EXCEPT ![k] = nextId]
        /\ last' = [NoOp EXCEPT !.op = "get", !.k = k, !.id = nextId, !.victim = "fill"]
     \/ /\ Size >= MaxSize
        /\ \E v \in VictimKeys(Present, nfill) :
             /\ store' = [store EXCEPT ![v] = 0, ![k] = nextId]
             /\ last' = [NoOp EXCEPT !.op = "get", !.k = k, !.id = nextId, !.victim = "key", !.vk = v]
        /\ UNCHANGED nfill
  /\ seen' = [seen EXCEPT ![k] = clock]
  /\ nextId' = nextId + 1

MissMutant(k) ==
  /\ store[k] = 0
  /\ LET st1 == [store EXCEPT ![k] = nextId]
         sn1 == [seen EXCEPT ![k] = clock]
         P1  == Present \cup {k}
     IN /\ seen' = sn1
        /\ \/ /\ Size + 1 <= MaxSize
              /\ store' = st1 /\ UNCHANGED nfill
              /\ last' = [NoOp EXCEPT !.op = "get", !.k = k, !.id = nextId]
           \/ /\ Size + 1 > MaxSize /\ nfill > 0
              /\ store' = st1 /\ nfill' = nfill - 1
              /\ last' = [NoOp EXCEPT !.op = "get", !.k = k, !.id = nextId, !.victim = "fill"]
           \/ /\ Size + 1 > MaxSize
              /\ \E v \in (IF Sampled THEN P1 ELSE IF nfill > 0 THEN {} ELSE {CHOOSE x \in P1 : \A j \in P1 : sn1[x] <= sn1[j]}) :
                   /\ store' = [st1 EXCEPT ![v] = 0]
                   /\ last' = [NoOp EXCEPT !.op = "get", !.k = k, !.id = nextId, !.victim = "key", !.vk = v]
              /\ UNCHANGED nfill
  /\ nextId' = nextId + 1

Get(k) ==
  /\ nops < MaxOps
  /\ \/ Hit(k)
     \/ (IF EvictAfterInsert THEN MissMutant(k) ELSE MissAsBuilt(k))
  /\ clock' = clock + 1 /\ nops' = nops + 1

(* Cleanup(olderThan): everything not seen during the last d ticks goes; fillers are older than that *)
Cleanup(d) ==
  /\ nops < MaxOps
  /\ store' = [k \in Keys |-> IF store[k] # 0 /\ seen[k] > clock - d THEN store[k] ELSE 0]
  /\ nfill' = 0
  /\ last' = [NoOp EXCEPT !.op = "cleanup", !.k = d]
  /\ clock' = clock + 1 /\ nops' = nops + 1
  /\ UNCHANGED <<seen, nextId>>

Next == (\E k \in Keys : Get(k)) \/ (\E d \in {1, 3} : Cleanup(d))
Spec == Init /\ [][Next]_vars

----------------------------------------------------------------------------
TypeOK ==
  /\ store \in [Keys -> 0..(MaxOps + 1)] /\ seen \in [Keys -> 0..(MaxOps + 1)]
  /\ nfill \in 0..Fill /\ nextId \in 1..(MaxOps + 2) /\ clock \in 1..(MaxOps + 2) /\ nops \in 0..MaxOps

(* occupancy never exceeds the configured capacity (one writer at a time: the write lock) *)
Bounded == Size <= MaxSize

(* distinct keys never alias: a limiter id is mapped under at most one key *)
NoAlias == \A a, b \in Present : store[a] = store[b] => a = b

(* an insert never evicts the key it is writing; what Get hands out is what the store maps afterwards *)
JustWrittenStays == [][\A k \in Keys : (last'.op = "get" /\ last'.k = k /\ nops' = nops + 1) => store'[k] = last'.id]_vars

(* a key yields the value most recently stored under it unless it was evicted: a hit returns the mapped id *)
HitIsCurrent == [][(last'.op = "get" /\ last'.hit /\ nops' = nops + 1) => last'.id = store[last'.k]]_vars

(* eviction takes exactly one entry, and only at the bound *)
EvictsOnlyAtBound == [][(last'.op = "get" /\ last'.victim # "none" /\ nops' = nops + 1) => Size = MaxSize /\ Size' = MaxSize]_vars

(* removal or eviction never makes another key unreachable: besides the victim every mapping survives a Get *)
OthersSurvive == [][(last'.op = "get" /\ nops' = nops + 1) =>
                     \A j \in Keys : (store[j] # 0 /\ ~(last'.victim = "key" /\ last'.vk = j)) => store'[j] = store[j]]_vars
=============================================================================
