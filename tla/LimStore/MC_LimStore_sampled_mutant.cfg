SPECIFICATION Spec
CONSTANTS
  Keys = {0, 1, 2, 3}
  Fill = 2
  Room = 2
  Sampled = TRUE
  EvictAfterInsert = TRUE
  MaxOps = 7
INVARIANTS TypeOK Bounded NoAlias
PROPERTIES JustWrittenStays HitIsCurrent EvictsOnlyAtBound OthersSurvive
CHECK_DEADLOCK FALSE
