SPECIFICATION TraceSpec
CONSTANTS
  Keys = {0, 1, 2, 3}
  Fill = 1000
  Room = 2
  Sampled = TRUE
  EvictAfterInsert = FALSE
  MaxOps = 9
INVARIANTS Bounded NoAlias
PROPERTIES JustWrittenStays HitIsCurrent EvictsOnlyAtBound OthersSurvive
POSTCONDITION TraceAccepted
CHECK_DEADLOCK FALSE
