SPECIFICATION SpecBatched
CONSTANTS
  Keys = {0, 1, 2}
  Clients = {1, 2, 3}
  Fill = 0
  Room = 2
  Sampled = FALSE
  EvictAfterInsert = FALSE
  Recheck = TRUE
  MaxOps = 12

CHECK_DEADLOCK FALSE
