SPECIFICATION Spec
CONSTANTS
  Keys = {0, 1, 2, 3}
  Fill = 0
  Room = 2
  Sampled = FALSE
  EvictAfterInsert = FALSE
  MaxOps = 9
CHECK_DEADLOCK FALSE
