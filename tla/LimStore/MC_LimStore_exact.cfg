SPECIFICATION Spec
CONSTANTS
  Keys = {0, 1, 2, 3}
  Fill = 0
  Room = 2
  Sampled = FALSE
  EvictAfterInsert = FALSE
  MaxOps = 7
INVARIANTS TypeOK Bounded NoAlias
PROPERTIES JustWrittenStays HitIsCurrent EvictsOnlyAtBound OthersSurvive
CHECK_DEADLOCK FALSE
