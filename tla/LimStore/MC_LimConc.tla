----------------------------- MODULE MC_LimConc -----------------------------
(***************************************************************************)
(* Model-checking front end of LimConc.tla.  CSpec is the full             *)
(* interleaving model (exhaustive configs).  SpecBatched generates the     *)
(* behaviours the harness can force on the real store: it holds the        *)
(* store's write lock while the clients of a batch park in RLock; on       *)
(* release sync.RWMutex admits all of them before any can take the write   *)
(* lock, so a batch is  RLook+ ; WIns+  (the order of the WIns is the      *)
(* mutex's choice).  Outside a batch calls are sequential.                 *)
(***************************************************************************)
EXTENDS LimConc

VARIABLE ph
bvars == <<cvars, ph>>

Up == {c \in Clients : cl[c].st = "up"}

FullSpec == CInit /\ ph = "open" /\ [][CNext /\ UNCHANGED ph]_bvars

BNext ==
  \/ /\ ph = "open"
     /\ \/ \E c \in Clients, k \in Keys : RLook(c, k)
        \/ \E d \in {1, 3} : CCleanup(d)
     /\ ph' = IF Up' # {} THEN "gather" ELSE "open"
  \/ /\ ph = "gather"
     /\ \/ /\ \E c \in Clients, k \in Keys : RLook(c, k)
           /\ ph' = "gather"
        \/ /\ \E c \in Clients : WIns(c)
           /\ ph' = IF Up' = {} THEN "open" ELSE "drain"
  \/ /\ ph = "drain"
     /\ \E c \in Clients : WIns(c)
     /\ ph' = IF Up' = {} THEN "open" ELSE "drain"

\* without Cleanup (the sampled regime needs its fillers)
BNextGets ==
  \/ /\ ph = "open"
     /\ \E c \in Clients, k \in Keys : RLook(c, k)
     /\ ph' = IF Up' # {} THEN "gather" ELSE "open"
  \/ /\ ph = "gather"
     /\ \/ /\ \E c \in Clients, k \in Keys : RLook(c, k)
           /\ ph' = "gather"
        \/ /\ \E c \in Clients : WIns(c)
           /\ ph' = IF Up' = {} THEN "open" ELSE "drain"
  \/ /\ ph = "drain"
     /\ \E c \in Clients : WIns(c)
     /\ ph' = IF Up' = {} THEN "open" ELSE "drain"

SpecBatched == CInit /\ ph = "open" /\ [][BNext]_bvars
SpecBatchedGets == CInit /\ ph = "open" /\ [][BNextGets]_bvars
=============================================================================
