SPECIFICATION FullSpec
CONSTANTS
  Keys = {0, 1, 2}
  Clients = {1, 2, 3}
  Fill = 0
  Room = 2
  Sampled = FALSE
  EvictAfterInsert = FALSE
  Recheck = FALSE
  MaxOps = 6
PROPERTIES GetOrCreate
CHECK_DEADLOCK FALSE
