CONSTANTS
  N = 2
  Trip = 5
  MaxReq = 8
  MaxTicks = 0
  MaxSets = 1
  Kinds = {"patient"}
  Modes = {"fast", "garbage"}
  Counts = {"upfail"}
  Enabled = TRUE
SPECIFICATION Spec
INVARIANTS NeverLegitRefusal
CHECK_DEADLOCK FALSE
