------------------------------ MODULE ZoneBrk ------------------------------
(***************************************************************************)
(* C11 / C12 / C13, zone-failure pipeline tier, HISTORY level: what        *)
(* ZoneFail.tla leaves out.  ZoneFail.tla is one request tree against the   *)
(* N servers of a zone; here a zone lives through a HISTORY of request      *)
(* trees of several clients, and the state those trees share is in:         *)
(*                                                                         *)
(*   the per-server circuit breaker  (circuit_breaker.go; Breaker.tla has   *)
(*       its atomics, here it is its sequential meaning: Trip consecutive   *)
(*       counted failures open it, an answer closes it, the first attempt   *)
(*       after the cool-down closes it)                                     *)
(*   the RFC 9520 zone failure        (recordResolutionZoneFailure ->       *)
(*       FailureCache.RecordZone; served to every later name of the zone    *)
(*       while the back-off runs)                                           *)
(*                                                                         *)
(* and what feeds them: Resolver.queryServer's classification of how an     *)
(* upstream attempt ENDED,                                                  *)
(*                                                                         *)
(*   answer    a usable response                   -> recordSuccess         *)
(*   rcode     a failure rcode (SERVFAIL/REFUSED)  -> recordSuccess ("any    *)
(*             response proves the server is reachable")                    *)
(*   upfail    no reply / garbage / connection error-> recordFailure        *)
(*   deadline  the CLIENT's own deadline ran out while the exchange was in  *)
(*             flight (the authority is healthy, merely slower than this    *)
(*             client is patient)                  -> nothing               *)
(*   hangup    the client went away (context.Canceled from above)-> nothing *)
(*   peer      cancelled by a faster peer of the same fan-out  -> nothing   *)
(*   budget    refused by the request tree's own work ledger BEFORE         *)
(*             anything was sent (ErrRecursionWorkLimit)       -> nothing   *)
(*   refused   the breaker did not admit the attempt (canQuery = false):    *)
(*             fatalError(errConnectionFailed), nothing is sent             *)
(*                                                                         *)
(* The rule under test: ONLY UPSTREAM FAILURES COUNT.  Counts is the set of *)
(* endings that reach recordFailure; {"upfail"} is the code, every other    *)
(* value is a model mutant (negative configs).                              *)
(*                                                                         *)
(* A request is one atomic step: Request(kind, cut).  kind is what the      *)
(* client / its tree is like:                                               *)
(*   patient    waits for any healthy server                                *)
(*   impatient  its own deadline is shorter than a "late" server's delay    *)
(*   hangup     goes away while a "late" server is still silent             *)
(*   deep       its tree has spent its outbound-query budget on the way, so *)
(*              the attempt aimed at this zone's servers is refused by the  *)
(*              tree's ledger                                               *)
(* cut = the attempts the fan-out's return cancelled before they ended      *)
(* (scheduling: not forced by the binding, followed).                       *)
(* Server modes (the adversary changes them between requests, SetMode):     *)
(*   fast, late (healthy, answers after the impatient clients are gone but  *)
(*   well inside the upstream attempt timeout), garbage (unusable datagram  *)
(*   on every attempt: a genuine upstream failure), servfail.               *)
(* Tick = 32 s pass: past the breaker's 30 s cool-down, inside the zone     *)
(* failure's back-off (the binding configures failure_cache_min_ttl 120 s). *)
(*                                                                         *)
(* Deliberate abstractions: N <= 2 so the whole delegation is started at    *)
(* once (parallelStart = 2; the order of the list plays no part); the       *)
(* exploration probe is left out (a probe of a late server runs detached    *)
(* and ends in an answer); exchange's retries are inside one ending.        *)
(***************************************************************************)
EXTENDS Integers, FiniteSets, TLC

CONSTANTS
  N,        \* servers of the zone (1 or 2)
  Trip,     \* consecutive counted failures that open a breaker (5 in the code)
  MaxReq,   \* request trees per history
  MaxTicks, \* 32 s jumps per history
  MaxSets,  \* SetMode steps per history
  Kinds,    \* request kinds in play
  Modes,    \* server modes in play
  Counts,   \* endings that reach recordFailure: {"upfail"} = the code
  Enabled   \* rfc9520

Servers   == 1..N
AllKinds  == {"patient", "impatient", "hangup", "deep"}
AllModes  == {"fast", "late", "garbage", "servfail"}
Endings   == {"answer", "rcode", "upfail", "deadline", "hangup", "peer", "budget", "refused", "none"}
LocalEnds == {"deadline", "hangup", "peer", "budget"}   \* say nothing about the authority
ASSUME Kinds \subseteq AllKinds /\ Modes \subseteq AllModes /\ Counts \subseteq Endings /\ N \in {1, 2}

VARIABLES
  mode,            \* [Servers -> Modes]
  cnt, open, aged, \* the breaker as built (Counts): streak, disabled, "the last failure is > 30 s old"
  ucnt, uopen,     \* ghost: the reference breaker (only upstream failures count); shares `aged`
  zfail,           \* a zone failure is cached (back-off running)
  zlegal,          \* ghost: it was published by a tree in which every server failed
  nreq, nticks, nsets,
  last             \* ghost: the last request

vars == <<mode, cnt, open, aged, ucnt, uopen, zfail, zlegal, nreq, nticks, nsets, last>>

NoReq == [kind |-> "-", end |-> [s \in Servers |-> "none"], verdict |-> "-", legit |-> [s \in Servers |-> TRUE],
          allFailed |-> TRUE, touched |-> FALSE, readmit |-> FALSE]

(* the modes a history starts from: any (a definition so that a config can narrow it: InitModes <- FastThenLate) *)
InitModes == [Servers -> Modes]
FastThenLate == {[s \in Servers |-> IF s = 1 THEN "fast" ELSE "late"]}   \* the fan-out in which a faster peer always wins

Init ==
  /\ mode \in InitModes
  /\ cnt = [s \in Servers |-> 0] /\ open = [s \in Servers |-> FALSE] /\ aged = [s \in Servers |-> FALSE]
  /\ ucnt = cnt /\ uopen = open
  /\ zfail = FALSE /\ zlegal = FALSE
  /\ nreq = 0 /\ nticks = 0 /\ nsets = 0
  /\ last = NoReq

(* canQuery: closed, or open and past the cool-down (which closes it and forgets the streak) *)
Admit(s) == ~open[s] \/ aged[s]

(* how the attempt on s ends when nobody cuts it short *)
Own(s, kind) ==
  IF ~Admit(s) THEN "refused"
  ELSE IF kind = "deep" THEN "budget"
  ELSE CASE mode[s] = "fast" -> "answer"
         [] mode[s] = "late" -> (CASE kind = "patient" -> "answer" [] kind = "impatient" -> "deadline" [] OTHER -> "hangup")
         [] mode[s] = "garbage" -> "upfail"
         [] OTHER -> "rcode"

(* the attempts the fan-out's return may cancel: somebody else ended the lookup (an answer, or the
   ledger's refusal, which is terminal at the first result), and a server still silent when the
   winner answered is always cancelled *)
CutOK(kind, cut) ==
  /\ \A s \in cut : Admit(s)
  /\ \A s \in cut : \E w \in Servers \ cut :
        \/ Own(w, kind) = "budget"
        \/ Own(w, kind) = "answer" /\ ~(mode[s] = "fast" /\ mode[w] = "late")   \* a late answer never beats a fast one
  /\ \A s \in Servers : (Own(s, kind) \in {"deadline", "hangup"} /\ \E w \in Servers \ {s} : Own(w, kind) = "answer") => s \in cut

End(s, kind, cut) == IF s \in cut THEN "peer" ELSE Own(s, kind)

Verdict(e) ==
  IF \E s \in Servers : e[s] = "answer" THEN "answer"
  ELSE IF \E s \in Servers : e[s] \in {"budget", "deadline", "hangup"} THEN "local"   \* a private SERVFAIL
  ELSE "failed"                                                                        \* "All authoritative servers failed" / a failure rcode

(* one breaker record after the attempt: c = streak, o = open *)
After(c, o, ag, ending, counted) ==
  LET c0 == IF o /\ ag THEN 0 ELSE c          \* canQuery after the cool-down: disabled := false, count := 0
      o0 == IF o /\ ag THEN FALSE ELSE o
  IN IF ending = "refused" THEN <<c, o, ag>>
     ELSE IF ending \in counted THEN <<(IF c0 + 1 > Trip THEN Trip ELSE c0 + 1), o0 \/ c0 + 1 >= Trip, FALSE>>
     ELSE IF ending \in {"answer", "rcode"} THEN <<0, FALSE, ag>>
     ELSE <<c0, o0, ag>>

Request(kind, cut) ==
  /\ nreq < MaxReq /\ kind \in Kinds /\ cut \subseteq Servers
  /\ nreq' = nreq + 1
  /\ UNCHANGED <<mode, nticks, nsets>>
  /\ IF zfail
       THEN \* FailureCache.Lookup: the closest failed zone answers, SERVFAIL + EDE 13, nothing is sent
            /\ cut = {}
            /\ last' = [NoReq EXCEPT !.kind = kind, !.verdict = "cached", !.allFailed = zlegal]
            /\ UNCHANGED <<cnt, open, aged, ucnt, uopen, zfail, zlegal>>
       ELSE
            /\ CutOK(kind, cut)
            /\ LET e   == [s \in Servers |-> End(s, kind, cut)]
                   v   == Verdict(e)
                   a   == [s \in Servers |-> After(cnt[s], open[s], aged[s], e[s], Counts)]
                   u   == [s \in Servers |-> After(ucnt[s], uopen[s], aged[s], e[s], {"upfail"})]
                   \* a refusal is legitimate when the reference breaker is open and cooling down
                   lg  == [s \in Servers |-> e[s] = "refused" => (uopen[s] /\ ~aged[s])]
                   allf == \A s \in Servers : e[s] \in {"upfail", "rcode"} \/ (e[s] = "refused" /\ lg[s])
                   \* did a request-local ending move the shared breaker? (the cool-down close is canQuery's, not the ending's)
                   tch == \E s \in Servers : e[s] \in LocalEnds /\
                              <<a[s][1], a[s][2]>> # <<(IF open[s] /\ aged[s] THEN 0 ELSE cnt[s]), (IF open[s] /\ aged[s] THEN FALSE ELSE open[s])>>
               IN /\ cnt' = [s \in Servers |-> a[s][1]] /\ open' = [s \in Servers |-> a[s][2]]
                  /\ aged' = [s \in Servers |-> a[s][3]]
                  /\ ucnt' = [s \in Servers |-> u[s][1]] /\ uopen' = [s \in Servers |-> u[s][2]]
                  /\ zfail' = (Enabled /\ v = "failed")
                  /\ zlegal' = (Enabled /\ v = "failed" /\ allf)
                  /\ last' = [kind |-> kind, end |-> e, verdict |-> v, legit |-> lg, allFailed |-> (v = "failed" => allf),
                              touched |-> tch, readmit |-> \E s \in Servers : open[s] /\ aged[s]]

SetMode(s, m) ==
  /\ nsets < MaxSets /\ nreq < MaxReq /\ m \in Modes /\ m # mode[s]
  /\ mode' = [mode EXCEPT ![s] = m]
  /\ nsets' = nsets + 1
  /\ UNCHANGED <<cnt, open, aged, ucnt, uopen, zfail, zlegal, nreq, nticks, last>>

Tick ==
  /\ nticks < MaxTicks /\ nreq < MaxReq
  /\ \E s \in Servers : (open[s] \/ uopen[s]) /\ ~aged[s]
  /\ aged' = [s \in Servers |-> TRUE]
  /\ nticks' = nticks + 1
  /\ UNCHANGED <<mode, cnt, open, ucnt, uopen, zfail, zlegal, nreq, nsets, last>>

Next ==
  \/ \E k \in Kinds, c \in SUBSET Servers : Request(k, c)
  \/ \E s \in Servers, m \in Modes : SetMode(s, m)
  \/ Tick
Spec == Init /\ [][Next]_vars

(* ------------------------------ properties ----------------------------- *)
TypeOK ==
  /\ mode \in [Servers -> Modes] /\ cnt \in [Servers -> 0..Trip] /\ ucnt \in [Servers -> 0..Trip]
  /\ open \in [Servers -> BOOLEAN] /\ uopen \in [Servers -> BOOLEAN] /\ aged \in [Servers -> BOOLEAN]
  /\ last.end \in [Servers -> Endings] /\ last.verdict \in {"-", "answer", "local", "failed", "cached"}

(* the rule itself: the breaker as built is the reference breaker *)
OnlyUpstreamCounts == cnt = ucnt /\ open = uopen

(* C11: "expired, cancelled or capacity-refused resolution surfaces as SERVFAIL to that client only;
   it neither wedges nor fails OTHER clients": a client is failed without the authority being asked
   (the breaker's refusal, or the cached zone failure) only when the zone's servers really failed *)
OthersNotFailed == last.verdict \in {"failed", "cached"} => last.allFailed
(* an attempt is refused only for a server that failed Trip times in a row and is cooling down *)
RefusedOnlyIfFailed == \A s \in Servers : last.legit[s]

(* ... and never for a server that is healthy right now unless it really failed Trip times in a row before
   (the negative config of the faster-peer ending: only cancellations can have opened that breaker) *)
HealthyNotRefused == \A s \in Servers : (last.end[s] = "refused" /\ mode[s] \in {"fast", "late"}) => last.legit[s]

(* C13: a zone failure only for a zone every one of whose servers failed to give a usable response *)
ZoneOnlyIfAllFailed == zfail => zlegal
(* C12 / C13: request-local endings (work budget, client deadline, cancellation) never become shared state *)
LocalNeverShared == ~last.touched /\ (last.verdict = "local" => ~zfail)
KillSwitch == ~Enabled => ~zfail

(* reachability twins (must be violated): the situations are not vacuous *)
NeverLegitRefusal == \A s \in Servers : last.end[s] = "refused" => ~last.legit[s]
NeverLegitZoneFailure == ~(zfail /\ zlegal)
NeverReadmitted == ~last.readmit
=============================================================================
