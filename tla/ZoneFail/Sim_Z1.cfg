CONSTANTS
  N = 1
  Scripts <- SimScripts
  Level = 2
  Enabled = TRUE
  EarlyExit = "code"
INIT SimInit
NEXT SimNext
CHECK_DEADLOCK FALSE
