CONSTANTS
  N = 1
  Trip = 5
  MaxReq = 8
  MaxTicks = 1
  MaxSets = 3
  Kinds = {"patient", "impatient", "hangup"}
  Modes = {"fast", "late", "garbage", "servfail"}
  Counts = {"upfail"}
  Enabled = TRUE
SPECIFICATION Spec
INVARIANTS TypeOK
CHECK_DEADLOCK FALSE
