CONSTANTS
  N = 2
  Scripts <- Retry
  Level = 2
  Enabled = TRUE
  EarlyExit = "code"
INIT Init
NEXT Next
INVARIANTS TypeOK OnlyWhatFailed AllAsked QuestionOnlyIfFailed Verdict Containment KillSwitch Progress ErrorPathNotZone
CHECK_DEADLOCK FALSE
