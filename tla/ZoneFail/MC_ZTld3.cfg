CONSTANTS
  N = 3
  Scripts <- Basic
  Level = 1
  Enabled = TRUE
  EarlyExit = "code"
INIT Init
NEXT Next
INVARIANTS TypeOK OnlyWhatFailed AllAsked QuestionOnlyIfFailed Verdict Containment KillSwitch Progress ErrorPathNotZone
CHECK_DEADLOCK FALSE
