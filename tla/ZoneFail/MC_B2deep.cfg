CONSTANTS
  N = 2
  Trip = 5
  MaxReq = 11
  MaxTicks = 1
  MaxSets = 3
  Kinds = {"patient", "impatient", "hangup", "deep"}
  Modes = {"fast", "late", "garbage", "servfail"}
  Counts = {"upfail"}
  Enabled = TRUE
SPECIFICATION Spec
INVARIANTS TypeOK OnlyUpstreamCounts OthersNotFailed RefusedOnlyIfFailed HealthyNotRefused ZoneOnlyIfAllFailed LocalNeverShared KillSwitch
CHECK_DEADLOCK FALSE
