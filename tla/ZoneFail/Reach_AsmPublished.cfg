SPECIFICATION Spec
INVARIANTS NeverPublished
CHECK_DEADLOCK FALSE
