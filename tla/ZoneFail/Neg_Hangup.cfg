CONSTANTS
  N = 1
  Trip = 5
  MaxReq = 7
  MaxTicks = 0
  MaxSets = 0
  Kinds = {"hangup", "patient"}
  Modes = {"late"}
  Counts = {"upfail", "hangup"}
  Enabled = TRUE
SPECIFICATION Spec
INVARIANTS OthersNotFailed
CHECK_DEADLOCK FALSE
