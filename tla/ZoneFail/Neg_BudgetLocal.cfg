CONSTANTS
  N = 1
  Trip = 5
  MaxReq = 3
  MaxTicks = 0
  MaxSets = 0
  Kinds = {"deep"}
  Modes = {"fast"}
  Counts = {"upfail", "budget"}
  Enabled = TRUE
SPECIFICATION Spec
INVARIANTS LocalNeverShared
CHECK_DEADLOCK FALSE
