SPECIFICATION Spec
CONSTANTS
  LoopCutPublishes <- AsBuilt
INVARIANTS TypeOK OnlyWhatFailed
CHECK_DEADLOCK FALSE
