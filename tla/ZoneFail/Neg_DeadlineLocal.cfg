CONSTANTS
  N = 1
  Trip = 5
  MaxReq = 3
  MaxTicks = 0
  MaxSets = 0
  Kinds = {"impatient"}
  Modes = {"late"}
  Counts = {"upfail", "deadline"}
  Enabled = TRUE
SPECIFICATION Spec
INVARIANTS LocalNeverShared
CHECK_DEADLOCK FALSE
