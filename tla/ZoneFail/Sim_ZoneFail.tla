---------------------------- MODULE Sim_ZoneFail ----------------------------
(* -simulate form of ZoneFail: the Init set (Scripts^N) is far too large to enumerate for the big
   script sets, so the vector is drawn server by server in the first N steps of a behaviour; after
   that the behaviour is one of ZoneFail's. *)
EXTENDS MC_ZoneFail

VARIABLE cs   \* servers whose script has been drawn

rest == <<idx, st, att, rt, ed, out, good, nerr, nfatal, hasNX, hasConf, pc, ret, zoneRec, qRec, fkind, fhit>>

SimInit == (\E pr \in Probes : InitWith([s \in Servers |-> <<"fast">>], pr)) /\ cs = 0
Draw == /\ cs < N
        /\ \E sc \in Scripts : script' = [script EXCEPT ![cs + 1] = sc]
        /\ cs' = cs + 1
        /\ UNCHANGED <<rest, probe>>
SimNext == Draw \/ (cs = N /\ Next /\ UNCHANGED cs)
=============================================================================
