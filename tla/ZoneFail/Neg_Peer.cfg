CONSTANTS
  N = 2
  Trip = 5
  MaxReq = 7
  MaxTicks = 0
  MaxSets = 0
  Kinds = {"patient"}
  Modes = {"fast", "late", "garbage"}
  Counts = {"upfail", "peer"}
  Enabled = TRUE
  InitModes <- FastThenLate
SPECIFICATION Spec
INVARIANTS HealthyNotRefused
CHECK_DEADLOCK FALSE
