SPECIFICATION Spec
INVARIANTS TypeOK OnlyWhatFailed NothingLeft Complete
CHECK_DEADLOCK FALSE
