CONSTANTS
  N = 3
  Scripts <- Corner
  Level = 2
  Enabled = TRUE
  EarlyExit = "code"
INIT Init
NEXT NextNone
INVARIANTS TypeOK
CHECK_DEADLOCK FALSE
