------------------------------ MODULE ZoneAsm ------------------------------
(***************************************************************************)
(* C13, zone-failure tier, the dimension ZoneFail.tla / ZoneBrk.tla leave  *)
(* out: how a delegation's SERVER LIST is assembled inside one request     *)
(* tree, and what an EMPTY list publishes.  middleware/resolver:            *)
(*                                                                         *)
(*   processDelegation   referral -> checkGlueRR -> lookupV4Nss -> if the   *)
(*                       list is empty: recordResolutionZoneFailure(zone)   *)
(*   lookupV4Nss         per NS host without glue: checkLoop (the tree's    *)
(*                       own list of NS-host look-ups in flight; a name     *)
(*                       already there TWICE is skipped), else              *)
(*                       lookupNSAddrV4 = a nested resolution of the host   *)
(*   clearResolutionZoneFailure   a useful answer from a zone's server      *)
(*                                                                         *)
(* Every server is HEALTHY here (it answers whatever it is asked): the only *)
(* way to an empty list is the shape of the glue-less dependencies.  A host *)
(* is named by the zone it lives in ("ns.<y>" = y), "glue" is a host whose  *)
(* address rides in the referral.  The walk of one tree is deterministic,   *)
(* so it is a recursive operator; `ever` is the ghost "published at some    *)
(* moment of the walk" (an outer lap may clear the entry again, concurrent  *)
(* clients are refused in between).                                         *)
(*                                                                         *)
(* Statement: a zone failure applies only to a zone every one of whose      *)
(* servers failed to give a usable response; failures local to one request  *)
(* never become shared state.  With healthy servers, a zone a FRESH request  *)
(* can reach must therefore never be published: OnlyWhatFailed.             *)
(* LoopCutPublishes is the as-built switch (resolver.go before the repair:  *)
(* the loop-guard skip that empties the list publishes like any other).     *)
(***************************************************************************)
EXTENDS Integers, FiniteSets, Sequences, TLC

ZoneOrder == <<"a", "b", "d">>      \* the zones, in the alphabetical order of their names (sortHosts)

Zones == {ZoneOrder[k] : k \in 1..Len(ZoneOrder)}
(* "glue": a host whose address rides in the referral (checkGlueRR puts it on the list before any look-up, and
   lookupV4Nss files the non-empty list provisionally in the delegation cache before every nested look-up);
   "alt": a glue-less host in some other, independently reachable zone ("ns2.c.test."): its look-up always
   succeeds, but it is a look-up and it comes LAST (sortHosts: own zone first, then by name). *)
Hosts == Zones \cup {"glue", "alt"}
Topos == [Zones -> (SUBSET Hosts) \ {{}}]
Full(z) == <<z>> \o SelectSeq(ZoneOrder, LAMBDA x : x # z) \o <<"alt">>
LookupOrder(z, S) == SelectSeq(Full(z), LAMBDA h : h \in S)

LoopCutPublishes == FALSE      \* a definition: Neg_AsmLoop.cfg overrides it with AsBuilt
TaintPropagates  == TRUE       \* Neg_AsmCutOnly.cfg: only the level the guard cut at is held request-local
AsBuilt == TRUE
CutOnly == FALSE

VARIABLES topo, start, phase, rec, ever, ok
vars == <<topo, start, phase, rec, ever, ok>>

Count(seq, h) == Cardinality({i \in 1..Len(seq) : seq[i] = h})

(* Asm(t, z, pend, i, found, taint, r, e, dc): lookupV4Nss(z) from the i-th looked-up host on, inside a tree
   whose NS-host look-ups in flight are pend (<<>> = the client's own walk); found = the list is non-empty,
   taint = a host was skipped by the loop guard, or its nested look-up ended in such a cut; r = the zone
   failures held now, e = ever held, dc = the zones in the delegation cache (provisional entries included).
   Result: ok, loop (the failure is rooted in a loop cut), rec, ever, dc.
   An empty list is request-local when it is tainted AND the walk is a nested one: the enclosing laps of
   the same tree may still reach the zone.  At the root of the tree nothing is in flight, the walk is
   deterministic and a fresh request would repeat it. *)
RECURSIVE Asm(_, _, _, _, _, _, _, _, _)
Visit(t, z, pend, r, e, dc) ==
  IF z \in dc THEN [ok |-> TRUE, loop |-> FALSE, rec |-> r \ {z}, ever |-> e, dc |-> dc]   \* resolveWithCachedNameservers
  ELSE Asm(t, z, pend, 1, "glue" \in t[z], FALSE, r, e, dc)
Asm(t, z, pend, i, found, taint, r, e, dc) ==
  LET L == LookupOrder(z, t[z]) IN
  IF i > Len(L)
    THEN IF found
           THEN [ok |-> TRUE, loop |-> FALSE, rec |-> r \ {z}, ever |-> e, dc |-> dc \cup {z}]   \* z's server is asked and answers: cleared
           ELSE IF taint /\ pend # <<>> /\ ~LoopCutPublishes
                  THEN [ok |-> FALSE, loop |-> TRUE, rec |-> r, ever |-> e, dc |-> dc]       \* request-local: nothing published
                  ELSE [ok |-> FALSE, loop |-> FALSE, rec |-> r \cup {z}, ever |-> e \cup {z}, dc |-> dc]
    ELSE LET h == L[i] IN
         IF h = "alt" THEN Asm(t, z, pend, i + 1, TRUE, taint, r, e, IF found THEN dc \cup {z} ELSE dc)
         ELSE IF Count(pend, h) > 1 THEN Asm(t, z, pend, i + 1, found, TRUE, r, e, dc)   \* checkLoop: loopCount > 1
         ELSE IF h \in r THEN Asm(t, z, pend, i + 1, found, taint, r, e, dc)              \* the held zone failure answers the nested look-up
         ELSE LET sub == Visit(t, h, Append(pend, h), r, e, IF found THEN dc \cup {z} ELSE dc) IN
              Asm(t, z, pend, i + 1, found \/ sub.ok, taint \/ (TaintPropagates /\ ~sub.ok /\ sub.loop), sub.rec, sub.ever, sub.dc)

RECURSIVE Reach(_, _)
Reach(t, R) == LET R2 == R \cup {z \in Zones : "glue" \in t[z] \/ "alt" \in t[z] \/ t[z] \cap R # {}}
               IN IF R2 = R THEN R ELSE Reach(t, R2)
Reachable(t) == Reach(t, {})

Init == /\ topo \in Topos /\ start \in Zones /\ phase = "ask" /\ rec = {} /\ ever = {} /\ ok = FALSE

(* one cold client request for a name of zone `start` *)
Run == /\ phase = "ask"
       /\ LET w == Visit(topo, start, <<>>, {}, {}, {}) IN
          /\ rec' = w.rec /\ ever' = w.ever /\ ok' = w.ok
       /\ phase' = "done"
       /\ UNCHANGED <<topo, start>>

Next == Run \/ (phase = "done" /\ UNCHANGED vars)
Spec == Init /\ [][Next]_vars

TypeOK == ok \in BOOLEAN /\ phase \in {"ask", "done"} /\ rec \subseteq Zones /\ ever \subseteq Zones /\ rec \subseteq ever

(* a zone a fresh request reaches (all servers healthy) is never published, not even for a moment *)
OnlyWhatFailed == ever \cap Reachable(topo) = {}
(* what is left after the tree is no better *)
NothingLeft == rec \cap Reachable(topo) = {}

(* the loop guard's two laps lose nothing: a cold request for a reachable zone succeeds (so an empty list at
   the ROOT of a tree does mean "unreachable", and publishing it there is legitimate) *)
Complete == phase = "done" /\ start \in Reachable(topo) => ok

(* reachability twins: an unreachable (cyclic) zone IS published - the rule is not vacuous *)
NeverPublished == ever = {}
=============================================================================
