CONSTANTS
  N = 3
  Scripts <- Basic
  Level = 2
  Enabled = FALSE
  EarlyExit = "code"
INIT Init
NEXT Next
INVARIANTS TypeOK OnlyWhatFailed AllAsked QuestionOnlyIfFailed Verdict Containment KillSwitch Progress ErrorPathNotZone
CHECK_DEADLOCK FALSE
