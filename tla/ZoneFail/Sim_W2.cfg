CONSTANTS
  N = 2
  Trip = 5
  MaxReq = 8
  MaxTicks = 1
  MaxSets = 3
  Kinds = {"patient", "deep", "impatient"}
  Modes = {"fast", "late", "garbage", "servfail"}
  Counts = {"upfail"}
  Enabled = TRUE
SPECIFICATION Spec
INVARIANTS TypeOK
CHECK_DEADLOCK FALSE
