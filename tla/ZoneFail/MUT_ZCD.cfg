CONSTANTS
  N = 2
  Scripts <- BadRefs
  Level = 2
  Enabled = TRUE
  EarlyExit = "code"
  QKeyCD <- QKeyForced
INIT Init
NEXT Next
INVARIANTS Containment
CHECK_DEADLOCK FALSE
