CONSTANTS
  N = 4
  Scripts <- Corner
  Level = 2
  Enabled = TRUE
  EarlyExit = "anyThird"
INIT Init
NEXT Next
INVARIANTS OnlyWhatFailed
CHECK_DEADLOCK FALSE
