SPECIFICATION Spec
CONSTANTS
  TaintPropagates <- CutOnly
INVARIANTS TypeOK OnlyWhatFailed
CHECK_DEADLOCK FALSE
