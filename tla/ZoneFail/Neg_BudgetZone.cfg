CONSTANTS
  N = 2
  Trip = 5
  MaxReq = 7
  MaxTicks = 0
  MaxSets = 0
  Kinds = {"deep", "patient"}
  Modes = {"fast", "late"}
  Counts = {"upfail", "budget"}
  Enabled = TRUE
SPECIFICATION Spec
INVARIANTS ZoneOnlyIfAllFailed
CHECK_DEADLOCK FALSE
