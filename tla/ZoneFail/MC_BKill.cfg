CONSTANTS
  N = 2
  Trip = 3
  MaxReq = 5
  MaxTicks = 1
  MaxSets = 1
  Kinds = {"patient", "impatient", "hangup", "deep"}
  Modes = {"fast", "late", "garbage", "servfail"}
  Counts = {"upfail"}
  Enabled = FALSE
SPECIFICATION Spec
INVARIANTS TypeOK OnlyUpstreamCounts OthersNotFailed RefusedOnlyIfFailed HealthyNotRefused ZoneOnlyIfAllFailed LocalNeverShared KillSwitch
CHECK_DEADLOCK FALSE
