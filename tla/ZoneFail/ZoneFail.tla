------------------------------ MODULE ZoneFail ------------------------------
(***************************************************************************)
(* C13, zone-failure pipeline tier: how sdns comes to publish an RFC 9520  *)
(* ZONE failure.  middleware/resolver/resolver.go:                          *)
(*                                                                         *)
(*   Resolver.lookup     the fan-out over the servers of one delegation    *)
(*                       (two started at once, the next one on a fallback  *)
(*                       timer or as soon as one fails, early exits)       *)
(*   Resolver.exchange   one server: UDP, UDP again, then TCP on a network *)
(*                       error; once more without EDNS on FORMERR          *)
(*   pickFallbackResponse / Resolver.resolve / handleLookupError           *)
(*                       what the fan-out's verdict does: a failure-rcode   *)
(*                       reply without records, or "every server failed on *)
(*                       the network", publishes the zone                   *)
(*                       (recordResolutionZoneFailure)                      *)
(*                                                                         *)
(* A zone has N servers, asked in list order 1..N (authority.Sort).  Each  *)
(* server plays a SCRIPT: its behaviour on the 1st, 2nd, ... attempt made  *)
(* on it during this request tree (the last element repeats).  Scripts are  *)
(* chosen in Init, so TLC enumerates every server-behaviour vector.         *)
(*                                                                         *)
(* Deliberate deviations (all named):                                      *)
(*  - time is abstract: the fallback timer may fire whenever the loop      *)
(*    waits, results arrive in any order.  "fast" and "slow" answers are    *)
(*    the same step here; the conformance binding makes them differ.        *)
(*  - the circuit breaker and request-local exits (work budget, attempt    *)
(*    guard, cancellation) are left out HERE: every server is reachable     *)
(*    policy-wise within one tree.  They are the subject of ZoneBrk.tla     *)
(*    (this directory): a HISTORY of request trees against one zone, the    *)
(*    breaker and the zone failure as the state the trees share.            *)
(*    The exploration probe is in: authority.Sort may spend the second      *)
(*    slot on a probe, and a probe is one attempt (no retry, no EDNS-less   *)
(*    second try).                                                          *)
(*  - the bogus-referral branch is in: "badref" = a NOERROR referral that   *)
(*    does not progress (configErrors); when nothing better came back the   *)
(*    resolution ends in an ERROR (errParentDetection), not in a reply: the *)
(*    client sees SERVFAIL, a QUESTION failure is recorded, no zone failure.*)
(*    That error path is where the handler rebuilds the reply from the      *)
(*    request it had modified for the upstream walk (CD forced to 1 with    *)
(*    DNSSEC off), so the follow-up "otherCD" asks the same question under  *)
(*    the other CD value: a question failure applies to exactly the CD      *)
(*    value that failed (QKeyCD = "client"; "forced" is the mutant).        *)
(*  - an attempt is one atomic step (ask + what came back).                 *)
(***************************************************************************)
EXTENDS Integers, FiniteSets, Sequences, TLC

CONSTANTS
  N,         \* servers of the zone
  Scripts,   \* the per-server scripts in play (set of non-empty sequences of behaviours)
  Level,     \* dns.CountLabel(zone): "we trust name errors if return from root servers"
  Enabled,   \* rfc9520
  EarlyExit  \* "code": the early exit as written; "anyThird": mutant (A), parentheses lost

Behaviours == {"fast", "slow", "nxdomain", "servfail", "refused", "formerr", "drop", "garbage", "badref"}
Useful(b)  == b \in {"fast", "slow", "nxdomain"}      \* a usable response: the server did its job
NetFail(b) == b \in {"drop", "garbage"}               \* no reply / unusable datagram / connection error
ASSUME \A sc \in Scripts : Len(sc) >= 1 /\ \A i \in 1..Len(sc) : sc[i] \in Behaviours
ASSUME EarlyExit \in {"code", "anyThird"}

(* which CD value the client-visible SERVFAIL of an ERROR-path resolution is filed under: the client's
   (handler.go restores the request's CD bit before it builds the reply) or the one forced for the
   upstream walk with DNSSEC off (the restore skipped when there is no response to restore it on).
   A definition, not a constant: the negative config overrides it (QKeyCD <- QKeyForced). *)
QKeyCD == "client"

Servers == 1..N

VARIABLES
  script,  \* [Servers -> Scripts]           chosen in Init, never changes
  probe,   \* 0 | 2: the second slot is an ordinary hedge / an exploration probe (isProbe)
  idx,     \* 0..N      the last server started (mainloop index + 1)
  st,      \* [Servers -> {"idle","run","ready","taken"}]
  att,     \* [Servers -> 0..4]  attempts made on the server
  rt,      \* [Servers -> 0..2]  exchange's `retried`
  ed,      \* [Servers -> BOOLEAN] the next attempt carries EDNS
  out,     \* [Servers -> {"-","ok","nx","rcode","conf","neterr"}] what queryServer hands to the loop
  good,    \* [Servers -> BOOLEAN] ghost: some attempt on the server got a usable response
  nerr,    \* len(responseErrors)
  nfatal,  \* len(fatalErrors) > 0
  hasNX,   \* an NXDOMAIN sits in responseErrors
  hasConf, \* len(configErrors) > 0: a non-progressing referral came back
  pc,      \* "launch" | "wait" | "ret" | "done"
  ret,     \* "-" | "answer" | "nxdomain" | "rcodefail" | "badref" | "netfail"
  zoneRec, \* the zone failure is published
  qRec,    \* the question failure is published (the client saw SERVFAIL)
  fkind, fhit  \* follow-up question asked after the request, and whether the failure cache served it

vars == <<script, probe, idx, st, att, rt, ed, out, good, nerr, nfatal, hasNX, hasConf, pc, ret, zoneRec, qRec, fkind, fhit>>

BehAt(s, i) == LET sc == script[s] IN sc[IF i <= Len(sc) THEN i ELSE Len(sc)]
Taken  == {s \in Servers : st[s] = "taken"}
Left   == N - Cardinality(Taken)
Failed == {"rcodefail", "netfail"}      \* every server failed: the zone is published
ErrorPath == {"badref"}                   \* the resolution ends in an error that says nothing zone-wide

InitWith(sc, pr) ==
  /\ script = sc /\ probe = pr
  /\ idx = 0
  /\ st = [s \in Servers |-> "idle"]
  /\ att = [s \in Servers |-> 0]
  /\ rt = [s \in Servers |-> 0]
  /\ ed = [s \in Servers |-> TRUE]
  /\ out = [s \in Servers |-> "-"]
  /\ good = [s \in Servers |-> FALSE]
  /\ nerr = 0 /\ nfatal = FALSE /\ hasNX = FALSE /\ hasConf = FALSE
  /\ pc = "launch" /\ ret = "-"
  /\ zoneRec = FALSE /\ qRec = FALSE
  /\ fkind = "-" /\ fhit = FALSE
Probes == IF N >= 2 THEN {0, 2} ELSE {0}
Init == \E sc \in [Servers -> Scripts], pr \in Probes : InitWith(sc, pr)

loopv == <<idx, nerr, nfatal, hasNX, hasConf, pc, ret>>
srvv  == <<att, rt, ed, out, good>>
tail  == <<zoneRec, qRec, fkind, fhit>>

(* mainloop body: acquire a slot, `go r.queryServer(...)`; the first server does not wait
   (parallelStart = 2: "Start queries to top 2 servers immediately") *)
Launch ==
  /\ pc = "launch" /\ idx < N
  /\ idx' = idx + 1
  /\ st' = [st EXCEPT ![idx + 1] = "run"]
  /\ pc' = IF idx + 1 = 1 /\ N >= 2 THEN "launch" ELSE "wait"
  /\ UNCHANGED <<script, probe, nerr, nfatal, hasNX, hasConf, ret, srvv, tail>>

(* Resolver.exchange, one attempt on server s *)
Attempt(s) ==
  /\ st[s] = "run" /\ pc \in {"launch", "wait"}
  /\ LET b == BehAt(s, att[s] + 1) IN
     /\ att' = [att EXCEPT ![s] = @ + 1]
     /\ good' = [good EXCEPT ![s] = @ \/ Useful(b)]
     /\ CASE b \in {"fast", "slow"} ->
               /\ out' = [out EXCEPT ![s] = "ok"] /\ st' = [st EXCEPT ![s] = "ready"] /\ UNCHANGED <<rt, ed>>
          [] b = "nxdomain" ->
               /\ out' = [out EXCEPT ![s] = "nx"] /\ st' = [st EXCEPT ![s] = "ready"] /\ UNCHANGED <<rt, ed>>
          [] b \in {"servfail", "refused"} ->
               /\ out' = [out EXCEPT ![s] = "rcode"] /\ st' = [st EXCEPT ![s] = "ready"] /\ UNCHANGED <<rt, ed>>
          [] b = "badref" ->    \* NOERROR, no answer, an NS set that is not strictly below the zone on the way to the name
               /\ out' = [out EXCEPT ![s] = "conf"] /\ st' = [st EXCEPT ![s] = "ready"] /\ UNCHANGED <<rt, ed>>
          [] b = "formerr" ->
               IF ed[s] /\ s # probe   \* "try again without edns tags": the attempt is replaced, `retried` untouched
                 THEN ed' = [ed EXCEPT ![s] = FALSE] /\ UNCHANGED <<out, st, rt>>
                 ELSE /\ out' = [out EXCEPT ![s] = "rcode"] /\ st' = [st EXCEPT ![s] = "ready"] /\ UNCHANGED <<rt, ed>>
          [] NetFail(b) ->
               IF rt[s] < 2 /\ s # probe   \* retry: udp, udp, then tcp ("retried < 2 && !isProbe(ctx)")
                 THEN rt' = [rt EXCEPT ![s] = @ + 1] /\ UNCHANGED <<out, st, ed>>
                 ELSE /\ out' = [out EXCEPT ![s] = "neterr"] /\ st' = [st EXCEPT ![s] = "ready"] /\ UNCHANGED <<rt, ed>>
  /\ UNCHANGED <<script, probe, loopv, tail>>

(* fallbackTimer fires: "continue mainloop" unless this was the last server *)
Timer ==
  /\ pc = "wait" /\ idx < N
  /\ pc' = "launch"
  /\ UNCHANGED <<script, probe, idx, st, nerr, nfatal, hasNX, hasConf, ret, srvv, tail>>

(* pickFallbackResponse: NXDOMAIN first, then any negative response, then the bogus-delegation list (which
   processDelegation turns into errParentDetection), then the connection error *)
Fallback(nx, ne, cf) == IF nx THEN "nxdomain" ELSE IF ne > 0 THEN "rcodefail" ELSE IF cf THEN "badref" ELSE "netfail"

(* "we don't need to look all nameservers for that response" *)
Exit(ne, o) ==
  IF EarlyExit = "code" THEN (ne > 2 \/ Level < 2) /\ o = "nx"
  ELSE ne > 2 \/ (Level < 2 /\ o = "nx")

(* `case res := <-results` *)
Receive(s) ==
  /\ pc = "wait" /\ st[s] = "ready"
  /\ st' = [st EXCEPT ![s] = "taken"]
  /\ LET left == Left - 1
         o    == out[s]
         ne   == IF o \in {"rcode", "nx"} THEN nerr + 1 ELSE nerr
         nx   == hasNX \/ o = "nx"
         nf   == nfatal \/ o = "neterr"
         cf   == hasConf \/ o = "conf"
     IN /\ nerr' = ne /\ hasNX' = nx /\ nfatal' = nf /\ hasConf' = cf
        /\ IF o = "ok" THEN pc' = "ret" /\ ret' = "answer"
           ELSE IF o \in {"rcode", "nx"} /\ Exit(ne, o) THEN pc' = "ret" /\ ret' = Fallback(nx, ne, cf) \* break mainloop
           ELSE IF idx = N /\ left > 0 THEN pc' = "wait" /\ ret' = ret                                \* continue fallbackloop
           ELSE IF idx = N THEN pc' = "ret" /\ ret' = Fallback(nx, ne, cf)                            \* loop over
           ELSE pc' = "launch" /\ ret' = ret                                                          \* continue mainloop
  /\ UNCHANGED <<script, probe, idx, srvv, tail>>

(* Resolver.resolve (failure rcode, no records, not minimized) / handleLookupError (fatal):
   recordResolutionZoneFailure; the cache records the client-visible SERVFAIL for the question
   (also when the resolution ended in an error that publishes nothing for the zone) *)
Publish ==
  /\ pc = "ret"
  /\ pc' = "done"
  /\ zoneRec' = (Enabled /\ ret \in Failed)
  /\ qRec' = (Enabled /\ ret \in Failed \cup ErrorPath)
  /\ UNCHANGED <<script, probe, idx, st, nerr, nfatal, hasNX, hasConf, ret, srvv, fkind, fhit>>

(* follow-up questions while the back-off runs: FailureCache.Lookup = exact question (name, type,
   class, CD, audience), else the closest failed zone at or above the name (a zone failure is not
   partitioned by CD).  The request under test carries CD = 0; "otherCD" is the same question with
   CD = 1.  On the reply path the failure is filed under the client's CD; on the error path under
   QKeyCD. *)
FollowKinds == {"same", "sibling", "otherType", "otherZone", "otherCD"}
QFiledUnderClientCD == ret \in Failed \/ QKeyCD = "client"
Follow(k) ==
  /\ pc = "done" /\ fkind = "-"
  /\ fkind' = k
  /\ fhit' = CASE k = "same" -> (qRec /\ QFiledUnderClientCD) \/ zoneRec
               [] k = "otherCD" -> (qRec /\ ~QFiledUnderClientCD) \/ zoneRec
               [] k \in {"sibling", "otherType"} -> zoneRec
               [] OTHER -> FALSE
  /\ UNCHANGED <<script, probe, idx, st, loopv, srvv, zoneRec, qRec>>

Next ==
  \/ Launch \/ Timer \/ Publish
  \/ \E s \in Servers : Attempt(s) \/ Receive(s)
  \/ \E k \in FollowKinds : Follow(k)

Spec == Init /\ [][Next]_vars

(* ------------------------------ properties ----------------------------- *)
TypeOK ==
  /\ idx \in 0..N /\ nerr \in 0..N
  /\ st \in [Servers -> {"idle", "run", "ready", "taken"}]
  /\ att \in [Servers -> 0..4] /\ rt \in [Servers -> 0..2] /\ probe \in {0, 2}
  /\ (probe # 0 => att[probe] <= 1)
  /\ out \in [Servers -> {"-", "ok", "nx", "rcode", "conf", "neterr"}]
  /\ pc \in {"launch", "wait", "ret", "done"}
  /\ ret \in {"-", "answer", "nxdomain"} \cup Failed \cup ErrorPath

(* ground truth, as the scripted servers' own logs give it: a server is healthy for this request
   if an attempt made on it got a usable response, or if it was never asked / is being asked and
   would answer usefully *)
Healthy(s) == good[s] \/ (st[s] \in {"idle", "run"} /\ Useful(BehAt(s, att[s] + 1)))

(* a zone failure is published only when every one of the zone's servers failed to give a
   usable response on every attempt of the request tree *)
OnlyWhatFailed == zoneRec => \A s \in Servers : ~Healthy(s)
(* implementation-shaped and stronger: every server was asked and its verdict was read *)
AllAsked == zoneRec => \A s \in Servers : st[s] = "taken" /\ out[s] \in {"rcode", "conf", "neterr"}
QuestionOnlyIfFailed == qRec => ret \in Failed \cup ErrorPath
(* a bogus referral alone never publishes the zone *)
ErrorPathNotZone == ret \in ErrorPath => ~zoneRec

(* what one server's script comes to under exchange's retry rules *)
RECURSIVE Final(_, _, _, _, _)
Final(sc, i, r, e, once) ==
  LET b == sc[IF i <= Len(sc) THEN i ELSE Len(sc)] IN
  IF Useful(b) THEN "useful"
  ELSE IF b \in {"servfail", "refused", "badref"} \/ once THEN "failed"
  ELSE IF b = "formerr" THEN (IF e THEN Final(sc, i + 1, r, FALSE, once) ELSE "failed")
  ELSE IF r < 2 THEN Final(sc, i + 1, r + 1, e, once) ELSE "failed"
AnyUseful == \E s \in Servers : Final(script[s], 1, 0, TRUE, s = probe) = "useful"
(* the fan-out finds a usable response whenever one is to be had *)
Verdict == pc \in {"ret", "done"} => (ret \in {"answer", "nxdomain"} <=> AnyUseful)

(* follow-ups: a cached failure answers only what failed *)
Containment ==
  fhit => CASE fkind = "same" -> ret \in Failed \cup ErrorPath
            [] fkind \in {"sibling", "otherType"} -> \A s \in Servers : ~Healthy(s)
            \* the other CD value never failed: only a zone failure may answer it
            [] fkind = "otherCD" -> ret \in Failed /\ \A s \in Servers : ~Healthy(s)
            [] OTHER -> FALSE
KillSwitch == ~Enabled => (~zoneRec /\ ~qRec /\ ~fhit)

(* the fan-out never waits with nothing in flight and never runs past the list *)
Progress ==
  /\ (pc = "wait" => (idx < N \/ \E s \in Servers : st[s] \in {"run", "ready"}))
  /\ (pc = "launch" => idx < N)
=============================================================================
