---------------------------- MODULE MC_ZoneFail ----------------------------
EXTENDS ZoneFail

(* one behaviour on every attempt: the whole behaviour alphabet per server *)
Basic  == {<<b>> : b \in Behaviours}
(* one representative per behaviour class of THIS model ("slow" = "fast", "refused" = "servfail",
   "garbage" = "drop" step for step; they differ only in the conformance binding) *)
Classes == {<<"fast">>, <<"nxdomain">>, <<"servfail">>, <<"formerr">>, <<"drop">>, <<"badref">>}
(* behaviour varies per attempt: network failures / FORMERR before the terminal behaviour *)
Retry2 == {<<a, b>> : a \in {"drop", "garbage", "formerr"}, b \in {"fast", "servfail", "nxdomain", "badref"}}
Retry3 == {<<a, b, c>> : a \in {"drop"}, b \in {"garbage", "formerr"}, c \in {"slow", "refused", "drop"}}
Retry  == {<<"fast">>, <<"servfail">>, <<"drop">>} \cup Retry2 \cup Retry3
            \cup {<<"formerr", "drop", "drop", "fast">>, <<"drop", "drop", "formerr", "formerr">>}
(* "k failing fast, one healthy slow" and its neighbourhood *)
Corner == {<<"servfail">>, <<"refused">>, <<"slow">>}

(* enumeration of the Init set only (the vectors handed to the conformance binding) *)
SimScripts == Basic \cup Retry
NextNone == FALSE /\ UNCHANGED vars
(* the error-path reply filed under the CD value forced for the upstream walk (negative config MUT_ZCD) *)
QKeyForced == "forced"
BadRefs == {<<"badref">>, <<"drop">>, <<"servfail">>, <<"fast">>}
=============================================================================
