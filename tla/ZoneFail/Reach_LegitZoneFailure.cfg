CONSTANTS
  N = 1
  Trip = 5
  MaxReq = 3
  MaxTicks = 0
  MaxSets = 1
  Kinds = {"patient", "impatient"}
  Modes = {"fast", "garbage"}
  Counts = {"upfail"}
  Enabled = TRUE
SPECIFICATION Spec
INVARIANTS NeverLegitZoneFailure
CHECK_DEADLOCK FALSE
