CONSTANTS
  Clients = {1, 2, 3, 4}
  Raw <- Raw4
  Questions = {"q1", "q2"}
  Min = 1
  Max = 2
  Gens = {1, 2, 3, 4, 5, 6, 7, 8}
  Outcomes = {"answer", "fail", "local"}
  Gated = TRUE
  LookupNorm = TRUE
  RecordNorm = TRUE
  RetryNorm = TRUE
  WakeOwn = TRUE
  RecordLocal = FALSE
INIT Init
NEXT Next
INVARIANTS TypeOK GenRoom
CHECK_DEADLOCK FALSE
