CONSTANTS
  Clients = {1, 2, 3, 4, 5, 6}
  Raw <- Raw6
  Questions = {"q1"}
  Min = 1
  Max = 2
  Gens = {1, 2, 3, 4, 5, 6, 7, 8, 9}
  Outcomes = {"answer", "fail", "local"}
  Gated = TRUE
  LookupNorm = TRUE
  RecordNorm = TRUE
  RetryNorm = TRUE
  WakeOwn = TRUE
  RecordLocal = FALSE
INIT Init
NEXT Next
INVARIANTS TypeOK GenRoom
CHECK_DEADLOCK FALSE
