--------------------------- MODULE Monitor_FailEcs ---------------------------
(***************************************************************************)
(* Property monitor over a recorded history of the real cache.Cache driven  *)
(* by clients of several ECS audiences (harness/x13fe, both the replay of   *)
(* FailEcs.tla schedules and the free-running concurrent stage).  No        *)
(* implementation model: one state per line, and the predicates of the C13  *)
(* statement are evaluated on what the code did, against what the scripted  *)
(* upstream tail was told to do (the only thing that "really failed").      *)
(*                                                                         *)
(* Lines (every field always present; "-" / 0 / [] when not applicable):    *)
(*   reset  n=Min clk=Max      a fresh cache                                *)
(*   arr    c q a raw          a client request is about to enter ServeDNS  *)
(*   up     c                  its upstream resolution started (tail entry) *)
(*   endB   c o fc             the tail is about to hand back o (answer /   *)
(*                             fail / local); fc = projected failure cache  *)
(*   endE   c o fc             the write-back returned (endings are         *)
(*                             serialised by the tail: no other ending      *)
(*                             lies between an endB and its endE)           *)
(*   rep    c k up             the request returned: answer / hit (SERVFAIL *)
(*                             + EDE 13) / shed / servfail / none           *)
(*   tick   n                  n model seconds pass (nothing is deciding)   *)
(*   drop   q a                an answer-cache entry ran out                *)
(*   settle parked             every request is idle, at the tail, or --    *)
(*                             per the runtime's goroutine dump -- parked   *)
(*                             in the follower select of ServeDNS           *)
(* clk is the virtual clock (model seconds) when the line was written.      *)
(*                                                                         *)
(* What "really failed": per key (q, audience; /0 IS the shared audience:   *)
(* the driver writes a = G for a /0 client) the monitor keeps the interval  *)
(* [lo, hi] that must contain the retry-after instant of the current        *)
(* failure generation, using only the statement: a backoff is at least Min, *)
(* at most Min * 2^(consecutive failures - 1), at most Max.  now < lo: the  *)
(* failure is surely active; now >= hi: surely expired history; a useful    *)
(* answer deletes it.  Nothing is concluded in between.                     *)
(*                                                                         *)
(* Predicates (an INVARIANT failing = false on a real execution):           *)
(*  NoUpstreamInBackoff  an upstream resolution started for a client whose  *)
(*        whole decision lies inside a sure backoff of its own key: it      *)
(*        arrived after the failure was written, or it was parked behind    *)
(*        the very leader whose failure was just written                    *)
(*  ServedInBackoff      ... such a client is answered hit (or answer)      *)
(*  NoLeak               a hit was served though nothing failed for that    *)
(*        key recently enough (another audience's failure, a request-local  *)
(*        ending, a question that did not fail)                             *)
(*  SingleProbe          two upstream resolutions of one key in flight,     *)
(*        both decided entirely while the key was surely expired history    *)
(*  LocalNeverShared     a request-local ending changed the failure cache   *)
(*  OnlyOwnKey           a failure / answer changed an entry of another key *)
(*  SuccessResets        after a useful answer the key still has an entry   *)
(***************************************************************************)
EXTENDS Integers, FiniteSets, Sequences, TLC, Json, IOUtils

TraceLog == ndJsonDeserialize(IOEnv.TRACE_FILE)

VARIABLES
  l,        \* next line
  min, max, \* of the current run
  now,      \* clock of the last line
  cl,       \* open requests: function client id -> record
  ent,      \* key -> [lo, hi, n] (n = 0: surely no entry)
  ending,   \* the ending in progress: [c, key, o, fc] or NoEnding
  tickAt,   \* clock value -> line at which the clock reached it
  viol      \* names of the predicates found false

mvars == <<l, min, max, now, cl, ent, ending, tickAt, viol>>

Line == TraceLog[l]
KeyOf(q, a) == q \o "|" \o a
NoEnt == [lo |-> 0, hi |-> 0, n |-> 0]
NoEnding == [c |-> 0, key |-> "-", o |-> "-", fc |-> {}]
EntOf(k) == IF k \in DOMAIN ent THEN ent[k] ELSE NoEnt
Rows(f) == {<<f[i][1], f[i][2]>> : i \in DOMAIN f}

Pow2(n) == IF n <= 0 THEN 1 ELSE IF n = 1 THEN 2 ELSE IF n = 2 THEN 4 ELSE IF n = 3 THEN 8 ELSE IF n = 4 THEN 16 ELSE 1024
Bound(n) == IF min * Pow2(n - 1) > max THEN max ELSE min * Pow2(n - 1)

Busy(k) == ending.key = k /\ ending.o \in {"fail", "answer"}
SureActive(k, t) == ~Busy(k) /\ EntOf(k).n > 0 /\ t < EntOf(k).lo
SureExpired(k, t) == ~Busy(k) /\ EntOf(k).n > 0 /\ t >= EntOf(k).hi
ExpSince(k) == IF EntOf(k).hi \in DOMAIN tickAt THEN tickAt[EntOf(k).hi] ELSE 0
PossActive(k, t) == (EntOf(k).n > 0 /\ t <= EntOf(k).hi) \/ (ending.key = k /\ ending.o = "fail")

MInit ==
  /\ l = 1 /\ min = 1 /\ max = 1 /\ now = 0
  /\ cl = <<>> /\ ent = <<>> /\ ending = NoEnding /\ tickAt = (0 :> 0) /\ viol = {}

Open(c) == c \in DOMAIN cl
Put(f, k, v) == [x \in DOMAIN f \cup {k} |-> IF x = k THEN v ELSE f[x]]
Del(f, k) == [x \in DOMAIN f \ {k} |-> f[x]]

\* a failure written at clock t
Failed(e, t) ==
  IF e.n = 0 THEN [lo |-> t + min, hi |-> t + min, n |-> 1]
  ELSE IF t < e.lo THEN e
  ELSE IF t >= e.hi THEN [lo |-> t + min, hi |-> t + Bound(e.n + 1), n |-> e.n + 1]
  ELSE [lo |-> e.lo, hi |-> IF t + Bound(e.n + 1) > e.hi THEN t + Bound(e.n + 1) ELSE e.hi, n |-> e.n + 1]

MNext ==
  /\ l <= Len(TraceLog)
  /\ l' = l + 1
  /\ now' = IF Line.ev = "reset" THEN 0 ELSE Line.clk
  /\ CASE Line.ev = "reset" ->
            /\ min' = Line.n /\ max' = Line.clk
            /\ cl' = <<>> /\ ent' = <<>> /\ ending' = NoEnding /\ tickAt' = (0 :> l)
            /\ UNCHANGED viol
       [] Line.ev = "arr" ->
            LET k == KeyOf(Line.q, Line.a) IN
            /\ cl' = Put(cl, Line.c, [key |-> k, q |-> Line.q, a |-> Line.a, arr |-> l, lb |-> l, up |-> FALSE,
                                      must |-> SureActive(k, Line.clk), fol |-> 0, probe |-> FALSE, ended |-> FALSE])
            /\ viol' = viol \cup (IF Open(Line.c) THEN {"Protocol"} ELSE {})
            /\ UNCHANGED <<min, max, ent, ending, tickAt>>
       [] Line.ev = "up" ->
            IF ~Open(Line.c) THEN viol' = viol \cup {"Protocol"} /\ UNCHANGED <<min, max, cl, ent, ending, tickAt>>
            ELSE
            LET r == cl[Line.c]
                pb == SureExpired(r.key, Line.clk) /\ ExpSince(r.key) > 0 /\ ExpSince(r.key) <= r.lb
                other == {x \in DOMAIN cl : x # Line.c /\ cl[x].up /\ cl[x].probe /\ cl[x].key = r.key}
            IN
            /\ viol' = viol \cup (IF r.must THEN {"NoUpstreamInBackoff"} ELSE {})
                            \cup (IF pb /\ other # {} THEN {"SingleProbe"} ELSE {})
            /\ cl' = Put(cl, Line.c, [r EXCEPT !.up = TRUE, !.probe = pb, !.must = FALSE, !.fol = 0])
            /\ UNCHANGED <<min, max, ent, ending, tickAt>>
       [] Line.ev = "endB" ->
            IF ~Open(Line.c) \/ ending # NoEnding THEN viol' = viol \cup {"Protocol"} /\ UNCHANGED <<min, max, cl, ent, ending, tickAt>>
            ELSE
            LET r == cl[Line.c] IN
            /\ ending' = [c |-> Line.c, key |-> r.key, o |-> Line.o, fc |-> Rows(Line.fc)]
            \* a useful answer is on its way into the cache: nobody is bound to the failure any more
            /\ cl' = IF Line.o = "answer"
                     THEN [x \in DOMAIN cl |-> IF cl[x].key = r.key \/ (r.a = "G" /\ cl[x].q = r.q)
                                                THEN [cl[x] EXCEPT !.must = FALSE] ELSE cl[x]]
                     ELSE cl
            /\ UNCHANGED <<min, max, ent, tickAt, viol>>
       [] Line.ev = "endE" ->
            IF ~Open(Line.c) \/ ending.c # Line.c THEN viol' = viol \cup {"Protocol"} /\ ending' = NoEnding /\ UNCHANGED <<min, max, cl, ent, tickAt>>
            ELSE
            LET r == cl[Line.c]
                k == r.key
                B == ending.fc
                E == Rows(Line.fc)
                diff == (B \ E) \cup (E \ B)
                foreign == {e \in diff : e[1] # k}
                released == {x \in DOMAIN cl : cl[x].fol = Line.c /\ ~cl[x].up}
            IN
            /\ viol' = viol
                 \cup (IF Line.o = "local" /\ diff # {} THEN {"LocalNeverShared"} ELSE {})
                 \cup (IF Line.o # "local" /\ foreign # {} THEN {"OnlyOwnKey"} ELSE {})
                 \cup (IF Line.o = "answer" /\ (\E e \in E : e[1] = k) THEN {"SuccessResets"} ELSE {})
            /\ ent' = IF Line.o = "fail" THEN Put(ent, k, Failed(EntOf(k), Line.clk))
                      ELSE IF Line.o = "answer" THEN Put(ent, k, NoEnt)
                      ELSE ent
            /\ cl' = [x \in DOMAIN cl |->
                        IF x = Line.c THEN [r EXCEPT !.up = FALSE, !.ended = TRUE, !.probe = FALSE]
                        ELSE IF x \in released
                          THEN [cl[x] EXCEPT !.fol = 0, !.lb = l,
                                             !.must = (Line.o = "fail" /\ Line.clk < Failed(EntOf(k), Line.clk).lo)]
                        ELSE cl[x]]
            /\ ending' = NoEnding
            /\ UNCHANGED <<min, max, tickAt>>
       [] Line.ev = "rep" ->
            IF ~Open(Line.c) THEN viol' = viol \cup {"Protocol"} /\ UNCHANGED <<min, max, cl, ent, ending, tickAt>>
            ELSE
            LET r == cl[Line.c] IN
            /\ viol' = viol
                 \cup (IF Line.k = "hit" /\ ~PossActive(r.key, Line.clk) THEN {"NoLeak"} ELSE {})
                 \cup (IF r.must /\ Line.k \notin {"hit", "answer"} THEN {"ServedInBackoff"} ELSE {})
                 \cup (IF r.up THEN {"Protocol"} ELSE {})
            /\ cl' = Del(cl, Line.c)
            /\ UNCHANGED <<min, max, ent, ending, tickAt>>
       [] Line.ev = "tick" ->
            /\ tickAt' = [v \in DOMAIN tickAt \cup ((now + 1)..Line.clk) |-> IF v \in DOMAIN tickAt THEN tickAt[v] ELSE l]
            /\ cl' = [x \in DOMAIN cl |-> [cl[x] EXCEPT !.must = FALSE]]
            /\ UNCHANGED <<min, max, ent, ending, viol>>
       [] Line.ev = "settle" ->
            LET P == {Line.parked[i] : i \in DOMAIN Line.parked}
                Ups(k) == {y \in DOMAIN cl : cl[y].up /\ cl[y].key = k}
            IN
            /\ cl' = [x \in DOMAIN cl |->
                        IF x \in P /\ ~cl[x].up /\ cl[x].fol = 0 /\ Cardinality(Ups(cl[x].key)) = 1
                        THEN [cl[x] EXCEPT !.fol = CHOOSE y \in Ups(cl[x].key) : TRUE]
                        ELSE cl[x]]
            /\ viol' = viol \cup (IF \E x \in DOMAIN cl : ~cl[x].up /\ x \notin P THEN {"Protocol"} ELSE {})
                            \cup (IF \E x \in P : x \notin DOMAIN cl THEN {"Protocol"} ELSE {})
            /\ UNCHANGED <<min, max, ent, ending, tickAt>>
       [] OTHER -> UNCHANGED <<min, max, cl, ent, ending, tickAt, viol>>

MonitorSpec == MInit /\ [][MNext]_mvars

NoUpstreamInBackoff == "NoUpstreamInBackoff" \notin viol
ServedInBackoff == "ServedInBackoff" \notin viol
NoLeak == "NoLeak" \notin viol
SingleProbe == "SingleProbe" \notin viol
LocalNeverShared == "LocalNeverShared" \notin viol
OnlyOwnKey == "OnlyOwnKey" \notin viol
SuccessResets == "SuccessResets" \notin viol
WellFormed == "Protocol" \notin viol

\* self-test (MonitorTamper.cfg): on the hand-tampered histories every predicate must have been flagged
AllProps == {"NoUpstreamInBackoff", "ServedInBackoff", "NoLeak", "SingleProbe", "LocalNeverShared", "OnlyOwnKey", "SuccessResets"}
NotAllFlagged == ~(AllProps \subseteq viol) \/ "Protocol" \in viol

Consumed == TLCGet("stats").diameter - 1 = Len(TraceLog)
=============================================================================
