CONSTANTS
  Clients = {1, 2, 3}
  Raw <- Raw3
  Questions = {"q1"}
  Min = 1
  Max = 2
  Gens = {1, 2, 3, 4, 5, 6}
  Outcomes = {"answer", "fail", "local"}
  Gated = TRUE
  LookupNorm = FALSE
  RecordNorm = TRUE
  RetryNorm = TRUE
  WakeOwn = TRUE
  RecordLocal = FALSE
INIT Init
NEXT Next
INVARIANTS NoUpstreamInBackoff

CHECK_DEADLOCK FALSE
