----------------------------- MODULE MC_FailEcs -----------------------------
EXTENDS FailEcs
\* who the clients are, per configuration
Raw3  == (1 :> "plain" @@ 2 :> "zero" @@ 3 :> "A")
Raw3a == (1 :> "plain" @@ 2 :> "A" @@ 3 :> "A")
Raw3z == (1 :> "plain" @@ 2 :> "zero" @@ 3 :> "zero")
Raw2  == (1 :> "zero" @@ 2 :> "A")
Raw4  == (1 :> "plain" @@ 2 :> "zero" @@ 3 :> "A" @@ 4 :> "A")
Raw4g == (1 :> "plain" @@ 2 :> "zero" @@ 3 :> "zero" @@ 4 :> "plain")
Raw5  == (1 :> "plain" @@ 2 :> "zero" @@ 3 :> "zero" @@ 4 :> "A" @@ 5 :> "A")
Raw6  == (1 :> "plain" @@ 2 :> "plain" @@ 3 :> "zero" @@ 4 :> "zero" @@ 5 :> "A" @@ 6 :> "B")
=============================================================================
