SPECIFICATION MonitorSpec
INVARIANTS NoUpstreamInBackoff ServedInBackoff NoLeak SingleProbe LocalNeverShared OnlyOwnKey SuccessResets WellFormed
POSTCONDITION Consumed
CHECK_DEADLOCK FALSE
