SPECIFICATION MonitorSpec
INVARIANTS NotAllFlagged
CHECK_DEADLOCK FALSE
