------------------------------- MODULE FailEcs -------------------------------
(***************************************************************************)
(* The RFC 9520 failure cache of sdns seen by concurrent clients of         *)
(* different ECS audiences (serves C13).                                    *)
(*                                                                         *)
(*   middleware/cache/cache.go          Cache.ServeDNS: first-arrival       *)
(*       failure lookup, FailureRetryKey -> probe key, the dedup leader /   *)
(*       follower loop (JoinGeneration / Regroup / DoneGeneration), the     *)
(*       follower re-check after wake-up, the regroup limit (shed)          *)
(*   middleware/cache/failure_cache.go  Lookup / RecordQuestion / RetryKey  *)
(*       / ResetQuestion and normalizeFailureQuestionKey (a /0 ECS scope =  *)
(*       the RFC 7871 opt-out = the shared audience)                        *)
(*   internal/waitgroup                 generations, previous.next          *)
(*                                                                         *)
(* One action per thing a driver can force or the code does on its own:    *)
(*   Arrive(c, q)        a client request enters ServeDNS and runs up to    *)
(*                       its first blocking point (answered, served from    *)
(*                       the failure cache, parked behind a leader, or at   *)
(*                       the upstream resolution as the leader)             *)
(*   LeaderEnds(c, o)    the upstream resolution of c ends: "answer",       *)
(*                       "fail" (a shareable SERVFAIL), "local" (a request- *)
(*                       local ending: cancellation, deadline, shed load);  *)
(*                       the write-back records / resets, the deferred      *)
(*                       DoneGeneration releases the followers              *)
(*   FollowerWakes(c)    a released follower re-checks UNDER ITS OWN        *)
(*                       AUDIENCE and is answered, served the cached        *)
(*                       failure, goes upstream on its own (ordinary miss), *)
(*                       regroups under the probe key (once) or is shed     *)
(*   Tick                one second passes                                  *)
(*   DropAnswer(q, a)    the answer-cache entry of (q, a) runs out          *)
(*                                                                         *)
(* Audiences.  A client is "plain" (no ECS), "zero" (ECS with source prefix *)
(* length 0), "A" or "B" (two disjoint /24).  Norm folds plain and zero    *)
(* into the shared audience "G".  The storage of the failure cache has a    *)
(* fourth slot "Z" = "a /0 scope hashed as a real scope": it is only ever   *)
(* touched when one of the normalisation switches is off (a mutant).        *)
(*                                                                         *)
(* Switches (all TRUE / FALSE as commented = the code as built):            *)
(*   LookupNorm  TRUE   FailureCache.Lookup normalises the scope            *)
(*   RecordNorm  TRUE   FailureCache.RecordQuestion normalises the scope    *)
(*   RetryNorm   TRUE   FailureCache.RetryKey normalises the scope          *)
(*   WakeOwn     TRUE   the follower re-check uses the client's own scope   *)
(*   RecordLocal FALSE  a request-local ending is written to the cache      *)
(*   Gated       TRUE = only the schedules a gated driver can force: the    *)
(*               followers released by LeaderEnds all take their wake-up    *)
(*               step before anything else happens.  FALSE = every          *)
(*               interleaving (arrivals and endings between two wake-ups).  *)
(*                                                                         *)
(* Deliberate deviations: time is relative (rel = retryAfter - now, floored *)
(* at -Max: the code only asks now < retryAfter and now - retryAfter >=     *)
(* max); the streak saturates at SCap; zone-kind failures, the 15 s         *)
(* generation timeout, client cancellation while parked, hash collisions    *)
(* and capacity eviction are not modelled (FailureCache.tla / ZoneFail.tla  *)
(* / Flight.tla cover them); an "A"/"B" answer is cached under the          *)
(* client's own scope (the scripted upstream returns SCOPE = SOURCE), a     *)
(* plain / zero answer under the shared key.                                *)
(*                                                                         *)
(* `tr` is the oracle: what really failed, kept with the as-specified       *)
(* rules whatever the switches say; `dec`/`upPh` note, for the step just    *)
(* taken, what a client was told and what `tr` said at that moment.  The    *)
(* properties are stated over those.                                        *)
(***************************************************************************)
EXTENDS Integers, FiniteSets, TLC

CONSTANTS
  Clients,     \* client ids (integers)
  Raw,         \* [Clients -> {"plain","zero","A","B"}]
  Questions,   \* question ids (strings)
  Min, Max,    \* backoff bounds (seconds)
  Gens,        \* generation ids 1..n (enough of them: GenRoom)
  Outcomes,    \* subset of {"answer","fail","local"}
  Gated, LookupNorm, RecordNorm, RetryNorm, WakeOwn, RecordLocal

VARIABLES
  fc,      \* [Questions \X StoreAud -> Ent]   the failure cache as the code keeps it
  tr,      \* [Questions \X Aud -> Ent]        oracle: what failed, as specified
  ans,     \* SUBSET (Questions \X Aud)        answer cache
  pc,      \* [Clients -> {"done","wait","woken","up"}]
  cq,      \* [Clients -> Questions]           the question of the current request
  gen,     \* [Clients -> Gens \cup {0}]       generation it leads / waits on
  ld,      \* [Clients -> BOOLEAN]             registered leader of gen[c]
  pr,      \* [Clients -> BOOLEAN]             failureProbe
  rg,      \* [Clients -> 0..1]                failureProbeRegroups
  gens,    \* [Gens -> [key, done, next]]
  groups,  \* [DedupKeys -> Gens \cup {0}]     WaitGroup.groups
  upPh,    \* [Clients -> phase]               oracle phase of the client's own key when it went upstream
  dec      \* [Clients -> [k, ph]]             decision taken in the LAST step (reset every step)

vars == <<fc, tr, ans, pc, cq, gen, ld, pr, rg, gens, groups, upPh, dec>>

Aud      == {"G", "A", "B"}
StoreAud == {"G", "Z", "A", "B"}
Norm(r)  == IF r \in {"plain", "zero"} THEN "G" ELSE r
Un(r)    == IF r = "plain" THEN "G" ELSE IF r = "zero" THEN "Z" ELSE r
SK(r, n) == IF n THEN Norm(r) ELSE Un(r)

DedupKeys == ({"d"} \X Questions \X Aud) \cup ({"p"} \X Questions \X StoreAud)
NoKey     == <<"-", "-", "-">>
NullGen   == [key |-> NoKey, done |-> FALSE, next |-> 0]

NoEnt == [st |-> 0, rel |-> 0]
Pow2(n) == IF n <= 0 THEN 1 ELSE IF n = 1 THEN 2 ELSE IF n = 2 THEN 4 ELSE IF n = 3 THEN 8 ELSE 16
Backoff(s) == IF Min * Pow2(s - 1) > Max THEN Max ELSE Min * Pow2(s - 1)
SCap == CHOOSE s \in 1..6 : Backoff(s) = Max /\ \A t \in 1..(s - 1) : Backoff(t) < Max
Ents == {NoEnt} \cup [st : 1..SCap, rel : (0 - Max)..Max]

Phase(e) == IF e.st = 0 THEN "none" ELSE IF e.rel > 0 THEN "active" ELSE "expired"

\* FailureCache.record: first failure, idempotent while active, renewal after expiry
Rec(e) ==
  IF e.st = 0 THEN [st |-> 1, rel |-> Min]
  ELSE IF e.rel > 0 THEN e
  ELSE LET s == IF 0 - e.rel >= Max THEN 1 ELSE IF e.st < SCap THEN e.st + 1 ELSE SCap
       IN [st |-> s, rel |-> Backoff(s)]

Age(e) == IF e.st = 0 THEN e ELSE [e EXCEPT !.rel = IF @ - 1 < 0 - Max THEN 0 - Max ELSE @ - 1]

NoDec == [k |-> "-", ph |-> "-"]
Quiet == [c \in Clients |-> NoDec]

----------------------------------------------------------------------------
Init ==
  /\ fc = [k \in Questions \X StoreAud |-> NoEnt]
  /\ tr = [k \in Questions \X Aud |-> NoEnt]
  /\ ans = {}
  /\ pc = [c \in Clients |-> "done"]
  /\ cq = [c \in Clients |-> CHOOSE q \in Questions : TRUE]
  /\ gen = [c \in Clients |-> 0]
  /\ ld = [c \in Clients |-> FALSE]
  /\ pr = [c \in Clients |-> FALSE]
  /\ rg = [c \in Clients |-> 0]
  /\ gens = [g \in Gens |-> NullGen]
  /\ groups = [k \in DedupKeys |-> 0]
  /\ upPh = [c \in Clients |-> "-"]
  /\ dec = Quiet

\* generations nobody can reach any more are forgotten (canonical states)
Live(pcN, genN) == {genN[c] : c \in {x \in Clients : pcN[x] \in {"wait", "woken", "up"} /\ genN[x] # 0}}
Clean(gs, pcN, genN) ==
  LET live == Live(pcN, genN)
      nxt  == {gs[g].next : g \in live} \ {0}
  IN [g \in Gens |-> IF g \in live THEN gs[g]
                     ELSE IF g \in nxt THEN [gs[g] EXCEPT !.next = 0]
                     ELSE NullGen]
FreeGens == {g \in Gens : gens[g] = NullGen}
NewGen == CHOOSE g \in FreeGens : \A h \in FreeGens : g <= h

NoWoken == \A c \in Clients : pc[c] # "woken"
Calm == ~Gated \/ NoWoken

Answered(q, a) == <<q, a>> \in ans \/ <<q, "G">> \in ans
OwnKey(c) == <<cq[c], Norm(Raw[c])>>

\* ---- Arrive: Cache.ServeDNS up to the first blocking point -------------
Arrive(c, q) ==
  /\ Calm
  /\ pc[c] = "done"
  /\ LET r     == Raw[c]
         a     == Norm(r)
         ph    == Phase(tr[<<q, a>>])
         hit   == Phase(fc[<<q, SK(r, LookupNorm)>>]) = "active"
         rka   == SK(r, RetryNorm)
         retry == Phase(fc[<<q, rka>>]) = "expired"
         dk    == IF retry THEN <<"p", q, rka>> ELSE <<"d", q, a>>
     IN
     /\ cq' = [cq EXCEPT ![c] = q]
     /\ IF Answered(q, a) THEN
          /\ dec' = [Quiet EXCEPT ![c] = [k |-> "answer", ph |-> ph]]
          /\ UNCHANGED <<pc, gen, ld, pr, rg, gens, groups, upPh>>
        ELSE IF hit THEN
          /\ dec' = [Quiet EXCEPT ![c] = [k |-> "hit", ph |-> ph]]
          /\ UNCHANGED <<pc, gen, ld, pr, rg, gens, groups, upPh>>
        ELSE IF groups[dk] # 0 THEN          \* JoinGeneration: a follower
          /\ pc' = [pc EXCEPT ![c] = "wait"]
          /\ gen' = [gen EXCEPT ![c] = groups[dk]]
          /\ ld' = [ld EXCEPT ![c] = FALSE]
          /\ pr' = [pr EXCEPT ![c] = retry]
          /\ rg' = [rg EXCEPT ![c] = 0]
          /\ dec' = [Quiet EXCEPT ![c] = [k |-> "wait", ph |-> ph]]
          /\ UNCHANGED <<gens, groups, upPh>>
        ELSE                                  \* JoinGeneration: the leader
          /\ FreeGens # {}
          /\ pc' = [pc EXCEPT ![c] = "up"]
          /\ gen' = [gen EXCEPT ![c] = NewGen]
          /\ ld' = [ld EXCEPT ![c] = TRUE]
          /\ pr' = [pr EXCEPT ![c] = retry]
          /\ rg' = [rg EXCEPT ![c] = 0]
          /\ gens' = [gens EXCEPT ![NewGen] = [key |-> dk, done |-> FALSE, next |-> 0]]
          /\ groups' = [groups EXCEPT ![dk] = NewGen]
          /\ upPh' = [upPh EXCEPT ![c] = ph]
          /\ dec' = [Quiet EXCEPT ![c] = [k |-> "lead", ph |-> ph]]
  /\ UNCHANGED <<fc, tr, ans>>

\* ---- LeaderEnds: ResponseWriter.WriteMsg + deferred DoneGeneration -----
LeaderEnds(c, o) ==
  /\ Calm
  /\ pc[c] = "up"
  /\ o \in Outcomes
  /\ LET q == cq[c]
         r == Raw[c]
         a == Norm(r)
         g == gen[c]
         recorded == o = "fail" \/ (o = "local" /\ RecordLocal)
         pcN  == [x \in Clients |->
                    IF x = c THEN "done"
                    ELSE IF ld[c] /\ pc[x] = "wait" /\ gen[x] = g THEN "woken"
                    ELSE pc[x]]
         genN == [gen EXCEPT ![c] = 0]
         gs   == IF ld[c] THEN [gens EXCEPT ![g].done = TRUE] ELSE gens
     IN
     /\ tr' = IF o = "fail" THEN [tr EXCEPT ![<<q, a>>] = Rec(@)]
              ELSE IF o = "answer" THEN [tr EXCEPT ![<<q, a>>] = NoEnt]
              ELSE tr
     /\ fc' = IF recorded THEN [fc EXCEPT ![<<q, SK(r, RecordNorm)>>] = Rec(@)]
              ELSE IF o = "answer" THEN [fc EXCEPT ![<<q, a>>] = NoEnt]
              ELSE fc
     /\ ans' = IF o = "answer" THEN ans \cup {<<q, a>>} ELSE ans
     /\ pc' = pcN
     /\ gen' = genN
     /\ ld' = [ld EXCEPT ![c] = FALSE]
     /\ groups' = IF ld[c] /\ groups[gens[g].key] = g THEN [groups EXCEPT ![gens[g].key] = 0] ELSE groups
     /\ gens' = Clean(gs, pcN, genN)
     /\ upPh' = [upPh EXCEPT ![c] = "-"]
     /\ dec' = Quiet
     /\ UNCHANGED <<cq, pr, rg>>

\* ---- FollowerWakes: the re-check after generation.Done() ----------------
FollowerWakes(c) ==
  /\ pc[c] = "woken"
  /\ LET q     == cq[c]
         r     == Raw[c]
         a     == Norm(r)
         g     == gen[c]
         ph    == Phase(tr[<<q, a>>])
         lk    == IF WakeOwn THEN SK(r, LookupNorm) ELSE "G"
         hit   == Phase(fc[<<q, lk>>]) = "active"
         rka   == SK(r, RetryNorm)
         retry == Phase(fc[<<q, rka>>]) = "expired"
         rk    == <<"p", q, rka>>
         Finish(kind) ==
           LET pcN == [pc EXCEPT ![c] = "done"]
               genN == [gen EXCEPT ![c] = 0]
           IN /\ pc' = pcN /\ gen' = genN
              /\ gens' = Clean(gens, pcN, genN)
              /\ dec' = [Quiet EXCEPT ![c] = [k |-> kind, ph |-> ph]]
              /\ UNCHANGED <<ld, pr, rg, groups, upPh>>
         Follow(h, gs) ==
           LET pcN == [pc EXCEPT ![c] = IF gs[h].done THEN "woken" ELSE "wait"]
               genN == [gen EXCEPT ![c] = h]
           IN /\ pc' = pcN /\ gen' = genN
              /\ gens' = Clean(gs, pcN, genN)
              /\ pr' = [pr EXCEPT ![c] = TRUE]
              /\ rg' = [rg EXCEPT ![c] = 1]
              /\ dec' = [Quiet EXCEPT ![c] = [k |-> "wait", ph |-> ph]]
              /\ UNCHANGED <<ld, groups, upPh>>
     IN
     IF Answered(q, a) THEN Finish("answer")
     ELSE IF hit THEN Finish("hit")
     ELSE IF ~retry THEN                      \* ordinary follower that still sees a miss: upstream on its own
       LET pcN == [pc EXCEPT ![c] = "up"]
           genN == [gen EXCEPT ![c] = 0]
       IN /\ pc' = pcN /\ gen' = genN
          /\ gens' = Clean(gens, pcN, genN)
          /\ upPh' = [upPh EXCEPT ![c] = ph]
          /\ dec' = [Quiet EXCEPT ![c] = [k |-> "solo", ph |-> ph]]
          /\ UNCHANGED <<ld, pr, rg, groups>>
     ELSE IF rg[c] >= 1 THEN Finish("shed")   \* writeFailureProbeLimit
     ELSE IF gens[g].next # 0 THEN Follow(gens[g].next, gens)
     ELSE IF groups[rk] # 0 /\ groups[rk] # g THEN
       Follow(groups[rk], [gens EXCEPT ![g].next = groups[rk]])
     ELSE                                     \* Regroup: the new leader of the probe generation
       /\ FreeGens # {}
       /\ LET n == NewGen
              pcN == [pc EXCEPT ![c] = "up"]
              genN == [gen EXCEPT ![c] = n]
              gs == [gens EXCEPT ![g].next = n, ![n] = [key |-> rk, done |-> FALSE, next |-> 0]]
          IN /\ pc' = pcN /\ gen' = genN
             /\ gens' = Clean(gs, pcN, genN)
             /\ groups' = [groups EXCEPT ![rk] = n]
             /\ ld' = [ld EXCEPT ![c] = TRUE]
             /\ pr' = [pr EXCEPT ![c] = TRUE]
             /\ rg' = [rg EXCEPT ![c] = 1]
             /\ upPh' = [upPh EXCEPT ![c] = ph]
             /\ dec' = [Quiet EXCEPT ![c] = [k |-> "lead", ph |-> ph]]
  /\ UNCHANGED <<fc, tr, ans, cq>>

Tick ==
  /\ Calm
  /\ fc' = [k \in DOMAIN fc |-> Age(fc[k])]
  /\ tr' = [k \in DOMAIN tr |-> Age(tr[k])]
  /\ dec' = Quiet
  /\ UNCHANGED <<ans, pc, cq, gen, ld, pr, rg, gens, groups, upPh>>

DropAnswer(q, a) ==
  /\ Calm
  /\ <<q, a>> \in ans
  /\ ans' = ans \ {<<q, a>>}
  /\ dec' = Quiet
  /\ UNCHANGED <<fc, tr, pc, cq, gen, ld, pr, rg, gens, groups, upPh>>

Next ==
  \/ \E c \in Clients, q \in Questions : Arrive(c, q)
  \/ \E c \in Clients, o \in Outcomes : LeaderEnds(c, o)
  \/ \E c \in Clients : FollowerWakes(c)
  \/ Tick
  \/ \E q \in Questions, a \in Aud : DropAnswer(q, a)

Spec == Init /\ [][Next]_vars

----------------------------------------------------------------------------
Phases == {"none", "active", "expired"}
TypeOK ==
  /\ fc \in [Questions \X StoreAud -> Ents]
  /\ tr \in [Questions \X Aud -> Ents]
  /\ ans \subseteq Questions \X Aud
  /\ pc \in [Clients -> {"done", "wait", "woken", "up"}]
  /\ cq \in [Clients -> Questions]
  /\ gen \in [Clients -> Gens \cup {0}]
  /\ ld \in [Clients -> BOOLEAN] /\ pr \in [Clients -> BOOLEAN] /\ rg \in [Clients -> 0..1]
  /\ \A g \in Gens : gens[g].key \in DedupKeys \cup {NoKey} /\ gens[g].done \in BOOLEAN /\ gens[g].next \in Gens \cup {0}
  /\ groups \in [DedupKeys -> Gens \cup {0}]
  /\ upPh \in [Clients -> Phases \cup {"-"}]

\* enough generation ids: a leader can always be registered
GenRoom == FreeGens # {}

\* structure of the waitgroup
GroupsSound ==
  /\ \A k \in DedupKeys : groups[k] # 0 =>
        /\ gens[groups[k]].key = k /\ ~gens[groups[k]].done
        /\ \E c \in Clients : pc[c] = "up" /\ ld[c] /\ gen[c] = groups[k]
  /\ \A c \in Clients : pc[c] = "wait" => gen[c] # 0 /\ ~gens[gen[c]].done
  /\ \A c \in Clients : pc[c] = "woken" => gen[c] # 0 /\ gens[gen[c]].done
  /\ \A c \in Clients : (pc[c] = "up" /\ ld[c]) => groups[gens[gen[c]].key] = gen[c]

\* the code's table is what really failed (the /0 slot is never used)
Faithful ==
  /\ \A k \in Questions \X Aud : fc[k] = tr[k]
  /\ \A q \in Questions : fc[<<q, "Z">>] = NoEnt

(* ---- the statement ---- *)
\* during an active backoff of (q, audience) no upstream resolution starts for that audience
NoUpstreamInBackoff == \A c \in Clients : dec[c].k \in {"lead", "solo"} => dec[c].ph # "active"
\* ... and every such client is answered from the cache (SERVFAIL + EDE 13; an answer cached for it is fine too)
ServedInBackoff == \A c \in Clients : dec[c].ph = "active" => dec[c].k \in {"hit", "answer"}
\* a cached failure is served only to the audience it was recorded for, and only while it is active:
\* no leak across audiences (/0 IS the shared audience), nothing request-local served as a cached failure
NoLeak == \A c \in Clients : dec[c].k = "hit" => dec[c].ph = "active"
\* the first retry after a backoff is led by a single probe: of the upstream resolutions of one (q, audience)
\* that started while its failure was expired history, at most one is in flight
Probes(q, a) == {c \in Clients : pc[c] = "up" /\ cq[c] = q /\ Norm(Raw[c]) = a /\ upPh[c] = "expired"}
SingleProbe == \A q \in Questions, a \in Aud : Cardinality(Probes(q, a)) <= 1
\* a follower is shed only as a surplus probe of an expired generation, never during a backoff or with no history
ShedOnlyProbe == \A c \in Clients : dec[c].k = "shed" => dec[c].ph = "expired"

\* request-local endings never become shared state (action property: dec is reset, fc compared across the step)
LocalNeverShared ==
  [][\A c \in Clients : (pc[c] = "up" /\ pc'[c] = "done" /\ tr' = tr /\ ans' = ans) => fc' = fc]_vars

\* reachability witnesses (negated in the Reach_* configs: TLC must find them)
NeverShed == \A c \in Clients : dec[c].k # "shed"
NeverRegroupLeader == \A c \in Clients : ~(dec[c].k = "lead" /\ rg[c] = 1)
NeverSolo == \A c \in Clients : dec[c].k # "solo"
NeverHitScoped == \A c \in Clients : ~(dec[c].k = "hit" /\ Raw[c] \in {"A", "B"})
NeverHitZero == \A c \in Clients : ~(dec[c].k = "hit" /\ Raw[c] = "zero")
NeverTwoUpOneKey == \A c, x \in Clients : (c # x /\ pc[c] = "up" /\ pc[x] = "up") => OwnKey(c) # OwnKey(x)
=============================================================================
