CONSTANTS
  Servers = {1}
  Class <- ClassR
  Procs = {1, 2}
  Questions = {"a."}
  TwoLabel = {}
  MaxConn = 2
  MaxStart = 2
  MaxInject = 1
  PoolMax = 1
  MaxTries = 3
  Inits = {2}
  Moves = {"giveup", "tick", "cleanup", "stop", "inject", "close"}
  Sched = TRUE
  AnyConn = FALSE
  GetRemoves = TRUE
  CheckId = TRUE
  CheckQ = TRUE
  CloseOnError = TRUE
  KeepExisting = TRUE
  BoundCheck = TRUE
  ExpiryCheck = TRUE
  StopEndsCleaner = FALSE
SPECIFICATION Spec
INVARIANTS TypeOK SingleOwner AcceptedIsOwn NoDirtyPooled NoLeak
CHECK_DEADLOCK FALSE
