CONSTANTS
  N = 2
  Samples <- SamplesF
  Timeout <- TimeoutT
  Seed <- SeedT
  RTT <- RTT3
  Recs = {1, 2}
  MaxRec = 2
  MaxSort = 1
  MaxFlip = 0
  Atomic = FALSE
  Blend = TRUE
  WithLookup = FALSE
  UseCAS = TRUE
  Explore = TRUE
  MoveProbe = TRUE
  SeedPrice = TRUE
SPECIFICATION Spec
INVARIANTS TypeOK PermOK LeaderIsBest TailSorted SecondIsBestOrProbe ProbeIsOld RecordsFold UnknownNeverPreferred
CHECK_DEADLOCK FALSE
