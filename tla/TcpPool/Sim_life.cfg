CONSTANTS
  Servers = {1, 2}
  Class <- ClassRT
  Procs = {1, 2}
  Questions = {"a.", "b.c."}
  TwoLabel = {"b.c."}
  MaxConn = 10
  MaxStart = 8
  MaxInject = 0
  PoolMax = 2
  MaxTries = 3
  Inits = {2}
  Moves = {"tick", "cleanup", "stop", "close", "ka0"}
  Sched = TRUE
  AnyConn = FALSE
  GetRemoves = TRUE
  CheckId = TRUE
  CheckQ = TRUE
  CloseOnError = TRUE
  KeepExisting = TRUE
  BoundCheck = TRUE
  ExpiryCheck = TRUE
  StopEndsCleaner = FALSE
INIT Init
NEXT Next
CHECK_DEADLOCK FALSE
