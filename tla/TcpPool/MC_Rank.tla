------------------------------- MODULE MC_Rank -------------------------------
EXTENDS Rank
\* ticks of 125 ns; every sample a multiple of 256 ticks (eight exact halvings)
Fast == 81920          \* 10.24 ms
Mid == 819200          \* 102.4 ms
Slow == 4096000        \* 512 ms
TimeoutT == 16000000   \* 2 s
SeedT == 2400000       \* 300 ms
SamplesFS == {Fast, Slow}
SamplesF == {Fast}
SamplesM == {Mid}
SamplesFMS == {Fast, Mid, Slow}
RTT3 == (1 :> Fast @@ 2 :> Mid @@ 3 :> Slow)
RTT4 == (1 :> Fast @@ 2 :> Mid @@ 3 :> Mid @@ 4 :> Slow)
=============================================================================
