CONSTANTS
  N = 4
  Samples <- SamplesFS
  Timeout <- TimeoutT
  Seed <- SeedT
  RTT <- RTT4
  Recs = {1}
  MaxRec = 1
  MaxSort = 1
  MaxFlip = 0
  Atomic = TRUE
  Blend = TRUE
  WithLookup = FALSE
  UseCAS = TRUE
  Explore = TRUE
  MoveProbe = FALSE
  SeedPrice = TRUE
SPECIFICATION Spec
INVARIANTS TypeOK PermOK LeaderIsBest TailSorted SecondIsBestOrProbe ProbeIsOld RecordsFold UnknownNeverPreferred
CHECK_DEADLOCK FALSE
