CONSTANTS
  N = 3
  Samples <- SamplesFS
  Timeout <- TimeoutT
  Seed <- SeedT
  RTT <- RTT3
  Recs = {1}
  MaxRec = 2
  MaxSort = 1
  MaxFlip = 0
  Atomic = TRUE
  Blend = TRUE
  WithLookup = FALSE
  UseCAS = TRUE
  Explore = TRUE
  MoveProbe = TRUE
  SeedPrice = TRUE
SPECIFICATION Spec
INVARIANTS TypeOK PermOK LeaderIsBest TailSorted SecondIsBestOrProbe ProbeIsOld RecordsFold UnknownNeverPreferred
CHECK_DEADLOCK FALSE
