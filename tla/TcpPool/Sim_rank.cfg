CONSTANTS
  N = 4
  Samples <- SamplesFMS
  Timeout <- TimeoutT
  Seed <- SeedT
  RTT <- RTT4
  Recs = {1}
  MaxRec = 6
  MaxSort = 12
  MaxFlip = 0
  Atomic = TRUE
  Blend = TRUE
  WithLookup = FALSE
  UseCAS = TRUE
  Explore = TRUE
  MoveProbe = TRUE
  SeedPrice = TRUE
INIT Init
NEXT Next
CHECK_DEADLOCK FALSE
