--------------------------- MODULE Trace_TcpPool ---------------------------
(***************************************************************************)
(* Validation of histories recorded from the real Resolver.exchange +       *)
(* TCPConnPool under a free-running concurrent load (harness/x10tp/         *)
(* stress_test.go) against TcpPool.tla.                                     *)
(*                                                                         *)
(* Goroutines run exchanges against scripted upstreams that answer by a     *)
(* seeded script; every observable event is one line, stamped from one      *)
(* harness-side sequence (taken under one lock), so the line order          *)
(* respects real time:                                                      *)
(*   start    logged before Resolver.exchange is called                     *)
(*   arrive   logged by the upstream after it read a query frame            *)
(*   reply / inject / close / closemid   logged by the upstream BEFORE the  *)
(*            bytes leave / the socket is closed                            *)
(*   cclose   logged by the upstream after its read saw the client's close  *)
(*   attempt  logged by the exchange's own goroutine right after its Get    *)
(*            (from the resolveTarget hook every attempt passes through):   *)
(*            the Get is in the (very recent) past                          *)
(*   done     logged after exchange returned (with what it handed up)       *)
(*   tick     logged under the pool lock by the ageing shim                 *)
(*   cleanup-inv / -res, stop-inv / -res   around the harness's call of     *)
(*            cleanup() / Close()                                           *)
(*   end      the quiescent pool (snapshot under its lock)                  *)
(* The steps inside exchange (Get, write, read + checks, Put / close,       *)
(* retry, the socket deadline) are not observable: they are the silent      *)
(* steps TLC interleaves between lines.  A dial has no observable instant   *)
(* either, and the upstream numbers connections in accept order, so Dial    *)
(* and Send of a fresh connection are taken together at its first `arrive`  *)
(* line (DialSend).  Rounds are concatenated with `reset` lines.  A log is  *)
(* accepted when some path consumes every line (high-water mark in TLC      *)
(* register 1, -workers 1).  What the code handed to its callers is         *)
(* imported into `obs`, and ObservedOwn judges it: a failing invariant is   *)
(* the property failing on the real execution.                              *)
(***************************************************************************)
EXTENDS MC_TcpPool, Json, IOUtils

TraceLog == ndJsonDeserialize(IOEnv.TRACE_FILE)

VARIABLES l, cur, obs, pendOp,
  sent,  \* queries written on a connection that was not fresh: {<<connection, id>>} (an `arrive` line may come late)
  att    \* [Procs -> Int]: Gets the model has taken minus `attempt` lines seen (0 or 1)
tvars == <<vars, l, cur, obs, pendOp, sent, att>>

NoObs == [res |-> "none", id |-> 0, q |-> "", accid |-> 0, accq |-> ""]

TraceInit ==
  /\ Init /\ l = 1 /\ TLCSet(1, 0)
  /\ cur = [p \in Procs |-> [id |-> 0, q |-> ""]]
  /\ obs = [p \in Procs |-> NoObs]
  /\ pendOp = {}
  /\ sent = {}
  /\ att = [p \in Procs |-> 0]

Line == TraceLog[l]
IsEv(e) == l <= Len(TraceLog) /\ Line.ev = e /\ l' = l + 1

TStart ==
  /\ IsEv("start")
  /\ Line.id = nextId
  /\ Start(Line.p, Line.s, Line.q, Line.r0, 0)
  /\ cur' = [cur EXCEPT ![Line.p] = [id |-> Line.id, q |-> Line.q]]
  /\ UNCHANGED <<obs, pendOp, sent, att>>

\* the first query on a fresh connection: Dial and Send in one step, on the connection the upstream numbered
DialSend(p, c) ==
  /\ pc[p] = "dial" /\ att[p] = 0
  /\ cst[c] = "none"
  /\ cst' = [cst EXCEPT ![c] = "open"]
  /\ csrv' = [csrv EXCEPT ![c] = srv[p]]
  /\ conn' = [conn EXCEPT ![p] = c]
  /\ pend' = [pend EXCEPT ![c] = Append(@, [id |-> id[p], q |-> qn[p]])]
  /\ pc' = [pc EXCEPT ![p] = "wait"]
  /\ UNCHANGED <<poolVars, wire, peer, dirty, srv, qn, id, tries, tmoAt, gaveUp, res, acc, nextId, injected>>

\* a query reached the upstream: on a fresh connection this is where the model dials and sends; on a reused one
\* the write is in the past (the notice may be late: the two upstream readers are not ordered with each other)
TArrive ==
  /\ IsEv("arrive")
  /\ \/ \E p \in Procs :
          /\ id[p] = Line.id /\ qn[p] = Line.q /\ srv[p] = Line.s
          /\ DialSend(p, Line.c)
     \/ /\ <<Line.c, Line.id>> \in sent
        /\ csrv[Line.c] = Line.s
        /\ UNCHANGED vars
  /\ UNCHANGED <<cur, obs, pendOp, sent, att>>

TReply ==
  /\ IsEv("reply")
  /\ pend[Line.c] # <<>> /\ Head(pend[Line.c]).id = Line.id
  /\ SrvReply(Line.c, Line.ka0)
  /\ UNCHANGED <<cur, obs, pendOp, sent, att>>

TInject ==
  /\ IsEv("inject")
  /\ SrvInject(Line.c, Line.id, Line.q)
  /\ UNCHANGED <<cur, obs, pendOp, sent, att>>

TClose ==
  /\ \/ IsEv("close") /\ SrvClose(Line.c)
     \/ IsEv("closemid") /\ SrvCloseMid(Line.c)
  /\ UNCHANGED <<cur, obs, pendOp, sent, att>>

\* the upstream saw the client's close: the close is in the past
TCClose ==
  /\ IsEv("cclose")
  /\ cst[Line.c] = "closed"
  /\ UNCHANGED <<vars, cur, obs, pendOp, sent, att>>

TDone ==
  /\ IsEv("done")
  /\ pc[Line.p] = "done"
  /\ res[Line.p] = Line.res
  /\ obs' = [obs EXCEPT ![Line.p] = [res |-> Line.res, id |-> cur[Line.p].id, q |-> cur[Line.p].q,
                                     accid |-> Line.accid, accq |-> Line.accq]]
  /\ UNCHANGED <<vars, cur, pendOp, sent, att>>

TTick ==
  /\ IsEv("tick")
  /\ pool[Line.s] # 0
  /\ expired' = [expired EXCEPT ![Line.s] = TRUE]
  /\ UNCHANGED <<pool, active, stopped, cleaner, connVars, procVars, injected, cur, obs, pendOp, sent, att>>

TOpInv ==
  /\ \/ IsEv("cleanup-inv") /\ pendOp' = pendOp \cup {"cleanup"}
     \/ IsEv("stop-inv") /\ pendOp' = pendOp \cup {"stop"}
  /\ UNCHANGED <<vars, cur, obs, sent, att>>

TOpRes ==
  /\ \/ IsEv("cleanup-res") /\ "cleanup" \notin pendOp
     \/ IsEv("stop-res") /\ "stop" \notin pendOp
  /\ UNCHANGED <<vars, cur, obs, pendOp, sent, att>>

TEnd ==
  /\ IsEv("end")
  /\ \A p \in Procs : pc[p] \in {"idle", "done"}
  /\ active = Line.active
  /\ \A s \in Servers : pool[s] = Line.pool[s]
  /\ UNCHANGED <<vars, cur, obs, pendOp, sent, att>>

TReset ==
  /\ IsEv("reset")
  /\ pool' = [s \in Servers |-> 0]
  /\ active' = 0
  /\ expired' = [s \in Servers |-> FALSE]
  /\ stopped' = FALSE
  /\ cleaner' = "run"
  /\ cst' = [c \in Conns |-> "none"]
  /\ csrv' = [c \in Conns |-> 0]
  /\ pend' = [c \in Conns |-> <<>>]
  /\ wire' = [c \in Conns |-> <<>>]
  /\ peer' = [c \in Conns |-> "open"]
  /\ dirty' = [c \in Conns |-> FALSE]
  /\ pc' = [p \in Procs |-> "idle"]
  /\ srv' = [p \in Procs |-> CHOOSE s \in Servers : TRUE]
  /\ qn' = [p \in Procs |-> CHOOSE q \in Questions : TRUE]
  /\ id' = [p \in Procs |-> 0]
  /\ conn' = [p \in Procs |-> 0]
  /\ tries' = [p \in Procs |-> 0]
  /\ tmoAt' = [p \in Procs |-> 0]
  /\ gaveUp' = [p \in Procs |-> FALSE]
  /\ res' = [p \in Procs |-> "none"]
  /\ acc' = [p \in Procs |-> NoFrame]
  /\ nextId' = 1
  /\ injected' = 0
  /\ cur' = [p \in Procs |-> [id |-> 0, q |-> ""]]
  /\ obs' = [p \in Procs |-> NoObs]
  /\ pendOp' = {}
  /\ sent' = {}
  /\ att' = [p \in Procs |-> 0]

\* the exchange's goroutine has just come out of Get
TAttempt ==
  /\ IsEv("attempt")
  /\ att[Line.p] = 1
  /\ att' = [att EXCEPT ![Line.p] = 0]
  /\ UNCHANGED <<vars, cur, obs, pendOp, sent>>

\* the unobservable steps of the code
Silent ==
  /\ l <= Len(TraceLog)
  /\ \/ /\ \E p \in Procs : Get(p) /\ att[p] = 0 /\ att' = [att EXCEPT ![p] = 1]
        /\ UNCHANGED <<pendOp, sent>>
     \/ /\ \E p \in Procs : att[p] = 0 /\ (Recv(p) \/ Fail(p) \/ Put(p) \/ Deadline(p))
        /\ UNCHANGED <<pendOp, sent, att>>
     \/ /\ \E p \in Procs : att[p] = 0 /\ Send(p) /\ sent' = sent \cup {<<conn[p], id[p]>>}
        /\ UNCHANGED <<pendOp, att>>
     \/ /\ "cleanup" \in pendOp
        /\ IF \E s \in Servers : pool[s] # 0 /\ expired[s] THEN Cleanup ELSE UNCHANGED vars
        /\ pendOp' = pendOp \ {"cleanup"}
        /\ UNCHANGED <<sent, att>>
     \/ /\ "stop" \in pendOp
        /\ Stop
        /\ pendOp' = pendOp \ {"stop"}
        /\ UNCHANGED <<sent, att>>
  /\ UNCHANGED <<l, cur, obs>>

TraceNext ==
  \/ TReset \/ TStart \/ TAttempt \/ TArrive \/ TReply \/ TInject \/ TClose \/ TCClose \/ TDone \/ TTick \/ TOpInv \/ TOpRes \/ TEnd
  \/ Silent
TraceSpec == TraceInit /\ [][TraceNext]_tvars

\* C10 on what the code handed to its callers
ObservedOwn ==
  \A p \in Procs : obs[p].res = "ok" => (obs[p].accid = obs[p].id /\ obs[p].accq = obs[p].q)

HighWater == TLCSet(1, IF l > TLCGet(1) THEN l ELSE TLCGet(1))
TraceAccepted == TLCGet(1) > Len(TraceLog)
=============================================================================
