CONSTANTS
  N = 1
  Samples <- SamplesFS
  Timeout <- TimeoutT
  Seed <- SeedT
  RTT <- RTT3
  Recs = {1, 2, 3}
  MaxRec = 3
  MaxSort = 0
  MaxFlip = 0
  Atomic = FALSE
  Blend = TRUE
  WithLookup = FALSE
  UseCAS = TRUE
  Explore = TRUE
  MoveProbe = TRUE
  SeedPrice = TRUE
SPECIFICATION Spec
INVARIANTS TypeOK RecordsFold
CHECK_DEADLOCK FALSE
