CONSTANTS
  Servers = {1, 2}
  Class <- ClassRT
  Procs = {1, 2, 3}
  Questions = {"a.", "b.c."}
  TwoLabel = {"b.c."}
  MaxConn = 48
  MaxStart = 40
  MaxInject = 100000
  PoolMax = 2
  MaxTries = 3
  Inits = {0, 1, 2}
  Moves = {"giveup", "deadline", "tick", "cleanup", "stop", "inject", "close", "closemid", "ka0"}
  Sched = FALSE
  AnyConn = TRUE
  GetRemoves = TRUE
  CheckId = TRUE
  CheckQ = TRUE
  CloseOnError = TRUE
  KeepExisting = TRUE
  BoundCheck = TRUE
  ExpiryCheck = TRUE
  StopEndsCleaner = FALSE
SPECIFICATION TraceSpec
INVARIANTS TypeOK SingleOwner AcceptedIsOwn NoDirtyPooled NoCloseUnderOwner AcceptedIffPut ActiveIsCount PoolBound
  PooledOfServer PooledOnce NoLeak ObservedOwn
CONSTRAINT HighWater
POSTCONDITION TraceAccepted
CHECK_DEADLOCK FALSE
