----------------------------- MODULE MC_TcpPool -----------------------------
EXTENDS TcpPool
\* server 1 has a root address (every question is pooled), server 2 is reached as a TLD server (only a
\* two-label question is pooled)
ClassRT == (1 :> "root" @@ 2 :> "tld")
ClassR == (1 :> "root")
ClassRR == (1 :> "root" @@ 2 :> "root")
ClassRRR == (1 :> "root" @@ 2 :> "root" @@ 3 :> "root")
=============================================================================
