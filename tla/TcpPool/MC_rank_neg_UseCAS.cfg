CONSTANTS
  N = 1
  Samples <- SamplesFS
  Timeout <- TimeoutT
  Seed <- SeedT
  RTT <- RTT3
  Recs = {1, 2}
  MaxRec = 2
  MaxSort = 0
  MaxFlip = 0
  Atomic = FALSE
  Blend = TRUE
  WithLookup = FALSE
  UseCAS = FALSE
  Explore = TRUE
  MoveProbe = TRUE
  SeedPrice = TRUE
SPECIFICATION Spec
INVARIANTS TypeOK RecordsFold
CHECK_DEADLOCK FALSE
