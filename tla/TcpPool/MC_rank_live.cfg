CONSTANTS
  N = 3
  Samples <- SamplesF
  Timeout <- TimeoutT
  Seed <- SeedT
  RTT <- RTT3
  Recs = {1}
  MaxRec = 0
  MaxSort = 1
  MaxFlip = 2
  Atomic = TRUE
  Blend = FALSE
  WithLookup = TRUE
  UseCAS = TRUE
  Explore = TRUE
  MoveProbe = TRUE
  SeedPrice = TRUE
SPECIFICATION LiveSpec
INVARIANTS TypeOK PermOK LeaderIsBest TailSorted SecondIsBestOrProbe ProbeIsOld UnknownNeverPreferred
PROPERTIES KeepsBeingTried
CHECK_DEADLOCK FALSE
