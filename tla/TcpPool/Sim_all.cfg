CONSTANTS
  Servers = {1, 2}
  Class <- ClassRT
  Procs = {1, 2, 3}
  Questions = {"a.", "b.c."}
  TwoLabel = {"b.c."}
  MaxConn = 14
  MaxStart = 7
  MaxInject = 3
  PoolMax = 2
  MaxTries = 3
  Inits = {0, 1, 2}
  Moves = {"giveup", "deadline", "tick", "cleanup", "stop", "inject", "close", "closemid", "ka0"}
  Sched = TRUE
  AnyConn = FALSE
  GetRemoves = TRUE
  CheckId = TRUE
  CheckQ = TRUE
  CloseOnError = TRUE
  KeepExisting = TRUE
  BoundCheck = TRUE
  ExpiryCheck = TRUE
  StopEndsCleaner = FALSE
INIT Init
NEXT Next
CHECK_DEADLOCK FALSE
