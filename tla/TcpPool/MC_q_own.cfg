CONSTANTS
  Servers = {1}
  Class <- ClassR
  Procs = {1, 2}
  Questions = {"a.", "b."}
  TwoLabel = {}
  MaxConn = 3
  MaxStart = 3
  MaxInject = 1
  PoolMax = 1
  MaxTries = 3
  Inits = {2}
  Moves = {"inject", "giveup", "deadline"}
  Sched = FALSE
  AnyConn = FALSE
  GetRemoves = TRUE
  CheckId = TRUE
  CheckQ = TRUE
  CloseOnError = TRUE
  KeepExisting = TRUE
  BoundCheck = TRUE
  ExpiryCheck = TRUE
  StopEndsCleaner = FALSE
SPECIFICATION Spec
INVARIANTS TypeOK SingleOwner AcceptedIsOwn NoDirtyPooled NoCloseUnderOwner AcceptedIffPut ActiveIsCount PoolBound
  PooledOfServer PooledOnce NoLeak
PROPERTIES ResultMatches ExpiredNeverHandedOut StopClosesAll ClosedIsFinal
CONSTRAINT Bounded
CHECK_DEADLOCK FALSE
