#!/usr/bin/env python3
"""Generates the TLC configurations of TcpPool (run in this directory)."""
GUARDS = ["GetRemoves", "CheckId", "CheckQ", "CloseOnError", "KeepExisting", "BoundCheck", "ExpiryCheck"]
INV = ("TypeOK SingleOwner AcceptedIsOwn NoDirtyPooled NoCloseUnderOwner AcceptedIffPut ActiveIsCount PoolBound\n"
       "  PooledOfServer PooledOnce NoLeak")
PROPS = "ResultMatches ExpiredNeverHandedOut StopClosesAll ClosedIsFinal"


def sset(xs):
    return "{" + ", ".join('"%s"' % x for x in xs) + "}"


def cfg(name, servers=1, cls="ClassR", procs=2, questions=("a.", "b."), two=(), maxconn=3, maxstart=3, inject=0,
        poolmax=1, tries=3, inits=(2,), moves=(), sched=False, anyconn=False, off=(), stopends=False,
        spec="Spec", inv=INV, props=PROPS, extra="CONSTRAINT Bounded\n", mode="mc"):
    lines = ["CONSTANTS",
             "  Servers = {%s}" % ", ".join(str(i) for i in range(1, servers + 1)),
             "  Class <- %s" % cls,
             "  Procs = {%s}" % ", ".join(str(i) for i in range(1, procs + 1)),
             "  Questions = %s" % sset(questions),
             "  TwoLabel = %s" % sset(two),
             "  MaxConn = %d" % maxconn, "  MaxStart = %d" % maxstart, "  MaxInject = %d" % inject,
             "  PoolMax = %d" % poolmax, "  MaxTries = %d" % tries,
             "  Inits = {%s}" % ", ".join(str(i) for i in inits),
             "  Moves = %s" % sset(moves),
             "  Sched = %s" % ("TRUE" if sched else "FALSE"),
             "  AnyConn = %s" % ("TRUE" if anyconn else "FALSE")]
    for g in GUARDS:
        lines.append("  %s = %s" % (g, "FALSE" if g in off else "TRUE"))
    lines.append("  StopEndsCleaner = %s" % ("TRUE" if stopends else "FALSE"))
    if mode == "sim":
        lines += ["INIT Init", "NEXT Next"]
    else:
        lines.append("SPECIFICATION %s" % spec)
        if inv:
            lines.append("INVARIANTS " + inv)
        if props:
            lines.append("PROPERTIES " + props)
    if extra:
        lines.append(extra.rstrip("\n"))
    lines.append("CHECK_DEADLOCK FALSE")
    with open(name + ".cfg", "w") as f:
        f.write("\n".join(lines) + "\n")


ALLMOVES = ("giveup", "deadline", "tick", "cleanup", "stop", "inject", "close", "closemid", "ka0")

# --- exhaustive, quick tier
cfg("MC_q_own", inject=1, moves=("inject", "giveup", "deadline"))
cfg("MC_q_life", servers=2, cls="ClassRT", questions=("a.", "b.c."), two=("b.c.",), moves=("tick", "cleanup", "stop", "close"))
cfg("MC_q_own2", maxstart=2, inject=1, moves=("inject", "giveup", "deadline"))
cfg("MC_q_life2", servers=2, cls="ClassRT", questions=("a.", "b.c."), two=("b.c.",), maxstart=2, moves=("tick", "cleanup", "stop", "close"))

# --- negative configs: one guard of the code switched off, the named invariant must fail
NEG = {
    "GetRemoves": dict(moves=(), maxstart=3),
    "CheckId": dict(inject=1, moves=("inject",), maxstart=2),
    "CheckQ": dict(inject=1, moves=("inject",), maxstart=2),
    "CloseOnError": dict(moves=("deadline",), maxstart=2),
    "KeepExisting": dict(moves=(), maxstart=3, poolmax=2),
    "BoundCheck": dict(servers=2, cls="ClassRR", moves=(), maxstart=2),
    "ExpiryCheck": dict(moves=("tick",), maxstart=2),
}
for g, kw in NEG.items():
    cfg("MC_neg_" + g, off=(g,), **kw)

# --- observations: the quiescence statements the code as written does not satisfy
cfg("MC_obs_cleaner", moves=("stop",), maxstart=1, inv="TypeOK CleanerEnds", props="")
cfg("MC_obs_quiet", moves=("stop",), maxstart=2, inv="TypeOK QuietAfterStop", props="")
cfg("MC_fix_cleaner", moves=("stop", "tick", "cleanup"), maxstart=2, stopends=True, inv="TypeOK CleanerEnds NoLeak", props="")

# --- liveness under fairness
cfg("MC_live", servers=1, maxstart=2, inject=1, inits=(1,), moves=("inject", "tick", "cleanup", "close", "deadline"), spec="LiveSpec",
    inv="TypeOK", props="Returns ExpiredGoes")

# --- simulation (Sched = TRUE: what the driver can force), replayed on the real code
cfg("Sim_all", servers=2, cls="ClassRT", procs=3, questions=("a.", "b.c."), two=("b.c.",), maxconn=14, maxstart=7, inject=3,
    poolmax=2, inits=(0, 1, 2), moves=ALLMOVES, sched=True, mode="sim", extra="")
cfg("Sim_bound", servers=3, cls="ClassRRR", procs=3, questions=("a.", "b."), maxconn=12, maxstart=8, inject=2,
    poolmax=2, inits=(1, 2), moves=("giveup", "tick", "cleanup", "stop", "inject", "close"), sched=True, mode="sim", extra="")

# --- trace validation of the recorded free-running load
cfg("Trace_stress", servers=2, cls="ClassRT", procs=3, questions=("a.", "b.c."), two=("b.c.",), maxconn=48, maxstart=40,
    inject=100000, poolmax=2, inits=(0, 1, 2), moves=ALLMOVES, anyconn=True, spec="TraceSpec",
    inv="TypeOK SingleOwner AcceptedIsOwn NoDirtyPooled NoCloseUnderOwner AcceptedIffPut ActiveIsCount PoolBound\n"
        "  PooledOfServer PooledOnce NoLeak ObservedOwn",
    props="", extra="CONSTRAINT HighWater\nPOSTCONDITION TraceAccepted\n")

# --- a small state graph of the scheduled relation: every edge is replayed once (thorough tier)
cfg("MC_graph", servers=1, procs=2, questions=("a.",), maxconn=2, maxstart=2, inject=1, poolmax=1, inits=(2,),
    moves=("giveup", "tick", "cleanup", "stop", "inject", "close"), sched=True, inv="TypeOK SingleOwner AcceptedIsOwn NoDirtyPooled NoLeak",
    props="", extra="")
cfg("Sim_life", servers=2, cls="ClassRT", procs=2, questions=("a.", "b.c."), two=("b.c.",), maxconn=10, maxstart=8, inject=0,
    poolmax=2, inits=(2,), moves=("tick", "cleanup", "stop", "close", "ka0"), sched=True, mode="sim", extra="")
# --- thorough exhaustive
cfg("MC_t_retry", servers=1, procs=2, questions=("a.",), maxconn=4, maxstart=2, inject=1, inits=(1,), moves=("inject", "deadline"))
cfg("MC_t_retry1", servers=1, procs=1, questions=("a.",), maxconn=6, maxstart=2, inject=1, inits=(0,), moves=("inject", "closemid", "deadline"))
cfg("MC_t_ka0", servers=2, cls="ClassRR", maxconn=3, maxstart=3, poolmax=1, moves=("ka0", "tick", "cleanup"))
cfg("MC_q_own3", maxstart=2, maxconn=2, inject=1, moves=("inject", "deadline"))
cfg("MC_q_life3", servers=2, cls="ClassRT", questions=("a.", "b.c."), two=("b.c.",), maxstart=2, maxconn=2, moves=("tick", "cleanup", "stop"))
