-------------------------------- MODULE Rank --------------------------------
(***************************************************************************)
(* X10TP, second part: the server selection of the resolver.                *)
(*                                                                         *)
(*   internal/authority/server.go   Server.Observe / ObserveNoAnswer        *)
(*                                  (record: load the state word, blend,    *)
(*                                  compare-and-swap, then store lastNs),   *)
(*                                  score (unmeasured: the seed + 1; out of *)
(*                                  date: halfway back to the seed), Sort = *)
(*                                  rank (stable insertion by score) +      *)
(*                                  hedge (the exploration probe moved into *)
(*                                  the second slot, else the rotation of   *)
(*                                  what is tied with the runner-up)        *)
(*   middleware/resolver/resolver.go  Resolver.lookup: a private copy of    *)
(*                                  servers.List is sorted on every lookup; *)
(*                                  the first two are asked at once, the    *)
(*                                  rest one by one while nobody answers;   *)
(*                                  a hedge is cancelled when the leader    *)
(*                                  answers, a probe is detached and        *)
(*                                  records what it finds; exchange records *)
(*                                  an answer's round trip or, for anything *)
(*                                  else, a timeout                         *)
(*                                                                         *)
(* Time is counted in ticks of 125 ns and every sample is a multiple of     *)
(* 256 ticks, so that up to eight successive halvings are exact both here   *)
(* and in the code's nanoseconds (the driver replays the same numbers).     *)
(*                                                                         *)
(* Actions:                                                                 *)
(*   RecStart / RecLoad / RecCAS / RecStore   one call of record, its       *)
(*       atomics one action each (Atomic = TRUE: the whole call at once,    *)
(*       for sequential replay)                                             *)
(*   Age(s)      staleAfter passes for the measurement of s                 *)
(*   Sort(r1, r2, r3)   authority.Sort on a fresh copy of the list; r1..r3  *)
(*       are what randN returns at its (up to) two call sites taken         *)
(*   Lookup(r1, r2, r3) Sort, then the fan-out of Resolver.lookup against   *)
(*       servers that are up or down, with the records it leaves (Atomic    *)
(*       only); Fail / Recover change a server                              *)
(*                                                                         *)
(* Deliberate abstractions: lastNs is the flag `stale` (cleared by the      *)
(* store that follows the CAS, set by Age); a sample below 1 ns is not      *)
(* modelled; in Lookup an up leader answers before anybody else and a down  *)
(* server is silent (the circuit breaker and the adaptive timeouts are not  *)
(* modelled); Blend = FALSE (liveness config only) replaces the half-and-   *)
(* half blend by "the estimate is the last sample", which keeps the state   *)
(* space finite without touching the ranking argument.                      *)
(***************************************************************************)
EXTENDS Integers, FiniteSets, Sequences, TLC

CONSTANTS
  N,            \* servers 1..N, in the order of servers.List
  Samples,      \* round trips an answer may be recorded with
  Timeout,      \* what "no answer" is priced at (r.netTimeout)
  Seed,         \* rttUnknownSeed
  RTT,          \* [1..N -> Samples]: what server s takes when it is up (Lookup)
  Recs,         \* goroutines calling record concurrently (Atomic = FALSE)
  MaxRec,       \* records per server
  MaxSort,      \* Sort / Lookup calls per behaviour
  MaxFlip,      \* Fail / Recover per behaviour
  Atomic,       \* TRUE: record is one step and calls do not overlap
  Blend,        \* TRUE in the code
  WithLookup,   \* TRUE: Lookup / Fail / Recover are enabled (else Sort alone)
  \* guards of the code, TRUE in the code
  UseCAS,       \* record publishes with compare-and-swap (FALSE: a plain store of what it computed)
  Explore,      \* hedge spends the second slot on an out-of-date server (FALSE: never probes)
  MoveProbe,    \* the probe is moved into the second slot (FALSE: swapped with the runner-up)
  SeedPrice     \* an unmeasured server is priced at the seed + 1 (FALSE: at 0, the fresh word)

S == 1..N
Unmeasured == [m |-> FALSE, a |-> FALSE, est |-> 0]

VARIABLES
  st,        \* [S -> [m, a, est]]: the packed state word
  stale,     \* [S -> BOOLEAN]: now - lastNs > staleAfter
  nrec,      \* [S -> Nat]: records started
  pcr,       \* [Recs -> "idle" | "load" | "cas" | "store"]
  op,        \* [Recs -> [s, d, ans, w]]: operands and the loaded word
  applied,   \* ghost [S -> Seq([d, ans])]: samples in the order their CAS landed
  order,     \* result of the last Sort (<<>> before the first)
  probe,     \* 0 or the server the last Sort spends the second slot on
  sc,        \* [S -> Nat]: the scores the last Sort read
  old,       \* [S -> BOOLEAN]: the out-of-date flags the last Sort read
  msr,       \* [S -> BOOLEAN]: the measured bits the last Sort read
  used,      \* <<r1, r2, r3>> flags: which randN calls the last Sort made
  nsort, up, nflip,
  last       \* servers the last Lookup sent a query to

vars == <<st, stale, nrec, pcr, op, applied, order, probe, sc, old, msr, used, nsort, up, nflip, last>>

NoOp == [s |-> 1, d |-> 0, ans |-> FALSE, w |-> Unmeasured]

Init ==
  /\ st = [s \in S |-> Unmeasured]
  /\ stale = [s \in S |-> FALSE]
  /\ nrec = [s \in S |-> 0]
  /\ pcr = [g \in Recs |-> "idle"]
  /\ op = [g \in Recs |-> NoOp]
  /\ applied = [s \in S |-> <<>>]
  /\ order = <<>>
  /\ probe = 0
  /\ sc = [s \in S |-> 0]
  /\ old = [s \in S |-> FALSE]
  /\ msr = [s \in S |-> FALSE]
  /\ used = <<FALSE, FALSE, FALSE>>
  /\ nsort = 0
  /\ up = [s \in S |-> TRUE]
  /\ nflip = 0
  /\ last = {}

---------------------------------------------------------------------------
\* record

Next1(w, d) == IF w.m /\ Blend THEN (w.est + d) \div 2 ELSE d
Packed(w, d, ans) == [m |-> TRUE, a |-> ans, est |-> Next1(w, d)]

RecStart(g, s, d, ans) ==
  /\ pcr[g] = "idle"
  /\ nrec[s] < MaxRec
  /\ Atomic => \A h \in Recs : pcr[h] = "idle"
  /\ nrec' = [nrec EXCEPT ![s] = @ + 1]
  /\ IF Atomic
     THEN /\ st' = [st EXCEPT ![s] = Packed(st[s], d, ans)]
          /\ applied' = [applied EXCEPT ![s] = Append(@, [d |-> d, ans |-> ans])]
          /\ stale' = [stale EXCEPT ![s] = FALSE]
          /\ UNCHANGED <<pcr, op>>
     ELSE /\ pcr' = [pcr EXCEPT ![g] = "load"]
          /\ op' = [op EXCEPT ![g] = [s |-> s, d |-> d, ans |-> ans, w |-> Unmeasured]]
          /\ UNCHANGED <<st, applied, stale>>
  /\ UNCHANGED <<order, probe, sc, old, msr, used, nsort, up, nflip, last>>

RecLoad(g) ==
  /\ pcr[g] = "load"
  /\ op' = [op EXCEPT ![g].w = st[op[g].s]]
  /\ pcr' = [pcr EXCEPT ![g] = "cas"]
  /\ UNCHANGED <<st, stale, nrec, applied, order, probe, sc, old, msr, used, nsort, up, nflip, last>>

RecCAS(g) ==
  /\ pcr[g] = "cas"
  /\ LET o == op[g] IN
     IF ~UseCAS \/ st[o.s] = o.w
     THEN /\ st' = [st EXCEPT ![o.s] = Packed(o.w, o.d, o.ans)]
          /\ applied' = [applied EXCEPT ![o.s] = Append(@, [d |-> o.d, ans |-> o.ans])]
          /\ pcr' = [pcr EXCEPT ![g] = "store"]
     ELSE /\ pcr' = [pcr EXCEPT ![g] = "load"]
          /\ UNCHANGED <<st, applied>>
  /\ UNCHANGED <<stale, nrec, op, order, probe, sc, old, msr, used, nsort, up, nflip, last>>

RecStore(g) ==
  /\ pcr[g] = "store"
  /\ stale' = [stale EXCEPT ![op[g].s] = FALSE]
  /\ pcr' = [pcr EXCEPT ![g] = "idle"]
  /\ op' = [op EXCEPT ![g] = NoOp]
  /\ UNCHANGED <<st, nrec, applied, order, probe, sc, old, msr, used, nsort, up, nflip, last>>

Age(s) ==
  /\ st[s].m /\ ~stale[s]
  /\ Atomic => \A h \in Recs : pcr[h] = "idle"
  /\ stale' = [stale EXCEPT ![s] = TRUE]
  /\ UNCHANGED <<st, nrec, pcr, op, applied, order, probe, sc, old, msr, used, nsort, up, nflip, last>>

---------------------------------------------------------------------------
\* score, rank, hedge

Score(s) == IF ~st[s].m THEN (IF SeedPrice THEN Seed + 1 ELSE 0)
            ELSE IF stale[s] THEN (st[s].est + Seed) \div 2
            ELSE st[s].est
Old(s) == ~st[s].m \/ stale[s]

\* insertion as rank() does it: an element moves left past every strictly greater score (stable)
RECURSIVE InsertSorted(_, _)
InsertSorted(seq, x) ==
  IF seq = <<>> THEN <<x>>
  ELSE IF Score(seq[Len(seq)]) > Score(x)
       THEN Append(InsertSorted(SubSeq(seq, 1, Len(seq) - 1), x), seq[Len(seq)])
       ELSE Append(seq, x)
RECURSIVE RankOf(_)
RankOf(k) == IF k = 0 THEN <<>> ELSE InsertSorted(RankOf(k - 1), k)
Ranked == RankOf(N)

\* the positions 2..N of `seq` that hold an out-of-date server
CandPos(seq) == {i \in 2..N : Old(seq[i])}
\* the r-th (0-based) smallest element of a set of naturals
RECURSIVE Nth(_, _)
Nth(P, r) == LET m == CHOOSE x \in P : \A y \in P : x <= y IN IF r = 0 THEN m ELSE Nth(P \ {m}, r - 1)

\* list[i] moved into the second slot, what was in 2..i-1 shifted right
MoveTo2(seq, i) == [j \in 1..N |-> IF j = 1 THEN seq[1] ELSE IF j = 2 THEN seq[i] ELSE IF j <= i THEN seq[j - 1] ELSE seq[j]]
Swap(seq, i, j) == [k \in 1..N |-> IF k = i THEN seq[j] ELSE IF k = j THEN seq[i] ELSE seq[k]]

\* first position after the run of scores equal to the runner-up's (the code's k, 1-based: K - 1 elements tie)
RECURSIVE TieEnd(_, _)
TieEnd(seq, k) == IF k <= N /\ Score(seq[k]) = Score(seq[2]) THEN TieEnd(seq, k + 1) ELSE k

NStale == Cardinality({s \in S : Old(s)})

\* what hedge does with the ranked list; r1, r2, r3 are randN's answers, u1..u3 say which calls are made
HedgeResult(r1, r2, r3) ==
  LET seq == Ranked
      explore == Explore /\ NStale > 0 /\ r1 < NStale
      cands == CandPos(seq)
      k == TieEnd(seq, 3)
  IN IF N < 3 THEN [order |-> seq, probe |-> 0, used |-> <<FALSE, FALSE, FALSE>>]
     ELSE IF explore /\ cands # {}
     THEN LET i == Nth(cands, r2) IN
          [order |-> IF MoveProbe THEN MoveTo2(seq, i) ELSE Swap(seq, 2, i), probe |-> seq[i],
           used |-> <<TRUE, TRUE, FALSE>>]
     ELSE [order |-> IF k > 3 THEN Swap(seq, 2, 2 + r3) ELSE seq, probe |-> 0,
           used |-> <<NStale > 0, FALSE, k > 3>>]

\* the arguments are canonical: an answer randN is not asked for is 0
RandOK(r1, r2, r3) ==
  LET seq == Ranked
      explore == Explore /\ NStale > 0 /\ r1 < NStale
      cands == CandPos(seq)
      k == TieEnd(seq, 3)
  IN /\ r1 \in (IF N >= 3 /\ NStale > 0 THEN 0..N - 1 ELSE {0})
     /\ r2 \in (IF N >= 3 /\ explore /\ cands # {} THEN 0..Cardinality(cands) - 1 ELSE {0})
     /\ r3 \in (IF N >= 3 /\ ~(explore /\ cands # {}) /\ k > 3 THEN 0..k - 3 ELSE {0})

SortStep(r1, r2, r3) ==
  /\ nsort < MaxSort
  /\ RandOK(r1, r2, r3)
  /\ LET h == HedgeResult(r1, r2, r3) IN
     /\ order' = h.order
     /\ probe' = h.probe
     /\ used' = h.used
  /\ sc' = [s \in S |-> Score(s)]
  /\ old' = [s \in S |-> Old(s)]
  /\ msr' = [s \in S |-> st[s].m]
  /\ nsort' = IF WithLookup THEN nsort ELSE nsort + 1

Sort(r1, r2, r3) ==
  /\ ~WithLookup
  /\ Atomic => \A h \in Recs : pcr[h] = "idle"
  /\ SortStep(r1, r2, r3)
  /\ UNCHANGED <<st, stale, nrec, pcr, op, applied, up, nflip, last>>

---------------------------------------------------------------------------
\* Resolver.lookup on the sorted copy (Atomic only)

\* servers asked: the first two at once; then one more for every one that stayed silent, until somebody answers
\* (an up leader answers first: then only the first two were asked)
RECURSIVE AskedUpTo(_, _)
AskedUpTo(seq, i) == IF i >= N \/ (i >= 2 /\ \E j \in 1..i : up[seq[j]]) THEN i ELSE AskedUpTo(seq, i + 1)
Asked(seq) == {seq[j] : j \in 1..AskedUpTo(seq, IF N >= 2 THEN 2 ELSE 1)}

\* who leaves a record: the first up server in the order, when it was asked (its answer; the lookup returns and
\* cancels whoever else is out -- a cancelled attempt records nothing, silent servers included); the second slot
\* when it is a probe (detached: it records what it finds, an answer or a timeout); everybody asked when nobody
\* asked is up (they all run into their timeout)
FirstUp(seq) == IF \E j \in 1..N : up[seq[j]] THEN seq[CHOOSE j \in 1..N : up[seq[j]] /\ \A i \in 1..j - 1 : ~up[seq[i]]] ELSE 0
Recorded(seq, pr) ==
  (IF FirstUp(seq) \in Asked(seq) THEN {FirstUp(seq)} ELSE Asked(seq)) \cup (IF pr # 0 THEN {pr} ELSE {})

Lookup(r1, r2, r3) ==
  /\ WithLookup /\ Atomic
  /\ SortStep(r1, r2, r3)
  /\ LET h == HedgeResult(r1, r2, r3)
         rec == Recorded(h.order, h.probe) IN
     /\ last' = Asked(h.order)
     /\ st' = [s \in S |-> IF s \in rec
                            THEN (IF up[s] THEN Packed(st[s], RTT[s], TRUE) ELSE Packed(st[s], Timeout, FALSE))
                            ELSE st[s]]
     /\ stale' = [s \in S |-> IF s \in rec THEN FALSE ELSE stale[s]]
  /\ UNCHANGED <<nrec, pcr, op, applied, up, nflip>>

Flip(s) ==
  /\ WithLookup
  /\ nflip < MaxFlip
  /\ up' = [up EXCEPT ![s] = ~@]
  /\ nflip' = nflip + 1
  /\ UNCHANGED <<st, stale, nrec, pcr, op, applied, order, probe, sc, old, msr, used, nsort, last>>

---------------------------------------------------------------------------
Next ==
  \/ \E g \in Recs, s \in S, d \in Samples \cup {Timeout} : RecStart(g, s, d, d # Timeout)
  \/ \E g \in Recs : RecLoad(g) \/ RecCAS(g) \/ RecStore(g)
  \/ \E s \in S : Age(s) \/ Flip(s)
  \/ \E r1, r2, r3 \in 0..N : Sort(r1, r2, r3) \/ Lookup(r1, r2, r3)

Spec == Init /\ [][Next]_vars

\* time passes; the ranking's coin is fair: whenever a lookup that asks s can be taken again and again, one is
LookupAsks(s) == \E r1, r2, r3 \in 0..N : Lookup(r1, r2, r3) /\ s \in last'
LiveSpec ==
  /\ Spec
  /\ \A s \in S : WF_vars(Age(s)) /\ SF_vars(LookupAsks(s))
  /\ WF_vars(\E r1, r2, r3 \in 0..N : Lookup(r1, r2, r3))

---------------------------------------------------------------------------
\* Properties

TypeOK ==
  /\ st \in [S -> [m : BOOLEAN, a : BOOLEAN, est : Nat]]
  /\ stale \in [S -> BOOLEAN]
  /\ pcr \in [Recs -> {"idle", "load", "cas", "store"}]
  /\ order = <<>> \/ order \in [1..N -> S]
  /\ probe \in 0..N
  /\ up \in [S -> BOOLEAN]
  /\ last \subseteq S

Sorted == order # <<>>

\* no server is lost from the list and none appears twice
PermOK == Sorted => {order[i] : i \in 1..N} = S

\* the leader is a server of minimal score
LeaderIsBest == Sorted => \A s \in S : sc[order[1]] <= sc[s]

\* behind the second slot the order is by score
TailSorted == Sorted => \A i, j \in 3..N : i < j => sc[order[i]] <= sc[order[j]]

\* the second slot holds the probe, or one of the best of the rest
SecondIsBestOrProbe ==
  (Sorted /\ N >= 2) => (probe = order[2] \/ \A j \in 2..N : sc[order[2]] <= sc[order[j]])

\* a probe is an out-of-date server in the second slot, never the leader, and taking it out leaves the others in
\* score order (the genuine runner-up is third, not flung down the list)
ProbeIsOld ==
  (Sorted /\ probe # 0) => (old[probe] /\ order[2] = probe /\ order[1] # probe /\ N >= 3 /\ \A j \in 3..N : sc[order[3]] <= sc[order[j]])

\* the estimate is the blend of the samples in the order their CAS landed: no sample is lost, none counted twice
RECURSIVE Fold(_, _)
Fold(w, seq) == IF seq = <<>> THEN w ELSE Fold(Packed(w, Head(seq).d, Head(seq).ans), Tail(seq))
RecordsFold ==
  \A s \in S : /\ st[s] = Fold(Unmeasured, applied[s])
               /\ (\A g \in Recs : pcr[g] = "idle") => Len(applied[s]) = nrec[s]

\* an unmeasured server leads only when every measured one is priced above the seed ("worth trying, never worth
\* preferring")
UnknownNeverPreferred ==
  Sorted => (~msr[order[1]] => \A s \in S : msr[s] => sc[s] > Seed)

\* liveness (LiveSpec, WithLookup): a server that stays up keeps being asked
KeepsBeingTried == \A s \in S : (<>[]up[s]) => ([]<>(s \in last))
=============================================================================
