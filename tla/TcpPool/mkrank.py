#!/usr/bin/env python3
"""Generates the TLC configurations of Rank (run in this directory)."""
INV = "TypeOK PermOK LeaderIsBest TailSorted SecondIsBestOrProbe ProbeIsOld RecordsFold UnknownNeverPreferred"


def cfg(name, n=3, samples="{Fast, Slow}", rtt="RTT3", recs=1, maxrec=2, maxsort=2, maxflip=0, atomic=True, blend=True,
        lookup=False, off=(), spec="Spec", inv=INV, props="", mode="mc"):
    lines = ["CONSTANTS", "  N = %d" % n, "  Samples <- %s" % name_samples(name, samples), "  Timeout <- TimeoutT", "  Seed <- SeedT", "  RTT <- %s" % rtt,
             "  Recs = {%s}" % ", ".join(str(i) for i in range(1, recs + 1)), "  MaxRec = %d" % maxrec,
             "  MaxSort = %d" % maxsort, "  MaxFlip = %d" % maxflip,
             "  Atomic = %s" % ("TRUE" if atomic else "FALSE"), "  Blend = %s" % ("TRUE" if blend else "FALSE"),
             "  WithLookup = %s" % ("TRUE" if lookup else "FALSE")]
    for g in ("UseCAS", "Explore", "MoveProbe", "SeedPrice"):
        lines.append("  %s = %s" % (g, "FALSE" if g in off else "TRUE"))
    if mode == "sim":
        lines += ["INIT Init", "NEXT Next"]
    else:
        lines.append("SPECIFICATION %s" % spec)
        if inv:
            lines.append("INVARIANTS " + inv)
        if props:
            lines.append("PROPERTIES " + props)
    lines.append("CHECK_DEADLOCK FALSE")
    with open(name + ".cfg", "w") as f:
        f.write("\n".join(lines) + "\n")


SAMPLESETS = {}


def name_samples(name, samples):
    # TLC config files cannot hold set expressions over definitions: one definition per set in MC_Rank.tla
    key = {"{Fast, Slow}": "SamplesFS", "{Fast}": "SamplesF", "{Fast, Mid, Slow}": "SamplesFMS", "{Mid}": "SamplesM"}[samples]
    return key


cfg("MC_rank_q", n=3, samples="{Fast, Slow}", maxrec=1, maxsort=1)
cfg("MC_rank_sort", n=3, samples="{Fast, Slow}", maxrec=2, maxsort=1)
cfg("MC_rank_sort4", n=4, rtt="RTT4", samples="{Fast}", maxrec=1, maxsort=1)
cfg("MC_rank_cas", n=1, samples="{Fast, Slow}", recs=3, maxrec=3, maxsort=0, atomic=False, inv="TypeOK RecordsFold")
cfg("MC_rank_cas2", n=2, samples="{Fast}", recs=2, maxrec=2, maxsort=1, atomic=False)
cfg("MC_rank_live", n=3, samples="{Fast}", maxrec=0, maxsort=1, maxflip=2, blend=False, lookup=True, spec="LiveSpec",
    inv="TypeOK PermOK LeaderIsBest TailSorted SecondIsBestOrProbe ProbeIsOld UnknownNeverPreferred", props="KeepsBeingTried")
cfg("MC_rank_neg_UseCAS", n=1, samples="{Fast, Slow}", recs=2, maxrec=2, maxsort=0, atomic=False, off=("UseCAS",), inv="TypeOK RecordsFold")
cfg("MC_rank_neg_MoveProbe", n=4, rtt="RTT4", samples="{Fast, Slow}", maxrec=1, maxsort=1, off=("MoveProbe",))
cfg("MC_rank_neg_SeedPrice", n=3, samples="{Fast}", maxrec=1, maxsort=1, off=("SeedPrice",))
cfg("MC_rank_neg_Explore", n=3, samples="{Fast}", maxrec=0, maxsort=1, maxflip=2, blend=False, lookup=True, spec="LiveSpec",
    inv="TypeOK", props="KeepsBeingTried", off=("Explore",))
cfg("Sim_rank", n=4, rtt="RTT4", samples="{Fast, Mid, Slow}", maxrec=6, maxsort=12, mode="sim")
cfg("Sim_rank3", n=3, samples="{Fast, Mid, Slow}", maxrec=6, maxsort=12, mode="sim")
