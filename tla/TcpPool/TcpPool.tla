------------------------------ MODULE TcpPool ------------------------------
(***************************************************************************)
(* X10TP: the resolver's upstream TCP connection pool and the exchanges     *)
(* that use it.                                                             *)
(*                                                                         *)
(*   middleware/resolver/tcp_pool.go   TCPConnPool.Get / Put / cleanup /    *)
(*                                     Close (every method one critical     *)
(*                                     section under p.mu)                  *)
(*   middleware/resolver/resolver.go   Resolver.exchange: Get, dial on a    *)
(*                                     miss, SetDeadline, ExchangeInter-    *)
(*                                     ruptible, Put on success,            *)
(*                                     ReleaseConn (close) on ANY error,    *)
(*                                     retry while retried < 2              *)
(*   internal/dnsclient/conn.go        Conn.Exchange on a stream: WriteMsg, *)
(*                                     ONE ReadMsg, r.Id != m.Id -> ErrId,  *)
(*                                     QuestionMatches -> ErrQuestion       *)
(*                                                                         *)
(* One action per critical section / blocking call of the code:            *)
(*   Start   the caller enters Resolver.exchange (operands fixed)           *)
(*   Get     TCPConnPool.Get under p.mu: not poolable -> nil; pooled and    *)
(*           expired -> close, delete, active--, nil; pooled -> delete,     *)
(*           active--, hand out; nothing pooled -> nil                      *)
(*   Dial    Dialer.DialContext: a fresh connection                         *)
(*   Send    Conn.WriteMsg: the query frame leaves on the connection        *)
(*   Recv    Conn.ReadMsg + the ID check + the question check               *)
(*   Deadline / GiveUp   the socket deadline / the request context ends     *)
(*           the read (GiveUp also covers a cancellation that lands after   *)
(*           the read and before exchange's EffectiveError(ctx) check)      *)
(*   Fail    the error path: ReleaseConn closes the connection ("don't      *)
(*           return connection to pool on error"), then retry or return     *)
(*   Put     the success path: TCPConnPool.Put under p.mu (bound check,     *)
(*           keepalive timeout 0 -> close, server already warm -> close     *)
(*           the duplicate and refresh the resident one, else store)        *)
(*   IdleTick  time passes: the pooled connection of a server is now older  *)
(*           than its idle timeout                                          *)
(*   Cleanup the cleanup goroutine's pass under p.mu                        *)
(*   Stop    TCPConnPool.Close under p.mu                                   *)
(*   SrvReply / SrvInject / SrvClose / SrvCloseMid  the upstream: answers   *)
(*           the oldest unanswered query, writes a frame nobody asked for   *)
(*           (a duplicate, a late or forged answer), closes after what it   *)
(*           wrote, closes in the middle of a frame                         *)
(*                                                                         *)
(* Deliberate abstractions.                                                 *)
(*   - The two maps (rootConns / tldConns) are one function of the server:  *)
(*     isRootServer is a function of the address, so a server is in one     *)
(*     class only; Class[s] and TwoLabel say whether an exchange is         *)
(*     poolable (root address, or a TLD-shaped question).                   *)
(*   - lastUsed / idleTime are the flag expired[s] (IdleTick sets it,       *)
(*     handing out / refreshing clears it).  The keepalive option is one    *)
(*     bit of the reply (ka0: timeout 0).  hits / misses are not modelled.  *)
(*   - A frame is its ID and question; a partial frame is "part".           *)
(*   - A connection is written by its owner only when it is not closed on   *)
(*     the client side; writes to a peer that has gone vanish.              *)
(*   - The code has no Stop for the cleanup goroutine: `cleaner` stays      *)
(*     "run" after Stop (StopEndsCleaner = FALSE is the code), and Close    *)
(*     leaves the pool usable, so a Put after Stop pools again.  The two    *)
(*     quiescence statements (CleanerEnds, QuietAfterStop) are therefore    *)
(*     NOT invariants of the code as written; MC_obs_*.cfg document it.     *)
(*                                                                         *)
(* Sched = TRUE is the relation the conformance driver can force on the     *)
(* real code: whatever the driver does not control (the steps inside        *)
(* exchange) runs first, the driver's own moves (Start, the servers, the    *)
(* cancel, the tick, cleanup, Stop) happen at stable points only, and an    *)
(* attempt that is to die by the SOCKET deadline (attempt number tmoAt) is  *)
(* left alone until it does (it runs with a short real timeout).            *)
(***************************************************************************)
EXTENDS Integers, FiniteSets, Sequences, TLC

CONSTANTS
  Servers,        \* upstream servers
  Class,          \* [Servers -> {"root", "tld"}]
  Procs,          \* goroutines running Resolver.exchange
  Questions,      \* question names
  TwoLabel,       \* SUBSET Questions: names isTLDServer accepts
  MaxConn,        \* connection ids 1..MaxConn, every dial takes a fresh one
  MaxStart,       \* exchanges started per behaviour = transaction ids 1..MaxStart
  MaxInject,      \* unsolicited frames the servers may write
  PoolMax,        \* maxConns
  MaxTries,       \* attempts per exchange (retried < 2  =>  3)
  Inits,          \* SUBSET 0..MaxTries-1: values of `retried` an exchange may start with
  Moves,          \* SUBSET {"giveup", "deadline", "tick", "cleanup", "stop", "inject", "close", "closemid", "ka0"}:
                  \* what the environment may do besides starting exchanges and answering them honestly
  Sched,          \* TRUE: the driver-forcible relation (see above)
  AnyConn,        \* TRUE: Dial may take any unused id (trace validation); FALSE: the smallest
  \* the guards of the code; each is TRUE in the code, FALSE is a mutant
  GetRemoves,     \* Get deletes what it hands out
  CheckId,        \* Exchange: r.Id != m.Id -> ErrId on a stream
  CheckQ,         \* Exchange: QuestionMatches
  CloseOnError,   \* exchange closes the connection on every error (FALSE: pools it)
  KeepExisting,   \* Put keeps the resident connection and closes the newcomer (FALSE: overwrites)
  BoundCheck,     \* Put: active >= maxConns -> close
  ExpiryCheck,    \* Get: an expired connection is closed, not handed out
  StopEndsCleaner \* FALSE in the code

Conns == 1..MaxConn
Ids == 0..MaxStart                 \* 0: an ID no exchange uses
NoFrame == [k |-> "none", id |-> 0, q |-> "", ka0 |-> FALSE]
Part == [k |-> "part", id |-> 0, q |-> "", ka0 |-> FALSE]
Msg(i, q, z) == [k |-> "msg", id |-> i, q |-> q, ka0 |-> z]
Frames == {NoFrame, Part} \cup {Msg(i, q, z) : i \in Ids, q \in Questions, z \in BOOLEAN}

VARIABLES
  \* the pool (under p.mu)
  pool,       \* [Servers -> 0..MaxConn]: the idle connection kept for a server (0: none)
  active,     \* p.active
  expired,    \* [Servers -> BOOLEAN]: time.Since(lastUsed) > idleTime for the resident connection
  stopped,    \* Close() was called (ghost: the code keeps no such flag)
  cleaner,    \* "run" | "ended": the cleanup goroutine
  \* connections
  cst,        \* [Conns -> "none" | "open" | "closed"]: client side
  csrv,       \* [Conns -> Servers \cup {0}]
  pend,       \* [Conns -> Seq([id, q])]: queries the server has read and not answered
  wire,       \* [Conns -> Seq(Frames)]: frames written by the server, not yet read
  peer,       \* [Conns -> "open" | "closed"]: server side
  dirty,      \* ghost [Conns -> BOOLEAN]: an attempt on it ended without accepting a reply
  \* exchanges
  pc,         \* [Procs -> "idle" | "get" | "dial" | "send" | "wait" | "put" | "fail" | "done"]
  srv, qn, id, conn, tries, tmoAt, gaveUp, res,
  acc,        \* ghost [Procs -> Frames]: the frame this exchange accepted as its reply
  nextId, injected

poolVars == <<pool, active, expired, stopped, cleaner>>
connVars == <<cst, csrv, pend, wire, peer, dirty>>
procVars == <<pc, srv, qn, id, conn, tries, tmoAt, gaveUp, res, acc, nextId>>
vars == <<poolVars, connVars, procVars, injected>>

PCs == {"idle", "get", "dial", "send", "wait", "put", "fail", "done"}

TypeOK ==
  /\ pool \in [Servers -> 0..MaxConn]
  /\ active \in Int
  /\ expired \in [Servers -> BOOLEAN]
  /\ stopped \in BOOLEAN
  /\ cleaner \in {"run", "ended"}
  /\ cst \in [Conns -> {"none", "open", "closed"}]
  /\ csrv \in [Conns -> Servers \cup {0}]
  /\ \A c \in Conns : /\ pend[c] \in Seq([id : Ids, q : Questions])
                      /\ wire[c] \in Seq(Frames)
  /\ peer \in [Conns -> {"open", "closed"}]
  /\ dirty \in [Conns -> BOOLEAN]
  /\ pc \in [Procs -> PCs]
  /\ srv \in [Procs -> Servers]
  /\ qn \in [Procs -> Questions]
  /\ id \in [Procs -> Ids]
  /\ conn \in [Procs -> 0..MaxConn]
  /\ tries \in [Procs -> 0..MaxTries]
  /\ tmoAt \in [Procs -> 0..MaxTries]
  /\ gaveUp \in [Procs -> BOOLEAN]
  /\ res \in [Procs -> {"none", "ok", "err"}]
  /\ acc \in [Procs -> Frames]
  /\ nextId \in 1..MaxStart + 1
  /\ injected \in 0..MaxInject

Init ==
  /\ pool = [s \in Servers |-> 0]
  /\ active = 0
  /\ expired = [s \in Servers |-> FALSE]
  /\ stopped = FALSE
  /\ cleaner = "run"
  /\ cst = [c \in Conns |-> "none"]
  /\ csrv = [c \in Conns |-> 0]
  /\ pend = [c \in Conns |-> <<>>]
  /\ wire = [c \in Conns |-> <<>>]
  /\ peer = [c \in Conns |-> "open"]
  /\ dirty = [c \in Conns |-> FALSE]
  /\ pc = [p \in Procs |-> "idle"]
  /\ srv = [p \in Procs |-> CHOOSE s \in Servers : TRUE]
  /\ qn = [p \in Procs |-> CHOOSE q \in Questions : TRUE]
  /\ id = [p \in Procs |-> 0]
  /\ conn = [p \in Procs |-> 0]
  /\ tries = [p \in Procs |-> 0]
  /\ tmoAt = [p \in Procs |-> 0]
  /\ gaveUp = [p \in Procs |-> FALSE]
  /\ res = [p \in Procs |-> "none"]
  /\ acc = [p \in Procs |-> NoFrame]
  /\ nextId = 1
  /\ injected = 0

---------------------------------------------------------------------------
Poolable(p) == Class[srv[p]] = "root" \/ qn[p] \in TwoLabel
Owning(p) == pc[p] \in {"send", "wait", "put", "fail"} /\ conn[p] # 0

\* what a read on the connection of p would find now
RecvEnabled(p) ==
  /\ pc[p] = "wait"
  /\ \/ cst[conn[p]] = "closed" \/ wire[conn[p]] # <<>> \/ peer[conn[p]] = "closed"

InternalEnabled ==
  \E p \in Procs : pc[p] \in {"get", "dial", "send", "put", "fail"} \/ RecvEnabled(p)

\* an attempt that is to die by the socket deadline (Sched only)
Hot(p) == pc[p] = "wait" /\ tmoAt[p] = tries[p] + 1
AnyHot == \E p \in Procs : Hot(p)

\* a move of the driver: at stable points, and never while a short-deadline attempt is out
Ctl == Sched => (~InternalEnabled /\ ~AnyHot)

---------------------------------------------------------------------------
\* dials the exchanges in progress may still make (an upper bound): a new exchange starts only when the
\* connection ids cannot run out (a bound of the model, not of the code)
RECURSIVE SumLeft(_)
SumLeft(S) == IF S = {} THEN 0
              ELSE LET p == CHOOSE x \in S : TRUE IN
                   (IF pc[p] \in {"idle", "done"} THEN 0 ELSE MaxTries - tries[p]) + SumLeft(S \ {p})

\* the caller enters Resolver.exchange
Start(p, s, q, r0, t) ==
  /\ Ctl
  /\ pc[p] \in {"idle", "done"}
  /\ nextId <= MaxStart
  /\ r0 \in Inits
  /\ Cardinality({c \in Conns : cst[c] = "none"}) >= SumLeft(Procs \ {p}) + (MaxTries - r0)
  /\ t \in (IF Sched /\ "deadline" \in Moves THEN {0} \cup (r0 + 1)..MaxTries ELSE {0})
  /\ pc' = [pc EXCEPT ![p] = "get"]
  /\ srv' = [srv EXCEPT ![p] = s]
  /\ qn' = [qn EXCEPT ![p] = q]
  /\ id' = [id EXCEPT ![p] = nextId]
  /\ nextId' = nextId + 1
  /\ tries' = [tries EXCEPT ![p] = r0]
  /\ tmoAt' = [tmoAt EXCEPT ![p] = t]
  /\ conn' = [conn EXCEPT ![p] = 0]
  /\ gaveUp' = [gaveUp EXCEPT ![p] = FALSE]
  /\ res' = [res EXCEPT ![p] = "none"]
  /\ acc' = [acc EXCEPT ![p] = NoFrame]
  /\ UNCHANGED <<poolVars, connVars, injected>>

\* TCPConnPool.Get
Get(p) ==
  /\ pc[p] = "get"
  /\ LET s == srv[p] IN
     IF ~Poolable(p) \/ pool[s] = 0
     THEN /\ pc' = [pc EXCEPT ![p] = "dial"]
          /\ UNCHANGED <<pool, active, expired, cst, conn>>
     ELSE IF ExpiryCheck /\ expired[s]
     THEN /\ cst' = [cst EXCEPT ![pool[s]] = "closed"]
          /\ pool' = [pool EXCEPT ![s] = 0]
          /\ active' = active - 1
          /\ expired' = [expired EXCEPT ![s] = FALSE]
          /\ pc' = [pc EXCEPT ![p] = "dial"]
          /\ UNCHANGED conn
     ELSE /\ conn' = [conn EXCEPT ![p] = pool[s]]
          /\ pc' = [pc EXCEPT ![p] = "send"]
          /\ IF GetRemoves
             THEN /\ pool' = [pool EXCEPT ![s] = 0]
                  /\ active' = active - 1
                  /\ expired' = [expired EXCEPT ![s] = FALSE]
             ELSE UNCHANGED <<pool, active, expired>>
          /\ UNCHANGED cst
  /\ UNCHANGED <<stopped, cleaner, csrv, pend, wire, peer, dirty, srv, qn, id, tries, tmoAt, gaveUp, res, acc,
                 nextId, injected>>

Unused == {c \in Conns : cst[c] = "none"}

\* Dialer.DialContext
Dial(p) ==
  /\ pc[p] = "dial"
  /\ Unused # {}
  /\ \E c \in (IF AnyConn THEN Unused ELSE {CHOOSE c \in Unused : \A d \in Unused : c <= d}) :
       /\ cst' = [cst EXCEPT ![c] = "open"]
       /\ csrv' = [csrv EXCEPT ![c] = srv[p]]
       /\ conn' = [conn EXCEPT ![p] = c]
  /\ pc' = [pc EXCEPT ![p] = "send"]
  /\ UNCHANGED <<poolVars, pend, wire, peer, dirty, srv, qn, id, tries, tmoAt, gaveUp, res, acc, nextId, injected>>

\* Conn.WriteMsg
Send(p) ==
  /\ pc[p] = "send"
  /\ LET c == conn[p] IN
     IF cst[c] = "closed"
     THEN /\ pc' = [pc EXCEPT ![p] = "fail"]
          /\ UNCHANGED pend
     ELSE /\ pc' = [pc EXCEPT ![p] = "wait"]
          /\ pend' = IF peer[c] = "open" THEN [pend EXCEPT ![c] = Append(@, [id |-> id[p], q |-> qn[p]])] ELSE pend
  /\ UNCHANGED <<poolVars, cst, csrv, wire, peer, dirty, srv, qn, id, conn, tries, tmoAt, gaveUp, res, acc, nextId,
                 injected>>

\* Conn.ReadMsg, then the ID check, then the question check (conn.go, the stream branch)
Recv(p) ==
  /\ RecvEnabled(p)
  /\ LET c == conn[p] IN
     IF cst[c] = "closed" \/ wire[c] = <<>>
     THEN /\ pc' = [pc EXCEPT ![p] = "fail"]          \* use of closed connection / EOF
          /\ UNCHANGED <<wire, acc>>
     ELSE LET f == Head(wire[c]) IN
          /\ wire' = [wire EXCEPT ![c] = Tail(@)]
          /\ IF f.k = "part" \/ (CheckId /\ f.id # id[p]) \/ (CheckQ /\ f.q # qn[p])
             THEN /\ pc' = [pc EXCEPT ![p] = "fail"]  \* unexpected EOF / ErrId / ErrQuestion
                  /\ UNCHANGED acc
             ELSE /\ pc' = [pc EXCEPT ![p] = "put"]
                  /\ acc' = [acc EXCEPT ![p] = f]
  /\ UNCHANGED <<poolVars, cst, csrv, pend, peer, dirty, srv, qn, id, conn, tries, tmoAt, gaveUp, res, nextId,
                 injected>>

\* the request context ends the exchange (interrupt -> SetDeadline(now); or the check after the read)
GiveUp(p) ==
  /\ "giveup" \in Moves
  /\ Ctl
  /\ pc[p] = "wait" \/ (~Sched /\ pc[p] = "put")
  /\ pc' = [pc EXCEPT ![p] = "fail"]
  /\ gaveUp' = [gaveUp EXCEPT ![p] = TRUE]
  /\ acc' = [acc EXCEPT ![p] = NoFrame]          \* resp = nil: nothing is handed to the caller
  /\ UNCHANGED <<poolVars, connVars, srv, qn, id, conn, tries, tmoAt, res, nextId, injected>>

\* the socket deadline (r.netTimeout) ends the read; the context is alive
Deadline(p) ==
  /\ "deadline" \in Moves
  /\ pc[p] = "wait"
  /\ Sched => (~InternalEnabled /\ Hot(p))
  /\ pc' = [pc EXCEPT ![p] = "fail"]
  /\ UNCHANGED <<poolVars, connVars, srv, qn, id, conn, tries, tmoAt, gaveUp, res, acc, nextId, injected>>

\* TCPConnPool.Put on connection c for server s (the part under p.mu)
PutOp(c, s, z) ==
  IF BoundCheck /\ active >= PoolMax
  THEN /\ cst' = [cst EXCEPT ![c] = "closed"] /\ UNCHANGED <<pool, active, expired>>
  ELSE IF z
  THEN /\ cst' = [cst EXCEPT ![c] = "closed"] /\ UNCHANGED <<pool, active, expired>>
  ELSE IF pool[s] # 0 /\ pool[s] # c
  THEN IF KeepExisting
       THEN /\ cst' = [cst EXCEPT ![c] = "closed"]
            /\ expired' = [expired EXCEPT ![s] = FALSE]
            /\ UNCHANGED <<pool, active>>
       ELSE /\ pool' = [pool EXCEPT ![s] = c]          \* the displaced connection stays open, owned by nobody
            /\ active' = active + 1
            /\ expired' = [expired EXCEPT ![s] = FALSE]
            /\ UNCHANGED cst
  ELSE IF pool[s] = c                                    \* only reachable in a mutant (Get did not remove)
  THEN /\ IF KeepExisting THEN cst' = [cst EXCEPT ![c] = "closed"] ELSE UNCHANGED cst
       /\ expired' = [expired EXCEPT ![s] = FALSE]
       /\ active' = IF KeepExisting THEN active ELSE active + 1
       /\ UNCHANGED pool
  ELSE /\ pool' = [pool EXCEPT ![s] = c]
       /\ active' = active + 1
       /\ expired' = [expired EXCEPT ![s] = FALSE]
       /\ UNCHANGED cst

\* exchange returns: the per-call state is forgotten (only the result stays, for the caller)
Return(p, r) ==
  /\ pc' = [pc EXCEPT ![p] = "done"]
  /\ res' = [res EXCEPT ![p] = r]
  /\ conn' = [conn EXCEPT ![p] = 0]
  /\ tries' = [tries EXCEPT ![p] = 0]
  /\ tmoAt' = [tmoAt EXCEPT ![p] = 0]
  /\ gaveUp' = [gaveUp EXCEPT ![p] = FALSE]
  /\ acc' = [acc EXCEPT ![p] = NoFrame]
  /\ id' = [id EXCEPT ![p] = 0]
  /\ UNCHANGED <<srv, qn, nextId>>

\* the error path of exchange: ReleaseConn, then retry (retried < 2, context alive) or return
Fail(p) ==
  /\ pc[p] = "fail"
  /\ LET c == conn[p] IN
     /\ dirty' = [dirty EXCEPT ![c] = TRUE]
     /\ IF CloseOnError \/ ~Poolable(p)
        THEN /\ cst' = [cst EXCEPT ![c] = "closed"] /\ UNCHANGED <<pool, active, expired>>
        ELSE PutOp(c, srv[p], FALSE)
  /\ IF gaveUp[p] \/ tries[p] >= MaxTries - 1
     THEN Return(p, "err")
     ELSE /\ pc' = [pc EXCEPT ![p] = "get"]
          /\ tries' = [tries EXCEPT ![p] = @ + 1]
          /\ conn' = [conn EXCEPT ![p] = 0]
          /\ UNCHANGED <<res, srv, qn, id, tmoAt, gaveUp, acc, nextId>>
  /\ UNCHANGED <<stopped, cleaner, csrv, pend, wire, peer, injected>>

\* the success path of exchange: TCPConnPool.Put, or ReleaseConn for what is not pooled
Put(p) ==
  /\ pc[p] = "put"
  /\ LET c == conn[p] IN
     IF Poolable(p)
     THEN PutOp(c, srv[p], acc[p].ka0)
     ELSE /\ cst' = [cst EXCEPT ![c] = "closed"] /\ UNCHANGED <<pool, active, expired>>
  /\ Return(p, "ok")
  /\ UNCHANGED <<stopped, cleaner, csrv, pend, wire, peer, dirty, injected>>

\* time passes for the resident connection of s
IdleTick(s) ==
  /\ "tick" \in Moves
  /\ Ctl
  /\ pool[s] # 0 /\ ~expired[s]
  /\ expired' = [expired EXCEPT ![s] = TRUE]
  /\ UNCHANGED <<pool, active, stopped, cleaner, connVars, procVars, injected>>

\* TCPConnPool.cleanup (one pass of cleanupLoop)
Cleanup ==
  /\ "cleanup" \in Moves
  /\ Ctl
  /\ cleaner = "run"
  /\ \E s \in Servers : pool[s] # 0 /\ expired[s]
  /\ LET gone == {s \in Servers : pool[s] # 0 /\ expired[s]} IN
     /\ cst' = [c \in Conns |-> IF \E s \in gone : pool[s] = c THEN "closed" ELSE cst[c]]
     /\ pool' = [s \in Servers |-> IF s \in gone THEN 0 ELSE pool[s]]
     /\ active' = active - Cardinality(gone)
     /\ expired' = [s \in Servers |-> IF s \in gone THEN FALSE ELSE expired[s]]
  /\ UNCHANGED <<stopped, cleaner, csrv, pend, wire, peer, dirty, procVars, injected>>

\* TCPConnPool.Close
Stop ==
  /\ "stop" \in Moves
  /\ Ctl
  /\ ~stopped
  /\ cst' = [c \in Conns |-> IF \E s \in Servers : pool[s] = c THEN "closed" ELSE cst[c]]
  /\ pool' = [s \in Servers |-> 0]
  /\ active' = 0
  /\ expired' = [s \in Servers |-> FALSE]
  /\ stopped' = TRUE
  /\ cleaner' = IF StopEndsCleaner THEN "ended" ELSE cleaner
  /\ UNCHANGED <<csrv, pend, wire, peer, dirty, procVars, injected>>

---------------------------------------------------------------------------
\* the upstream servers

\* in Sched mode the servers leave an attempt alone that is to die by its socket deadline
\* (and, when scheduled, do not bother with connections the client has already closed)
SrvCtl(c) == Ctl /\ cst[c] # "none" /\ peer[c] = "open" /\ (Sched => cst[c] = "open")

SrvReply(c, z) ==
  /\ SrvCtl(c)
  /\ pend[c] # <<>>
  /\ z \in (IF "ka0" \in Moves THEN BOOLEAN ELSE {FALSE})
  /\ wire' = [wire EXCEPT ![c] = Append(@, Msg(Head(pend[c]).id, Head(pend[c]).q, z))]
  /\ pend' = [pend EXCEPT ![c] = Tail(@)]
  /\ UNCHANGED <<poolVars, cst, csrv, peer, dirty, procVars, injected>>

\* a frame nobody is waiting for: a duplicate, a late answer to an earlier exchange, a forged one
SrvInject(c, i, q) ==
  /\ "inject" \in Moves
  /\ SrvCtl(c)
  /\ injected < MaxInject
  /\ i \in 0..nextId - 1
  /\ wire' = [wire EXCEPT ![c] = Append(@, Msg(i, q, FALSE))]
  /\ injected' = injected + 1
  /\ UNCHANGED <<poolVars, cst, csrv, pend, peer, dirty, procVars>>

SrvClose(c) ==
  /\ "close" \in Moves
  /\ SrvCtl(c)
  /\ peer' = [peer EXCEPT ![c] = "closed"]
  /\ pend' = [pend EXCEPT ![c] = <<>>]
  /\ UNCHANGED <<poolVars, cst, csrv, wire, dirty, procVars, injected>>

SrvCloseMid(c) ==
  /\ "closemid" \in Moves
  /\ SrvCtl(c)
  /\ pend[c] # <<>>
  /\ wire' = [wire EXCEPT ![c] = Append(@, Part)]
  /\ peer' = [peer EXCEPT ![c] = "closed"]
  /\ pend' = [pend EXCEPT ![c] = <<>>]
  /\ UNCHANGED <<poolVars, cst, csrv, dirty, procVars, injected>>

---------------------------------------------------------------------------
Internal(p) == Get(p) \/ Dial(p) \/ Send(p) \/ Recv(p) \/ Fail(p) \/ Put(p)

Next ==
  \/ \E p \in Procs, s \in Servers, q \in Questions, r0 \in 0..MaxTries - 1, t \in 0..MaxTries : Start(p, s, q, r0, t)
  \/ \E p \in Procs : Get(p) \/ Dial(p) \/ Send(p) \/ Recv(p) \/ Fail(p) \/ Put(p) \/ GiveUp(p) \/ Deadline(p)
  \/ \E s \in Servers : IdleTick(s)
  \/ Cleanup
  \/ Stop
  \/ \E c \in Conns : \/ \E z \in BOOLEAN : SrvReply(c, z)
                      \/ \E i \in Ids, q \in Questions : SrvInject(c, i, q)
                      \/ SrvClose(c)
                      \/ SrvCloseMid(c)

Spec == Init /\ [][Next]_vars

\* every step of the code is eventually taken; a read that nothing answers ends at its deadline;
\* the cleanup goroutine keeps passing
Fair ==
  /\ \A p \in Procs : WF_vars(Internal(p)) /\ WF_vars(Deadline(p))
  /\ WF_vars(Cleanup)
LiveSpec == Spec /\ Fair

---------------------------------------------------------------------------
\* Properties.

\* C10: a pooled connection has at most one owner; what is in the pool is owned by nobody
SingleOwner ==
  /\ \A p1, p2 \in Procs : (p1 # p2 /\ Owning(p1) /\ Owning(p2)) => conn[p1] # conn[p2]
  /\ \A p \in Procs, s \in Servers : Owning(p) => pool[s] # conn[p]

\* C10: what an exchange accepts as its reply carries its own ID and its own question (so a late reply to a
\* previous exchange on a reused connection, or anything else left unread on it, is never handed to the next
\* client: it is read under the same check)
AcceptedIsOwn ==
  \A p \in Procs : acc[p] # NoFrame => (acc[p].id = id[p] /\ acc[p].q = qn[p])

\* C10: a connection that errored, timed out mid-read or was closed under the exchange is never pooled
NoDirtyPooled ==
  \A s \in Servers : pool[s] # 0 => (cst[pool[s]] = "open" /\ ~dirty[pool[s]])

\* nobody else closes the connection an exchange is using
NoCloseUnderOwner ==
  \A p \in Procs : (pc[p] \in {"send", "wait", "put"} /\ conn[p] # 0) => cst[conn[p]] = "open"

\* an exchange returns a reply exactly when it accepted one (judged where the success path starts)
AcceptedIffPut == \A p \in Procs : (pc[p] = "put") <=> (acc[p] # NoFrame)
ResultMatches ==
  [][\A p \in Procs : (pc'[p] = "done" /\ pc[p] # "done") => ((res'[p] = "ok") <=> (pc[p] = "put"))]_vars

\* C11: the counter is the number of pooled connections, within the bound, one per server, of that server
ActiveIsCount == active = Cardinality({s \in Servers : pool[s] # 0})
PoolBound == active <= PoolMax /\ Cardinality({s \in Servers : pool[s] # 0}) <= PoolMax
PooledOfServer == \A s \in Servers : pool[s] # 0 => csrv[pool[s]] = s
PooledOnce == \A s1, s2 \in Servers : (s1 # s2 /\ pool[s1] # 0) => pool[s1] # pool[s2]

\* C11: no socket is left behind: an open connection is owned by an exchange or sits in the pool
NoLeak ==
  \A c \in Conns : cst[c] = "open" => ((\E p \in Procs : Owning(p) /\ conn[p] = c) \/ (\E s \in Servers : pool[s] = c))

\* C11: Get never hands out an expired connection; Stop closes everything that is pooled
ExpiredNeverHandedOut ==
  [][\A p \in Procs : (pc[p] = "get" /\ pc'[p] = "send") => ~expired[srv[p]]]_vars
StopClosesAll ==
  [][(stopped' /\ ~stopped) =>
       \A s \in Servers : pool[s] # 0 => (cst'[pool[s]] = "closed" /\ pool'[s] = 0)]_vars
ClosedIsFinal == [][\A c \in Conns : cst[c] = "closed" => cst'[c] = "closed"]_vars

\* liveness (LiveSpec): an exchange returns; an expired connection does not stay pooled
Returns == \A p \in Procs : (pc[p] = "get") ~> (pc[p] = "done")
ExpiredGoes == \A s \in Servers : expired[s] ~> ~expired[s]

\* the two quiescence statements that are NOT true of the code as written (MC_obs_*.cfg)
CleanerEnds == stopped => cleaner = "ended"
QuietAfterStop ==
  (stopped /\ \A p \in Procs : pc[p] \in {"idle", "done"}) => \A c \in Conns : cst[c] # "open"

\* bounds for the exhaustive runs
Bounded == \A c \in Conns : Len(wire[c]) <= 2 /\ Len(pend[c]) <= 2
=============================================================================
