CONSTANTS
  Servers = {1, 2, 3}
  Class <- ClassRRR
  Procs = {1, 2, 3}
  Questions = {"a.", "b."}
  TwoLabel = {}
  MaxConn = 12
  MaxStart = 8
  MaxInject = 2
  PoolMax = 2
  MaxTries = 3
  Inits = {1, 2}
  Moves = {"giveup", "tick", "cleanup", "stop", "inject", "close"}
  Sched = TRUE
  AnyConn = FALSE
  GetRemoves = TRUE
  CheckId = TRUE
  CheckQ = TRUE
  CloseOnError = TRUE
  KeepExisting = TRUE
  BoundCheck = TRUE
  ExpiryCheck = TRUE
  StopEndsCleaner = FALSE
INIT Init
NEXT Next
CHECK_DEADLOCK FALSE
