CONSTANTS
  Clients <- AudAllowClients
  Addr <- AudAddr
  SentBits = {0, 24, 32}
  Scopes = {0, 16, 24}
  FwdMax = 24
  Floor = 24
  Enabled = TRUE
  MaxSteps = 6
  Fwd6Max = 56
  Floor6 = 48
  Allow <- AudAllow
  Mapped = {2, 3, 4}
  CDs = {FALSE, TRUE}
  UpCd = {"echo"}
  Dnssec = FALSE
  Bug = "none"
INIT Init
NEXT Next

INVARIANTS TypeOK EcsLeavesOnlyIfAllowed NeverTooSpecific
CHECK_DEADLOCK FALSE
