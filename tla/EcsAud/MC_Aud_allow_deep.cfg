CONSTANTS
  Clients <- AudAllowClients
  Addr <- AudAddr
  SentBits = {0, 24, 32}
  Scopes = {0, 16, 24}
  FwdMax = 24
  Floor = 24
  Enabled = TRUE
  MaxSteps = 4
  Fwd6Max = 56
  Floor6 = 48
  Allow <- AudAllow
  Mapped = {2, 3, 4}
  CDs = {FALSE, TRUE}
  UpCd = {"echo"}
  Dnssec = FALSE
  Bug = "none"
INIT Init
NEXT Next
VIEW View
INVARIANTS TypeOK EcsLeavesOnlyIfAllowed NeverTooSpecific
PROPERTIES ScopedAudience CdPartition
CHECK_DEADLOCK FALSE
