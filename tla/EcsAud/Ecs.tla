--------------------------------- MODULE Ecs ---------------------------------
(***************************************************************************)
(* ECS-aware caching (C19, and the audience / checking-disabled clauses of *)
(* C03): what leaves upstream, under which key and partition an answer is  *)
(* stored, and who may be served from it.                                  *)
(*                                                                         *)
(* Transcribed from dnsutil.SetEdns0 + ecs.Policy.Allows / Clamp           *)
(* (forwarding), ecs.Build (policy compile: unset ceilings and floors take *)
(* their defaults PER FAMILY), cache.requestScope / scopedLookup (longest-  *)
(* prefix probe from the client's forwarded bits down to /1, then the      *)
(* shared key), ecs.ReadResponseScope + Policy.ClampScope (stored scope =  *)
(* authority's scope, no more specific than what was forwarded nor than    *)
(* the floor), cache.ResponseWriter.WriteMsg (the entry is filed in the CD *)
(* partition of the RESPONSE header) and forwarder.ServeDNS (which pins    *)
(* that header bit to the client's own CD whatever the upstream put there).*)
(*                                                                         *)
(* Addresses are bit sequences (32 bits = IPv4, 128 bits = IPv6), a prefix *)
(* is the sequence of its first bits; one question per behaviour.          *)
(*                                                                         *)
(* Dimensions added for C03 (GAP seeded/C03-r3-1..3): the address family   *)
(* with its own ceiling/floor (0 = left unset in the configuration), the   *)
(* client_networks allow-list together with the form in which the          *)
(* transport reports an IPv4 peer (4 bytes, or 16 bytes IPv4-mapped as a   *)
(* dual-stack socket does), the client's CD bit, and an upstream that      *)
(* echoes / clears / sets the CD bit of its replies (forwarder mode, with  *)
(* DNSSEC on or off).  Bug selects a model mutant (negative configs).      *)
(***************************************************************************)
EXTENDS Integers, FiniteSets, Sequences, TLC

CONSTANTS Clients,     \* set of client ids
          Addr,        \* [Clients -> bit sequence of length 32 or 128]
          SentBits,    \* set of source prefix lengths a client may send; 0 = no ECS option
          Scopes,      \* set of SCOPE values the authority may return
          FwdMax,      \* policy: forward_v4 - forward at most this many bits (0 = unset: 24)
          Floor,       \* policy: min_scope_v4 (stored scope no more specific than this; 0 = unset: the v4 ceiling)
          Enabled,     \* policy enabled
          MaxSteps,
          Fwd6Max,     \* policy: forward_v6 (0 = unset: 56)
          Floor6,      \* policy: min_scope_v6 (0 = unset: the v6 ceiling)
          Allow,       \* policy: client_networks, a set of [w |-> 32 or 128, p |-> bit sequence]; {} = every client
          Mapped,      \* clients (IPv4) whose transport reports the peer address in IPv4-mapped form
          CDs,         \* CD values clients use
          UpCd,        \* subset of {"echo", "clear", "set"}: the CD bit the upstream leaves in its reply header
          Dnssec,      \* forwarder with dnssec = "on" (the client's CD goes upstream) / off (CD=1 upstream)
          Bug          \* "none", or a mutant: "floor6from4" | "cdUnpinned" | "cacheSeesMapped"

VARIABLES scoped,    \* set of [fam, base, bits, cd, gen]
          shared,    \* [BOOLEAN -> 0 or gen of the entry under the shared key of that CD partition]
          gens,      \* sequence of upstream exchanges: [elig, fam, fwd, fwdBits, scope, cd]  (ghost + oracle)
          n,
          last       \* last client-visible outcome (hidden by VIEW)

vars == <<scoped, shared, gens, n, last>>

Pfx(a, b) == SubSeq(a, 1, b)
Min(a, b) == IF a < b THEN a ELSE b
Width(c) == Len(Addr[c])
Fam(c) == IF Width(c) = 32 THEN 4 ELSE 6

(* ecs.Build: the compiled policy.  FloorSpec is what the configuration    *)
(* documents ("defaults match the forwarding ceilings" - of the same       *)
(* family); FloorOf is what the (possibly mutated) model compiles.         *)
CeilOf(f) == IF f = 4 THEN (IF FwdMax = 0 THEN 24 ELSE FwdMax) ELSE (IF Fwd6Max = 0 THEN 56 ELSE Fwd6Max)
FloorSpec(f) == IF f = 4 THEN (IF Floor = 0 THEN CeilOf(4) ELSE Floor) ELSE (IF Floor6 = 0 THEN CeilOf(6) ELSE Floor6)
FloorOf(f) == IF Bug = "floor6from4" /\ f = 6 /\ Floor6 = 0 THEN CeilOf(4) ELSE FloorSpec(f)

(* Policy.Allows on the client's address.  edns.ServeDNS and Cache.ServeDNS *)
(* both unmap an IPv4-mapped peer first, so the two agree on eligibility.  *)
InAllow(c) == Allow = {} \/ \E p \in Allow : p.w = Width(c) /\ Len(p.p) <= Width(c) /\ Pfx(Addr[c], Len(p.p)) = p.p
EdnsEligible(c) == Enabled /\ InAllow(c)
(* mutant: the cache tests the 16-byte mapped form, which no IPv4 prefix contains *)
CacheEligible(c) == Enabled /\ (IF Bug = "cacheSeesMapped" /\ c \in Mapped THEN Allow = {} ELSE InAllow(c))

(* what SetEdns0 re-attaches for upstream: nothing unless enabled, eligible and the client sent ECS *)
FwdBits(c, sent) == IF ~EdnsEligible(c) \/ sent = 0 THEN 0 ELSE Min(sent, CeilOf(Fam(c)))
(* Cache.requestScope: the (already clamped) option edns left on the request, if the cache finds the client eligible *)
CacheBits(c, sent) == IF CacheEligible(c) THEN FwdBits(c, sent) ELSE 0

(* ClampScope *)
StoredBits(scope, fwdBits, f) == Min(Min(scope, fwdBits), FloorOf(f))

(* the CD partition ResponseWriter.WriteMsg files under: the response header's bit, *)
(* which the forwarder pins to the client's own                                     *)
HeaderCd(cd, up) == CASE up = "echo" -> (IF Dnssec THEN cd ELSE TRUE) [] up = "clear" -> FALSE [] OTHER -> TRUE
PartitionOf(cd, up) == IF Bug = "cdUnpinned" /\ Dnssec THEN HeaderCd(cd, up) ELSE cd

Init == scoped = {} /\ shared = [b \in BOOLEAN |-> 0] /\ gens = <<>> /\ n = 0 /\ last = [kind |-> "init"]

(* scopedLookup: longest stored prefix containing the client's forwarded prefix *)
Probe(f, a, bits, cd) ==
  LET cand == {e \in scoped : e.fam = f /\ e.cd = cd /\ e.bits >= 1 /\ e.bits <= bits /\ e.base = Pfx(a, e.bits)}
  IN IF cand = {} THEN 0
     ELSE (CHOOSE e \in cand : \A g \in cand : g.bits <= e.bits).gen

Query(c, sent, scope, cd, up) ==
  /\ n < MaxSteps
  /\ sent <= Width(c) /\ scope <= Width(c)
  /\ (FwdBits(c, sent) = 0 => scope = 0)     \* a SCOPE is only returned (and only matters) when a subnet was forwarded
  /\ LET fb == FwdBits(c, sent)
         cb == CacheBits(c, sent)
         f == Fam(c)
         hit == IF cb > 0 THEN Probe(f, Addr[c], cb, cd) ELSE 0
     IN IF hit # 0 THEN
          /\ last' = [kind |-> "hit", c |-> c, sent |-> sent, scope |-> scope, cd |-> cd, up |-> up, gen |-> hit, scopedHit |-> TRUE]
          /\ UNCHANGED <<scoped, shared, gens>>
        ELSE IF shared[cd] # 0 THEN
          /\ last' = [kind |-> "hit", c |-> c, sent |-> sent, scope |-> scope, cd |-> cd, up |-> up, gen |-> shared[cd], scopedHit |-> FALSE]
          /\ UNCHANGED <<scoped, shared, gens>>
        ELSE
          LET g == Len(gens) + 1
              sc == IF fb = 0 THEN 0 ELSE scope      \* an authority that saw no ECS returns none
              pcd == PartitionOf(cd, up)
              sb == StoredBits(sc, cb, f)
          IN /\ gens' = Append(gens, [elig |-> EdnsEligible(c), fam |-> f, fwd |-> Pfx(Addr[c], fb), fwdBits |-> fb, scope |-> sc, cd |-> cd])
             /\ IF sc = 0 \/ cb = 0
                  THEN shared' = [shared EXCEPT ![pcd] = g] /\ UNCHANGED scoped
                  ELSE scoped' = {e \in scoped : ~(e.fam = f /\ e.bits = sb /\ e.cd = pcd /\ e.base = Pfx(Addr[c], sb))}
                                   \cup {[fam |-> f, base |-> Pfx(Addr[c], sb), bits |-> sb, cd |-> pcd, gen |-> g]}
                       /\ UNCHANGED shared
             /\ last' = [kind |-> "miss", c |-> c, sent |-> sent, scope |-> sc, cd |-> cd, up |-> up, gen |-> g, fwdBits |-> fb]
  /\ n' = n + 1

Next == \E c \in Clients, s \in SentBits, sc \in Scopes, cd \in CDs, up \in UpCd : Query(c, s, sc, cd, up)
Spec == Init /\ [][Next]_vars

(* ------------------------------ properties ---------------------------- *)
(* ECS leaves only when enabled and the client is eligible, truncated to <= the family's ceiling with host bits dropped *)
EcsLeavesOnlyIfAllowed ==
  \A i \in 1..Len(gens) :
    /\ gens[i].fwdBits <= CeilOf(gens[i].fam)
    /\ (~gens[i].elig => gens[i].fwdBits = 0)
    /\ (~Enabled => gens[i].fwdBits = 0)
    /\ Len(gens[i].fwd) = gens[i].fwdBits             \* host bits dropped: a prefix is exactly its first bits

(* a scoped answer is served only to clients inside its (clamped) scope: same family, sent ECS, *)
(* eligible, and inside min(authority scope, forwarded, documented floor)                      *)
ScopedAudience ==
  [][(last'.kind = "hit" /\ gens[last'.gen].scope # 0) =>
       LET g == gens[last'.gen]
           b == Min(Min(g.scope, g.fwdBits), FloorSpec(g.fam))
       IN /\ last'.sent # 0                                  \* a client without ECS never gets a scoped answer
          /\ EdnsEligible(last'.c)
          /\ Fam(last'.c) = g.fam
          /\ Pfx(Addr[last'.c], b) = Pfx(g.fwd, b)]_vars

(* C03: an answer obtained for a CD=x question is served only to CD=x questions *)
CdPartition ==
  [][last'.kind = "hit" => gens[last'.gen].cd = last'.cd]_vars

(* never stored more specific than what was forwarded or than the floor *)
NeverTooSpecific == \A e \in scoped : e.bits <= FloorSpec(e.fam) /\ e.bits <= gens[e.gen].fwdBits /\ e.bits >= 1

TypeOK == n \in 0..MaxSteps /\ \A b \in BOOLEAN : shared[b] \in 0..MaxSteps

View == <<scoped, shared, gens, n>>
=============================================================================
