CONSTANTS
  Clients <- AudCdClients
  Addr <- AudAddr
  SentBits = {0, 32}
  Scopes = {0, 24}
  FwdMax = 24
  Floor = 24
  Enabled = TRUE
  MaxSteps = 6
  Fwd6Max = 56
  Floor6 = 56
  Allow = {}
  Mapped = {2}
  CDs = {FALSE, TRUE}
  UpCd = {"echo", "clear", "set"}
  Dnssec = FALSE
  Bug = "none"
INIT Init
NEXT Next

INVARIANTS TypeOK EcsLeavesOnlyIfAllowed NeverTooSpecific
CHECK_DEADLOCK FALSE
