CONSTANTS
  Clients <- AudFamClients
  Addr <- AudAddr
  SentBits = {0, 32, 56, 64}
  Scopes = {0, 24, 48, 56, 64}
  FwdMax = 0
  Floor = 0
  Enabled = TRUE
  MaxSteps = 3
  Fwd6Max = 0
  Floor6 = 0
  Allow = {}
  Mapped = {10}
  CDs = {FALSE}
  UpCd = {"echo"}
  Dnssec = FALSE
  Bug = "floor6from4"
INIT Init
NEXT Next
VIEW View
INVARIANTS TypeOK EcsLeavesOnlyIfAllowed NeverTooSpecific
PROPERTIES ScopedAudience CdPartition
CHECK_DEADLOCK FALSE
