CONSTANTS
  ZoneKinds <- MCZoneKinds
  QKinds <- MCQKinds
  Tampers <- MCTamperPairs
  Flags <- MCFlags
  Anchors = {TRUE, FALSE}
  Fallbacks = {"none"}
  FailoverRule = "statement"
SPECIFICATION Spec
INVARIANTS TruthOrServfail NeverAlteredData VerdictIsFinal ADImpliesSecure InsecureOnlyByProof NoAnchorFailsClosed ServfailHasEDE
PROPERTIES Terminates
CHECK_DEADLOCK FALSE
