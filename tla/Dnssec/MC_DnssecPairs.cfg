CONSTANTS
  ZoneKinds <- MCZoneKinds
  QKinds <- MCQKinds
  Tampers <- MCTamperPairs
  Flags <- MCFlags
  Anchors = {TRUE, FALSE}
SPECIFICATION Spec
INVARIANTS TruthOrServfail NeverAlteredData ADImpliesSecure InsecureOnlyByProof NoAnchorFailsClosed ServfailHasEDE
PROPERTIES Terminates
CHECK_DEADLOCK FALSE
