CONSTANTS
  ZoneKinds <- MCZoneKinds
  QKinds <- MCQKinds
  Tampers <- MCTampers
  Flags <- MCFlags
  Anchors = {TRUE, FALSE}
  Fallbacks = {"none"}
  FailoverRule = "asbuilt"
SPECIFICATION Spec
INVARIANTS TruthOrServfail NeverAlteredData VerdictIsFinal ADImpliesSecure InsecureOnlyByProof NoAnchorFailsClosed ServfailHasEDE
PROPERTIES Terminates
CHECK_DEADLOCK FALSE
