\* negative twin: failover.go as built (every SERVFAIL retried at the fallback resolver, its AD relayed) must violate ADImpliesSecure
CONSTANTS
  ZoneKinds <- NegZoneKinds
  QKinds <- NegQKinds
  Tampers <- MCTampers
  Flags <- MCFlags
  Anchors = {TRUE}
  Fallbacks = {"honest", "lying"}
  FailoverRule = "asbuilt"
SPECIFICATION Spec
INVARIANTS ADImpliesSecure
CHECK_DEADLOCK FALSE
