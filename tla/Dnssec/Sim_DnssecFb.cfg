CONSTANTS
  ZoneKinds <- MCZoneKinds
  QKinds <- MCQKinds
  Tampers <- MCTampers
  Flags <- MCFlags
  Anchors = {TRUE, FALSE}
  Fallbacks = {"honest", "lying"}
  FailoverRule = "statement"
INIT Init
NEXT Next
CHECK_DEADLOCK FALSE
