CONSTANTS
  ZoneKinds <- MCZoneKinds
  QKinds <- MCQKinds
  Tampers <- MCTampers
  Flags <- MCFlags
  Anchors = {TRUE, FALSE}
SPECIFICATION Spec
INVARIANTS TruthOrServfail NeverAlteredData ADImpliesSecure InsecureOnlyByProof NoAnchorFailsClosed ServfailHasEDE
PROPERTIES Terminates
CHECK_DEADLOCK FALSE
