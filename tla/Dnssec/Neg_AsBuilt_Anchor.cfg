\* negative twin: failover.go as built (every SERVFAIL retried at the fallback resolver, its AD relayed) must violate NoAnchorFailsClosed
CONSTANTS
  ZoneKinds <- NegZoneKinds
  QKinds <- NegQKinds
  Tampers <- MCTampers
  Flags <- MCFlags
  Anchors = {FALSE}
  Fallbacks = {"honest", "lying"}
  FailoverRule = "asbuilt"
SPECIFICATION Spec
INVARIANTS NoAnchorFailsClosed
CHECK_DEADLOCK FALSE
