\* negative twin: validation verdicts final, but an availability failure answered by the fallback resolver keeps that
\* resolver's AD bit: must violate ADImpliesSecure (AD on data nobody here validated)
CONSTANTS
  ZoneKinds <- NegZoneKinds
  QKinds <- NegQKinds
  Tampers <- MCTampers
  Flags <- MCFlags
  Anchors = {TRUE}
  Fallbacks = {"honest", "lying"}
  FailoverRule = "relayad"
SPECIFICATION Spec
INVARIANTS ADImpliesSecure
CHECK_DEADLOCK FALSE
