CONSTANTS
  ZoneKinds <- MCZoneKinds
  QKinds <- MCQKinds
  Tampers <- MCTamperPairs
  Flags <- MCFlags
  Anchors = {TRUE, FALSE}
INIT Init
NEXT Next
CHECK_DEADLOCK FALSE
