\* negative twin: failover.go as built (every SERVFAIL retried at the fallback resolver, its AD relayed) must violate VerdictIsFinal
CONSTANTS
  ZoneKinds <- NegZoneKinds
  QKinds <- NegQKinds
  Tampers <- MCTampers
  Flags <- MCFlags
  Anchors = {TRUE}
  Fallbacks = {"honest", "lying"}
  FailoverRule = "asbuilt"
SPECIFICATION Spec
INVARIANTS VerdictIsFinal
CHECK_DEADLOCK FALSE
