CONSTANTS
  ZoneKinds <- MCZoneKinds
  QKinds <- MCQKinds
  Tampers <- MCTampers
  Flags <- MCFlags
  Anchors = {TRUE, FALSE}
INIT Init
NEXT Next
CHECK_DEADLOCK FALSE
