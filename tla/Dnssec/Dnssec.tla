------------------------------- MODULE Dnssec -------------------------------
(***************************************************************************)
(* Chain of trust from the configured anchor down to one client answer,    *)
(* with an adversary that tampers with one (or two) upstream responses.    *)
(*                                                                         *)
(* The resolver side is the code's validation pipeline, one action per     *)
(* step (Resolver.validateDelegation / authenticatedDelegationDS,          *)
(* DNSKEY fetch + VerifyDS, VerifyRRSIG over every in-zone RRset,          *)
(* denial / wildcard proofs, reply shaping in handler + edns):             *)
(*                                                                         *)
(*   Start -> [for each zone on the path: Referral -> DS -> DNSKEY] ->     *)
(*            Answer -> Reply                                              *)
(*                                                                         *)
(* Above the resolver sits the failover middleware (`fallbackservers`): a   *)
(* SERVFAIL of the resolution may be answered by a configured fallback      *)
(* resolver instead.  The case says whether one is configured and what it   *)
(* answers (honest / lying); the Failover action is the reply rule the      *)
(* statement implies (a validation verdict is final, only the failure to    *)
(* OBTAIN an answer is retried elsewhere, and AD is sdns's own statement),  *)
(* with FailoverRule = "asbuilt" as the negative twin (failover.go before   *)
(* hooks/fix-failover-verdict.patch: every SERVFAIL is retried, the         *)
(* fallback's AD bit is relayed).                                           *)
(*                                                                         *)
(* Each upstream response is an abstract record of the attributes RFC 4035 *)
(* validation looks at; a tampering clears or forges exactly one of them.  *)
(* The spec defines the only legal client outcomes ("truth or SERVFAIL")   *)
(* and TLC checks the pipeline never produces anything else.  Every        *)
(* explored (hierarchy, query, tampering) is then concretised with real    *)
(* keys and signatures and run through the real resolver.                  *)
(***************************************************************************)
EXTENDS Integers, FiniteSets, Sequences, TLC

CONSTANTS ZoneKinds,   \* how the target zone hangs off its signed parent
          QKinds,      \* what is asked
          Tampers,     \* set of tamperings: functions [Positions -> kind], "none" where untouched
          Flags,       \* set of [do, ad, cd] client flag records
          Anchors,     \* set of BOOLEAN: is a trust anchor configured
          Fallbacks,   \* subset of {"none", "honest", "lying"}: the configured fallback resolver
          FailoverRule \* "statement" | negative twins: "asbuilt", "relayad" (verdicts final, the fallback's AD still relayed)

(* target zone kinds *)
\*  "signed"      DS at the parent, zone signed
\*  "signed-same" as signed, parent and child served by one server
\*  "insecure"    no DS at the parent, proven by a signed NSEC; zone unsigned
\*  "optout"      no DS, parent uses NSEC3 opt-out; zone unsigned
\*  "nsec3"       signed, denial by NSEC3
(* query kinds: "a" | "cname" | "wild" | "nodata" | "nx" | "dname" | "ent" (an empty non-terminal below a
   wildcard's parent: it exists, the truth is NODATA, the wildcard does not apply to it) | "whost" (a name with
   its own A record next to a wildcard: the truth is that record, not the expansion) | "rootnx" (a name directly
   below the root that does not exist: the ROOT zone itself denies it; the target zone and its parent are not on
   the path) *)
(* tamper positions: "referral" (parent's DS / no-DS proof), "dnskey", "answer" *)
(* tamper kinds: see Breaks below *)

\* fallback resolver kinds
\*  "none"    no `fallbackservers` entry: the failover middleware is inert
\*  "honest"  a validating resolver whose OWN path to the authorities is clean: answers the zone's truth, AD=1 when
\*            the chain is signed (one that saw the same tampered path would say SERVFAIL: nothing to relay)
\*  "lying"   answers forged data with AD=1
VARIABLES zone, qk, flags, tamper, anchor, fb,   \* the case (chosen at Init)
          pc,          \* resolver program counter
          dsState,     \* "unknown" | "secure" | "insecure" | "bogus"
          keyState,    \* "unknown" | "trusted" | "bogus" | "none"
          ansState,    \* "unknown" | "secure" | "insecure" | "bogus" | "lame" (no answer could be obtained)
          cause,       \* why the resolution said SERVFAIL: "none" | "noanchor" | "bogus" (validation verdicts) | "unreach"
          reply        \* "none" | [rcode, data, ad, ede, src]   src = who supplied it: "resolver" | "fallback"

case == <<zone, qk, flags, tamper, anchor, fb>>
vars == <<case, pc, dsState, keyState, ansState, cause, reply>>

ZoneSigned == zone \in {"signed", "signed-same", "nsec3"}
Negative == qk \in {"nodata", "nx", "ent", "rootnx"}
NeedsProof == qk \in {"nodata", "nx", "wild", "ent", "rootnx"}     \* the answer rests on NSEC/NSEC3 records

\* "rootref" is the ROOT's referral for the (always signed) parent of the target zone: the one
\* delegation whose DS is authenticated by the trust anchors directly instead of by a parent DS
\* "rootkey" is the root's own DNSKEY RRset, the one RRset the trust anchors authenticate with no DS in between
Positions == {"rootkey", "rootref", "referral", "dnskey", "answer"}
RootOnly == qk = "rootnx"                       \* the root answers the question itself
OnPath(pos) == IF RootOnly THEN pos \in {"rootkey", "answer"} ELSE TRUE
AnswerSigned == ZoneSigned \/ RootOnly           \* is the zone that gives the final answer a signed one
K(pos) == tamper[pos]        \* the tampering applied at a position ("none" = untouched)

(* Which validation attribute a tampering destroys at its position.
   data      : record data altered            -> signature no longer verifies
   sigbytes  : RRSIG bytes flipped            -> signature no longer verifies
   signer    : signer name is not an ancestor -> ValidateSigner refuses
   labels    : RRSIG labels field wrong       -> signature binding refuses
   expired / notyet : validity window         -> refused
   strip     : signatures removed             -> bogus unless the zone is provably insecure
   dropds    : DS removed from the referral   -> must be re-fetched / proven, else bogus
   swapds    : DS of another key              -> no DNSKEY matches
   dropproof : NSEC/NSEC3 removed             -> incomplete denial
   foreignproof : NSEC from a sibling zone    -> filtered, incomplete denial
   inject    : out-of-zone RRset in the answer-> fatal in the answer section
   clonetag  : extra key with the same tag    -> candidates retried, genuine key still verifies
   roguekey  : an attacker's key added to the DNSKEY RRset, the RRset re-signed with THAT key only
               (the DS-matched key is still in the set)  -> RFC 4035 5.2: the apex DNSKEY RRset must be
               authenticated by a signature of the key the DS refers to, so the set is bogus
   fakedname : the answer is replaced by a forged CNAME "justified" by an UNSIGNED DNAME owned by an
               ancestor outside the signer zone, placed in the authority section (where foreign records are
               tolerated) -> only a DNAME of the signer zone may vouch for a synthesised CNAME, so the
               forged CNAME needs its own signature and has none that verifies
   foreigndeny : the answer is replaced by NXDOMAIN/NODATA "proved" by unsigned NSEC records owned OUTSIDE the
               signer zone (in its parent), next to the zone's genuine signed SOA -> records outside the
               signer zone are never validated and must not count as proof: incomplete denial
   roguesig  : answer data altered and re-signed, signer name = the zone, with the attacker's key
               -> verifies only if that key was accepted into the zone's key set (roguekey)
   wildrep   : (question kind "ent" only) the honest NODATA is replaced by the zone's GENUINE wildcard RRset under
               the asked name, with the wildcard's genuine signature (labels field one short), "proved" by the
               genuine NSEC whose interval spans the asked name - its next name lies BELOW the asked name, which
               therefore exists as an empty non-terminal: the interval denies nothing (RFC 4592 2.2.2, RFC 4035
               5.3.4) and the expansion is not what the signer published
   barenx    : the reply is replaced by rcode NXDOMAIN with EMPTY answer and authority sections (a denial with no
               proof at all) -> from a signed zone a denial needs its proof like any other
   bareempty : the same with rcode NOERROR (an empty NODATA)
   lame      : (position answer) a FAULT, not a tampering of signed data: the server that holds the answer refuses the
               question.  There is nothing to validate; the resolution fails for want of an answer ("unreach")
               -> SERVFAIL, or - the one thing a fallback resolver is for - that resolver's answer, which sdns has
               not validated and must not mark AD
   ttlup     : (position answer) the TTL of the RRset and of its RRSIG raised in flight.  The TTL is not in the signed
               form (the RRSIG's Original TTL stands in for it), so authenticity is intact: truth, AD.  RFC 4035 5.3.3
               caps the TTL at the Original TTL; the statement does not (lifetimes are C04's): observation in the replay
   wildforeign : (question kinds "ent" and "whost") the same replayed expansion, "proved" by an UNSIGNED NSEC owned
               by the parent zone whose interval spans the whole child -> records outside the signer zone are
               never validated and must not count as the next-closer denial
*)
BreaksSig(k) == k \in {"data", "sigbytes", "signer", "labels", "expired", "notyet"}

Init ==
  /\ zone \in ZoneKinds /\ qk \in QKinds /\ flags \in Flags /\ tamper \in Tampers
  /\ anchor \in Anchors /\ fb \in Fallbacks
  /\ pc = "start"
  /\ dsState = "unknown" /\ keyState = "unknown" /\ ansState = "unknown"
  /\ cause = "none" /\ reply = "none"

(* no trust anchor: fail closed before anything else (hasTrustAnchors checks) *)
Start ==
  /\ pc = "start"
  /\ pc' = IF anchor \/ flags.cd THEN "referral" ELSE "fail"   \* CD=1: nothing is validated, data flows
  /\ UNCHANGED <<case, dsState, keyState, ansState, cause, reply>>

(* parent's referral: DS + RRSIG(DS), or a signed proof that no DS exists *)
Referral ==
  /\ pc = "referral"
  /\ LET k == K("referral") IN
     dsState' =
       IF K("rootkey") # "none" THEN "bogus"   \* the root's key set itself is not authenticated: nothing below is
       ELSE IF RootOnly THEN "secure"          \* no delegation on the path: the anchors vouch for the answering zone
       ELSE IF K("rootref") # "none" THEN "bogus"   \* the signed parent itself is no longer authenticated
       ELSE IF ZoneSigned THEN
         (IF BreaksSig(k) \/ k \in {"strip", "swapds"} THEN "bogus"
          ELSE IF k = "dropds" THEN "bogus"      \* no DS and no proof of its absence
          ELSE "secure")
       ELSE   \* unsigned child: the parent must PROVE there is no DS
         (IF BreaksSig(k) \/ k \in {"strip", "dropproof", "foreignproof"} THEN "bogus"
          ELSE "insecure")
  /\ pc' = "dnskey"
  /\ UNCHANGED <<case, keyState, ansState, cause, reply>>

(* DNSKEY RRset of the zone, verified against the DS *)
Dnskey ==
  /\ pc = "dnskey"
  /\ keyState' =
       IF dsState = "bogus" THEN "bogus"
       ELSE IF dsState = "insecure" THEN "none"
       ELSE IF RootOnly THEN "trusted"
       ELSE IF BreaksSig(K("dnskey")) \/ K("dnskey") \in {"strip", "swapds", "roguekey"} THEN "bogus"
       ELSE "trusted"
  /\ pc' = "answer"
  /\ UNCHANGED <<case, dsState, ansState, cause, reply>>

(* the answer (or denial) itself *)
Answer ==
  /\ pc = "answer"
  /\ LET k == K("answer") IN
     ansState' =
       IF keyState = "bogus" THEN "bogus"
       ELSE IF k = "lame" THEN "lame"     \* the server refuses: no answer to validate or to relay
       ELSE IF keyState = "none" THEN     \* provably insecure zone: data accepted unsigned;
         "insecure"                       \* foreign answer records are dropped, not fatal (C07's filter)
       ELSE
         (IF RootOnly /\ k \in {"inject", "fakedname", "foreigndeny", "roguesig"} THEN "secure"   \* (these replies are built for zone.test. only)
          ELSE IF BreaksSig(k) \/ k \in {"strip", "inject", "roguesig", "fakedname", "foreigndeny", "barenx", "bareempty"} THEN "bogus"
          ELSE IF k = "wildrep" /\ qk = "ent" THEN "bogus"
          ELSE IF k = "wildforeign" /\ qk \in {"ent", "whost"} THEN "bogus"
          ELSE IF NeedsProof /\ k \in {"dropproof", "foreignproof"} THEN "bogus"
          ELSE "secure")
  /\ pc' = "reply"
  /\ UNCHANGED <<case, dsState, keyState, cause, reply>>

Truth == [rcode |-> IF qk \in {"nx", "rootnx"} THEN "nxdomain" ELSE "noerror", data |-> qk]

(* handler + edns shaping: bogus => SERVFAIL (+EDE), AD discipline *)
Reply ==
  /\ pc \in {"reply", "fail"}
  /\ cause' = IF pc = "fail" THEN "noanchor"
              ELSE IF ansState = "bogus" /\ ~flags.cd THEN "bogus"
              ELSE IF ansState = "lame" THEN "unreach"
              ELSE "none"
  /\ reply' =
       IF cause' # "none"
         THEN [rcode |-> "servfail", data |-> "none", ad |-> FALSE, ede |-> TRUE, src |-> "resolver"]
         ELSE [rcode |-> Truth.rcode, data |-> Truth.data,
               ad |-> (ansState = "secure" /\ ~flags.cd /\ (flags.do \/ flags.ad)
                       /\ ~(zone = "optout" /\ Negative)),
               ede |-> FALSE, src |-> "resolver"]
  /\ pc' = IF fb = "none" THEN "done" ELSE "failover"     \* no fallbackservers: the middleware passes every reply through
  /\ UNCHANGED <<case, dsState, keyState, ansState>>

(* the failover middleware, between the cache and the resolver (failover.go ResponseWriter.WriteMsg): the resolver's
   SERVFAIL may be replaced by the configured fallback resolver's answer.
     "statement": a validation verdict ("bogus", "noanchor") IS the answer - "the client gets SERVFAIL ... never altered
                  data", "the answer is SERVFAIL rather than unvalidated data"; only the failure to obtain an answer is
                  retried, and what the fallback says carries no AD - "AD is set only when every RRset in the reply was
                  validated up to a trust anchor"
     "asbuilt"  : every SERVFAIL is retried and the fallback's AD bit is relayed (cleared only by the edns discipline)
     "relayad"  : half a repair - verdicts are final, the fallback's AD bit is still relayed *)
FallbackAnswer ==
  IF fb = "honest" THEN [rcode |-> Truth.rcode, data |-> Truth.data, ad |-> AnswerSigned]
                   ELSE [rcode |-> "noerror", data |-> "forged", ad |-> TRUE]
Retried == /\ fb # "none" /\ reply.rcode = "servfail"
           /\ (FailoverRule = "asbuilt" \/ cause = "unreach")
Failover ==
  /\ pc = "failover"
  /\ reply' = IF Retried
                THEN [rcode |-> FallbackAnswer.rcode, data |-> FallbackAnswer.data,
                      ad |-> (FailoverRule \in {"asbuilt", "relayad"} /\ FallbackAnswer.ad /\ ~flags.cd /\ (flags.do \/ flags.ad)),
                      ede |-> FALSE, src |-> "fallback"]
                ELSE reply
  /\ pc' = "done"
  /\ UNCHANGED <<case, dsState, keyState, ansState, cause>>

Next == Start \/ Referral \/ Dnskey \/ Answer \/ Reply \/ Failover

Spec == Init /\ [][Next]_vars /\ WF_vars(Next)

(* ------------------------------ properties ---------------------------- *)
Done == pc = "done"

(* does the tampering change anything the validator looks at?  (a tampering that
   finds nothing to act on -- dropping the proof from a referral that carries a DS,
   stripping signatures an unsigned zone never had -- is a no-op) *)
EffectiveAt(pos) ==
  LET k == K(pos) IN
  CASE k \in {"none", "clonetag", "ttlup"} -> FALSE
    [] k = "lame" -> FALSE               \* a fault: nothing a validator looks at is changed (see Lame below)
    [] ~OnPath(pos) -> FALSE             \* the root answers the question: nothing below it is asked
    [] pos = "rootkey" -> TRUE           \* the root is signed in every configuration
    [] pos = "answer" /\ RootOnly -> k \notin {"wildrep", "wildforeign", "fakedname", "foreigndeny", "inject", "roguesig"} \* (built for zone.test. only)
    [] pos = "rootref" -> TRUE           \* the parent is signed in every configuration
    [] pos = "referral" /\ k \in {"dropproof", "foreignproof"} -> ~ZoneSigned
    [] pos = "referral" /\ k \in {"dropds", "swapds"} -> ZoneSigned
    [] pos = "dnskey" -> ZoneSigned
    [] pos = "answer" /\ k \in {"dropproof", "foreignproof"} -> ZoneSigned /\ NeedsProof
    [] pos = "answer" /\ k = "wildrep" -> ZoneSigned /\ qk = "ent"    \* there is nothing to replay over any other name
    [] pos = "answer" /\ k = "wildforeign" -> ZoneSigned /\ qk \in {"ent", "whost"}
    [] pos = "answer" /\ k = "inject" -> ZoneSigned   \* in an unsigned zone the foreign RRset is filtered (bailiwick), the rest is served
    [] pos = "answer" -> ZoneSigned          \* signature / data tampering in an unsigned zone is out of scope
    [] OTHER -> TRUE
Effective == \E pos \in Positions : EffectiveAt(pos)

(* is the path, as delivered, authentic?  (the RFC 4035 verdict) *)
Untampered == ~Effective
PathSecure == anchor /\ AnswerSigned /\ Untampered
PathInsecureProven == anchor /\ ~AnswerSigned /\ ~EffectiveAt("referral") /\ ~EffectiveAt("rootref") /\ ~EffectiveAt("rootkey")

(* the answering server refuses the question: sdns reaches no validation verdict and has no data of its own *)
Lame == K("answer") = "lame"

(* NOT judged (stated here so that it is visible): after an availability failure the data is the fallback resolver's.
   No response on the path was tampered with, sdns reached no verdict, and the operator designated that resolver as a
   trusted source exactly like a forwarder; what it says is outside "tamperings of any upstream response on the
   resolution path".  sdns's own statements about such a reply (AD) are judged below. *)
FallbackTrusted == reply.src = "fallback" /\ cause = "unreach"

(* the only legal outcomes with CD=0: SERVFAIL, or exactly what the signer published *)
TruthOrServfail ==
  Done => \/ reply.rcode = "servfail"
          \/ (reply.rcode = Truth.rcode /\ reply.data = Truth.data)
          \/ FallbackTrusted

(* a validation verdict - bogus data, no trust anchor - is final: no other source may answer in its place
   (RFC 4035 5.5: "the name server MUST return RCODE 2 to the originating client") *)
VerdictIsFinal ==
  (Done /\ cause \in {"bogus", "noanchor"}) => (reply.rcode = "servfail" /\ reply.src = "resolver")

(* never altered data: a tampered path never yields a non-SERVFAIL reply toward a CD=0 client,
   unless the tampering leaves authenticity intact (a same-tag clone key) or hits an
   unsigned zone's data -- which no validator can detect, and the statement does not ask for *)
NeverAlteredData ==
  (Done /\ ~flags.cd /\ Effective) => reply.rcode = "servfail"

(* AD only when everything validated, never toward CD, never without DO or AD in the query *)
ADImpliesSecure ==
  (Done /\ reply.ad) => (PathSecure /\ ~flags.cd /\ (flags.do \/ flags.ad)
                         /\ reply.src = "resolver" /\ ansState = "secure")    \* validated HERE, not vouched for elsewhere

(* a zone is treated as unsigned only on a validated proof of no DS *)
InsecureOnlyByProof ==
  (Done /\ reply.rcode # "servfail" /\ ~flags.cd /\ ~AnswerSigned) => PathInsecureProven

(* no trust anchors: SERVFAIL rather than unvalidated data *)
NoAnchorFailsClosed == (Done /\ ~anchor /\ ~flags.cd) => reply.rcode = "servfail"

(* failures surface with an extended error *)
ServfailHasEDE == (Done /\ reply.rcode = "servfail") => reply.ede

Terminates == <>Done
=============================================================================
