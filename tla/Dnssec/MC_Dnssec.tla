----------------------------- MODULE MC_Dnssec -----------------------------
EXTENDS Dnssec
MCZoneKinds == {"signed", "signed-same", "insecure", "optout", "nsec3"}
MCQKinds == {"a", "cname", "wild", "nodata", "nx", "dname"}
SigBreak == {"data", "sigbytes", "signer", "expired"}
MCTampers ==
  {<<"none", "none">>}
  \cup {<<"referral", k>> : k \in SigBreak \cup {"strip", "dropds", "swapds", "dropproof", "foreignproof"}}
  \cup {<<"dnskey", k>> : k \in SigBreak \cup {"strip", "clonetag"}}
  \cup {<<"answer", k>> : k \in SigBreak \cup {"labels", "notyet", "strip", "dropproof", "foreignproof", "inject"}}
MCFlags == [do : BOOLEAN, ad : BOOLEAN, cd : BOOLEAN]
=============================================================================
