----------------------------- MODULE MC_Dnssec -----------------------------
EXTENDS Dnssec
MCZoneKinds == {"signed", "signed-same", "insecure", "optout", "nsec3"}
MCQKinds == {"a", "cname", "wild", "nodata", "nx", "dname", "ent", "whost", "rootnx"}
SigBreak == {"data", "sigbytes", "signer", "expired"}
KindsAt(pos) ==
  CASE pos = "rootkey"  -> SigBreak \cup {"strip"}
    [] pos = "rootref"  -> SigBreak \cup {"strip", "dropds", "swapds"}
    [] pos = "referral" -> SigBreak \cup {"strip", "dropds", "swapds", "dropproof", "foreignproof"}
    [] pos = "dnskey"   -> SigBreak \cup {"strip", "clonetag", "roguekey"}
    [] pos = "answer"   -> SigBreak \cup {"labels", "notyet", "strip", "dropproof", "foreignproof", "inject", "roguesig", "fakedname", "foreigndeny", "wildrep", "wildforeign", "barenx", "bareempty"}
Untouched == [pos \in Positions |-> "none"]
Single == {[Untouched EXCEPT ![pos] = k] : pos \in Positions, k \in SigBreak \cup {"strip", "dropds", "swapds", "dropproof",
              "foreignproof", "clonetag", "labels", "notyet", "inject", "roguekey", "roguesig", "fakedname", "foreigndeny", "wildrep", "wildforeign", "barenx", "bareempty"}}
SingleOK == {t \in Single : \A pos \in Positions : t[pos] = "none" \/ t[pos] \in KindsAt(pos)}
\* the fault "lame" comes alone (combined with a tampering elsewhere the code's order of discovery - refusal first or
\* bogus first - would decide whether a fallback may be asked; the statement does not rank them)
\* so does "ttlup" (authenticity untouched: nothing to combine)
MCTampers == {Untouched} \cup SingleOK \cup {[Untouched EXCEPT !["answer"] = k] : k \in {"lame", "ttlup"}}
\* pairs: one tampering at each of two different positions
MCTamperPairs == UNION { UNION { { [Untouched EXCEPT ![p1] = k1, ![p2] = k2] : k1 \in KindsAt(p1), k2 \in KindsAt(p2) }
                                  : p2 \in Positions \ {p1} } : p1 \in Positions }
MCFlags == [do : BOOLEAN, ad : BOOLEAN, cd : BOOLEAN]
\* small case space for the negative twins (Neg_*.cfg)
NegZoneKinds == {"signed", "insecure"}
NegQKinds == {"a", "nx"}
=============================================================================
