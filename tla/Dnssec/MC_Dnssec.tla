----------------------------- MODULE MC_Dnssec -----------------------------
EXTENDS Dnssec
MCZoneKinds == {"signed", "signed-same", "insecure", "optout", "nsec3"}
MCQKinds == {"a", "cname", "wild", "nodata", "nx", "dname", "ent", "whost", "rootnx"}
SigBreak == {"data", "sigbytes", "signer", "expired"}
KindsAt(pos) ==
  CASE pos = "rootkey"  -> SigBreak \cup {"strip"}
    [] pos = "rootref"  -> SigBreak \cup {"strip", "dropds", "swapds"}
    [] pos = "referral" -> SigBreak \cup {"strip", "dropds", "swapds", "dropproof", "foreignproof"}
    [] pos = "dnskey"   -> SigBreak \cup {"strip", "clonetag", "roguekey"}
    [] pos = "answer"   -> SigBreak \cup {"labels", "notyet", "strip", "dropproof", "foreignproof", "inject", "roguesig", "fakedname", "foreigndeny", "wildrep", "wildforeign", "barenx", "bareempty"}
Untouched == [pos \in Positions |-> "none"]
Single == {[Untouched EXCEPT ![pos] = k] : pos \in Positions, k \in SigBreak \cup {"strip", "dropds", "swapds", "dropproof",
              "foreignproof", "clonetag", "labels", "notyet", "inject", "roguekey", "roguesig", "fakedname", "foreigndeny", "wildrep", "wildforeign", "barenx", "bareempty"}}
SingleOK == {t \in Single : \A pos \in Positions : t[pos] = "none" \/ t[pos] \in KindsAt(pos)}
MCTampers == {Untouched} \cup SingleOK
\* pairs: one tampering at each of two different positions
MCTamperPairs == UNION { UNION { { [Untouched EXCEPT ![p1] = k1, ![p2] = k2] : k1 \in KindsAt(p1), k2 \in KindsAt(p2) }
                                  : p2 \in Positions \ {p1} } : p1 \in Positions }
MCFlags == [do : BOOLEAN, ad : BOOLEAN, cd : BOOLEAN]
=============================================================================
