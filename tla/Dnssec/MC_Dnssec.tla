----------------------------- MODULE MC_Dnssec -----------------------------
EXTENDS Dnssec
MCZoneKinds == {"signed", "signed-same", "insecure", "optout", "nsec3"}
MCQKinds == {"a", "cname", "wild", "nodata", "nx", "dname", "ent", "whost"}
SigBreak == {"data", "sigbytes", "signer", "expired"}
KindsAt(pos) ==
  CASE pos = "rootref"  -> SigBreak \cup {"strip", "dropds", "swapds"}
    [] pos = "referral" -> SigBreak \cup {"strip", "dropds", "swapds", "dropproof", "foreignproof"}
    [] pos = "dnskey"   -> SigBreak \cup {"strip", "clonetag", "roguekey"}
    [] pos = "answer"   -> SigBreak \cup {"labels", "notyet", "strip", "dropproof", "foreignproof", "inject", "roguesig", "fakedname", "foreigndeny", "wildrep", "wildforeign"}
Untouched == [pos \in Positions |-> "none"]
Single == {[Untouched EXCEPT ![pos] = k] : pos \in Positions, k \in SigBreak \cup {"strip", "dropds", "swapds", "dropproof",
              "foreignproof", "clonetag", "labels", "notyet", "inject", "roguekey", "roguesig", "fakedname", "foreigndeny", "wildrep", "wildforeign"}}
SingleOK == {t \in Single : \A pos \in Positions : t[pos] = "none" \/ t[pos] \in KindsAt(pos)}
MCTampers == {Untouched} \cup SingleOK
\* pairs: one tampering at each of two different positions
MCTamperPairs == {t \in [Positions -> UNION {KindsAt(p) : p \in Positions} \cup {"none"}] :
                    /\ \A pos \in Positions : t[pos] = "none" \/ t[pos] \in KindsAt(pos)
                    /\ Cardinality({pos \in Positions : t[pos] # "none"}) = 2}
MCFlags == [do : BOOLEAN, ad : BOOLEAN, cd : BOOLEAN]
=============================================================================
