CONSTANTS
  Queries <- Q3
  Zones <- Z1
  Moves <- AnyMove
  Outs <- BothOuts
  QZone <- W_Zone
  QName <- R_Name
  QCD <- K_CD
  HostKinds <- W_Hosts
  Insecure = FALSE
  GateRef = FALSE
  V6 = FALSE
  LabelOrder = "before"
  AppendAtomic = TRUE
  IdentitySource = "local"
  CDSource = "local"
  ProvKey = "child"
INIT Init
NEXT Next
INVARIANTS TypeOK PublishedIdentity PublishedCD ReaderCD NoMixture HostsWhole PublishedUsable FilterFaithful Containment Readers
CHECK_DEADLOCK TRUE
