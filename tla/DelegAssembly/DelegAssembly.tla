--------------------------- MODULE DelegAssembly ---------------------------
(***************************************************************************)
(* X07DC -- the life of a delegation's server set as a SHARED object.      *)
(*                                                                         *)
(* middleware/resolver/resolver.go processDelegation builds, for a child   *)
(* zone Z, an authority.Servers {Zone, CheckingDisable, Hosts, List}.      *)
(* While the addresses of glue-less NS hosts are still being looked up,    *)
(* lookupV4Nss PUBLISHES that very object (a pointer) in the delegation    *)
(* cache under (NS Z, client CD): a concurrent query for a name in Z finds *)
(* it in searchCache / processDelegation and asks Z's server through it.   *)
(* Every bailiwick decision taken on Z's reply hangs on the identity the   *)
(* object carries at that moment (servers.Zone: answer-section owner       *)
(* filter in Resolver.answer, validReferral in lookup/processDelegation).  *)
(*                                                                         *)
(* One action per step of the code:                                        *)
(*   Start          Resolve(): searchCache with the client's CD bit; a     *)
(*                  second client query for a question already in flight   *)
(*                  waits for the first one (cache layer)                  *)
(*   RelRef         the parent's referral arrives (REFERRAL gate)          *)
(*   CacheCheck     processDelegation: delegations.Get(key) again; a hit   *)
(*                  -> resolveWithCachedNameservers                        *)
(*   BuildSet       checkGlueRR: a fresh object, List = glued addresses    *)
(*   Label          authservers.CheckingDisable = cd; .Zone = q.Name       *)
(*   HostStep       lookupV4Nss loop head: Hosts = append(Hosts, name)     *)
(*   Publish        delegations.SetUntil(key, .., authservers, ..) when    *)
(*                  List is not empty  (PROVISIONAL)                       *)
(*   Lookup/RelHost lookupNSAddrV4: glue cache, else a sub-resolution      *)
(*                  that is slow (HOST gate); the outcome is the release's *)
(*   AppendAddr     List = append(List, ..) under the object's lock        *)
(*   Finalize       len(List) == 0 -> errNoReachableAuth, else SetUntil    *)
(*                  (FINAL) and descend with the own object                *)
(*   Send/RelAns/Recv  ask Z's server (ANSWER gate: the adversary picks    *)
(*                  its move at the release), then filter the reply with   *)
(*                  the identity read from the object AT THAT TIME         *)
(*                                                                         *)
(* Deliberate deviations: D1 parent / host zones are honest and their own  *)
(* delegations are not expanded; D2 leases are not modelled (C08 is judged *)
(* as drift by the driver); D3 the IPv6 enrichment job (lookupV6Nss) is    *)
(* ONE late append to the published object (V6Fire, V6 configs only), run  *)
(* for the query that published it for good, as if it were that query's    *)
(* last step (the job is detached: the client has its reply by then);      *)
(* D4 a release lets every lookup parked at that gate go (the cache layer  *)
(* collapses them); D5 RFC 9520 zone-failure memory is the only part of    *)
(* the answer cache that is modelled (ZFail).                              *)
(***************************************************************************)
EXTENDS Naturals, Sequences, FiniteSets, TLC

CONSTANTS
  Queries,        \* client queries (model values or strings)
  Zones,          \* delegated (adversarial) zones, e.g. {"1", "2"} (strings: TLC compares them with "E" / "P")
  Moves,          \* adversary move kinds offered at the ANSWER gate
  Outs,           \* outcomes of a slow host lookup: subset of {"addr", "none"}
  QZone(_), QName(_), QCD(_),   \* zone, first label and client CD bit of a query
  HostKinds(_),   \* zone -> sequence of "glued" | "slow" (NS hosts in lookup order)
  Insecure,       \* TRUE: no retained DS, the effective cd of every assembly is TRUE
  GateRef,        \* the parent's referral is held at a gate
  V6,             \* a late append to the published object after Finalize
  \* ---- as-built values first; the others are the negative twins -------------------
  LabelOrder,     \* "before" | "after"   (identity assigned after Publish = seeded C07-r2-1)
  AppendAtomic,   \* TRUE | FALSE          (List/Hosts append outside the object's lock)
  IdentitySource, \* "local" | "shared"    (Zone of the last referral processed)
  CDSource,       \* "local" | "shared"    (CheckingDisable of the later assembler)
  ProvKey         \* "child" | "parent"    (provisional set filed under the parent's key)

VARIABLES
  pc,       \* per query
  cur,      \* per query: the object it asks through ("none" or its owner's name)
  sets,     \* per owner query: the object it built
  nsc,      \* delegation cache: <<zone key, client CD>> -> owner of the published object | "none"
  hi,       \* per query: index of the NS host being processed
  hostres,  \* <<zone, host>> -> "unk" | "addr" | "none"   (glue cache / negative cache)
  reply,    \* per query: what the client got
  lead,     \* per query: the query it waits for (same question in flight)
  par,      \* per query: it has the parent's referral in hand (history; the driver sees it in the parent's log)
  lastref, lastcd,   \* shared registers of the negative twins
  last      \* the last gate step (names the schedule)

vars == <<pc, cur, sets, nsc, hi, hostres, reply, lead, par, lastref, lastcd, last>>

MaxH == 3           \* most NS hosts a referral names in the configs
KeyZones == Zones \cup {"P"}
NoSet    == [live |-> FALSE, zone |-> "E", cd |-> "u", hosts |-> <<>>, torn |-> FALSE, addrs |-> {},
             forZone |-> "E", forCD |-> FALSE, final |-> FALSE]
NoReply  == [rc |-> "-", cls |-> {}, id |-> "-", m |-> "-", followed |-> FALSE]

EffCD(q) == QCD(q) \/ Insecure
B2S(b)   == IF b THEN "1" ELSE "0"
NHosts(z) == Len(HostKinds(z))
Glued(z)  == {h \in 1..NHosts(z) : HostKinds(z)[h] = "glued"}

(***************************************************************************)
(* The adversary's reply, and what the resolver makes of it when it judges *)
(* with identity id ("E" empty, "P" the parent, or a zone) a reply of z's  *)
(* server.  Owners: z itself, "V" = the victim zone.                       *)
(***************************************************************************)
AllMoves == {"honest", "ans_foreign", "cname_out", "auth_foreign", "ref_up", "ref_self", "ref_glue_out"}
InBailiwick(owner, id) == id \in {"E", "P"} \/ id = owner
AnswerOf(m, z) ==        \* <<class, owner>> pairs of the answer section
  CASE m = "honest"       -> {<<"own", z>>}
    [] m = "ans_foreign"  -> {<<"own", z>>, <<"poison", "V">>}
    [] m = "cname_out"    -> {<<"cname", z>>, <<"poison", "V">>}
    [] m = "auth_foreign" -> {<<"own", z>>}       \* authority / additional are cleared whatever the identity
    [] OTHER              -> {}
RefTarget(m, z) ==       \* owner of the NS set of a referral move
  CASE m = "ref_up" -> "P" [] m = "ref_self" -> z [] m = "ref_glue_out" -> "below" [] OTHER -> "-"
StrictlyBelow(t, id, z) ==   \* is t strictly below the zone named id (as the code would compute it)?
  CASE id = "E" -> TRUE
    [] id = "P" -> t \in {z, "below"}
    [] id = z   -> t = "below"
    [] OTHER    -> FALSE
Outcome(m, id, z) ==
  IF RefTarget(m, z) # "-"
  THEN [rc |-> "SERVFAIL", cls |-> {}, id |-> id, m |-> m,
        followed |-> StrictlyBelow(RefTarget(m, z), id, z) /\ RefTarget(m, z) # "below"]
  ELSE LET kept == {p[1] : p \in {r \in AnswerOf(m, z) : InBailiwick(r[2], id)}}
           \* a bare alias is chased by the cache layer at the target's own servers
           full == IF "cname" \in kept /\ "poison" \notin kept THEN kept \cup {"truth"} ELSE kept
       IN [rc |-> "OK", cls |-> full, id |-> id, m |-> m, followed |-> FALSE]

TypeOK ==
  /\ pc \in [Queries -> {"idle", "refgate", "ref", "build", "label", "hosts", "fill", "pub", "lookup", "hostgate",
                         "append", "final", "send", "ansgate", "recv", "joined", "v6", "done"}]
  /\ cur \in [Queries -> Queries \cup {"none"}]
  /\ nsc \in [KeyZones \X BOOLEAN -> Queries \cup {"none"}]
  /\ hi \in [Queries -> 0..(MaxH + 1)]
  /\ hostres \in [Zones \X (1..MaxH) -> {"unk", "addr", "none"}]
  /\ lead \in [Queries -> Queries \cup {"none"}]
  /\ par \in [Queries -> BOOLEAN]

Init ==
  /\ pc = [q \in Queries |-> "idle"]
  /\ cur = [q \in Queries |-> "none"]
  /\ sets = [q \in Queries |-> NoSet]
  /\ nsc = [k \in KeyZones \X BOOLEAN |-> "none"]
  /\ hi = [q \in Queries |-> 0]
  /\ hostres = [k \in Zones \X (1..MaxH) |-> "unk"]
  /\ reply = [q \in Queries |-> NoReply]
  /\ lead = [q \in Queries |-> "none"]
  /\ par = [q \in Queries |-> FALSE]
  /\ lastref = "E" /\ lastcd = FALSE
  /\ last = [op |-> "init"]

Key(q) == <<QZone(q), QCD(q)>>
Answered(q) == pc[q] \in {"done", "v6"}       \* the client has its reply ("v6": the detached IPv6 job is still pending)
InFlight(q) == pc[q] # "idle" /\ ~Answered(q)
SameQuestion(q, p) == q # p /\ QZone(q) = QZone(p) /\ QName(q) = QName(p) /\ QCD(q) = QCD(p)

---------------------------------------------------------------------------
(* gate steps *)
(* RFC 9520: a zone none of whose servers could be reached is remembered (ResolutionFailureStore); later
   questions for names in it fail at once, the parent is not asked again *)
ZFail(z) == \E p \in Queries : pc[p] = "done" /\ reply[p].m = "noauth" /\ QZone(p) = z

Start(q) ==
  /\ pc[q] = "idle"
  /\ last' = [op |-> "start", q |-> q]
  /\ IF \E p \in Queries : SameQuestion(q, p) /\ InFlight(p) /\ lead[p] = "none"
     THEN /\ lead' = [lead EXCEPT ![q] = CHOOSE p \in Queries : SameQuestion(q, p) /\ InFlight(p) /\ lead[p] = "none"]
          /\ pc' = [pc EXCEPT ![q] = "joined"]
          /\ UNCHANGED <<cur, reply>>
     ELSE IF ZFail(QZone(q))
     THEN /\ reply' = [reply EXCEPT ![q] = [NoReply EXCEPT !.rc = "SERVFAIL", !.m = "zonefail"]]
          /\ pc' = [pc EXCEPT ![q] = "done"]
          /\ UNCHANGED <<cur, lead>>
     ELSE /\ UNCHANGED <<lead, reply>>
          /\ IF nsc[Key(q)] # "none"
             THEN /\ cur' = [cur EXCEPT ![q] = nsc[Key(q)]]
                  /\ pc' = [pc EXCEPT ![q] = "send"]
             ELSE /\ UNCHANGED cur
                  /\ pc' = [pc EXCEPT ![q] = IF GateRef THEN "refgate" ELSE "ref"]
  /\ par' = [par EXCEPT ![q] = pc'[q] = "ref"]
  /\ UNCHANGED <<sets, nsc, hi, hostres, lastref, lastcd>>

(* a query whose question was already answered is served by the answer cache: not a step of this model *)
StartOK(q) == ~\E p \in Queries : SameQuestion(q, p) /\ Answered(p)

RelRef(S) ==
  /\ S # {} /\ \A q \in S : pc[q] = "refgate"
  /\ \A q \in S : \A p \in Queries : (pc[p] = "refgate" /\ QZone(p) = QZone(q) /\ QName(p) = QName(q)) => p \in S
  /\ pc' = [q \in Queries |-> IF q \in S THEN "ref" ELSE pc[q]]
  /\ last' = [op |-> "relref", qs |-> S]
  /\ par' = [q \in Queries |-> par[q] \/ q \in S]
  /\ UNCHANGED <<cur, sets, nsc, hi, hostres, reply, lead, lastref, lastcd>>

Parked(z, h) == {q \in Queries : pc[q] = "hostgate" /\ QZone(q) = z /\ hi[q] = h}

RelHost(z, h, o) ==
  /\ Parked(z, h) # {}
  /\ hostres' = [hostres EXCEPT ![<<z, h>>] = o]
  /\ pc' = [q \in Queries |-> IF q \in Parked(z, h) THEN (IF o = "addr" THEN "append" ELSE "hosts") ELSE pc[q]]
  /\ hi' = [q \in Queries |-> IF q \in Parked(z, h) /\ o # "addr" THEN hi[q] + 1 ELSE hi[q]]
  /\ last' = [op |-> "relhost", zone |-> z, host |-> h, out |-> o]
  /\ UNCHANGED <<cur, sets, nsc, reply, lead, par, lastref, lastcd>>

RelAns(q, m) ==
  /\ pc[q] = "ansgate"
  /\ pc' = [pc EXCEPT ![q] = "recv"]
  /\ reply' = [reply EXCEPT ![q] = [NoReply EXCEPT !.m = m]]
  /\ last' = [op |-> "relans", q |-> q, move |-> m]
  /\ UNCHANGED <<cur, sets, nsc, hi, hostres, lead, par, lastref, lastcd>>

---------------------------------------------------------------------------
(* internal steps *)
CacheCheck(q) ==
  /\ pc[q] = "ref"
  /\ lastref' = QZone(q) /\ lastcd' = EffCD(q)
  /\ IF nsc[Key(q)] # "none"
     THEN cur' = [cur EXCEPT ![q] = nsc[Key(q)]] /\ pc' = [pc EXCEPT ![q] = "send"]
     ELSE UNCHANGED cur /\ pc' = [pc EXCEPT ![q] = "build"]
  /\ UNCHANGED <<sets, nsc, hi, hostres, reply, lead, par, last>>

BuildSet(q) ==
  /\ pc[q] = "build"
  /\ sets' = [sets EXCEPT ![q] = [NoSet EXCEPT !.live = TRUE, !.addrs = Glued(QZone(q)),
                                                !.forZone = QZone(q), !.forCD = QCD(q)]]
  /\ hi' = [hi EXCEPT ![q] = 1]
  /\ pc' = [pc EXCEPT ![q] = IF LabelOrder = "before" THEN "label" ELSE "hosts"]
  /\ UNCHANGED <<cur, nsc, hostres, reply, lead, par, lastref, lastcd, last>>

Label(q) ==
  /\ pc[q] = "label"
  /\ sets' = [sets EXCEPT ![q].zone = IF IdentitySource = "local" THEN QZone(q) ELSE lastref,
                          ![q].cd = B2S(IF CDSource = "local" THEN EffCD(q) ELSE lastcd)]
  /\ pc' = [pc EXCEPT ![q] = IF LabelOrder = "before" THEN "hosts" ELSE "final"]
  /\ UNCHANGED <<cur, nsc, hi, hostres, reply, lead, par, lastref, lastcd, last>>

HostStep(q) ==
  /\ pc[q] = "hosts"
  /\ LET z == QZone(q) h == hi[q] IN
     IF h > NHosts(z)
     THEN /\ pc' = [pc EXCEPT ![q] = IF LabelOrder = "before" THEN "final" ELSE "label"]
          /\ UNCHANGED <<sets, hi>>
     ELSE IF AppendAtomic
          THEN /\ sets' = [sets EXCEPT ![q].hosts = Append(@, h)]
               /\ IF h \in Glued(z)
                  THEN hi' = [hi EXCEPT ![q] = h + 1] /\ UNCHANGED pc
                  ELSE pc' = [pc EXCEPT ![q] = "pub"] /\ UNCHANGED hi
          ELSE \* the slice header is written before the element: a reader may see the hole
               /\ sets' = [sets EXCEPT ![q].hosts = Append(@, h), ![q].torn = TRUE]
               /\ pc' = [pc EXCEPT ![q] = "fill"] /\ UNCHANGED hi
  /\ UNCHANGED <<cur, nsc, hostres, reply, lead, par, lastref, lastcd, last>>

Fill(q) ==
  /\ pc[q] = "fill"
  /\ sets' = [sets EXCEPT ![q].torn = FALSE]
  /\ IF hi[q] \in Glued(QZone(q))
     THEN hi' = [hi EXCEPT ![q] = @ + 1] /\ pc' = [pc EXCEPT ![q] = "hosts"]
     ELSE pc' = [pc EXCEPT ![q] = "pub"] /\ UNCHANGED hi
  /\ UNCHANGED <<cur, nsc, hostres, reply, lead, par, lastref, lastcd, last>>

PubKey(q) == IF ProvKey = "child" THEN Key(q) ELSE <<"P", QCD(q)>>

Publish(q) ==
  /\ pc[q] = "pub"
  /\ IF sets[q].addrs # {} THEN nsc' = [nsc EXCEPT ![PubKey(q)] = q] ELSE UNCHANGED nsc
  /\ pc' = [pc EXCEPT ![q] = "lookup"]
  /\ UNCHANGED <<cur, sets, hi, hostres, reply, lead, par, lastref, lastcd, last>>

Lookup(q) ==
  /\ pc[q] = "lookup"
  /\ LET r == hostres[<<QZone(q), hi[q]>>] IN
     /\ pc' = [pc EXCEPT ![q] = CASE r = "addr" -> "append" [] r = "none" -> "hosts" [] OTHER -> "hostgate"]
     /\ hi' = [hi EXCEPT ![q] = IF r = "none" THEN @ + 1 ELSE @]
  /\ UNCHANGED <<cur, sets, nsc, hostres, reply, lead, par, lastref, lastcd, last>>

AppendAddr(q) ==
  /\ pc[q] = "append"
  /\ sets' = [sets EXCEPT ![q].addrs = @ \cup {hi[q]}]
  /\ hi' = [hi EXCEPT ![q] = @ + 1]
  /\ pc' = [pc EXCEPT ![q] = "hosts"]
  /\ UNCHANGED <<cur, nsc, hostres, reply, lead, par, lastref, lastcd, last>>

Finalize(q) ==
  /\ pc[q] = "final"
  /\ IF sets[q].addrs = {}
     THEN /\ reply' = [reply EXCEPT ![q] = [NoReply EXCEPT !.rc = "SERVFAIL", !.m = "noauth"]]
          /\ pc' = [pc EXCEPT ![q] = "done"]
          /\ UNCHANGED <<nsc, cur, sets>>
     ELSE /\ nsc' = [nsc EXCEPT ![Key(q)] = q]
          /\ sets' = [sets EXCEPT ![q].final = TRUE]
          /\ cur' = [cur EXCEPT ![q] = q]
          /\ pc' = [pc EXCEPT ![q] = "send"]
          /\ UNCHANGED reply
  /\ UNCHANGED <<hi, hostres, lead, par, lastref, lastcd, last>>

Send(q) ==
  /\ pc[q] = "send"
  /\ pc' = [pc EXCEPT ![q] = "ansgate"]
  /\ UNCHANGED <<cur, sets, nsc, hi, hostres, reply, lead, par, lastref, lastcd, last>>

Recv(q) ==
  /\ pc[q] = "recv"
  /\ reply' = [reply EXCEPT ![q] = Outcome(reply[q].m, sets[cur[q]].zone, QZone(q))]
  /\ pc' = [pc EXCEPT ![q] = IF V6 /\ cur[q] = q THEN "v6" ELSE "done"]
  /\ UNCHANGED <<cur, sets, nsc, hi, hostres, lead, par, lastref, lastcd, last>>

(* lookupV6Nss: a detached job, two seconds after the object was published for good, appends the IPv6
   addresses of the NS hosts to it (a gate step: the driver can only wait for the timer) *)
V6Fire(q) ==
  /\ pc[q] = "v6"
  /\ sets' = [sets EXCEPT ![q].addrs = IF \E h \in 1..NHosts(QZone(q)) : h \notin Glued(QZone(q)) /\ hostres[<<QZone(q), h>>] = "addr"
                                        THEN @ \cup {NHosts(QZone(q)) + 1} ELSE @]
  /\ pc' = [pc EXCEPT ![q] = "done"]
  /\ last' = [op |-> "v6", q |-> q]
  /\ UNCHANGED <<cur, nsc, hi, hostres, reply, lead, par, lastref, lastcd>>

Join(q) ==
  /\ pc[q] = "joined" /\ Answered(lead[q])
  /\ reply' = [reply EXCEPT ![q] = reply[lead[q]]]
  /\ pc' = [pc EXCEPT ![q] = "done"]
  /\ UNCHANGED <<cur, sets, nsc, hi, hostres, lead, par, lastref, lastcd, last>>

Internal(q) == CacheCheck(q) \/ BuildSet(q) \/ Label(q) \/ HostStep(q) \/ Fill(q) \/ Publish(q) \/ Lookup(q)
               \/ AppendAddr(q) \/ Finalize(q) \/ Send(q) \/ Recv(q) \/ Join(q)

Gate == \/ \E q \in Queries : StartOK(q) /\ Start(q)
        \/ \E S \in SUBSET Queries : RelRef(S)
        \/ \E z \in Zones, h \in 1..MaxH, o \in Outs : h <= NHosts(z) /\ RelHost(z, h, o)
        \/ \E q \in Queries, m \in Moves : RelAns(q, m)
        \/ \E q \in Queries : V6Fire(q)

AllDone == \A q \in Queries : pc[q] = "done" \/ (pc[q] = "idle" /\ ~StartOK(q))
Stutter == AllDone /\ UNCHANGED vars

(* every interleaving *)
Next == (\E q \in Queries : Internal(q)) \/ Gate \/ Stutter
Spec == Init /\ [][Next]_vars /\ WF_vars((\E q \in Queries : Internal(q)) \/ Gate)

(* the behaviours a gated driver can force: a gate step only when nothing can move on its own *)
Quiescent == \A q \in Queries :
               \/ pc[q] \in {"idle", "refgate", "hostgate", "ansgate", "v6", "done"}
               \/ pc[q] = "joined" /\ ~Answered(lead[q])
GNext == (\E q \in Queries : Internal(q)) \/ (Quiescent /\ Gate) \/ Stutter
GSpec == Init /\ [][GNext]_vars

---------------------------------------------------------------------------
(* properties *)
Published == {k \in KeyZones \X BOOLEAN : nsc[k] # "none"}

(* a published set always carries the identity of the zone it was built for and is filed under that zone *)
PublishedIdentity == \A k \in Published : sets[nsc[k]].zone = k[1] /\ k[1] \in Zones
(* CD and non-CD sets are never confused *)
PublishedCD == \A k \in Published : /\ sets[nsc[k]].forCD = k[2]
                                     /\ sets[nsc[k]].cd = B2S(k[2] \/ Insecure)
ReaderCD == \A q \in Queries : cur[q] # "none" => sets[cur[q]].forCD = QCD(q)
(* never a mixture: the hosts / addresses of one referral under the identity or key of another *)
NoMixture == \A k \in Published : LET s == sets[nsc[k]] IN
               /\ s.forZone = k[1]
               /\ \A i \in 1..Len(s.hosts) : s.hosts[i] = i /\ i <= NHosts(s.forZone)
               /\ s.addrs \subseteq (1..(NHosts(s.forZone) + 1))
               /\ \A a \in s.addrs : a \in Glued(s.forZone) \/ a > NHosts(s.forZone) \/ hostres[<<s.forZone, a>>] = "addr"
(* a reader never sees a half-written host list *)
HostsWhole == \A k \in Published : ~sets[nsc[k]].torn
(* a published set can be asked *)
PublishedUsable == \A k \in Published : sets[nsc[k]].addrs # {}
(* The adversary's move is symbolic in the configs (Moves = {"any"}): a reply records the identity it was
   judged with, and the two properties quantify over every move kind the adversary has. *)
Judged(q) == pc[q] \in {"done", "v6"} /\ reply[q].id # "-"
(* the filter outcome equals the one computed with the true zone *)
FilterFaithful == \A q \in Queries : Judged(q) => \A m \in AllMoves :
                    LET t == Outcome(m, QZone(q), QZone(q))
                        o == Outcome(m, reply[q].id, QZone(q)) IN
                      o.cls = t.cls /\ o.rc = t.rc /\ o.followed = t.followed
(* C07: nothing owned outside the zone reaches the client, no referral the true zone would reject is followed *)
Containment == \A q \in Queries : Judged(q) => \A m \in AllMoves :
                 LET o == Outcome(m, reply[q].id, QZone(q)) IN "poison" \notin o.cls /\ ~o.followed
Readers == \A q \in Queries : pc[q] \in {"send", "ansgate", "recv"} => cur[q] # "none" /\ sets[cur[q]].live
Terminates == <>[]AllDone
=============================================================================
