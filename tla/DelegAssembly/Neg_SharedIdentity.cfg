CONSTANTS
  Queries <- Q3
  Zones <- Z12
  Moves <- AnyMove
  Outs <- BothOuts
  QZone <- Z_Zone
  QName <- R_Name
  QCD <- W_CD
  HostKinds <- Z_Hosts
  Insecure = TRUE
  GateRef = TRUE
  V6 = FALSE
  LabelOrder = "before"
  AppendAtomic = TRUE
  IdentitySource = "shared"
  CDSource = "local"
  ProvKey = "child"
INIT Init
NEXT Next
INVARIANTS PublishedIdentity
CHECK_DEADLOCK TRUE
