CONSTANTS
  Queries <- Q3
  Zones <- Z1
  Moves <- AnyMove
  Outs <- BothOuts
  QZone <- W_Zone
  QName <- R_Name
  QCD <- K_CD
  HostKinds <- W_Hosts
  Insecure = FALSE
  GateRef = TRUE
  V6 = FALSE
  LabelOrder = "before"
  AppendAtomic = TRUE
  IdentitySource = "local"
  CDSource = "shared"
  ProvKey = "child"
INIT Init
NEXT Next
INVARIANTS PublishedCD
CHECK_DEADLOCK TRUE
