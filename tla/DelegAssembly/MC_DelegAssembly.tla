------------------------- MODULE MC_DelegAssembly -------------------------
(* scenarios (constant operators) and the tables the driver needs; must mirror checks/x07dc.py SCENARIOS *)
EXTENDS DelegAssembly, Json

AnyMove  == {"any"}
BothOuts == {"addr", "none"}
Q3 == {"A", "B", "C"}
Q2 == {"A", "B"}
Z1 == {"1"}
Z12 == {"1", "2"}

(* W: the window.  A assembles zone 1 (one glued, one slow host); B asks another name, C the same name as A *)
W_Zone(q) == "1"
W_Name(q) == IF q = "B" THEN "b" ELSE "a"
W_CD(q)   == TRUE
W_Hosts(z) == <<"glued", "slow">>

(* R: three names of one zone (with the referral gate: released together they race through CacheCheck) *)
R_Name(q) == CASE q = "A" -> "a" [] q = "B" -> "b" [] OTHER -> "c"

(* S: no glued host at all: nothing is published before the first address is known, so several queries
   assemble the same delegation concurrently and overwrite each other's publication *)
S_Hosts(z) == <<"slow", "slow">>

(* Z: two delegations in flight at once (their referrals name different hosts) *)
Z_Zone(q) == IF q = "A" THEN "1" ELSE "2"
Z_Hosts(z) == IF z = "1" THEN <<"glued", "slow">> ELSE <<"glued", "slow", "slow">>

(* C: the client CD bit keys the cache: a CD=1 and two CD=0 clients (insecure delegation below a signed parent) *)
C_CD(q) == q = "A"
(* K: a secure chain, where CheckingDisable of the set follows the client *)
K_CD(q) == q # "B"

OutcomeTable == [m \in AllMoves |-> [id \in {"E", "P", "1", "2"} |->
                   LET o == Outcome(m, id, "1")
                   IN [rc |-> o.rc, cls |-> o.cls, followed |-> o.followed]]]
ASSUME PrintT(<<"X07DC_OUTCOME", ToJson(OutcomeTable)>>)
=============================================================================
