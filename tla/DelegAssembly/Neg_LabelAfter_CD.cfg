CONSTANTS
  Queries <- Q3
  Zones <- Z1
  Moves <- AnyMove
  Outs <- BothOuts
  QZone <- W_Zone
  QName <- R_Name
  QCD <- K_CD
  HostKinds <- W_Hosts
  Insecure = FALSE
  GateRef = FALSE
  V6 = FALSE
  LabelOrder = "after"
  AppendAtomic = TRUE
  IdentitySource = "local"
  CDSource = "local"
  ProvKey = "child"
INIT Init
NEXT Next
INVARIANTS PublishedCD
CHECK_DEADLOCK TRUE
