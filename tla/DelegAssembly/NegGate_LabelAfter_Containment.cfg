CONSTANTS
  Queries <- Q3
  Zones <- Z1
  Moves <- AnyMove
  Outs <- BothOuts
  QZone <- W_Zone
  QName <- W_Name
  QCD <- W_CD
  HostKinds <- W_Hosts
  Insecure = TRUE
  GateRef = FALSE
  V6 = FALSE
  LabelOrder = "after"
  AppendAtomic = TRUE
  IdentitySource = "local"
  CDSource = "local"
  ProvKey = "child"
INIT Init
NEXT GNext
INVARIANTS Containment
CHECK_DEADLOCK TRUE
