CONSTANTS
  Queries <- Q3
  Zones <- Z12
  Moves <- AnyMove
  Outs <- BothOuts
  QZone <- Z_Zone
  QName <- R_Name
  QCD <- W_CD
  HostKinds <- Z_Hosts
  Insecure = TRUE
  GateRef = FALSE
  V6 = FALSE
  LabelOrder = "before"
  AppendAtomic = TRUE
  IdentitySource = "local"
  CDSource = "local"
  ProvKey = "child"
INIT Init
NEXT GNext
INVARIANTS TypeOK PublishedIdentity PublishedCD ReaderCD NoMixture HostsWhole PublishedUsable FilterFaithful Containment Readers
CHECK_DEADLOCK TRUE
