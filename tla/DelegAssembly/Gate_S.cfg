CONSTANTS
  Queries <- Q3
  Zones <- Z1
  Moves <- AnyMove
  Outs <- BothOuts
  QZone <- W_Zone
  QName <- R_Name
  QCD <- W_CD
  HostKinds <- S_Hosts
  Insecure = TRUE
  GateRef = FALSE
  V6 = FALSE
  LabelOrder = "before"
  AppendAtomic = TRUE
  IdentitySource = "local"
  CDSource = "local"
  ProvKey = "child"
INIT Init
NEXT GNext
INVARIANTS TypeOK PublishedIdentity PublishedCD ReaderCD NoMixture HostsWhole PublishedUsable FilterFaithful Containment Readers
CHECK_DEADLOCK TRUE
