CONSTANTS
  Writers = {1, 2}
  Keys <- MCKeys
  Vals = {1, 2}
  SegOf <- MCSegOf
  Prog <- MCProg
  S = 2
  Cap = 1
  EnvOps = 2
INIT Init
NEXT Next
CHECK_DEADLOCK FALSE
