------------------------------ MODULE ExpCache ------------------------------
(***************************************************************************)
(* middleware/cache.PositiveCache / NegativeCache: the answer cache's two  *)
(* sub-caches, each a cache.Cache (the abstract map `tbl` of SegCache.tla, *)
(* here `m`) whose values are entries with a lifetime.  They are anchors   *)
(* of C16 and add one mechanism of their own on top of the table:          *)
(*                                                                         *)
(*   Get(k)   Load:     v := table.Get(k)            (segment read lock)   *)
(*                      absent            -> miss                          *)
(*                      lifetime not over -> hit v                         *)
(*            Cleanup:  lifetime over -> table.CompareAndDelete(k, v)      *)
(*                      (segment write lock), miss                         *)
(*   Set(k,e) table.Add(k, e)                                              *)
(*   Remove(k) table.Remove(k)                                             *)
(*                                                                         *)
(* Load and Cleanup are two critical sections of the table; anything may   *)
(* happen between them - in particular a writer may publish a fresh entry  *)
(* under the key.  The clock is the set `expired` of entries whose         *)
(* lifetime is over: Dead entries are stored already expired, Short ones   *)
(* expire while they are stored (Expire), Live ones outlive the history.   *)
(*                                                                         *)
(* CleanupRule = "cad" is the code.  "remove" is a model mutant: the       *)
(* cleanup is an unconditional table.Remove(k), so a stale reader deletes  *)
(* whatever is stored under the key by then.                               *)
(*                                                                         *)
(* Capacity is far above the number of keys in play: no eviction here      *)
(* (SegCache.tla owns eviction).                                           *)
(***************************************************************************)
EXTENDS Integers, FiniteSets, TLC

CONSTANTS Keys,         \* model keys
          Readers,      \* goroutines calling Get
          Dead,         \* entry ids stored with their lifetime already over
          Short,        \* entry ids whose lifetime ends while stored
          Live,         \* entry ids that never expire within a history
          CleanupRule   \* "cad" (the code) | "remove" (model mutant)

Ents == Dead \cup Short \cup Live

VARIABLES m,        \* Keys -> entry id stored in the table, 0 = absent
          expired,  \* entries whose lifetime is over (the clock)
          used,     \* entries stored so far (an entry identity is stored once)
          rd,       \* Readers -> the Get in flight: idle, or loaded an expired entry and about to clean up
          last,     \* ghost: Keys -> entry most recently stored and not removed since, 0 = none
          out       \* what the last step let its caller see (for the replay)

vars == <<m, expired, used, rd, last, out>>

Idle  == [st |-> "idle", k |-> 0, e |-> 0]
NoOut == [a |-> "none", r |-> 0, k |-> 0, e |-> 0, res |-> "none"]

Init ==
  /\ m = [k \in Keys |-> 0] /\ expired = Dead /\ used = {}
  /\ rd = [r \in Readers |-> Idle] /\ last = [k \in Keys |-> 0] /\ out = NoOut

(* PositiveCache.Set / NegativeCache.Set: one table.Add *)
Set(k, e) ==
  /\ e \notin used
  /\ m' = [m EXCEPT ![k] = e] /\ used' = used \cup {e} /\ last' = [last EXCEPT ![k] = e]
  /\ out' = [NoOut EXCEPT !.a = "set", !.k = k, !.e = e]
  /\ UNCHANGED <<expired, rd>>

(* PositiveCache.Remove / NegativeCache.Remove *)
Remove(k) ==
  /\ m' = [m EXCEPT ![k] = 0] /\ last' = [last EXCEPT ![k] = 0]
  /\ out' = [NoOut EXCEPT !.a = "rem", !.k = k]
  /\ UNCHANGED <<expired, used, rd>>

(* time passes the end of a stored entry's lifetime *)
Expire(e) ==
  /\ e \in (Short \cap used) \ expired
  /\ expired' = expired \cup {e}
  /\ out' = [NoOut EXCEPT !.a = "exp", !.e = e]
  /\ UNCHANGED <<m, used, rd, last>>

(* first critical section of Get: table.Get under the segment read lock, then IsExpired *)
Load(r, k) ==
  /\ rd[r].st = "idle"
  /\ LET e == m[k] IN
       IF e = 0
         THEN /\ out' = [NoOut EXCEPT !.a = "get", !.r = r, !.k = k, !.res = "miss"] /\ UNCHANGED rd
         ELSE IF e \notin expired
           THEN /\ out' = [NoOut EXCEPT !.a = "get", !.r = r, !.k = k, !.e = e, !.res = "hit"] /\ UNCHANGED rd
           ELSE /\ rd' = [rd EXCEPT ![r] = [st |-> "loaded", k |-> k, e |-> e]]
                /\ out' = [NoOut EXCEPT !.a = "load", !.r = r, !.k = k, !.e = e, !.res = "expired"]
  /\ UNCHANGED <<m, expired, used, last>>

(* second critical section of Get: the expiry cleanup under the segment write lock *)
Cleanup(r) ==
  /\ rd[r].st = "loaded"
  /\ LET k == rd[r].k
         e == rd[r].e
     IN /\ m' = IF CleanupRule = "remove" \/ m[k] = e THEN [m EXCEPT ![k] = 0] ELSE m
        /\ out' = [NoOut EXCEPT !.a = "cleanup", !.r = r, !.k = k, !.e = e, !.res = "miss"]
  /\ rd' = [rd EXCEPT ![r] = Idle]
  /\ UNCHANGED <<expired, used, last>>

Next ==
  \/ \E k \in Keys, e \in Ents : Set(k, e)
  \/ \E k \in Keys : Remove(k)
  \/ \E e \in Short : Expire(e)
  \/ \E r \in Readers, k \in Keys : Load(r, k)
  \/ \E r \in Readers : Cleanup(r)

Spec == Init /\ [][Next]_vars

----------------------------------------------------------------------------
TypeOK ==
  /\ m \in [Keys -> Ents \cup {0}] /\ expired \subseteq Ents /\ used \subseteq Ents
  /\ rd \in [Readers -> [st : {"idle", "loaded"}, k : Keys \cup {0}, e : Ents \cup {0}]]
  /\ last \in [Keys -> Ents \cup {0}]

(* a key yields the value most recently stored under it unless it was removed (or evicted): *)
(* while the entry stored last under k is within its lifetime it is what the table holds    *)
FreshStays == \A k \in Keys : (last[k] # 0 /\ last[k] \notin expired) => m[k] = last[k]

(* compare-and-delete acts only when the identical current value is present: a cleanup that *)
(* changes the table deletes exactly the entry its reader loaded                            *)
CleanupIdentity ==
  [][\A r \in Readers : (rd[r].st = "loaded" /\ rd'[r].st = "idle" /\ m' # m) => m[rd[r].k] = rd[r].e]_vars

(* a hit hands out the current entry, within its lifetime *)
HitIsCurrentLive == [][out'.res = "hit" => (m[out'.k] = out'.e /\ out'.e \notin expired)]_vars

(* distinct keys never alias: an entry identity sits under at most one key *)
NoAlias == \A a, b \in Keys : (m[a] # 0 /\ m[a] = m[b]) => a = b

(* a Get never touches another key *)
OthersUntouched ==
  [][\A r \in Readers : (rd[r].st = "loaded" /\ rd'[r].st = "idle") => \A j \in Keys \ {rd[r].k} : m'[j] = m[j]]_vars
=============================================================================
