CONSTANTS
  MaxProcs = 8
  MaxKeys = 2
SPECIFICATION TraceSpec
CONSTRAINT HighWater
POSTCONDITION TraceAccepted
CHECK_DEADLOCK FALSE
