------------------------------- MODULE MC_Exp -------------------------------
(***************************************************************************)
(* Model-checking front end of ExpCache.tla.                               *)
(*                                                                         *)
(* SpecFull is ExpCache's full interleaving model: exhaustive configs.      *)
(*                                                                         *)
(* SpecBatched generates the behaviours the harness can steer the real     *)
(* goroutines into.  The code has no hook between Load and Cleanup; the    *)
(* harness holds the key's segment lock, lets readers park in RLock and    *)
(* writers in Lock, and releases it: sync.RWMutex admits all readers       *)
(* (the Loads), then a writer (Set / Remove), and the readers' cleanups     *)
(* queue behind it.  So a batch is Loads ; Sets or Removes ; Cleanups, and  *)
(* everything outside a batch is sequential.  `ph` tracks that shape.      *)
(***************************************************************************)
EXTENDS ExpCache

VARIABLE ph
bvars == <<vars, ph>>

Loaded == {r \in Readers : rd[r].st = "loaded"}

BInit == Init /\ ph = "open"

BNext ==
  \/ /\ ph = "open"
     /\ \/ \E k \in Keys, e \in Ents : Set(k, e)
        \/ \E k \in Keys : Remove(k)
        \/ \E e \in Short : Expire(e)
        \/ \E r \in Readers, k \in Keys : Load(r, k)
     /\ ph' = IF \E r \in Readers : rd'[r].st = "loaded" THEN "gather" ELSE "open"
  \/ /\ ph = "gather"
     /\ \/ /\ \E r \in Readers, k \in Keys : Load(r, k)
           /\ ph' = "gather"
        \/ /\ (\E k \in Keys, e \in Ents : Set(k, e)) \/ (\E k \in Keys : Remove(k))
           /\ ph' = "write"
        \/ /\ \E r \in Readers : Cleanup(r)
           /\ ph' = IF Loaded' = {} THEN "open" ELSE "clean"
  \/ /\ ph = "write"
     /\ \/ /\ (\E k \in Keys, e \in Ents : Set(k, e)) \/ (\E k \in Keys : Remove(k))
           /\ ph' = "write"
        \/ /\ \E r \in Readers : Cleanup(r)
           /\ ph' = IF Loaded' = {} THEN "open" ELSE "clean"
  \/ /\ ph = "clean"
     /\ \E r \in Readers : Cleanup(r)
     /\ ph' = IF Loaded' = {} THEN "open" ELSE "clean"

SpecBatched == BInit /\ [][BNext]_bvars

\* the full interleaving model (ph is idle)
SpecFull == BInit /\ [][Next /\ UNCHANGED ph]_bvars
=============================================================================
