SPECIFICATION SpecFull
CONSTANTS
  Keys = {1, 2}
  Readers = {1, 2}
  Dead = {1, 2}
  Short = {3}
  Live = {4, 5}
  CleanupRule = "remove"
INVARIANTS FreshStays
CHECK_DEADLOCK FALSE
