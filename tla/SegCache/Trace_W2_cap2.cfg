CONSTANTS
  Writers = {1, 2}
  Keys <- MCKeys
  Vals = {1, 2}
  SegOf <- MCSegOf
  Prog <- MCProg
  S = 2
  Cap = 2
  EnvOps = 1
SPECIFICATION TraceSpec
INVARIANTS TypeOK OccupancyBound NeverEvictSelf QuiescentLen OneLockAtATime LocksAgree
POSTCONDITION TraceAccepted
CHECK_DEADLOCK FALSE
