---------------------------- MODULE Trace_LinMap ----------------------------
(***************************************************************************)
(* Property monitor for free-running concurrent histories of the real      *)
(* internal/cache.Cache (harness/c16/linmap_test.go).                       *)
(*                                                                         *)
(* The state is the abstract map `am` of SegCache.tla (key -> value id,    *)
(* 0 = absent) plus, per goroutine, the call it has in flight.  A call     *)
(* takes effect atomically in one Lin step somewhere between its           *)
(* invocation line and its response line; this is exactly what SegCache's  *)
(* MapSemantics / NoAlias / CASIdentity say about the abstract operations, *)
(* restated for real-time histories.  An Add may, after it took effect and *)
(* before it returns, evict other keys (never its own) -- the statement    *)
(* allows eviction without saying when, so the monitor allows it always.   *)
(* A quiescent line (no call in flight) must agree with the map on Get of  *)
(* every key, on what iteration yields, and on the reported length.        *)
(*                                                                         *)
(* Lines are stamped from one harness-side atomic sequence (invocation     *)
(* before the call, response after it returned), so widening a call's      *)
(* window is the only distortion and it can only admit more placements.    *)
(* A history TLC cannot consume to the end admits no placement: that is a  *)
(* violation of C16 on the real code (this spec asks nothing beyond the    *)
(* statement).  Rounds are concatenated with reset lines; the high-water   *)
(* mark of `l` is kept in TLC register 1 (run with -workers 1).            *)
(***************************************************************************)
EXTENDS Integers, Sequences, FiniteSets, TLC, Json, IOUtils

CONSTANTS MaxProcs, MaxKeys

TraceLog == ndJsonDeserialize(IOEnv.TRACE_FILE)

Procs == 1..MaxProcs
Keys  == 1..MaxKeys

VARIABLES l, m, pend
tvars == <<l, m, pend>>

Idle == [op |-> "none", k |-> 0, a |-> 0, b |-> 0, done |-> FALSE, ok |-> FALSE, v |-> 0]

TraceInit ==
  /\ l = 1
  /\ m = [k \in Keys |-> 0]
  /\ pend = [p \in Procs |-> Idle]
  /\ TLCSet(1, 0)

Line == TraceLog[l]
IsEv(e) == l <= Len(TraceLog) /\ Line.t = e /\ l' = l + 1

TReset ==
  /\ IsEv("reset")
  /\ m' = [k \in Keys |-> 0]
  /\ pend' = [p \in Procs |-> Idle]

TInv ==
  /\ IsEv("inv")
  /\ pend[Line.p].op = "none"
  /\ pend' = [pend EXCEPT ![Line.p] = [op |-> Line.op, k |-> Line.k, a |-> Line.a, b |-> Line.b,
                                       done |-> FALSE, ok |-> FALSE, v |-> 0]]
  /\ UNCHANGED m

Done(p, ok, v) == pend' = [pend EXCEPT ![p].done = TRUE, ![p].ok = ok, ![p].v = v]

(* the abstract operations of SegCache.tla, one atomic step each *)
Lin(p) ==
  /\ l <= Len(TraceLog)
  /\ pend[p].op # "none" /\ ~pend[p].done
  /\ LET o == pend[p] IN
     CASE o.op = "add" -> m' = [m EXCEPT ![o.k] = o.a] /\ Done(p, TRUE, 0)
       [] o.op = "get" -> m' = m /\ Done(p, m[o.k] # 0, m[o.k])
       [] o.op = "rem" -> m' = [m EXCEPT ![o.k] = 0] /\ Done(p, TRUE, 0)
       [] o.op = "cas" -> IF m[o.k] # 0 /\ m[o.k] = o.a
                            THEN m' = [m EXCEPT ![o.k] = o.b] /\ Done(p, TRUE, 0)
                            ELSE m' = m /\ Done(p, FALSE, 0)
       [] o.op = "cad" -> IF m[o.k] # 0 /\ m[o.k] = o.a
                            THEN m' = [m EXCEPT ![o.k] = 0] /\ Done(p, TRUE, 0)
                            ELSE m' = m /\ Done(p, FALSE, 0)
  /\ UNCHANGED l

(* an insert may evict other keys, never the one it is writing *)
Evict(p, k) ==
  /\ l <= Len(TraceLog)
  /\ pend[p].op = "add" /\ pend[p].done
  /\ k # pend[p].k /\ m[k] # 0
  /\ m' = [m EXCEPT ![k] = 0]
  /\ UNCHANGED <<l, pend>>

TRes ==
  /\ IsEv("res")
  /\ pend[Line.p].op = Line.op /\ pend[Line.p].done
  /\ pend[Line.p].ok = Line.ok
  /\ pend[Line.p].v = Line.v
  /\ pend' = [pend EXCEPT ![Line.p] = Idle]
  /\ UNCHANGED m

Present == {k \in Keys : m[k] # 0}

TQuiescent ==
  /\ IsEv("q")
  /\ \A p \in Procs : pend[p].op = "none"
  /\ \A k \in Keys : m[k] = Line.get[k] /\ Line.iter[k] = Line.get[k]
  /\ Line.len = Cardinality(Present)
  /\ UNCHANGED <<m, pend>>

TraceNext ==
  \/ TReset \/ TInv \/ TRes \/ TQuiescent
  \/ \E p \in Procs : Lin(p)
  \/ \E p \in Procs, k \in Keys : Evict(p, k)

TraceSpec == TraceInit /\ [][TraceNext]_tvars

HighWater == TLCSet(1, IF l > TLCGet(1) THEN l ELSE TLCGet(1))
TraceAccepted ==
  /\ PrintT(<<"linmap-high-water", TLCGet(1), Len(TraceLog)>>)
  /\ TLCGet(1) > Len(TraceLog)
=============================================================================
