SPECIFICATION SpecFull
CONSTANTS
  Keys = {1, 2}
  Readers = {1, 2}
  Dead = {1, 2}
  Short = {3}
  Live = {4, 5}
  CleanupRule = "cad"
INVARIANTS TypeOK FreshStays NoAlias
PROPERTIES CleanupIdentity HitIsCurrentLive OthersUntouched
CHECK_DEADLOCK FALSE
