CONSTANTS
  Writers = {1, 2}
  Keys <- MCKeys
  Vals = {1, 2}
  SegOf <- MCSegOf
  Prog <- MCProg
  S = 2
  Cap = 2
  EnvOps = 1
SPECIFICATION Spec
VIEW View
INVARIANTS TypeOK OccupancyBound NeverEvictSelf QuiescentLen OneLockAtATime
PROPERTIES Terminates
CHECK_DEADLOCK FALSE
