------------------------------ MODULE SegCache ------------------------------
(***************************************************************************)
(* internal/cache.SegmentUInt64Map.SetWithCap + cache.Cache, one action    *)
(* per critical step of the code (each ends at a `verifGate` point of the  *)
(* implementation, so a TLC-chosen schedule can be forced on the real      *)
(* goroutines and a recorded run can be validated line by line).           *)
(*                                                                         *)
(* Per-segment tables are abstract maps: ProbeMap.tla establishes that the *)
(* open-addressing table refines a map and that EvictKeysAt removes        *)
(* min(n, live \ {skip}) entries, never `skip`.                            *)
(*                                                                         *)
(* Segments are cyclic (the code walks (segIdx+i) & mask); only the        *)
(* modelled segments hold keys, the other real segments are empty, and     *)
(* visiting an empty segment is a stuttering step.                         *)
(***************************************************************************)
EXTENDS Integers, FiniteSets, Sequences, TLC

CONSTANTS Writers,    \* set of writer process ids (1..W)
          Prog,       \* [Writers -> Seq([k: Keys, v: Vals])]  the Add() calls each writer makes
          Keys,       \* 1..NK
          Vals,       \* value identities (positive ints)
          SegOf,      \* [Keys -> 0..S-1]
          S,          \* number of modelled segments
          Cap,        \* capacity
          EnvOps      \* max number of environment operations (Del/CAS/CAD by other goroutines)

VARIABLES tbl,      \* [Keys -> Vals \cup {0}]   0 = absent
          lock,     \* [0..S-1 -> Writers \cup {0}]
          count,    \* the atomic counter
          pc,       \* [Writers -> {"idle","locked","added","evict","unlocking","unlocked","spillLock","spillSub","spillNext","done"}]
          opi,      \* [Writers -> index into Prog]
          deficit,  \* [Writers -> Int]
          spill,    \* [Writers -> 1..S] offset of the next segment to visit
          pend,     \* [Writers -> Int] evicted in the last spill visit, not yet subtracted
          envLeft,  \* remaining environment operations
          ev        \* ghost: last event (hidden by the VIEW)

vars == <<tbl, lock, count, pc, opi, deficit, spill, pend, envLeft, ev>>

Op(p) == Prog[p][opi[p]]
OwnSeg(p) == SegOf[Op(p).k]
Present == {k \in Keys : tbl[k] # 0}
InSeg(s) == {k \in Present : SegOf[k] = s}
Min2(a, b) == IF a < b THEN a ELSE b

Init ==
  /\ tbl = [k \in Keys |-> 0]
  /\ lock = [s \in 0..S-1 |-> 0]
  /\ count = 0
  /\ pc = [p \in Writers |-> IF Len(Prog[p]) = 0 THEN "done" ELSE "idle"]
  /\ opi = [p \in Writers |-> 1]
  /\ deficit = [p \in Writers |-> 0]
  /\ spill = [p \in Writers |-> 1]
  /\ pend = [p \in Writers |-> 0]
  /\ envLeft = EnvOps
  /\ ev = [e |-> "Init"]

(* the writer's call returns: move to the next Add() of its program *)
Return(p) ==
  /\ pc' = [pc EXCEPT ![p] = IF opi[p] = Len(Prog[p]) THEN "done" ELSE "idle"]
  /\ opi' = [opi EXCEPT ![p] = IF opi[p] = Len(Prog[p]) THEN opi[p] ELSE opi[p] + 1]

(* segment.rwlock.Lock()  -> gate Locked *)
Lock(p) ==
  /\ pc[p] = "idle"
  /\ lock[OwnSeg(p)] = 0
  /\ lock' = [lock EXCEPT ![OwnSeg(p)] = p]
  /\ pc' = [pc EXCEPT ![p] = "locked"]
  /\ ev' = [e |-> "Lock", p |-> p, k |-> Op(p).k]
  /\ UNCHANGED <<tbl, count, opi, deficit, spill, pend, envLeft>>

(* Put + count.Add(1) if new  -> gate PutAdded *)
PutAdd(p) ==
  /\ pc[p] = "locked"
  /\ tbl' = [tbl EXCEPT ![Op(p).k] = Op(p).v]
  /\ count' = IF tbl[Op(p).k] = 0 THEN count + 1 ELSE count
  /\ pc' = [pc EXCEPT ![p] = "added"]
  /\ ev' = [e |-> "PutAdd", p |-> p, k |-> Op(p).k]
  /\ UNCHANGED <<lock, opi, deficit, spill, pend, envLeft>>

(* count.Load() > capacity ?  -> gate OverCap, or straight to gate Unlocking *)
LoadCount(p) ==
  /\ pc[p] = "added"
  /\ IF count > Cap
       THEN pc' = [pc EXCEPT ![p] = "evict"] /\ UNCHANGED deficit
       ELSE pc' = [pc EXCEPT ![p] = "unlocking"] /\ deficit' = [deficit EXCEPT ![p] = 0]
  /\ ev' = [e |-> "LoadCount", p |-> p, over |-> (count > Cap)]
  /\ UNCHANGED <<tbl, lock, count, opi, spill, pend, envLeft>>

(* EvictKeysAt(offset, 2, key) on the own segment + count.Add(-d) -> gate Unlocking *)
EvictOwn(p, victims) ==
  /\ pc[p] = "evict"
  /\ victims \subseteq (InSeg(OwnSeg(p)) \ {Op(p).k})
  /\ Cardinality(victims) = Min2(2, Cardinality(InSeg(OwnSeg(p)) \ {Op(p).k}))
  /\ tbl' = [k \in Keys |-> IF k \in victims THEN 0 ELSE tbl[k]]
  /\ count' = count - Cardinality(victims)
  /\ deficit' = [deficit EXCEPT ![p] = 2 - Cardinality(victims)]
  /\ pc' = [pc EXCEPT ![p] = "unlocking"]
  /\ ev' = [e |-> "EvictOwn", p |-> p, victims |-> victims]
  /\ UNCHANGED <<lock, opi, spill, pend, envLeft>>

(* segment.rwlock.Unlock() -> gate Unlocked *)
Unlock(p) ==
  /\ pc[p] = "unlocking"
  /\ lock' = [lock EXCEPT ![OwnSeg(p)] = 0]
  /\ pc' = [pc EXCEPT ![p] = "unlocked"]
  /\ spill' = [spill EXCEPT ![p] = 1]
  /\ ev' = [e |-> "Unlock", p |-> p]
  /\ UNCHANGED <<tbl, count, opi, deficit, pend, envLeft>>

(* `if deficit <= 0 { return }` and the loop head:
     i < len(segments) && deficit > 0 ; if count.Load() <= capacity { return }
   -> either the call returns, or gate SpillLock of the next segment *)
SpillCheck(p) ==
  /\ pc[p] \in {"unlocked", "spillNext"}
  /\ IF deficit[p] <= 0 \/ spill[p] >= S \/ count <= Cap
       THEN Return(p) /\ ev' = [e |-> "Return", p |-> p]
       ELSE /\ pc' = [pc EXCEPT ![p] = "spillLock"] /\ UNCHANGED opi
            /\ ev' = [e |-> "SpillCheck", p |-> p, seg |-> (OwnSeg(p) + spill[p]) % S]
  /\ UNCHANGED <<tbl, lock, count, deficit, spill, pend, envLeft>>

(* next.Lock(); EvictKeysAt(offset, deficit, key); next.Unlock()  -> gate SpillEvicted *)
SpillEvict(p, victims) ==
  /\ pc[p] = "spillLock"
  /\ LET s == (OwnSeg(p) + spill[p]) % S IN
     /\ lock[s] = 0
     /\ victims \subseteq (InSeg(s) \ {Op(p).k})
     /\ Cardinality(victims) = Min2(deficit[p], Cardinality(InSeg(s) \ {Op(p).k}))
  /\ tbl' = [k \in Keys |-> IF k \in victims THEN 0 ELSE tbl[k]]
  /\ pend' = [pend EXCEPT ![p] = Cardinality(victims)]
  /\ pc' = [pc EXCEPT ![p] = "spillSub"]
  /\ ev' = [e |-> "SpillEvict", p |-> p, victims |-> victims]
  /\ UNCHANGED <<lock, count, opi, deficit, spill, envLeft>>

(* count.Add(-d); deficit -= d  -> gate SpillSubbed *)
SpillSub(p) ==
  /\ pc[p] = "spillSub"
  /\ count' = count - pend[p]
  /\ deficit' = [deficit EXCEPT ![p] = deficit[p] - pend[p]]
  /\ pend' = [pend EXCEPT ![p] = 0]
  /\ spill' = [spill EXCEPT ![p] = spill[p] + 1]
  /\ pc' = [pc EXCEPT ![p] = "spillNext"]
  /\ ev' = [e |-> "SpillSub", p |-> p]
  /\ UNCHANGED <<tbl, lock, opi, envLeft>>

(* ---- other goroutines: each is one critical section under the segment lock *)
EnvDel(k) ==
  /\ envLeft > 0 /\ lock[SegOf[k]] = 0
  /\ tbl' = [tbl EXCEPT ![k] = 0]
  /\ count' = IF tbl[k] # 0 THEN count - 1 ELSE count
  /\ envLeft' = envLeft - 1
  /\ ev' = [e |-> "Del", k |-> k, ok |-> (tbl[k] # 0)]
  /\ UNCHANGED <<lock, pc, opi, deficit, spill, pend>>

EnvCAS(k, old, new) ==
  /\ envLeft > 0 /\ lock[SegOf[k]] = 0
  /\ tbl' = IF tbl[k] = old THEN [tbl EXCEPT ![k] = new] ELSE tbl
  /\ envLeft' = envLeft - 1
  /\ ev' = [e |-> "CAS", k |-> k, old |-> old, new |-> new, ok |-> (tbl[k] = old)]
  /\ UNCHANGED <<lock, count, pc, opi, deficit, spill, pend>>

EnvCAD(k, old) ==
  /\ envLeft > 0 /\ lock[SegOf[k]] = 0
  /\ tbl' = IF tbl[k] = old THEN [tbl EXCEPT ![k] = 0] ELSE tbl
  /\ count' = IF tbl[k] = old THEN count - 1 ELSE count
  /\ envLeft' = envLeft - 1
  /\ ev' = [e |-> "CAD", k |-> k, old |-> old, ok |-> (tbl[k] = old)]
  /\ UNCHANGED <<lock, pc, opi, deficit, spill, pend>>

Next ==
  \/ \E p \in Writers : Lock(p) \/ PutAdd(p) \/ LoadCount(p) \/ Unlock(p)
                          \/ SpillCheck(p) \/ SpillSub(p)
  \/ \E p \in Writers, vs \in SUBSET Keys : EvictOwn(p, vs) \/ SpillEvict(p, vs)
  \/ \E k \in Keys : EnvDel(k)
  \/ \E k \in Keys, o \in Vals, nv \in Vals : EnvCAS(k, o, nv)
  \/ \E k \in Keys, o \in Vals : EnvCAD(k, o)

Spec == Init /\ [][Next]_vars /\ \A p \in Writers : WF_vars(
          Lock(p) \/ PutAdd(p) \/ LoadCount(p) \/ Unlock(p) \/ SpillCheck(p) \/ SpillSub(p)
          \/ \E vs \in SUBSET Keys : EvictOwn(p, vs) \/ SpillEvict(p, vs))

(* ------------------------------ properties ---------------------------- *)
AllDone == \A p \in Writers : pc[p] = "done"
Quiescent == \A p \in Writers : pc[p] \in {"idle", "done"}

TypeOK ==
  /\ tbl \in [Keys -> Vals \cup {0}]
  /\ lock \in [0..S-1 -> Writers \cup {0}]
  /\ count \in Int

(* writers past their Put and not yet returned *)
InFlight == {p \in Writers : pc[p] \in {"added", "evict", "unlocking", "unlocked",
                                        "spillLock", "spillSub", "spillNext"}}

(* occupancy never exceeds capacity by more than the number of concurrent writers *)
OccupancyBound == Cardinality(Present) <= Cap + Cardinality(InFlight)

(* an insert never evicts the key it is writing: until the writer unlocks its
   segment the key it stored is there with its value *)
NeverEvictSelf ==
  \A p \in Writers : pc[p] \in {"added", "evict", "unlocking"} => tbl[Op(p).k] = Op(p).v

(* once writers stop the reported length equals the number of reachable entries *)
QuiescentLen == Quiescent => count = Cardinality(Present)

(* no writer ever holds two segment locks, and the spill walk holds none *)
OneLockAtATime ==
  \A p \in Writers :
    /\ Cardinality({s \in 0..S-1 : lock[s] = p}) <= 1
    /\ pc[p] \in {"idle", "unlocked", "spillLock", "spillSub", "spillNext", "done"}
         => \A s \in 0..S-1 : lock[s] # p

(* writers never wait on a global lock: every started call completes (no deadlock);
   checked as a liveness property under weak fairness of each writer *)
Terminates == <>AllDone

View == <<tbl, lock, count, pc, opi, deficit, spill, pend, envLeft>>
=============================================================================
