------------------------------ MODULE Trace_W2 ------------------------------
(***************************************************************************)
(* TraceLog validation of executions recorded from the real cache.Cache       *)
(* (harness/c16/segcache_test.go) against SegCache.tla.  One NDJSON line   *)
(* per step, taken while every goroutine is parked, so the line order is   *)
(* the real order.  Each line carries the gate reached and the observed    *)
(* table/counter; unlogged choices (eviction victims) are inferred by TLC. *)
(* Many runs are concatenated with Reset lines.                            *)
(***************************************************************************)
EXTENDS MC_W2, Json, IOUtils

TraceLog == ndJsonDeserialize(IOEnv.TRACE_FILE)

VARIABLE l
tvars == <<vars, l>>

TraceInit == Init /\ l = 1

Line == TraceLog[l]
IsEv(e) == l <= Len(TraceLog) /\ Line.ev = e /\ l' = l + 1
Obs == /\ tbl' = [k \in Keys |-> Line.tbl[k]]
       /\ count' = Line.count

Reset ==
  /\ IsEv("Reset")
  /\ tbl' = [k \in Keys |-> 0] /\ lock' = [s \in 0..S-1 |-> 0] /\ count' = 0
  /\ pc' = [p \in Writers |-> IF Len(Prog[p]) = 0 THEN "done" ELSE "idle"]
  /\ opi' = [p \in Writers |-> 1] /\ deficit' = [p \in Writers |-> 0]
  /\ spill' = [p \in Writers |-> 1] /\ pend' = [p \in Writers |-> 0]
  /\ envLeft' = EnvOps /\ ev' = [e |-> "Init"]

Gate ==
  /\ IsEv("gate")
  /\ Obs
  /\ LET p == Line.p g == Line.g IN
     \/ g = 1 /\ Lock(p) /\ Op(p).k = Line.k
     \/ g = 2 /\ PutAdd(p)
     \/ g = 3 /\ LoadCount(p) /\ pc'[p] = "evict"
     \/ g = 4 /\ pc[p] = "added" /\ LoadCount(p) /\ pc'[p] = "unlocking"
     \/ g = 4 /\ pc[p] = "evict" /\ \E vs \in SUBSET Keys : EvictOwn(p, vs)
     \/ g = 5 /\ Unlock(p)
     \/ g = 6 /\ SpillCheck(p) /\ pc'[p] = "spillLock" /\ Line.seg = (OwnSeg(p) + spill[p]) % S
     \/ g = 7 /\ \E vs \in SUBSET Keys : SpillEvict(p, vs) /\ Line.n = Cardinality(vs)
     \/ g = 8 /\ SpillSub(p) /\ deficit'[p] = Line.n

Ret ==
  /\ IsEv("ret")
  /\ Obs
  /\ SpillCheck(Line.p) /\ pc'[Line.p] \in {"idle", "done"}

(* the harness issues more environment operations than the bounded model allows *)
EnvAny == envLeft' = envLeft
TDel == /\ IsEv("Del") /\ Obs
        /\ LET k == Line.k IN
           /\ lock[SegOf[k]] = 0
           /\ tbl' = [tbl EXCEPT ![k] = 0]
           /\ count' = IF tbl[k] # 0 THEN count - 1 ELSE count
        /\ UNCHANGED <<lock, pc, opi, deficit, spill, pend, envLeft, ev>>
TCAS == /\ IsEv("CAS") /\ Obs
        /\ LET k == Line.k IN
           /\ lock[SegOf[k]] = 0
           /\ Line.ok = (tbl[k] = Line.old)
           /\ tbl' = IF tbl[k] = Line.old THEN [tbl EXCEPT ![k] = Line.new] ELSE tbl
           /\ count' = count
        /\ UNCHANGED <<lock, pc, opi, deficit, spill, pend, envLeft, ev>>
TCAD == /\ IsEv("CAD") /\ Obs
        /\ LET k == Line.k IN
           /\ lock[SegOf[k]] = 0
           /\ Line.ok = (tbl[k] = Line.old)
           /\ tbl' = IF tbl[k] = Line.old THEN [tbl EXCEPT ![k] = 0] ELSE tbl
           /\ count' = IF tbl[k] = Line.old THEN count - 1 ELSE count
        /\ UNCHANGED <<lock, pc, opi, deficit, spill, pend, envLeft, ev>>

TraceNext == Reset \/ Gate \/ Ret \/ TDel \/ TCAS \/ TCAD
TraceSpec == TraceInit /\ [][TraceNext]_tvars

(* the observed lock state must agree with the model's at every step *)
LocksAgree ==
  (l > 1 /\ TraceLog[l-1].ev # "Reset") =>
     \A s \in 0..S-1 : (lock[s] # 0) = TraceLog[l-1].locks[s+1]

TraceAccepted == TLCGet("stats").diameter - 1 = Len(TraceLog)
=============================================================================
