CONSTANTS
  Writers = {1, 2, 3}
  Keys <- MCKeys
  Vals = {1, 2}
  SegOf <- MCSegOf
  Prog <- MCProg
  S = 3
  Cap = 1
  EnvOps = 0
SPECIFICATION Spec
VIEW View
INVARIANTS TypeOK OccupancyBound NeverEvictSelf QuiescentLen OneLockAtATime
PROPERTIES Terminates
CHECK_DEADLOCK FALSE
