---------------------------- MODULE Trace_ExpMap ----------------------------
(***************************************************************************)
(* Property monitor for concurrent histories of the real PositiveCache /   *)
(* NegativeCache (harness/c16/expcache_test.go), in the manner of          *)
(* Trace_LinMap.tla.                                                       *)
(*                                                                         *)
(* The state is ExpCache.tla's abstract table `m` (key -> entry id, 0 =    *)
(* absent) with its clock `expired`, plus the call each goroutine has in   *)
(* flight.  A call takes effect atomically in one Lin step between its     *)
(* invocation line and its response line:                                  *)
(*   set(k,e)  m[k] := e            rem(k)  m[k] := 0                      *)
(*   get(k)    hit e iff m[k] = e and e's lifetime is not over, else miss  *)
(* and a Get that met an entry whose lifetime is over may, after that and  *)
(* before it returns, take that very entry out of the table if it is still *)
(* what the key holds (Sweep: compare-and-delete acts only when the        *)
(* identical current value is present).  Nothing else leaves the table:    *)
(* capacity is far above the keys in play, so there is no eviction, and    *)
(* the statement lets a key lose its most recently stored value in no      *)
(* other way.                                                              *)
(*                                                                         *)
(* `exp` lines are the harness's virtual clock (the entry's lifetime is    *)
(* ended through the overlay shim while no call is in flight).  A `q` line *)
(* (no call in flight) must agree with the table on the raw content of     *)
(* every key and on the reported length.                                   *)
(*                                                                         *)
(* A history TLC cannot consume to the end admits no placement: a          *)
(* violation of C16 on the real code.  Rounds are concatenated with reset  *)
(* lines; the high-water mark of `l` is kept in TLC register 1 (run with   *)
(* -workers 1).                                                            *)
(***************************************************************************)
EXTENDS Integers, Sequences, FiniteSets, TLC, Json, IOUtils

CONSTANTS MaxProcs, MaxKeys

TraceLog == ndJsonDeserialize(IOEnv.TRACE_FILE)

Procs == 1..MaxProcs
Keys  == 1..MaxKeys

VARIABLES l, m, expired, pend
tvars == <<l, m, expired, pend>>

Idle == [op |-> "none", k |-> 0, a |-> 0, done |-> FALSE, ok |-> FALSE, v |-> 0, ld |-> 0]

TraceInit ==
  /\ l = 1
  /\ m = [k \in Keys |-> 0]
  /\ expired = {}
  /\ pend = [p \in Procs |-> Idle]
  /\ TLCSet(1, 0)

Line == TraceLog[l]
IsEv(e) == l <= Len(TraceLog) /\ Line.t = e /\ l' = l + 1

\* a round starts: empty table; the line names the entries that are stored with their lifetime over
TReset ==
  /\ IsEv("reset")
  /\ m' = [k \in Keys |-> 0]
  /\ expired' = {Line.dead[i] : i \in 1..Len(Line.dead)}
  /\ pend' = [p \in Procs |-> Idle]

TInv ==
  /\ IsEv("inv")
  /\ pend[Line.p].op = "none"
  /\ pend' = [pend EXCEPT ![Line.p] = [Idle EXCEPT !.op = Line.op, !.k = Line.k, !.a = Line.a]]
  /\ UNCHANGED <<m, expired>>

Lin(p) ==
  /\ l <= Len(TraceLog)
  /\ pend[p].op # "none" /\ ~pend[p].done
  /\ LET o == pend[p]
         e == m[o.k]
     IN CASE o.op = "set" -> /\ m' = [m EXCEPT ![o.k] = o.a]
                             /\ pend' = [pend EXCEPT ![p].done = TRUE, ![p].ok = TRUE]
          [] o.op = "rem" -> /\ m' = [m EXCEPT ![o.k] = 0]
                             /\ pend' = [pend EXCEPT ![p].done = TRUE, ![p].ok = TRUE]
          [] o.op = "get" -> /\ m' = m
                             /\ pend' = [pend EXCEPT ![p].done = TRUE, ![p].ld = e,
                                                     ![p].ok = (e # 0 /\ e \notin expired),
                                                     ![p].v = IF e # 0 /\ e \notin expired THEN e ELSE 0]
  /\ UNCHANGED <<l, expired>>

\* the expiry cleanup of a Get: only the entry it loaded, only while that is what the key holds
Sweep(p) ==
  /\ l <= Len(TraceLog)
  /\ pend[p].op = "get" /\ pend[p].done
  /\ pend[p].ld # 0 /\ pend[p].ld \in expired
  /\ m[pend[p].k] = pend[p].ld
  /\ m' = [m EXCEPT ![pend[p].k] = 0]
  /\ pend' = [pend EXCEPT ![p].ld = 0]
  /\ UNCHANGED <<l, expired>>

TRes ==
  /\ IsEv("res")
  /\ pend[Line.p].op = Line.op /\ pend[Line.p].done
  /\ pend[Line.p].ok = Line.ok
  /\ pend[Line.p].v = Line.v
  /\ pend' = [pend EXCEPT ![Line.p] = Idle]
  /\ UNCHANGED <<m, expired>>

\* virtual clock: the lifetime of entry Line.a ends (no call in flight)
TExp ==
  /\ IsEv("exp")
  /\ \A p \in Procs : pend[p].op = "none"
  /\ expired' = expired \cup {Line.a}
  /\ UNCHANGED <<m, pend>>

Present == {k \in Keys : m[k] # 0}

TQuiescent ==
  /\ IsEv("q")
  /\ \A p \in Procs : pend[p].op = "none"
  /\ \A k \in Keys : m[k] = Line.raw[k]
  /\ Line.len = Cardinality(Present)
  /\ UNCHANGED <<m, expired, pend>>

TraceNext ==
  \/ TReset \/ TInv \/ TRes \/ TExp \/ TQuiescent
  \/ \E p \in Procs : Lin(p)
  \/ \E p \in Procs : Sweep(p)

TraceSpec == TraceInit /\ [][TraceNext]_tvars

HighWater == TLCSet(1, IF l > TLCGet(1) THEN l ELSE TLCGet(1))
TraceAccepted ==
  /\ PrintT(<<"expmap-high-water", TLCGet(1), Len(TraceLog)>>)
  /\ TLCGet(1) > Len(TraceLog)
=============================================================================
