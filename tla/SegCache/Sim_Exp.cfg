SPECIFICATION SpecBatched
CONSTANTS
  Keys = {1, 2}
  Readers = {1, 2, 3}
  Dead = {1, 2}
  Short = {3}
  Live = {4, 5, 6}
  CleanupRule = "cad"
CHECK_DEADLOCK FALSE
