CONSTANTS
  MaxProcs = 8
  MaxKeys = 3
SPECIFICATION TraceSpec
CONSTRAINT HighWater
POSTCONDITION TraceAccepted
CHECK_DEADLOCK FALSE
