------------------------------- MODULE MC_W3 -------------------------------
(* thorough tier: three writers over three segments, one Add() each plus a re-Add of a shared key *)
EXTENDS SegCache
MCKeys == 1..5
MCSegOf == (1 :> 0 @@ 2 :> 0 @@ 3 :> 1 @@ 4 :> 2 @@ 5 :> 1)
MCProg == (1 :> << [k |-> 1, v |-> 1], [k |-> 3, v |-> 1] >>
        @@ 2 :> << [k |-> 2, v |-> 2], [k |-> 4, v |-> 2] >>
        @@ 3 :> << [k |-> 5, v |-> 1], [k |-> 1, v |-> 2] >>)
=============================================================================
