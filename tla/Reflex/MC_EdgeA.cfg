CONSTANTS
  Clients = {"c1"}
  Protos = {"udp", "tcp"}
  Types = {"TXT"}
  Entries = {"msg", "wire", "inline"}
  Names = {"hot", "fresh"}
  Bursts = {1, 11}
  TickSet = {2}
  WithCleanup = TRUE
  Cap = 1
  Thr = 33
  Mode = "block"
  MaxOps = 2
  MaxClk = 2
  MaxQ = 22
  MaxPend = 1
  Quirk = TRUE
  Mutant = "none"
  MinVol = 10
  RLow = 5
  RMid = 10
  RHigh = 15
  RTop = 30
  VolNoNormal = 30
  VolSingle = 50
  BytesA = 50000
  BytesB = 100000
  OldAge = 60
  Idle = 600
SPECIFICATION Spec
INVARIANTS TypeOK TableBounded ProvenNeverSuspect LowVolumeNeverSuspect
PROPERTIES ModeRespected BlockSound OneAccounting ReplayNeverDecides
  ExemptUntouched DeniedUntouched ProvenUntouched OwnHistoryOnly FrameOthers EvictsOldest CleanupExact TickOnlyTime
  PathsDecideAlike PathsAccountAlike ReplayAccountsAlike ChallengeServed
CHECK_DEADLOCK FALSE
