CONSTANTS
  Clients = {"c1"}
  Protos = {"udp", "tcp"}
  Types = {"A", "TXT", "DNSKEY"}
  Entries = {"msg", "wire"}
  Names = {"hot"}
  Bursts = {1, 10, 25}
  TickSet = {1, 60}
  WithCleanup = TRUE
  Cap = 1
  Thr = 72
  Mode = "block"
  MaxOps = 5
  MaxClk = 61
  MaxQ = 61
  MaxPend = 1
  Quirk = TRUE
  Mutant = "none"
  MinVol = 10
  RLow = 5
  RMid = 10
  RHigh = 15
  RTop = 30
  VolNoNormal = 30
  VolSingle = 50
  BytesA = 50000
  BytesB = 100000
  OldAge = 60
  Idle = 600
SPECIFICATION Spec
INVARIANTS TypeOK TableBounded ProvenNeverSuspect LowVolumeNeverSuspect
PROPERTIES ModeRespected BlockSound OneAccounting ReplayNeverDecides
  ExemptUntouched DeniedUntouched ProvenUntouched OwnHistoryOnly FrameOthers EvictsOldest CleanupExact TickOnlyTime
  PathsDecideAlike PathsAccountAlike ReplayAccountsAlike ChallengeServed
VIEW View
CHECK_DEADLOCK FALSE
