#!/usr/bin/env python3
"""Regenerates the TLC configs of Reflex (run in this directory)."""
INV = "TypeOK TableBounded ProvenNeverSuspect LowVolumeNeverSuspect"
ACT = ("ModeRespected BlockSound OneAccounting ReplayNeverDecides\n  ExemptUntouched DeniedUntouched ProvenUntouched OwnHistoryOnly FrameOthers EvictsOldest CleanupExact TickOnlyTime\n"
       "  PathsDecideAlike PathsAccountAlike ReplayAccountsAlike ChallengeServed")

REAL = dict(MinVol=10, RLow=5, RMid=10, RHigh=15, RTop=30, VolNoNormal=30, VolSingle=50, BytesA=50000, BytesB=100000, OldAge=60, Idle=600)
# the scoring ladder shrunk so that a handful of requests climbs all of it (model-only configs)
MINI = dict(MinVol=2, RLow=1, RMid=2, RHigh=3, RTop=4, VolNoNormal=3, VolSingle=4, BytesA=2000, BytesB=3000, OldAge=2, Idle=3)

DEF = dict(Clients=["c1", "c2"], Protos=["udp", "tcp"], Types=["A", "TXT"], Entries=["msg", "wire", "inline"], Names=["hot", "fresh"],
           Bursts=[1], TickSet=[1], WithCleanup=True, Cap=2, Thr=33, Mode="block", MaxOps=3, MaxClk=4, MaxQ=6, MaxPend=1,
           Quirk=True, Mutant="none", **MINI)


def S(xs):
    return "{" + ", ".join(('"%s"' % x) if isinstance(x, str) else str(x) for x in xs) + "}"


def consts(**kw):
    d = dict(DEF)
    for k in kw:
        if k not in d:
            raise KeyError(k)
    d.update(kw)
    out = ["CONSTANTS"]
    for k, v in d.items():
        if isinstance(v, bool):
            v = "TRUE" if v else "FALSE"
        elif isinstance(v, list):
            v = S(v)
        elif isinstance(v, str):
            v = '"%s"' % v
        out.append("  %s = %s" % (k, v))
    return "\n".join(out) + "\n"


def mc(name, c, inv=INV, act=ACT, view=True):
    open("MC_%s.cfg" % name, "w").write(c + "SPECIFICATION Spec\nINVARIANTS %s\n%s%sCHECK_DEADLOCK FALSE\n" % (
        inv, ("PROPERTIES %s\n" % act) if act else "", "VIEW View\n" if view else ""))


def sim(name, c):
    open("Sim_%s.cfg" % name, "w").write(c + "INIT Init\nNEXT Next\nCHECK_DEADLOCK FALSE\n")


OBS = "ObsAtMostOneReply ObsExemptNeverRefused ObsProvenNeverRefused ObsDeniedSilent ObsModeRespected ObsReplayNeverDecides ObsScoredOnce ObsRespondedOnce"


def trace(name, c):
    open("Trace_%s.cfg" % name, "w").write(
        c + "SPECIFICATION TraceSpec\nINVARIANTS TypeOK TableBounded ProvenNeverSuspect %s\nCONSTRAINT HighWater\nPOSTCONDITION TraceAccepted\nCHECK_DEADLOCK FALSE\n" % OBS)


# ---- exhaustive, shrunk ladder ------------------------------------------------------------------------
# the ladder: two clients, every entry, both transports, bursts, ticks, cleanup
mc("Mini", consts(Types=["A", "TXT", "DNSKEY"], Bursts=[1, 2], TickSet=[1, 2], MaxOps=4))
mc("MiniQ", consts(Types=["A", "TXT"], Bursts=[1, 2], TickSet=[1], MaxOps=3))
# a higher threshold needs the whole ladder
mc("MiniHigh", consts(Clients=["c1"], Types=["A", "TXT", "DNSKEY", "PTR"], Bursts=[1, 3], TickSet=[1, 2], Thr=72, MaxOps=5, MaxQ=9, Cap=1))
# eviction: three clients (and both forms of one address) over a two-slot table
mc("MiniEvict", consts(Clients=["c1", "c1m", "c2", "c3"], Protos=["udp"], Types=["TXT"], Entries=["msg", "inline"], Bursts=[1, 2],
                       TickSet=[1, 3], MaxOps=5))
# exemptions and the access list
mc("MiniExempt", consts(Clients=["c1", "lo", "int", "ints", "den"], Types=["TXT"], Bursts=[1, 2], TickSet=[1], MaxOps=4, WithCleanup=False))
# IPv6: two addresses of one /64 are two keys
mc("MiniV6", consts(Clients=["v6a", "v6b"], Protos=["udp", "doh"], Types=["TXT"], Bursts=[2], TickSet=[], MaxOps=4, WithCleanup=False))
# monitor / learning: never refused.  With the code's quirk the inline entry accounts a logged query's response on
# its replay pass, which the other entries do not: PathsAccountAlike is EXPECTED to fail in MC_FindMonitor
mc("MiniMonitor", consts(Mode="monitor", Quirk=False, Clients=["c1"], Protos=["udp"], Types=["TXT"], Bursts=[1, 2], MaxOps=4, Cap=1))
mc("MiniLearning", consts(Mode="learning", Quirk=False, Clients=["c1"], Protos=["udp"], Types=["TXT"], Bursts=[1, 2], MaxOps=4, Cap=1))
mc("FindMonitor", consts(Mode="monitor", Quirk=True, Clients=["c1"], Protos=["udp"], Types=["TXT"], Bursts=[1, 2], MaxOps=4, Cap=1),
   inv="TypeOK", act="ReplayAccountsAlike")
# ---- exhaustive, the real ladder (bursts) ------------------------------------------------------------
mc("Real1", consts(Clients=["c1"], Protos=["udp", "tcp"], Types=["A", "TXT", "DNSKEY"], Entries=["msg", "wire"], Names=["hot"],
                   Bursts=[1, 10, 25], TickSet=[1, 60], MaxOps=5, MaxClk=61, MaxQ=61, Cap=1, Thr=72, **REAL))
mc("Real2", consts(Clients=["c1", "c2"], Protos=["udp"], Types=["TXT"], Entries=["msg", "inline"], Names=["hot", "fresh"],
                   Bursts=[1, 11], TickSet=[1, 600], MaxOps=4, MaxClk=601, MaxQ=24, Cap=1, Thr=33, **REAL))
# ---- edge-cover graphs (every transition replayed on the real pipeline) -------------------------------
mc("EdgeA", consts(Clients=["c1"], Protos=["udp", "tcp"], Types=["TXT"], Entries=["msg", "wire", "inline"], Names=["hot", "fresh"],
                   Bursts=[1, 11], TickSet=[2], MaxOps=2, MaxClk=2, MaxQ=22, Cap=1, Thr=33, **REAL), view=False)
mc("EdgeB", consts(Clients=["c1", "ints", "den"], Protos=["udp"], Types=["DNSKEY"], Entries=["msg", "wire", "inline"],
                   Names=["hot", "fresh"], Bursts=[12], TickSet=[600], MaxOps=2, MaxClk=600, MaxQ=24, Cap=1, Thr=33, **REAL), view=False)
mc("EdgeC", consts(Clients=["c1", "c2"], Protos=["udp"], Types=["TXT"], Entries=["msg", "inline"], Names=["fresh"],
                   Bursts=[1], TickSet=[600], MaxOps=3, MaxClk=600, MaxQ=24, Cap=1, Thr=33, **REAL), view=False)
# ---- negative configs: each mutant must violate its property ---------------------------------------------
NEG = [("ScoreOnReplay", "OneAccounting", dict(Clients=["c1"], Protos=["udp"], Types=["TXT"], Entries=["inline"], Names=["fresh"], MaxOps=2)),
       ("DoubleCount", "OneAccounting", dict(Clients=["c1"], Protos=["udp"], Types=["TXT"], Entries=["wire"], Names=["hot"], MaxOps=2)),
       ("ScoreProven", "ProvenUntouched", dict(Clients=["c1"], Types=["TXT"], Entries=["msg"], MaxOps=2)),
       ("ScoreExempt", "ExemptUntouched", dict(Clients=["c1", "int"], Protos=["udp"], Types=["TXT"], Entries=["msg"], MaxOps=2)),
       ("AccessAfter", "DeniedUntouched", dict(Clients=["c1", "den"], Protos=["udp"], Types=["TXT"], Entries=["msg"], MaxOps=2)),
       ("TcpNoClear", "ChallengeServed", dict(Clients=["c1"], Types=["TXT"], Entries=["msg"], Bursts=[1, 2], MaxOps=4)),
       ("TcpNoClear", "ProvenNeverSuspect", dict(Clients=["c1"], Types=["TXT"], Entries=["msg"], Bursts=[1, 2], MaxOps=4)),
       ("SharedScore", "OwnHistoryOnly", dict(Protos=["udp"], Types=["TXT"], Entries=["msg"], Bursts=[1, 2], MaxOps=4)),
       ("SharedScore", "BlockSound", dict(Protos=["udp"], Types=["TXT"], Entries=["msg"], Bursts=[1, 2], MaxOps=4)),
       ("EvictAll", "FrameOthers", dict(Clients=["c1", "c2", "c3"], Protos=["udp"], Types=["TXT"], Entries=["msg"], MaxOps=3)),
       ("LeakWrapper", "FrameOthers", dict(Protos=["udp"], Types=["TXT", "A"], Entries=["msg"], MaxOps=3)),
       ("EvictNewest", "EvictsOldest", dict(Clients=["c1", "c2", "c3"], Protos=["udp"], Types=["TXT"], Entries=["msg"], MaxOps=3)),
       ("NoEvict", "TableBounded", dict(Clients=["c1", "c2", "c3"], Protos=["udp"], Types=["TXT"], Entries=["msg"], MaxOps=3)),
       ("CleanByFirst", "CleanupExact", dict(Clients=["c1"], Protos=["udp"], Types=["TXT"], Entries=["msg"], TickSet=[2], MaxOps=5)),
       ("WireSkipsScore", "PathsDecideAlike", dict(Clients=["c1"], Protos=["udp"], Types=["TXT"], Entries=["msg", "wire"], Bursts=[1, 2], MaxOps=3)),
       ("WireSkipsScore", "PathsAccountAlike", dict(Clients=["c1"], Protos=["udp"], Types=["TXT"], Entries=["msg", "wire"], MaxOps=2)),
       ("ScoreOnReplay", "ReplayAccountsAlike", dict(Clients=["c1"], Protos=["udp"], Types=["TXT"], Entries=["inline"], Names=["fresh"], MaxOps=2)),
       ("LearningBlocks", "ModeRespected", dict(Mode="learning", Clients=["c1"], Protos=["udp"], Types=["TXT"], Entries=["msg"], Bursts=[1, 2], MaxOps=3))]
NEGATIVES = []
for mut, prop, kw in NEG:
    name = "Neg%s_%s" % (mut, prop)
    isinv = prop in INV.split()
    mc(name, consts(Mutant=mut, **kw), inv=("TypeOK " + prop) if isinv else "TypeOK", act="" if isinv else prop)
    NEGATIVES.append(("MC_%s.cfg" % name, prop))
open("negatives.txt", "w").write("".join("%s %s\n" % n for n in NEGATIVES))
# ---- simulation (call orders for the pipeline replay; the real ladder) -----------------------------------
SIM = dict(MaxOps=100000, MaxClk=100000, MaxQ=100000, MaxPend=2, **REAL)
sim("Attack", consts(Clients=["c1", "c2"], Protos=["udp", "tcp"], Types=["TXT", "DNSKEY", "A"], Bursts=[1, 6, 25], TickSet=[1, 2],
                     Cap=2, Thr=72, **SIM))
sim("Low", consts(Clients=["c1", "c1m", "c2", "c3"], Protos=["udp", "tcp", "doh"], Types=["TXT", "DNSKEY", "MX", "SOA", "A", "PTR"],
                  Bursts=[1, 4, 11], TickSet=[1, 3, 61], Cap=2, Thr=33, **SIM))
sim("Exempt", consts(Clients=["c1", "c2", "lo", "lo6", "int", "ints", "den"], Protos=["udp", "tcp", "doq"], Types=["TXT", "AAAA"],
                     Bursts=[1, 11], TickSet=[1, 600], Cap=2, Thr=33, **SIM))
sim("Evict", consts(Clients=["c1", "c2", "c3", "c4", "v6a", "v6b"], Protos=["udp"], Types=["TXT", "MX"], Bursts=[1, 11],
                    TickSet=[1, 300, 600], Cap=3, Thr=33, **SIM))
sim("Monitor", consts(Mode="monitor", Clients=["c1", "c2"], Protos=["udp", "tcp"], Types=["TXT", "DNSKEY", "A"], Bursts=[1, 11, 25],
                      TickSet=[1], Cap=2, Thr=33, **SIM))
sim("Learning", consts(Mode="learning", Clients=["c1", "c2"], Protos=["udp"], Types=["TXT", "A"], Bursts=[1, 11], TickSet=[1], Cap=2,
                       Thr=33, **SIM))
sim("Floor", consts(Clients=["c1", "c2"], Protos=["udp"], Types=["TXT", "A"], Bursts=[1, 3], TickSet=[1], Cap=2, Thr=8, **SIM))
sim("Bytes", consts(Clients=["c1"], Protos=["udp"], Types=["DNSKEY", "TXT"], Entries=["msg", "wire", "inline"], Names=["hot"],
                    Bursts=[25], TickSet=[1, 2], Cap=1, Thr=12, **SIM))
# ---- the monitor of the free-running stage -----------------------------------------------------------------
trace("Free", consts(Clients=["c1", "c2", "lo", "ints", "den"], Protos=["udp", "tcp"], Types=["TXT", "A"], Bursts=[1], TickSet=[], Cap=8, Thr=33,
                     WithCleanup=False, **SIM))
