CONSTANTS
  Clients = {"v6a", "v6b"}
  Protos = {"udp", "doh"}
  Types = {"TXT"}
  Entries = {"msg", "wire", "inline"}
  Names = {"hot", "fresh"}
  Bursts = {2}
  TickSet = {}
  WithCleanup = FALSE
  Cap = 2
  Thr = 33
  Mode = "block"
  MaxOps = 4
  MaxClk = 4
  MaxQ = 6
  MaxPend = 1
  Quirk = TRUE
  Mutant = "none"
  MinVol = 2
  RLow = 1
  RMid = 2
  RHigh = 3
  RTop = 4
  VolNoNormal = 3
  VolSingle = 4
  BytesA = 2000
  BytesB = 3000
  OldAge = 2
  Idle = 3
SPECIFICATION Spec
INVARIANTS TypeOK TableBounded ProvenNeverSuspect LowVolumeNeverSuspect
PROPERTIES ModeRespected BlockSound OneAccounting ReplayNeverDecides
  ExemptUntouched DeniedUntouched ProvenUntouched OwnHistoryOnly FrameOthers EvictsOldest CleanupExact TickOnlyTime
  PathsDecideAlike PathsAccountAlike ReplayAccountsAlike ChallengeServed
VIEW View
CHECK_DEADLOCK FALSE
