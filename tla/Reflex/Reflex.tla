------------------------------- MODULE Reflex -------------------------------
(***************************************************************************)
(* middleware/reflex: per-address amplification / reflection detection.    *)
(*                                                                         *)
(* What the code is (read from reflex.go / tracker.go, not from the task   *)
(* sheet): a table address -> entry (first seen, last seen, query count,   *)
(* high-amplification query count, sum of amplification factors, request   *)
(* bytes, response bytes, "has used a proven transport", "has asked A /    *)
(* AAAA", set of question types), a pure score over one entry, and ONE     *)
(* decision per UDP query: score >= threshold -> REFUSED in block mode,    *)
(* logged and served in monitor / learning mode.  There is no challenge    *)
(* (TC=1), no blocked-until stamp, no decay other than the 10-minute idle  *)
(* expiry, and no prefix aggregation (the key is RemoteIP().String(), so   *)
(* the 4-byte and the v4-mapped form of one address share an entry and     *)
(* two addresses of one IPv6 /64 do not).  Those absences are deliberate   *)
(* deviations from the task sheet's vocabulary and are reported.           *)
(*                                                                         *)
(* One action per entry-point call of the server:                          *)
(*   Query(c, pr, t, e, n, cnt)  cnt identical requests of client c over   *)
(*        transport pr for type t through entry e (msg = Server.ServeMsg,  *)
(*        wire = ServeRaw, inline = ServeRawInline) for a cached ("hot")   *)
(*        or an uncached ("fresh") name;                                   *)
(*   Replay(j)   ServeRawReplay of a job the inline pass handed off;       *)
(*   Tick(k)     k seconds pass;   Cleanup   the periodic job's body.      *)
(* The chain ahead of reflex (accesslist: a denied source never reaches    *)
(* it) and behind it (cache: the inline pass answers a hit and hands off   *)
(* everything else) is modelled as far as it decides what reflex sees.     *)
(*                                                                         *)
(* Score arithmetic: hundredths.  Time: whole seconds; an entry's duration *)
(* in the code is D + d with D whole seconds of the virtual clock and      *)
(* 0 < d < 1/30 s (the driver removes leaked real time before every        *)
(* request), which is what the strict / non-strict comparisons encode.     *)
(***************************************************************************)
EXTENDS Naturals, Sequences, FiniteSets, TLC

CONSTANTS
  Clients, Protos, Types, Entries, Names, Bursts, TickSet, WithCleanup,
  Cap,        \* table bound (100000 in production)
  Thr,        \* threshold in hundredths (off the 0.05 grid: >= and > coincide)
  Mode,       \* "block" | "monitor" | "learning"
  MaxOps, MaxClk, MaxQ, MaxPend,
  MinVol, RLow, RMid, RHigh, RTop, VolNoNormal, VolSingle, BytesA, BytesB, OldAge, Idle,
  Quirk,      \* TRUE = as the code: a suspicious query that is only logged is not response-tracked on the msg / wire
              \* entries but IS on the replay pass of the inline entry
  Mutant      \* "none" or the name of a seeded model defect (negative configs)

None == "-"

\* ---- who sends --------------------------------------------------------------------------------------
KeyOf == [c1 |-> "k1", c1m |-> "k1", c2 |-> "k2", c3 |-> "k3", c4 |-> "k4", v6a |-> "k6a", v6b |-> "k6b",
          lo |-> None, lo6 |-> None, int |-> None, ints |-> None, den |-> "kd"]
Origin == [c1 |-> "client", c1m |-> "client", c2 |-> "client", c3 |-> "client", c4 |-> "client", v6a |-> "client", v6b |-> "client",
           lo |-> "loopback", lo6 |-> "loopback", int |-> "internal", ints |-> "internal", den |-> "denied"]
AddrKey(c) == IF c = "int" THEN "k1" ELSE KeyOf[c]     \* the key an exempt origin's address would have
MsgOnly == {"int"}                      \* Internal() is a property of the transport double of the decoded entry
Keys == {KeyOf[c] : c \in Clients} \ {None}
Exempt(c) == Origin[c] \in {"loopback", "internal"}

\* ---- question types (reflex.go ampFactors, tracker.go qtypeToBit) ----------------------------------------
Amp(t) == CASE t = "DNSKEY" -> 20 [] t = "TXT" -> 10 [] t = "MX" -> 4 [] t = "SOA" -> 3 [] OTHER -> 1
RespLen(t) == CASE t = "DNSKEY" -> 1200 [] t = "TXT" -> 400 [] OTHER -> 150
ReqLen == 50
Watched(t) == Amp(t) > 1                \* the response-size wrapper is installed
Proven(pr) == pr # "udp"                \* "tcp" (also DoT), "doh", "doq"

EntryOK(c, pr, e) ==
  /\ (c \in MsgOnly => e = "msg")
  /\ (pr \in {"doh", "doq"} => e = "msg")
  /\ (e = "inline" => pr = "udp")       \* only the UDP engine serves inline

\* ---- the table ----------------------------------------------------------------------------------------
Absent == [on |-> FALSE, fs |-> 0, ls |-> 0, tq |-> 0, haq |-> 0, amp |-> 0, req |-> 0, resp |-> 0,
           tcp |-> FALSE, norm |-> FALSE, types |-> {}]

VARIABLES tab, lru, clk, pend, stale, out, nops, nid
vars == <<tab, lru, clk, pend, stale, out, nops, nid>>

Remove(s, k) == SelectSeq(s, LAMBDA x : x # k)
Range(s) == {s[i] : i \in 1..Len(s)}

\* calculateScore
Score(m, e) ==
  IF ~e.on THEN 0
  ELSE IF e.tcp /\ m # "TcpNoClear" THEN 0
  ELSE IF e.tq < MinVol THEN 0
  ELSE LET D == e.ls - e.fs
           dur == IF D = 0 THEN 1 ELSE D
           Gt(r) == e.tq > r * dur
           f1 == IF Gt(RTop) THEN 35 ELSE IF Gt(RHigh) THEN 20 ELSE IF Gt(RLow) THEN 10 ELSE 0
           f2 == IF 10 * e.haq > 8 * e.tq /\ Gt(RMid) THEN 25 ELSE IF 2 * e.haq > e.tq /\ Gt(RHigh) THEN 15 ELSE 0
           f3 == IF ~e.norm /\ e.tq > VolNoNormal /\ Gt(RLow) THEN 15 ELSE 0
           f4 == IF e.req > 0 /\ e.resp > 0
                 THEN IF e.resp > 10 * e.req /\ e.resp > BytesA THEN 15
                      ELSE IF e.resp > 5 * e.req /\ e.resp > BytesB THEN 10 ELSE 0
                 ELSE 0
           tc == Cardinality(e.types)
           f5 == IF tc = 1 /\ e.tq > VolSingle THEN 10 ELSE 0
           n1 == IF tc >= 4 THEN 15 ELSE IF tc >= 2 THEN 5 ELSE 0
           n2 == IF e.norm THEN 10 ELSE 0
           n3 == IF D >= OldAge /\ e.tq <= RLow * D THEN 10 ELSE 0
           pos == f1 + f2 + f3 + f4 + f5
           neg == n1 + n2 + n3
       IN IF pos <= neg THEN 0 ELSE IF pos - neg > 100 THEN 100 ELSE pos - neg

\* a world: the part of the state a request can change
World == [tab |-> tab, lru |-> lru, stale |-> stale]

\* IPTracker.RecordQuery
RecordQuery(m, w, k, t, now) ==
  LET full == ~w.tab[k].on /\ Len(w.lru) >= Cap /\ m # "NoEvict"
      victim == IF m = "EvictNewest" THEN w.lru[Len(w.lru)] ELSE Head(w.lru)
      tab1 == IF ~full THEN w.tab
              ELSE IF m = "EvictAll" THEN [x \in Keys |-> Absent] ELSE [w.tab EXCEPT ![victim] = Absent]
      lru1 == IF ~full THEN w.lru ELSE IF m = "EvictAll" THEN <<>> ELSE Remove(w.lru, victim)
      e0 == IF tab1[k].on THEN tab1[k] ELSE [Absent EXCEPT !.on = TRUE, !.fs = now]
      e1 == [e0 EXCEPT !.ls = now, !.tq = @ + 1, !.amp = @ + Amp(t), !.req = @ + ReqLen, !.types = @ \cup {t},
                       !.haq = IF Amp(t) > 3 THEN @ + 1 ELSE @, !.norm = @ \/ t \in {"A", "AAAA"}]
  IN [w EXCEPT !.tab = [tab1 EXCEPT ![k] = e1], !.lru = Append(Remove(lru1, k), k)]

\* IPTracker.RecordResponse (times: how often the one response is recorded)
RecordResponse(w, k, t, times) ==
  IF k # None /\ w.tab[k].on THEN [w EXCEPT !.tab[k].resp = @ + times * RespLen(t)] ELSE w

ScoreFor(m, w, k) ==
  IF m = "SharedScore"
  THEN LET ss == {Score(m, w.tab[x]) : x \in Keys} IN CHOOSE s \in ss : \A s2 \in ss : s2 <= s
  ELSE Score(m, w.tab[k])

Blocks(m) == Mode = "block" \/ (m = "LearningBlocks" /\ Mode = "learning")

\* the result of one request: the new world, what the client sees, how often the scripted upstream was asked, how
\* often the request was scored / its response recorded, and what the replay pass will do (handoff only)
Res(w, dec, tail, sc, rs, acct) == [w |-> w, dec |-> dec, tail |-> tail, sc |-> sc, rs |-> rs, acct |-> acct]
\* what the chain below reflex does with an admitted request: the cache answers; an inline pass is handed off on a
\* miss, and for an internal writer always (the cache's byte ladder is not offered to internal consumers)
Down(c, e, n) == IF e = "inline" /\ (n = "fresh" \/ Origin[c] = "internal") THEN "handoff" ELSE "pass"
TailOf(dec, n) == IF dec = "pass" /\ n = "fresh" THEN 1 ELSE 0

\* Reflex.ServeDNS for one request, with the chain around it
One(m, w, c, pr, t, e, n, now) ==
  LET k == IF m = "ScoreExempt" THEN AddrKey(c) ELSE KeyOf[c]
      d0 == Down(c, e, n)
      \* a response nobody watches: a wrapper left behind by an earlier request would see it (LeakWrapper)
      unwatched(w0, dec) == IF m = "LeakWrapper" /\ dec = "pass" /\ w0.stale # None THEN RecordResponse(w0, w0.stale, t, 1) ELSE w0
  IN
  IF Origin[c] = "denied" /\ m # "AccessAfter" THEN Res(w, "silent", 0, 0, 0, FALSE)
  ELSE IF Exempt(c) /\ m # "ScoreExempt" THEN Res(unwatched(w, d0), d0, TailOf(d0, n), 0, 0, FALSE)
  ELSE IF Proven(pr) /\ m # "ScoreProven"
       THEN LET w1 == IF k # None /\ w.tab[k].on THEN [w EXCEPT !.tab[k].tcp = TRUE] ELSE w
            IN Res(unwatched(w1, d0), d0, TailOf(d0, n), 0, 0, FALSE)
  ELSE IF k = None THEN Res(w, d0, TailOf(d0, n), 0, 0, FALSE)     \* (ScoreExempt on an origin without a key: nothing to show)
  ELSE
    LET skip == m = "WireSkipsScore" /\ e # "msg"
        w1 == IF skip THEN w ELSE RecordQuery(m, w, k, t, now)
        sc == IF skip THEN 0 ELSE 1
        sus == ScoreFor(m, w1, k) >= Thr
    IN IF sus /\ Blocks(m) THEN Res(w1, "refused", 0, sc, 0, FALSE)
       ELSE IF sus
            THEN \* logged and served, unwatched; the materialised request makes the cache decline every inline serve
                 IF e = "inline" /\ Quirk THEN Res(w1, "handoff", 0, sc, 0, Watched(t))
                 ELSE Res(unwatched(w1, d0), d0, TailOf(d0, n), sc, 0, FALSE)
       ELSE IF d0 = "handoff" THEN Res(w1, d0, 0, sc, 0, Watched(t))
       ELSE IF ~Watched(t) THEN Res(unwatched(w1, d0), d0, TailOf(d0, n), sc, 0, FALSE)
       ELSE LET times == IF m = "DoubleCount" /\ e = "wire" /\ n = "hot" THEN 2 ELSE 1
                w2 == RecordResponse(w1, k, t, times)
                w3 == IF m = "LeakWrapper" THEN [w2 EXCEPT !.stale = k] ELSE w2
            IN Res(w3, d0, TailOf(d0, n), sc, times, FALSE)

\* cnt identical requests, one after the other
RECURSIVE Burst(_, _, _, _, _, _, _, _, _)
Burst(m, w, c, pr, t, e, n, now, cnt) ==
  IF cnt = 0 THEN [w |-> w, decs |-> <<>>, tail |-> 0, sc |-> 0, rs |-> 0, accts |-> <<>>]
  ELSE LET r == One(m, w, c, pr, t, e, n, now)
           rest == Burst(m, r.w, c, pr, t, e, n, now, cnt - 1)
       IN [w |-> rest.w, decs |-> <<r.dec>> \o rest.decs, tail |-> r.tail + rest.tail,
           sc |-> IF r.sc > rest.sc THEN r.sc ELSE rest.sc, rs |-> IF r.rs > rest.rs THEN r.rs ELSE rest.rs,
           accts |-> <<r.acct>> \o rest.accts]

NoQ == [c |-> None, pr |-> None, t |-> None, e |-> None, n |-> None, cnt |-> 0]
NoOut == [kind |-> "init", q |-> NoQ, id |-> 0, decs |-> <<>>, tail |-> 0, sc |-> 0, rs |-> 0]

Init ==
  /\ tab = [k \in Keys |-> Absent] /\ lru = <<>> /\ clk = 0 /\ pend = {} /\ stale = None
  /\ out = NoOut /\ nops = 0 /\ nid = 0

Handoffs(decs) == {i \in 1..Len(decs) : decs[i] = "handoff"}

Query(c, pr, t, e, n, cnt) ==
  /\ nops < MaxOps
  /\ EntryOK(c, pr, e)
  /\ (KeyOf[c] # None /\ KeyOf[c] \in Keys /\ pr = "udp" => tab[KeyOf[c]].tq + cnt <= MaxQ)
  /\ LET r == Burst(Mutant, World, c, pr, t, e, n, clk, cnt)
         twin == Burst(Mutant, World, c, pr, t, "msg", n, clk, cnt)      \* the decoded entry on the same history
         hs == Handoffs(r.decs)
     IN /\ Cardinality(pend) + Cardinality(hs) <= MaxPend
        /\ (hs # {} => cnt = 1)                                            \* a handed-off job is followed individually
        /\ tab' = r.w.tab /\ lru' = r.w.lru /\ stale' = r.w.stale
        /\ pend' = pend \cup {[id |-> nid + 1, c |-> c, t |-> t, n |-> n, acct |-> r.accts[1], sc |-> r.sc,
                               want |-> IF KeyOf[c] = None THEN Absent ELSE twin.w.tab[KeyOf[c]], at |-> nops + 1] : i \in hs}
        /\ nid' = IF hs # {} THEN nid + 1 ELSE nid
        /\ out' = [kind |-> "query", q |-> [c |-> c, pr |-> pr, t |-> t, e |-> e, n |-> n, cnt |-> cnt],
                   id |-> IF hs # {} THEN nid + 1 ELSE 0, decs |-> r.decs, tail |-> r.tail, sc |-> r.sc, rs |-> r.rs]
  /\ nops' = nops + 1
  /\ UNCHANGED clk

\* ServeRawReplay: nothing is decided again; the response wrapper is installed whatever the inline pass decided
Replay(j) ==
  /\ j \in pend
  /\ LET k == KeyOf[j.c]
         w0 == World
         w1 == IF Mutant = "ScoreOnReplay" /\ ~Exempt(j.c) /\ k # None THEN RecordQuery(Mutant, w0, k, j.t, clk) ELSE w0
         sc == IF Mutant = "ScoreOnReplay" /\ ~Exempt(j.c) /\ k # None THEN j.sc + 1 ELSE j.sc
         w2 == IF ~Exempt(j.c) /\ j.acct THEN RecordResponse(w1, k, j.t, 1) ELSE w1
     IN /\ tab' = w2.tab /\ lru' = w2.lru /\ stale' = w2.stale
        /\ out' = [kind |-> "replay", q |-> [c |-> j.c, pr |-> "udp", t |-> j.t, e |-> "replay", n |-> j.n, cnt |-> 1],
                   id |-> j.id, decs |-> <<"pass">>, tail |-> IF j.n = "fresh" THEN 1 ELSE 0, sc |-> sc,
                   rs |-> IF ~Exempt(j.c) /\ j.acct /\ k # None /\ w1.tab[k].on THEN 1 ELSE 0]
  /\ pend' = pend \ {j}
  /\ nops' = nops + 1
  /\ UNCHANGED <<clk, nid>>

Tick(k) ==
  /\ nops < MaxOps /\ clk + k <= MaxClk
  /\ clk' = clk + k /\ nops' = nops + 1
  /\ out' = [NoOut EXCEPT !.kind = "tick"]
  /\ UNCHANGED <<tab, lru, pend, stale, nid>>

\* IPTracker.Cleanup: entries idle for more than ten minutes
Cleanup ==
  /\ WithCleanup /\ nops < MaxOps
  /\ LET dead == {k \in Keys : tab[k].on /\ clk - (IF Mutant = "CleanByFirst" THEN tab[k].fs ELSE tab[k].ls) >= Idle}
     IN /\ tab' = [k \in Keys |-> IF k \in dead THEN Absent ELSE tab[k]]
        /\ lru' = SelectSeq(lru, LAMBDA x : x \notin dead)
  /\ out' = [NoOut EXCEPT !.kind = "cleanup"]
  /\ nops' = nops + 1
  /\ UNCHANGED <<clk, pend, stale, nid>>

Next ==
  \/ \E c \in Clients, pr \in Protos, t \in Types, e \in Entries, n \in Names, cnt \in Bursts : Query(c, pr, t, e, n, cnt)
  \/ \E j \in pend : Replay(j)
  \/ \E k \in TickSet : Tick(k)
  \/ Cleanup

Spec == Init /\ [][Next]_vars
View == <<tab, lru, clk, pend, stale, nops, nid>>

\* ---- properties ---------------------------------------------------------------------------------------
On == {k \in Keys : tab[k].on}

TypeOK ==
  /\ \A k \in Keys : tab[k].on => /\ tab[k].fs <= tab[k].ls /\ tab[k].ls <= clk /\ tab[k].haq <= tab[k].tq
                                  /\ tab[k].req = ReqLen * tab[k].tq /\ tab[k].types \subseteq Types
  /\ Range(lru) = On /\ Len(lru) = Cardinality(On)
  /\ \A i \in 1..Len(lru) : \A j \in 1..Len(lru) : i < j => tab[lru[i]].ls <= tab[lru[j]].ls
  /\ (Mutant # "LeakWrapper" => stale = None)

\* "Bounded memory usage"
TableBounded == Cardinality(On) <= Cap

\* "TCP connections prove real IP ownership (clears suspicion)": an entry that carries the proof scores zero ...
ProvenNeverSuspect == \A k \in Keys : tab[k].on /\ tab[k].tcp => Score(Mutant, tab[k]) = 0
\* ... "Low volume is never suspicious"
LowVolumeNeverSuspect == \A k \in Keys : tab[k].on /\ tab[k].tq < MinVol => Score(Mutant, tab[k]) = 0

IsQ == out'.kind = "query"
IsQR == out'.kind \in {"query", "replay"}
Own == KeyOf[out'.q.c]
RefusedIn(o) == \E i \in 1..Len(o.decs) : o.decs[i] = "refused"

\* (`out` is hidden by the VIEW of the exhaustive configs: what is said about it is said as an action property)
\* "reflexblockmode ... (if false, only logs)", "reflexlearningmode: Log detections without blocking"
ModeRespected == [][RefusedIn(out') => Mode = "block"]_vars
\* a refusal is the client's own entry speaking: unproven, enough volume, its own score at the threshold
BlockSound ==
  [][IsQ /\ out'.decs[Len(out'.decs)] = "refused" =>
       /\ Own \in Keys /\ tab'[Own].on /\ ~tab'[Own].tcp /\ tab'[Own].tq >= MinVol
       /\ Score("none", tab'[Own]) >= Thr /\ out'.q.pr = "udp" /\ Origin[out'.q.c] = "client"]_vars
\* "recording it again would double its contribution" / "would credit the source with the same response twice"
OneAccounting == [][out'.sc <= 1 /\ out'.rs <= 1]_vars
ReplayNeverDecides == [][out'.kind = "replay" => out'.decs = <<"pass">>]_vars

\* "Skip internal/loopback": never scored, never refused, the table does not move (C17: sub-queries are never subjected ...)
ExemptUntouched == [][IsQR /\ Exempt(out'.q.c) => /\ tab' = tab /\ lru' = lru
                                                  /\ \A i \in 1..Len(out'.decs) : out'.decs[i] \in {"pass", "handoff"}]_vars
\* accesslist stands ahead of reflex: a denied source gets nothing and leaves nothing (C17)
DeniedUntouched == [][IsQR /\ Origin[out'.q.c] = "denied" => /\ tab' = tab /\ lru' = lru /\ out'.tail = 0
                                                             /\ \A i \in 1..Len(out'.decs) : out'.decs[i] = "silent"]_vars
\* "Only analyze UDP": a proven transport is never scored or refused; it leaves exactly the proof on an existing entry
ProvenUntouched == [][IsQ /\ Proven(out'.q.pr) /\ Origin[out'.q.c] = "client" =>
                        /\ lru' = lru /\ \A i \in 1..Len(out'.decs) : out'.decs[i] = "pass"
                        /\ \A k \in Keys : tab'[k] = IF k = Own /\ tab[k].on THEN [tab[k] EXCEPT !.tcp = TRUE] ELSE tab[k]]_vars
\* a decision depends only on that key's own history: the same requests against a table holding nothing but the
\* client's own entry are decided alike
OwnHistoryOnly ==
  [][IsQ /\ Own \in Keys =>
       LET solo == [tab |-> [k \in Keys |-> IF k = Own THEN tab[k] ELSE Absent],
                    lru |-> IF tab[Own].on THEN <<Own>> ELSE <<>>, stale |-> None]
           q == out'.q
       IN out'.decs = Burst(Mutant, solo, q.c, q.pr, q.t, q.e, q.n, clk, q.cnt).decs]_vars
\* ... and changes only that key's entry, except that creating an entry in a full table removes exactly one other
FrameOthers ==
  [][IsQR => LET gone == {k \in Keys \ {Own} : tab[k].on /\ ~tab'[k].on}
             IN /\ \A k \in Keys \ {Own} : tab'[k] = tab[k] \/ k \in gone
                /\ Cardinality(gone) <= 1
                /\ (gone # {} => Own \in Keys /\ ~tab[Own].on /\ Len(lru) >= Cap)]_vars
\* "removes the oldest entry"
EvictsOldest == [][IsQR => \A k \in Keys \ {Own} : tab[k].on /\ ~tab'[k].on => k = Head(lru)]_vars
\* "cleanup": exactly the entries idle for the expiry are gone, nothing else moves; ticks move nothing
CleanupExact == [][out'.kind = "cleanup" => \A k \in Keys : tab'[k] = IF tab[k].on /\ clk - tab[k].ls >= Idle THEN Absent ELSE tab[k]]_vars
TickOnlyTime == [][out'.kind = "tick" => tab' = tab /\ lru' = lru /\ pend' = pend]_vars
\* the decoded and the wire-born entries decide alike (C05's statement; drift-level here)
Verd(d) == IF d = "handoff" THEN "pass" ELSE d
PathsDecideAlike ==
  [][IsQ => LET q == out'.q
                twin == Burst(Mutant, World, q.c, q.pr, q.t, "msg", q.n, clk, q.cnt)
            IN [i \in 1..q.cnt |-> Verd(out'.decs[i])] = [i \in 1..q.cnt |-> Verd(twin.decs[i])]]_vars
\* ... and account alike: a call that completes in one pass leaves the table the decoded entry would have left,
\* and a replay that follows its inline pass at once leaves the client's entry as the decoded entry would have
PathsAccountAlike ==
  [][(IsQ /\ (\A i \in 1..Len(out'.decs) : out'.decs[i] # "handoff")) =>
        LET q == out'.q IN tab' = Burst(Mutant, World, q.c, q.pr, q.t, "msg", q.n, clk, q.cnt).w.tab]_vars
ReplayAccountsAlike ==
  [][out'.kind = "replay" => (\A j \in pend \ pend' : (j.at = nops /\ KeyOf[j.c] \in Keys) => tab'[KeyOf[j.c]] = j.want)]_vars
\* a client that answers a refusal by coming back over a proven transport is served from then on
ChallengeServed ==
  [][IsQ /\ Proven(out'.q.pr) /\ Origin[out'.q.c] = "client" /\ Own \in Keys /\ tab[Own].on =>
        tab'[Own].tcp /\ Score(Mutant, tab'[Own]) = 0]_vars
=============================================================================
