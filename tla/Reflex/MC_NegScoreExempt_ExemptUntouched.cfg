CONSTANTS
  Clients = {"c1", "int"}
  Protos = {"udp"}
  Types = {"TXT"}
  Entries = {"msg"}
  Names = {"hot", "fresh"}
  Bursts = {1}
  TickSet = {1}
  WithCleanup = TRUE
  Cap = 2
  Thr = 33
  Mode = "block"
  MaxOps = 2
  MaxClk = 4
  MaxQ = 6
  MaxPend = 1
  Quirk = TRUE
  Mutant = "ScoreExempt"
  MinVol = 2
  RLow = 1
  RMid = 2
  RHigh = 3
  RTop = 4
  VolNoNormal = 3
  VolSingle = 4
  BytesA = 2000
  BytesB = 3000
  OldAge = 2
  Idle = 3
SPECIFICATION Spec
INVARIANTS TypeOK
PROPERTIES ExemptUntouched
VIEW View
CHECK_DEADLOCK FALSE
