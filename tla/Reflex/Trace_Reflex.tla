---------------------------- MODULE Trace_Reflex ----------------------------
(***************************************************************************)
(* The monitor of the free-running stage (harness/xreflex: TestStress):    *)
(* goroutines call Server.ServeMsg / ServeRaw / ServeRawInline /           *)
(* ServeRawReplay on one real server at once, inside one second of the     *)
(* tracker's clock and below the byte thresholds of the score (so the      *)
(* moment a response is recorded cannot change a decision).  Every call    *)
(* logs an invocation line before it starts and a response line after it   *)
(* returned, both stamped under one harness-side lock: the line order      *)
(* respects real time.  A call takes effect (Reflex.One: record, score,    *)
(* decide, record the response) at one silent step between its two lines;  *)
(* a history is accepted when some order of those steps explains every     *)
(* response line and the quiescent table of the `end` line, i.e. when it   *)
(* is linearizable with respect to Reflex.tla.                             *)
(*                                                                         *)
(* Obs* are predicates on what the code did (lines), independent of the    *)
(* linearization found: they are the verdicts; mere non-acceptance is      *)
(* drift.  The high-water mark of `l` is kept in TLC register 1.           *)
(***************************************************************************)
EXTENDS MC_Reflex, Json, IOUtils

TraceLog == ndJsonDeserialize(IOEnv.TRACE_FILE)
Procs == 1..8

VARIABLES l, cur, done, obs
tvars == <<vars, l, cur, done, obs>>

NoCall == [op |-> "none"]
NoObs == [ev |-> "none"]

TraceInit == Init /\ l = 1 /\ cur = [p \in Procs |-> NoCall] /\ done = [p \in Procs |-> None] /\ obs = NoObs /\ TLCSet(1, 0)
Line == TraceLog[l]
IsEv(e) == l <= Len(TraceLog) /\ Line.ev = e /\ l' = l + 1
Quiet == UNCHANGED <<clk, out, nops, nid>>

TInv ==
  /\ IsEv("inv")
  /\ cur[Line.p].op = "none"
  /\ cur' = [cur EXCEPT ![Line.p] = Line]
  /\ done' = [done EXCEPT ![Line.p] = None]
  /\ obs' = NoObs
  /\ UNCHANGED vars

\* the linearization point of an open call
Lin(p) ==
  /\ l <= Len(TraceLog)
  /\ cur[p].op # "none" /\ done[p] = None
  /\ \/ /\ cur[p].op = "call"
        /\ LET r == One("none", World, cur[p].c, cur[p].proto, cur[p].t, cur[p].entry, cur[p].n, clk)
           IN /\ tab' = r.w.tab /\ lru' = r.w.lru /\ stale' = r.w.stale
              /\ done' = [done EXCEPT ![p] = r.dec]
              /\ pend' = IF r.dec = "handoff"
                         THEN pend \cup {[id |-> cur[p].id, c |-> cur[p].c, t |-> cur[p].t, n |-> cur[p].n, acct |-> r.acct,
                                          sc |-> r.sc, want |-> Absent, at |-> 0]}
                         ELSE pend
     \/ /\ cur[p].op = "replay"
        /\ \E j \in pend :
             /\ j.id = cur[p].id
             /\ LET w2 == IF ~Exempt(j.c) /\ j.acct THEN RecordResponse(World, KeyOf[j.c], j.t, 1) ELSE World
                IN tab' = w2.tab /\ lru' = w2.lru /\ stale' = w2.stale
             /\ pend' = pend \ {j}
             /\ done' = [done EXCEPT ![p] = "pass"]
  /\ Quiet /\ UNCHANGED <<l, cur, obs>>

TRes ==
  /\ IsEv("res")
  /\ cur[Line.p].op # "none" /\ done[Line.p] = Line.kind
  /\ obs' = [ev |-> "res", kind |-> Line.kind, nw |-> Line.nw, c |-> cur[Line.p].c, proto |-> cur[Line.p].proto, op |-> cur[Line.p].op]
  /\ cur' = [cur EXCEPT ![Line.p] = NoCall]
  /\ UNCHANGED <<vars, done>>

TEnd ==
  /\ IsEv("end")
  /\ \A p \in Procs : cur[p].op = "none"
  /\ pend = {}
  /\ obs' = [ev |-> "end", tq |-> Line.tq, resp |-> Line.resp, tcp |-> Line.tcp]
  /\ UNCHANGED <<vars, cur, done>>

TReset ==
  /\ IsEv("Reset")
  /\ tab' = [k \in Keys |-> Absent] /\ lru' = <<>> /\ pend' = {} /\ stale' = None
  /\ cur' = [p \in Procs |-> NoCall] /\ done' = [p \in Procs |-> None] /\ obs' = NoObs
  /\ Quiet

TraceNext == TReset \/ TInv \/ TRes \/ TEnd \/ \E p \in Procs : Lin(p)
TraceSpec == TraceInit /\ [][TraceNext]_tvars

HighWater == TLCSet(1, IF l > TLCGet(1) THEN l ELSE TLCGet(1))
TraceAccepted == TLCGet(1) > Len(TraceLog)

\* ---- the verdicts: predicates on the lines ---------------------------------------------------------------
\* C11: never two replies to one query (an inline pass that wrote and handed off as well counts)
ObsAtMostOneReply == obs.ev = "res" => obs.nw <= 1
\* C17 / "Skip internal/loopback": exempt origins are never refused
ObsExemptNeverRefused == obs.ev = "res" /\ Exempt(obs.c) => obs.kind \in {"pass", "handoff"}
\* "Only analyze UDP"
ObsProvenNeverRefused == obs.ev = "res" /\ obs.proto # "udp" /\ Origin[obs.c] # "denied" => obs.kind \in {"pass", "handoff"}
\* C17: a denied source gets nothing
ObsDeniedSilent == obs.ev = "res" /\ Origin[obs.c] = "denied" => obs.kind = "silent"
ObsModeRespected == obs.ev = "res" /\ obs.kind = "refused" => Mode = "block"
ObsReplayNeverDecides == obs.ev = "res" /\ obs.op = "replay" => obs.kind = "pass"
\* under concurrency every UDP query is scored once and every watched response recorded once: the totals of the
\* quiescent table do not depend on the order, so they are the model's whatever linearization was found
ObsScoredOnce == obs.ev = "end" => \A k \in Keys : obs.tq[k] = (IF tab[k].on THEN tab[k].tq ELSE 0)
ObsRespondedOnce == obs.ev = "end" => \A k \in Keys : tab[k].on => obs.resp[k] = tab[k].resp
=============================================================================
