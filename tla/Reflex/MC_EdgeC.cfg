CONSTANTS
  Clients = {"c1", "c2"}
  Protos = {"udp"}
  Types = {"TXT"}
  Entries = {"msg", "inline"}
  Names = {"fresh"}
  Bursts = {1}
  TickSet = {600}
  WithCleanup = TRUE
  Cap = 1
  Thr = 33
  Mode = "block"
  MaxOps = 3
  MaxClk = 600
  MaxQ = 24
  MaxPend = 1
  Quirk = TRUE
  Mutant = "none"
  MinVol = 10
  RLow = 5
  RMid = 10
  RHigh = 15
  RTop = 30
  VolNoNormal = 30
  VolSingle = 50
  BytesA = 50000
  BytesB = 100000
  OldAge = 60
  Idle = 600
SPECIFICATION Spec
INVARIANTS TypeOK TableBounded ProvenNeverSuspect LowVolumeNeverSuspect
PROPERTIES ModeRespected BlockSound OneAccounting ReplayNeverDecides
  ExemptUntouched DeniedUntouched ProvenUntouched OwnHistoryOnly FrameOthers EvictsOldest CleanupExact TickOnlyTime
  PathsDecideAlike PathsAccountAlike ReplayAccountsAlike ChallengeServed
CHECK_DEADLOCK FALSE
