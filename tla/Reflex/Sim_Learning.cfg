CONSTANTS
  Clients = {"c1", "c2"}
  Protos = {"udp"}
  Types = {"TXT", "A"}
  Entries = {"msg", "wire", "inline"}
  Names = {"hot", "fresh"}
  Bursts = {1, 11}
  TickSet = {1}
  WithCleanup = TRUE
  Cap = 2
  Thr = 33
  Mode = "learning"
  MaxOps = 100000
  MaxClk = 100000
  MaxQ = 100000
  MaxPend = 2
  Quirk = TRUE
  Mutant = "none"
  MinVol = 10
  RLow = 5
  RMid = 10
  RHigh = 15
  RTop = 30
  VolNoNormal = 30
  VolSingle = 50
  BytesA = 50000
  BytesB = 100000
  OldAge = 60
  Idle = 600
INIT Init
NEXT Next
CHECK_DEADLOCK FALSE
