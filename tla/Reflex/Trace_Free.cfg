CONSTANTS
  Clients = {"c1", "c2", "lo", "ints", "den"}
  Protos = {"udp", "tcp"}
  Types = {"TXT", "A"}
  Entries = {"msg", "wire", "inline"}
  Names = {"hot", "fresh"}
  Bursts = {1}
  TickSet = {}
  WithCleanup = FALSE
  Cap = 8
  Thr = 33
  Mode = "block"
  MaxOps = 100000
  MaxClk = 100000
  MaxQ = 100000
  MaxPend = 2
  Quirk = TRUE
  Mutant = "none"
  MinVol = 10
  RLow = 5
  RMid = 10
  RHigh = 15
  RTop = 30
  VolNoNormal = 30
  VolSingle = 50
  BytesA = 50000
  BytesB = 100000
  OldAge = 60
  Idle = 600
SPECIFICATION TraceSpec
INVARIANTS TypeOK TableBounded ProvenNeverSuspect ObsAtMostOneReply ObsExemptNeverRefused ObsProvenNeverRefused ObsDeniedSilent ObsModeRespected ObsReplayNeverDecides ObsScoredOnce ObsRespondedOnce
CONSTRAINT HighWater
POSTCONDITION TraceAccepted
CHECK_DEADLOCK FALSE
