------------------------------ MODULE MC_LP ------------------------------
EXTENDS LeasePipe
T12 == 1..2
T13 == 1..3
Bools == {TRUE, FALSE}
OnlyF == {FALSE}
OnlyT == {TRUE}
ChildLong == {"long"}
ChildAll == {"long", "selfref", "nschange", "glueless", "slowns"}
ChildSelf == {"selfref"}
TTLLong == {3600}
TTLBoth == {1, 3600}
TTLShort == {1}
NoDelay == {0}
Delays == {0, 600}
=============================================================================
