------------------------------ MODULE MC_LP ------------------------------
EXTENDS LeasePipe
T12 == 1..2
T13 == 1..3
Bools == {TRUE, FALSE}
OnlyF == {FALSE}
OnlyT == {TRUE}
ChildLong == {"long"}
ChildAll == {"long", "selfref", "nschange", "glueless", "slowns"}
ChildSelf == {"selfref"}
TTLLong == {3600}
TTLBoth == {1, 3600}
TTLShort == {1}
NoDelay == {0}
Delays == {0, 600}
\* the long-lease family: referral TTLs of 6 h (below the ceiling), 1 d and 2 d (above it), answers of 1 h / 1 d,
\* clock advances of 6 h + 100 s and 12 h + 100 s (no sum of them comes within 100 s of any lease end)
NoJumps == {}
TLong == {21600, 86400, 172800}
TLongTop == {86400, 172800}
JLong == {21700, 43300}
TTLDay == {3600, 86400}
TTLDayOnly == {86400}
\* content kinds / the denied-subtree family (a slow denial: 2 ticks = held back 1.5 s, longer than a 1 s lease)
KindPos == {"pos"}
KindNeg == {"negsub"}
KindBoth == {"pos", "negsub"}
NoLat == {0}
LatSlow == {0, 2}
LatSlowOnly == {2}
T11 == {1}
=============================================================================
