CONSTANTS
  TTLs <- TLong
  Horizon = 110000
  MaxChanges = 1
  MaxQueries = 3
  SignedSet <- Bools
  ChildSet <- ChildLong
  ChildTTLs <- TTLDay
  DeepSet <- OnlyF
  ValDelays <- NoDelay
  FloorWins = FALSE
  SelfRefReanchors = FALSE
  Ceil = 43200
  Jumps <- JLong
  RealTime = FALSE
  CeilOnCut = TRUE
  CeilOnStore = TRUE
  KindSet <- KindPos
  Lats <- NoLat
  CutAdmitsPast = FALSE
INIT Init
NEXT Next
INVARIANTS TypeOK FollowsParent LeaseWithinGrant
CHECK_DEADLOCK FALSE
