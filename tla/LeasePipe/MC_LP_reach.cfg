CONSTANTS
  TTLs <- T12
  Horizon = 4
  MaxChanges = 1
  MaxQueries = 3
  SignedSet <- OnlyF
  ChildSet <- ChildLong
  ChildTTLs <- TTLLong
  DeepSet <- OnlyF
  ValDelays <- NoDelay
  FloorWins = FALSE
  SelfRefReanchors = FALSE
INIT Init
NEXT Next
INVARIANTS NeverStaleWindow
CHECK_DEADLOCK FALSE
