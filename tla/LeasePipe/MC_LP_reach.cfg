CONSTANTS
  TTLs <- T12
  Horizon = 4
  MaxChanges = 1
  MaxQueries = 3
  SignedSet <- OnlyF
  ChildSet <- ChildLong
  ChildTTLs <- TTLLong
  DeepSet <- OnlyF
  ValDelays <- NoDelay
  FloorWins = FALSE
  SelfRefReanchors = FALSE
  Ceil = 43200
  Jumps <- NoJumps
  RealTime = TRUE
  CeilOnCut = TRUE
  CeilOnStore = TRUE
  KindSet <- KindPos
  Lats <- NoLat
  CutAdmitsPast = FALSE
INIT Init
NEXT Next
INVARIANTS NeverStaleWindow
CHECK_DEADLOCK FALSE
