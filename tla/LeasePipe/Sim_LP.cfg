CONSTANTS
  TTLs <- T13
  Horizon = 6
  MaxChanges = 2
  MaxQueries = 6
  SignedSet <- Bools
  ChildSet <- ChildAll
  ChildTTLs <- TTLBoth
  DeepSet <- Bools
  ValDelays <- Delays
  FloorWins = FALSE
  SelfRefReanchors = FALSE
  Ceil = 43200
  Jumps <- NoJumps
  RealTime = TRUE
  CeilOnCut = TRUE
  CeilOnStore = TRUE
  KindSet <- KindPos
  Lats <- NoLat
  CutAdmitsPast = FALSE
INIT Init
NEXT Next
INVARIANTS TypeOK FollowsParent LeaseWithinGrant
CHECK_DEADLOCK FALSE
