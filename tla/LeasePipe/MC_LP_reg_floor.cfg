CONSTANTS
  TTLs <- T12
  Horizon = 4
  MaxChanges = 1
  MaxQueries = 3
  SignedSet <- OnlyF
  ChildSet <- ChildLong
  ChildTTLs <- TTLShort
  DeepSet <- OnlyF
  ValDelays <- NoDelay
  FloorWins = TRUE
  SelfRefReanchors = FALSE
INIT Init
NEXT Next
INVARIANTS TypeOK FollowsParent
CHECK_DEADLOCK FALSE
