CONSTANTS
  TTLs <- T12
  Horizon = 4
  MaxChanges = 1
  MaxQueries = 3
  SignedSet <- OnlyF
  ChildSet <- ChildLong
  ChildTTLs <- TTLShort
  DeepSet <- OnlyF
  ValDelays <- NoDelay
  FloorWins = TRUE
  SelfRefReanchors = FALSE
  Ceil = 43200
  Jumps <- NoJumps
  RealTime = TRUE
  CeilOnCut = TRUE
  CeilOnStore = TRUE
  KindSet <- KindPos
  Lats <- NoLat
  CutAdmitsPast = FALSE
INIT Init
NEXT Next
INVARIANTS TypeOK FollowsParent
CHECK_DEADLOCK FALSE
