CONSTANTS
  TTLs <- TLongTop
  Horizon = 90000
  MaxChanges = 1
  MaxQueries = 3
  SignedSet <- OnlyF
  ChildSet <- ChildLong
  ChildTTLs <- TTLDayOnly
  DeepSet <- OnlyF
  ValDelays <- NoDelay
  FloorWins = FALSE
  SelfRefReanchors = FALSE
  Ceil = 43200
  Jumps <- JLong
  RealTime = FALSE
  CeilOnCut = FALSE
  CeilOnStore = FALSE
  KindSet <- KindPos
  Lats <- NoLat
  CutAdmitsPast = FALSE
INIT Init
NEXT Next
INVARIANTS TypeOK LeaseWithinGrant
CHECK_DEADLOCK FALSE
