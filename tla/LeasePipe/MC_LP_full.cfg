CONSTANTS
  TTLs <- T13
  Horizon = 6
  MaxChanges = 2
  MaxQueries = 4
  SignedSet <- Bools
  ChildSet <- ChildLong
  ChildTTLs <- TTLBoth
  DeepSet <- OnlyF
  ValDelays <- NoDelay
  FloorWins = FALSE
  SelfRefReanchors = FALSE
INIT Init
NEXT Next
INVARIANTS TypeOK FollowsParent LeaseWithinGrant
CHECK_DEADLOCK FALSE
