CONSTANTS
  TTLs <- T12
  Horizon = 4
  MaxChanges = 2
  MaxQueries = 3
  SignedSet <- Bools
  ChildSet <- ChildLong
  ChildTTLs <- TTLBoth
  DeepSet <- OnlyF
  ValDelays <- NoDelay
  FloorWins = FALSE
  SelfRefReanchors = FALSE
  Ceil = 43200
  Jumps <- NoJumps
  RealTime = TRUE
  CeilOnCut = TRUE
  CeilOnStore = TRUE
  KindSet <- KindPos
  Lats <- NoLat
  CutAdmitsPast = FALSE
INIT Init
NEXT Next
INVARIANTS TypeOK FollowsParent LeaseWithinGrant
CHECK_DEADLOCK FALSE
