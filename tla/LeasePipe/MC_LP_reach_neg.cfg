CONSTANTS
  TTLs <- T12
  Horizon = 5
  MaxChanges = 1
  MaxQueries = 3
  SignedSet <- OnlyT
  ChildSet <- ChildLong
  ChildTTLs <- TTLLong
  DeepSet <- OnlyF
  ValDelays <- NoDelay
  FloorWins = FALSE
  SelfRefReanchors = FALSE
  Ceil = 43200
  Jumps <- NoJumps
  RealTime = TRUE
  CeilOnCut = TRUE
  CeilOnStore = TRUE
  KindSet <- KindNeg
  Lats <- LatSlow
  CutAdmitsPast = FALSE
INIT Init
NEXT Next
INVARIANTS NeverStaleDenial
CHECK_DEADLOCK FALSE
