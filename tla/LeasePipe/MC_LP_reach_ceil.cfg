CONSTANTS
  TTLs <- TLong
  Horizon = 90000
  MaxChanges = 1
  MaxQueries = 3
  SignedSet <- OnlyF
  ChildSet <- ChildLong
  ChildTTLs <- TTLDay
  DeepSet <- OnlyF
  ValDelays <- NoDelay
  FloorWins = FALSE
  SelfRefReanchors = FALSE
  Ceil = 43200
  Jumps <- JLong
  RealTime = FALSE
  CeilOnCut = TRUE
  CeilOnStore = TRUE
  KindSet <- KindPos
  Lats <- NoLat
  CutAdmitsPast = FALSE
INIT Init
NEXT Next
INVARIANTS TypeOK NeverCeilTension
CHECK_DEADLOCK FALSE
