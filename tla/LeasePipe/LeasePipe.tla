---------------------------- MODULE LeasePipe ----------------------------
(***************************************************************************)
(* C08, pipeline tier: scenario generator + oracle statement.               *)
(*                                                                         *)
(* A delegation tree  root -> p. -> c.p. (-> g.c.p. when deep) whose        *)
(* parent-side truth changes under the resolver's feet:                     *)
(*   ParentWithdraw / ParentRepoint   p stops delegating c / delegates it   *)
(*                                    to a new server with different data   *)
(*   RootWithdraw / RootRepoint       the same one level up                 *)
(* while clients query (single queries, or a burst every 300 ms that keeps  *)
(* the name hot for a whole tick) and time passes (Tick = 1 s).             *)
(* Per behaviour TLC picks the NS / DS TTL of both referrals from 1..3, the *)
(* child's behaviour (long answer TTLs, its own NS RRset in every authority *)
(* section, a changed NS set -- the old servers always stay alive after a   *)
(* withdrawal), the answer TTL (3600 or 1: the 5 s cache floor), signed or  *)
(* not, the deep variant and the validation latency.                        *)
(*                                                                         *)
(* The resolver is the INTENDED one (resolver.go processDelegation /        *)
(* resolveWithCachedNameservers / noteCut -> cache cutUntil):               *)
(*   lease(c) = observedAt + min(NS ttl, DS ttl)  min  lease(p)             *)
(*   an answer learned through c is served only while now < lease(c)        *)
(* so FollowsParent holds in the model; every behaviour becomes a script    *)
(* for the real pipeline, where the same predicate is evaluated from the    *)
(* scripted parents' referral logs.  Model mutants (the 5 s floor or the    *)
(* answer's own TTL overriding the cut; the child's self-referral           *)
(* re-anchoring the lease) must violate FollowsParent.                      *)
(***************************************************************************)
EXTENDS Naturals, Sequences, FiniteSets, TLC

CONSTANTS TTLs,          \* referral TTLs, e.g. 1..3
          Horizon,       \* ticks
          MaxChanges,    \* parent-side changes per behaviour
          MaxQueries,
          SignedSet, ChildSet, ChildTTLs, DeepSet, ValDelays,
          FloorWins, SelfRefReanchors   \* model mutants

VARIABLES cfg, now, pver, cver, nextP, leaseP, leaseC, ans, neg, reply, rat, nq, nch,
          grantP, grantC   \* ghosts: what the parents granted, per version

vars == <<cfg, now, pver, cver, nextP, leaseP, leaseC, ans, neg, reply, rat, nq, nch, grantP, grantC>>

None == [exp |-> 0, pv |-> 0, cv |-> 0]
NoReply == <<9, 9>>
MaxP == 3
Min(a, b) == IF a < b THEN a ELSE b
Max(a, b) == IF a > b THEN a ELSE b

Cfgs == [pNS : TTLs, pDS : TTLs, cNS : TTLs, cDS : TTLs, signed : SignedSet, child : ChildSet,
         childTTL : ChildTTLs, deep : DeepSet, valDelay : ValDelays]

PTTL == IF cfg.signed THEN Min(cfg.pNS, cfg.pDS) ELSE cfg.pNS
CTTL == IF cfg.signed THEN Min(cfg.cNS, cfg.cDS) ELSE cfg.cNS
Floor == 5
NegTTL == 60

Init == /\ cfg \in {c \in Cfgs : (c.valDelay > 0 => c.signed)}
        /\ now = 0
        /\ pver = 1
        /\ cver = [p \in 1..MaxP |-> IF p = 1 THEN 1 ELSE 0]
        /\ nextP = 2
        /\ leaseP = None /\ leaseC = None /\ ans = None /\ neg = 0
        /\ reply = NoReply /\ rat = 0 /\ nq = 0 /\ nch = 0
        /\ grantP = [p \in 1..MaxP |-> 0]
        /\ grantC = [p \in 1..MaxP |-> [c \in 1..MaxP |-> 0]]

Live(l) == l.pv # 0 /\ now < l.exp

(***************************************************************************)
(* One client query, atomically (latency is far below the 1 s tick)        *)
(***************************************************************************)
VerStr(p, c) == <<p, c>>

Resolve ==
  \* returns [lp, lc, an, ng, rep, gp, gc]
  LET lp1 == IF Live(leaseP) THEN leaseP
             ELSE IF pver = 0 THEN None
             ELSE [exp |-> now + PTTL, pv |-> pver, cv |-> 0]
      askedRoot == ~Live(leaseP) /\ pver # 0
      gp1 == IF askedRoot THEN [grantP EXCEPT ![pver] = now + PTTL] ELSE grantP
  IN IF lp1.pv = 0
     THEN [lp |-> None, lc |-> None, an |-> None, ng |-> now + NegTTL, rep |-> <<0, 0>>, gp |-> gp1, gc |-> grantC]
     ELSE LET sameP == Live(leaseC) /\ leaseC.pv = lp1.pv
              cNow == cver[lp1.pv]
              lc1 == IF sameP THEN leaseC
                     ELSE IF cNow = 0 THEN None
                     ELSE [exp |-> Min(now + CTTL, lp1.exp), pv |-> lp1.pv, cv |-> cNow]
              askedP == ~sameP /\ cNow # 0
              gc1 == IF askedP THEN [grantC EXCEPT ![lp1.pv][cNow] = Min(now + CTTL, gp1[lp1.pv])] ELSE grantC
          IN IF lc1.pv = 0
             THEN \* the parent's NXDOMAIN is itself learned through p's delegation: bounded by that cut
                  [lp |-> lp1, lc |-> None, an |-> None, ng |-> Min(now + NegTTL, lp1.exp), rep |-> <<0, 0>>, gp |-> gp1, gc |-> gc1]
             ELSE LET own == now + Max(cfg.childTTL, Floor)
                      \* the child's self-referral must NOT re-anchor the lease (validReferral)
                      lc2 == IF SelfRefReanchors /\ cfg.child # "long"
                             THEN [lc1 EXCEPT !.exp = now + 3600] ELSE lc1
                      cut == IF FloorWins THEN own ELSE Min(own, lc2.exp)
                  IN [lp |-> lp1, lc |-> lc2, an |-> [exp |-> cut, pv |-> lc2.pv, cv |-> lc2.cv],
                      ng |-> neg, rep |-> <<lc2.pv, lc2.cv>>, gp |-> gp1, gc |-> gc1]

DoQuery ==
  IF Live(ans)
  THEN /\ reply' = <<ans.pv, ans.cv>>
       /\ UNCHANGED <<leaseP, leaseC, ans, neg, grantP, grantC>>
  ELSE IF now < neg
  THEN /\ reply' = <<0, 0>>
       /\ UNCHANGED <<leaseP, leaseC, ans, neg, grantP, grantC>>
  ELSE LET r == Resolve
       IN /\ leaseP' = r.lp /\ leaseC' = r.lc /\ ans' = r.an /\ neg' = r.ng
          /\ reply' = r.rep /\ grantP' = r.gp /\ grantC' = r.gc

Query == /\ nq < MaxQueries
         /\ DoQuery /\ rat' = now
         /\ nq' = nq + 1
         /\ UNCHANGED <<cfg, now, pver, cver, nextP, nch>>

\* keep the name hot for one whole tick: a query now, then every 300 ms until the next tick
Hot == /\ nq < MaxQueries /\ now < Horizon
       /\ DoQuery /\ rat' = now
       /\ nq' = nq + 1
       /\ now' = now + 1
       /\ UNCHANGED <<cfg, pver, cver, nextP, nch>>

Tick == /\ now < Horizon
        /\ now' = now + 1
        /\ reply' = NoReply
        /\ UNCHANGED <<cfg, pver, cver, nextP, leaseP, leaseC, ans, neg, rat, nq, nch, grantP, grantC>>

Changed == /\ nch' = nch + 1 /\ reply' = NoReply
           /\ UNCHANGED <<cfg, now, leaseP, leaseC, ans, neg, rat, nq, grantP, grantC>>

ParentWithdraw == /\ nch < MaxChanges /\ pver # 0 /\ cver[pver] # 0
                  /\ cver' = [cver EXCEPT ![pver] = 0]
                  /\ UNCHANGED <<pver, nextP>> /\ Changed

ParentRepoint == /\ nch < MaxChanges /\ pver # 0 /\ cver[pver] # 0 /\ cver[pver] < MaxP
                 /\ cver' = [cver EXCEPT ![pver] = @ + 1]
                 /\ UNCHANGED <<pver, nextP>> /\ Changed

RootWithdraw == /\ nch < MaxChanges /\ pver # 0
                /\ pver' = 0
                /\ UNCHANGED <<cver, nextP>> /\ Changed

RootRepoint == /\ nch < MaxChanges /\ pver # 0 /\ nextP <= MaxP
               /\ pver' = nextP /\ nextP' = nextP + 1
               /\ cver' = [cver EXCEPT ![nextP] = 1]
               /\ Changed

Next == Query \/ Hot \/ Tick \/ ParentWithdraw \/ ParentRepoint \/ RootWithdraw \/ RootRepoint

Spec == Init /\ [][Next]_vars

(***************************************************************************)
(* FollowsParent: data of a delegation version that is no longer the        *)
(* parents' truth is served only inside the lease the parents granted       *)
(* (min NS/DS TTL from the observation, min with the shallower cut).        *)
(***************************************************************************)
Current(p, c) == p = pver /\ p # 0 /\ c = cver[p]

FollowsParent ==
  (reply # NoReply /\ reply # <<0, 0>>) =>
     LET p == reply[1] c == reply[2]
     IN Current(p, c) \/ rat < grantC[p][c]

LeaseWithinGrant ==
  /\ Live(leaseC) => leaseC.exp <= grantC[leaseC.pv][leaseC.cv]
  /\ Live(leaseP) => leaseP.exp <= grantP[leaseP.pv]
  /\ Live(ans) => ans.exp <= grantC[ans.pv][ans.cv]

TypeOK == /\ now \in 0..Horizon /\ pver \in 0..MaxP /\ nq \in 0..MaxQueries /\ nch \in 0..MaxChanges

\* the generator must reach the interesting region (checked as a must-fail in a coverage cfg)
NeverStaleWindow == ~(reply # NoReply /\ reply # <<0, 0>> /\ ~Current(reply[1], reply[2]))
=============================================================================
