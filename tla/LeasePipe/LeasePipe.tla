---------------------------- MODULE LeasePipe ----------------------------
(***************************************************************************)
(* C08, pipeline tier: scenario generator + oracle statement.               *)
(*                                                                         *)
(* A delegation tree  root -> p. -> c.p. (-> g.c.p. when deep) whose        *)
(* parent-side truth changes under the resolver's feet:                     *)
(*   ParentWithdraw / ParentRepoint   p stops delegating c / delegates it   *)
(*                                    to a new server with different data   *)
(*   RootWithdraw / RootRepoint       the same one level up                 *)
(* while clients query (single queries, or a burst every 300 ms that keeps  *)
(* the name hot for a whole tick) and time passes (Tick = 1 s).             *)
(* Per behaviour TLC picks the NS / DS TTL of both referrals from 1..3, the *)
(* child's behaviour (long answer TTLs, its own NS RRset in every authority *)
(* section, a changed NS set -- the old servers always stay alive after a   *)
(* withdrawal), the answer TTL (3600 or 1: the 5 s cache floor), signed or  *)
(* not, the deep variant and the validation latency.                        *)
(*                                                                         *)
(* The resolver is the INTENDED one (resolver.go processDelegation /        *)
(* resolveWithCachedNameservers / noteCut -> cache cutUntil):               *)
(*   lease(c) = observedAt + min(NS ttl, DS ttl)  min  lease(p)             *)
(*   an answer learned through c is served only while now < lease(c)        *)
(* so FollowsParent holds in the model; every behaviour becomes a script    *)
(* for the real pipeline, where the same predicate is evaluated from the    *)
(* scripted parents' referral logs.  Model mutants (the 5 s floor or the    *)
(* answer's own TTL overriding the cut; the child's self-referral           *)
(* re-anchoring the lease) must violate FollowsParent.                      *)
(*                                                                         *)
(* The 12 h CEILING (lease-length dimension above it).  The statement: the  *)
(* lifetime a parent grants is the smaller of the referral's NS and DS      *)
(* TTLs, limited by every shallower delegation "and a 12 h ceiling -        *)
(* measured from the moment the referral was observed"; what was learned    *)
(* through the old delegation "has stopped being served by then".  So the   *)
(* ghosts grantP / grantC carry  min(TTL, Ceil)  and the intended resolver  *)
(* limits BOTH what it stores (authority.Cache.SetUntil) AND the cut it     *)
(* reports to the request tree of the resolution that observes the          *)
(* referral (processDelegation: childDeadline -> noteCut -> the answer's    *)
(* cutUntil, and the cutDeadline every deeper delegation inherits).         *)
(* Referral TTLs of 6 h / 1 d / 2 d against Ceil = 12 h need a clock that   *)
(* moves by hours: with RealTime = FALSE the clock advances by Jump(d)      *)
(* only (the harness moves every stored timestamp into the past), Tick and  *)
(* Hot are off.  Model mutants: CeilOnCut = FALSE (the ceiling applied to   *)
(* the stored delegation but not to the reported cut: a later resolution    *)
(* seeds its cut from the clamped stored expiry, the one that learned the   *)
(* referral does not) must violate FollowsParent; no ceiling at all (both    *)
(* FALSE) must violate LeaseWithinGrant.  With CeilOnCut the SetUntil clamp *)
(* is redundant: the deadline handed to it is already anchored at the      *)
(* observation.                                                             *)
(*                                                                         *)
(* NEGATIVE ANSWERS (content kind cfg.kind = "negsub").  "... every answer, *)
(* NEGATIVE ANSWER, DS/DNSKEY record and deeper delegation learned through  *)
(* the old delegation has stopped being served by then".  Besides www.c.p.  *)
(* (in every copy of c.p.) clients ask for XNames: 1 = d.c.p., 2 = a name   *)
(* below it.  A copy of c.p. Has them or -- version 1 under every parent -- *)
(* lacks the whole subtree: its (signed, validated) NXDOMAIN is cached both *)
(* as the exact entry and as the RFC 8020 cut / RFC 8198 proofs that answer *)
(* every name at or below d.c.p. (cutx; the exact entry never outlives it), *)
(* bounded by the cut of the delegation it was learned through like any     *)
(* answer.  Such a copy may be SLOW about its denials (cfg.lat ticks; the   *)
(* harness holds the reply back lat s - 0.5 s): the reply is written to the *)
(* cache when the lease it was learned under may ALREADY have ended.  The   *)
(* intended cache (nxDomainCutCache.record, denialProofExpiry, the entry's  *)
(* cutUntil) treats a deadline in the past like any other: nothing is       *)
(* admitted.  The validation that follows the late reply looks c.p.'s       *)
(* DNSKEY up when every lease has run out, so it walks down again and the   *)
(* parent's referral is observed anew (a new grant for the version the      *)
(* parent names THEN; if that is no longer the copy that signed the denial  *)
(* the reply is SERVFAIL).  Model mutant CutAdmitsPast: a deadline that is  *)
(* already past is taken for "no deadline", the subtree denial is admitted  *)
(* for its own negative TTL -- must violate FollowsParent.                  *)
(***************************************************************************)
EXTENDS Naturals, Sequences, FiniteSets, TLC

CONSTANTS TTLs,          \* referral TTLs, e.g. 1..3
          Horizon,       \* ticks
          MaxChanges,    \* parent-side changes per behaviour
          MaxQueries,
          SignedSet, ChildSet, ChildTTLs, DeepSet, ValDelays,
          FloorWins, SelfRefReanchors,  \* model mutants
          Ceil,          \* authority maximumTTL: 12 h, in clock units
          Jumps,         \* clock advances of the long-lease family (RealTime = FALSE)
          RealTime,      \* TRUE: 1 s Tick / Hot (the harness sleeps); FALSE: Jump only (virtual clock)
          CeilOnCut,     \* FALSE = mutant: the reported cut of the learning resolution ignores the ceiling
          CeilOnStore,   \* FALSE = mutant: SetUntil does not clamp
          KindSet,       \* content kinds: "pos" (www.c.p. only) | "negsub" (a denied subtree next to it)
          Lats,          \* ticks a copy of c.p. that lacks the subtree holds its denials back
          CutAdmitsPast  \* TRUE = mutant: a cut deadline already in the past bounds nothing at admission

VARIABLES cfg, now, pver, cver, nextP, leaseP, leaseC, ans, neg, reply, rat, nq, nch,
          grantP, grantC,  \* ghosts: what the parents granted, per version
          cutx,            \* negsub: the cached denial of the subtree d.c.p. (RFC 8020 cut, exact entries, RFC 8198 proofs)
          posx,            \* negsub: cached positive answers for the XNames
          rneg             \* the last reply is a denial learned through delegation versions reply[1], reply[2]

vars == <<cfg, now, pver, cver, nextP, leaseP, leaseC, ans, neg, reply, rat, nq, nch, grantP, grantC, cutx, posx, rneg>>

None == [exp |-> 0, pv |-> 0, cv |-> 0]
\* an answer also remembers when it would have ended had no ceiling applied (raw): reachability only
NoAns == [exp |-> 0, pv |-> 0, cv |-> 0, raw |-> 0]
NoReply == <<9, 9>>
MaxP == 3
Min(a, b) == IF a < b THEN a ELSE b
Max(a, b) == IF a > b THEN a ELSE b

Cfgs == [pNS : TTLs, pDS : TTLs, cNS : TTLs, cDS : TTLs, signed : SignedSet, child : ChildSet,
         childTTL : ChildTTLs, deep : DeepSet, valDelay : ValDelays, kind : KindSet, lat : Lats]
XNames == {1, 2}         \* 1 = d.c.p. (the denied name), 2 = www.d.c.p. (a name below it)
Has(c) == c >= 2         \* which copies of c.p. have the subtree: every re-pointed one

PTTL == IF cfg.signed THEN Min(cfg.pNS, cfg.pDS) ELSE cfg.pNS
CTTL == IF cfg.signed THEN Min(cfg.cNS, cfg.cDS) ELSE cfg.cNS
Floor == 5
CapTTL == 86400      \* dnsutil.MaxCacheTTL: a record's own TTL is capped at 24 h
NegTTL == 60
\* what a parent grants, per the statement: the referral's TTL under the ceiling
GrantOf(ttl) == Min(ttl, Ceil)
\* the deadline a referral observed now contributes to the request tree / the deadline handed to SetUntil
CutOf(ttl) == now + (IF CeilOnCut THEN Min(ttl, Ceil) ELSE ttl)
\* authority.Cache.SetUntil: clamp at now + Ceil
Stored(deadline) == IF CeilOnStore THEN Min(deadline, now + Ceil) ELSE deadline

\* (long-lease family: an unsigned hierarchy has no DS, its DS TTLs are not a dimension)
\* (negsub: only a validated denial is shared below the denied name -- a signed hierarchy; real time; plain child)
Init == /\ cfg \in {c \in Cfgs : /\ (c.valDelay > 0 => c.signed)
                                 /\ ((~RealTime /\ ~c.signed) => (c.pDS = c.pNS /\ c.cDS = c.cNS))
                                 /\ (c.kind = "negsub" => (c.signed /\ RealTime /\ ~c.deep /\ c.child = "long" /\ c.valDelay = 0))
                                 /\ (c.lat > 0 => c.kind = "negsub")}
        /\ now = 0
        /\ pver = 1
        /\ cver = [p \in 1..MaxP |-> IF p = 1 THEN 1 ELSE 0]
        /\ nextP = 2
        /\ leaseP = None /\ leaseC = None /\ ans = NoAns /\ neg = 0
        /\ reply = NoReply /\ rat = 0 /\ nq = 0 /\ nch = 0
        /\ grantP = [p \in 1..MaxP |-> 0]
        /\ grantC = [p \in 1..MaxP |-> [c \in 1..MaxP |-> 0]]
        /\ cutx = None /\ posx = [n \in XNames |-> None] /\ rneg = FALSE

Live(l) == l.pv # 0 /\ now < l.exp

(***************************************************************************)
(* One client query, atomically (latency is far below the 1 s tick)        *)
(***************************************************************************)
VerStr(p, c) == <<p, c>>

Resolve ==
  \* returns [lp, lc, an, ng, rep, gp, gc]
  \* cutP / cutC: the deadline each delegation contributes to THIS resolution's request tree.  A cached delegation
  \* contributes its stored expiry (searchCache seed / resolveWithCachedNameservers); a referral observed now
  \* contributes observedAt + TTL -- under the ceiling (CutOf) in the intended resolver.
  LET haveP == Live(leaseP)
      askedRoot == ~haveP /\ pver # 0
      cutP == IF haveP THEN leaseP.exp ELSE CutOf(PTTL)
      lp1 == IF haveP THEN leaseP
             ELSE IF pver = 0 THEN None
             ELSE [exp |-> Stored(cutP), pv |-> pver, cv |-> 0]
      gp1 == IF askedRoot THEN [grantP EXCEPT ![pver] = now + GrantOf(PTTL)] ELSE grantP
  IN IF lp1.pv = 0
     THEN [lp |-> None, lc |-> None, an |-> NoAns, ng |-> now + NegTTL, rep |-> <<0, 0>>, gp |-> gp1, gc |-> grantC]
     ELSE LET sameP == Live(leaseC) /\ leaseC.pv = lp1.pv
              cNow == cver[lp1.pv]
              rawC == Min(CutOf(CTTL), cutP)          \* minCut(ancestor, observedAt + min(NS, DS))
              cutC == IF sameP THEN leaseC.exp ELSE rawC
              lc1 == IF sameP THEN leaseC
                     ELSE IF cNow = 0 THEN None
                     ELSE [exp |-> Stored(rawC), pv |-> lp1.pv, cv |-> cNow]
              askedP == ~sameP /\ cNow # 0
              gc1 == IF askedP THEN [grantC EXCEPT ![lp1.pv][cNow] = Min(now + GrantOf(CTTL), gp1[lp1.pv])] ELSE grantC
          IN IF lc1.pv = 0
             THEN \* the parent's NXDOMAIN is itself learned through p's delegation: bounded by that cut
                  [lp |-> lp1, lc |-> None, an |-> NoAns, ng |-> Min(now + NegTTL, cutP), rep |-> <<0, 0>>, gp |-> gp1, gc |-> gc1]
             ELSE LET own == now + Min(Max(cfg.childTTL, Floor), CapTTL)
                      \* the child's self-referral must NOT re-anchor the lease (validReferral)
                      lc2 == IF SelfRefReanchors /\ cfg.child # "long"
                             THEN [lc1 EXCEPT !.exp = now + 3600] ELSE lc1
                      cutA == IF SelfRefReanchors /\ cfg.child # "long" THEN now + 3600 ELSE cutC
                      cut == IF FloorWins THEN own ELSE Min(own, cutA)
                      \* ... and where it would have ended had neither referral been limited by the ceiling
                      rawA == Min(own, IF sameP THEN leaseC.exp
                                       ELSE Min(now + CTTL, IF haveP THEN leaseP.exp ELSE now + PTTL))
                  IN [lp |-> lp1, lc |-> lc2, an |-> [exp |-> cut, pv |-> lc2.pv, cv |-> lc2.cv, raw |-> rawA],
                      ng |-> neg, rep |-> <<lc2.pv, lc2.cv>>, gp |-> gp1, gc |-> gc1]

DoQuery ==
  /\ rneg' = FALSE /\ UNCHANGED <<cutx, posx>>
  /\ IF Live(ans)
     THEN /\ reply' = <<ans.pv, ans.cv>>
          /\ UNCHANGED <<leaseP, leaseC, ans, neg, grantP, grantC>>
     ELSE IF now < neg
     THEN /\ reply' = <<0, 0>>
          /\ UNCHANGED <<leaseP, leaseC, ans, neg, grantP, grantC>>
     ELSE LET r == Resolve
          IN /\ leaseP' = r.lp /\ leaseC' = r.lc /\ ans' = r.an /\ neg' = r.ng
             /\ reply' = r.rep /\ grantP' = r.gp /\ grantC' = r.gc

Query == /\ nq < MaxQueries
         /\ DoQuery /\ rat' = now
         /\ nq' = nq + 1
         /\ UNCHANGED <<cfg, now, pver, cver, nextP, nch>>

(***************************************************************************)
(* negsub: a client query for d.c.p. / a name below it.  Atomic as well,    *)
(* but a slow denial takes cfg.lat ticks: the clock moves with it.          *)
(***************************************************************************)
LiveAt(l, t) == l.pv # 0 /\ t < l.exp
CutOfAt(t, ttl) == t + (IF CeilOnCut THEN Min(ttl, Ceil) ELSE ttl)
StoredAt(t, deadline) == IF CeilOnStore THEN Min(deadline, t + Ceil) ELSE deadline

\* the descent root -> p -> c at time t from the stored leases lP / lC (the arithmetic of Resolve): the leases
\* afterwards, the cut each level contributes to the request tree, the grants
WalkAt(t, lP, lC, gP, gC) ==
  LET haveP == LiveAt(lP, t)
      cutP == IF haveP THEN lP.exp ELSE CutOfAt(t, PTTL)
      lp1 == IF haveP THEN lP
             ELSE IF pver = 0 THEN None
             ELSE [exp |-> StoredAt(t, cutP), pv |-> pver, cv |-> 0]
      gp1 == IF ~haveP /\ pver # 0 THEN [gP EXCEPT ![pver] = t + GrantOf(PTTL)] ELSE gP
  IN IF lp1.pv = 0
     THEN [lp |-> None, lc |-> None, cutP |-> 0, cutC |-> 0, gp |-> gp1, gc |-> gC]
     ELSE LET sameP == LiveAt(lC, t) /\ lC.pv = lp1.pv
              cNow == cver[lp1.pv]
              rawC == Min(CutOfAt(t, CTTL), cutP)
              lc1 == IF sameP THEN lC
                     ELSE IF cNow = 0 THEN None
                     ELSE [exp |-> StoredAt(t, rawC), pv |-> lp1.pv, cv |-> cNow]
              gc1 == IF ~sameP /\ cNow # 0 THEN [gC EXCEPT ![lp1.pv][cNow] = Min(t + GrantOf(CTTL), gp1[lp1.pv])] ELSE gC
          IN [lp |-> lp1, lc |-> lc1, cutP |-> cutP, cutC |-> IF sameP THEN lC.exp ELSE rawC, gp |-> gp1, gc |-> gc1]

ResolveX(n) ==
  LET w == WalkAt(now, leaseP, leaseC, grantP, grantC)
  IN IF w.lp.pv = 0 \/ w.lc.pv = 0
     THEN \* the root / p denies: NXDOMAIN for everything at or below c.p., bounded by p's cut (as in Resolve)
          /\ leaseP' = w.lp /\ leaseC' = None /\ grantP' = w.gp /\ grantC' = w.gc
          /\ neg' = IF w.lp.pv = 0 THEN now + NegTTL ELSE Min(now + NegTTL, w.cutP)
          /\ reply' = <<0, 0>> /\ rneg' = FALSE /\ now' = now
          /\ UNCHANGED <<cutx, posx>>
     ELSE IF Has(w.lc.cv)
     THEN /\ leaseP' = w.lp /\ leaseC' = w.lc /\ grantP' = w.gp /\ grantC' = w.gc
          /\ posx' = [posx EXCEPT ![n] = [exp |-> Min(now + Min(Max(cfg.childTTL, Floor), CapTTL), w.cutC),
                                          pv |-> w.lc.pv, cv |-> w.lc.cv]]
          /\ reply' = <<w.lc.pv, w.lc.cv>> /\ rneg' = FALSE /\ now' = now
          /\ UNCHANGED <<cutx, neg>>
     ELSE \* the copy lacks the subtree; its denial arrives at wt (real time: between wt - 1 and wt)
          LET wt == now + cfg.lat
              \* the validation after a late reply: no lease left => the descent is repeated, the referrals re-observed
              rw == IF w.lc.exp < wt THEN WalkAt(wt, w.lp, w.lc, w.gp, w.gc) ELSE w
              \* c.p.'s DNSKEY must still come from the copy that signed the denial
              valid == rw.lc.pv = w.lc.pv /\ rw.lc.cv = w.lc.cv
              \* a deadline in the past: nothing is admitted  (cutC = wt: the deadline is less than a tick ahead when
              \* the reply is written and bounds the entry; no later step sees it alive)
              exp == IF w.cutC >= wt THEN Min(wt + NegTTL, w.cutC)
                     ELSE IF CutAdmitsPast THEN wt + NegTTL ELSE 0
          IN /\ leaseP' = rw.lp /\ leaseC' = rw.lc /\ grantP' = rw.gp /\ grantC' = rw.gc
             /\ cutx' = IF valid /\ exp > wt THEN [exp |-> exp, pv |-> w.lc.pv, cv |-> w.lc.cv] ELSE None
             /\ reply' = IF valid THEN <<w.lc.pv, w.lc.cv>> ELSE NoReply   \* (else SERVFAIL: bogus)
             /\ rneg' = valid /\ now' = wt
             /\ UNCHANGED <<posx, neg>>

QueryX(n) ==
  /\ cfg.kind = "negsub" /\ nq < MaxQueries /\ now + cfg.lat <= Horizon
  /\ rat' = now /\ nq' = nq + 1
  /\ UNCHANGED <<cfg, pver, cver, nextP, nch, ans>>
  /\ IF Live(posx[n])
     THEN /\ reply' = <<posx[n].pv, posx[n].cv>> /\ rneg' = FALSE
          /\ UNCHANGED <<now, leaseP, leaseC, neg, grantP, grantC, cutx, posx>>
     ELSE IF Live(cutx)
     THEN /\ reply' = <<cutx.pv, cutx.cv>> /\ rneg' = TRUE
          /\ UNCHANGED <<now, leaseP, leaseC, neg, grantP, grantC, cutx, posx>>
     ELSE IF now < neg
     THEN /\ reply' = <<0, 0>> /\ rneg' = FALSE
          /\ UNCHANGED <<now, leaseP, leaseC, neg, grantP, grantC, cutx, posx>>
     ELSE ResolveX(n)

\* keep the name hot for one whole tick: a query now, then every 300 ms until the next tick
Hot == /\ RealTime /\ nq < MaxQueries /\ now < Horizon
       /\ DoQuery /\ rat' = now
       /\ nq' = nq + 1
       /\ now' = now + 1
       /\ UNCHANGED <<cfg, pver, cver, nextP, nch>>

Tick == /\ RealTime /\ now < Horizon
        /\ now' = now + 1
        /\ reply' = NoReply
        /\ UNCHANGED <<cfg, pver, cver, nextP, leaseP, leaseC, ans, neg, rat, nq, nch, grantP, grantC, cutx, posx, rneg>>

\* hours pass (long-lease family): nothing is in flight, the harness shifts every stored timestamp by d
Jump(d) == /\ ~RealTime /\ now + d <= Horizon
           /\ now' = now + d
           /\ reply' = NoReply
           /\ UNCHANGED <<cfg, pver, cver, nextP, leaseP, leaseC, ans, neg, rat, nq, nch, grantP, grantC, cutx, posx, rneg>>

Changed == /\ nch' = nch + 1 /\ reply' = NoReply
           /\ UNCHANGED <<cfg, now, leaseP, leaseC, ans, neg, rat, nq, grantP, grantC, cutx, posx, rneg>>

ParentWithdraw == /\ nch < MaxChanges /\ pver # 0 /\ cver[pver] # 0
                  /\ cver' = [cver EXCEPT ![pver] = 0]
                  /\ UNCHANGED <<pver, nextP>> /\ Changed

ParentRepoint == /\ nch < MaxChanges /\ pver # 0 /\ cver[pver] # 0 /\ cver[pver] < MaxP
                 /\ cver' = [cver EXCEPT ![pver] = @ + 1]
                 /\ UNCHANGED <<pver, nextP>> /\ Changed

RootWithdraw == /\ nch < MaxChanges /\ pver # 0
                /\ pver' = 0
                /\ UNCHANGED <<cver, nextP>> /\ Changed

RootRepoint == /\ nch < MaxChanges /\ pver # 0 /\ nextP <= MaxP
               /\ pver' = nextP /\ nextP' = nextP + 1
               /\ cver' = [cver EXCEPT ![nextP] = 1]
               /\ Changed

Next == Query \/ Hot \/ Tick \/ ParentWithdraw \/ ParentRepoint \/ RootWithdraw \/ RootRepoint
        \/ (\E d \in Jumps : Jump(d))
        \/ (\E n \in XNames : QueryX(n))

Spec == Init /\ [][Next]_vars

(***************************************************************************)
(* FollowsParent: data of a delegation version that is no longer the        *)
(* parents' truth is served only inside the lease the parents granted       *)
(* (min NS/DS TTL from the observation, min with the shallower cut, under   *)
(* the 12 h ceiling: grantP / grantC).                                      *)
(***************************************************************************)
Current(p, c) == p = pver /\ p # 0 /\ c = cver[p]

FollowsParent ==
  (reply # NoReply /\ reply # <<0, 0>>) =>
     LET p == reply[1] c == reply[2]
     IN Current(p, c) \/ rat < grantC[p][c]

LeaseWithinGrant ==
  /\ Live(leaseC) => leaseC.exp <= grantC[leaseC.pv][leaseC.cv]
  /\ Live(leaseP) => leaseP.exp <= grantP[leaseP.pv]
  /\ Live(ans) => ans.exp <= grantC[ans.pv][ans.cv]
  /\ Live(cutx) => cutx.exp <= grantC[cutx.pv][cutx.cv]
  /\ \A n \in XNames : Live(posx[n]) => posx[n].exp <= grantC[posx[n].pv][posx[n].cv]

TypeOK == /\ now \in 0..Horizon /\ pver \in 0..MaxP /\ nq \in 0..MaxQueries /\ nch \in 0..MaxChanges

\* the generator must reach the interesting region (checked as a must-fail in a coverage cfg)
NeverStaleWindow == ~(reply # NoReply /\ reply # <<0, 0>> /\ ~Current(reply[1], reply[2]))
\* ... and, in the long-lease family, the instant at which ONLY the ceiling has ended a stale answer (its own TTL and
\* both referral TTLs would still run) while a client query is still to come: the query that tells the intended
\* resolver from the CeilOnCut mutant
CeilTension == /\ ans.pv # 0 /\ ~Current(ans.pv, ans.cv) /\ ans.exp <= now /\ now < ans.raw
NeverCeilTension == ~(CeilTension /\ nq < MaxQueries)
\* ... and, in the denied-subtree family, a DENIAL by a copy of c.p. the parents no longer point at, served inside its
\* lease (the window in which stale negative data is legal) ...
NeverStaleDenial == ~(rneg /\ reply # NoReply /\ ~Current(reply[1], reply[2]))
\* ... and the instant the CutAdmitsPast mutant differs at: a question about the denied subtree is still to come when
\* every lease of the copy whose LATE denial (nothing admitted) was the last reply has ended, that copy is no longer
\* the parents' choice and the one that is has the name
PastLeaseTension == /\ rneg /\ reply # NoReply /\ ~Live(cutx) /\ cfg.lat > 0
                    /\ ~Current(reply[1], reply[2]) /\ pver # 0 /\ Has(cver[pver])
                    /\ grantC[reply[1]][reply[2]] <= now
NeverPastLeaseTension == ~(PastLeaseTension /\ nq < MaxQueries)
=============================================================================
