------------------------------ MODULE MC_Serve ------------------------------
(* packet / configuration families for the exhaustive configs (one cfg per family) *)
EXTENDS Serve, Json

Base == [qr |-> FALSE, opcode |-> 0, qd |-> 1, an |-> 0, rd |-> TRUE, ad |-> FALSE, cd |-> FALSE,
         qtype |-> "A", qclass |-> "IN", opt |-> "ok", do |-> FALSE, size |-> 1232,
         cookie |-> "none", nsid |-> FALSE, keepalive |-> FALSE, ecs |-> "none",
         pad |-> FALSE, unk |-> FALSE, proto |-> "udp", name |-> "own"]

With(r, f, v) == [r EXCEPT ![f] = v]

CfgPlain  == [nsid |-> FALSE, ratelimit |-> FALSE, ecs |-> "off"]
CfgAll    == [nsid : BOOLEAN, ratelimit : BOOLEAN, ecs : {"off", "on", "invalid"}]

(* admission: header / count / opcode / OPT-shape / class / type decisions *)
PktAdmission ==
  { [Base EXCEPT !.qr = a, !.opcode = b, !.qd = c, !.an = d, !.opt = e, !.qtype = f, !.qclass = g, !.proto = h, !.rd = i, !.unk = j] :
      a \in BOOLEAN, b \in {0, 2, 4}, c \in {0, 1, 2}, d \in {0, 1}, e \in OptShapes,
      f \in {"A", "unknown"}, g \in {"IN", "unknown"}, h \in {"udp", "tcp"}, i \in BOOLEAN, j \in BOOLEAN }

(* shaping: what the reply may carry given what was negotiated *)
PktShaping ==
  { [Base EXCEPT !.opt = a, !.do = b, !.ad = c, !.cd = d, !.size = e, !.nsid = f, !.keepalive = g, !.proto = h, !.qtype = i] :
      a \in {"none", "ok"}, b \in BOOLEAN, c \in BOOLEAN, d \in BOOLEAN, e \in Sizes,
      f \in BOOLEAN, g \in BOOLEAN, h \in {"udp", "tcp"}, i \in {"A", "RRSIG"} }

(* cookies and the limiter *)
PktCookies ==
  { [Base EXCEPT !.opt = a, !.cookie = b, !.proto = c, !.pad = d, !.ecs = e, !.nsid = f] :
      a \in {"none", "ok"}, b \in CookieKinds, c \in {"udp", "tcp"}, d \in BOOLEAN,
      e \in {"none", "v4_24"}, f \in BOOLEAN }

(* client subnet *)
PktEcs ==
  { [Base EXCEPT !.opt = a, !.ecs = b, !.cd = c, !.proto = d, !.do = e] :
      a \in {"none", "ok", "ver1", "dup"}, b \in EcsKinds, c \in BOOLEAN, d \in {"udp", "tcp"}, e \in BOOLEAN }

(* relay: what an upstream's message may carry in its additional section against what the client negotiated, and a
   request that arrives with two OPT records *)
PktRelay ==
  { [Base EXCEPT !.opt = a, !.ecs = b, !.cookie = c, !.proto = d, !.do = e, !.pad = f] :
      a \in {"none", "ok", "dup"}, b \in {"none", "v4_24", "v4_32"}, c \in {"none", "c8"}, d \in {"udp", "tcp"}, e \in BOOLEAN, f \in BOOLEAN }
ContentsRelay == {"pos", "nx", "ede", "upecs", "upcookie", "up2optF", "up2optL", "up2optB"}
CfgSetRelay == {[nsid |-> FALSE, ratelimit |-> FALSE, ecs |-> e] : e \in {"off", "on"}}
AsBuilt == FALSE

(* the cache ladder: two names below one parent, buffer classes around the "mid" body, both transports, both CD
   partitions, DO on and off *)
PktLadder ==
  { [Base EXCEPT !.name = a, !.opt = b, !.proto = c, !.cd = d, !.do = e] :
      a \in {"own", "sib"}, b \in {"none", "ok"}, c \in {"udp", "tcp"}, d \in BOOLEAN, e \in BOOLEAN }
ContentsLadder == {"pos", "mid", "big", "servfail", "nx", "signed"}
LadderEnv == 2
MutNoBackoff   == "nobackoff"
MutFallthrough == "fallthrough"
MutFailFirst   == "failfirst"

(* every transition of the ladder family, printed for the replay (cfg: ACTION_CONSTRAINT EmitLadderEdge; always TRUE).
   With VIEW View each distinct state is expanded once, so each edge of the state graph is printed once. *)
PN == <<"A", "nocd">>
PC == <<"A", "cd">>
LadderKey == [content |-> content, ca |-> cached[PN], cc |-> cached[PC], sa |-> sibc[PN], sc |-> sibc[PC], cut |-> cut,
              fa |-> failst[PN], fc |-> failst[PC], n |-> n, nenv |-> nenv]
EmitLadderEdge ==
  PrintT(ToJson([edge |-> "ladder", pre |-> LadderKey, post |-> LadderKey',
                 step |-> IF out'.valid
                            THEN [pkt |-> out'.pkt, content |-> out'.content, o |-> out'.wire.o, tail |-> out'.wire.tail]
                            ELSE [env |-> out'.env]]))

CfgSetPlain == {CfgPlain}
CfgSetRL == {[nsid |-> FALSE, ratelimit |-> TRUE, ecs |-> "off"], [nsid |-> TRUE, ratelimit |-> TRUE, ecs |-> "on"]}
CfgSetNsid == {CfgPlain, [nsid |-> TRUE, ratelimit |-> FALSE, ecs |-> "off"]}
CfgSetEcs == {[nsid |-> FALSE, ratelimit |-> FALSE, ecs |-> e] : e \in {"off", "on", "invalid"}}
ContentsSmall == {"pos", "nx"}
ContentsEcs == {"pos", "upecs"}
AllContents == {"pos", "signed", "nx", "nodata", "ede", "big", "servfail", "upecs", "upcookie", "cname", "cnamesplit", "panic", "hosts", "as112",
                "up2optF", "up2optL", "up2optB"}
=============================================================================
