CONSTANTS
  Packets <- PktLadder
  Configs <- CfgSetPlain
  Contents <- ContentsLadder
  MaxQueries = 3
  Reflects = FALSE
  MaxEnv <- LadderEnv
  WireMut <- MutFailFirst
INIT Init
NEXT Next
VIEW View
INVARIANTS TypeOK
PROPERTIES PathsAgree ReplyContract NeverEcsToClient OneToken
CHECK_DEADLOCK FALSE
