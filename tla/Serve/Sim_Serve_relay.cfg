CONSTANTS
  Packets <- PktRelay
  Configs <- CfgSetRelay
  Contents <- ContentsRelay
  MaxQueries = 2
  Reflects = FALSE
INIT Init
NEXT Next

INVARIANTS TypeOK

CHECK_DEADLOCK FALSE
