CONSTANTS
  Packets <- PktEcs
  Configs <- CfgSetEcs
  Contents <- ContentsEcs
  MaxQueries = 2
  Reflects = FALSE
INIT Init
NEXT Next

INVARIANTS TypeOK

CHECK_DEADLOCK FALSE
