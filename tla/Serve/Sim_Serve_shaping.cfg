CONSTANTS
  Packets <- PktShaping
  Configs <- CfgSetNsid
  Contents <- AllContents
  MaxQueries = 2
  Reflects = FALSE
INIT Init
NEXT Next

INVARIANTS TypeOK

CHECK_DEADLOCK FALSE
