------------------------------- MODULE Serve -------------------------------
(***************************************************************************)
(* One client query through the front of the default chain                 *)
(*   engine accept -> ratelimit -> edns -> cache ladder -> (tail)          *)
(* with TWO transcriptions of the entry half, as in the code:              *)
(*   WirePass : Request.ParseWire admission, RateLimit.serveWire,          *)
(*              edns.serveWire + byte-built OPT (WriteWire), cache wire    *)
(*              ladder (serveWire / serveCompositeFromWire)                *)
(*   MsgPass  : library unpack, RateLimit.ServeDNS (Msg body),             *)
(*              dnsutil.SetEdns0 + edns.ResponseWriter.WriteMsg, Msg ladder*)
(* over one abstract state (what the cache holds for the question, the     *)
(* client's cached server cookie, limiter tokens, configuration).          *)
(*                                                                         *)
(* A behaviour is a short history: Configure, then client queries, each    *)
(* served by BOTH passes from the same state; `out` records both outcomes. *)
(* PathsAgree (C05), the reply contract (C06) and the ECS rules (C19) are  *)
(* invariants / action properties over `out`.                              *)
(*                                                                         *)
(* The cache LADDER (family "ladder") is transcribed twice as well:        *)
(*   MsgLadder  : Cache.ServeDNS  exact entry > RFC 8020 subtree cut >     *)
(*                RFC 9520 cached failure (inside its back-off) > miss     *)
(*   WireLadder : Cache.serveWire  exact entry (a serve that DECLINES --   *)
(*                the body does not fit the client's buffer -- goes to the *)
(*                Msg body, never to a later rung) ;                       *)
(*                serveCompositeFromWire  cut > failure (LookupWire: the   *)
(*                same back-off test) > materialise                        *)
(* over a history that has more than one name (the behaviour's own         *)
(* question and a SIBLING whose validated NXDOMAIN proves their common     *)
(* parent gone: the cut then covers the own name's still-live entry) and   *)
(* in which time passes (Elapse: every failure back-off runs out; Recover: *)
(* the upstream answers again).  WireMut selects a mutant of the wire      *)
(* ladder (negative configs): each must violate PathsAgree.                *)
(***************************************************************************)
EXTENDS Integers, FiniteSets, Sequences, TLC

CONSTANTS Packets,     \* set of abstract packets explored by this config (records, see PktType)
          Configs,     \* set of configurations
          Contents,    \* what the upstream (tail) answers for the question
          MaxQueries,  \* client queries per behaviour
          Reflects     \* BOOLEAN: model the pre-fix CancelWithRcode (regression config only)

(* ---- abstract domains ------------------------------------------------ *)
OptShapes   == {"none", "ok", "ver1", "dup", "nonroot", "badrdlen", "extrcode"}
CookieKinds == {"none", "c8", "valid", "stale", "badlen"}
EcsKinds    == {"none", "v4_24", "v4_32", "v6_56", "fam0", "badfam"}
Sizes       == {0, 512, 1232, 4096}
ContentKinds == {"pos", "signed", "nx", "nodata", "ede", "big", "servfail",
                 "mid",              \* an RRset that fits 1232 bytes but not 512 (40 addresses): truncated only toward a plain UDP client "upecs", "upcookie", "cname",
                 "panic",            \* the handler behind the cache panics: the recovery middleware (AHEAD of edns) answers
                                     \* SERVFAIL through Chain.CancelWithRcode, outside the edns response writer
                 "cnamesplit",       \* the alias alone, validated (AD=1); its target is a second, unvalidated exchange:
                                     \* the two are cached apart and every later hit is COMPOSED (AD = AND of the pieces = 0)
                 "hosts", "as112",   \* answered ahead of the cache: hosts file entry, AS112 empty zone
                 "nxsig", "nodatasig", \* validated denials whose ONLY DNSSEC records (SOA RRSIG, NSEC + RRSIG) sit in the authority section
                 "up2optF", "up2optL", "up2optB"}
                                     \* an upstream reply whose additional section holds TWO OPT records (RFC 6891 6.1.1 forbids it, nothing
                                     \* stops a server from sending it, and the forwarder relays an upstream's additional section as it came;
                                     \* so does the resolver for negative answers): the upstream's own options (cookie, keepalive, padding,
                                     \* an ECS echo) sit in the First, the Last, or Both
LocalContent == {"hosts", "as112"}

PktType == [qr: BOOLEAN, opcode: {0, 2, 4}, qd: {0, 1, 2}, an: {0, 1}, rd: BOOLEAN,
            ad: BOOLEAN, cd: BOOLEAN, qtype: {"A", "RRSIG", "unknown"},
            qclass: {"IN", "unknown"}, opt: OptShapes, do: BOOLEAN, size: Sizes,
            cookie: CookieKinds, nsid: BOOLEAN, keepalive: BOOLEAN, ecs: EcsKinds,
            pad: BOOLEAN, unk: BOOLEAN, proto: {"udp", "tcp"},
            name: {"own", "sib"}]   \* the behaviour's question, or a sibling below the same parent (upstream: validated NXDOMAIN of the PARENT)

(* ---- switches a config may override (cfg: `MaxEnv <- ...`, `WireMut <- ...`) ---- *)
MaxEnv  == 0        \* environment steps (Elapse / Recover) per behaviour; the ladder family raises it
WireMut == "none"   \* "nobackoff": FailureCache.LookupWire forgets now.Before(retryAfter) on the exact-question entry
                    \* "fallthrough": an exact hit whose byte serve declines falls into the composite rungs
                    \* "failfirst": the composite walk asks the failure cache before the subtree cut

CfgType == [nsid: BOOLEAN, ratelimit: BOOLEAN, ecs: {"off", "on", "invalid"}]

VARIABLES cfg,        \* chosen configuration
          content,    \* what the upstream answers for this behaviour's question
          cached,     \* content class cached for the question ("" = nothing), per CD partition
          scookie,    \* does the limiter hold a server cookie for this client: "none" | "set"
          tokens,     \* limiter tokens left for this client (bounded)
          n,          \* queries so far
          sibc,       \* is the sibling's NXDOMAIN cached, per CD partition
          cut,        \* BOOLEAN: an RFC 8020 subtree cut (and the RFC 8198 proof) of the common parent is recorded
          failst,     \* RFC 9520 state of the own question per partition: "none" | "live" (inside the back-off) | "lapsed"
          nenv,       \* environment steps so far
          out         \* last query: [pkt, wire, msg]  (hidden by VIEW)

vars == <<cfg, content, cached, scookie, tokens, n, sibc, cut, failst, nenv, out>>

NoReply == [kind |-> "none"]

(* ---- engine accept (udp_engine.acceptHeader; tcp engine equivalent) -- *)
Accept(p) ==
  IF p.qr THEN "ignore"
  ELSE IF p.opcode \notin {0, 4} THEN "notimp"
  ELSE IF p.qd # 1 \/ p.an > 1 THEN "formerr"
  ELSE "ok"

(* ---- does the packet enter as a wire-born request? (Request.ParseWire) *)
HasOpt(p) == p.opt # "none"
WireEligible(p) ==
  /\ p.opcode = 0 /\ ~p.qr
  /\ p.qd = 1 /\ p.an = 0
  /\ p.opt \in {"none", "ok", "ver1"}          \* one well-formed root OPT at most, ext-rcode 0
  /\ p.cookie # "badlen"
  /\ p.ecs \notin {"badfam"}
  /\ ~p.unk                                    \* unknown option codes decode instead
(* library Unpack + SetEdns0 accepts more shapes; what it cannot decode is FORMERR at the engine *)
Decodable(p) == p.opt \notin {"badrdlen"} /\ ~(HasOpt(p) /\ p.ecs = "badfam")

(* ---- EDNS negotiation ------------------------------------------------ *)
(* the library treats only a root-owned OPT in the additional section as EDNS *)
MsgSeesOpt(p) == p.opt \in {"ok", "ver1", "dup", "extrcode", "nonroot"}   \* IsEdns0 does not look at the owner name
Clamp(sz) == IF sz < 512 THEN 512 ELSE IF sz > 1232 THEN 1232 ELSE sz
Stream(p) == p.proto = "tcp"

Neg(p, seesOpt) ==
  [noedns    |-> ~seesOpt,
   size      |-> IF Stream(p) THEN 65535 ELSE IF ~seesOpt THEN 512 ELSE Clamp(p.size),
   do        |-> seesOpt /\ p.do,
   noad      |-> p.cd \/ (~p.ad /\ ~(seesOpt /\ p.do)),
   cookie    |-> seesOpt /\ p.cookie \in {"c8", "valid", "stale"},
   nsid      |-> seesOpt /\ p.nsid /\ cfg.nsid,
   keepalive |-> seesOpt /\ p.keepalive /\ p.proto = "tcp"]

(* ---- ECS policy (dnsutil.SetEdns0 + ecs.Policy) ---------------------- *)
EcsForwarded(p, seesOpt) ==
  cfg.ecs = "on" /\ seesOpt /\ p.ecs \in {"v4_24", "v4_32", "v6_56"}
ClientSentEcs(p, seesOpt) == seesOpt /\ p.ecs # "none"

(* ---- rate limiter with cookies (both transcriptions agree by design;
        they are written out separately so TLC checks that they do) ------ *)
RLMsg(p, seesOpt) ==
  IF ~cfg.ratelimit THEN [v |-> "pass", spend |-> 0, set |-> FALSE]
  ELSE IF seesOpt /\ p.cookie \in {"c8", "valid", "stale"} THEN
         IF scookie = "none" \/ p.cookie = "valid"
           THEN [v |-> "pass", spend |-> 0, set |-> TRUE]
         ELSE IF p.proto = "udp"
           THEN IF tokens = 0 THEN [v |-> "drop", spend |-> 0, set |-> FALSE]
                ELSE [v |-> "badcookie", spend |-> 1, set |-> TRUE]
         ELSE IF tokens = 0 THEN [v |-> "drop", spend |-> 0, set |-> FALSE]
              ELSE [v |-> "pass", spend |-> 1, set |-> TRUE]
  ELSE IF tokens = 0 THEN [v |-> "drop", spend |-> 0, set |-> FALSE]
       ELSE [v |-> "pass", spend |-> 1, set |-> FALSE]

RLWire(p) == RLMsg(p, HasOpt(p))   \* serveWire reads the parsed cookie echo: same table

(* ---- cache ladder (abstract): is the question answered from cache? --- *)
Part(p) == <<p.qtype, IF p.cd THEN "cd" ELSE "nocd">>    \* the cache key: type and CD partition (one name per behaviour)
ValidQ(p) == p.qtype # "unknown" /\ p.qclass = "IN"
Cached(p) == cached[Part(p)]
AllParts == {"A", "RRSIG", "unknown"} \X {"cd", "nocd"}
ExactHit(p) == IF p.name = "sib" THEN sibc[Part(p)] ELSE Cached(p) # ""
HitBody(p)  == IF p.name = "sib" THEN "nxsig" ELSE Cached(p)
(* CD and client-subnet trees neither consume nor create shared synthesised denials *)
CutApplies(p, sentEcs) == cut /\ ~p.cd /\ ~sentEcs
FailLive(p) == p.name = "own" /\ failst[Part(p)] = "live"
(* Cache.ServeDNS (Msg body): the rungs in order *)
MsgLadder(p, sentEcs) ==
  IF ~ValidQ(p) THEN "cancel"                \* isValidQuery fails: no reply from cache, chain cancelled
  ELSE IF ~p.rd THEN "servfail-rd"           \* CancelWithRcode(SERVFAIL)
  ELSE IF ExactHit(p) THEN "hit"
  ELSE IF CutApplies(p, sentEcs) THEN "cut"  \* lookupNXDomainCut (the RFC 8198 rung answers the same names the same way)
  ELSE IF FailLive(p) THEN "failure"         \* Store.LookupFailure: only while now.Before(retryAfter)
  ELSE "miss"
(* does the stored body fit what this client can take?  (entry_wire.go wireChainMismatch on the byte path, the edns
   truncation on the Msg path) *)
Truncates(body, p, ng) ==
  p.proto = "udp" /\ ((body = "big" /\ ng.size < 65535) \/ (body = "mid" /\ ng.size < 1232))
(* FailureCache.LookupWire on the exact-question entry *)
WireFailLive(p) ==
  p.name = "own" /\ (failst[Part(p)] = "live" \/ (WireMut = "nobackoff" /\ failst[Part(p)] = "lapsed"))
(* Cache.serveWire + serveCompositeFromWire.  ECS-carrying, RD=0 and unknown-type requests never take the wire ladder;
   a rung that cannot answer from bytes sends the request to the Msg body (MsgLadder), never to a later rung *)
WireLadder(p, ng, sentEcs) ==
  IF ~ValidQ(p) \/ ~p.rd \/ sentEcs THEN MsgLadder(p, sentEcs)
  ELSE IF ExactHit(p) /\ ~(WireMut = "fallthrough" /\ Truncates(HitBody(p), p, ng))
         THEN "hit"                          \* served from bytes, or declined: the Msg body serves the same entry
  ELSE IF WireMut = "failfirst" /\ WireFailLive(p) THEN "failure"
  ELSE IF cut /\ ~p.cd THEN "cut"            \* serveCutHitFromWire
  ELSE IF WireFailLive(p) THEN "failure"     \* serveFailureFromWire (or, witness in doubt, the Msg body: same answer)
  ELSE MsgLadder(p, sentEcs)                 \* composite miss: materialise, the Msg body walks its own ladder

(* ---- the OPT records of a relayed upstream message -------------------- *)
(* first to last; TRUE = the record carries options of the upstream's exchange with us *)
UpOpts(c) == CASE c = "up2optF" -> <<TRUE, FALSE>>
               [] c = "up2optL" -> <<FALSE, TRUE>>
               [] c = "up2optB" -> <<TRUE, TRUE>>
               [] c \in {"upcookie", "upecs"} -> <<TRUE>>
               [] c = "ede" -> <<FALSE>>
               [] OTHER -> <<>>
(* edns.ResponseWriter.WriteMsg toward a client that negotiated EDNS.  The contract needs ONE sanitised OPT.
   As built (SingleOpt overridden to FALSE in MC_Serve_twoopt_asbuilt.cfg, which must FAIL) only the record
   IsEdns0() selects - the LAST one - is rebuilt (keepEDE / stripECS / stripKeepalive); every other OPT record of
   the message leaves with the options it came with.  A client without EDNS gets ClearOPT: all of them go. *)
SingleOpt == TRUE
ShapeOpts(ng, up) ==
  IF ng.noedns THEN <<>>
  ELSE IF up = <<>> \/ SingleOpt THEN <<FALSE>>
  ELSE [i \in 1..Len(up) |-> IF i = Len(up) THEN FALSE ELSE up[i]]
SeqAny(sq) == \E i \in 1..Len(sq) : sq[i]

(* dnsutil.SetEdns0 on a decoded request: every client option is dropped from "the" OPT, the clamped subnet is put
   back when the policy allows.  A request with two OPT records (opt = "dup"; both hold the client's options) has
   only the LAST one normalised as built (StripsAllOpts overridden to FALSE in MC_Serve_dupreq_asbuilt.cfg, which
   must FAIL): the first one travels on inside req.Extra to the resolver / forwarder and so to the upstream. *)
StripsAllOpts == TRUE
HasClientOption(p) == p.cookie # "none" \/ p.ecs # "none" \/ p.nsid \/ p.keepalive \/ p.pad \/ p.unk
UpLeak(p) == ~StripsAllOpts /\ p.opt = "dup" /\ HasClientOption(p)

(* ---- reply shaping --------------------------------------------------- *)
BodyHasDnssec(c) == c \in {"signed", "cnamesplit", "nxsig", "nodatasig"}
BodyValidated(c) == c \in {"signed", "nxsig", "nodatasig"}
ReplyUp(p, ng, rcodeClass, body, up) ==
  [kind      |-> "reply",
   rcode     |-> rcodeClass,
   qecho     |-> TRUE,
   opt       |-> ~ng.noedns,
   do        |-> ng.do,
   cookie    |-> ~ng.noedns /\ ng.cookie,
   nsid      |-> ~ng.noedns /\ ng.nsid,
   keepalive |-> ~ng.noedns /\ ng.keepalive,
   nopt      |-> Len(ShapeOpts(ng, up)),
   ecs       |-> SeqAny(ShapeOpts(ng, up)),          \* the foreign record of the scripted upstream holds an ECS option too
   foreign   |-> SeqAny(ShapeOpts(ng, up)),
   dnssec    |-> BodyHasDnssec(body) /\ (ng.do \/ p.qtype = "RRSIG"),
   ad        |-> BodyValidated(body) /\ ~ng.noad,
   tc        |-> Truncates(body, p, ng),
   body      |-> body]
(* a reply that is not a relayed upstream message (cache hit, local answer, cancel inside the edns writer) *)
Reply(p, ng, rcodeClass, body, fromCancel) == ReplyUp(p, ng, rcodeClass, body, <<>>)

(* Chain.CancelWithRcode as called OUTSIDE the edns writer (ratelimit BADCOOKIE, edns BADVERS).
   It used to alias the request's additional section (m.Extra = req.Extra) and so reflected the
   client's subnet / padding / other options; since the "fix:" commit it builds its own OPT with
   size, DO and the cookie option only.  `Reflects` keeps the old behaviour reachable for the
   regression config MC_Serve_regress (which must FAIL ReplyContract). *)
RawCancel(p, rc, seesOpt, ecsLeft) ==
  [kind |-> "reply", rcode |-> rc, qecho |-> TRUE, opt |-> seesOpt, do |-> FALSE,
   cookie |-> (rc = "badcookie"), nsid |-> FALSE, keepalive |-> FALSE, nopt |-> IF seesOpt THEN 1 ELSE 0,
   ecs |-> Reflects /\ ecsLeft, foreign |-> Reflects /\ (rc = "badcookie" /\ (p.pad \/ p.nsid \/ p.keepalive)),
   dnssec |-> FALSE, ad |-> FALSE, tc |-> FALSE, body |-> "none"]

BareHeader(rc) == [kind |-> "bare", rcode |-> rc]

RcodeOf(c) == CASE c \in {"nx", "as112", "nxsig"} -> "nxdomain" [] c = "servfail" -> "servfail" [] OTHER -> "noerror"

R(o, rl, tail, store) == [o |-> o, spend |-> rl.spend, set |-> rl.set, tail |-> tail, store |-> store, upleak |-> FALSE]
(* the request went on to the upstream: did a client-supplied option travel with it? *)
RUp(p, o, rl, store) == [o |-> o, spend |-> rl.spend, set |-> rl.set, tail |-> TRUE, store |-> store, upleak |-> UpLeak(p)]
Nothing == [spend |-> 0, set |-> FALSE]

(* what a miss stores: failures and ECS-scoped material are not shared cache content here.  "upecs" echoes the
   subnet of the upstream query with SCOPE = SOURCE: scoped material only when a subnet was forwarded; an upstream
   that saw none answers without the option and the answer is stored under the shared key like any other *)
Stores(c) == IF c \in {"servfail", "upecs", "panic"} THEN "" ELSE c
StoresFor(p, c, ng) == IF c = "upecs" /\ ~EcsForwarded(p, ~ng.noedns) THEN c ELSE Stores(c)

(* everything behind the ladder is shared by the two passes: a rung answers from bytes or from the Msg body, the
   body is the same; `ld` is the rung the pass's own ladder stopped at *)
Behind(p, c, ng, rl, ld) ==
  CASE c \in LocalContent /\ p.qclass = "IN" /\ p.qtype # "unknown"
                          -> R(Reply(p, ng, RcodeOf(c), c, FALSE), rl, FALSE, "")   \* hostsfile / as112 answer before the cache
    [] ld = "cancel"      -> R(NoReply, rl, FALSE, "")
    [] ld = "servfail-rd" -> R(Reply(p, ng, "servfail", "none", TRUE), rl, FALSE, "")
    [] ld = "hit"         -> R(Reply(p, ng, RcodeOf(HitBody(p)), HitBody(p), FALSE), rl, FALSE, "")
    [] ld = "cut"         -> R(Reply(p, ng, "nxdomain", "nxsig", FALSE), rl, FALSE, "")   \* synthesised from the recorded proof
    [] ld = "failure"     -> R(Reply(p, ng, "servfail", "failure", FALSE), rl, FALSE, "") \* SERVFAIL + EDE 13, no upstream
    [] p.name = "sib"     -> R(Reply(p, ng, "nxdomain", "nxsig", FALSE), rl, TRUE, "cutnx")
    [] c = "panic"        -> RUp(p, RawCancel(p, "servfail", ~ng.noedns, FALSE), rl, "")   \* OPT only if the CLIENT sent one
    [] OTHER              -> RUp(p, ReplyUp(p, ng, RcodeOf(c), c, UpOpts(c)), rl, StoresFor(p, c, ng))   \* the miss: the upstream's message is relayed

(* the decoded pass, after the engine accepted the header *)
MsgPass(p, c) ==
  LET sees == MsgSeesOpt(p)
      rl == RLMsg(p, sees)
      ng == Neg(p, sees)
  IN IF ~Decodable(p) THEN R(BareHeader("formerr"), Nothing, FALSE, "")
     ELSE IF rl.v = "drop" THEN R(NoReply, Nothing, FALSE, "")
     ELSE IF rl.v = "badcookie" THEN R(RawCancel(p, "badcookie", sees, ClientSentEcs(p, sees)), rl, FALSE, "")
     ELSE IF p.opcode # 0 THEN R(BareHeader("notimp"), rl, FALSE, "")
     ELSE IF sees /\ p.opt = "ver1" THEN R(RawCancel(p, "badvers", TRUE, EcsForwarded(p, sees)), rl, FALSE, "")
     ELSE Behind(p, c, ng, rl, MsgLadder(p, ClientSentEcs(p, sees)))

(* the wire pass: ParseWire refuses => ServeRaw decodes and takes the Msg entry *)
WirePass(p, c) ==
  IF ~WireEligible(p) THEN MsgPass(p, c)
  ELSE LET rl == RLWire(p)
           ng == Neg(p, HasOpt(p))
       IN IF rl.v = "drop" THEN R(NoReply, Nothing, FALSE, "")
          ELSE IF rl.v = "badcookie" THEN R(RawCancel(p, "badcookie", TRUE, ClientSentEcs(p, TRUE)), rl, FALSE, "")
          ELSE IF p.opt = "ver1" THEN R(RawCancel(p, "badvers", TRUE, EcsForwarded(p, TRUE)), rl, FALSE, "")
          ELSE Behind(p, c, ng, rl, WireLadder(p, ng, ClientSentEcs(p, TRUE)))

(* ---- behaviour ------------------------------------------------------- *)
Init ==
  /\ cfg \in Configs
  /\ content \in Contents
  /\ cached = [x \in {"A", "RRSIG", "unknown"} \X {"cd", "nocd"} |-> ""]
  /\ scookie = "none"
  /\ tokens = 2
  /\ n = 0
  /\ sibc = [x \in AllParts |-> FALSE]
  /\ cut = FALSE
  /\ failst = [x \in AllParts |-> "none"]
  /\ nenv = 0
  /\ out = [valid |-> FALSE]

Query(p) ==
  LET c == content IN
  /\ n < MaxQueries
  /\ LET acc == Accept(p) IN
     IF acc = "ignore" THEN
        /\ out' = [valid |-> TRUE, pkt |-> p, acc |-> acc, content |-> c, wire |-> R(NoReply, Nothing, FALSE, ""), msg |-> R(NoReply, Nothing, FALSE, "")]
        /\ UNCHANGED <<cached, scookie, tokens, sibc, cut, failst>>
     ELSE IF acc \in {"notimp", "formerr"} THEN
        /\ out' = [valid |-> TRUE, pkt |-> p, acc |-> acc, content |-> c, wire |-> R(BareHeader(acc), Nothing, FALSE, ""), msg |-> R(BareHeader(acc), Nothing, FALSE, "")]
        /\ UNCHANGED <<cached, scookie, tokens, sibc, cut, failst>>
     ELSE
        LET wr == WirePass(p, c)
            mr == MsgPass(p, c) IN
        /\ out' = [valid |-> TRUE, pkt |-> p, acc |-> acc, content |-> c, wire |-> wr, msg |-> mr]
        /\ tokens' = tokens - mr.spend
        /\ scookie' = IF mr.set THEN "set" ELSE scookie
        /\ cached' = IF mr.store \notin {"", "cutnx"} THEN [cached EXCEPT ![Part(p)] = mr.store] ELSE cached
        \* the sibling's validated NXDOMAIN: cached under its own key; the proof is published as a cut of the parent
        \* unless the tree carried CD or a client subnet
        /\ sibc' = IF mr.store = "cutnx" THEN [sibc EXCEPT ![Part(p)] = TRUE] ELSE sibc
        /\ cut' = (cut \/ (mr.store = "cutnx" /\ ~p.cd /\ ~ClientSentEcs(p, MsgSeesOpt(p))))
        \* RFC 9520: an upstream SERVFAIL for the own question starts (renews) its back-off; a useful answer clears it
        /\ failst' = IF mr.tail /\ p.name = "own" /\ c = "servfail" THEN [failst EXCEPT ![Part(p)] = "live"]
                      ELSE IF mr.store \notin {"", "cutnx"} THEN [failst EXCEPT ![Part(p)] = "none"]
                      ELSE failst
  /\ n' = n + 1
  /\ UNCHANGED <<cfg, content, nenv>>

(* ---- environment ------------------------------------------------------ *)
(* time passes: every running back-off runs out (answers live far longer than a back-off) *)
Elapse ==
  /\ nenv < MaxEnv /\ \E x \in AllParts : failst[x] = "live"
  /\ failst' = [x \in AllParts |-> IF failst[x] = "live" THEN "lapsed" ELSE failst[x]]
  /\ nenv' = nenv + 1
  /\ out' = [valid |-> FALSE, env |-> "elapse"]
  /\ UNCHANGED <<cfg, content, cached, scookie, tokens, n, sibc, cut>>
(* the failing upstream answers again *)
Recover ==
  /\ nenv < MaxEnv /\ content = "servfail"
  /\ content' = "pos"
  /\ nenv' = nenv + 1
  /\ out' = [valid |-> FALSE, env |-> "recover"]
  /\ UNCHANGED <<cfg, cached, scookie, tokens, n, sibc, cut, failst>>

Next == (\E p \in Packets : Query(p)) \/ Elapse \/ Recover

Spec == Init /\ [][Next]_vars

(* ------------------------------ properties ---------------------------- *)
Served == out.valid
P == out.pkt

(* C05: which path serves a query is unobservable -- reply AND side effects *)
PathsAgree == [][out'.valid => out'.wire = out'.msg]_vars

(* C06 on every reply either pass produces *)
Full(o) == o.kind = "reply"
Contract(p, o) ==
  /\ o.kind = "reply" =>
       /\ o.qecho
       /\ (o.opt => HasOpt(p))                                  \* no OPT unless the query carried one
       /\ (o.dnssec => (p.do /\ HasOpt(p)) \/ p.qtype = "RRSIG")   \* no DNSSEC RRs unless DO or RRSIG asked
       /\ (o.ad => ~p.cd /\ ((p.do /\ HasOpt(p)) \/ p.ad))          \* AD discipline
       /\ ~o.ecs                                                \* client subnet never reflected
       /\ ~o.foreign                                            \* foreign options never reflected (in ANY OPT record of the reply)
       /\ (o.cookie => p.cookie \in {"c8", "valid", "stale"})  \* server cookie only against a client cookie
       /\ (o.keepalive => p.keepalive /\ p.proto = "tcp")
  /\ (p.qr => o.kind = "none")                                  \* responses are never answered
  /\ (~p.qr /\ p.opcode # 0 =>                                  \* non-query opcodes: NOTIMP (FORMERR if the counts are bad too)
        o.kind = "none" \/ (o.kind = "bare" /\ (o.rcode = "notimp" \/ (o.rcode = "formerr" /\ (p.qd # 1 \/ p.an > 1 \/ ~Decodable(p))))))

ReplyContract ==
  [][out'.valid => Contract(out'.pkt, out'.wire.o) /\ Contract(out'.pkt, out'.msg.o)]_vars

(* the two known CancelWithRcode reflections are excluded from the packets of
   the *Clean configs; ReplyContractKnown states the contract without the two
   clauses they break, so the rest of the contract is still checked there *)

(* C19 (reply side): no ECS option is ever returned to a client *)
NeverEcsToClient ==
  [][out'.valid =>
       (out'.wire.o.kind = "reply" => ~out'.wire.o.ecs) /\ (out'.msg.o.kind = "reply" => ~out'.msg.o.ecs)]_vars

(* C19 (upstream side): every client-supplied option is removed before any upstream query (the clamped subnet the
   policy re-attaches is not client-supplied material in this sense and is judged by Ecs.tla) *)
NoClientOptionUpstream ==
  [][out'.valid => ~out'.wire.upleak /\ ~out'.msg.upleak]_vars

(* RFC 6891 6.1.1: an OPT record is the only one of its message.  The C06 statement does not say so in as many words
   ("no OPT unless the query carried one"), so a reply with two harmless OPT records is reported as an observation
   by the replay, not as a verdict; in the model it is an invariant of the repaired writer. *)
AtMostOneOpt ==
  [][out'.valid => (out'.wire.o.kind = "reply" => out'.wire.o.nopt <= 1) /\ (out'.msg.o.kind = "reply" => out'.msg.o.nopt <= 1)]_vars

(* one limiter token per question at most, same on both passes *)
OneToken == [][out'.valid => out'.wire.spend <= 1 /\ out'.wire.spend = out'.msg.spend]_vars

TypeOK == /\ tokens \in 0..2 /\ n \in 0..MaxQueries /\ nenv \in 0..MaxEnv /\ cut \in BOOLEAN
          /\ failst \in [AllParts -> {"none", "live", "lapsed"}] /\ sibc \in [AllParts -> BOOLEAN]

View == <<cfg, content, cached, scookie, tokens, n, sibc, cut, failst, nenv>>
=============================================================================
