CONSTANTS
  Packets <- PktLadder
  Configs <- CfgSetPlain
  Contents <- ContentsLadder
  MaxQueries = 4
  Reflects = FALSE
  MaxEnv <- LadderEnv
INIT Init
NEXT Next
VIEW View
ACTION_CONSTRAINT EmitLadderEdge
INVARIANTS TypeOK
PROPERTIES PathsAgree ReplyContract NeverEcsToClient OneToken
CHECK_DEADLOCK FALSE
