CONSTANTS
  Packets <- PktRelay
  Configs <- CfgSetRelay
  Contents <- ContentsRelay
  MaxQueries = 2
  Reflects = FALSE
INIT Init
NEXT Next
VIEW View
INVARIANTS TypeOK
PROPERTIES PathsAgree ReplyContract NeverEcsToClient OneToken NoClientOptionUpstream AtMostOneOpt
CHECK_DEADLOCK FALSE
