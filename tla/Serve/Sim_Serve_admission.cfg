CONSTANTS
  Packets <- PktAdmission
  Configs <- CfgSetPlain
  Contents <- ContentsSmall
  MaxQueries = 2
  Reflects = FALSE
INIT Init
NEXT Next

INVARIANTS TypeOK

CHECK_DEADLOCK FALSE
