CONSTANTS
  Packets <- PktRelay
  Configs <- CfgSetRelay
  Contents <- ContentsRelay
  MaxQueries = 2
  Reflects = FALSE
  SingleOpt <- AsBuilt
INIT Init
NEXT Next
VIEW View
INVARIANTS TypeOK
PROPERTIES ReplyContract
CHECK_DEADLOCK FALSE
