CONSTANTS
  Packets <- PktCookies
  Configs <- CfgSetRL
  Contents <- ContentsSmall
  MaxQueries = 3
  Reflects = FALSE
INIT Init
NEXT Next

INVARIANTS TypeOK

CHECK_DEADLOCK FALSE
