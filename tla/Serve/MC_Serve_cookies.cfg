CONSTANTS
  Packets <- PktCookies
  Configs <- CfgSetRL
  Contents <- ContentsSmall
  MaxQueries = 3
  Reflects = FALSE
INIT Init
NEXT Next
VIEW View
INVARIANTS TypeOK
PROPERTIES PathsAgree ReplyContract NeverEcsToClient OneToken NoClientOptionUpstream AtMostOneOpt
CHECK_DEADLOCK FALSE
