CONSTANTS
  Packets <- PktEcs
  Configs <- CfgSetEcs
  Contents <- ContentsEcs
  MaxQueries = 2
  Reflects = FALSE
INIT Init
NEXT Next
VIEW View
INVARIANTS TypeOK
PROPERTIES PathsAgree ReplyContract NeverEcsToClient OneToken NoClientOptionUpstream AtMostOneOpt
CHECK_DEADLOCK FALSE
