CONSTANTS
  Packets <- PktRelay
  Configs <- CfgSetRelay
  Contents <- ContentsRelay
  MaxQueries = 2
  Reflects = FALSE
  StripsAllOpts <- AsBuilt
INIT Init
NEXT Next
VIEW View
INVARIANTS TypeOK
PROPERTIES NoClientOptionUpstream
CHECK_DEADLOCK FALSE
