CONSTANTS
  NF = 2  D = 2  CapSmall = 1  CapLarge = 1
  Kinds <- KAnswer
  Sizes <- SAll
  Opts <- OPlain
  FlushOnWait = TRUE  FlushBeforeDirect = TRUE  ResetSlot = TRUE
  Stall = TRUE  TimeoutSticky = FALSE
SPECIFICATION Spec
INVARIANTS TypeOK WholeInOrderOnePerQuery StreamEndsAtFailedWrite ReplyOptIsOwn ClassFits TokenConservation
CHECK_DEADLOCK FALSE
