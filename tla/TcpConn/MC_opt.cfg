CONSTANTS
  NF = 2  D = 2  CapSmall = 1  CapLarge = 1
  Kinds <- KOpt
  Sizes <- SSmall
  Opts <- OAll
  FlushOnWait = TRUE  FlushBeforeDirect = TRUE  ResetSlot = TRUE
  Stall = FALSE  TimeoutSticky = TRUE
SPECIFICATION Spec
INVARIANTS TypeOK WholeInOrderOnePerQuery StreamEndsAtFailedWrite ReplyOptIsOwn SlotIsZeroBetweenRequests NothingHeldWhileBlocked ClassFits TokenConservation ClosedIsClean
CHECK_DEADLOCK FALSE
