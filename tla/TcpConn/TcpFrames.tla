----------------------------- MODULE TcpFrames -----------------------------
(* Frame vocabulary shared by TcpConn.tla and Trace_TcpConn.tla. *)
EXTENDS Naturals, Sequences
Answerable(k) == k \in {"answer", "reject"}
IsPrefix(a, b) == Len(a) <= Len(b) /\ \A i \in 1..Len(a) : a[i] = b[i]
=============================================================================
