----------------------------- MODULE TcpFrames -----------------------------
(* Frame vocabulary shared by TcpConn.tla and Trace_TcpConn.tla. *)
EXTENDS Naturals, Sequences
Answerable(k) == k \in {"answer", "reject"}
IsPrefix(a, b) == Len(a) <= Len(b) /\ \A i \in 1..Len(a) : a[i] = b[i]

(* Reply size classes against a drain buffer of d units (server/tcp_stream.go *)
(* stage, tcpDrainSize = 8 KiB):                                             *)
(*   small  staged behind whatever is held (d of them fill the buffer)       *)
(*   large  fits the buffer only when it is empty: staged after a flush      *)
(*   huge   larger than the whole buffer: written on its own                 *)
SizeClasses == {"small", "large", "huge"}
Sz(z, d) == CASE z = "small" -> 1 [] z = "large" -> d [] z = "huge" -> d + 1
RECURSIVE Held(_, _)
Held(dr, d) == IF dr = <<>> THEN 0 ELSE Sz(Head(dr).sz, d) + Held(Tail(dr), d)

(* What EDNS a query carried: no OPT, an OPT without a cookie, an OPT with a *)
(* client cookie unique to the query.                                        *)
OptKinds == {"none", "plain", "cookie"}
=============================================================================
