---------------------------- MODULE MC_TcpConn ----------------------------
EXTENDS TcpConn
KAll == {"answer", "silent", "reject", "panic", "short"}
KQuick == {"answer", "silent", "panic", "short"}
=============================================================================
