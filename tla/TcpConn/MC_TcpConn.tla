---------------------------- MODULE MC_TcpConn ----------------------------
EXTENDS TcpConn
KAll == {"answer", "silent", "reject", "panic", "short"}
KQuick == {"answer", "silent", "panic", "short"}
KOpt == {"answer", "silent", "panic"}
KStall == {"answer", "silent", "short"}
KAnswer == {"answer"}
SAll == SizeClasses
SSmall == {"small"}
SSmallHuge == {"small", "huge"}
OAll == OptKinds
OPlain == {"plain"}
=============================================================================
