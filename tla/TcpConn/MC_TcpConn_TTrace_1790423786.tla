---- MODULE MC_TcpConn_TTrace_1790423786 ----
EXTENDS MC_TcpConn, Sequences, TLCExt, Toolbox, Naturals, TLC

_expression ==
    LET MC_TcpConn_TEExpression == INSTANCE MC_TcpConn_TEExpression
    IN MC_TcpConn_TEExpression!expression
----

_trace ==
    LET MC_TcpConn_TETrace == INSTANCE MC_TcpConn_TETrace
    IN MC_TcpConn_TETrace!trace
----

_inv ==
    ~(
        TLCGet("level") = Len(_TETrace)
        /\
        cgone = (FALSE)
        /\
        nsent = (1)
        /\
        cstall = (TRUE)
        /\
        hp = (FALSE)
        /\
        envHeld = ([small |-> 0, large |-> 0])
        /\
        slot = ([small |-> 0, large |-> 0])
        /\
        fill = (<<>>)
        /\
        drain = (<<>>)
        /\
        wireOut = (<<>>)
        /\
        tok = ([small |-> 1, large |-> 1])
        /\
        hist = (<<[cls |-> "small", kind |-> "answer", sz |-> "small", opt |-> "plain", id |-> 1, ck |-> 0]>>)
        /\
        pc = ("exit")
        /\
        werr = (FALSE)
        /\
        job = ("none")
        /\
        net = (<<>>)
    )
----

_init ==
    /\ envHeld = _TETrace[1].envHeld
    /\ werr = _TETrace[1].werr
    /\ cstall = _TETrace[1].cstall
    /\ job = _TETrace[1].job
    /\ cgone = _TETrace[1].cgone
    /\ pc = _TETrace[1].pc
    /\ tok = _TETrace[1].tok
    /\ slot = _TETrace[1].slot
    /\ fill = _TETrace[1].fill
    /\ net = _TETrace[1].net
    /\ hist = _TETrace[1].hist
    /\ drain = _TETrace[1].drain
    /\ hp = _TETrace[1].hp
    /\ nsent = _TETrace[1].nsent
    /\ wireOut = _TETrace[1].wireOut
----

_next ==
    /\ \E i,j \in DOMAIN _TETrace:
        /\ \/ /\ j = i + 1
              /\ i = TLCGet("level")
        /\ envHeld  = _TETrace[i].envHeld
        /\ envHeld' = _TETrace[j].envHeld
        /\ werr  = _TETrace[i].werr
        /\ werr' = _TETrace[j].werr
        /\ cstall  = _TETrace[i].cstall
        /\ cstall' = _TETrace[j].cstall
        /\ job  = _TETrace[i].job
        /\ job' = _TETrace[j].job
        /\ cgone  = _TETrace[i].cgone
        /\ cgone' = _TETrace[j].cgone
        /\ pc  = _TETrace[i].pc
        /\ pc' = _TETrace[j].pc
        /\ tok  = _TETrace[i].tok
        /\ tok' = _TETrace[j].tok
        /\ slot  = _TETrace[i].slot
        /\ slot' = _TETrace[j].slot
        /\ fill  = _TETrace[i].fill
        /\ fill' = _TETrace[j].fill
        /\ net  = _TETrace[i].net
        /\ net' = _TETrace[j].net
        /\ hist  = _TETrace[i].hist
        /\ hist' = _TETrace[j].hist
        /\ drain  = _TETrace[i].drain
        /\ drain' = _TETrace[j].drain
        /\ hp  = _TETrace[i].hp
        /\ hp' = _TETrace[j].hp
        /\ nsent  = _TETrace[i].nsent
        /\ nsent' = _TETrace[j].nsent
        /\ wireOut  = _TETrace[i].wireOut
        /\ wireOut' = _TETrace[j].wireOut

\* Uncomment the ASSUME below to write the states of the error trace
\* to the given file in Json format. Note that you can pass any tuple
\* to `JsonSerialize`. For example, a sub-sequence of _TETrace.
    \* ASSUME
    \*     LET J == INSTANCE Json
    \*         IN J!JsonSerialize("MC_TcpConn_TTrace_1790423786.json", _TETrace)

=============================================================================

 Note that you can extract this module `MC_TcpConn_TEExpression`
  to a dedicated file to reuse `expression` (the module in the 
  dedicated `MC_TcpConn_TEExpression.tla` file takes precedence 
  over the module `MC_TcpConn_TEExpression` below).

---- MODULE MC_TcpConn_TEExpression ----
EXTENDS MC_TcpConn, Sequences, TLCExt, Toolbox, Naturals, TLC

expression == 
    [
        \* To hide variables of the `MC_TcpConn` spec from the error trace,
        \* remove the variables below.  The trace will be written in the order
        \* of the fields of this record.
        envHeld |-> envHeld
        ,werr |-> werr
        ,cstall |-> cstall
        ,job |-> job
        ,cgone |-> cgone
        ,pc |-> pc
        ,tok |-> tok
        ,slot |-> slot
        ,fill |-> fill
        ,net |-> net
        ,hist |-> hist
        ,drain |-> drain
        ,hp |-> hp
        ,nsent |-> nsent
        ,wireOut |-> wireOut
        
        \* Put additional constant-, state-, and action-level expressions here:
        \* ,_stateNumber |-> _TEPosition
        \* ,_envHeldUnchanged |-> envHeld = envHeld'
        
        \* Format the `envHeld` variable as Json value.
        \* ,_envHeldJson |->
        \*     LET J == INSTANCE Json
        \*     IN J!ToJson(envHeld)
        
        \* Lastly, you may build expressions over arbitrary sets of states by
        \* leveraging the _TETrace operator.  For example, this is how to
        \* count the number of times a spec variable changed up to the current
        \* state in the trace.
        \* ,_envHeldModCount |->
        \*     LET F[s \in DOMAIN _TETrace] ==
        \*         IF s = 1 THEN 0
        \*         ELSE IF _TETrace[s].envHeld # _TETrace[s-1].envHeld
        \*             THEN 1 + F[s-1] ELSE F[s-1]
        \*     IN F[_TEPosition - 1]
    ]

=============================================================================



Parsing and semantic processing can take forever if the trace below is long.
 In this case, it is advised to uncomment the module below to deserialize the
 trace from a generated binary file.

\*
\*---- MODULE MC_TcpConn_TETrace ----
\*EXTENDS MC_TcpConn, IOUtils, TLC
\*
\*trace == IODeserialize("MC_TcpConn_TTrace_1790423786.bin", TRUE)
\*
\*=============================================================================
\*

---- MODULE MC_TcpConn_TETrace ----
EXTENDS MC_TcpConn, TLC

trace == 
    <<
    ([cgone |-> FALSE,nsent |-> 0,cstall |-> FALSE,hp |-> FALSE,envHeld |-> [small |-> 0, large |-> 0],slot |-> [small |-> 0, large |-> 0],fill |-> <<>>,drain |-> <<>>,wireOut |-> <<>>,tok |-> [small |-> 1, large |-> 1],hist |-> <<>>,pc |-> "top",werr |-> FALSE,job |-> "none",net |-> <<>>]),
    ([cgone |-> FALSE,nsent |-> 1,cstall |-> FALSE,hp |-> FALSE,envHeld |-> [small |-> 0, large |-> 0],slot |-> [small |-> 0, large |-> 0],fill |-> <<>>,drain |-> <<>>,wireOut |-> <<>>,tok |-> [small |-> 1, large |-> 1],hist |-> <<>>,pc |-> "top",werr |-> FALSE,job |-> "none",net |-> <<[cls |-> "small", kind |-> "answer", sz |-> "small", opt |-> "plain", id |-> 1, ck |-> 0]>>]),
    ([cgone |-> FALSE,nsent |-> 1,cstall |-> TRUE,hp |-> FALSE,envHeld |-> [small |-> 0, large |-> 0],slot |-> [small |-> 0, large |-> 0],fill |-> <<>>,drain |-> <<>>,wireOut |-> <<>>,tok |-> [small |-> 1, large |-> 1],hist |-> <<>>,pc |-> "top",werr |-> FALSE,job |-> "none",net |-> <<[cls |-> "small", kind |-> "answer", sz |-> "small", opt |-> "plain", id |-> 1, ck |-> 0]>>]),
    ([cgone |-> FALSE,nsent |-> 1,cstall |-> TRUE,hp |-> FALSE,envHeld |-> [small |-> 0, large |-> 0],slot |-> [small |-> 0, large |-> 0],fill |-> <<[whole |-> TRUE, f |-> [cls |-> "small", kind |-> "answer", sz |-> "small", opt |-> "plain", id |-> 1, ck |-> 0]]>>,drain |-> <<>>,wireOut |-> <<>>,tok |-> [small |-> 1, large |-> 1],hist |-> <<>>,pc |-> "top",werr |-> FALSE,job |-> "none",net |-> <<>>]),
    ([cgone |-> FALSE,nsent |-> 1,cstall |-> TRUE,hp |-> FALSE,envHeld |-> [small |-> 0, large |-> 0],slot |-> [small |-> 0, large |-> 0],fill |-> <<[whole |-> TRUE, f |-> [cls |-> "small", kind |-> "answer", sz |-> "small", opt |-> "plain", id |-> 1, ck |-> 0]]>>,drain |-> <<>>,wireOut |-> <<>>,tok |-> [small |-> 1, large |-> 1],hist |-> <<>>,pc |-> "prefix",werr |-> FALSE,job |-> "none",net |-> <<>>]),
    ([cgone |-> FALSE,nsent |-> 1,cstall |-> TRUE,hp |-> FALSE,envHeld |-> [small |-> 0, large |-> 0],slot |-> [small |-> 0, large |-> 0],fill |-> <<[whole |-> TRUE, f |-> [cls |-> "small", kind |-> "answer", sz |-> "small", opt |-> "plain", id |-> 1, ck |-> 0]]>>,drain |-> <<>>,wireOut |-> <<>>,tok |-> [small |-> 1, large |-> 1],hist |-> <<>>,pc |-> "class",werr |-> FALSE,job |-> "none",net |-> <<>>]),
    ([cgone |-> FALSE,nsent |-> 1,cstall |-> TRUE,hp |-> FALSE,envHeld |-> [small |-> 0, large |-> 0],slot |-> [small |-> 0, large |-> 0],fill |-> <<[whole |-> TRUE, f |-> [cls |-> "small", kind |-> "answer", sz |-> "small", opt |-> "plain", id |-> 1, ck |-> 0]]>>,drain |-> <<>>,wireOut |-> <<>>,tok |-> [small |-> 1, large |-> 1],hist |-> <<>>,pc |-> "acquire",werr |-> FALSE,job |-> "none",net |-> <<>>]),
    ([cgone |-> FALSE,nsent |-> 1,cstall |-> TRUE,hp |-> FALSE,envHeld |-> [small |-> 0, large |-> 0],slot |-> [small |-> 0, large |-> 0],fill |-> <<[whole |-> TRUE, f |-> [cls |-> "small", kind |-> "answer", sz |-> "small", opt |-> "plain", id |-> 1, ck |-> 0]]>>,drain |-> <<>>,wireOut |-> <<>>,tok |-> [small |-> 0, large |-> 1],hist |-> <<>>,pc |-> "body",werr |-> FALSE,job |-> "small",net |-> <<>>]),
    ([cgone |-> FALSE,nsent |-> 1,cstall |-> TRUE,hp |-> FALSE,envHeld |-> [small |-> 0, large |-> 0],slot |-> [small |-> 0, large |-> 0],fill |-> <<[whole |-> TRUE, f |-> [cls |-> "small", kind |-> "answer", sz |-> "small", opt |-> "plain", id |-> 1, ck |-> 0]]>>,drain |-> <<>>,wireOut |-> <<>>,tok |-> [small |-> 0, large |-> 1],hist |-> <<>>,pc |-> "serve",werr |-> FALSE,job |-> "small",net |-> <<>>]),
    ([cgone |-> FALSE,nsent |-> 1,cstall |-> TRUE,hp |-> FALSE,envHeld |-> [small |-> 0, large |-> 0],slot |-> [small |-> 0, large |-> 0],fill |-> <<>>,drain |-> <<[cls |-> "small", kind |-> "answer", sz |-> "small", opt |-> "plain", id |-> 1, ck |-> 0]>>,wireOut |-> <<>>,tok |-> [small |-> 0, large |-> 1],hist |-> <<[cls |-> "small", kind |-> "answer", sz |-> "small", opt |-> "plain", id |-> 1, ck |-> 0]>>,pc |-> "top",werr |-> FALSE,job |-> "small",net |-> <<>>]),
    ([cgone |-> FALSE,nsent |-> 1,cstall |-> TRUE,hp |-> FALSE,envHeld |-> [small |-> 0, large |-> 0],slot |-> [small |-> 0, large |-> 0],fill |-> <<>>,drain |-> <<>>,wireOut |-> <<>>,tok |-> [small |-> 1, large |-> 1],hist |-> <<[cls |-> "small", kind |-> "answer", sz |-> "small", opt |-> "plain", id |-> 1, ck |-> 0]>>,pc |-> "exit",werr |-> FALSE,job |-> "none",net |-> <<>>])
    >>
----


=============================================================================

---- CONFIG MC_TcpConn_TTrace_1790423786 ----
CONSTANTS
    NF = 3
    D = 2
    CapSmall = 1
    CapLarge = 1
    Kinds <- KStall
    Sizes <- SAll
    Opts <- OPlain
    FlushOnWait = TRUE
    FlushBeforeDirect = TRUE
    ResetSlot = TRUE
    Stall = TRUE
    TimeoutSticky = FALSE

INVARIANT
    _inv

CHECK_DEADLOCK
    \* CHECK_DEADLOCK off because of PROPERTY or INVARIANT above.
    FALSE

INIT
    _init

NEXT
    _next

CONSTANT
    _TETrace <- _trace

ALIAS
    _expression
=============================================================================
\* Generated on Sat Sep 26 11:56:51 UTC 2026