CONSTANTS
  NF = 2  D = 2  CapSmall = 1  CapLarge = 1
  Kinds <- KAll
  Sizes <- SAll
  Opts <- OPlain
  FlushOnWait = TRUE  FlushBeforeDirect = FALSE  ResetSlot = TRUE
SPECIFICATION Spec
INVARIANTS TypeOK WholeInOrderOnePerQuery ReplyOptIsOwn NothingHeldWhileBlocked
CHECK_DEADLOCK FALSE
