CONSTANTS
  NF = 2  D = 2  CapSmall = 1  CapLarge = 1
  Kinds <- KAll
  Sizes <- SAll
  Opts <- OPlain
  FlushOnWait = TRUE  FlushBeforeDirect = FALSE  ResetSlot = TRUE
  Stall = FALSE  TimeoutSticky = TRUE
SPECIFICATION Spec
INVARIANTS TypeOK WholeInOrderOnePerQuery StreamEndsAtFailedWrite ReplyOptIsOwn NothingHeldWhileBlocked
CHECK_DEADLOCK FALSE
