SPECIFICATION TraceSpec
INVARIANTS WholeInOrderOnePerQuery NothingAfterFatal
POSTCONDITION TraceAccepted
CHECK_DEADLOCK FALSE
