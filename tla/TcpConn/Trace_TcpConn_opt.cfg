SPECIFICATION TraceSpec
INVARIANTS WholeInOrderOnePerQuery ReplyOptIsOwn NothingAfterFatal
POSTCONDITION TraceAccepted
CHECK_DEADLOCK FALSE
