--------------------------- MODULE Trace_TcpConn ---------------------------
(***************************************************************************)
(* What the clients of the real TCP engine saw (harness/c10), one NDJSON   *)
(* line per connection: the pipelined queries in TcpConn.tla's vocabulary, *)
(* their ids, and the ids of the frames received in order.  TcpConn.tla's  *)
(* WholeInOrderOnePerQuery, stated on the observable projection: the       *)
(* frames received are whole, and are the replies of the answerable        *)
(* queries, one each, in query order -- a prefix of them when the          *)
(* connection ended early, all of them when the client read to the end.    *)
(***************************************************************************)
EXTENDS Integers, Sequences, TLC, Json, IOUtils, TcpFrames

TraceLog == ndJsonDeserialize(IOEnv.TRACE_FILE)
VARIABLE l
TraceInit == l = 1
TraceNext == l <= Len(TraceLog) /\ l' = l + 1
TraceSpec == TraceInit /\ [][TraceNext]_l

Seen == TraceLog[l - 1]
Expected(o) ==
  LET idx == SelectSeq([i \in 1..Len(o.kinds) |-> i], LAMBDA i : Answerable(o.kinds[i]))
  IN [i \in 1..Len(idx) |-> o.ids[idx[i]]]

WholeInOrderOnePerQuery ==
  l > 1 =>
    /\ Seen.whole
    /\ IsPrefix(Seen.recv, Expected(Seen))
    /\ Seen.done => Seen.recv = Expected(Seen)

(* a query served after a panicking or sub-header frame would be a reply   *)
(* from a connection the engine should have closed                         *)
NothingAfterFatal ==
  l > 1 =>
    \A i \in 1..Len(Seen.kinds) :
      Seen.kinds[i] = "panic" =>
        \A k \in (i + 1)..Len(Seen.kinds) : ~(\E r \in 1..Len(Seen.recv) : Seen.recv[r] = Seen.ids[k])

TraceAccepted == TLCGet("stats").diameter - 1 = Len(TraceLog)
=============================================================================
