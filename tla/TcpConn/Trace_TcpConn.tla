--------------------------- MODULE Trace_TcpConn ---------------------------
(***************************************************************************)
(* What the clients of the real TCP / DoT engine saw (harness/c10), one    *)
(* NDJSON line per connection, in TcpConn.tla's vocabulary:                *)
(*   kinds, ids   the pipelined queries                                    *)
(*   sizes        the size class of the answer each query asks for         *)
(*                (TcpFrames: small | large | huge)                        *)
(*   opts, cks    each query's EDNS shape (none | plain | cookie) and its  *)
(*                own client cookie ("" = none)                            *)
(*   recv         the ids of the frames received, in order                 *)
(*   rsz, rok     per frame received: its size class, and whether it is a  *)
(*                NOERROR answer (a resolution failure is small whatever   *)
(*                was asked)                                               *)
(*   rck          per frame received: the client half of its COOKIE option *)
(*   wn, wk / rn, rk   per query: it asked for NSID / sent keepalive; per   *)
(*                frame received: it carries an NSID / a keepalive option   *)
(* TcpConn.tla's invariants, stated on the observable projection:          *)
(* WholeInOrderOnePerQuery -- the frames received are whole, and are the   *)
(* replies of the answerable queries, one each, in query order whatever    *)
(* their size classes (a prefix of them when the connection ended early,   *)
(* all of them when the client read to the end), each answer of the size   *)
(* class its question asks for; ReplyOptIsOwn -- a COOKIE option only in   *)
(* the reply to a query that carried a cookie, built from that cookie;     *)
(* NSID / edns-tcp-keepalive only in the reply to a query that asked.      *)
(***************************************************************************)
EXTENDS Integers, Sequences, TLC, Json, IOUtils, TcpFrames

TraceLog == ndJsonDeserialize(IOEnv.TRACE_FILE)
VARIABLE l
TraceInit == l = 1
TraceNext == l <= Len(TraceLog) /\ l' = l + 1
TraceSpec == TraceInit /\ [][TraceNext]_l

Seen == TraceLog[l - 1]
(* the positions of the answerable queries, in query order *)
Owed(o) == SelectSeq([i \in 1..Len(o.kinds) |-> i], LAMBDA i : Answerable(o.kinds[i]))
Expected(o) == [i \in 1..Len(Owed(o)) |-> o.ids[Owed(o)[i]]]

WholeInOrderOnePerQuery ==
  l > 1 =>
    /\ Seen.whole
    /\ IsPrefix(Seen.recv, Expected(Seen))
    /\ Seen.done => Seen.recv = Expected(Seen)
    /\ \A r \in 1..Len(Seen.recv) :
         (r <= Len(Owed(Seen)) /\ Seen.rok[r]) => Seen.rsz[r] = Seen.sizes[Owed(Seen)[r]]

ReplyOptIsOwn ==
  l > 1 =>
    \A r \in 1..Len(Seen.recv) :
      (r <= Len(Owed(Seen)) /\ Seen.recv[r] = Expected(Seen)[r]) =>
        /\ Seen.rck[r] # "" => Seen.rck[r] = Seen.cks[Owed(Seen)[r]]
        /\ Seen.rn[r] => Seen.wn[Owed(Seen)[r]]
        /\ Seen.rk[r] => Seen.wk[Owed(Seen)[r]]

(* a query served after a panicking or sub-header frame would be a reply   *)
(* from a connection the engine should have closed                         *)
NothingAfterFatal ==
  l > 1 =>
    \A i \in 1..Len(Seen.kinds) :
      Seen.kinds[i] = "panic" =>
        \A k \in (i + 1)..Len(Seen.kinds) : ~(\E r \in 1..Len(Seen.recv) : Seen.recv[r] = Seen.ids[k])

TraceAccepted == TLCGet("stats").diameter - 1 = Len(TraceLog)
=============================================================================
