CONSTANTS
  NF = 2  D = 2  CapSmall = 1  CapLarge = 1
  Kinds <- KStall
  Sizes <- SAll
  Opts <- OPlain
  FlushOnWait = TRUE  FlushBeforeDirect = TRUE  ResetSlot = TRUE
  Stall = TRUE  TimeoutSticky = TRUE
SPECIFICATION Spec
INVARIANTS TypeOK WholeInOrderOnePerQuery StreamEndsAtFailedWrite ReplyOptIsOwn SlotIsZeroBetweenRequests NothingHeldWhileBlocked ClassFits TokenConservation ClosedIsClean
CHECK_DEADLOCK FALSE
