CONSTANTS
  NF = 3  D = 2  CapSmall = 1  CapLarge = 1
  Kinds <- KAnswer
  Sizes <- SSmall
  Opts <- OAll
  FlushOnWait = TRUE  FlushBeforeDirect = TRUE  ResetSlot = TRUE
  Stall = FALSE  TimeoutSticky = TRUE
SPECIFICATION ScriptSpec
INVARIANTS TypeOK WholeInOrderOnePerQuery StreamEndsAtFailedWrite ReplyOptIsOwn SlotIsZeroBetweenRequests NothingHeldWhileBlocked ClassFits TokenConservation ClosedIsClean
CHECK_DEADLOCK FALSE
