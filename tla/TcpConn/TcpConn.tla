------------------------------ MODULE TcpConn ------------------------------
(***************************************************************************)
(* One connection of the owned TCP/DoT engine (server/tcp_engine.go        *)
(* serveConn / acquire / serveFrame, server/tcp_stream.go stage / flush /  *)
(* beforeRead): pipelined frames, prefix-first job acquisition with the    *)
(* small/large class swap, replies staged in the drain buffer and flushed  *)
(* before the connection blocks.  The other connections of the engine are  *)
(* the environment that takes and returns job tokens.                      *)
(*                                                                         *)
(* A frame is [id, cls, kind, sz, opt, ck]: cls the job class its length   *)
(* asks for, kind what serving it does (answer | silent | reject | panic | *)
(* short), sz the size class of its reply (TcpFrames.tla: small is staged  *)
(* in the drain buffer, large fits only an empty buffer, huge is larger    *)
(* than the whole buffer and is written on its own), opt what EDNS the     *)
(* query carried (none | plain | cookie).  ck is filled in by Serve: whose *)
(* client cookie the reply's COOKIE option was built from (0 = none).      *)
(*                                                                         *)
(* The job owns an edns.ResponseWriter slot the wire path reuses           *)
(* (tcpJob.ednsWriter, middleware/edns serveWire): slot[c] is the client   *)
(* cookie left in the slab the next acquire of class c hands out (0 = the  *)
(* slot is zeroed).  With one token per class that slab is THE slab.       *)
(*                                                                         *)
(* The client may stop reading (Stall): its receive window closes, the      *)
(* kernel buffers fill, and a write the connection makes with replies in    *)
(* hand -- the flush inside stage() that a reply displaces, the flush       *)
(* before a token wait, a huge reply written on its own -- runs into the    *)
(* write bound (tcpWriteWait) with only part of the drain buffer on the     *)
(* wire.  tcpStream.flush records that error as the stream's sticky error   *)
(* (TimeoutSticky): every later stage() refuses, the loop ends at its next  *)
(* flush, the client sees a prefix of its replies and then the end of the   *)
(* stream.  TimeoutSticky = FALSE is the flush that forgets a deadline      *)
(* error: the displaced reply is dropped, what was not written is           *)
(* discarded, and the connection keeps staging the following replies.       *)
(***************************************************************************)
EXTENDS Integers, Sequences, FiniteSets, TLC, TcpFrames

CONSTANTS
  NF,        \* frames the client pipelines in one behaviour
  D,         \* drain buffer capacity, in size units (TcpFrames!Sz)
  CapSmall, CapLarge,
  Kinds,
  Sizes,        \* reply size classes explored (subset of SizeClasses)
  Opts,         \* EDNS shapes explored for queries that run the chain (subset of OptKinds)
  FlushOnWait,  \* acquire() flushes staged replies before it parks for a token (FALSE = mutant)
  FlushBeforeDirect, \* stage() flushes what is staged before it writes a huge reply on its own (FALSE = mutant)
  ResetSlot,    \* serveWire's deferred `*rw = ResponseWriter{}` zeroes the whole slot
                \* (FALSE = mutant: cookieRaw / hasCookieRaw survive the request)
  Stall,        \* the client may stop reading for a while (a write can then hit its bound)
  TimeoutSticky \* flush() keeps a write-deadline error as the stream's sticky error (FALSE = mutant)

ASSUME Sizes \subseteq SizeClasses /\ Opts \subseteq OptKinds

Classes == {"small", "large"}
Cap(c) == IF c = "small" THEN CapSmall ELSE CapLarge

VARIABLES
  nsent,     \* frames the client has written so far
  net,       \* written, not yet in the server's fill buffer
  fill,      \* Seq of [f, whole]: frames whose length prefix is buffered
  hp,        \* half a length prefix is buffered behind them
  pc, job, tok, envHeld,
  drain, wireOut, werr,
  slot,      \* per class: the client cookie sitting in the job's edns writer slot (0 = zeroed)
  hist,      \* ghost: frames served so far
  cgone,     \* the client has closed its end
  cstall,    \* the client is not reading: the buffers towards it are full
  cut        \* ghost: how many frames had left when a write of this connection first failed (-1 = none has);
             \* a failed write may have torn a frame, so the stream must end there

vars == <<nsent, net, fill, hp, pc, job, tok, envHeld, drain, wireOut, werr, cut, slot, hist, cgone, cstall>>

EnvCk == NF + 1      \* the cookie of some other connection's client

Init ==
  /\ nsent = 0 /\ net = <<>> /\ fill = <<>> /\ hp = FALSE
  /\ pc = "top" /\ job = "none"
  /\ tok = [c \in Classes |-> Cap(c)] /\ envHeld = [c \in Classes |-> 0]
  /\ drain = <<>> /\ wireOut = <<>> /\ werr = FALSE /\ hist = <<>> /\ cgone = FALSE
  /\ slot = [c \in Classes |-> 0]
  /\ cstall = FALSE /\ cut = -1

---------------------------------------------------------------------------
(* client and network *)
ClientWrite(cls, kind, sz, opt) ==
  /\ nsent < NF /\ ~cgone
  /\ nsent' = nsent + 1
  /\ net' = Append(net, [id |-> nsent + 1, cls |-> cls, kind |-> kind, sz |-> sz, opt |-> opt, ck |-> 0])
  /\ UNCHANGED <<fill, hp, pc, job, tok, envHeld, drain, wireOut, werr, cut, slot, hist, cgone, cstall>>

ClientClose ==
  /\ ~cgone /\ cgone' = TRUE
  /\ UNCHANGED <<nsent, net, fill, hp, pc, job, tok, envHeld, drain, wireOut, werr, cut, slot, hist, cstall>>

ClientStall ==
  /\ Stall /\ ~cstall /\ ~cgone /\ cstall' = TRUE
  /\ UNCHANGED <<nsent, net, fill, hp, pc, job, tok, envHeld, drain, wireOut, werr, cut, slot, hist, cgone>>

ClientResume ==
  /\ cstall /\ cstall' = FALSE
  /\ UNCHANGED <<nsent, net, fill, hp, pc, job, tok, envHeld, drain, wireOut, werr, cut, slot, hist, cgone>>

LastWhole == IF fill = <<>> THEN TRUE ELSE fill[Len(fill)].whole

(* one read fills the buffer with whole frames, a frame whose body is still *)
(* on its way, or half a prefix                                            *)
Deliver(whole) ==
  /\ net # <<>> /\ pc # "closed"
  /\ LastWhole
  /\ fill' = Append(fill, [f |-> Head(net), whole |-> whole])
  /\ net' = Tail(net) /\ hp' = FALSE
  /\ UNCHANGED <<nsent, pc, job, tok, envHeld, drain, wireOut, werr, cut, slot, hist, cgone, cstall>>

DeliverHalfPrefix ==
  /\ net # <<>> /\ ~hp /\ pc # "closed" /\ LastWhole
  /\ hp' = TRUE
  /\ UNCHANGED <<nsent, net, fill, pc, job, tok, envHeld, drain, wireOut, werr, cut, slot, hist, cgone, cstall>>

DeliverRest ==
  /\ ~LastWhole /\ pc # "closed"
  /\ fill' = [fill EXCEPT ![Len(fill)].whole = TRUE]
  /\ UNCHANGED <<nsent, net, hp, pc, job, tok, envHeld, drain, wireOut, werr, cut, slot, hist, cgone, cstall>>

(* the other connections of the engine; a tenant served from the slab may   *)
(* have carried a cookie, which stays behind only when the slot is not     *)
(* zeroed after the request                                                *)
EnvTake(c) ==
  /\ tok[c] > 0
  /\ tok' = [tok EXCEPT ![c] = @ - 1] /\ envHeld' = [envHeld EXCEPT ![c] = @ + 1]
  /\ UNCHANGED <<nsent, net, fill, hp, pc, job, drain, wireOut, werr, cut, slot, hist, cgone, cstall>>
EnvGive(c) ==
  /\ envHeld[c] > 0
  /\ tok' = [tok EXCEPT ![c] = @ + 1] /\ envHeld' = [envHeld EXCEPT ![c] = @ - 1]
  /\ \E k \in (IF ResetSlot THEN {0} ELSE {slot[c], EnvCk}) : slot' = [slot EXCEPT ![c] = k]
  /\ UNCHANGED <<nsent, net, fill, hp, pc, job, drain, wireOut, werr, cut, hist, cgone, cstall>>

---------------------------------------------------------------------------
(* the connection goroutine *)
Ids(s) == [i \in 1..Len(s) |-> s[i].id]

(* tcpStream.flush of `dr` on top of `wo`: everything staged leaves in one  *)
(* write, or the write fails (peer gone) and the error is sticky, or -- the *)
(* client is not reading -- the write runs into its bound with the first k  *)
(* staged frames on the wire (a frame cut by the bound is not a whole frame *)
(* and is followed by nothing only if the stream ends here); held = 0       *)
(* either way.  The set of possible <<wireOut', werr', flush returned an    *)
(* error>>.                                                                 *)
FlushOutcomes(dr, wo, we) ==
  IF we THEN {<<wo, TRUE, TRUE>>}
  ELSE IF dr = <<>> THEN {<<wo, FALSE, FALSE>>}
  ELSE {<<wo \o dr, FALSE, FALSE>>}
       \cup (IF cgone THEN {<<wo, TRUE, TRUE>>} ELSE {})
       \cup (IF cstall THEN {<<wo \o SubSeq(dr, 1, k), TimeoutSticky, TRUE>> : k \in 0..(Len(dr) - 1)} ELSE {})

(* dnsclient.WriteFrameFrom of one reply straight to the connection; stage() *)
(* records any error of it (a deadline error included) as the sticky error  *)
DirectOutcomes(r, wo) ==
  {<<Append(wo, r), FALSE>>} \cup (IF cgone \/ cstall THEN {<<wo, TRUE>>} ELSE {})

CutAt(failed, wo) == IF failed /\ cut = -1 THEN Len(wo) ELSE cut

Flush ==      \* flush() at a point that stages nothing afterwards
  \E o \in FlushOutcomes(drain, wireOut, werr) :
    /\ wireOut' = o[1] /\ werr' = o[2] /\ drain' = <<>> /\ cut' = CutAt(o[3], o[1])

Released == IF job = "none" THEN tok ELSE [tok EXCEPT ![job] = @ + 1]

Top ==                 \* loop head: a whole prefix in hand keeps the burst going
  /\ pc = "top"
  /\ IF fill # <<>>
       THEN /\ pc' = "prefix"
            /\ UNCHANGED <<job, tok, drain, wireOut, werr, cut>>
       ELSE \* about to block: release the slab, flush the replies, then wait
            /\ tok' = Released
            /\ job' = "none"
            /\ \E o \in FlushOutcomes(drain, wireOut, werr) :      \* beforeRead: an error of the flush ends the loop
                 /\ wireOut' = o[1] /\ werr' = o[2] /\ drain' = <<>> /\ cut' = CutAt(o[3], o[1])
                 /\ pc' = IF o[3] THEN "exit" ELSE "blocked"
  /\ UNCHANGED <<nsent, net, fill, hp, envHeld, slot, hist, cgone, cstall>>

Blocked ==
  /\ pc = "blocked"
  /\ \/ fill # <<>> /\ pc' = "prefix"
     \/ fill = <<>> /\ (cgone \/ net = <<>>) /\ pc' = "exit"     \* EOF or idle timeout
  /\ UNCHANGED <<nsent, net, fill, hp, job, tok, envHeld, drain, wireOut, werr, cut, slot, hist, cgone, cstall>>

Prefix ==
  /\ pc = "prefix"
  /\ pc' = IF Head(fill).f.kind = "short" THEN "exit" ELSE "class"
  /\ UNCHANGED <<nsent, net, fill, hp, job, tok, envHeld, drain, wireOut, werr, cut, slot, hist, cgone, cstall>>

ClassSwap ==           \* the class belongs to the frame, both ways
  /\ pc = "class"
  /\ IF job # "none" /\ job # Head(fill).f.cls
       THEN tok' = [tok EXCEPT ![job] = @ + 1] /\ job' = "none"
       ELSE UNCHANGED <<tok, job>>
  /\ pc' = "acquire"
  /\ UNCHANGED <<nsent, net, fill, hp, envHeld, drain, wireOut, werr, cut, slot, hist, cgone, cstall>>

Acquire ==
  /\ pc = "acquire"
  /\ LET c == Head(fill).f.cls IN
     IF job # "none" THEN pc' = "body" /\ UNCHANGED <<job, tok, drain, wireOut, werr, cut>>
     ELSE IF tok[c] > 0
       THEN /\ tok' = [tok EXCEPT ![c] = @ - 1] /\ job' = c /\ pc' = "body"
            /\ UNCHANGED <<drain, wireOut, werr, cut>>
       ELSE \* parks for a token: staged replies leave first
            /\ IF FlushOnWait THEN Flush ELSE UNCHANGED <<drain, wireOut, werr, cut>>
            /\ pc' = "wait" /\ UNCHANGED <<job, tok>>
  /\ UNCHANGED <<nsent, net, fill, hp, envHeld, slot, hist, cgone, cstall>>

Wait ==
  /\ pc = "wait"
  /\ LET c == Head(fill).f.cls IN
     \/ tok[c] > 0 /\ tok' = [tok EXCEPT ![c] = @ - 1] /\ job' = c /\ pc' = "body"
     \/ tok[c] = 0 /\ pc' = "exit" /\ UNCHANGED <<tok, job>>      \* the query's budget ran out
  /\ UNCHANGED <<nsent, net, fill, hp, envHeld, drain, wireOut, werr, cut, slot, hist, cgone, cstall>>

Body ==                \* blocks for the rest of the body with the replies still staged (by design)
  /\ pc = "body"
  /\ \/ Head(fill).whole /\ pc' = "serve"
     \/ ~Head(fill).whole /\ (cgone \/ net = <<>>) /\ pc' = "exit"
  /\ UNCHANGED <<nsent, net, fill, hp, job, tok, envHeld, drain, wireOut, werr, cut, slot, hist, cgone, cstall>>

(* tcpStream.stage of one framed reply r, literally:                        *)
(*   need > len(drain)        -> flush what is staged, then write r alone   *)
(*   held + need > len(drain) -> flush, then stage r in the empty buffer    *)
(*   otherwise                -> stage r behind what is held                *)
(* a failed flush returns the error with nothing staged (held = 0)          *)
Stage(r) ==
  IF werr THEN UNCHANGED <<drain, wireOut, werr, cut>>
  ELSE IF Sz(r.sz, D) > D
    THEN IF FlushBeforeDirect
           THEN \E o \in FlushOutcomes(drain, wireOut, werr) :
                  /\ drain' = <<>>
                  /\ IF o[3] THEN wireOut' = o[1] /\ werr' = o[2] /\ cut' = CutAt(TRUE, o[1])   \* stage returns the error: r is dropped
                     ELSE \E d \in DirectOutcomes(r, o[1]) : wireOut' = d[1] /\ werr' = d[2] /\ cut' = CutAt(d[2], d[1])
           ELSE \* mutant: the huge reply overtakes whatever is staged
                /\ \E d \in DirectOutcomes(r, wireOut) : wireOut' = d[1] /\ werr' = d[2] /\ cut' = CutAt(d[2], d[1])
                /\ UNCHANGED drain
    ELSE IF Held(drain, D) + Sz(r.sz, D) > D
      THEN \E o \in FlushOutcomes(drain, wireOut, werr) :
             /\ wireOut' = o[1] /\ werr' = o[2] /\ cut' = CutAt(o[3], o[1])
             /\ drain' = IF o[3] THEN <<>> ELSE <<r>>                \* a failed flush: r is not staged
      ELSE drain' = Append(drain, r) /\ UNCHANGED <<wireOut, werr, cut>>

(* middleware/edns serveWire on the job-owned slot: every field but the     *)
(* cookie pair is assigned from the request; cookieRaw/hasCookieRaw only    *)
(* when the request carries a cookie; the deferred reset zeroes the slot.   *)
(* The reply's OPT is built from the slot while the chain runs.             *)
ThroughChain(f) == f.kind \in {"answer", "silent"}
SlotEntered(f) == IF f.opt = "cookie" THEN f.id ELSE slot[job]
SlotLeft(f)    == IF ResetSlot THEN 0 ELSE SlotEntered(f)
ReplyCk(f)     == IF f.kind # "answer" \/ f.opt = "none" THEN 0 ELSE SlotEntered(f)

Serve ==
  /\ pc = "serve"
  /\ LET f == Head(fill).f IN
     /\ hist' = Append(hist, f)
     /\ fill' = Tail(fill)
     /\ slot' = IF ThroughChain(f) THEN [slot EXCEPT ![job] = SlotLeft(f)] ELSE slot
     /\ CASE f.kind = "panic" -> pc' = "exit" /\ UNCHANGED <<drain, wireOut, werr, cut>>
          [] f.kind = "silent" -> pc' = "top" /\ UNCHANGED <<drain, wireOut, werr, cut>>
          [] OTHER -> pc' = "top" /\ Stage([f EXCEPT !.ck = ReplyCk(f)])
  /\ UNCHANGED <<nsent, net, hp, job, tok, envHeld, cgone, cstall>>

Exit ==                \* the deferred tail: slab back first, then the last flush, then close
  /\ pc = "exit"
  /\ tok' = Released
  /\ job' = "none"
  /\ Flush
  /\ pc' = "closed"
  /\ UNCHANGED <<nsent, net, fill, hp, envHeld, slot, hist, cgone, cstall>>

FrameChoice(k, z, o) ==
  /\ k \in Kinds
  /\ (IF k = "answer" THEN z \in Sizes ELSE z = "small")
  /\ (IF k \in {"answer", "silent"} THEN o \in Opts ELSE o = "none")

Conn == Top \/ Blocked \/ Prefix \/ ClassSwap \/ Acquire \/ Wait \/ Body \/ Serve \/ Exit

Next ==
  \/ \E c \in Classes, k \in Kinds, z \in SizeClasses, o \in OptKinds :
       FrameChoice(k, z, o) /\ ClientWrite(c, k, z, o)
  \/ ClientStall \/ ClientResume
  \/ ClientClose \/ Deliver(TRUE) \/ Deliver(FALSE) \/ DeliverHalfPrefix \/ DeliverRest
  \/ \E c \in Classes : EnvTake(c) \/ EnvGive(c)
  \/ Conn

Spec == Init /\ [][Next]_vars

(* the script generator: one well-behaved client pipelining small-class     *)
(* answerable queries, every frame delivered whole, no other tenant.  Its   *)
(* labelled graph is walked for the size-class / EDNS orders and chunkings  *)
(* that are replayed on the real engines.                                   *)
ScriptNext ==
  \/ \E z \in Sizes, o \in Opts : ClientWrite("small", "answer", z, o)
  \/ Deliver(TRUE)
  \/ ClientStall \/ ClientResume
  \/ Conn
ScriptSpec == Init /\ [][ScriptNext]_vars

---------------------------------------------------------------------------
Expected == Ids(SelectSeq(hist, LAMBDA f : Answerable(f.kind)))

(* replies arrive whole, one per answerable query, in query order: what has *)
(* left plus what is staged is exactly the replies of the queries served,  *)
(* whatever their size classes                                              *)
WholeInOrderOnePerQuery ==
  /\ IsPrefix(Ids(wireOut), Expected)
  /\ cut = -1 => Ids(wireOut \o drain) = Expected

(* a write that failed (peer gone, or the write bound with the client not    *)
(* reading) may have left part of a frame on the wire: nothing more is put  *)
(* on the wire behind it -- the client sees whole replies in query order    *)
(* and then the end of the stream, never later replies behind a gap         *)
StreamEndsAtFailedWrite == cut # -1 => Len(wireOut) = cut

(* a reply's OPT options derive only from the request it answers: a COOKIE  *)
(* appears iff that query carried one and is built from that query's own    *)
(* client cookie                                                            *)
ReplyOptIsOwn ==
  \A i \in 1..Len(wireOut \o drain) :
    LET r == (wireOut \o drain)[i] IN r.ck = (IF r.opt = "cookie" THEN r.id ELSE 0)

(* between requests the slot holds nothing of any request (the hazard        *)
(* ReplyOptIsOwn's failure grows from)                                      *)
SlotIsZeroBetweenRequests == \A c \in Classes : slot[c] = 0

(* nothing a client has earned waits on the server while the server waits  *)
(* on the client or on another tenant's slab                               *)
NothingHeldWhileBlocked ==
  /\ pc = "blocked" => drain = <<>> /\ job = "none"
  /\ pc = "wait" => drain = <<>>

(* a slab is of the class its frame asked for, and tokens are conserved     *)
ClassFits == pc \in {"body", "serve"} => job = Head(fill).f.cls
TokenConservation ==
  \A c \in Classes : tok[c] + envHeld[c] + (IF job = c THEN 1 ELSE 0) = Cap(c)
ClosedIsClean == pc = "closed" => job = "none" /\ drain = <<>>

TypeOK ==
  /\ pc \in {"top", "blocked", "prefix", "class", "acquire", "wait", "body", "serve", "exit", "closed"}
  /\ job \in Classes \cup {"none"} /\ Held(drain, D) <= D
  /\ \A c \in Classes : slot[c] \in 0..EnvCk
  /\ cstall \in BOOLEAN /\ cut \in -1..NF
=============================================================================
