------------------------------ MODULE TcpConn ------------------------------
(***************************************************************************)
(* One connection of the owned TCP/DoT engine (server/tcp_engine.go        *)
(* serveConn / acquire / serveFrame, server/tcp_stream.go stage / flush /  *)
(* beforeRead): pipelined frames, prefix-first job acquisition with the    *)
(* small/large class swap, replies staged in the drain buffer and flushed  *)
(* before the connection blocks.  The other connections of the engine are  *)
(* the environment that takes and returns job tokens.                      *)
(*                                                                         *)
(* A frame is [id, cls, kind, big]: cls the job class its length asks for, *)
(* kind what serving it does (answer | silent | reject | panic | short),   *)
(* big whether its reply is larger than the drain buffer.                  *)
(***************************************************************************)
EXTENDS Naturals, Sequences, FiniteSets, TLC, TcpFrames

CONSTANTS
  NF,        \* frames the client pipelines in one behaviour
  D,         \* drain buffer capacity, in replies
  CapSmall, CapLarge,
  Kinds,
  FlushOnWait   \* acquire() flushes staged replies before it parks for a token (FALSE = mutant)

Classes == {"small", "large"}
Cap(c) == IF c = "small" THEN CapSmall ELSE CapLarge

VARIABLES
  nsent,     \* frames the client has written so far
  net,       \* written, not yet in the server's fill buffer
  fill,      \* Seq of [f, whole]: frames whose length prefix is buffered
  hp,        \* half a length prefix is buffered behind them
  pc, job, tok, envHeld,
  drain, wireOut, werr,
  hist,      \* ghost: frames served so far
  cgone      \* the client has closed its end

vars == <<nsent, net, fill, hp, pc, job, tok, envHeld, drain, wireOut, werr, hist, cgone>>

Init ==
  /\ nsent = 0 /\ net = <<>> /\ fill = <<>> /\ hp = FALSE
  /\ pc = "top" /\ job = "none"
  /\ tok = [c \in Classes |-> Cap(c)] /\ envHeld = [c \in Classes |-> 0]
  /\ drain = <<>> /\ wireOut = <<>> /\ werr = FALSE /\ hist = <<>> /\ cgone = FALSE

---------------------------------------------------------------------------
(* client and network *)
ClientWrite(cls, kind, big) ==
  /\ nsent < NF /\ ~cgone
  /\ nsent' = nsent + 1
  /\ net' = Append(net, [id |-> nsent + 1, cls |-> cls, kind |-> kind, big |-> big])
  /\ UNCHANGED <<fill, hp, pc, job, tok, envHeld, drain, wireOut, werr, hist, cgone>>

ClientClose ==
  /\ ~cgone /\ cgone' = TRUE
  /\ UNCHANGED <<nsent, net, fill, hp, pc, job, tok, envHeld, drain, wireOut, werr, hist>>

LastWhole == IF fill = <<>> THEN TRUE ELSE fill[Len(fill)].whole

(* one read fills the buffer with whole frames, a frame whose body is still *)
(* on its way, or half a prefix                                            *)
Deliver(whole) ==
  /\ net # <<>> /\ pc # "closed"
  /\ LastWhole
  /\ fill' = Append(fill, [f |-> Head(net), whole |-> whole])
  /\ net' = Tail(net) /\ hp' = FALSE
  /\ UNCHANGED <<nsent, pc, job, tok, envHeld, drain, wireOut, werr, hist, cgone>>

DeliverHalfPrefix ==
  /\ net # <<>> /\ ~hp /\ pc # "closed" /\ LastWhole
  /\ hp' = TRUE
  /\ UNCHANGED <<nsent, net, fill, pc, job, tok, envHeld, drain, wireOut, werr, hist, cgone>>

DeliverRest ==
  /\ ~LastWhole /\ pc # "closed"
  /\ fill' = [fill EXCEPT ![Len(fill)].whole = TRUE]
  /\ UNCHANGED <<nsent, net, hp, pc, job, tok, envHeld, drain, wireOut, werr, hist, cgone>>

(* the other connections of the engine *)
EnvTake(c) ==
  /\ tok[c] > 0
  /\ tok' = [tok EXCEPT ![c] = @ - 1] /\ envHeld' = [envHeld EXCEPT ![c] = @ + 1]
  /\ UNCHANGED <<nsent, net, fill, hp, pc, job, drain, wireOut, werr, hist, cgone>>
EnvGive(c) ==
  /\ envHeld[c] > 0
  /\ tok' = [tok EXCEPT ![c] = @ + 1] /\ envHeld' = [envHeld EXCEPT ![c] = @ - 1]
  /\ UNCHANGED <<nsent, net, fill, hp, pc, job, drain, wireOut, werr, hist, cgone>>

---------------------------------------------------------------------------
(* the connection goroutine *)
Ids(s) == [i \in 1..Len(s) |-> s[i].id]

FlushTo(dr, wo) ==     \* tcpStream.flush: everything staged leaves in one write, or the write fails
  \/ /\ ~werr /\ wo = wireOut \o dr /\ werr' = werr
  \/ /\ dr # <<>> /\ cgone /\ wo = wireOut /\ werr' = TRUE     \* peer gone: the write errors, sticky
  \/ /\ werr /\ wo = wireOut /\ werr' = werr

Released == IF job = "none" THEN tok ELSE [tok EXCEPT ![job] = @ + 1]

Top ==                 \* loop head: a whole prefix in hand keeps the burst going
  /\ pc = "top"
  /\ IF fill # <<>>
       THEN /\ pc' = "prefix"
            /\ UNCHANGED <<job, tok, drain, wireOut, werr>>
       ELSE \* about to block: release the slab, flush the replies, then wait
            /\ tok' = Released
            /\ job' = "none"
            /\ \E wo \in {wireOut, wireOut \o drain} : FlushTo(drain, wo) /\ wireOut' = wo
            /\ drain' = <<>>
            /\ pc' = IF werr' THEN "exit" ELSE "blocked"
  /\ UNCHANGED <<nsent, net, fill, hp, envHeld, hist, cgone>>

Blocked ==
  /\ pc = "blocked"
  /\ \/ fill # <<>> /\ pc' = "prefix"
     \/ fill = <<>> /\ (cgone \/ net = <<>>) /\ pc' = "exit"     \* EOF or idle timeout
  /\ UNCHANGED <<nsent, net, fill, hp, job, tok, envHeld, drain, wireOut, werr, hist, cgone>>

Prefix ==
  /\ pc = "prefix"
  /\ pc' = IF Head(fill).f.kind = "short" THEN "exit" ELSE "class"
  /\ UNCHANGED <<nsent, net, fill, hp, job, tok, envHeld, drain, wireOut, werr, hist, cgone>>

ClassSwap ==           \* the class belongs to the frame, both ways
  /\ pc = "class"
  /\ IF job # "none" /\ job # Head(fill).f.cls
       THEN tok' = [tok EXCEPT ![job] = @ + 1] /\ job' = "none"
       ELSE UNCHANGED <<tok, job>>
  /\ pc' = "acquire"
  /\ UNCHANGED <<nsent, net, fill, hp, envHeld, drain, wireOut, werr, hist, cgone>>

Acquire ==
  /\ pc = "acquire"
  /\ LET c == Head(fill).f.cls IN
     IF job # "none" THEN pc' = "body" /\ UNCHANGED <<job, tok, drain, wireOut, werr>>
     ELSE IF tok[c] > 0
       THEN /\ tok' = [tok EXCEPT ![c] = @ - 1] /\ job' = c /\ pc' = "body"
            /\ UNCHANGED <<drain, wireOut, werr>>
       ELSE \* parks for a token: staged replies leave first
            /\ IF FlushOnWait
                 THEN /\ \E wo \in {wireOut, wireOut \o drain} : FlushTo(drain, wo) /\ wireOut' = wo
                      /\ drain' = <<>>
                 ELSE UNCHANGED <<drain, wireOut, werr>>
            /\ pc' = "wait" /\ UNCHANGED <<job, tok>>
  /\ UNCHANGED <<nsent, net, fill, hp, envHeld, hist, cgone>>

Wait ==
  /\ pc = "wait"
  /\ LET c == Head(fill).f.cls IN
     \/ tok[c] > 0 /\ tok' = [tok EXCEPT ![c] = @ - 1] /\ job' = c /\ pc' = "body"
     \/ tok[c] = 0 /\ pc' = "exit" /\ UNCHANGED <<tok, job>>      \* the query's budget ran out
  /\ UNCHANGED <<nsent, net, fill, hp, envHeld, drain, wireOut, werr, hist, cgone>>

Body ==                \* blocks for the rest of the body with the replies still staged (by design)
  /\ pc = "body"
  /\ \/ Head(fill).whole /\ pc' = "serve"
     \/ ~Head(fill).whole /\ (cgone \/ net = <<>>) /\ pc' = "exit"
  /\ UNCHANGED <<nsent, net, fill, hp, job, tok, envHeld, drain, wireOut, werr, hist, cgone>>

Serve ==
  /\ pc = "serve"
  /\ LET f == Head(fill).f IN
     /\ hist' = Append(hist, f)
     /\ fill' = Tail(fill)
     /\ CASE f.kind = "panic" -> pc' = "exit" /\ UNCHANGED <<drain, wireOut, werr>>
          [] f.kind = "silent" -> pc' = "top" /\ UNCHANGED <<drain, wireOut, werr>>
          [] OTHER ->            \* tcpStream.stage
               /\ pc' = "top"
               /\ IF werr THEN UNCHANGED <<drain, wireOut, werr>>
                  ELSE IF f.big
                    THEN \* too large for the drain buffer: flush, then written on its own
                         \E wo \in {wireOut, wireOut \o drain} :
                           /\ FlushTo(drain, wo)
                           /\ wireOut' = IF werr' THEN wo ELSE Append(wo, f)
                           /\ drain' = <<>>
                    ELSE IF Len(drain) + 1 > D
                      THEN \E wo \in {wireOut, wireOut \o drain} :
                             /\ FlushTo(drain, wo) /\ wireOut' = wo
                             /\ drain' = IF werr' THEN <<>> ELSE <<f>>
                      ELSE drain' = Append(drain, f) /\ UNCHANGED <<wireOut, werr>>
  /\ UNCHANGED <<nsent, net, hp, job, tok, envHeld, cgone>>

Exit ==                \* the deferred tail: slab back first, then the last flush, then close
  /\ pc = "exit"
  /\ tok' = Released
  /\ job' = "none"
  /\ \E wo \in {wireOut, wireOut \o drain} : FlushTo(drain, wo) /\ wireOut' = wo
  /\ drain' = <<>>
  /\ pc' = "closed"
  /\ UNCHANGED <<nsent, net, fill, hp, envHeld, hist, cgone>>

Next ==
  \/ \E c \in Classes, k \in Kinds, b \in BOOLEAN : (b => k = "answer") /\ ClientWrite(c, k, b)
  \/ ClientClose \/ Deliver(TRUE) \/ Deliver(FALSE) \/ DeliverHalfPrefix \/ DeliverRest
  \/ \E c \in Classes : EnvTake(c) \/ EnvGive(c)
  \/ Top \/ Blocked \/ Prefix \/ ClassSwap \/ Acquire \/ Wait \/ Body \/ Serve \/ Exit

Spec == Init /\ [][Next]_vars

---------------------------------------------------------------------------
Expected == Ids(SelectSeq(hist, LAMBDA f : Answerable(f.kind)))

(* replies arrive whole, one per answerable query, in query order: what has *)
(* left plus what is staged is exactly the replies of the queries served   *)
WholeInOrderOnePerQuery ==
  /\ IsPrefix(Ids(wireOut), Expected)
  /\ ~werr => Ids(wireOut \o drain) = Expected

(* nothing a client has earned waits on the server while the server waits  *)
(* on the client or on another tenant's slab                               *)
NothingHeldWhileBlocked ==
  /\ pc = "blocked" => drain = <<>> /\ job = "none"
  /\ pc = "wait" => drain = <<>>

(* a slab is of the class its frame asked for, and tokens are conserved     *)
ClassFits == pc \in {"body", "serve"} => job = Head(fill).f.cls
TokenConservation ==
  \A c \in Classes : tok[c] + envHeld[c] + (IF job = c THEN 1 ELSE 0) = Cap(c)
ClosedIsClean == pc = "closed" => job = "none" /\ drain = <<>>

TypeOK ==
  /\ pc \in {"top", "blocked", "prefix", "class", "acquire", "wait", "body", "serve", "exit", "closed"}
  /\ job \in Classes \cup {"none"} /\ Len(drain) <= D
=============================================================================
