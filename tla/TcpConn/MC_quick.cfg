CONSTANTS
  NF = 2  D = 2  CapSmall = 1  CapLarge = 1
  Kinds <- KAll
  FlushOnWait = TRUE
SPECIFICATION Spec
INVARIANTS TypeOK WholeInOrderOnePerQuery NothingHeldWhileBlocked ClassFits TokenConservation ClosedIsClean
CHECK_DEADLOCK FALSE
