CONSTANTS
  NF = 2  D = 2  CapSmall = 1  CapLarge = 1
  Kinds <- KAnswer
  Sizes <- SSmall
  Opts <- OAll
  FlushOnWait = TRUE  FlushBeforeDirect = TRUE  ResetSlot = FALSE
SPECIFICATION Spec
INVARIANTS TypeOK WholeInOrderOnePerQuery ReplyOptIsOwn
CHECK_DEADLOCK FALSE
