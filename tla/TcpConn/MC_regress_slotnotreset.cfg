CONSTANTS
  NF = 2  D = 2  CapSmall = 1  CapLarge = 1
  Kinds <- KAnswer
  Sizes <- SSmall
  Opts <- OAll
  FlushOnWait = TRUE  FlushBeforeDirect = TRUE  ResetSlot = FALSE
  Stall = FALSE  TimeoutSticky = TRUE
SPECIFICATION Spec
INVARIANTS TypeOK WholeInOrderOnePerQuery StreamEndsAtFailedWrite ReplyOptIsOwn
CHECK_DEADLOCK FALSE
