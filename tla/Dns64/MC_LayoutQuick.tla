--------------------------- MODULE MC_LayoutQuick ---------------------------
(* quick tier: 3-value alphabet, prefix pattern of period 3, six legal and
   eleven illegal lengths; no Corrupt *)
EXTENDS Dns64Layout
MCAlphabet == {0, 1, 255}
MCLens == LegalLens \cup {0, 8, 24, 33, 72, 80, 88, 95, 97, 104, 128}
=============================================================================
