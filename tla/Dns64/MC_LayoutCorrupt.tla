--------------------------- MODULE MC_LayoutCorrupt ---------------------------
(* ip6.arpa names that are not embeddings: after EmbedA one octet outside the
   prefix (u, suffix or an IPv4 octet) is overwritten *)
EXTENDS Dns64Layout
MCAlphabet == {0, 255}
MCLens == LegalLens
MCCorruptPos == 0..15
=============================================================================
