CONSTANTS
  Alphabet <- MCAlphabet
  Lens <- MCLens
  PfxPeriod = 2
  CorruptPos = {}
INIT Init
NEXT Next
INVARIANTS TypeOK IllegalRejected RoundTrip ReservedZero SuffixZero PrefixKept AddrPlaced ArpaRoundTrip PtrBack CorruptStrict
CHECK_DEADLOCK FALSE
