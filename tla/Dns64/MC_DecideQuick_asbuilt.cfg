\* the table as the code is built (prediction for drift accounting; NeverAD and TtlMin are expected to fail here)
CONSTANTS
  SoaSet <- MCSoaSet
  ARecSets <- MCARecSets
  WorkSet <- MCWorkSet
  DownChains <- MCDownChains
  AChains <- MCAChains
  AdQSet <- MCAdQSet
  Probes <- MCProbes
  AKindsPlain <- MCAKindsPlain
  PtrKinds <- MCPtrKinds
  PtrLookups <- MCPtrLookups
  KeepADOnStrippedFallback = TRUE
  ZeroNegTtlIgnored = TRUE
  AllBadNetsOpen = FALSE
INIT Init
NEXT Next
INVARIANTS TypeOK SynthOnlyWhenAllowed NeverOverFailure NoLookupOverFailure WellKnownSkipsExcludedV4 SynthExact OwnerAfterChain GatesPassThrough PtrOnlyWhenAllowed
CHECK_DEADLOCK FALSE
