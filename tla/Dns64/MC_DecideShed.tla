---------------------------- MODULE MC_DecideShed ----------------------------
(* small domains around the load-shed rows of the decision table: the        *)
(* property-conformant table (MC_DecideShed.cfg) and its negative twin        *)
(* (MC_DecideShed_neg.cfg: the request-local mark of a shed SERVFAIL is lost) *)
EXTENDS Dns64Decide
A(c, t) == [c |-> c, t |-> t]
MCSoaSet == {<<>>, <<900, 60>>}
MCARecSets == {<<A("pub", 20)>>, <<A("pub", 700), A("excl", 20)>>}
MCWorkSet == {"none"}
MCDownChains == {"none"}
MCAChains == {"none", "cname"}
MCAdQSet == {0}
MCProbes == {"nodataAD"}
MCAKindsPlain == {"nxdomain", "servfail", "errGeneric", "nil"}
MCPtrKinds == {"outside"}
MCPtrLookups == {"ans"}
MCTrue == TRUE
=============================================================================
