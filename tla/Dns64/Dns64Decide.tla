----------------------------- MODULE Dns64Decide -----------------------------
(***************************************************************************)
(* The DNS64 decision table of middleware/dns64 (property C20):            *)
(*                                                                         *)
(*   (configuration, client query, what the rest of the chain answered,    *)
(*    what the secondary A lookup answered)  |->  the reply the client gets *)
(*                                                                         *)
(* transcribed from DNS64.ServeDNS (the gates), responseWriter.WriteMsg    *)
(* (the dispatch before synthesis), responseWriter.synthesise /            *)
(* buildAResponseAsBasis and DNS64.handlePTR.  One action per stage:       *)
(*                                                                         *)
(*   Init         picks the configuration and the client query             *)
(*   Downstream   the rest of the chain writes its reply; the gates and    *)
(*                the WriteMsg dispatch either decide the outcome or ask   *)
(*                for the A lookup                                         *)
(*   ALookup      the queryer's answer to the secondary A query            *)
(*   PtrLookup    handlePTR's in-addr.arpa chase (PTR translation)         *)
(*                                                                         *)
(* Every state with phase = "done" is one row of the table and one replay  *)
(* case for the Go driver.  State values are records / sequences / ints /  *)
(* strings only (the runner turns the TLC dump into JSON textually).       *)
(*                                                                         *)
(* Two places where the code as built departs from the property statement  *)
(* are switchable (see KeepADOnStrippedFallback, ZeroNegTtlIgnored; both   *)
(* repaired since, as is the third switch AllBadNetsOpen):                  *)
(* FALSE/FALSE is the behaviour the property asks for and is what the      *)
(* invariants are checked against; TRUE/TRUE is the prediction used for    *)
(* drift accounting against the real code.                                 *)
(*                                                                         *)
(* Request-local failures made by the REAL resolver (gap C20-r3-1): the     *)
(* marks in ShedMarks are not scripted.  For those rows the rest of the     *)
(* chain IS middleware/resolver's DNSHandler, refusing the query in its     *)
(* load-shed branch -- "shedGlobal": every in-flight resolution slot is     *)
(* held (errResolutionCapacity), "shedZone": the root zone's in-flight      *)
(* quota is used up (errZoneCapacity) -- so the reply has one shape: a      *)
(* SERVFAIL without records or SOA, AD clear, carrying EDE 22 (an "other"   *)
(* EDE) exactly when the client sent EDNS, and the request-local mark is     *)
(* whatever DNSHandler.handle attaches to it.  ShedMarkLost is the model     *)
(* mutant (the mark does not reach dns64: the SERVFAIL looks like a plain    *)
(* upstream failure); MC_DecideShed_neg.cfg overrides it and must violate    *)
(* NeverOverFailure.                                                        *)
(***************************************************************************)
EXTENDS Integers, Sequences, FiniteSets, TLC

CONSTANTS
  SoaSet,       \* SOA shapes of the AAAA reply: <<>> (none) or <<ttl, minimum>>
  ARecSets,     \* A answers: sequences of [c |-> "pub"|"excl", t |-> ttl]
  WorkSet,      \* recursion-work ledger in the request context: "none","shadow","enforce"
  DownChains,   \* alias chain in the AAAA reply: "none","cname"
  AChains,      \* alias chain in the A reply: "none","cname","dname"
  AdQSet,       \* client AD bit values
  Probes,       \* names of the downstream replies shown to queries that never get wrapped
  AKindsPlain,  \* A lookup outcomes without records
  PtrKinds,     \* ip6.arpa name classes for PTR queries
  PtrLookups,   \* outcomes of the in-addr.arpa chase
  KeepADOnStrippedFallback,  \* as built: the AAAA-stripped copy keeps AD when the A lookup is unusable
  ZeroNegTtlIgnored,         \* as built: SOA TTL 0 counts as "no SOA" (600 s ceiling); MINIMUM 0 is ignored
  AllBadNetsOpen             \* as built before the repair: a client_networks list whose every entry is unusable
                             \* compiled to the empty list, and the empty list means "every client"

NoSOACeiling == 600          \* noSOATTLCeiling

(* ------------------------------------------------------------------ *)
(* configuration: which Pref64 prefixes are configured                 *)
Cfgs == {"wkp", "op", "both", "both2"}   \* both2: the operator prefix is listed before the well-known one
PrefixesOf(c) == CASE c = "wkp" -> <<"wkp">> [] c = "op" -> <<"op">> [] c = "both" -> <<"wkp", "op">> [] c = "both2" -> <<"op", "wkp">>

(* client query *)
Queries ==
  {[rd |-> rd, cd |-> cd, edns |-> ed[1], do |-> ed[2], ad |-> ad, qclass |-> qc, qtype |-> qt[1],
    ptr |-> qt[2], elig |-> el, zone |-> zn, internal |-> int] :
     rd \in 0..1, cd \in 0..1, ed \in {<<0, 0>>, <<1, 0>>, <<1, 1>>}, ad \in AdQSet,
     qc \in {"IN", "CH"},
     qt \in ({<<"AAAA", "na">>, <<"OTHER", "na">>} \cup {<<"PTR", k>> : k \in PtrKinds}),
     el \in 0..2, zn \in 0..1, int \in 0..1}

(* elig: what the configured client_networks make of this client.
     1  eligible: no list is configured ("every client") or the source lies in a listed network
     0  not eligible: a list is configured and the source lies in none of its networks
     2  not eligible either, by another route: a list IS configured but none of its entries is a usable CIDR
        (a typo), so no source lies "in one of the listed CIDRs" (config.DNS64Config.ClientNetworks' wording).
        compile() drops the unusable entries; clientEligible must still know that a restriction was asked for. *)
Eligible(q) == q.elig = 1 \/ (q.elig = 2 /\ AllBadNetsOpen)

(* DNS64.ServeDNS gates, in the code's order *)
GatePass(q) == q.qclass = "IN" /\ q.internal = 0 /\ q.rd = 1 /\ q.cd = 0 /\ Eligible(q)
Wrapped(q) == GatePass(q) /\ q.qtype = "AAAA" /\ q.zone = 0
(* handlePTR: the name decodes to an address under a configured prefix, with
   u and suffix zero, whose IPv4 is not excluded under the well-known prefix.
   The driver builds the name under the first configured prefix. *)
PtrTranslated(q, c) ==
  GatePass(q) /\ q.qtype = "PTR" /\ (q.ptr = "under" \/ (q.ptr = "underExcl" /\ c \in {"op", "both2"}))

(* ------------------------------------------------------------------ *)
(* reply of the rest of the chain to the AAAA query                     *)
RcodeNative ==
  {<<"NOERROR", n>> : n \in {"none", "usable", "allExcl", "mixed"}}
    \cup {<<r, "none">> : r \in {"NXDOMAIN", "SERVFAIL", "REFUSED"}}
Marks(r) == IF r \in {"SERVFAIL", "REFUSED"}
              THEN {"none", "cachedMeta", "localAttempt", "localDeadline"} ELSE {"none"}
Edes(q) == IF q.edns = 1 THEN {"none", "dnssec", "cached", "other"} ELSE {"none"}

Down(t, r, n, e, m, w, c, a, s) ==
  [tc |-> t, rcode |-> r, native |-> n, ede |-> e, mark |-> m, work |-> w, chain |-> c, ad |-> a, soa |-> s]

ProbeDown(name) ==
  CASE name = "nodataAD"  -> Down(0, "NOERROR", "none", "none", "none", "none", "none", 1, <<900, 60>>)
    [] name = "nodata"    -> Down(0, "NOERROR", "none", "none", "none", "none", "none", 0, <<>>)
    [] name = "servfail"  -> Down(0, "SERVFAIL", "none", "none", "none", "none", "none", 0, <<>>)
    [] name = "allExclAD" -> Down(0, "NOERROR", "allExcl", "none", "none", "none", "none", 1, <<900, 60>>)
    [] name = "mixedAD"   -> Down(0, "NOERROR", "mixed", "none", "none", "none", "none", 1, <<900, 60>>)

NoDown == Down(0, "na", "none", "none", "none", "none", "none", 0, <<>>)
NoA == [kind |-> "na", recs |-> <<>>, chain |-> "none", ad |-> 0]
NoOut == [kind |-> "na", rcode |-> "na", ad |-> 0, ede |-> "none", ttl |-> -1, syn |-> <<>>,
          owner |-> "na", stripped |-> 0, alook |-> 0]

(* request-local failures produced by the real resolver handler's load-shed branch *)
ShedMarks == {"shedGlobal", "shedZone"}
ShedMarkLost == FALSE          \* model mutant switch (definition override in MC_DecideShed_neg.cfg)
ShedDown(qq, m) == Down(0, "SERVFAIL", "none", IF qq.edns = 1 THEN "other" ELSE "none", m, "none", "none", 0, <<>>)

(* the three "never synthesise over this" classes of the property *)
DnssecFail(d) == d.rcode = "SERVFAIL" /\ d.ede = "dnssec"
CachedFail(d) == d.mark = "cachedMeta" \/ (d.rcode = "SERVFAIL" /\ d.ede = "cached")
LocalFail(d)  == d.mark \in {"localAttempt", "localDeadline"} \cup ShedMarks
(* what dns64 can see of it (RequestLocalFailureForResponse on its own context) *)
SeenLocalFail(d) == LocalFail(d) /\ ~(ShedMarkLost /\ d.mark \in ShedMarks)
UsableNative(d) == d.rcode = "NOERROR" /\ d.native \in {"usable", "mixed"}

(* responseWriter.WriteMsg up to the synthesis call *)
Early(d) ==
  IF d.tc = 1 THEN "pass"
  ELSE IF d.rcode = "NXDOMAIN" THEN "pass"
  ELSE IF DnssecFail(d) THEN "pass"
  ELSE IF CachedFail(d) THEN "pass"
  ELSE IF SeenLocalFail(d) THEN "pass"
  ELSE IF d.rcode = "SERVFAIL" /\ d.work = "enforce" THEN "workfail"
  ELSE IF d.rcode = "NOERROR" /\ d.native = "usable" THEN "pass"
  ELSE IF d.rcode = "NOERROR" /\ d.native = "mixed" THEN "filtered"
  ELSE "lookup"

Forged(q, d) == IF d.ad = 1 /\ q.edns = 1 THEN "forged" ELSE "none"

PassOut(d, al) == [NoOut EXCEPT !.kind = "pass", !.rcode = d.rcode, !.ad = d.ad, !.ede = "down", !.alook = al]
FilteredOut(q, d) == [NoOut EXCEPT !.kind = "filtered", !.rcode = "NOERROR", !.ad = 0,
                                   !.ede = Forged(q, d), !.stripped = 1]
WorkFailOut(q, al) == [NoOut EXCEPT !.kind = "workfail", !.rcode = "SERVFAIL",
                                    !.ede = (IF q.edns = 1 THEN "policy" ELSE "none"), !.alook = al]
AttemptFailOut(q) == [NoOut EXCEPT !.kind = "attemptfail", !.rcode = "SERVFAIL",
                                   !.ede = (IF q.edns = 1 THEN "attempt" ELSE "none"), !.alook = 1]
(* synth == nil: the (already AAAA-filtered) original is relayed *)
FallbackOut(d) ==
  LET str == IF d.native = "allExcl" THEN 1 ELSE 0
  IN [NoOut EXCEPT !.kind = "fallback", !.rcode = d.rcode, !.ede = "down", !.stripped = str, !.alook = 1,
                   !.ad = IF str = 1 /\ ~KeepADOnStrippedFallback THEN 0 ELSE d.ad]
(* buildAResponseAsBasis *)
BasisOut(q, d, rc, a) ==
  [NoOut EXCEPT !.kind = "basis", !.rcode = rc, !.ad = 0, !.ede = Forged(q, d), !.alook = 1,
                !.stripped = (IF d.native = "allExcl" THEN 1 ELSE 0),
                !.owner = (IF a.chain = "none" THEN "na" ELSE "target")]

(* RFC 2308 negative TTL of an SOA <<ttl, minimum>> *)
Neg2308(s) == IF s[2] < s[1] THEN s[2] ELSE s[1]
(* negativeAAAATTL + the "> 0" test in synthesise *)
CodeNeg(s) == IF s = <<>> THEN 0 ELSE IF s[2] > 0 /\ s[2] < s[1] THEN s[2] ELSE s[1]
Ceiling(s) ==
  IF ZeroNegTtlIgnored THEN (IF CodeNeg(s) > 0 THEN CodeNeg(s) ELSE NoSOACeiling)
  ELSE (IF s = <<>> THEN NoSOACeiling ELSE Neg2308(s))
MinOf(S) == CHOOSE x \in S : \A y \in S : x <= y
(* min over the ceiling and *all* A records, skipped ones included *)
SynthTtl(d, recs) == MinOf({Ceiling(d.soa)} \cup {recs[i].t : i \in 1..Len(recs)})

(* one synthesised AAAA per (prefix, A) pair, prefix-major, except excluded
   IPv4 under the well-known prefix: <<prefix index, A index>> *)
RECURSIVE PairsFrom(_, _, _, _)
PairsFrom(ps, recs, pi, ai) ==
  IF pi > Len(ps) THEN <<>>
  ELSE IF ai > Len(recs) THEN PairsFrom(ps, recs, pi + 1, 1)
  ELSE IF ps[pi] = "wkp" /\ recs[ai].c = "excl" THEN PairsFrom(ps, recs, pi, ai + 1)
  ELSE <<<<pi, ai>>>> \o PairsFrom(ps, recs, pi, ai + 1)
Pairs(c, recs) == PairsFrom(PrefixesOf(c), recs, 1, 1)

SynthOut(q, c, d, a) ==
  [NoOut EXCEPT !.kind = "synth", !.rcode = "NOERROR", !.ad = 0, !.ede = Forged(q, d),
                !.ttl = SynthTtl(d, a.recs), !.syn = Pairs(c, a.recs), !.alook = 1,
                !.stripped = (IF d.native = "allExcl" THEN 1 ELSE 0),
                !.owner = (IF a.chain = "none" THEN "qname" ELSE "target")]

(* responseWriter.synthesise + the tail of WriteMsg *)
AfterLookup(q, c, d, a) ==
  CASE a.kind = "errWork"    -> WorkFailOut(q, 1)
    [] a.kind = "errAttempt" -> AttemptFailOut(q)
    [] a.kind \in {"errGeneric", "nil"} -> FallbackOut(d)
    [] a.kind = "nxdomain"   -> BasisOut(q, d, "NXDOMAIN", a)
    [] a.kind = "servfail"   -> BasisOut(q, d, "SERVFAIL", a)
    [] a.kind = "nodata"     -> BasisOut(q, d, "NOERROR", a)
    [] a.kind = "ans"        -> IF Pairs(c, a.recs) = <<>> THEN FallbackOut(d) ELSE SynthOut(q, c, d, a)

(* handlePTR after the address matched *)
PtrOut(q, k) ==
  CASE k = "errWork"    -> WorkFailOut(q, 1)
    [] k = "errAttempt" -> AttemptFailOut(q)
    [] OTHER            -> [NoOut EXCEPT !.kind = "ptr", !.rcode = "NOERROR", !.ad = 0, !.alook = 1,
                                         !.owner = (IF k = "ans" THEN "ptrs" ELSE "cnameonly")]

(* ------------------------------------------------------------------ *)
VARIABLES q, cfg, down, aresp, out, phase
vars == <<q, cfg, down, aresp, out, phase>>

Init ==
  /\ q \in Queries /\ cfg \in Cfgs
  /\ down = NoDown /\ aresp = NoA /\ out = NoOut /\ phase = "query"

DownstreamStep(d) ==
  /\ down' = d
  /\ IF ~Wrapped(q) THEN out' = PassOut(d, 0) /\ phase' = "done"
     ELSE LET e == Early(d) IN
          CASE e = "pass"     -> out' = PassOut(d, 0) /\ phase' = "done"
            [] e = "filtered" -> out' = FilteredOut(q, d) /\ phase' = "done"
            [] e = "workfail" -> out' = WorkFailOut(q, 0) /\ phase' = "done"
            [] e = "lookup"   -> out' = out /\ phase' = "alookup"
  /\ UNCHANGED <<q, cfg, aresp>>

Downstream ==
  /\ phase = "query" /\ ~PtrTranslated(q, cfg)
  /\ IF Wrapped(q)
       THEN \/ \E t \in 0..1, rn \in RcodeNative, e \in Edes(q), w \in WorkSet, c \in DownChains,
                  a \in 0..1, s \in SoaSet :
                 \E m \in Marks(rn[1]) : DownstreamStep(Down(t, rn[1], rn[2], e, m, w, c, a, s))
            \/ \E m \in ShedMarks : DownstreamStep(ShedDown(q, m))
       ELSE \E p \in Probes : DownstreamStep(ProbeDown(p))

ALookupStep(a) ==
  /\ aresp' = a
  /\ out' = AfterLookup(q, cfg, down, a)
  /\ phase' = "done"
  /\ UNCHANGED <<q, cfg, down>>

ALookup ==
  /\ phase = "alookup"
  /\ \/ \E k \in AKindsPlain : ALookupStep([NoA EXCEPT !.kind = k])
     \/ \E c \in AChains : ALookupStep([NoA EXCEPT !.kind = "nodata", !.chain = c])
     \/ \E r \in ARecSets, c \in AChains, ad \in 0..1 :
          ALookupStep([kind |-> "ans", recs |-> r, chain |-> c, ad |-> ad])

PtrLookup ==
  /\ phase = "query" /\ PtrTranslated(q, cfg)
  /\ \E k \in PtrLookups :
       /\ aresp' = [NoA EXCEPT !.kind = k]
       /\ out' = PtrOut(q, k)
       /\ phase' = "done"
  /\ UNCHANGED <<q, cfg, down>>

Next == Downstream \/ ALookup \/ PtrLookup
Spec == Init /\ [][Next]_vars

---------------------------------------------------------------------------
Done == phase = "done"
Synth == Done /\ out.kind = "synth"

TypeOK ==
  /\ q \in Queries /\ cfg \in Cfgs
  /\ phase \in {"query", "alookup", "done"}
  /\ out.kind \in {"na", "pass", "filtered", "fallback", "basis", "synth", "workfail", "attemptfail", "ptr"}
  /\ out.ad \in 0..1 /\ out.alook \in 0..1 /\ out.stripped \in 0..1

(* C20: synthesis only for recursion-desired, non-CD queries from eligible
   clients for non-excluded zones whose name has no usable native AAAA
   (and, from the gates, class IN, type AAAA, not an internal sub-query) *)
SynthOnlyWhenAllowed ==
  Synth => /\ q.rd = 1 /\ q.cd = 0 /\ q.elig = 1 /\ q.zone = 0
           /\ q.qclass = "IN" /\ q.qtype = "AAAA" /\ q.internal = 0
           /\ ~UsableNative(down)

(* C20: never over NXDOMAIN, a DNSSEC validation failure, a cached or
   request-local failure (and not over a truncated reply either) *)
NeverOverFailure ==
  Synth => /\ down.rcode # "NXDOMAIN" /\ ~DnssecFail(down) /\ ~CachedFail(down) /\ ~LocalFail(down)
           /\ down.tc = 0
(* beyond the statement: those replies do not even trigger the A lookup *)
NoLookupOverFailure ==
  (Done /\ q.qtype # "PTR" /\
   (down.rcode = "NXDOMAIN" \/ DnssecFail(down) \/ CachedFail(down) \/ LocalFail(down)))
     => out.alook = 0 /\ out.kind = "pass"

(* C20: a synthesised or AAAA-filtered reply never carries AD *)
NeverAD ==
  (Done /\ (out.kind \in {"synth", "filtered", "ptr", "basis"} \/ out.stripped = 1)) => out.ad = 0

(* C20: TTL no larger than both the A TTL and the AAAA negative TTL *)
TtlMin ==
  Synth => /\ \A i \in 1..Len(out.syn) : out.ttl <= aresp.recs[out.syn[i][2]].t
           /\ (down.soa # <<>> => out.ttl <= Neg2308(down.soa))

(* C20: excluded IPv4 ranges are skipped under the well-known prefix *)
WellKnownSkipsExcludedV4 ==
  Synth => \A i \in 1..Len(out.syn) :
             ~(PrefixesOf(cfg)[out.syn[i][1]] = "wkp" /\ aresp.recs[out.syn[i][2]].c = "excl")

(* C20: exactly the embedding of the A records into each configured prefix *)
SynthExact ==
  Synth => /\ Len(out.syn) > 0
           /\ \A pi \in 1..Len(PrefixesOf(cfg)), ai \in 1..Len(aresp.recs) :
                (~(PrefixesOf(cfg)[pi] = "wkp" /\ aresp.recs[ai].c = "excl"))
                   => \E i \in 1..Len(out.syn) : out.syn[i] = <<pi, ai>>

(* C20: owned by the queried name after any alias chain *)
OwnerAfterChain ==
  Synth => out.owner = (IF aresp.chain = "none" THEN "qname" ELSE "target")

(* queries that are not wrapped get the downstream reply verbatim *)
GatesPassThrough ==
  (Done /\ ~Wrapped(q) /\ ~PtrTranslated(q, cfg)) => (out.kind = "pass" /\ out.alook = 0)

(* PTR translation only behind the same flag/client gates *)
PtrOnlyWhenAllowed == (Done /\ out.kind = "ptr") => (GatePass(q) /\ q.elig = 1 /\ q.qtype = "PTR")
=============================================================================
