CONSTANTS
  Alphabet <- MCAlphabet
  Lens <- MCLens
  PfxPeriod = 1
  CorruptPos <- MCCorruptPos
INIT Init
NEXT Next
INVARIANTS TypeOK IllegalRejected RoundTrip ReservedZero SuffixZero PrefixKept AddrPlaced Injective ArpaRoundTrip PtrBack CorruptStrict
CHECK_DEADLOCK FALSE
