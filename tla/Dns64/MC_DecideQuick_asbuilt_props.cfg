\* the as-built table against the two invariants it is expected to break (documentation run, not a verdict)
CONSTANTS
  SoaSet <- MCSoaSet
  ARecSets <- MCARecSets
  WorkSet <- MCWorkSet
  DownChains <- MCDownChains
  AChains <- MCAChains
  AdQSet <- MCAdQSet
  Probes <- MCProbes
  AKindsPlain <- MCAKindsPlain
  PtrKinds <- MCPtrKinds
  PtrLookups <- MCPtrLookups
  KeepADOnStrippedFallback = TRUE
  ZeroNegTtlIgnored = TRUE
  AllBadNetsOpen = FALSE
INIT Init
NEXT Next
INVARIANTS NeverAD TtlMin
CHECK_DEADLOCK FALSE
