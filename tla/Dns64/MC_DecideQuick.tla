--------------------------- MODULE MC_DecideQuick ---------------------------
(* quick tier domains of the decision table *)
EXTENDS Dns64Decide
A(c, t) == [c |-> c, t |-> t]
MCSoaSet == {<<>>, <<900, 60>>, <<30, 3600>>, <<0, 60>>, <<900, 0>>}
MCARecSets == {<<A("pub", 20)>>, <<A("pub", 700)>>, <<A("excl", 700)>>,
               <<A("pub", 700), A("excl", 20)>>, <<A("pub", 20), A("pub", 700)>>}
MCWorkSet == {"none", "enforce"}
MCDownChains == {"none"}
MCAChains == {"none", "cname"}
MCAdQSet == {0, 1}
MCProbes == {"nodataAD", "allExclAD"}
MCAKindsPlain == {"nxdomain", "servfail", "errGeneric", "errWork", "errAttempt", "nil"}
MCPtrKinds == {"under", "underExcl", "outside"}
MCPtrLookups == {"ans", "servfail", "nil", "errGeneric", "errWork", "errAttempt"}
=============================================================================
