-------------------------- MODULE MC_LayoutThorough --------------------------
(* thorough tier, replayed (Injective is left to MC_LayoutQuick: 625 embeddings
   per state are too slow): 5-value alphabet for the IPv4 octets and for a
   period-2 prefix pattern; all six legal lengths and eleven illegal ones *)
EXTENDS Dns64Layout
MCAlphabet == {0, 1, 127, 128, 255}
MCLens == LegalLens \cup {0, 8, 24, 33, 72, 80, 88, 95, 97, 104, 128}
=============================================================================
