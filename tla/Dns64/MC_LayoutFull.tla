---------------------------- MODULE MC_LayoutFull ----------------------------
(* thorough tier, model only: 5-value alphabet for the IPv4 octets and a
   period-3 prefix pattern (125 prefixes per length) *)
EXTENDS Dns64Layout
MCAlphabet == {0, 1, 127, 128, 255}
MCLens == LegalLens \cup {0, 24, 72, 128}
=============================================================================
