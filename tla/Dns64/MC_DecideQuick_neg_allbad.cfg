\* negative twin: a client_networks list of unusable entries admits every client (as built before the repair);
\* must violate SynthOnlyWhenAllowed
CONSTANTS
  SoaSet <- MCSoaSet
  ARecSets <- MCARecSets
  WorkSet <- MCWorkSet
  DownChains <- MCDownChains
  AChains <- MCAChains
  AdQSet <- MCAdQSet
  Probes <- MCProbes
  AKindsPlain <- MCAKindsPlain
  PtrKinds <- MCPtrKinds
  PtrLookups <- MCPtrLookups
  KeepADOnStrippedFallback = FALSE
  ZeroNegTtlIgnored = FALSE
  AllBadNetsOpen = TRUE
INIT Init
NEXT Next
INVARIANTS SynthOnlyWhenAllowed PtrOnlyWhenAllowed
CHECK_DEADLOCK FALSE
