----------------------------- MODULE Dns64Layout -----------------------------
(***************************************************************************)
(* RFC 6052 section 2.2 address layout as used by middleware/dns64         *)
(* (validatePrefix, embedIPv4, extractIPv4, parseIP6ArpaName, inAddrArpa), *)
(* as a function on octet sequences, for property C20.                     *)
(*                                                                         *)
(* An IPv6 address is a sequence of 16 octets (TLA+ index = octet index    *)
(* + 1).  A prefix of `len' bits is given by its ceil(len/8) leading       *)
(* octets.  The four IPv4 octets follow the prefix, jumping over the       *)
(* reserved octet u (bits 64..71, octet index 8) for lengths up to /64;    *)
(* whatever remains is the suffix and must be zero.                        *)
(*                                                                         *)
(* The state machine follows the public behaviour the Go driver replays:   *)
(*   Validate  - dns64.New / compileConfig / validatePrefix                *)
(*   EmbedA    - AAAA synthesis of one A record (embedIPv4)                *)
(*   Corrupt   - (optional) an on-the-wire ip6.arpa name that is not an    *)
(*               embedding: one octet outside the prefix is overwritten    *)
(*   ExtractA  - extractIPv4 on that address                               *)
(*   PtrQuery  - the ip6.arpa PTR query for it (nibble name, parse,        *)
(*               extract, in-addr.arpa target)                             *)
(* Every terminal state is one replay case.                                *)
(***************************************************************************)
EXTENDS Integers, Sequences, FiniteSets, TLC

CONSTANTS Alphabet,    \* octet values used for prefix and IPv4 octets (must contain 0)
          Lens,        \* candidate prefix lengths in bits, legal and illegal ones
          PfxPeriod,   \* prefix octet i is pattern[((i-1) % PfxPeriod) + 1]
          CorruptPos   \* 0-based octet positions Corrupt may overwrite ({} = action off)

ASSUME 0 \in Alphabet /\ Alphabet \subseteq 0..255 /\ PfxPeriod \in 1..12
ASSUME Lens \subseteq 0..128 /\ CorruptPos \subseteq 0..15

LegalLens == {32, 40, 48, 56, 64, 96}
U == 8                                   \* octet index of the reserved octet "u"
Fail == <<>>                             \* extraction refused

(* Octet index (0-based) of IPv4 octet k (1..4): right after the prefix,   *)
(* shifted by one where it would sit on or after u (lengths up to /64).    *)
V4PosAt(len, k) ==
  LET p == (len \div 8) + (k - 1)
  IN IF len <= 64 /\ p >= U THEN p + 1 ELSE p
V4Pos(len) == [k \in 1..4 |-> V4PosAt(len, k)]

(* The table of RFC 6052 section 2.2, to pin the rule above.               *)
ASSUME /\ V4Pos(32) = <<4, 5, 6, 7>>
       /\ V4Pos(40) = <<5, 6, 7, 9>>
       /\ V4Pos(48) = <<6, 7, 9, 10>>
       /\ V4Pos(56) = <<7, 9, 10, 11>>
       /\ V4Pos(64) = <<9, 10, 11, 12>>
       /\ V4Pos(96) = <<12, 13, 14, 15>>

PfxOctets(len) == (len + 7) \div 8
V4Set(len) == {V4PosAt(len, k) : k \in 1..4}
(* octets that are neither prefix nor IPv4: u (up to /64) and the suffix    *)
Free(len) == {i \in (len \div 8)..15 : i \notin V4Set(len)}

ASSUME \A len \in LegalLens :
         /\ \A k \in 1..3 : V4PosAt(len, k) < V4PosAt(len, k + 1)
         /\ \A k \in 1..4 : V4PosAt(len, k) \in (len \div 8)..15
         /\ (len <= 64 => U \in Free(len))
         /\ Cardinality(V4Set(len)) = 4

Addrs == [1..4 -> Alphabet]
Prefixes(len) ==
  {[i \in 1..PfxOctets(len) |-> pat[((i - 1) % PfxPeriod) + 1]] : pat \in [1..PfxPeriod -> Alphabet]}

(* validatePrefix: one of the six lengths; a /96 prefix must itself have u = 0 *)
Legal(len, p) == len \in LegalLens /\ (len = 96 => p[U + 1] = 0)

(* octet i (1..16) of the embedding: prefix, then the IPv4 octets at their  *)
(* positions, everything else (u, suffix) zero                              *)
EmbedAt(len, p, a, i) ==
  IF i <= len \div 8 THEN p[i]
  ELSE IF \E k \in 1..4 : V4PosAt(len, k) = i - 1
         THEN a[CHOOSE k \in 1..4 : V4PosAt(len, k) = i - 1]
         ELSE 0
Embed(len, p, a) == [i \in 1..16 |-> EmbedAt(len, p, a, i)]

InPrefix(len, p, x) == \A i \in 1..(len \div 8) : x[i] = p[i]

Extract(len, p, x) ==
  IF ~InPrefix(len, p, x) THEN Fail
  ELSE IF \E i \in Free(len) : x[i + 1] # 0 THEN Fail
  ELSE [k \in 1..4 |-> x[V4PosAt(len, k) + 1]]

(* ip6.arpa: 32 nibble labels, least significant first *)
Arpa(x) ==
  [j \in 1..32 |->
     LET n == 32 - j                     \* 0-based nibble index in the address
         b == x[(n \div 2) + 1]
     IN IF n % 2 = 0 THEN b \div 16 ELSE b % 16]
FromArpa(l) == [i \in 1..16 |-> l[32 - 2 * (i - 1)] * 16 + l[32 - 2 * (i - 1) - 1]]
InAddr(a) == <<a[4], a[3], a[2], a[1]>>  \* d.c.b.a.in-addr.arpa.

VARIABLES plen, pfx, addr,   \* the case, chosen at Init
          pos,               \* V4Pos(plen) (<<>> for an illegal length): the map handed to the driver
          v6,                \* the address on the wire (<<>> before EmbedA)
          ext,               \* what extraction returned (Fail or 4 octets)
          arpa,              \* nibble labels of the PTR query
          target,            \* IPv4 octets of the in-addr.arpa target, Fail = not translated
          corrupted,         \* <<>> or <<octet index, new value>>
          phase

vars == <<plen, pfx, addr, pos, v6, ext, arpa, target, corrupted, phase>>

FixedAddr == [k \in 1..4 |-> 0]

Init ==
  /\ plen \in Lens
  /\ pfx \in Prefixes(plen)
  /\ addr \in (IF plen \in LegalLens THEN Addrs ELSE {FixedAddr})
  /\ pos = (IF plen \in LegalLens THEN V4Pos(plen) ELSE <<>>)
  /\ v6 = <<>> /\ ext = Fail /\ arpa = <<>> /\ target = Fail /\ corrupted = <<>>
  /\ phase = "cfg"

Validate ==
  /\ phase = "cfg"
  /\ phase' = IF Legal(plen, pfx) THEN "valid" ELSE "rejected"
  /\ UNCHANGED <<plen, pfx, addr, pos, v6, ext, arpa, target, corrupted>>

EmbedA ==
  /\ phase = "valid"
  /\ v6' = Embed(plen, pfx, addr)
  /\ phase' = "embedded"
  /\ UNCHANGED <<plen, pfx, addr, pos, ext, arpa, target, corrupted>>

Corrupt(i, b) ==
  /\ phase = "embedded" /\ corrupted = <<>>
  /\ i \in CorruptPos /\ i >= plen \div 8 /\ b \in Alphabet /\ v6[i + 1] # b
  /\ v6' = [v6 EXCEPT ![i + 1] = b]
  /\ corrupted' = <<i, b>>
  /\ UNCHANGED <<plen, pfx, addr, pos, ext, arpa, target, phase>>

ExtractA ==
  /\ phase = "embedded"
  /\ ext' = Extract(plen, pfx, v6)
  /\ phase' = "extracted"
  /\ UNCHANGED <<plen, pfx, addr, pos, v6, arpa, target, corrupted>>

PtrQuery ==
  /\ phase = "extracted"
  /\ arpa' = Arpa(v6)
  /\ target' = LET e == Extract(plen, pfx, FromArpa(Arpa(v6)))
               IN IF e = Fail THEN Fail ELSE InAddr(e)
  /\ phase' = "ptr"
  /\ UNCHANGED <<plen, pfx, addr, pos, v6, ext, corrupted>>

Next == Validate \/ EmbedA \/ (\E i \in CorruptPos, b \in Alphabet : Corrupt(i, b)) \/ ExtractA \/ PtrQuery

Spec == Init /\ [][Next]_vars

---------------------------------------------------------------------------
Octets == 0..255
Embedded == phase \in {"embedded", "extracted", "ptr"}
Clean == corrupted = <<>>

TypeOK ==
  /\ plen \in Lens /\ pfx \in [1..PfxOctets(plen) -> Octets] /\ addr \in [1..4 -> Octets]
  /\ phase \in {"cfg", "valid", "rejected", "embedded", "extracted", "ptr"}
  /\ pos = (IF plen \in LegalLens THEN V4Pos(plen) ELSE <<>>)
  /\ (Embedded => v6 \in [1..16 -> Octets])
  /\ (~Embedded => v6 = <<>>)
  /\ ext \in {Fail} \cup [1..4 -> Octets] /\ target \in {Fail} \cup [1..4 -> Octets]

(* illegal lengths (and /96 with u # 0) are rejected, nothing else is *)
IllegalRejected == phase # "cfg" => ((phase = "rejected") <=> ~Legal(plen, pfx))

(* Extract(Embed(p, a)) = a *)
RoundTrip == (phase \in {"extracted", "ptr"} /\ Clean) => ext = addr
ReservedZero == (Embedded /\ Clean) => v6[U + 1] = 0
SuffixZero == (Embedded /\ Clean) => \A i \in Free(plen) : v6[i + 1] = 0
PrefixKept == Embedded => InPrefix(plen, pfx, v6)
AddrPlaced == (Embedded /\ Clean) => \A k \in 1..4 : v6[V4PosAt(plen, k) + 1] = addr[k]
(* injectivity in the address, for the prefix at hand: the embedding of any  *)
(* other address differs from this one (at one of the IPv4 positions)       *)
Injective ==
  (phase = "embedded" /\ Clean) =>
     \A b \in Addrs \ {addr} :
        \E k \in 1..4 : EmbedAt(plen, pfx, b, V4PosAt(plen, k) + 1) # v6[V4PosAt(plen, k) + 1]
(* the matching ip6.arpa name parses back to the address and maps to the same IPv4 *)
ArpaRoundTrip == phase = "ptr" => FromArpa(arpa) = v6
PtrBack == (phase = "ptr" /\ Clean) => target = InAddr(addr)
(* a name that is not an embedding: refused iff u/suffix is non-zero,       *)
(* otherwise it is the embedding of another address                        *)
CorruptStrict ==
  (phase \in {"extracted", "ptr"} /\ ~Clean) =>
     /\ (ext = Fail <=> corrupted[1] \in Free(plen))
     /\ (ext # Fail => (ext # addr /\ Embed(plen, pfx, ext) = v6))
     /\ (phase = "ptr" => target = (IF ext = Fail THEN Fail ELSE InAddr(ext)))
=============================================================================
