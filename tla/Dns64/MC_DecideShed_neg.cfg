\* negative twin: the request-local mark of the resolver's load-shed SERVFAIL never reaches dns64; NeverOverFailure must fail
CONSTANTS
  SoaSet <- MCSoaSet
  ARecSets <- MCARecSets
  WorkSet <- MCWorkSet
  DownChains <- MCDownChains
  AChains <- MCAChains
  AdQSet <- MCAdQSet
  Probes <- MCProbes
  AKindsPlain <- MCAKindsPlain
  PtrKinds <- MCPtrKinds
  PtrLookups <- MCPtrLookups
  KeepADOnStrippedFallback = FALSE
  ZeroNegTtlIgnored = FALSE
  ShedMarkLost <- MCTrue
INIT Init
NEXT Next
INVARIANTS NeverOverFailure
CHECK_DEADLOCK FALSE
