\* the property-conformant table: every invariant of C20 must hold
CONSTANTS
  SoaSet <- MCSoaSet
  ARecSets <- MCARecSets
  WorkSet <- MCWorkSet
  DownChains <- MCDownChains
  AChains <- MCAChains
  AdQSet <- MCAdQSet
  Probes <- MCProbes
  AKindsPlain <- MCAKindsPlain
  PtrKinds <- MCPtrKinds
  PtrLookups <- MCPtrLookups
  KeepADOnStrippedFallback = FALSE
  ZeroNegTtlIgnored = FALSE
  AllBadNetsOpen = FALSE
INIT Init
NEXT Next
INVARIANTS TypeOK SynthOnlyWhenAllowed NeverOverFailure NoLookupOverFailure NeverAD TtlMin WellKnownSkipsExcludedV4 SynthExact OwnerAfterChain GatesPassThrough PtrOnlyWhenAllowed
CHECK_DEADLOCK FALSE
