-------------------------- MODULE MC_DecideThorough --------------------------
(* thorough tier domains of the decision table *)
EXTENDS Dns64Decide
A(c, t) == [c |-> c, t |-> t]
MCSoaSet == {<<>>, <<900, 60>>, <<30, 3600>>, <<0, 60>>, <<900, 0>>, <<600, 600>>, <<0, 0>>, <<5, 5>>}
MCARecSets == {<<A("pub", 20)>>, <<A("pub", 700)>>, <<A("pub", 0)>>, <<A("excl", 700)>>,
               <<A("pub", 700), A("excl", 20)>>, <<A("excl", 20), A("pub", 700)>>,
               <<A("pub", 20), A("pub", 700)>>, <<A("excl", 20), A("excl", 700)>>,
               <<A("pub", 700), A("pub", 700), A("excl", 700)>>}
MCWorkSet == {"none", "shadow", "enforce"}
MCDownChains == {"none", "cname"}
MCAChains == {"none", "cname", "dname"}
MCAdQSet == {0, 1}
MCProbes == {"nodataAD", "nodata", "servfail", "allExclAD", "mixedAD"}
MCAKindsPlain == {"nxdomain", "servfail", "errGeneric", "errWork", "errAttempt", "nil"}
MCPtrKinds == {"under", "underExcl", "outside"}
MCPtrLookups == {"ans", "servfail", "nil", "errGeneric", "errWork", "errAttempt"}
=============================================================================
