CONSTANTS
  Kinds = {"plain", "ecs", "cd", "ecscd"}
  Borns = {"msg", "wire"}
  MaxSteps = 4
  LoseMarker = FALSE
INIT Init
NEXT Next
VIEW View
PROPERTIES NeverConsumes NeverCreates
CHECK_DEADLOCK FALSE
