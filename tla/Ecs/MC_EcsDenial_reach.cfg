CONSTANTS
  Kinds = {"plain", "ecs", "cd", "ecscd"}
  Borns = {"msg", "wire"}
  Flags <- MCFlags
  MaxSteps = 4
  LoseMarker = FALSE
INIT Init
NEXT Next
VIEW View
INVARIANTS NeverSynth
CHECK_DEADLOCK FALSE
