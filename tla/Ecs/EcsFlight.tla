------------------------------ MODULE EcsFlight ------------------------------
(***************************************************************************)
(* C19, resolver (iterative) mode: the audience clause across a SHARED     *)
(* wire look-up.  Two layers collapse concurrent identical questions:      *)
(*   - the cache (Cache.ServeDNS, dedupKey): the key carries the client's  *)
(*     forwarded subnet, and a follower only re-reads the cache;           *)
(*   - the resolver (Resolver.groupLookup, singleflight): a follower is    *)
(*     handed a COPY OF THE LEADER'S RESPONSE, subnet option included.     *)
(* Each caller's own cache writer then files that response by ITS request: *)
(* a caller that forwarded a subnet compares the echo (RFC 7871 7.3) and   *)
(* keys on the declared scope; a caller that forwarded none compares       *)
(* nothing, reads no scope and files under the shared key.                 *)
(* SharesFlight says who joins: as specified, only callers whose query     *)
(* carries the SAME subnet option; as built (MC_EcsFlight_asbuilt.cfg,     *)
(* must FAIL) the key is question | zone | CD | servers - everybody.       *)
(* One question; addresses as in Ecs.tla.                                  *)
(***************************************************************************)
EXTENDS Integers, FiniteSets, Sequences, TLC

CONSTANTS Clients, Addr, SentBits, Scopes, FwdMax, Floor, MaxLate

VARIABLES scoped,    \* set of [base, bits, gen]
          shared,    \* 0 or gen under the shared key
          gens,      \* exchanges with the authority: [fwdBase, fwdBits, scope]
          flight,    \* 0 = none yet, otherwise the gen the open flight will produce
          waiting,   \* callers in flight: set of [c, sent, own] (own = 0: rides the shared flight, else its own exchange)
          phase,     \* "idle" -> "open" -> "done"
          late,      \* late (sequential) queries asked so far
          served     \* ghost: set of [c, sent, gen] - who was handed which exchange's answer

vars == <<scoped, shared, gens, flight, waiting, phase, late, served>>

Pow2(k) == 2 ^ k
Pfx(a, b) == IF b = 0 THEN 0 ELSE (a \div Pow2(32 - b)) * Pow2(32 - b)
Min(a, b) == IF a < b THEN a ELSE b
FwdBits(sent) == IF sent = 0 THEN 0 ELSE Min(sent, FwdMax)
StoredBits(scope, fwdBits) == Min(Min(scope, fwdBits), Floor)

(* groupLookup's key as specified: the subnet the query carries is part of it *)
SameSubnet(c1, s1, c2, s2) ==
  FwdBits(s1) = FwdBits(s2) /\ Pfx(Addr[c1], FwdBits(s1)) = Pfx(Addr[c2], FwdBits(s2))
SharesFlight(c1, s1, c2, s2) == SameSubnet(c1, s1, c2, s2)
AsBuiltShares(c1, s1, c2, s2) == TRUE

Init == /\ scoped = {} /\ shared = 0 /\ gens = <<>> /\ flight = 0 /\ waiting = {}
        /\ phase = "idle" /\ late = 0 /\ served = {}

(* what one caller's cache writer does with the response of exchange g *)
FileAs(c, sent, g, G) ==
  LET fb == FwdBits(sent)
      base == Pfx(Addr[c], fb)
      x == G[g]
      sc == x.scope
      echoOK == fb = 0 \/ x.fwdBits = 0 \/ Pfx(x.fwdBase, fb) = base   \* ResponseEchoes; no option = passes
  IN [ok |-> echoOK,
      toShared |-> echoOK /\ (fb = 0 \/ sc = 0),
      entry |-> [base |-> Pfx(x.fwdBase, StoredBits(sc, fb)), bits |-> StoredBits(sc, fb), gen |-> g]]

(* the leader's wire look-up starts (the cache and the resolver both missed) *)
Open(c, sent, scope) ==
  /\ phase = "idle"
  /\ LET fb == FwdBits(sent)
         g == Len(gens) + 1
     IN /\ gens' = Append(gens, [fwdBase |-> Pfx(Addr[c], fb), fwdBits |-> fb, scope |-> IF fb = 0 THEN 0 ELSE scope,
                                 lc |-> c, ls |-> sent])
        /\ flight' = g
  /\ waiting' = {[c |-> c, sent |-> sent, own |-> 0]}
  /\ phase' = "open"
  /\ UNCHANGED <<scoped, shared, late, served>>

(* a second caller arrives while the flight is open: it joins, or it runs an exchange of its own *)
Arrive(c, sent, scope) ==
  /\ phase = "open" /\ Cardinality(waiting) = 1
  /\ LET x == gens[flight]
     IN IF SharesFlight(x.lc, x.ls, c, sent)
          THEN /\ waiting' = waiting \cup {[c |-> c, sent |-> sent, own |-> 0]}
               /\ UNCHANGED gens
          ELSE LET fb == FwdBits(sent)
               IN /\ gens' = Append(gens, [fwdBase |-> Pfx(Addr[c], fb), fwdBits |-> fb,
                                           scope |-> IF fb = 0 THEN 0 ELSE scope, lc |-> c, ls |-> sent])
                  /\ waiting' = waiting \cup {[c |-> c, sent |-> sent, own |-> Len(gens) + 1]}
  /\ UNCHANGED <<scoped, shared, flight, phase, late, served>>

(* the responses arrive; every caller files and is served *)
Land ==
  /\ phase = "open" /\ Cardinality(waiting) = 2
  /\ LET res == {[c |-> w.c, sent |-> w.sent,
                  g |-> IF w.own # 0 THEN w.own ELSE flight] : w \in waiting}
         ok == {r \in res : FileAs(r.c, r.sent, r.g, gens).ok}
     IN /\ served' = served \cup {[c |-> r.c, sent |-> r.sent, gen |-> r.g] : r \in ok}
        /\ scoped' = scoped \cup {FileAs(r.c, r.sent, r.g, gens).entry : r \in {q \in ok : ~FileAs(q.c, q.sent, q.g, gens).toShared}}
        /\ LET sh == {r.g : r \in {q \in ok : FileAs(q.c, q.sent, q.g, gens).toShared}}
           IN shared' = IF sh = {} THEN shared ELSE CHOOSE g \in sh : \A h \in sh : h <= g
  /\ phase' = "done"
  /\ UNCHANGED <<gens, flight, waiting, late>>

Probe(base, bits) ==
  LET cand == {e \in scoped : e.bits >= 1 /\ e.bits <= bits /\ e.base = Pfx(base, e.bits)}
  IN IF cand = {} THEN 0 ELSE (CHOOSE e \in cand : \A f \in cand : f.bits <= e.bits).gen

(* afterwards: sequential clients, served from the cache when it holds something for them *)
Late(c, sent) ==
  /\ phase = "done" /\ late < MaxLate
  /\ LET fb == FwdBits(sent)
         hit == IF fb > 0 THEN Probe(Pfx(Addr[c], fb), fb) ELSE 0
         g == IF hit # 0 THEN hit ELSE shared
     IN served' = IF g # 0 THEN served \cup {[c |-> c, sent |-> sent, gen |-> g]} ELSE served
  /\ late' = late + 1
  /\ UNCHANGED <<scoped, shared, gens, flight, waiting, phase>>

Next == \/ \E c \in Clients, s \in SentBits, sc \in Scopes : Open(c, s, sc) \/ Arrive(c, s, sc)
        \/ Land
        \/ \E c \in Clients, s \in SentBits : Late(c, s)
Spec == Init /\ [][Next]_vars

(* An answer for which the authority declared a non-zero scope is served only to clients inside that scope
   (as far as the scope, the forwarded bits and the floor reach) - and never to a client that announced no subnet *)
ServedWithinScope ==
  \A s \in served :
    LET x == gens[s.gen]
        b == StoredBits(x.scope, x.fwdBits)
    IN x.scope # 0 => /\ s.sent # 0
                      /\ Pfx(Addr[s.c], b) = Pfx(x.fwdBase, b)

(* the shared key never holds an answer with a declared scope *)
SharedEntryNeverScoped == shared # 0 => gens[shared].scope = 0

(* reachability twin: somebody does join a flight (must FAIL in MC_EcsFlight_reach.cfg) *)
NobodyJoins == \A w \in waiting : w.own # 0 \/ (flight # 0 /\ w.c = gens[flight].lc /\ w.sent = gens[flight].ls)

TypeOK == phase \in {"idle", "open", "done"} /\ late \in 0..MaxLate
=============================================================================
