CONSTANTS
  Kinds = {"plain", "ecs", "cd", "ecscd"}
  Borns = {"msg", "wire"}
  Flags <- MCFlags
  MaxSteps = 6
  LoseMarker = FALSE
INIT Init
NEXT Next


CHECK_DEADLOCK FALSE
