CONSTANTS
  Kinds = {"plain", "ecs", "cd", "ecscd"}
  Borns = {"msg", "wire"}
  Flags <- MCFlags
  MaxSteps = 4
  LoseMarker = TRUE
INIT Init
NEXT Next
VIEW View
PROPERTIES NeverConsumes NeverCreates ADDiscipline
CHECK_DEADLOCK FALSE
