CONSTANTS
  Kinds = {"plain", "ecs", "cd", "ecscd"}
  Borns = {"msg", "wire"}
  MaxSteps = 4
  LoseMarker = TRUE
INIT Init
NEXT Next
VIEW View
PROPERTIES NeverConsumes NeverCreates
CHECK_DEADLOCK FALSE
