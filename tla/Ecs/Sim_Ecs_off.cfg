CONSTANTS
  Clients <- MCClients
  Addr <- MCAddr
  SentBits = {0, 16, 24, 32}
  Scopes = {0, 8, 20, 24, 32}
  Echoes = {0, 2, 4}
  FwdMax = 24
  Floor = 24
  Enabled = FALSE
  MaxSteps = 6
INIT Init
NEXT Next

INVARIANTS TypeOK EcsLeavesOnlyIfAllowed NeverTooSpecific

CHECK_DEADLOCK FALSE
