---------------------------- MODULE MC_EcsDenial ----------------------------
EXTENDS EcsDenial
MCFlags == {[do |-> TRUE, ad |-> FALSE], [do |-> FALSE, ad |-> TRUE], [do |-> FALSE, ad |-> FALSE]}
=============================================================================
