---------------------------- MODULE MC_EcsDenial ----------------------------
EXTENDS EcsDenial
MCFlags == {[do |-> TRUE, ad |-> FALSE], [do |-> FALSE, ad |-> TRUE], [do |-> FALSE, ad |-> FALSE]}
\* the resolver-tier simulation keeps the request menu small so that Birth is drawn often enough
MCFlagsFew == {[do |-> TRUE, ad |-> FALSE], [do |-> FALSE, ad |-> FALSE]}
=============================================================================
