CONSTANTS
  Clients <- MCClients
  Addr <- MCAddr
  SentBits = {0, 16, 24, 32}
  Scopes = {0, 8, 20, 24, 32}
  FwdMax = 24
  Floor = 24
  MaxLate = 1
INIT Init
NEXT Next
CHECK_DEADLOCK FALSE
INVARIANTS TypeOK NobodyJoins
