CONSTANTS
  Kinds = {"plain", "ecs", "cd", "ecscd"}
  Borns = {"msg", "wire"}
  Flags <- MCFlagsFew
  Shapes = {"v4", "empty"}
  MaxSteps = 6
  Births = TRUE
  LoseMarker = FALSE
  EmptyUnmarked = FALSE
  SubLosesMarker = FALSE
INIT Init
NEXT Next

CHECK_DEADLOCK FALSE
