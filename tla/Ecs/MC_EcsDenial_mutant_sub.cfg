CONSTANTS
  Kinds = {"plain", "ecs", "cd", "ecscd"}
  Borns = {"msg", "wire"}
  Flags <- MCFlags
  Shapes = {"v4", "v6", "zero", "empty"}
  MaxSteps = 5
  Births = TRUE
  LoseMarker = FALSE
  EmptyUnmarked = FALSE
  SubLosesMarker = TRUE
INIT Init
NEXT Next
VIEW View
PROPERTIES NeverConsumes NeverCreates ADDiscipline
CHECK_DEADLOCK FALSE
