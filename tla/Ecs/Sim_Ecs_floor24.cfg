CONSTANTS
  Clients <- MCClients
  Addr <- MCAddr
  SentBits = {0, 16, 24, 32}
  Scopes = {0, 8, 20, 24, 32}
  FwdMax = 24
  Floor = 24
  Enabled = TRUE
  MaxSteps = 6
  Fwd6Max = 56
  Floor6 = 48
  Allow = {}
  Mapped = {}
  CDs = {FALSE}
  UpCd = {"echo"}
  Dnssec = FALSE
  Bug = "none"
INIT Init
NEXT Next

INVARIANTS TypeOK EcsLeavesOnlyIfAllowed NeverTooSpecific

CHECK_DEADLOCK FALSE
