------------------------------ MODULE EcsDenial ------------------------------
(***************************************************************************)
(* C19, last clause: a query that carried ECS or CD neither consumes nor   *)
(* creates shared synthesised denials.                                     *)
(*                                                                         *)
(* One subtree of a signed zone that does not exist; the resolver position *)
(* answers every question beneath it with a validated NXDOMAIN (the        *)
(* resolver-to-cache trust seam: ValidatedNegativeProof, Aggressive).      *)
(* cache.ResponseWriter.WriteMsg admits the RFC 8020 cut only for a        *)
(* request tree that is neither audience-scoped (client ECS, whether or    *)
(* not the forwarding policy kept the option) nor CD; the hit ladder       *)
(* consults the cut only for such trees.  Requests enter message-born or   *)
(* wire-born: the marker "the client sent ECS" has to survive the          *)
(* wire-born request's detachment (Chain.detachStrictContext).             *)
(***************************************************************************)
EXTENDS Naturals, TLC

CONSTANTS Kinds,      \* {"plain", "ecs", "cd", "ecscd"}
          Borns,      \* {"msg", "wire"}
          MaxSteps,
          LoseMarker  \* mutant: the ECS marker does not survive the detachment of a wire-born request

VARIABLES cut,        \* a shared subtree cut covering the name exists
          n,
          last        \* [kind, born, out]  out \in {"down", "synth"}   (hidden by VIEW)

vars == <<cut, n, last>>

Scoped(k, b) == k \in {"ecs", "ecscd"} /\ ~(LoseMarker /\ b = "wire")
Bypass(k, b) == Scoped(k, b) \/ k \in {"cd", "ecscd"}

Init == cut = FALSE /\ n = 0 /\ last = [kind |-> "none", born |-> "none", out |-> "none"]

Ask(k, b) ==
  /\ n < MaxSteps
  /\ IF cut /\ ~Bypass(k, b)
       THEN /\ last' = [kind |-> k, born |-> b, out |-> "synth"]     \* answered from the shared cut, no upstream work
            /\ cut' = cut
       ELSE /\ last' = [kind |-> k, born |-> b, out |-> "down"]      \* resolved: a validated NXDOMAIN comes back
            /\ cut' = (cut \/ ~Bypass(k, b))                          \* ... and is admitted only for an unscoped, CD=0 tree
  /\ n' = n + 1

Next == \E k \in Kinds, b \in Borns : Ask(k, b)
Spec == Init /\ [][Next]_vars

(* an ECS- or CD-carrying query is never answered from shared synthesised state ... *)
NeverConsumes == [][last'.kind \in {"ecs", "cd", "ecscd"} => last'.out = "down"]_vars
(* ... and never creates it *)
NeverCreates  == [][last'.kind \in {"ecs", "cd", "ecscd"} => cut' = cut]_vars
(* the cut is used at all (vacuity) *)
NeverSynth == last.out # "synth"

View == <<cut, n>>
=============================================================================
