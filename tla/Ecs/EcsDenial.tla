------------------------------ MODULE EcsDenial ------------------------------
(***************************************************************************)
(* C19, last clause: a query that carried ECS or CD neither consumes nor   *)
(* creates shared synthesised denials, even through internal sub-queries.  *)
(*                                                                         *)
(* One subtree of a signed zone that does not exist; the resolver position *)
(* answers every question beneath it with a validated NXDOMAIN (the        *)
(* resolver-to-cache trust seam: ValidatedNegativeProof, Aggressive).      *)
(* cache.ResponseWriter.WriteMsg admits the RFC 8020 cut only for a        *)
(* request tree that is neither audience-scoped (client ECS, whether or    *)
(* not the forwarding policy kept the option) nor CD; the hit ladder       *)
(* consults the cut only for such trees.  Requests enter message-born or   *)
(* wire-born: the marker "the client sent ECS" has to survive the          *)
(* wire-born request's detachment (Chain.detachStrictContext).             *)
(*                                                                         *)
(* Two further dimensions (gap closing, seeded C19-r3-1 / C19-r3-3):       *)
(*  - Shapes: what the client's subnet option looks like.  "v4" / "v6" a   *)
(*    real prefix, "zero" family 1 with source prefix 0, "empty" the RFC   *)
(*    7871 empty option (family 0, prefix 0, no address: dig +subnet=0).   *)
(*    Every one of them is "a query that carried ECS"; the wire-born entry *)
(*    recognises the option with its own byte parser (parseWireOPT), the   *)
(*    message-born one with the library's.                                 *)
(*  - the request tree consults the shared denial state at TWO sites: the  *)
(*    cache's hit ladder for the client's question (front) and the Store   *)
(*    the resolver reads for its private DS / DNSKEY sub-queries (sub).    *)
(*    The sub site matters once the denied subtree has come to life as a   *)
(*    signed delegation (Birth) while the cut recorded before is still     *)
(*    there: a validating tree that gets past the front site resolves the  *)
(*    client's question at the new zone and needs that zone's DNSKEY,      *)
(*    which lies under the cut.  The marker must reach the Store           *)
(*    (ContextStore.GetWithContext), or the sub-query is answered from the *)
(*    shared cut and the tree fails on a denial it must not have seen.     *)
(***************************************************************************)
EXTENDS Naturals, TLC

CONSTANTS Kinds,      \* {"plain", "ecs", "cd", "ecscd"}
          Borns,      \* {"msg", "wire"}
          Flags,      \* client flag sets [do, ad]: what the client asked to be told about validation
          Shapes,     \* shapes of the client's subnet option: {"v4", "v6", "zero", "empty"}
          MaxSteps,
          Births,     \* may the denied subtree come to life (Birth)?  FALSE = the module before the sub site existed
          LoseMarker, \* mutant: the ECS marker does not survive the detachment of a wire-born request
          EmptyUnmarked,  \* mutant: the wire-born entry does not take the empty subnet option for ECS
          SubLosesMarker  \* mutant: the resolver's private sub-queries reach the Store without the request tree's marker

VARIABLES cut,        \* a shared subtree cut covering the name exists
          alive,      \* the parent meanwhile delegates the denied name to a signed child that has the names asked for
          keyed,      \* the new zone's DNSKEY is in the (shared, exact-match) answer cache: later trees do not look it up
          n,
          last        \* [kind, born, f, shape, out, ad, sub]  out \in {"down", "synth", "pos", "subsynth"}; sub = the tree
                      \* asked the Store for the new zone's DNSKEY while the cut was there  (hidden by VIEW)

vars == <<cut, alive, keyed, n, last>>

HasEcs(k) == k \in {"ecs", "ecscd"}
HasCd(k)  == k \in {"cd", "ecscd"}
ShapesOf(k) == IF HasEcs(k) THEN Shapes ELSE {"none"}

Scoped(k, b, s) == /\ HasEcs(k)
                   /\ ~(LoseMarker /\ b = "wire")
                   /\ ~(EmptyUnmarked /\ b = "wire" /\ s = "empty")
Bypass(k, b, s) == Scoped(k, b, s) \/ HasCd(k)
(* what the Store sees of the tree when the resolver asks it for a DS / DNSKEY (CD rides on the sub-query message) *)
BypassSub(k, b, s) == (Scoped(k, b, s) /\ ~SubLosesMarker) \/ HasCd(k)

NoFlags == [do |-> FALSE, ad |-> FALSE]
Init == /\ cut = FALSE /\ alive = FALSE /\ keyed = FALSE /\ n = 0
        /\ last = [kind |-> "none", born |-> "none", f |-> NoFlags, shape |-> "none", out |-> "none", ad |-> FALSE, sub |-> FALSE]

(* the denial is validated either way (resolved or synthesised from the validated cut): the reply's AD bit is the
   edns layer's decision alone -- clear toward CD and toward a client that set neither DO nor AD (C06) *)
ReplyAD(k, f) == ~HasCd(k) /\ (f.do \/ f.ad)

Rec(k, b, f, s, o, ad, sub) == [kind |-> k, born |-> b, f |-> f, shape |-> s, out |-> o, ad |-> ad, sub |-> sub]

Ask(k, b, f, s) ==
  /\ n < MaxSteps
  /\ n' = n + 1
  /\ alive' = alive
  /\ IF cut /\ ~Bypass(k, b, s)
       THEN \* front site: answered from the shared cut, no upstream work (stale after Birth, and rightly so: shared state)
            /\ last' = Rec(k, b, f, s, "synth", ReplyAD(k, f), FALSE)
            /\ UNCHANGED <<cut, keyed>>
       ELSE IF ~alive
       THEN \* resolved: a validated NXDOMAIN comes back and is admitted only for an unscoped, CD=0 tree
            /\ last' = Rec(k, b, f, s, "down", ReplyAD(k, f), FALSE)
            /\ cut' = (cut \/ ~Bypass(k, b, s))
            /\ keyed' = keyed
       ELSE IF HasCd(k)
       THEN \* resolved at the new zone, nothing validated: no DNSKEY is needed
            /\ last' = Rec(k, b, f, s, "pos", FALSE, FALSE)
            /\ UNCHANGED <<cut, keyed>>
       ELSE IF ~keyed /\ cut /\ ~BypassSub(k, b, s)
       THEN \* sub site: the DNSKEY sub-query is answered from the shared cut; the tree cannot validate and fails
            /\ last' = Rec(k, b, f, s, "subsynth", FALSE, TRUE)
            /\ UNCHANGED <<cut, keyed>>
       ELSE \* the new zone's key is fetched (or was cached): validated positive answer
            /\ last' = Rec(k, b, f, s, "pos", ReplyAD(k, f), ~keyed /\ cut)
            /\ keyed' = TRUE
            /\ cut' = cut

Birth ==
  /\ Births /\ ~alive /\ n < MaxSteps
  /\ alive' = TRUE
  /\ n' = n + 1
  /\ last' = Rec("none", "none", NoFlags, "none", "none", FALSE, FALSE)
  /\ UNCHANGED <<cut, keyed>>

Next == \/ \E k \in Kinds, b \in Borns, f \in Flags : \E s \in ShapesOf(k) : Ask(k, b, f, s)
        \/ Birth
Spec == Init /\ [][Next]_vars

Carried(k) == k \in {"ecs", "cd", "ecscd"}
(* an ECS- or CD-carrying query is never answered from shared synthesised state, at either site ... *)
NeverConsumes == [][Carried(last'.kind) => last'.out \in {"down", "pos"}]_vars
(* ... and never creates it *)
NeverCreates  == [][Carried(last'.kind) => cut' = cut]_vars
(* C06 on every reply, synthesised ones included *)
ADDiscipline  == [][last'.ad => (~HasCd(last'.kind) /\ (last'.f.do \/ last'.f.ad))]_vars
(* vacuity: the cut is used at all; the sub site is passed by a marked tree while the cut is there *)
NeverSynth == last.out # "synth"
NeverSubPassed == ~(last.out = "pos" /\ HasEcs(last.kind) /\ last.sub)

View == <<cut, alive, keyed, n>>
=============================================================================
