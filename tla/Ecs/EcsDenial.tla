------------------------------ MODULE EcsDenial ------------------------------
(***************************************************************************)
(* C19, last clause: a query that carried ECS or CD neither consumes nor   *)
(* creates shared synthesised denials.                                     *)
(*                                                                         *)
(* One subtree of a signed zone that does not exist; the resolver position *)
(* answers every question beneath it with a validated NXDOMAIN (the        *)
(* resolver-to-cache trust seam: ValidatedNegativeProof, Aggressive).      *)
(* cache.ResponseWriter.WriteMsg admits the RFC 8020 cut only for a        *)
(* request tree that is neither audience-scoped (client ECS, whether or    *)
(* not the forwarding policy kept the option) nor CD; the hit ladder       *)
(* consults the cut only for such trees.  Requests enter message-born or   *)
(* wire-born: the marker "the client sent ECS" has to survive the          *)
(* wire-born request's detachment (Chain.detachStrictContext).             *)
(***************************************************************************)
EXTENDS Naturals, TLC

CONSTANTS Kinds,      \* {"plain", "ecs", "cd", "ecscd"}
          Borns,      \* {"msg", "wire"}
          Flags,      \* client flag sets [do, ad]: what the client asked to be told about validation
          MaxSteps,
          LoseMarker  \* mutant: the ECS marker does not survive the detachment of a wire-born request

VARIABLES cut,        \* a shared subtree cut covering the name exists
          n,
          last        \* [kind, born, f, out, ad]  out \in {"down", "synth"}, ad = AD bit of the reply  (hidden by VIEW)

vars == <<cut, n, last>>

Scoped(k, b) == k \in {"ecs", "ecscd"} /\ ~(LoseMarker /\ b = "wire")
Bypass(k, b) == Scoped(k, b) \/ k \in {"cd", "ecscd"}

NoFlags == [do |-> FALSE, ad |-> FALSE]
Init == cut = FALSE /\ n = 0 /\ last = [kind |-> "none", born |-> "none", f |-> NoFlags, out |-> "none", ad |-> FALSE]

(* the denial is validated either way (resolved or synthesised from the validated cut): the reply's AD bit is the
   edns layer's decision alone -- clear toward CD and toward a client that set neither DO nor AD (C06) *)
ReplyAD(k, f) == k \notin {"cd", "ecscd"} /\ (f.do \/ f.ad)

Ask(k, b, f) ==
  /\ n < MaxSteps
  /\ IF cut /\ ~Bypass(k, b)
       THEN /\ last' = [kind |-> k, born |-> b, f |-> f, out |-> "synth", ad |-> ReplyAD(k, f)]     \* answered from the shared cut, no upstream work
            /\ cut' = cut
       ELSE /\ last' = [kind |-> k, born |-> b, f |-> f, out |-> "down", ad |-> ReplyAD(k, f)]      \* resolved: a validated NXDOMAIN comes back
            /\ cut' = (cut \/ ~Bypass(k, b))                          \* ... and is admitted only for an unscoped, CD=0 tree
  /\ n' = n + 1

Next == \E k \in Kinds, b \in Borns, f \in Flags : Ask(k, b, f)
Spec == Init /\ [][Next]_vars

(* an ECS- or CD-carrying query is never answered from shared synthesised state ... *)
NeverConsumes == [][last'.kind \in {"ecs", "cd", "ecscd"} => last'.out = "down"]_vars
(* ... and never creates it *)
NeverCreates  == [][last'.kind \in {"ecs", "cd", "ecscd"} => cut' = cut]_vars
(* C06 on every reply, synthesised ones included *)
ADDiscipline  == [][last'.ad => (last'.kind \notin {"cd", "ecscd"} /\ (last'.f.do \/ last'.f.ad))]_vars
(* the cut is used at all (vacuity) *)
NeverSynth == last.out # "synth"

View == <<cut, n>>
=============================================================================
