CONSTANTS
  Clients <- MCClients
  Addr <- MCAddr
  SentBits = {0, 16, 24, 32}
  Scopes = {0, 8, 20, 24, 32}
  Echoes = {0, 2, 4}
  FwdMax = 24
  Floor = 16
  Enabled = TRUE
  DropsMismatch <- AsBuilt
  MaxSteps = 3
INIT Init
NEXT Next
VIEW View
INVARIANTS TypeOK EcsLeavesOnlyIfAllowed NeverTooSpecific
PROPERTIES ScopedAudience DeclaredScopeAudience
CHECK_DEADLOCK FALSE
