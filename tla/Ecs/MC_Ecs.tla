------------------------------- MODULE MC_Ecs -------------------------------
EXTENDS Ecs
\* 98.51.100.10, 98.51.100.200 (same /24), 98.51.101.5 (same /16, other /24), 98.77.0.1 (other /16), 10.1.2.3
\* and 98.51.0.9: lives in the /24 that the ZERO-EXTENDED /16 announcement of clients 1-3 falls into, so a probe that
\* treats announced-but-unknown bits as zeros would hand its /24 answer to a client of another /24
\* (first octet < 128: TLC integers are 32-bit signed)
MCClients == 1..6
MCAddr == (1 :> 1647535114 @@ 2 :> 1647535304 @@ 3 :> 1647535365 @@ 4 :> 1649213441 @@ 5 :> 167838211 @@ 6 :> 1647509513)
AsBuilt == FALSE
=============================================================================
