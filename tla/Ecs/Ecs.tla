--------------------------------- MODULE Ecs ---------------------------------
(***************************************************************************)
(* ECS-aware caching (C19): what leaves upstream, under which key a scoped *)
(* answer is stored, and who may be served from it.                        *)
(*                                                                         *)
(* Transcribed from dnsutil.SetEdns0 + ecs.Policy.Clamp (forwarding),      *)
(* cache.requestScope / scopedLookup (longest-prefix probe from the        *)
(* client's forwarded bits down to /1, then the shared key),               *)
(* ecs.ReadResponseScope + Policy.ClampScope (stored scope = authority's   *)
(* scope, no more specific than what was forwarded nor than the floor),    *)
(* and the scoped TTL cap / prefetch exclusion.                            *)
(* Addresses are IPv4 as integers; one question per behaviour.             *)
(***************************************************************************)
EXTENDS Integers, FiniteSets, Sequences, TLC

CONSTANTS Clients,     \* set of client ids
          Addr,        \* [Clients -> 0..2^32-1]
          SentBits,    \* set of source prefix lengths a client may send; 0 = no ECS option
          Scopes,      \* set of SCOPE values the authority may return
          Echoes,      \* what subnet the authority's option echoes: 0 = the one it was sent (RFC 7871 7.3: FAMILY,
                       \* SOURCE PREFIX-LENGTH and ADDRESS must match the query); k > 0 = client k's subnet instead
          FwdMax,      \* policy: forward at most this many bits
          Floor,       \* policy: min_scope (stored scope no more specific than this)
          Enabled,     \* policy enabled
          MaxSteps

VARIABLES scoped,    \* set of [base, bits, gen]
          shared,    \* 0 or gen of the entry under the shared key
          gens,      \* sequence of upstream exchanges: [fwdBase, fwdBits, scope, echoBase]  (ghost + oracle)
          n,
          last       \* last client-visible outcome (hidden by VIEW)

vars == <<scoped, shared, gens, n, last>>

Pow2(k) == 2 ^ k
Pfx(a, b) == IF b = 0 THEN 0 ELSE (a \div Pow2(32 - b)) * Pow2(32 - b)
Min(a, b) == IF a < b THEN a ELSE b

(* what SetEdns0 re-attaches for upstream: nothing unless enabled and the client sent ECS *)
FwdBits(sent) == IF ~Enabled \/ sent = 0 THEN 0 ELSE Min(sent, FwdMax)

(* ClampScope *)
StoredBits(scope, fwdBits) == Min(Min(scope, fwdBits), Floor)

(* A reply whose subnet option does not echo the query's MUST be dropped (RFC 7871 7.3 / 11.2).  As built
   (DropsMismatch overridden to FALSE in MC_Ecs_echo_asbuilt.cfg, which must FAIL) nothing compares the two:
   ecs.ReadResponseScope builds the scope from the ECHOED address and the cache keys the answer on it. *)
DropsMismatch == TRUE

Init == scoped = {} /\ shared = 0 /\ gens = <<>> /\ n = 0 /\ last = [kind |-> "init"]

(* scopedLookup: longest stored prefix containing the client's forwarded prefix *)
Probe(base, bits) ==
  LET cand == {e \in scoped : e.bits >= 1 /\ e.bits <= bits /\ e.base = Pfx(base, e.bits)}
  IN IF cand = {} THEN 0
     ELSE (CHOOSE e \in cand : \A f \in cand : f.bits <= e.bits).gen

Query(c, sent, scope, echo) ==
  /\ n < MaxSteps
  /\ LET fb == FwdBits(sent)
         base == Pfx(Addr[c], fb)
         hit == IF fb > 0 THEN Probe(base, fb) ELSE 0
     IN IF hit # 0 THEN
          /\ last' = [kind |-> "hit", c |-> c, sent |-> sent, gen |-> hit, scopedHit |-> TRUE]
          /\ UNCHANGED <<scoped, shared, gens>>
        ELSE IF shared # 0 THEN
          /\ last' = [kind |-> "hit", c |-> c, sent |-> sent, gen |-> shared, scopedHit |-> FALSE]
          /\ UNCHANGED <<scoped, shared, gens>>
        ELSE
          LET g == Len(gens) + 1
              sc == IF fb = 0 THEN 0 ELSE scope      \* an authority that saw no ECS returns none
              eb == IF fb = 0 \/ echo = 0 THEN base ELSE Pfx(Addr[echo], fb)   \* the subnet its option names
              mismatch == eb # base
          IN IF mismatch /\ DropsMismatch THEN
               \* the exchange happened, its reply is not used: nothing stored, the client is not served from it
               \* (it leaves no trace in the cache state, so it is not numbered among the exchanges either)
               /\ last' = [kind |-> "dropped", c |-> c, sent |-> sent, scope |-> sc, fwdBits |-> fb, fwdBase |-> base, echoBase |-> eb]
               /\ UNCHANGED <<scoped, shared, gens>>
             ELSE
               /\ gens' = Append(gens, [fwdBase |-> base, fwdBits |-> fb, scope |-> sc, echoBase |-> eb])
               /\ IF sc = 0
                    THEN shared' = g /\ UNCHANGED scoped
                    ELSE scoped' = scoped \cup {[base |-> Pfx(eb, StoredBits(sc, fb)), bits |-> StoredBits(sc, fb), gen |-> g]}
                         /\ UNCHANGED shared
               /\ last' = [kind |-> "miss", c |-> c, sent |-> sent, gen |-> g, scope |-> sc, fwdBits |-> fb]
  /\ n' = n + 1

Next == \E c \in Clients, s \in SentBits, sc \in Scopes, e \in Echoes : Query(c, s, sc, e)
Spec == Init /\ [][Next]_vars

(* ------------------------------ properties ---------------------------- *)
(* ECS leaves only when enabled, truncated to <= FwdMax with host bits zero *)
EcsLeavesOnlyIfAllowed ==
  \A i \in 1..Len(gens) :
    /\ gens[i].fwdBits <= FwdMax
    /\ (~Enabled => gens[i].fwdBits = 0)
    /\ gens[i].fwdBase = Pfx(gens[i].fwdBase, gens[i].fwdBits)

(* a scoped answer is served only to clients inside its (clamped) scope *)
ScopedAudience ==
  [][(last'.kind = "hit" /\ gens[last'.gen].scope # 0) =>
       LET g == gens[last'.gen]
           b == StoredBits(g.scope, g.fwdBits)
       IN /\ last'.sent # 0                                  \* a client without ECS never gets a scoped answer
          /\ Pfx(Addr[last'.c], b) = Pfx(g.fwdBase, b)]_vars

(* the same clause on the exchange itself: the client that asked is served the answer only if it lies inside the
   scope the authority DECLARED (the subnet its option names, as far as the scope and the forwarded bits reach) *)
DeclaredScopeAudience ==
  [][(last'.kind = "miss" /\ gens'[last'.gen].scope # 0) =>
       LET g == gens'[last'.gen]
           b == Min(g.scope, g.fwdBits)
       IN Pfx(g.fwdBase, b) = Pfx(g.echoBase, b)]_vars

(* never stored more specific than what was forwarded or than the floor *)
NeverTooSpecific == \A e \in scoped : e.bits <= Floor /\ e.bits <= gens[e.gen].fwdBits /\ e.bits >= 1

TypeOK == n \in 0..MaxSteps /\ shared \in 0..MaxSteps

View == <<scoped, shared, gens, n>>
=============================================================================
