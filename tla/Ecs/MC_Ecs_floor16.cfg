CONSTANTS
  Clients <- MCClients
  Addr <- MCAddr
  SentBits = {0, 16, 24, 32}
  Scopes = {0, 8, 20, 24, 32}
  FwdMax = 24
  Floor = 16
  Enabled = TRUE
  MaxSteps = 3
  Fwd6Max = 56
  Floor6 = 48
  Allow = {}
  Mapped = {}
  CDs = {FALSE}
  UpCd = {"echo"}
  Dnssec = FALSE
  Bug = "none"
INIT Init
NEXT Next
VIEW View
INVARIANTS TypeOK EcsLeavesOnlyIfAllowed NeverTooSpecific
PROPERTIES ScopedAudience
CHECK_DEADLOCK FALSE
