SPECIFICATION Spec
CONSTANTS
  NSs = {"n1"}
  SNs = {"a", "b"}
  SliceNames = {"e1", "e2"}
  PodNames = {"pa", "pb"}
  UIDs = {"u1", "u2"}
  V4 <- MC_V4
  V6 <- MC_V6
  SvcMenu <- MC_SvcMenu
  EpMenu <- MC_EpMenu
  PodMenu <- MC_PodMenu
  SvcIdx = {4, 5, 9, 1, 6}
  EpIdx = {1, 2, 3, 5, 7}
  PodIdx = {1, 2, 3, 4}
  OwnerMenu = {"", "u1"}
  SliceOrder <- Order2
  Mode = "inline"
  Mutant = ""
  Repair = {}
  SharedIP = TRUE
  FutureOwner = TRUE
  Kinds = {"svc", "slice"}
  MaxEvents = 28
  Oracle = TRUE
  Script <- NoScript
INVARIANTS TypeOK
