------------------------------ MODULE MC_Kube ------------------------------
(* The menus of object versions the callbacks deliver (one numbering for every configuration, so that the
   action labels of any TLC run are a Script for any other), and the scripted history. *)
EXTENDS KubeRegistry

c1 == "10.96.0.1"
c2 == "10.96.0.2"
c6 == "fd00::6"
p1 == "10.244.0.1"
p2 == "10.244.0.2"
p6 == "fd00:1::6"

S(kind, ips, ports, ext) == [kind |-> kind, ips |-> ips, ports |-> ports, ext |-> ext]
E(host, ready, addrs)    == [host |-> host, ready |-> ready, addrs |-> addrs]
http80   == <<"http", "TCP", 80>>
http8080 == <<"http", "TCP", 8080>>
dnsU     == <<"dns", "UDP", 53>>
dnsT     == <<"dns", "TCP", 53>>
anon9    == <<"", "TCP", 9>>

MC_V4 == {c1, c2, p1, p2}
MC_V6 == {c6, p6}

MC_SvcMenu == << S("cip", <<c1>>, <<http80>>, ""),                      \*  1
                 S("cip", <<c2>>, <<http8080>>, ""),                    \*  2
                 S("cip", <<c1, c6>>, <<http80, dnsU, dnsT>>, ""),      \*  3  dual stack, one name on two protocols
                 S("hl",  <<>>, <<http80>>, ""),                        \*  4
                 S("hl",  <<>>, <<http8080, anon9>>, ""),               \*  5  an unnamed port has no SRV
                 S("ext", <<>>, <<>>, "x.example."),                    \*  6
                 S("cip", <<c6>>, <<>>, ""),                            \*  7  IPv6 only
                 S("cip", <<c2>>, <<http8080, dnsU>>, ""),              \*  8
                 S("hl",  <<>>, <<http8080>>, ""),                      \*  9
                 S("cip", <<c1, c6>>, <<http80>>, "") >>                \* 10
MC_EpMenu  == << <<>>,                                                              \* 1
                 <<E("w0", TRUE, <<p1>>)>>,                                         \* 2
                 <<E("w0", TRUE, <<p1>>), E("", TRUE, <<p2>>)>>,                    \* 3
                 <<E("", FALSE, <<p2>>)>>,                                          \* 4  not ready: no record
                 <<E("w0", TRUE, <<p2>>)>>,                                         \* 5  the hostname moved
                 <<E("", TRUE, <<p1>>), E("w1", TRUE, <<p2, p6>>)>>,                \* 6
                 <<E("", TRUE, <<p1>>)>>,                                           \* 7
                 <<E("w0", TRUE, <<p1>>), E("", FALSE, <<p2>>)>>,                   \* 8
                 <<E("w0", TRUE, <<p2>>), E("", TRUE, <<p1>>)>> >>                  \* 9
MC_PodMenu == << <<>>, <<p1>>, <<p2>>, <<p1, p6>> >>

Order2   == <<"e1", "e2">>
Order1   == <<"e1">>
NoScript == <<>>
(* replaced by the check (in its scratch copy) with the histories to run through the model; see checks/xkube.py *)
ScriptDef == << <<"svcAdd", "n1", "a", 4, "u1">>, <<"sliceAdd", "n1", "e1", "a", "u1", 2>>, <<"sync">> >>

(* Outcome (the spec's cachedAnswer) on a few answer sets: the replay driver's own rendering is pinned to it *)
ka == <<"n1", "a">>
SampleSets == << [ES EXCEPT !.a = {c1}, !.aaaa = {c6}],
                 [ES EXCEPT !.a = {p1, p2}],
                 [ES EXCEPT !.cname = {"x.example."}, !.fb = TRUE],
                 [ES EXCEPT !.cname = {"x.example."}],
                 [ES EXCEPT !.srv = {<<80, Svc(ka)>>}, !.extra = {<<Svc(ka), c1>>, <<Svc(ka), c6>>}],
                 [ES EXCEPT !.ptr = {Svc(ka)}],
                 ES >>
Card5(t) == Cardinality(t[1]) + Cardinality(t[2]) + Cardinality(t[3]) + Cardinality(t[4]) + Cardinality(t[5])
OutcomeTable == [i \in DOMAIN SampleSets |-> [qt \in QTypes |->
                   LET o == Outcome(SampleSets[i], qt)
                   IN <<o.f, IF o.f = "any" THEN Card5(o.ans) ELSE Cardinality(o.ans), Cardinality(o.extra)>>]]
ASSUME PrintT(<<"XKUBE-OUTCOMES", SampleSets, OutcomeTable>>)
=============================================================================
