SPECIFICATION Spec
VIEW View
CONSTANTS
  NSs = {"n1"}
  SNs = {"a", "b"}
  SliceNames = {"e1"}
  PodNames = {"pa"}
  UIDs = {"u1", "u2"}
  V4 <- MC_V4
  V6 <- MC_V6
  SvcMenu <- MC_SvcMenu
  EpMenu <- MC_EpMenu
  PodMenu <- MC_PodMenu
  SvcIdx = {1, 8, 10, 6}
  EpIdx = {1, 2, 9}
  PodIdx = {1}
  OwnerMenu = {"", "u1"}
  SliceOrder <- Order1
  Mode = "inline"
  Mutant = ""
  Repair = {"podshare", "resurrect", "ownerless", "replaced"}
  SharedIP = TRUE
  FutureOwner = FALSE
  Kinds = {"svc"}
  MaxEvents = 99
  Oracle = FALSE
  Script <- NoScript
INVARIANTS AgreePtr
