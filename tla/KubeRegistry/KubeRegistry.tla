--------------------------- MODULE KubeRegistry ---------------------------
(***************************************************************************)
(* The kubernetes middleware of sdns (middleware/kubernetes) as a state    *)
(* machine: the informer callbacks of Client (client.go), the sharded      *)
(* Registry with its pre-built answers (registry.go), the incremental      *)
(* per-slice state of headless services (headless.go) and the handler's    *)
(* Query (kubernetes.go ServeDNS + Registry.cachedAnswer).                 *)
(*                                                                         *)
(* One action per informer callback (SvcAdd / SvcUpdate / SvcDelete,       *)
(* SliceAdd / SliceUpdate / SliceDelete, PodAdd / PodUpdate / PodDelete),  *)
(* plus Sync (WaitForCacheSync .. synced.Store(true)) and FlushStep (the   *)
(* rebuild worker's processPending) when Mode = "queued".  Mode = "inline" *)
(* is scheduleRebuild's documented test path (no worker: rebuild at once). *)
(*                                                                         *)
(* The registry operators are written as functions on a record r (svc,     *)
(* byip, ep, hs, ans, pods, podip) and thread a per-name history `hist` of *)
(* every putAnswer of the running callback, in program order: what a       *)
(* concurrent reader of ONE name can see while the callback runs.          *)
(*                                                                         *)
(* Ghost state: the informer's view (vsvc, vslice, vpod = the last object  *)
(* delivered per key), `used` (UIDs are never re-used), `ev` (the callback *)
(* that led here), `gh` (what the history did: addresses ever shared, keys *)
(* deleted / replaced, slices that arrived ahead of their owner), and, for *)
(* the replay, `tr` (the documented answers of every existing name) and    *)
(* `why` (the classification of every name on which the as-built registry *)
(* differs).  TruthOf(view) is the documented answer of every name (README *)
(* of the middleware + Kubernetes DNS specification + the doc comments of  *)
(* the package); Agree* say that the pre-built answers equal it.           *)
(*                                                                         *)
(* Repair \subseteq {"podshare","ipshare","resurrect","ownerless",         *)
(* "replaced"} turns five as-built behaviours into a repaired form (see    *)
(* the comment at each use); Repair = {} is the code as built (what the    *)
(* replay compares the real code with).  FutureOwner / SharedIP open the   *)
(* delivery orders of two further findings.  Mutant seeds one defect       *)
(* (negative configurations).  Script makes the behaviour follow a given   *)
(* list of callbacks (directed histories, replay files, simulated runs and *)
(* graph walks are all run through the model this way, -dumpTrace json).   *)
(***************************************************************************)
EXTENDS Naturals, Sequences, FiniteSets, TLC

CONSTANTS
  NSs, SNs,          \* namespaces, service names
  SliceNames,        \* EndpointSlice names (per namespace)
  PodNames,          \* pod names (per namespace)
  UIDs,              \* service UIDs
  V4, V6,            \* address universes
  SvcMenu,           \* sequence of [kind, ips, ports, ext]
  EpMenu,            \* sequence of endpoint lists  <<[host, ready, addrs], ...>>
  SvcIdx, EpIdx, PodIdx,   \* the menu entries this configuration delivers (indices)
  OwnerMenu,         \* subset of UIDs \cup {""}: ownerReference of a slice
  PodMenu,           \* sequence of address lists
  SliceOrder,        \* SliceNames as a sequence (aggregation order)
  Mode,              \* "inline" | "queued"
  Mutant,            \* "" | "stale_on_update" | "ptr_kept" | "srv_prev_ports" | "headless_merge"
  Repair,            \* repaired findings
  SharedIP,          \* may two live objects of one kind hold the same address
  FutureOwner,       \* may a slice owned by an incarnation arrive before any Service event of that incarnation
  Kinds,             \* subset of {"svc","slice","pod"}: callbacks enabled
  MaxEvents,
  Script,            \* <<>>, or the callbacks to perform, in order: <<"svcAdd", ns, sn, i, uid>>, ..., <<"sync">>,
                     \* <<"flush">>, <<"reset">> (back to the initial state: several histories in one behaviour)
  Oracle             \* BOOLEAN: publish the documented answers (tr) and the classification (why) in every state (replay)

VARIABLES r, c, synced, vsvc, vslice, vpod, used, ev, nev, gh, tr, why, pos

vars == <<r, c, synced, vsvc, vslice, vpod, used, ev, nev, gh, tr, why, pos>>

SvcKeys   == NSs \X SNs
SliceKeys == NSs \X SliceNames
PodKeys   == NSs \X PodNames
IPs       == V4 \cup V6
SYN       == "_set_endpoints"

EmptyF       == [x \in {} |-> 0]
Has(f, k)    == k \in DOMAIN f
Drop(f, K)   == [x \in DOMAIN f \ K |-> f[x]]
Put1(f, k, v) == (k :> v) @@ f
Get(f, k, d) == IF k \in DOMAIN f THEN f[k] ELSE d
Range(s)     == {s[i] : i \in DOMAIN s}

(* ---- owner names ------------------------------------------------------- *)
Svc(k)         == <<"svc", k>>                \* s.ns.svc.<zone>
Srv(pn, pr, k) == <<"srv", pn, pr, k>>        \* _pn._pr.s.ns.svc.<zone>
Ept(l, k)      == <<"ept", l, k>>             \* l.s.ns.svc.<zone>, l = hostname or dashed address
PodN(ip, ns)   == <<"pod", ip, ns>>           \* dashed-ip.ns.pod.<zone>
Rev(ip)        == <<"rev", ip>>               \* in-addr.arpa / ip6.arpa

(* ---- answer sets (registry.go answerSet) ------------------------------- *)
ES   == [x |-> TRUE, a |-> {}, aaaa |-> {}, cname |-> {}, srv |-> {}, ptr |-> {}, fb |-> FALSE, extra |-> {}]
Gone == [ES EXCEPT !.x = FALSE]               \* "no entry" in a history

Named(s)   == {p \in Range(s.ports) : p[1] # ""}
SrvNames(s, k) == {Srv(p[1], p[2], k) : p \in Named(s)}
PortOf(s, n)   == (CHOOSE p \in Named(s) : Srv(p[1], p[2], n[4]) = n)[3]
IpSet(s)   == Range(s.ips)

(* every putAnswer of the running callback is appended to hist[name].  hist is outside the VIEW, so TLC never
   fingerprints it; Eager makes it an explicit function (a lazy one cannot be written to TLC's disk queue) *)
Eager(f) == f @@ EmptyF
PutAll(rr, f) ==
  [rr EXCEPT !.ans = f @@ rr.ans,
             !.hist = Eager([n \in DOMAIN rr.hist \cup DOMAIN f |->
                               Get(rr.hist, n, <<>>) \o (IF n \in DOMAIN f THEN <<f[n]>> ELSE <<>>)])]
DelAll(rr, N) ==
  [rr EXCEPT !.ans = Drop(rr.ans, N),
             !.hist = Eager([n \in DOMAIN rr.hist \cup N |->
                               Get(rr.hist, n, <<>>) \o (IF n \in N THEN <<Gone>> ELSE <<>>)])]

(* ======================================================================= *)
(* headless.go                                                             *)
(* ======================================================================= *)
HS0 == [contribs |-> EmptyF, refs |-> EmptyF, srvq |-> EmptyF, ports |-> <<>>, ph |-> FALSE,
        pc |-> {}, dt |-> {}, ad |-> FALSE, td |-> FALSE]

Targets(h) == {p[1] : p \in DOMAIN h.refs}
Agg(h)     == {p[2] : p \in DOMAIN h.refs}

(* readyPairsFromEndpoints: target label -> addresses; anonymous endpoints get one target per address *)
PairsOf(e) == {<<(IF e.host # "" THEN e.host ELSE e.addrs[i]), e.addrs[i]>> : i \in DOMAIN e.addrs}
Pairs(eps) == UNION {PairsOf(e) : e \in {x \in Range(eps) : x.ready}}

RemovePairs(h, P) ==
  LET P1    == {p \in P : p[1] \in Targets(h)}
      gone  == {p \in P1 : Get(h.refs, p, 0) <= 1}
      refs2 == [p \in DOMAIN h.refs \ gone |-> IF p \in P1 THEN h.refs[p] - 1 ELSE h.refs[p]]
      T2    == {p[1] : p \in DOMAIN refs2}
      E     == Targets(h) \ T2
      sq    == [n \in DOMAIN h.srvq |-> h.srvq[n] \ E]
  IN [h EXCEPT !.refs = refs2,
               !.dt   = @ \cup {p[1] : p \in gone},
               !.pc   = @ \cup E,
               !.td   = @ \/ E # {},
               !.srvq = IF E = {} THEN @ ELSE [n \in {m \in DOMAIN sq : sq[m] # {}} |-> sq[n]],
               !.ad   = @ \/ (\E ip \in Agg(h) : ip \notin {p[2] : p \in DOMAIN refs2})]

AddPairs(h, P) ==
  LET new   == P \ DOMAIN h.refs
      refs2 == [p \in DOMAIN h.refs \cup P |->
                  IF p \in DOMAIN h.refs THEN h.refs[p] + (IF p \in P THEN 1 ELSE 0) ELSE 1]
  IN [h EXCEPT !.refs = refs2,
               !.td   = @ \/ ({p[1] : p \in P} \ Targets(h)) # {},
               !.dt   = @ \cup {p[1] : p \in new},
               !.ad   = @ \/ (\E p \in new : p[2] \notin Agg(h))]

(* applySliceDelta; the seeded defect "headless_merge" forgets to retract *)
Delta(h, prev, next) ==
  LET h1 == IF Mutant = "headless_merge" THEN h ELSE RemovePairs(h, Pairs(prev) \ Pairs(next))
  IN AddPairs(h1, Pairs(next) \ Pairs(prev))

TSet(h, t) == LET ips == {p[2] : p \in {q \in DOMAIN h.refs : q[1] = t}}
              IN [ES EXCEPT !.a = ips \cap V4, !.aaaa = ips \cap V6]

(* materialiseHeadlessLocked *)
Materialise(rr, k, s) ==
  LET h       == rr.hs[k]
      T       == Targets(h)
      ports   == IF Mutant = "srv_prev_ports" /\ h.ph THEN h.ports ELSE s.ports
      sp      == [s EXCEPT !.ports = ports]
      changed == ~h.ph \/ h.ports # s.ports
      srvDirty == h.td \/ changed
      r1 == IF h.ad THEN PutAll(rr, Svc(k) :> [ES EXCEPT !.a = Agg(h) \cap V4, !.aaaa = Agg(h) \cap V6]) ELSE rr
      r2 == PutAll(r1, [n \in {Ept(t, k) : t \in h.dt \cap T} |-> TSet(h, n[2])])
      glue  == h.ad \/ h.dt # {}
      extra == {<<Ept(p[1], k), p[2]>> : p \in DOMAIN h.refs}
      wanted == SrvNames(sp, k)
      r3 == IF srvDirty
            THEN DelAll(PutAll(r2, [n \in wanted |->
                                      [ES EXCEPT !.srv = {<<PortOf(sp, n), Ept(t, k)>> : t \in T}, !.extra = extra]]),
                        DOMAIN h.srvq \ wanted)
            ELSE IF glue
            THEN PutAll(r2, [n \in {m \in DOMAIN h.srvq : m \in DOMAIN r2.ans} |->
                               [ES EXCEPT !.srv = r2.ans[n].srv, !.extra = extra]])
            ELSE r2
      r4 == DelAll(r3, {Ept(t, k) : t \in h.pc \ T})
      h2 == [h EXCEPT !.pc = {}, !.dt = {}, !.ad = FALSE, !.td = FALSE, !.ports = s.ports, !.ph = TRUE,
                      !.srvq = IF srvDirty THEN [n \in wanted |-> T] ELSE @]
  IN [r4 EXCEPT !.hs = Put1(@, k, h2)]

MaterialiseHeadless(rr, k) ==
  IF Has(rr.svc, k) /\ rr.svc[k].kind = "hl" /\ Has(rr.hs, k) THEN Materialise(rr, k, rr.svc[k]) ELSE rr

(* rebuildHeadlessFromService: re-seeds the synthetic contribution from the endpoint shard *)
RebuildHeadless(rr, k, s) ==
  LET eps  == Get(rr.ep, k, <<>>)
      h0   == Get(rr.hs, k, HS0)
      prev == Get(h0.contribs, SYN, <<>>)
      h1   == IF prev # eps
              THEN [Delta(h0, prev, eps) EXCEPT !.contribs = IF eps = <<>> THEN Drop(@, {SYN}) ELSE Put1(@, SYN, eps)]
              ELSE h0
      h2   == [h1 EXCEPT !.ad = TRUE, !.td = TRUE]
  IN Materialise([rr EXCEPT !.hs = Put1(@, k, h2)], k, s)

ApplySlice(rr, k, sl, eps) ==
  LET h0   == Get(rr.hs, k, HS0)
      h1   == IF sl # SYN /\ Has(h0.contribs, SYN)
              THEN [Delta(h0, h0.contribs[SYN], <<>>) EXCEPT !.contribs = Drop(@, {SYN})]
              ELSE h0
      prev == Get(h1.contribs, sl, <<>>)
      h2   == IF prev = eps THEN h1 ELSE [Delta(h1, prev, eps) EXCEPT !.contribs = Put1(@, sl, eps)]
  IN [rr EXCEPT !.hs = Put1(@, k, h2)]

RemoveSlice(rr, k, sl) ==
  IF ~Has(rr.hs, k) \/ ~Has(rr.hs[k].contribs, sl) THEN rr
  ELSE LET h == rr.hs[k]
       IN [rr EXCEPT !.hs = Put1(@, k, [Delta(h, h.contribs[sl], <<>>) EXCEPT !.contribs = Drop(@, {sl})])]

DropHeadless(rr, k) ==
  IF ~Has(rr.hs, k) THEN rr
  ELSE LET h == rr.hs[k]
       IN DelAll([rr EXCEPT !.hs = Drop(@, {k})],
                 {Svc(k)} \cup {Ept(t, k) : t \in Targets(h)} \cup DOMAIN h.srvq)

(* ======================================================================= *)
(* registry.go: services                                                   *)
(* ======================================================================= *)
RemoveServiceIPs(rr, k, prev) ==
  [rr EXCEPT !.byip = Drop(@, {ip \in IpSet(prev) : Has(rr.byip, ip) /\ rr.byip[ip] = k})]

(* another live ClusterIP service holding ip (the repaired uncache looks for one) *)
OtherHolders(rr, k, ip) == {k2 \in DOMAIN rr.svc \ {k} : rr.svc[k2].kind = "cip" /\ ip \in IpSet(rr.svc[k2])}

(* uncacheServiceAnswers.  As built it clears the PTR of every ClusterIP of prev without asking who owns it. *)
Uncache(rr, k, prev, ondel) ==
  LET revs == IF Mutant = "ptr_kept" /\ ondel THEN {} ELSE {Rev(ip) : ip \in IpSet(prev)}
      r1   == DelAll(rr, {Svc(k)} \cup revs \cup SrvNames(prev, k))
      back == {ip \in IpSet(prev) : OtherHolders(rr, k, ip) # {}}
  IN IF "ipshare" \in Repair /\ back # {}
     THEN LET own == [ip \in back |-> CHOOSE k2 \in OtherHolders(rr, k, ip) : TRUE]
          IN [PutAll(r1, [n \in {Rev(ip) : ip \in back} |-> [ES EXCEPT !.ptr = {Svc(own[n[2]])}]])
                EXCEPT !.byip = own @@ @]
     ELSE r1

CacheSvc(rr, k, s, prev) ==
  CASE s.kind = "ext" -> PutAll(rr, Svc(k) :> [ES EXCEPT !.cname = {s.ext}, !.fb = TRUE])
    [] s.kind = "hl"  -> RebuildHeadless(rr, k, s)
    [] OTHER ->
       LET set   == [ES EXCEPT !.a = IpSet(s) \cap V4, !.aaaa = IpSet(s) \cap V6]
           sp    == IF Mutant = "srv_prev_ports" THEN [s EXCEPT !.ports = prev.ports] ELSE s
           extra == {<<Svc(k), ip>> : ip \in IpSet(s)}
           r1    == PutAll(rr, Svc(k) :> set)
           r2    == PutAll(r1, [n \in {Rev(ip) : ip \in IpSet(s)} |-> [ES EXCEPT !.ptr = {Svc(k)}]])
       IN PutAll(r2, [n \in SrvNames(sp, k) |-> [ES EXCEPT !.srv = {<<PortOf(sp, n), Svc(k)>>}, !.extra = extra]])

AddService(rr, k, s) ==
  LET had  == Has(rr.svc, k)
      prev == IF had THEN rr.svc[k] ELSE s
      r1   == [rr EXCEPT !.svc = Put1(@, k, s)]
      r2   == IF ~had THEN r1
              ELSE LET a == RemoveServiceIPs(r1, k, prev)
                       b == IF Mutant = "stale_on_update" THEN a ELSE Uncache(a, k, prev, FALSE)
                   IN IF prev.kind = "hl" /\ s.kind # "hl" THEN DropHeadless(b, k) ELSE b
      r3   == [r2 EXCEPT !.byip = [ip \in IpSet(s) |-> k] @@ @]
  IN CacheSvc(r3, k, s, prev)

DeleteService(rr, k) ==
  LET r1 == [rr EXCEPT !.svc = Drop(@, {k})]
      r2 == IF ~Has(rr.svc, k) THEN r1
            ELSE LET prev == rr.svc[k]
                     a == Uncache(RemoveServiceIPs(r1, k, prev), k, prev, TRUE)
                 IN IF prev.kind = "hl" THEN DropHeadless(a, k) ELSE a
  IN [r2 EXCEPT !.ep = Drop(@, {k})]

(* SetEndpoints as the Client reaches it (rebuildService's non-headless branch) *)
SetEndpoints(rr, k, eps) ==
  [rr EXCEPT !.ep = IF eps = <<>> THEN Drop(@, {k}) ELSE Put1(@, k, eps)]

(* ======================================================================= *)
(* registry.go: pods                                                       *)
(* ======================================================================= *)
PodSet(ip, ns) == IF ip \in V4 THEN [ES EXCEPT !.a = {ip}] ELSE [ES EXCEPT !.aaaa = {ip}]

CachePod(rr, pk, p) ==
  LET ips == Range(p.ips)
      r1  == PutAll(rr, [n \in {PodN(ip, pk[1]) : ip \in ips} |-> PodSet(n[2], pk[1])])
  IN PutAll(r1, [n \in {Rev(ip) : ip \in ips} |-> [ES EXCEPT !.ptr = {PodN(n[2], pk[1])}]])

OtherPods(rr, pk, ip) == {q \in DOMAIN rr.pods \ {pk} : ip \in Range(rr.pods[q].ips)}

(* uncachePodAnswers.  As built it clears the names of every address of the pod without asking who else holds it. *)
UncachePod(rr, pk, p) ==
  LET ips  == Range(p.ips)
      r1   == DelAll(rr, {PodN(ip, pk[1]) : ip \in ips} \cup {Rev(ip) : ip \in ips})
      back == {ip \in ips : OtherPods(rr, pk, ip) # {}}
  IN IF "podshare" \in Repair /\ back # {}
     THEN LET own == [ip \in back |-> CHOOSE q \in OtherPods(rr, pk, ip) : TRUE]
              fw  == {<<ip, q[1]>> : ip \in back, q \in DOMAIN rr.pods \ {pk}}
              fwd == {x \in fw : \E q \in OtherPods(rr, pk, x[1]) : q[1] = x[2]}
              r2  == PutAll(r1, [n \in {PodN(x[1], x[2]) : x \in fwd} |-> PodSet(n[2], n[3])])
          IN [PutAll(r2, [n \in {Rev(ip) : ip \in back} |-> [ES EXCEPT !.ptr = {PodN(n[2], own[n[2]][1])}]])
                EXCEPT !.podip = own @@ @]
     ELSE r1

DropPodIPs(rr, pk, p) ==
  [rr EXCEPT !.podip = Drop(@, {ip \in Range(p.ips) : Has(rr.podip, ip) /\ rr.podip[ip] = pk})]

AddPod(rr, pk, p) ==
  LET had == Has(rr.pods, pk)
      r1  == [rr EXCEPT !.pods = Put1(@, pk, p)]
      r2  == IF had THEN DropPodIPs(UncachePod(r1, pk, rr.pods[pk]), pk, rr.pods[pk]) ELSE r1
      r3  == [r2 EXCEPT !.podip = [ip \in Range(p.ips) |-> pk] @@ @]
  IN CachePod(r3, pk, p)

DeletePod(rr, pk) ==
  IF ~Has(rr.pods, pk) THEN rr
  ELSE LET p  == rr.pods[pk]
           r1 == [rr EXCEPT !.pods = Drop(@, {pk})]
       IN UncachePod(DropPodIPs(r1, pk, p), pk, p)

(* ======================================================================= *)
(* client.go                                                               *)
(* ======================================================================= *)
NewEntry(uid) == [uid |-> uid, slices |-> EmptyF, owner |-> EmptyF, dirty |-> {}, dnil |-> TRUE]

RECURSIVE AggFrom(_, _)
AggFrom(slices, i) ==
  IF i > Len(SliceOrder) THEN <<>>
  ELSE Get(slices, SliceOrder[i], <<>>) \o AggFrom(slices, i + 1)

RECURSIVE FoldUps(_, _, _, _)
FoldUps(rr, k, e, S) ==
  IF S = {} THEN rr
  ELSE LET sl == CHOOSE x \in S : TRUE
           r1 == IF Has(e.slices, sl) THEN ApplySlice(rr, k, sl, e.slices[sl]) ELSE RemoveSlice(rr, k, sl)
       IN FoldUps(r1, k, e, S \ {sl})

(* rebuildService: <<registry, client>> *)
RebuildSvc(rr, cc, k) ==
  IF ~(Has(rr.svc, k) /\ rr.svc[k].kind = "hl")
  THEN LET has == Has(cc.cls, k) /\ DOMAIN cc.cls[k].slices # {}
           agg == IF has THEN AggFrom(cc.cls[k].slices, 1) ELSE <<>>
           c2  == IF has THEN [cc EXCEPT !.cls[k].dirty = {}, !.cls[k].dnil = TRUE] ELSE cc
       IN <<SetEndpoints(rr, k, agg), c2>>
  ELSE IF ~Has(cc.cls, k)
  THEN <<MaterialiseHeadless(IF "resurrect" \in Repair THEN RemoveSlice(rr, k, SYN) ELSE rr, k), cc>>
  ELSE LET e   == cc.cls[k]
           ups == IF e.dnil THEN DOMAIN e.slices ELSE e.dirty
           c2  == IF DOMAIN e.slices = {} /\ e.uid = ""
                  THEN [cc EXCEPT !.cls = Drop(@, {k})]
                  ELSE [cc EXCEPT !.cls[k].dirty = {}, !.cls[k].dnil = FALSE]
           \* repaired "resurrect": a rebuild of a headless service retracts the contribution that
           \* rebuildHeadlessFromService seeded from the endpoint shard (the tracked slices are the truth)
           r0  == IF "resurrect" \in Repair THEN RemoveSlice(rr, k, SYN) ELSE rr
           r1  == FoldUps(r0, k, e, ups)
           \* ... and keeps the endpoint shard current, so that the next re-seed changes nothing a reader can see
           r2  == IF "resurrect" \in Repair THEN SetEndpoints(r1, k, AggFrom(e.slices, 1)) ELSE r1
       IN <<MaterialiseHeadless(r2, k), c2>>

Schedule(rr, cc, k) ==
  IF Mode = "queued" THEN <<rr, [cc EXCEPT !.pending = @ \cup {k}]>> ELSE RebuildSvc(rr, cc, k)

RECURSIVE FlushSet(_, _, _)
FlushSet(rr, cc, S) ==
  IF S = {} THEN <<rr, cc>>
  ELSE LET k == CHOOSE x \in S : TRUE
           n == RebuildSvc(rr, cc, k)
       IN FlushSet(n[1], n[2], S \ {k})
Flush(rr, cc) == FlushSet(rr, [cc EXCEPT !.pending = {}], cc.pending)

(* onServiceAdd = onServiceUpdate *)
OnSvcUpsert(rr, cc, k, s) ==
  LET had  == Has(cc.cls, k)
      e    == IF had THEN cc.cls[k] ELSE NewEntry(s.uid)
      repl == had /\ e.uid # "" /\ e.uid # s.uid
      evict == IF had /\ ~repl THEN {sl \in DOMAIN e.owner : e.owner[sl] # "" /\ e.owner[sl] # s.uid} ELSE {}
      \* repaired "replaced": the slices dropped here are also retracted from the registry's per-slice state
      fix  == "replaced" \in Repair
      e2   == IF ~had THEN NewEntry(s.uid)
              ELSE IF repl
              THEN LET keep == IF "ownerless" \in Repair
                               THEN {sl \in DOMAIN e.slices : Get(e.owner, sl, "") = ""} ELSE {}
                       ne   == [NewEntry(s.uid) EXCEPT !.slices = [sl \in keep |-> e.slices[sl]]]
                   IN IF fix THEN [ne EXCEPT !.dirty = e.dirty \cup DOMAIN e.slices, !.dnil = FALSE] ELSE ne
              ELSE IF fix /\ evict # {}
              THEN [e EXCEPT !.uid = s.uid, !.slices = Drop(@, evict), !.owner = Drop(@, evict),
                             !.dirty = @ \cup DOMAIN e.slices, !.dnil = FALSE]
              ELSE [e EXCEPT !.uid = s.uid, !.slices = Drop(@, evict), !.owner = Drop(@, evict)]
      c1   == [cc EXCEPT !.tomb = Drop(@, {k}), !.cls = Put1(@, k, e2)]
      n1   == IF repl \/ evict # {} THEN Schedule(rr, c1, k) ELSE <<rr, c1>>
      c2   == n1[2]
      c3   == IF Has(c2.cls, k) /\ DOMAIN c2.cls[k].slices # {}
              THEN [c2 EXCEPT !.cls[k].dirty = @ \cup DOMAIN c2.cls[k].slices, !.cls[k].dnil = FALSE]
              ELSE c2
      r2   == AddService(n1[1], k, s)
  \* repaired "resurrect": ... and every upsert of a headless service is followed by such a rebuild
  IN IF (Has(c3.cls, k) /\ c3.cls[k].dirty # {}) \/ ("resurrect" \in Repair /\ s.kind = "hl")
     THEN Schedule(r2, c3, k) ELSE <<r2, c3>>

OnSvcDelete(rr, cc, k, uid) ==
  LET keep == IF "ownerless" \in Repair /\ Has(cc.cls, k)
              THEN {sl \in DOMAIN cc.cls[k].slices : Get(cc.cls[k].owner, sl, "") = ""} ELSE {}
      \* repaired "ownerless": slices without an ownerReference outlive the Service object
      cls2 == IF keep # {}
              THEN Put1(cc.cls, k, [uid |-> "", slices |-> [sl \in keep |-> cc.cls[k].slices[sl]],
                                    owner |-> EmptyF, dirty |-> {}, dnil |-> TRUE])
              ELSE Drop(cc.cls, {k})
      c1   == [cc EXCEPT !.cls = cls2, !.tomb = Put1(@, k, uid)]
      n1   == IF Mode = "queued" THEN Flush(rr, c1) ELSE <<rr, c1>>
  IN <<DeleteService(n1[1], k), n1[2]>>

(* applyEndpointSlice *)
ClientSlice(rr, cc, k, sl, owner, eps, deleted) ==
  IF owner # "" /\ Has(cc.tomb, k) /\ cc.tomb[k] = owner THEN <<rr, cc>>
  ELSE IF ~Has(cc.cls, k) /\ deleted THEN <<rr, cc>>
  ELSE LET e0 == IF Has(cc.cls, k) THEN cc.cls[k]
                 ELSE [uid |-> "", slices |-> EmptyF, owner |-> EmptyF, dirty |-> {}, dnil |-> FALSE]
           c0 == [cc EXCEPT !.cls = Put1(@, k, e0)]
       IN IF e0.uid # "" /\ owner # "" /\ owner # e0.uid THEN <<rr, c0>>
          ELSE IF deleted
          THEN IF ~Has(e0.slices, sl) THEN <<rr, c0>>
               ELSE Schedule(rr, [c0 EXCEPT !.cls[k].slices = Drop(@, {sl}), !.cls[k].owner = Drop(@, {sl}),
                                            !.cls[k].dirty = @ \cup {sl}, !.cls[k].dnil = FALSE], k)
          ELSE IF Has(e0.slices, sl) /\ e0.slices[sl] = eps
          THEN <<rr, IF owner # "" THEN [c0 EXCEPT !.cls[k].owner = Put1(@, sl, owner)] ELSE c0>>
          ELSE Schedule(rr, [c0 EXCEPT !.cls[k].slices = Put1(@, sl, eps),
                                       !.cls[k].owner = IF owner # "" THEN Put1(@, sl, owner) ELSE Drop(@, {sl}),
                                       !.cls[k].dirty = @ \cup {sl}, !.cls[k].dnil = FALSE], k)

OnSliceUpsert(rr, cc, sk, old, hasOld, new) ==
  LET n1 == IF hasOld /\ old.label # new.label
            THEN ClientSlice(rr, cc, <<sk[1], old.label>>, sk[2], old.owner, old.eps, TRUE)
            ELSE <<rr, cc>>
  IN ClientSlice(n1[1], n1[2], <<sk[1], new.label>>, sk[2], new.owner, new.eps, FALSE)

OnSliceDelete(rr, cc, sk, o) == ClientSlice(rr, cc, <<sk[1], o.label>>, sk[2], o.owner, o.eps, TRUE)

OnPodAdd(rr, pk, p)    == IF p.ips = <<>> THEN rr ELSE AddPod(rr, pk, p)
OnPodUpdate(rr, pk, p) == LET r1 == DeletePod(rr, pk) IN IF p.ips = <<>> THEN r1 ELSE AddPod(r1, pk, p)

(* ======================================================================= *)
(* The documented answers: a function of the informer's view               *)
(* ======================================================================= *)
Contributing(k) ==
  {sk \in DOMAIN vslice : sk[1] = k[1] /\ vslice[sk].label = k[2] /\ Has(vsvc, k)
                          /\ (vslice[sk].owner = "" \/ vslice[sk].owner = vsvc[k].uid)}
TPairs(k) == UNION {Pairs(vslice[sk].eps) : sk \in Contributing(k)}

TruthOf(n) ==
  CASE n[1] = "svc" ->
         LET k == n[2] IN
         IF ~Has(vsvc, k) THEN {}
         ELSE LET s == vsvc[k] IN
              CASE s.kind = "ext" -> {[ES EXCEPT !.cname = {s.ext}, !.fb = TRUE]}
                [] s.kind = "hl"  -> LET ips == {p[2] : p \in TPairs(k)}
                                     IN {[ES EXCEPT !.a = ips \cap V4, !.aaaa = ips \cap V6]}
                [] OTHER          -> {[ES EXCEPT !.a = IpSet(s) \cap V4, !.aaaa = IpSet(s) \cap V6]}
    [] n[1] = "srv" ->
         LET k == n[4] IN
         IF ~Has(vsvc, k) \/ vsvc[k].kind = "ext" \/ n \notin SrvNames(vsvc[k], k) THEN {}
         ELSE LET s == vsvc[k] IN
              IF s.kind = "hl"
              THEN {[ES EXCEPT !.srv = {<<PortOf(s, n), Ept(p[1], k)>> : p \in TPairs(k)},
                               !.extra = {<<Ept(p[1], k), p[2]>> : p \in TPairs(k)}]}
              ELSE {[ES EXCEPT !.srv = {<<PortOf(s, n), Svc(k)>>}, !.extra = {<<Svc(k), ip>> : ip \in IpSet(s)}]}
    [] n[1] = "ept" ->
         LET k == n[3]
             ips == {p[2] : p \in {q \in TPairs(k) : q[1] = n[2]}}
         IN IF ~Has(vsvc, k) \/ vsvc[k].kind # "hl" \/ ips = {} THEN {}
            ELSE {[ES EXCEPT !.a = ips \cap V4, !.aaaa = ips \cap V6]}
    [] n[1] = "pod" ->
         IF \E pk \in DOMAIN vpod : pk[1] = n[3] /\ n[2] \in Range(vpod[pk].ips) THEN {PodSet(n[2], n[3])} ELSE {}
    [] OTHER ->   \* "rev": any current holder of the address is an acceptable PTR target
         LET ip == n[2]
             hs == {Svc(k) : k \in {x \in DOMAIN vsvc : vsvc[x].kind = "cip" /\ ip \in IpSet(vsvc[x])}}
                   \cup {PodN(ip, pk[1]) : pk \in {x \in DOMAIN vpod : ip \in Range(vpod[x].ips)}}
         IN {[ES EXCEPT !.ptr = {h}] : h \in hs}

(* what a query can see of an answer set *)
Obs(s) == [a |-> s.a, aaaa |-> s.aaaa, cname |-> s.cname, srv |-> s.srv, ptr |-> s.ptr, fb |-> s.fb,
           extra |-> IF s.srv # {} THEN s.extra ELSE {}]

ObsTruth(n) == {Obs(t) : t \in TruthOf(n)}

PortNames == UNION {{p[1] : p \in Named(SvcMenu[i])} : i \in SvcIdx}
Protos    == UNION {{p[2] : p \in Named(SvcMenu[i])} : i \in SvcIdx}
EpAddrs   == UNION {UNION {Range(e.addrs) : e \in Range(EpMenu[i])} : i \in EpIdx}
Hosts     == UNION {{e.host : e \in Range(EpMenu[i])} : i \in EpIdx} \ {""}
PodAddrs  == UNION {Range(PodMenu[i]) : i \in PodIdx}
SvcAddrs  == UNION {Range(SvcMenu[i].ips) : i \in SvcIdx}

AllNames ==
  {Svc(k) : k \in SvcKeys}
  \cup {Srv(pn, pr, k) : pn \in PortNames, pr \in Protos, k \in SvcKeys}
  \cup {Ept(l, k) : l \in Hosts \cup EpAddrs, k \in SvcKeys}
  \cup {PodN(ip, ns) : ip \in PodAddrs, ns \in NSs}
  \cup {Rev(ip) : ip \in SvcAddrs \cup PodAddrs \cup EpAddrs}

OwnerKey(n) == CASE n[1] = "svc" -> n[2] [] n[1] = "srv" -> n[4] [] n[1] = "ept" -> n[3] [] OTHER -> <<"", "">>

(* names whose rebuild is still queued may lag behind the view (debounce window) *)
Settled(n) == OwnerKey(n) \notin c.pending

AgreeOn(n) ==
  LET T == TruthOf(n)
  IN IF T = {} THEN n \notin DOMAIN r.ans
     ELSE n \in DOMAIN r.ans /\ Obs(r.ans[n]) \in {Obs(t) : t \in T}

AgreeTag(tag) == \A n \in {m \in AllNames : m[1] = tag} : Settled(n) => AgreeOn(n)
AgreeSvc == AgreeTag("svc")
AgreeSrv == AgreeTag("srv")
AgreeEpt == AgreeTag("ept")
AgreePod == AgreeTag("pod")
AgreePtr == AgreeTag("rev")
NoResidue == DOMAIN r.ans \subseteq AllNames

(* ---- why an answer differs from the documented one (classification of the as-built findings) -------------
   gh remembers what the history did: addresses ever held by two pods / two ClusterIP services at once, Service keys
   that were deleted or replaced by another incarnation, keys for which a slice arrived ahead of its owner. *)
HlCauses(k) ==
  IF ~(Has(r.svc, k) /\ r.svc[k].kind = "hl" /\ Has(r.hs, k)) THEN {}
  ELSE LET h == r.hs[k]
           SlicePairs(sl) == IF <<k[1], sl>> \in Contributing(k) THEN Pairs(vslice[<<k[1], sl>>].eps) ELSE {}
           lost(own) == \E sk \in Contributing(k) :
                           /\ (vslice[sk].owner = "") = own
                           /\ ~(Pairs(vslice[sk].eps) \subseteq Pairs(Get(h.contribs, sk[2], <<>>)))
       IN (IF Has(h.contribs, SYN) /\ ~(Pairs(h.contribs[SYN]) \subseteq TPairs(k)) THEN {"stale-synthetic"} ELSE {})
          \cup (IF k \in gh.repl /\ \E sl \in DOMAIN h.contribs \ {SYN} : ~(Pairs(h.contribs[sl]) \subseteq SlicePairs(sl))
                THEN {"stale-slice-of-replaced-service"} ELSE {})
          \cup (IF k \in gh.repl /\ lost(TRUE) THEN {"ownerless-slice-forgotten"} ELSE {})
          \cup (IF k \in gh.early /\ lost(FALSE) THEN {"early-slice-dropped"} ELSE {})

Causes(n) ==
  CASE n[1] = "pod" -> IF n[2] \in gh.spod THEN {"pod-ip-shared"} ELSE {}
    [] n[1] = "rev" -> (IF n[2] \in gh.spod THEN {"pod-ip-shared"} ELSE {}) \cup (IF n[2] \in gh.scip THEN {"clusterip-shared"} ELSE {})
    [] OTHER -> HlCauses(OwnerKey(n))

Mismatch == {n \in AllNames : Settled(n) /\ ~AgreeOn(n)}
(* what the replay driver is given with every state: the documented answer(s) of every existing name, and why the
   as-built registry differs where it does (ghost variables outside the VIEW; functions of the other variables) *)
TruthTable == IF Oracle THEN Eager([n \in {m \in AllNames : TruthOf(m) # {}} |-> ObsTruth(n)]) ELSE EmptyF
WhyTable   == IF Oracle THEN Eager([n \in Mismatch |-> Causes(n)]) ELSE EmptyF
(* every disagreement of the as-built model is one of the classified findings *)
Explained == \A n \in Mismatch : Causes(n) # {}

(* ---- Query(name, type): kubernetes.go ServeDNS + registry.go cachedAnswer ---- *)
QTypes == {"A", "AAAA", "CNAME", "SRV", "PTR", "TXT", "ANY"}

Outcome(s, qt) ==
  LET data(f, x) == [rc |-> "OK", f |-> f, ans |-> x, extra |-> IF f = "srv" THEN s.extra ELSE {}]
      rest == IF s.fb /\ s.cname # {} THEN data("cname", s.cname) ELSE data("none", {})
  IN CASE qt = "A"     -> IF s.a # {}     THEN data("a", s.a)         ELSE rest
       [] qt = "AAAA"  -> IF s.aaaa # {}  THEN data("aaaa", s.aaaa)   ELSE rest
       [] qt = "CNAME" -> IF s.cname # {} THEN data("cname", s.cname) ELSE rest
       [] qt = "SRV"   -> IF s.srv # {}   THEN data("srv", s.srv)     ELSE rest
       [] qt = "PTR"   -> IF s.ptr # {}   THEN data("ptr", s.ptr)     ELSE rest
       [] qt = "ANY"   -> [rc |-> "OK", f |-> "any",
                           ans |-> <<s.a, s.aaaa, s.cname, s.srv, s.ptr>>, extra |-> {}]
       [] OTHER        -> rest

Plain(rc) == [rc |-> rc, f |-> "none", ans |-> {}, extra |-> {}]
Miss(n)  == IF n[1] = "rev" THEN Plain("PASS") ELSE Plain("NX")
Query(n, qt) ==
  IF ~synced THEN (IF n[1] = "rev" THEN Plain("PASS") ELSE Plain("SERVFAIL"))
  ELSE IF n \in DOMAIN r.ans THEN Outcome(r.ans[n], qt) ELSE Miss(n)

(* the documented outcome(s) of a query once the caches have synced *)
TruthQuery(n, qt) == LET T == TruthOf(n) IN IF T = {} THEN {Miss(n)} ELSE {Outcome(t, qt) : t \in T}
QueryAgree == synced => \A n \in AllNames : Settled(n) => \A qt \in QTypes : Query(n, qt) \in TruthQuery(n, qt)

(* registry accessors: GetServiceByIP / GetPodByIP name a current holder *)
ByIPOk  == \A ip \in DOMAIN r.byip : Has(r.svc, r.byip[ip]) /\ ip \in IpSet(r.svc[r.byip[ip]])
PodIPOk == \A ip \in DOMAIN r.podip : Has(r.pods, r.podip[ip]) /\ ip \in Range(r.pods[r.podip[ip]].ips)
StoreMatchesView ==
  /\ DOMAIN r.svc = DOMAIN vsvc /\ \A k \in DOMAIN vsvc : r.svc[k] = vsvc[k]
  /\ DOMAIN r.pods = {pk \in DOMAIN vpod : vpod[pk].ips # <<>>}

(* ---- readers during a callback: what one name went through -------------- *)
Before(n) == Get(r.ans, n, Gone)
After(n)  == Get(r'.ans, n, Gone)
(* never a value that is neither the old nor the new answer nor "no entry" (nor, where several objects hold one
   address, another documented answer of the old or the new view) *)
(* one incarnation of a Service replaced by the next in one callback (missed delete): two objects, not one update *)
Replaced(k) == Has(vsvc, k) /\ Has(vsvc', k) /\ vsvc[k].uid # vsvc'[k].uid
NoMixtureStep == \A n \in DOMAIN r'.hist : \A i \in DOMAIN r'.hist[n] :
                    \/ r'.hist[n][i] \in {Before(n), After(n), Gone}
                    \/ (OwnerKey(n) \in SvcKeys /\ Replaced(OwnerKey(n)))
                    \/ Obs(r'.hist[n][i]) \in ObsTruth(n) \cup ObsTruth(n)'
(* ... and no transient "no entry" for a name that exists before and after (NOT true of the code as built) *)
NoGapStep == \A n \in DOMAIN r'.hist : \A i \in DOMAIN r'.hist[n] :
                 r'.hist[n][i] = Gone => (Before(n) = Gone \/ After(n) = Gone)
NoMixture == [][NoMixtureStep]_vars
NoGap     == [][NoGapStep]_vars

(* ======================================================================= *)
(* Behaviours                                                              *)
(* ======================================================================= *)
R0 == [svc |-> EmptyF, byip |-> EmptyF, ep |-> EmptyF, hs |-> EmptyF, ans |-> EmptyF,
       pods |-> EmptyF, podip |-> EmptyF, hist |-> EmptyF]
C0 == [cls |-> EmptyF, tomb |-> EmptyF, pending |-> {}]

Init ==
  /\ r = R0 /\ c = C0 /\ synced = FALSE
  /\ vsvc = EmptyF /\ vslice = EmptyF /\ vpod = EmptyF
  /\ used = [k \in SvcKeys |-> {}]
  /\ ev = [op |-> "init"] /\ nev = 0
  /\ gh = [spod |-> {}, scip |-> {}, repl |-> {}, early |-> {}]
  /\ tr = EmptyF /\ why = EmptyF /\ pos = 0

(* ghost bookkeeping after a callback *)
SharedPods == {ip \in IPs : Cardinality({pk \in DOMAIN vpod' : ip \in Range(vpod'[pk].ips)}) > 1}
SharedCips == {ip \in IPs : Cardinality({k \in DOMAIN vsvc' : ip \in IpSet(vsvc'[k])}) > 1}
Ghost(repl, early) ==
  /\ gh' = [spod |-> gh.spod \cup SharedPods, scip |-> gh.scip \cup SharedCips,
            repl |-> gh.repl \cup repl, early |-> gh.early \cup early]
  /\ tr' = TruthTable' /\ why' = WhyTable'

Fresh(rr) == [rr EXCEPT !.hist = EmptyF]
Scripted(e) == /\ (Script = <<>> \/ (pos < Len(Script) /\ Script[pos + 1] = e))
               /\ pos' = IF Script = <<>> THEN pos ELSE pos + 1
Tick == nev < MaxEvents /\ nev' = nev + 1
ScriptDone == Script = <<>> \/ pos < Len(Script)

SvcObj(i, uid) == [kind |-> SvcMenu[i].kind, ips |-> SvcMenu[i].ips, ports |-> SvcMenu[i].ports,
                   ext |-> SvcMenu[i].ext, uid |-> uid]

IpFree(k, s) == SharedIP \/ \A k2 \in DOMAIN vsvc \ {k} : IpSet(vsvc[k2]) \cap IpSet(s) = {}

SvcUpsert(op, k, s) ==
  LET n == OnSvcUpsert(Fresh(r), c, k, s)
  IN /\ r' = n[1] /\ c' = n[2]
     /\ vsvc' = Put1(vsvc, k, s) /\ used' = [used EXCEPT ![k] = @ \cup {s.uid}]
     /\ ev' = [op |-> op, ns |-> k[1], name |-> k[2], obj |-> s]
     /\ UNCHANGED <<synced, vslice, vpod>>
     /\ Ghost(IF Has(vsvc, k) /\ vsvc[k].uid # s.uid THEN {k} ELSE {}, {})

SvcAdd(ns, sn, i, uid) ==
  LET k == <<ns, sn>> s == SvcObj(i, uid)
  IN "svc" \in Kinds /\ Tick /\ Scripted(<<"svcAdd", ns, sn, i, uid>>) /\ ~Has(vsvc, k) /\ uid \notin used[k] /\ IpFree(k, s) /\ SvcUpsert("svcAdd", k, s)

(* the same object (same UID) or, after a missed delete, its successor (fresh UID) *)
SvcUpdate(ns, sn, i, uid) ==
  LET k == <<ns, sn>> s == SvcObj(i, uid)
  IN "svc" \in Kinds /\ Tick /\ Scripted(<<"svcUpdate", ns, sn, i, uid>>) /\ Has(vsvc, k) /\ (uid = vsvc[k].uid \/ uid \notin used[k]) /\ IpFree(k, s)
     /\ SvcUpsert("svcUpdate", k, s)

SvcDelete(ns, sn) ==
  LET k == <<ns, sn>>
  IN "svc" \in Kinds /\ Tick /\ Scripted(<<"svcDelete", ns, sn>>) /\ Has(vsvc, k)
     /\ LET n == OnSvcDelete(Fresh(r), c, k, vsvc[k].uid)
        IN r' = n[1] /\ c' = n[2]
     /\ vsvc' = Drop(vsvc, {k})
     /\ ev' = [op |-> "svcDelete", ns |-> ns, name |-> sn, obj |-> vsvc[k]]
     /\ UNCHANGED <<synced, vslice, vpod, used>>
     /\ Ghost({k}, {})

SliceObj(label, owner, j) == [label |-> label, owner |-> owner, eps |-> EpMenu[j]]
OwnerSeen(ns, label, owner) == FutureOwner \/ owner = "" \/ owner \in used[<<ns, label>>]

SliceAdd(ns, sl, label, owner, j) ==
  LET sk == <<ns, sl>> o == SliceObj(label, owner, j)
  IN "slice" \in Kinds /\ Tick /\ Scripted(<<"sliceAdd", ns, sl, label, owner, j>>) /\ ~Has(vslice, sk) /\ OwnerSeen(ns, label, owner)
     /\ LET n == OnSliceUpsert(Fresh(r), c, sk, o, FALSE, o) IN r' = n[1] /\ c' = n[2]
     /\ vslice' = Put1(vslice, sk, o)
     /\ ev' = [op |-> "sliceAdd", ns |-> ns, name |-> sl, obj |-> o]
     /\ UNCHANGED <<synced, vsvc, vpod, used>>
     /\ Ghost({}, IF owner # "" /\ owner \notin used[<<ns, label>>] THEN {<<ns, label>>} ELSE {})

SliceUpdate(ns, sl, label, owner, j) ==
  LET sk == <<ns, sl>> o == SliceObj(label, owner, j)
  IN "slice" \in Kinds /\ Tick /\ Scripted(<<"sliceUpdate", ns, sl, label, owner, j>>) /\ Has(vslice, sk) /\ OwnerSeen(ns, label, owner)
     /\ (owner = vslice[sk].owner \/ label # vslice[sk].label)    \* an ownerReference changes only with the label
     /\ LET n == OnSliceUpsert(Fresh(r), c, sk, vslice[sk], TRUE, o) IN r' = n[1] /\ c' = n[2]
     /\ vslice' = Put1(vslice, sk, o)
     /\ ev' = [op |-> "sliceUpdate", ns |-> ns, name |-> sl, obj |-> o, old |-> vslice[sk]]
     /\ UNCHANGED <<synced, vsvc, vpod, used>>
     /\ Ghost({}, IF owner # "" /\ owner \notin used[<<ns, label>>] THEN {<<ns, label>>} ELSE {})

SliceDelete(ns, sl) ==
  LET sk == <<ns, sl>>
  IN "slice" \in Kinds /\ Tick /\ Scripted(<<"sliceDelete", ns, sl>>) /\ Has(vslice, sk)
     /\ LET n == OnSliceDelete(Fresh(r), c, sk, vslice[sk]) IN r' = n[1] /\ c' = n[2]
     /\ vslice' = Drop(vslice, {sk})
     /\ ev' = [op |-> "sliceDelete", ns |-> ns, name |-> sl, obj |-> vslice[sk]]
     /\ UNCHANGED <<synced, vsvc, vpod, used>>
     /\ Ghost({}, {})

PodFree(pk, p) == SharedIP \/ \A q \in DOMAIN vpod \ {pk} : Range(vpod[q].ips) \cap Range(p.ips) = {}

PodAdd(ns, pn, i) ==
  LET pk == <<ns, pn>> p == [ips |-> PodMenu[i]]
  IN "pod" \in Kinds /\ Tick /\ Scripted(<<"podAdd", ns, pn, i>>) /\ ~Has(vpod, pk) /\ PodFree(pk, p)
     /\ r' = OnPodAdd(Fresh(r), pk, p) /\ vpod' = Put1(vpod, pk, p)
     /\ ev' = [op |-> "podAdd", ns |-> ns, name |-> pn, obj |-> p]
     /\ UNCHANGED <<c, synced, vsvc, vslice, used>>
     /\ Ghost({}, {})

PodUpdate(ns, pn, i) ==
  LET pk == <<ns, pn>> p == [ips |-> PodMenu[i]]
  IN "pod" \in Kinds /\ Tick /\ Scripted(<<"podUpdate", ns, pn, i>>) /\ Has(vpod, pk) /\ PodFree(pk, p)
     /\ r' = OnPodUpdate(Fresh(r), pk, p) /\ vpod' = Put1(vpod, pk, p)
     /\ ev' = [op |-> "podUpdate", ns |-> ns, name |-> pn, obj |-> p]
     /\ UNCHANGED <<c, synced, vsvc, vslice, used>>
     /\ Ghost({}, {})

PodDelete(ns, pn) ==
  LET pk == <<ns, pn>>
  IN "pod" \in Kinds /\ Tick /\ Scripted(<<"podDelete", ns, pn>>) /\ Has(vpod, pk)
     /\ r' = DeletePod(Fresh(r), pk) /\ vpod' = Drop(vpod, {pk})
     /\ ev' = [op |-> "podDelete", ns |-> ns, name |-> pn, obj |-> vpod[pk]]
     /\ UNCHANGED <<c, synced, vsvc, vslice, used>>
     /\ Ghost({}, {})

(* Run: WaitForCacheSync, flushRebuilds, synced.Store(true) *)
Sync ==
  /\ ~synced /\ synced' = TRUE /\ Scripted(<<"sync">>)
  /\ LET n == IF Mode = "queued" THEN Flush(Fresh(r), c) ELSE <<Fresh(r), c>> IN r' = n[1] /\ c' = n[2]
  /\ ev' = [op |-> "sync"]
  /\ UNCHANGED <<vsvc, vslice, vpod, used, nev, gh>>
  /\ tr' = TruthTable' /\ why' = WhyTable'

(* the rebuild worker: debounce elapsed, processPending *)
FlushStep ==
  /\ Mode = "queued" /\ (c.pending # {} \/ Script # <<>>) /\ Scripted(<<"flush">>)
  /\ LET n == Flush(Fresh(r), c) IN r' = n[1] /\ c' = n[2]
  /\ ev' = [op |-> "flush"]
  /\ UNCHANGED <<synced, vsvc, vslice, vpod, used, nev, gh>>
  /\ tr' = TruthTable' /\ why' = WhyTable'

(* scripted behaviours only: start the next history from the initial state *)
Reset ==
  /\ Script # <<>> /\ Scripted(<<"reset">>)
  /\ r' = R0 /\ c' = C0 /\ synced' = FALSE /\ vsvc' = EmptyF /\ vslice' = EmptyF /\ vpod' = EmptyF
  /\ used' = [k \in SvcKeys |-> {}] /\ ev' = [op |-> "reset"] /\ nev' = 0
  /\ gh' = [spod |-> {}, scip |-> {}, repl |-> {}, early |-> {}] /\ tr' = EmptyF /\ why' = EmptyF

Next ==
  \/ \E ns \in NSs, sn \in SNs, i \in SvcIdx, uid \in UIDs : SvcAdd(ns, sn, i, uid) \/ SvcUpdate(ns, sn, i, uid)
  \/ \E ns \in NSs, sn \in SNs : SvcDelete(ns, sn)
  \/ \E ns \in NSs, sl \in SliceNames, label \in SNs, owner \in OwnerMenu, j \in EpIdx :
        SliceAdd(ns, sl, label, owner, j) \/ SliceUpdate(ns, sl, label, owner, j)
  \/ \E ns \in NSs, sl \in SliceNames : SliceDelete(ns, sl)
  \/ \E ns \in NSs, pn \in PodNames, i \in PodIdx : PodAdd(ns, pn, i) \/ PodUpdate(ns, pn, i)
  \/ \E ns \in NSs, pn \in PodNames : PodDelete(ns, pn)
  \/ Sync
  \/ FlushStep
  \/ Reset

Spec == Init /\ [][Next]_vars

(* history, last callback and the event counter do not distinguish states *)
View == <<[svc |-> r.svc, byip |-> r.byip, ep |-> r.ep, hs |-> r.hs, ans |-> r.ans, pods |-> r.pods, podip |-> r.podip],
          c, synced, vsvc, vslice, vpod, used>>
(* ... except where the classification of the findings (gh) is what is being checked *)
ViewG == <<View, gh>>

TypeOK ==
  /\ DOMAIN r.svc \subseteq SvcKeys /\ DOMAIN r.pods \subseteq PodKeys
  /\ DOMAIN r.byip \subseteq IPs /\ DOMAIN r.podip \subseteq IPs
  /\ DOMAIN r.hs \subseteq SvcKeys /\ DOMAIN r.ep \subseteq SvcKeys
  /\ DOMAIN c.cls \subseteq SvcKeys /\ c.pending \subseteq SvcKeys
  /\ \A k \in DOMAIN r.hs : \A p \in DOMAIN r.hs[k].refs : r.hs[k].refs[p] >= 1
=============================================================================
