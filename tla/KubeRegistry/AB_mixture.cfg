SPECIFICATION Spec
VIEW View
CONSTANTS
  NSs = {"n1"}
  SNs = {"a"}
  SliceNames = {"e1"}
  PodNames = {"pa"}
  UIDs = {"u1", "u2"}
  V4 <- MC_V4
  V6 <- MC_V6
  SvcMenu <- MC_SvcMenu
  EpMenu <- MC_EpMenu
  PodMenu <- MC_PodMenu
  SvcIdx = {4, 9, 1}
  EpIdx = {7, 8}
  PodIdx = {1}
  OwnerMenu = {""}
  SliceOrder <- Order1
  Mode = "inline"
  Mutant = ""
  Repair = {}
  SharedIP = FALSE
  FutureOwner = FALSE
  Kinds = {"svc", "slice"}
  MaxEvents = 99
  Oracle = FALSE
  Script <- NoScript
PROPERTIES NoMixture
