SPECIFICATION Spec
VIEW View
CONSTANTS
  NSs = {"n1"}
  SNs = {"a"}
  SliceNames = {"e1"}
  PodNames = {"pa", "pb"}
  UIDs = {"u1", "u2"}
  V4 <- MC_V4
  V6 <- MC_V6
  SvcMenu <- MC_SvcMenu
  EpMenu <- MC_EpMenu
  PodMenu <- MC_PodMenu
  SvcIdx = {1, 2, 4, 6}
  EpIdx = {1, 2, 9}
  PodIdx = {1, 2, 3, 4}
  OwnerMenu = {"", "u1"}
  SliceOrder <- Order1
  Mode = "inline"
  Mutant = ""
  Repair = {"podshare", "ipshare", "resurrect", "ownerless", "replaced"}
  SharedIP = TRUE
  FutureOwner = FALSE
  Kinds = {"pod"}
  MaxEvents = 99
  Oracle = FALSE
  Script <- NoScript
INVARIANTS TypeOK AgreeSvc AgreeSrv AgreeEpt AgreePod AgreePtr NoResidue QueryAgree ByIPOk PodIPOk StoreMatchesView
