#!/usr/bin/env python3
"""Writes the TLC configurations of KubeRegistry (run once; the .cfg files are committed)."""
import os
ALL = ["podshare", "ipshare", "resurrect", "ownerless", "replaced"]
AGREE = "TypeOK AgreeSvc AgreeSrv AgreeEpt AgreePod AgreePtr NoResidue QueryAgree ByIPOk PodIPOk StoreMatchesView"

MENUS = {"SvcSmall": [1, 2, 4, 6], "SvcHl": [4, 9, 1], "SvcCip": [1, 8, 10, 6], "SvcFull": list(range(1, 11)),
         "EpSmall": [1, 2, 9], "EpTiny": [7, 8], "EpFull": list(range(1, 10)),
         "PodSmall": [1, 2, 3, 4], "PodNone": [1], "PodFull": [1, 2, 3, 4]}


def I(xs):
    return "{" + ", ".join(str(x) for x in xs) + "}"


def S(xs):
    return "{" + ", ".join('"%s"' % x for x in xs) + "}"

def cfg(name, *, ns=("n1",), sn=("a",), slices=("e1",), pods=("pa",), svc="SvcSmall", ep="EpSmall", owner=("", "u1"),
        pod="PodNone", mode="inline", mutant="", repair=ALL, shared=False, future=False, kinds=("svc", "slice"),
        maxev=99, inv=AGREE, props="", view=True, oracle=False, script=False):
    order = "Order2" if len(slices) == 2 else "Order1"
    t = ["SPECIFICATION Spec"]
    if view:
        t.append("VIEW " + ("ViewG" if "Explained" in inv else "View"))
    t += ["CONSTANTS",
          "  NSs = %s" % S(ns), "  SNs = %s" % S(sn), "  SliceNames = %s" % S(slices), "  PodNames = %s" % S(pods),
          '  UIDs = {"u1", "u2"}', "  V4 <- MC_V4", "  V6 <- MC_V6", "  SvcMenu <- MC_SvcMenu", "  EpMenu <- MC_EpMenu",
          "  PodMenu <- MC_PodMenu", "  SvcIdx = %s" % I(MENUS[svc]), "  EpIdx = %s" % I(MENUS[ep]), "  PodIdx = %s" % I(MENUS[pod]),
          "  OwnerMenu = %s" % S(owner), "  SliceOrder <- %s" % order,
          '  Mode = "%s"' % mode, '  Mutant = "%s"' % mutant, "  Repair = %s" % S(repair),
          "  SharedIP = %s" % ("TRUE" if shared else "FALSE"), "  FutureOwner = %s" % ("TRUE" if future else "FALSE"),
          "  Kinds = %s" % S(kinds), "  MaxEvents = %d" % maxev, "  Oracle = %s" % ("TRUE" if oracle else "FALSE"),
          "  Script %s" % ("<- ScriptDef" if script else "<- NoScript")]
    if inv:
        t.append("INVARIANTS " + inv)
    if props:
        t.append("PROPERTIES " + props)
    with open(os.path.join(os.path.dirname(os.path.abspath(__file__)), name + ".cfg"), "w") as f:
        f.write("\n".join(t) + "\n")

def but(x):
    return [r for r in ALL if r != x]

# ---- the repaired model: the registry is a function of the view (exhaustive) -------------------------------
cfg("MC_Svc", sn=("a", "b"), svc="SvcCip", kinds=("svc",), shared=True)
cfg("MC_Pod", ns=("n1",), pods=("pa", "pb"), pod="PodSmall", kinds=("pod",), shared=True)
cfg("MC_Pod2", ns=("n1", "n2"), pods=("pa", "pb"), pod="PodSmall", kinds=("pod",), shared=True)     # thorough
cfg("MC_Hl", svc="SvcHl", ep="EpTiny", slices=("e1",))                      # quick
cfg("MC_HlQ", svc="SvcHl", ep="EpTiny", slices=("e1",), mode="queued")      # quick
cfg("MC_Hl2", svc="SvcHl", slices=("e1", "e2"))                             # thorough
cfg("MC_Hl2Q", svc="SvcHl", slices=("e1", "e2"), mode="queued")             # thorough
cfg("MC_Relabel", sn=("a", "b"), svc="SvcHl", ep="EpTiny", owner=("",), maxev=7)   # thorough: a slice moves between services
# ---- the code as built -------------------------------------------------------------------------------------
MENUS["SvcMix"] = [1, 2, 6]
cfg("MC_MixSvc", sn=("a", "b"), svc="SvcMix", kinds=("svc",), repair=[], shared=True, inv="TypeOK", props="NoMixture")
cfg("MC_MixSvc4", sn=("a", "b"), svc="SvcSmall", kinds=("svc",), repair=[], shared=True, inv="TypeOK", props="NoMixture")   # thorough
cfg("MC_MixPod", pods=("pa", "pb"), pod="PodSmall", kinds=("pod",), repair=[], shared=True, inv="TypeOK", props="NoMixture")
cfg("MC_Mix", sn=("a", "b"), svc="SvcSmall", pod="PodSmall", kinds=("svc", "pod"), repair=[], shared=True,
    inv="TypeOK", props="NoMixture")      # thorough
cfg("MC_Explained", svc="SvcHl", ep="EpTiny", slices=("e1",), repair=[], future=True, inv="TypeOK Explained")
cfg("MC_Explained2", svc="SvcHl", slices=("e1", "e2"), repair=[], future=True, inv="TypeOK Explained")   # thorough
cfg("MC_ExplainedSvc", sn=("a", "b"), svc="SvcCip", kinds=("svc",), repair=[], shared=True, inv="TypeOK Explained")
cfg("MC_ExplainedPod1", pods=("pa", "pb"), pod="PodSmall", kinds=("pod",), repair=[], shared=True, inv="TypeOK Explained")
cfg("MC_ExplainedPod", ns=("n1", "n2"), pods=("pa", "pb"), pod="PodSmall", kinds=("pod",), repair=[], shared=True, inv="TypeOK Explained")
# ---- as-built findings: each must refute its invariant (and gives the directed history replayed on the code)
cfg("AB_podshare", ns=("n1",), pods=("pa", "pb"), pod="PodSmall", kinds=("pod",), shared=True, repair=but("podshare"), inv="AgreePod")
cfg("AB_ipshare", sn=("a", "b"), svc="SvcCip", kinds=("svc",), shared=True, repair=but("ipshare"), inv="AgreePtr")
cfg("AB_resurrect", svc="SvcHl", ep="EpTiny", repair=but("resurrect"), inv="AgreeSvc")
cfg("AB_ownerless", svc="SvcHl", ep="EpTiny", owner=("",), repair=but("ownerless"), inv="AgreeSvc")
cfg("AB_replaced", svc="SvcHl", ep="EpTiny", owner=("u1",), repair=but("replaced"), inv="AgreeSvc")
cfg("AB_future", svc="SvcHl", ep="EpTiny", owner=("u1", "u2"), future=True, inv="AgreeSvc")
cfg("AB_gap", svc="SvcCip", kinds=("svc",), repair=[], inv="", props="NoGap")
cfg("AB_mixture", svc="SvcHl", ep="EpTiny", owner=("",), repair=[], inv="", props="NoMixture")
# ---- seeded model defects: each must refute its invariant (non-vacuity) --------------------------------------
cfg("Neg_stale_on_update", svc="SvcCip", kinds=("svc",), mutant="stale_on_update", inv="AgreePtr")
cfg("Neg_ptr_kept", svc="SvcCip", kinds=("svc",), mutant="ptr_kept", inv="AgreePtr")
cfg("Neg_srv_prev_ports", svc="SvcCip", kinds=("svc",), mutant="srv_prev_ports", inv="AgreeSrv")
cfg("Neg_srv_prev_ports_hl", svc="SvcHl", ep="EpTiny", mutant="srv_prev_ports", inv="AgreeSrv")
cfg("Neg_headless_merge", svc="SvcHl", ep="EpSmall", mutant="headless_merge", inv="AgreeSvc")
cfg("Neg_headless_merge_ept", svc="SvcHl", ep="EpSmall", mutant="headless_merge", inv="AgreeEpt")
# ---- behaviours for the replay (simulation and a small labelled graph) ---------------------------------------
full = dict(ns=("n1", "n2"), sn=("a", "b"), slices=("e1", "e2"), pods=("pa", "pb"), svc="SvcFull", ep="EpFull", pod="PodFull",
            owner=("", "u1", "u2"), repair=[], shared=True, future=True, kinds=("svc", "slice", "pod"), inv="TypeOK", view=False, oracle=True)
cfg("Sim_Full", maxev=28, **full)
cfg("Sim_FullQ", maxev=28, mode="queued", **full)
# TLC's simulator picks uniformly among successor states: the many variants of a slice event swamp the rest, hence
# simulations per informer kind and of one namespace of headless services (same numbering, so scripts of Script_Full)
cfg("Sim_Svc", maxev=28, **dict(full, kinds=("svc",)))
cfg("Sim_Pod", maxev=28, **dict(full, kinds=("pod",)))
hl = dict(full, ns=("n1",), kinds=("svc", "slice"), owner=("", "u1"))
MENUS["SvcSimHl"] = [4, 5, 9, 1, 6]
MENUS["EpSimHl"] = [1, 2, 3, 5, 7]
cfg("Sim_Hl", maxev=28, **dict(hl, svc="SvcSimHl", ep="EpSimHl"))
cfg("Sim_HlQ", maxev=28, mode="queued", **dict(hl, svc="SvcSimHl", ep="EpSimHl"))
cfg("Script_Full", maxev=999, script=True, **dict(full, inv="TypeOK ScriptDone"))
cfg("Script_FullQ", maxev=999, mode="queued", script=True, **dict(full, inv="TypeOK ScriptDone"))
cfg("Graph_Small", svc="SvcHl", ep="EpTiny", slices=("e1",), owner=("",), repair=[], inv="TypeOK", maxev=4, oracle=True)
