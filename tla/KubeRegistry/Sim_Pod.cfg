SPECIFICATION Spec
CONSTANTS
  NSs = {"n1", "n2"}
  SNs = {"a", "b"}
  SliceNames = {"e1", "e2"}
  PodNames = {"pa", "pb"}
  UIDs = {"u1", "u2"}
  V4 <- MC_V4
  V6 <- MC_V6
  SvcMenu <- MC_SvcMenu
  EpMenu <- MC_EpMenu
  PodMenu <- MC_PodMenu
  SvcIdx = {1, 2, 3, 4, 5, 6, 7, 8, 9, 10}
  EpIdx = {1, 2, 3, 4, 5, 6, 7, 8, 9}
  PodIdx = {1, 2, 3, 4}
  OwnerMenu = {"", "u1", "u2"}
  SliceOrder <- Order2
  Mode = "inline"
  Mutant = ""
  Repair = {}
  SharedIP = TRUE
  FutureOwner = TRUE
  Kinds = {"pod"}
  MaxEvents = 28
  Oracle = TRUE
  Script <- NoScript
INVARIANTS TypeOK
