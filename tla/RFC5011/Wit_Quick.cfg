CONSTANTS
  Keys <- K2
  Configured <- ConfA
  Tag <- Tag2
  RevTag <- Rev2
  Delta = 10
  DaySteps <- Days4
  AgeCap = 91
  MaxRefresh = 3
  MaxRestarts = 1
  MaxWriteFaults = 2
  MaxReadFaults = 1
  ReadFaultKinds <- RF_tomb
  AllowSoleRecordLoss = FALSE
  AllowIntraSetCollision = FALSE
  RelevantSignersOnly = TRUE
SPECIFICATION Spec
VIEW View
INVARIANTS W_NeverEarned W_NeverRevAcc W_NeverRevOnly W_NeverFailClosedW W_NeverMissing W_NeverRemoved W_NeverReappear W_NeverMarkerKept W_NeverTombUsed
CHECK_DEADLOCK FALSE
