--------------------------- MODULE Trace_RFC5011 ---------------------------
(***************************************************************************)
(* Validation of executions recorded from the real Resolver.AutoTA         *)
(* (harness/c09/replay_test.go) against RFC5011.tla.  One NDJSON line per  *)
(* AutoTA run: what the driver did (days, read fault, publication, write   *)
(* faults, crash point) and what it observed (rootKeys when the DNSKEY     *)
(* query reached the root, rootKeys afterwards, both files).  A run is     *)
(* many steps of the specification; the line is consumed by the step that  *)
(* ends the run, and that step must land on the observed state.  Lines     *)
(* "reset" start a new behaviour, lines "restart" are the Restart action.  *)
(* The property invariants of RFC5011.tla are checked along the way: an    *)
(* invariant failing here is the property failing on a real execution.     *)
(* Accepted = every line consumed (high-water mark, -workers 1).           *)
(***************************************************************************)
EXTENDS MC_RFC5011, Json, IOUtils

TraceLog == ndJsonDeserialize(IOEnv.TRACE_FILE)

VARIABLE l
tvars == <<vars, l>>

Line == TraceLog[l]
SetOf(s) == {s[i] : i \in 1..Len(s)}
ZoneOf(z) == [keys |-> SetOf(z.keys), revoked |-> SetOf(z.revoked),
              signedN |-> SetOf(z.signedN), signedR |-> SetOf(z.signedR)]

Consume == l' = l + 1 /\ TLCSet(1, IF l + 1 > TLCGet(1) THEN l + 1 ELSE TLCGet(1))

\* the state a run-ending step lands in (primes written out: `ln` is the current line)
ObservedNext(ln) ==
  /\ (ln.crash = -1) => rootKeys' = SetOf(ln.trusted)
  /\ stateFile'.kind = ln.state.kind
  /\ ln.state.kind = "ok" =>
       /\ {stateFile'.m[t].k : t \in DOMAIN stateFile'.m} = DOMAIN ln.state.m
       /\ \A t \in DOMAIN stateFile'.m :
            LET e == stateFile'.m[t] oe == ln.state.m[e.k] IN
            /\ oe.st = e.st
            /\ e.st \in Timed => Cap(oe.age) = e.age
  /\ tombFile'.kind = ln.tomb.kind
  /\ ln.tomb.kind = "ok" => tombFile'.s = SetOf(ln.tomb.s)

TraceInit == Init /\ l = 1 /\ TLCSet(1, 1)

Reset ==
  /\ l <= Len(TraceLog) /\ Line.ev = "reset" /\ pc \in {"idle", "down"}
  /\ Consume
  /\ now' = 0 /\ rootKeys' = Configured
  /\ stateFile' = [kind |-> "missing", m |-> Empty] /\ tombFile' = [kind |-> "missing", s |-> {}]
  /\ tombUnreadable' = FALSE /\ booting' = TRUE /\ pc' = "idle"
  /\ zone' = NoZone /\ prior' = FALSE /\ cur' = Empty /\ tombs' = {} /\ cand' = {}
  /\ fetched' = Empty /\ revOnly' = FALSE /\ staged' = {} /\ newRev' = FALSE
  /\ tombErr' = FALSE /\ stateErr' = FALSE
  /\ nRefresh' = 0 /\ nRestart' = 0 /\ nCrash' = 0 /\ nWF' = 0 /\ nRF' = 0
  /\ seenSince' = [k \in Keys |-> None] /\ firstEver' = [k \in Keys |-> None] /\ earned' = {} /\ missSince' = [k \in Keys |-> None]
  /\ revAcc' = {} /\ revVol' = {} /\ gT' = {} /\ gFull' = FALSE /\ gRevSet' = {}
  /\ ev' = [a |-> "Reset"]

RestartLine ==
  /\ l <= Len(TraceLog) /\ Line.ev = "restart"
  /\ Restart(Line.rf)                    \* rf: "none" | "tombUnreadable" (open() fails while NewResolver runs)
  /\ rootKeys' = SetOf(Line.trusted)
  /\ Consume

CrashPc == CASE Line.crash = 0 -> "WriteTombstones"
             [] Line.crash = 1 -> "WriteState"
             [] Line.crash = 2 -> "PublishOrClear"
             [] OTHER -> "none"

RunStep ==
  /\ l <= Len(TraceLog) /\ Line.ev = "run"
  /\ \/ pc = "idle" /\ Begin(Line.d, Line.rf)
     \/ ReadState \/ ReadTombstones \/ MigrateLegacy \/ TombstonePrecedence \/ MergeConfigured
     \/ PublishCandidate
     \/ /\ pc = "Fetch" /\ Line.fetched
        /\ rootKeys = SetOf(Line.atFetch)
        /\ IF Line.fetch THEN Fetch(TRUE, ZoneOf(Line.z)) ELSE Fetch(FALSE, NoZone)
     \/ /\ pc = "Authenticate"
        /\ \E f \in UNION {[D -> Keys] : D \in SUBSET {FormTag(zone, k) : k \in zone.keys}} :
             /\ Authenticate(f)
             /\ \A t \in DOMAIN f : f[t] = Line.win[ToString(t)]
     \/ StageRevocations \/ ProcessFetched \/ HoldDownTransitions
     \/ pc # CrashPc /\ WriteTombstones(~Line.tombFail)
     \/ DropMarkers
     \/ pc # CrashPc /\ WriteState(~Line.stateFail)
     \/ pc # CrashPc /\ PublishOrClear
     \/ pc = CrashPc /\ Crash
  /\ IF pc' \in {"idle", "down"}
       THEN ObservedNext(Line) /\ Consume      \* (the high-water mark moves only if the observation fits)
       ELSE l' = l

TraceNext == Reset \/ RestartLine \/ RunStep
TraceSpec == TraceInit /\ [][TraceNext]_tvars

TraceAccepted ==
  /\ PrintT(<<"c09-lines-matched", TLCGet(1) - 1>>)
  /\ TLCGet(1) = Len(TraceLog) + 1
=============================================================================
