CONSTANTS
  Keys <- K3
  Configured <- ConfA
  Tag <- TagBC
  RevTag <- RevBC
  DaySteps <- Days2
  ReadFaultKinds <- RF_none
  Delta = 10
  AgeCap = 91
  MaxRefresh = 2
  MaxRestarts = 0
  MaxWriteFaults = 0
  MaxReadFaults = 0
  AllowSoleRecordLoss = FALSE
  AllowIntraSetCollision = FALSE
  AllowContinueAfterVolatile = TRUE
  RelevantSignersOnly = TRUE
SPECIFICATION Spec
VIEW View
INVARIANTS TrustOnlyByRFC
CHECK_DEADLOCK FALSE
