------------------------------ MODULE RFC5011 ------------------------------
(***************************************************************************)
(* middleware/resolver/auto_trust_anchor.go : Resolver.AutoTA, one action  *)
(* per step of the function, in the order the code executes them, with a   *)
(* program counter.  The model is keyed exactly as the code is:            *)
(*   - the anchor state (kskCurrent / trust-anchor.db) and the fetched set *)
(*     (kskFetched) are maps keyed by the 16-bit KEY TAG;                  *)
(*   - tombstones are keyed by key MATERIAL;                               *)
(*   - a revoked DNSKEY is looked up at `tag - 128` (Delta here).          *)
(* Keys are key materials.  A key is published either in its plain form    *)
(* (tag Tag[k]) or with the REVOKE bit (tag RevTag[k], normally            *)
(* Tag[k]+Delta; the RFC 4034 checksum can carry, then it is Tag[k]+Delta+1*)
(* and the code cannot find the anchor it belongs to).                     *)
(*                                                                         *)
(* Time: a stored FirstSeen is kept as an AGE in whole days, capped at     *)
(* AgeCap (> 90, so both hold-down comparisons stay exact), and only in    *)
(* the states whose FirstSeen is ever compared (AddPend, Missing; 0        *)
(* elsewhere).  Begin(d) ages everything at rest by d.  The real clock     *)
(* stands a positive instant past every whole-day step, so the code's      *)
(* `time.Since(FirstSeen) > 720h` reads `age >= 30` here (90 likewise).    *)
(* `now` and nCrash are history only (hidden by View).                     *)
(*                                                                         *)
(* Environment: Begin(d, rf) lets d days pass, optionally breaks a file    *)
(* for reading and starts one AutoTA run; Fetch(ok, z) is the moment the   *)
(* run observes what the root publishes: an arbitrary DNSKEY RRset         *)
(* z = [keys, revoked, signedN, signedR] (signedN: keys                    *)
(* with a valid RRSIG made in plain form, signedR: revoked keys with a     *)
(* valid RRSIG made in revoked form -- everything else is a missing or     *)
(* forged signature).  Fetch and both writes may fail; Crash between the   *)
(* persistence steps discards memory; Restart re-seeds from Configured.    *)
(*                                                                         *)
(* Deliberate deviations:                                                  *)
(*  - configured anchors never carry the REVOKE bit (MergeConfigured's     *)
(*    "admin pre-seeded a revoked key" branch is not modelled), hence no   *)
(*    stored entry has the bit and legacy StateRemoved never arises;       *)
(*  - configured anchors have pairwise distinct tags (ASSUME);             *)
(*  - which of two same-tag DNSKEYs of one response lands in kskFetched    *)
(*    (the later one) is a nondeterministic choice at Authenticate;        *)
(*  - work-budget errors of the validator are outside the model.           *)
(*                                                                         *)
(* Oracle (ghost) variables are computed from the publications and the set *)
(* the resolver trusted when it fetched (gT), never from cur/tombs:        *)
(*   seenSince[k]  age of k's continuous presence in accepted refreshes    *)
(*   firstEver[k]  age of k's first appearance in any accepted refresh      *)
(*                 (never reset: distinguishes a re-published key)         *)
(*   earned        keys that completed >= 30 d of such presence            *)
(*   missSince[k]  age of k's continuous absence                           *)
(*   revAcc        materials whose self-signed revocation was accepted and *)
(*                 durably recorded at least once                          *)
(*   revVol        ... accepted, but neither record could be written       *)
(* Timer-starting events count at the fetch; timer-resetting events count  *)
(* only when the state file write of that run succeeded (the weakest       *)
(* reading of "accepted refresh": one whose outcome was recorded).         *)
(*                                                                         *)
(* What TLC found on this model and the replay reproduced on the code      *)
(* (Hyp_*.cfg; the clean MC_*/Sim_* configurations exclude the triggering  *)
(* move through the Allow* / ReadFaultKinds / Tag constants):              *)
(*  H1 presence is by tag: a pending key absent from an accepted refresh   *)
(*     that carries another key with its tag still completes its hold-down *)
(*  H2 RevTag[k] = Tag[k]+Delta+1 (checksum carry): the revocation is      *)
(*     never recognised                                                    *)
(*  H3 a DNSKEY sharing the revoked key's tag later in the RRset masks     *)
(*     the revocation                                                      *)
(*  H4 tombstone file unreadable (open error): run continues with none     *)
(*     and overwrites the store; a configured revoked key is trusted again *)
(*     -- CONFIRMED, now the switch UnreadableContinues (see below)        *)
(*  H5 both writes fail on a new revocation: fail closed, then the next    *)
(*     refresh has forgotten the revocation                                *)
(*  H7 tombstone write failed, then the state file (sole record) is        *)
(*     undecodable: the revoked configured key is trusted again            *)
(*                                                                         *)
(* Two confirmed defects are kept as SWITCHES (definitions a configuration *)
(* overrides with `<-`); the specification proper describes the behaviour  *)
(* the statement asks for, the as-built behaviour is the negative twin     *)
(* (Neg_*.cfg must violate the named property):                            *)
(*  UnreadableContinues  readTombstones treats an open error other than    *)
(*     ENOENT (ELOOP, EACCES, EMFILE, EIO) as transient: the run goes on   *)
(*     with NO tombstones, MergeConfigured re-admits a revoked key the     *)
(*     configuration lists, PublishCandidate trusts it, and the tail       *)
(*     overwrites the real store.  Statement: "if ... the revocation store *)
(*     is unreadable, validation fails closed instead of trusting it".     *)
(*  BootTrustsConfig     NewResolver copies cfg.RootKeys into rootKeys     *)
(*     without looking at the disk: a revoked key the configuration still  *)
(*     lists is live from start-up until the first AutoTA run publishes    *)
(*     (after middleware.Ready and the priming round trips).  Statement:   *)
(*     "never published as a trust anchor again - not after restarts ...,  *)
(*     configuration that still lists it".  The specification proper seeds *)
(*     the start-up set with what a run would publish before its fetch     *)
(*     (BootCandidate), and with nothing when the store cannot be read.    *)
(***************************************************************************)
EXTENDS Integers, FiniteSets, Sequences, TLC

CONSTANTS Keys,            \* key materials (strings)
          Configured,      \* cfg.RootKeys (plain form), SUBSET Keys
          Tag,             \* [Keys -> Nat]   tag of the plain form
          RevTag,          \* [Keys -> Nat]   tag of the REVOKE form
          Delta,           \* DNSKEYFlagRevoke (128 in the code)
          DaySteps,        \* SUBSET Nat
          AgeCap,          \* > 90
          MaxRefresh, MaxRestarts, MaxWriteFaults, MaxReadFaults,
          ReadFaultKinds,  \* SUBSET {"tombCorrupt", "tombUnreadable", "stateCorrupt"}
          AllowSoleRecordLoss,   \* corrupt the state file while it holds the only record of a revocation
          AllowIntraSetCollision, \* publish two DNSKEYs with the same tag in one RRset
          AllowContinueAfterVolatile, \* keep refreshing after a revocation that could not be recorded at all
          RelevantSignersOnly    \* state-space reduction: only signatures of keys the resolver could use
                                 \* (a signature of any other key is the same as no signature)

\* defect switches (as-built = TRUE); overridden by the Neg_* configurations
UnreadableContinues == FALSE
BootTrustsConfig    == FALSE

ASSUME /\ Configured \subseteq Keys
       /\ \A a, b \in Configured : a # b => Tag[a] # Tag[b]
       /\ AgeCap > 90

VARIABLES
  now,            \* days elapsed (documentation)
  rootKeys,       \* Resolver.rootKeys as a set of materials; {} = nil = fail closed
  stateFile,      \* [kind: {"missing","corrupt","ok"}, m: tag -> [k, st, age]]
  tombFile,       \* [kind: {"missing","corrupt","ok"}, s: SUBSET Keys]
  tombUnreadable, \* open() of the tombstone file fails during this run (transient)
  booting,        \* a fresh process that has not finished its start-up AutoTA
  pc,
  zone,           \* what the root publishes for this run
  prior,          \* priorTrustValid
  cur,            \* kskCurrent
  tombs,          \* tombstones (in memory)
  cand,           \* candidate
  fetched,        \* kskFetched: tag -> material (its form is decided by zone.revoked)
  revOnly,        \* revocationOnly
  staged,         \* tags with revocationSelfSigned[tag] = true
  newRev,         \* newRevocation
  tombErr, stateErr,
  nRefresh, nRestart, nCrash, nWF, nRF,
  \* ---- oracle ----
  seenSince, firstEver, earned, missSince, revAcc, revVol,
  gT,             \* what the resolver trusted when it fetched
  gFull,          \* the RRset carries a valid signature of a trusted, non-revoked key
  gRevSet,        \* trusted keys published revoked with a valid self-signature
  ev              \* last action with its arguments (hidden by View)

implVars  == <<rootKeys, stateFile, tombFile, tombUnreadable, booting, pc, zone, prior, cur,
               tombs, cand, fetched, revOnly, staged, newRev, tombErr, stateErr>>
bound     == <<nRefresh, nRestart, nCrash, nWF, nRF>>
ghost     == <<seenSince, firstEver, earned, missSince, revAcc, revVol, gT, gFull, gRevSet>>
vars      == <<now, implVars, bound, ghost, ev>>
View      == <<implVars, nRefresh, nRestart, nWF, nRF, ghost>>   \* now, nCrash, ev: history only, no guard reads them
DirView   == <<View, nCrash>>

None    == -1
Empty   == << >>
NoZone  == [keys |-> {}, revoked |-> {}, signedN |-> {}, signedR |-> {}]
Trusted == {"Valid", "Missing"}
Marker  == {"Revoked", "Removed"}
Timed   == {"AddPend", "Missing"}     \* FirstSeen is only ever compared in these states; elsewhere age = 0

Min(S)  == CHOOSE x \in S : \A y \in S : x <= y
Cap(a)  == IF a > AgeCap THEN AgeCap ELSE a
Older(a, d) == IF a = None THEN None ELSE Cap(a + d)

Put(f, t, v)  == [x \in DOMAIN f \cup {t} |-> IF x = t THEN v ELSE f[x]]
Drop(f, S)    == [x \in DOMAIN f \ S |-> f[x]]
KeysIn(f, sts) == {f[t].k : t \in {x \in DOMAIN f : f[x].st \in sts}}

FormTag(z, k) == IF k \in z.revoked THEN RevTag[k] ELSE Tag[k]
Plain(z)      == z.keys \ z.revoked          \* keys published without the REVOKE bit

Zones ==
  { z \in [keys : SUBSET Keys, revoked : SUBSET Keys, signedN : SUBSET Keys, signedR : SUBSET Keys] :
      /\ z.revoked \subseteq z.keys
      /\ z.signedR \subseteq z.revoked
      /\ AllowIntraSetCollision \/
           \A a, b \in z.keys : a # b => FormTag(z, a) # FormTag(z, b) }

\* the state file holds the only durable record of some revocation
SoleRecord ==
  /\ stateFile.kind = "ok"
  /\ \E t \in DOMAIN stateFile.m :
       /\ stateFile.m[t].st \in Marker
       /\ ~(tombFile.kind = "ok" /\ stateFile.m[t].k \in tombFile.s)

\* ---- the read half of AutoTA as functions (used by the step actions and by Restart) ----
SeedCur(S)      == [t \in {Tag[k] : k \in S} |-> [k |-> CHOOSE k \in S : Tag[k] = t, st |-> "Valid", age |-> 0]]
Migrated(c, tb) == tb \cup KeysIn(c, Marker)
Preceded(c, tb) == Drop(c, {t \in DOMAIN c : c[t].st \notin Marker /\ c[t].k \in tb})
Merged(c, tb)   == LET add == {k \in Configured : Tag[k] \notin DOMAIN c /\ k \notin tb}
                   IN [t \in DOMAIN c \cup {Tag[k] : k \in add} |->
                         IF t \in DOMAIN c THEN c[t]
                         ELSE [k |-> CHOOSE k \in add : Tag[k] = t, st |-> "Valid", age |-> 0]]
\* what a run started on this disk by a process seeded with Configured publishes before its fetch
BootCandidate ==
  LET c0 == IF stateFile.kind = "ok" THEN stateFile.m ELSE SeedCur(Configured)
      tb == Migrated(c0, IF tombFile.kind = "ok" THEN tombFile.s ELSE {})
  IN KeysIn(Merged(Preceded(c0, tb), tb), Trusted)

TypeOK ==
  /\ rootKeys \subseteq Keys
  /\ stateFile.kind \in {"missing", "corrupt", "ok"}
  /\ \A t \in DOMAIN stateFile.m :
        stateFile.m[t].k \in Keys /\ stateFile.m[t].age \in 0..AgeCap
        /\ stateFile.m[t].st \in {"AddPend", "Valid", "Missing", "Revoked"}
  /\ tombFile.kind \in {"missing", "corrupt", "ok"} /\ tombFile.s \subseteq Keys
  /\ pc \in {"idle", "down", "ReadState", "ReadTombstones", "MigrateLegacy", "TombstonePrecedence",
             "MergeConfigured", "PublishCandidate", "Fetch", "Authenticate", "StageRevocations",
             "ProcessFetched", "HoldDownTransitions", "WriteTombstones", "DropMarkers",
             "WriteState", "PublishOrClear"}
  /\ earned \subseteq Keys /\ revAcc \subseteq Keys /\ revVol \subseteq Keys

Init ==
  /\ now = 0
  /\ rootKeys = Configured
  /\ stateFile = [kind |-> "missing", m |-> Empty]
  /\ tombFile = [kind |-> "missing", s |-> {}]
  /\ tombUnreadable = FALSE
  /\ booting = TRUE
  /\ pc = "idle"
  /\ zone = NoZone /\ prior = FALSE /\ cur = Empty /\ tombs = {} /\ cand = {}
  /\ fetched = Empty /\ revOnly = FALSE /\ staged = {} /\ newRev = FALSE
  /\ tombErr = FALSE /\ stateErr = FALSE
  /\ nRefresh = 0 /\ nRestart = 0 /\ nCrash = 0 /\ nWF = 0 /\ nRF = 0
  /\ seenSince = [k \in Keys |-> None] /\ firstEver = [k \in Keys |-> None] /\ earned = {} /\ missSince = [k \in Keys |-> None]
  /\ revAcc = {} /\ revVol = {} /\ gT = {} /\ gFull = FALSE /\ gRevSet = {}
  /\ ev = [a |-> "Init"]

\* the run is over (return statement): locals vanish
ClearLocalsTo(nextpc, boot) ==
  /\ pc' = nextpc /\ booting' = boot /\ tombUnreadable' = FALSE
  /\ zone' = NoZone /\ prior' = FALSE /\ cur' = Empty /\ tombs' = {} /\ cand' = {}
  /\ fetched' = Empty /\ revOnly' = FALSE /\ staged' = {} /\ newRev' = FALSE
  /\ tombErr' = FALSE /\ stateErr' = FALSE
  /\ gT' = {} /\ gFull' = FALSE /\ gRevSet' = {}

ClearLocals == ClearLocalsTo("idle", FALSE)

Step(next) == pc' = next

(***************************************************************************)
(* Environment                                                             *)
(***************************************************************************)
Begin(d, rf) ==
  /\ pc = "idle" /\ nRefresh < MaxRefresh
  /\ d \in DaySteps /\ rf \in {"none"} \cup ReadFaultKinds
  /\ rf # "none" => nRF < MaxReadFaults
  /\ rf = "tombUnreadable" => tombFile.kind = "ok"
  /\ rf = "stateCorrupt" => (AllowSoleRecordLoss \/ ~SoleRecord)
  /\ AllowContinueAfterVolatile \/ revVol = {}
  /\ now' = now + d
  /\ nRefresh' = nRefresh + 1
  /\ nRF' = IF rf = "none" THEN nRF ELSE nRF + 1
  /\ stateFile' = IF rf = "stateCorrupt" THEN [kind |-> "corrupt", m |-> Empty]
                  ELSE [stateFile EXCEPT !.m = [t \in DOMAIN stateFile.m |->
                          [stateFile.m[t] EXCEPT !.age = IF stateFile.m[t].st \in Timed
                                                           THEN Cap(@ + d) ELSE 0]]]
  /\ tombFile' = IF rf = "tombCorrupt" THEN [kind |-> "corrupt", s |-> {}] ELSE tombFile
  /\ tombUnreadable' = (rf = "tombUnreadable")
  /\ seenSince' = [k \in Keys |-> Older(seenSince[k], d)]
  /\ firstEver' = [k \in Keys |-> Older(firstEver[k], d)]
  /\ missSince' = [k \in Keys |-> Older(missSince[k], d)]
  /\ prior' = (rootKeys # {})                      \* priorTrustValid := r.hasTrustAnchors()
  /\ Step("ReadState")
  /\ ev' = [a |-> "Begin", d |-> d, rf |-> rf]
  /\ UNCHANGED <<rootKeys, booting, zone, cur, tombs, cand, fetched, revOnly, staged, newRev, tombErr,
                 stateErr, nRestart, nCrash, nWF, earned, revAcc, revVol, gT, gFull, gRevSet>>

Crash ==
  /\ pc \in {"WriteTombstones", "WriteState", "PublishOrClear"}
  /\ nRestart < MaxRestarts
  /\ ClearLocalsTo("down", TRUE)
  /\ rootKeys' = {}
  /\ nCrash' = nCrash + 1
  /\ ev' = [a |-> "Crash", at |-> pc]
  /\ UNCHANGED <<now, stateFile, tombFile, nRefresh, nRestart, nWF, nRF, seenSince, firstEver, earned, missSince, revAcc,
                 revVol>>

\* NewResolver.  rf = "tombUnreadable": open() of the tombstone file fails while the process starts
\* (the fault is over when the start-up run begins; Begin has its own).
Restart(rf) ==
  /\ pc \in {"idle", "down"} /\ nRestart < MaxRestarts
  /\ rf \in {"none"} \cup (ReadFaultKinds \cap {"tombUnreadable"})
  /\ rf # "none" => (nRF < MaxReadFaults /\ tombFile.kind = "ok")
  /\ nRestart' = nRestart + 1
  /\ nRF' = IF rf = "none" THEN nRF ELSE nRF + 1
  /\ rootKeys' = IF BootTrustsConfig THEN Configured        \* as built: r.rootKeys = cfg.RootKeys
                 ELSE IF rf = "tombUnreadable" \/ tombFile.kind = "corrupt" THEN {}
                 ELSE BootCandidate
  /\ booting' = TRUE /\ pc' = "idle"
  /\ ev' = [a |-> "Restart", rf |-> rf]
  /\ UNCHANGED <<now, stateFile, tombFile, tombUnreadable, zone, prior, cur, tombs, cand, fetched,
                 revOnly, staged, newRev, tombErr, stateErr, nRefresh, nCrash, nWF, ghost>>

(***************************************************************************)
(* AutoTA                                                                  *)
(***************************************************************************)
\* kskCurrent, err := readFromTAFile(); on error seed from r.rootKeys as Valid, FirstSeen now
ReadState ==
  /\ pc = "ReadState"
  /\ cur' = IF stateFile.kind = "ok" THEN stateFile.m ELSE SeedCur(rootKeys)
  /\ Step("ReadTombstones")
  /\ ev' = [a |-> "ReadState", fallback |-> (stateFile.kind # "ok")]
  /\ UNCHANGED <<now, rootKeys, stateFile, tombFile, tombUnreadable, booting, zone, prior, tombs, cand,
                 fetched, revOnly, staged, newRev, tombErr, stateErr, bound, ghost>>

\* readTombstones: missing -> empty; undecodable, or any other open error -> clear trust, abort,
\* files untouched (as built, UnreadableContinues: open error -> empty map and a warning)
ReadTombstones ==
  /\ pc = "ReadTombstones"
  /\ IF (~tombUnreadable /\ tombFile.kind = "corrupt") \/ (tombUnreadable /\ ~UnreadableContinues)
       THEN /\ rootKeys' = {}
            /\ ClearLocals
            /\ ev' = [a |-> "ReadTombstones", r |-> IF tombUnreadable THEN "unreadable" ELSE "corrupt"]
            /\ UNCHANGED <<now, stateFile, tombFile, bound, seenSince, firstEver, earned, missSince, revAcc, revVol>>
       ELSE /\ tombs' = IF tombUnreadable \/ tombFile.kind # "ok" THEN {} ELSE tombFile.s
            /\ Step("MigrateLegacy")
            /\ ev' = [a |-> "ReadTombstones",
                      r |-> IF tombUnreadable THEN "unreadable" ELSE tombFile.kind]
            /\ UNCHANGED <<now, rootKeys, stateFile, tombFile, tombUnreadable, booting, zone, prior, cur,
                           cand, fetched, revOnly, staged, newRev, tombErr, stateErr, bound, ghost>>

\* copy Revoked/Removed markers of the state file into the tombstones
MigrateLegacy ==
  /\ pc = "MigrateLegacy"
  /\ tombs' = Migrated(cur, tombs)
  /\ Step("TombstonePrecedence")
  /\ ev' = [a |-> "MigrateLegacy"]
  /\ UNCHANGED <<now, rootKeys, stateFile, tombFile, tombUnreadable, booting, zone, prior, cur, cand,
                 fetched, revOnly, staged, newRev, tombErr, stateErr, bound, ghost>>

\* a tombstoned material never stays in kskCurrent (markers excepted)
TombstonePrecedence ==
  /\ pc = "TombstonePrecedence"
  /\ cur' = Preceded(cur, tombs)
  /\ Step("MergeConfigured")
  /\ ev' = [a |-> "TombstonePrecedence"]
  /\ UNCHANGED <<now, rootKeys, stateFile, tombFile, tombUnreadable, booting, zone, prior, tombs, cand,
                 fetched, revOnly, staged, newRev, tombErr, stateErr, bound, ghost>>

\* configured anchors whose TAG is free and whose MATERIAL is not tombstoned enter as Valid
MergeConfigured ==
  /\ pc = "MergeConfigured"
  /\ cur' = Merged(cur, tombs)
  /\ Step("PublishCandidate")
  /\ ev' = [a |-> "MergeConfigured"]
  /\ UNCHANGED <<now, rootKeys, stateFile, tombFile, tombUnreadable, booting, zone, prior, tombs, cand,
                 fetched, revOnly, staged, newRev, tombErr, stateErr, bound, ghost>>

\* candidate := Valid|Missing; published before the fetch only if prior trust was valid
PublishCandidate ==
  /\ pc = "PublishCandidate"
  /\ cand' = KeysIn(cur, Trusted)
  /\ rootKeys' = IF prior THEN cand' ELSE rootKeys
  /\ Step("Fetch")
  /\ ev' = [a |-> "PublishCandidate", published |-> prior]
  /\ UNCHANGED <<now, stateFile, tombFile, tombUnreadable, booting, zone, prior, cur, tombs, fetched,
                 revOnly, staged, newRev, tombErr, stateErr, bound, ghost>>

\* r.Resolve(". DNSKEY", CD=1): what the root publishes is observed here
Fetch(ok, z) ==
  /\ pc = "Fetch"
  /\ IF ok
       THEN /\ z \in Zones /\ zone' = z
            /\ RelevantSignersOnly => (z.signedN \cup z.signedR) \subseteq (cand \cup rootKeys)
            /\ Step("Authenticate")
            /\ UNCHANGED <<rootKeys, tombUnreadable, booting, prior, cur, tombs, cand, fetched, revOnly,
                           staged, newRev, tombErr, stateErr, gT, gFull, gRevSet>>
       ELSE /\ z = NoZone /\ ClearLocals /\ UNCHANGED rootKeys
  /\ ev' = [a |-> "Fetch", ok |-> ok, z |-> z]
  /\ UNCHANGED <<now, stateFile, tombFile, bound, seenSince, firstEver, earned, missSince, revAcc, revVol>>

\* ---- oracle, evaluated on the publication at the moment it is consumed ----
OracleT       == IF rootKeys # {} THEN rootKeys ELSE cand
OracleFull    == zone.keys # {} /\ OracleT \cap zone.signedN # {}
OracleRevSet  == {k \in zone.revoked \cap OracleT : k \in zone.signedR}
OracleAuth    == zone.keys # {} /\ (OracleFull \/ OracleRevSet # {})

\* verifyFetchedKeysWithWork
Pass1     == zone.keys # {} /\ cand \cap zone.signedN # {}
Bootstrap == {k \in zone.revoked : k \in cand /\ RevTag[k] - Delta = Tag[k]}
Pass2     == zone.keys # {} /\ Bootstrap \cap zone.signedR # {}

Authenticate(f) ==
  /\ pc = "Authenticate"
  /\ IF cand # {} /\ (Pass1 \/ Pass2)
       THEN /\ revOnly' = ~Pass1
            \* kskFetched: one DNSKEY per tag, the last one in the answer wins
            /\ f \in [{FormTag(zone, k) : k \in zone.keys} -> zone.keys]
            /\ \A t \in DOMAIN f : FormTag(zone, f[t]) = t
            /\ fetched' = f
            /\ gT' = OracleT /\ gFull' = OracleFull /\ gRevSet' = OracleRevSet
            /\ IF OracleFull
                 THEN /\ LET ss == [k \in Keys |-> IF k \in Plain(zone) /\ seenSince[k] = None
                                                      THEN 0 ELSE seenSince[k]]
                          IN /\ firstEver' = [k \in Keys |-> IF k \in Plain(zone) /\ firstEver[k] = None THEN 0 ELSE firstEver[k]]
                             /\ earned' = earned \cup {k \in Plain(zone) \ Configured : ss[k] >= 30}
                             /\ seenSince' = [k \in Keys |-> IF k \in Configured \cup earned'
                                                               THEN None ELSE ss[k]]
                      /\ missSince' = [k \in Keys |-> IF k \in OracleT /\ k \notin Plain(zone)
                                                           /\ missSince[k] = None
                                                        THEN 0 ELSE missSince[k]]
                 ELSE UNCHANGED <<seenSince, firstEver, earned, missSince>>
            /\ Step("StageRevocations")
            /\ ev' = [a |-> "Authenticate", ok |-> TRUE, revOnly |-> ~Pass1, fetched |-> f]
            /\ UNCHANGED <<rootKeys, tombUnreadable, booting, zone, prior, cur, tombs, cand, staged, newRev,
                           tombErr, stateErr>>
       ELSE /\ f = Empty
            /\ ClearLocals /\ UNCHANGED <<rootKeys, seenSince, firstEver, earned, missSince>>
            /\ ev' = [a |-> "Authenticate", ok |-> FALSE]
  /\ UNCHANGED <<now, stateFile, tombFile, bound, revAcc, revVol>>

\* stageRevocationSelfSignatures (before any mutation)
StageRevocations ==
  /\ pc = "StageRevocations"
  /\ staged' = {t \in DOMAIN fetched :
                  LET k == fetched[t] IN
                  /\ k \in zone.revoked
                  /\ k \notin tombs
                  /\ (t - Delta) \in DOMAIN cur
                  /\ cur[t - Delta].st \in Trusted
                  /\ cur[t - Delta].k = k              \* sameKeyExceptRevoke
                  /\ k \in zone.signedR}               \* revocationIsSelfSigned
  /\ Step("ProcessFetched")
  /\ ev' = [a |-> "StageRevocations"]
  /\ UNCHANGED <<now, rootKeys, stateFile, tombFile, tombUnreadable, booting, zone, prior, cur, tombs, cand,
                 fetched, revOnly, newRev, tombErr, stateErr, bound, ghost>>

\* one iteration of `for _, tag := range fetchedTags` (ascending)
ProcOne(t, acc) ==
  LET k   == fetched[t]
      rev == k \in zone.revoked
      c   == acc.cur
  IN
  IF k \in acc.tombs THEN acc
  ELSE IF t \in DOMAIN c /\ c[t].k = k /\ ~rev THEN acc          \* already tracked, same material and flags
  ELSE IF rev THEN
       IF /\ (t - Delta) \in DOMAIN c
          /\ c[t - Delta].st \in Trusted
          /\ c[t - Delta].k = k
          /\ t \in staged
       THEN [cur    |-> [c EXCEPT ![t - Delta] = [@ EXCEPT !.st = "Revoked", !.age = 0]],
             tombs  |-> acc.tombs \cup {k},
             newRev |-> TRUE]
       ELSE acc
  ELSE IF revOnly THEN acc
  ELSE IF t \in DOMAIN c THEN acc                                  \* tag collides with a different key
  ELSE [acc EXCEPT !.cur = Put(c, t, [k |-> k, st |-> "AddPend", age |-> 0])]

RECURSIVE ProcTags(_, _)
ProcTags(S, acc) == IF S = {} THEN acc
                    ELSE LET t == Min(S) IN ProcTags(S \ {t}, ProcOne(t, acc))

ProcessFetched ==
  /\ pc = "ProcessFetched"
  /\ LET r == ProcTags(DOMAIN fetched, [cur |-> cur, tombs |-> tombs, newRev |-> newRev])
     IN cur' = r.cur /\ tombs' = r.tombs /\ newRev' = r.newRev
  /\ Step("HoldDownTransitions")
  /\ ev' = [a |-> "ProcessFetched"]
  /\ UNCHANGED <<now, rootKeys, stateFile, tombFile, tombUnreadable, booting, zone, prior, cand, fetched,
                 revOnly, staged, tombErr, stateErr, bound, ghost>>

\* KeyRem / KeyPres / AddTime / RemTime.  Presence is `kskFetched[tag] != nil`: by TAG.
\* The code compares time.Since(FirstSeen) > 720h / 2160h.  Ages here are whole days and the
\* clock always stands a positive instant past the last whole-day step, so that is age >= 30 / 90.
HoldOne(t, e) ==
  IF t \notin DOMAIN fetched
    THEN CASE e.st = "AddPend" -> [e EXCEPT !.st = "Deleted"]
           [] e.st = "Valid"   -> [e EXCEPT !.st = "Missing", !.age = 0]
           [] e.st = "Missing" -> IF e.age >= 90 THEN [e EXCEPT !.st = "Deleted"] ELSE e
           [] OTHER            -> e
    ELSE CASE e.st = "AddPend" /\ e.age >= 30 -> [e EXCEPT !.st = "Valid", !.age = 0]
           [] e.st = "Missing"               -> [e EXCEPT !.st = "Valid", !.age = 0]
           [] OTHER                          -> e

HoldDownTransitions ==
  /\ pc = "HoldDownTransitions"
  /\ cur' = IF revOnly THEN cur
            ELSE LET h == [t \in DOMAIN cur |-> HoldOne(t, cur[t])]
                 IN Drop(h, {t \in DOMAIN h : h[t].st = "Deleted"})
  /\ Step("WriteTombstones")
  /\ ev' = [a |-> "HoldDownTransitions"]
  /\ UNCHANGED <<now, rootKeys, stateFile, tombFile, tombUnreadable, booting, zone, prior, tombs, cand,
                 fetched, revOnly, staged, newRev, tombErr, stateErr, bound, ghost>>

\* a revocation the oracle accepted becomes durable with the first write that lands
WriteTombstones(ok) ==
  /\ pc = "WriteTombstones"
  /\ ~ok => nWF < MaxWriteFaults
  /\ nWF' = IF ok THEN nWF ELSE nWF + 1
  /\ tombFile' = IF ok THEN [kind |-> "ok", s |-> tombs] ELSE tombFile
  /\ tombUnreadable' = IF ok THEN FALSE ELSE tombUnreadable
  /\ tombErr' = ~ok
  /\ revAcc' = IF ok THEN revAcc \cup gRevSet ELSE revAcc
  /\ Step("DropMarkers")
  /\ ev' = [a |-> "WriteTombstones", ok |-> ok]
  /\ UNCHANGED <<now, rootKeys, stateFile, booting, zone, prior, cur, tombs, cand, fetched, revOnly, staged,
                 newRev, stateErr, nRefresh, nRestart, nCrash, nRF, seenSince, firstEver, earned, missSince, revVol, gT,
                 gFull, gRevSet>>

DropMarkers ==
  /\ pc = "DropMarkers"
  /\ cur' = IF tombErr THEN cur ELSE Drop(cur, {t \in DOMAIN cur : cur[t].st \in Marker})
  /\ Step("WriteState")
  /\ ev' = [a |-> "DropMarkers"]
  /\ UNCHANGED <<now, rootKeys, stateFile, tombFile, tombUnreadable, booting, zone, prior, tombs, cand,
                 fetched, revOnly, staged, newRev, tombErr, stateErr, bound, ghost>>

WriteState(ok) ==
  /\ pc = "WriteState"
  /\ ~ok => nWF < MaxWriteFaults
  /\ nWF' = IF ok THEN nWF ELSE nWF + 1
  /\ stateFile' = IF ok THEN [kind |-> "ok", m |-> cur] ELSE stateFile
  /\ stateErr' = ~ok
  /\ revAcc' = IF ok THEN revAcc \cup gRevSet ELSE revAcc
  \* timer RESETS count only for a refresh whose outcome was recorded
  /\ IF ok /\ gFull
       THEN /\ seenSince' = [k \in Keys |-> IF k \in Plain(zone) THEN seenSince[k] ELSE None]
            /\ missSince' = [k \in Keys |-> IF k \in Plain(zone) THEN None ELSE missSince[k]]
       ELSE UNCHANGED <<seenSince, missSince>>
  /\ Step("PublishOrClear")
  /\ ev' = [a |-> "WriteState", ok |-> ok]
  /\ UNCHANGED <<now, rootKeys, tombFile, tombUnreadable, booting, zone, prior, cur, tombs, cand, fetched,
                 revOnly, staged, newRev, tombErr, nRefresh, nRestart, nCrash, nRF, firstEver, earned, revVol, gT, gFull,
                 gRevSet>>

PublishOrClear ==
  /\ pc = "PublishOrClear"
  /\ rootKeys' = IF tombErr /\ stateErr
                   THEN IF newRev THEN {} ELSE rootKeys
                   ELSE KeysIn(cur, Trusted)
  /\ revVol' = IF tombErr /\ stateErr THEN revVol \cup gRevSet ELSE revVol
  /\ ClearLocals
  /\ ev' = [a |-> "PublishOrClear"]
  /\ UNCHANGED <<now, stateFile, tombFile, bound, seenSince, firstEver, earned, missSince, revAcc>>

Next ==
  \/ (pc = "idle" /\ \E d \in DaySteps, rf \in {"none"} \cup ReadFaultKinds : Begin(d, rf))
  \/ Crash \/ (\E rf \in {"none", "tombUnreadable"} : Restart(rf))
  \/ ReadState \/ ReadTombstones \/ MigrateLegacy \/ TombstonePrecedence \/ MergeConfigured
  \/ PublishCandidate
  \/ (pc = "Fetch" /\ (Fetch(FALSE, NoZone) \/ \E z \in Zones : Fetch(TRUE, z)))
  \/ (pc = "Authenticate" /\
        \E f \in UNION {[D -> Keys] : D \in SUBSET {FormTag(zone, k) : k \in zone.keys}} : Authenticate(f))
  \/ StageRevocations \/ ProcessFetched \/ HoldDownTransitions
  \/ \E ok \in BOOLEAN : WriteTombstones(ok)
  \/ DropMarkers
  \/ \E ok \in BOOLEAN : WriteState(ok)
  \/ PublishOrClear

Spec == Init /\ [][Next]_vars

(***************************************************************************)
(* Properties (C09)                                                        *)
(***************************************************************************)
Quiescent == pc = "idle" /\ ~booting
AtRest    == pc = "idle"                 \* ... or freshly started: what NewResolver published counts too
Publishing == pc = "PublishOrClear" /\ pc' = "idle"     \* the PublishOrClear step itself (not a Crash)

\* a key beyond the configured anchors is trusted only after >= 30 days of presence in every
\* accepted refresh, each authenticated by a then-trusted non-revoked key
TrustOnlyByRFC == AtRest => rootKeys \subseteq Configured \cup earned

\* once a self-signed revocation of m was accepted (and recorded), m is never trusted again --
\* "not after restarts ... configuration that still lists it": also in a process that has only just started
RevokedNeverAgain == AtRest => rootKeys \cap revAcc = {}
RevokedNeverAtFetch == pc = "Authenticate" => rootKeys \cap revAcc = {}
\* ... even if neither record could be written (strict reading; hypothesis configs only)
RevokedNeverAgainStrict == Quiescent => rootKeys \cap (revAcc \cup revVol) = {}

\* a response no trusted key authenticates changes nothing
UnauthenticatedChangesNothing ==
  [][(pc = "Authenticate" /\ ~OracleAuth)
       => (pc' = "idle" /\ UNCHANGED <<rootKeys, stateFile, tombFile>>)]_vars

\* a response authenticated only by a revoked key can only complete that revocation
OnlyRevocations(c, d) ==
  /\ DOMAIN d \subseteq DOMAIN c
  /\ \A t \in DOMAIN d : d[t] = c[t] \/ (d[t].st = "Revoked" /\ c[t].k \in gRevSet)
RevokedOnlyRevokes ==
  /\ [][(pc \in {"ProcessFetched", "HoldDownTransitions"} /\ ~gFull) => OnlyRevocations(cur, cur')]_vars
  /\ [][(Publishing /\ ~gFull)
          => (rootKeys' = {} \/ (rootKeys' \subseteq gT /\ (gT \ rootKeys') \subseteq gRevSet))]_vars

\* fail closed: a new revocation neither write recorded; an undecodable tombstone store; a tombstone
\* store that exists but cannot be opened (and the run must not replace the store it could not read)
FailClosed ==
  /\ [][(Publishing /\ gRevSet # {} /\ tombErr /\ stateErr) => rootKeys' = {}]_vars
  /\ [][(pc = "ReadTombstones" /\ ~tombUnreadable /\ tombFile.kind = "corrupt")
          => (rootKeys' = {} /\ pc' = "idle")]_vars
  /\ [][(pc = "ReadTombstones" /\ tombUnreadable)
          => (rootKeys' = {} /\ pc' = "idle" /\ UNCHANGED <<stateFile, tombFile>>)]_vars

\* ... as a state predicate: a run that could not open the store goes no further than the read
UnreadableAborts == tombUnreadable => pc \in {"ReadState", "ReadTombstones"}

\* a trusted key that is present, or merely absent for less than 90 days, stays trusted
StillOwed(k) == k \notin gRevSet /\ (k \in Plain(zone) \/ missSince[k] = None \/ missSince[k] < 90)
MissingKeepsTrust ==
  [][(Publishing /\ gFull)
       => \A k \in gT : StillOwed(k) => (k \in rootKeys' \/ (tombErr /\ stateErr /\ rootKeys' = {}))]_vars

\* a missing key that reappears in an accepted refresh is Valid again
ReappearRestores ==
  [][(Publishing /\ gFull)
       => \A k \in gT \cap Plain(zone) :
             (Tag[k] \in DOMAIN cur /\ cur[Tag[k]].k = k) => cur[Tag[k]].st = "Valid"]_vars

\* the live set is always a subset of what is, or is about to be, recorded as Valid|Missing,
\* and tombstoned material is never published from this run on
PublishedFromState ==
  [][Publishing => rootKeys' \cap tombs = {} \/ (tombErr /\ stateErr /\ ~newRev)]_vars

(***************************************************************************)
(* Reachability witnesses: each must be VIOLATED (vacuity guard)           *)
(***************************************************************************)
W_NeverEarned      == earned \subseteq Configured
W_NeverRevAcc      == revAcc = {}
W_NeverRevOnly     == ~(pc = "StageRevocations" /\ revOnly)
W_NeverFailClosedW == ~(pc = "PublishOrClear" /\ gRevSet # {} /\ tombErr /\ stateErr)
W_NeverMissing     == \A t \in DOMAIN stateFile.m : stateFile.m[t].st # "Missing"
W_NeverRemoved     == ~(pc = "WriteTombstones" /\ \E k \in gT : k \notin KeysIn(cur, Trusted \cup Marker))
W_NeverReappear    == ~(pc = "HoldDownTransitions" /\ \E t \in DOMAIN cur : cur[t].st = "Missing" /\ t \in DOMAIN fetched /\ ~revOnly)
W_NeverMarkerKept  == \A t \in DOMAIN stateFile.m : stateFile.m[t].st # "Revoked"
W_NeverTombUsed    == ~(pc = "MergeConfigured" /\ \E k \in Configured : k \in tombs)
W_NeverUnreadable  == ~(pc = "ReadTombstones" /\ tombUnreadable /\ rootKeys # {})
W_NeverBootFiltered == ~(pc = "idle" /\ booting /\ nRestart > 0 /\ rootKeys # Configured /\ rootKeys # {})
W_NeverBootClosed  == ~(pc = "idle" /\ booting /\ nRestart > 0 /\ rootKeys = {} /\ tombFile.kind = "ok")
=============================================================================
