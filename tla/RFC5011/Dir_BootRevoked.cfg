CONSTANTS
  Keys <- K2
  Configured <- ConfAB
  Tag <- Tag2
  RevTag <- Rev2
  DaySteps <- Days1
  ReadFaultKinds <- RF_none
  Delta = 10
  AgeCap = 91
  MaxRefresh = 2
  MaxRestarts = 1
  MaxWriteFaults = 0
  MaxReadFaults = 0
  AllowSoleRecordLoss = FALSE
  AllowIntraSetCollision = FALSE
  AllowContinueAfterVolatile = TRUE
  RelevantSignersOnly = TRUE
SPECIFICATION Spec
VIEW DirView
INVARIANTS D_BootRevoked
CHECK_DEADLOCK FALSE
