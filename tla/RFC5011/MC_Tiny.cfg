CONSTANTS
  Keys <- K2
  Configured <- ConfA
  Tag <- Tag2
  RevTag <- Rev2
  Delta = 10
  DaySteps <- Days2
  AgeCap = 91
  MaxRefresh = 2
  MaxRestarts = 0
  MaxWriteFaults = 1
  MaxReadFaults = 0
  ReadFaultKinds <- RF_tomb
  AllowSoleRecordLoss = FALSE
  AllowIntraSetCollision = FALSE
  AllowContinueAfterVolatile = TRUE
  RelevantSignersOnly = TRUE
SPECIFICATION Spec
VIEW View
INVARIANTS TypeOK TrustOnlyByRFC RevokedNeverAgain RevokedNeverAtFetch UnreadableAborts
PROPERTIES UnauthenticatedChangesNothing RevokedOnlyRevokes FailClosed MissingKeepsTrust ReappearRestores PublishedFromState
CHECK_DEADLOCK FALSE
