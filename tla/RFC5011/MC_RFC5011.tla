---------------------------- MODULE MC_RFC5011 ----------------------------
(* Constant functions for the model-checking, simulation and hypothesis     *)
(* configurations of RFC5011.tla.  Tags are small integers, Delta = 10.     *)
EXTENDS RFC5011

K2 == {"A", "B"}
K3 == {"A", "B", "C"}
ConfA == {"A"}
ConfAB == {"A", "B"}

Plus10(f) == [k \in DOMAIN f |-> f[k] + 10]

\* injective tags
Tag2    == ("A" :> 1 @@ "B" :> 2)
Rev2    == Plus10(Tag2)
Tag3    == ("A" :> 1 @@ "B" :> 2 @@ "C" :> 3)
Rev3    == Plus10(Tag3)
\* C collides with the configured anchor A (plain and revoked form)
TagAC   == ("A" :> 1 @@ "B" :> 2 @@ "C" :> 1)
RevAC   == Plus10(TagAC)
\* C collides with the new key B: H1
TagBC   == ("A" :> 1 @@ "B" :> 2 @@ "C" :> 2)
RevBC   == Plus10(TagBC)
\* plain C sits on the tag of revoked A: H3
TagCrA  == ("A" :> 1 @@ "B" :> 2 @@ "C" :> 11)
RevCrA  == Plus10(TagCrA)
\* the checksum of revoked A carries (RevTag = Tag + Delta + 1): H2
TagH2   == ("A" :> 1 @@ "B" :> 3)
RevH2   == ("A" :> 12 @@ "B" :> 13)

Days6 == {0, 1, 29, 31, 89, 91}
Days4 == {0, 29, 31, 91}
Days3 == {1, 31, 91}
Days2 == {1, 31}
Days1 == {1}
DaysAny == 0..400
RF_unreadable == {"tombUnreadable"}
RF_state == {"stateCorrupt"}
RF_none == {}
RF_tomb == {"tombCorrupt"}
RF_corrupt == {"tombCorrupt", "stateCorrupt"}
RF_all == {"tombCorrupt", "stateCorrupt", "tombUnreadable"}
=============================================================================
