---------------------------- MODULE MC_RFC5011 ----------------------------
(* Constant functions for the model-checking, simulation and hypothesis     *)
(* configurations of RFC5011.tla.  Tags are small integers, Delta = 10.     *)
EXTENDS RFC5011

K2 == {"A", "B"}
K3 == {"A", "B", "C"}
ConfA == {"A"}
ConfAB == {"A", "B"}

Plus10(f) == [k \in DOMAIN f |-> f[k] + 10]

\* injective tags
Tag2    == ("A" :> 1 @@ "B" :> 2)
Rev2    == Plus10(Tag2)
Tag3    == ("A" :> 1 @@ "B" :> 2 @@ "C" :> 3)
Rev3    == Plus10(Tag3)
\* C collides with the configured anchor A (plain and revoked form)
TagAC   == ("A" :> 1 @@ "B" :> 2 @@ "C" :> 1)
RevAC   == Plus10(TagAC)
\* C collides with the new key B: H1
TagBC   == ("A" :> 1 @@ "B" :> 2 @@ "C" :> 2)
RevBC   == Plus10(TagBC)
\* plain C sits on the tag of revoked A: H3
TagCrA  == ("A" :> 1 @@ "B" :> 2 @@ "C" :> 11)
RevCrA  == Plus10(TagCrA)
\* the checksum of revoked A carries (RevTag = Tag + Delta + 1): H2
TagH2   == ("A" :> 1 @@ "B" :> 3)
RevH2   == ("A" :> 12 @@ "B" :> 13)

Days6 == {0, 1, 29, 31, 89, 91}
Days4 == {0, 29, 31, 91}
Days3 == {1, 31, 91}
Days2 == {1, 31}
Days1 == {1}
Days_0_29 == {0, 29}
Days_1_89 == {1, 89}
Days_1_91 == {1, 91}
DaysAny == 0..400
RF_unreadable == {"tombUnreadable"}
RF_state == {"stateCorrupt"}
RF_none == {}
RF_tomb == {"tombCorrupt"}
RF_corrupt == {"tombCorrupt", "stateCorrupt"}
RF_all == {"tombCorrupt", "stateCorrupt", "tombUnreadable"}
RF_tombs == {"tombCorrupt", "tombUnreadable"}
AsBuilt == TRUE          \* value of the defect switches in the Neg_* configurations
(***************************************************************************)
(* Directed scenarios.  Each D_* is the NEGATION of a situation one clause *)
(* of C09 is about; TLC's counter-example (Dir_*.cfg) is the shortest      *)
(* history that reaches it, and checks/c09.py runs that history on the     *)
(* code.  The predicates are stated just before the run's last step, when  *)
(* everything the run did is in the state.                                 *)
(***************************************************************************)
AtEnd   == pc = "PublishOrClear"
NoErr   == ~tombErr /\ ~stateErr
\* an add hold-down one day short: the pending key is present, authenticated, 29 days old
D_Pend29Present == ~(AtEnd /\ NoErr /\ gFull /\ zone.revoked = {} /\ \E t \in DOMAIN cur :
                        cur[t].st = "AddPend" /\ cur[t].age = 29 /\ t \in DOMAIN fetched /\ fetched[t] = cur[t].k)
\* ... and completed
D_Promote31     == ~(AtEnd /\ NoErr /\ \E k \in KeysIn(cur, {"Valid"}) \ Configured : k \notin rootKeys)
\* a pending key that skips one accepted refresh starts over
D_PendAbort     == ~(pc = "WriteTombstones" /\ gFull /\ zone.revoked = {} /\ \E k \in Keys \ Configured :
                        seenSince[k] # None /\ seenSince[k] > 0 /\ k \notin zone.keys /\ k \notin rootKeys)
\* ... and when it is published again its hold-down starts from nothing: 30 days after its FIRST
\* sighting it is pending, not trusted (a stale FirstSeen must not survive the abort)
D_PendReadd     == ~(AtEnd /\ NoErr /\ gFull /\ zone.revoked = {} /\ \E k \in Plain(zone) \ (Configured \cup earned) :
                        seenSince[k] = 0 /\ firstEver[k] # None /\ firstEver[k] >= 30)
D_Missing89Kept == ~(AtEnd /\ NoErr /\ gFull /\ zone.revoked = {} /\ \E t \in DOMAIN cur :
                        cur[t].st = "Missing" /\ cur[t].age = 89 /\ t \notin DOMAIN fetched)
D_Missing91Gone == ~(AtEnd /\ NoErr /\ gFull /\ zone.revoked = {} /\ \E k \in gT :
                        /\ missSince[k] # None /\ missSince[k] >= 90 /\ k \notin zone.keys
                        /\ k \notin KeysIn(cur, Trusted \cup Marker))
\* a key that has been VALID for more than the removal hold-down goes missing: its 90 days start NOW, not at the
\* day it was first seen (AutoTA re-uses the FirstSeen stamp as the missing-since clock)
D_MissingAfterLong == ~(AtEnd /\ NoErr /\ gFull /\ zone.revoked = {} /\ \E k \in gT :
                        /\ missSince[k] # None /\ missSince[k] >= 1 /\ missSince[k] < 90 /\ k \notin zone.keys
                        /\ now - missSince[k] >= 90)      \* ... and it is still missing one refresh later
D_Reappear      == ~(pc = "WriteTombstones" /\ gFull /\ zone.revoked = {} /\ \E k \in gT \cap zone.keys :
                        missSince[k] # None /\ missSince[k] > 0)
D_RevokeFull    == ~(AtEnd /\ NoErr /\ gFull /\ newRev)
D_RevokeOnly    == ~(AtEnd /\ NoErr /\ revOnly /\ newRev)
\* a response only a revoked key authenticates offers a new key and omits a trusted one
D_RevokeOnlyBait == ~(AtEnd /\ NoErr /\ revOnly /\ newRev /\ Plain(zone) \ gT # {} /\ (gT \ zone.keys) # {})
D_RevokeOnlyPend == ~(AtEnd /\ NoErr /\ revOnly /\ newRev /\ \E t \in DOMAIN cur : cur[t].st = "AddPend" /\ cur[t].age >= 30
                                                                  /\ t \in DOMAIN fetched)
D_DoubleFail    == ~(AtEnd /\ newRev /\ tombErr /\ stateErr)
D_DoubleFailNoRev == ~(AtEnd /\ ~newRev /\ tombErr /\ stateErr /\ gFull)
\* the tombstone write failed last time: the marker in the state file is migrated
D_MarkerMigrated == ~(AtEnd /\ NoErr /\ nWF = 1 /\ tombs # {} /\ \E k \in tombs \cap Configured : k \notin gT /\ gRevSet = {})
\* a revoked key the configuration still lists, after a restart
D_StaleConfig   == ~(AtEnd /\ NoErr /\ booting /\ nRestart = 1 /\ nCrash = 0 /\ tombs \cap Configured # {} /\ gRevSet = {})
\* the process died between the two writes of the refresh that revoked a configured key
D_CrashBetween  == ~(AtEnd /\ booting /\ nCrash = 1 /\ tombs \cap Configured # {} /\ gRevSet = {}
                     /\ stateFile.kind = "ok" /\ revAcc # {})
\* the process died before anything of the refresh that first saw a new key was written
D_CrashBeforeWrites == ~(AtEnd /\ NoErr /\ nCrash = 1 /\ gFull /\ \E t \in DOMAIN cur :
                            cur[t].st = "AddPend" /\ cur[t].age = 0 /\ seenSince[cur[t].k] # None /\ seenSince[cur[t].k] > 0)
D_TombCorrupt   == ~(pc = "idle" /\ ~booting /\ tombFile.kind = "corrupt" /\ nRefresh = 2)
D_StateCorrupt  == ~(pc = "ReadTombstones" /\ stateFile.kind = "corrupt" /\ earned # {} /\ earned \subseteq rootKeys)
\* unauthenticated bait: new key offered, trusted key dropped, nobody trusted signs
D_UnauthBait    == ~(pc = "Authenticate" /\ ~booting /\ ~OracleAuth /\ Plain(zone) \ rootKeys # {} /\ rootKeys \ zone.keys # {}
                     /\ zone.signedN # {})
\* REVOKE bit without the key's own signature, in a set a trusted key signs
D_RevokeNoSelfSig == ~(AtEnd /\ NoErr /\ gFull /\ \E k \in (zone.revoked \cap gT) : k \notin zone.signedR)
\* a self-signed revoked key whose tag collides with the revoked form of a trusted anchor
D_CollidingRevoke == ~(AtEnd /\ NoErr /\ gFull /\ "C" \in zone.revoked /\ "C" \in zone.signedR /\ "A" \in gT
                       /\ "A" \notin zone.keys)
\* ---- the tombstone store exists but cannot be opened (ELOOP, EACCES, EMFILE, EIO) ----
\* ... in a long-running process, while it records the revocation of a key the configuration lists
D_UnreadableRevoked == ~(pc = "ReadTombstones" /\ tombUnreadable /\ ~booting /\ tombFile.s \cap Configured # {})
\* ... in the start-up run after a restart, same store
D_UnreadableBoot    == ~(pc = "ReadTombstones" /\ tombUnreadable /\ booting /\ nRestart = 1 /\ tombFile.s \cap Configured # {})
\* ... while it records nothing: what an unreadable store holds is unknowable, so the outcome is the same
D_UnreadableEmpty   == ~(pc = "ReadTombstones" /\ tombUnreadable /\ tombFile.s = {})
\* ... while a new key sits in its add hold-down (the fail-closed run must not touch the state file)
D_UnreadablePend    == ~(pc = "ReadTombstones" /\ tombUnreadable /\ \E t \in DOMAIN stateFile.m : stateFile.m[t].st = "AddPend")
\* ... and the refresh after it finds the store readable again: trust comes back, the revoked key does not
D_UnreadableRecovers == ~(AtEnd /\ NoErr /\ gFull /\ nRF = 1 /\ ~prior /\ tombs \cap Configured # {}
                          /\ KeysIn(cur, Trusted) # {} /\ gRevSet = {})
\* ---- what NewResolver trusts before the first run ----
\* a revoked key the configuration still lists, right after the restart (tombstone on disk)
D_BootRevoked       == ~(pc = "idle" /\ booting /\ nRestart = 1 /\ nCrash = 0 /\ revAcc \cap Configured # {}
                          /\ tombFile.kind = "ok" /\ tombFile.s \cap Configured # {})
\* ... when only the StateRevoked marker records it (the tombstone write had failed)
D_BootMarkerOnly    == ~(pc = "idle" /\ booting /\ nRestart = 1 /\ nCrash = 0 /\ revAcc \cap Configured # {}
                          /\ (tombFile.kind # "ok" \/ tombFile.s = {}))
\* ... when the process died between the two writes of the refresh that revoked it
D_BootAfterCrash    == ~(pc = "idle" /\ booting /\ nRestart = 1 /\ nCrash = 1 /\ revAcc \cap Configured # {})
\* ... when the store cannot be opened while the process starts
\* (MaxRefresh = 2 leaves no room for the fault anywhere else), seen at the end of the start-up run
D_BootUnreadable    == ~(AtEnd /\ NoErr /\ booting /\ nRestart = 1 /\ nRF = 1 /\ ~prior /\ nCrash = 0 /\ tombs \cap Configured # {} /\ gFull /\ gRevSet = {})
\* a key that earned its trust is trusted right after a restart too (the start-up set is not just the configuration)
D_BootEarned        == ~(pc = "idle" /\ booting /\ nRestart = 1 /\ earned # {} /\ earned \subseteq rootKeys)
=============================================================================
