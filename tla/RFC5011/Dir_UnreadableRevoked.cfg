CONSTANTS
  Keys <- K2
  Configured <- ConfAB
  Tag <- Tag2
  RevTag <- Rev2
  DaySteps <- Days1
  ReadFaultKinds <- RF_unreadable
  Delta = 10
  AgeCap = 91
  MaxRefresh = 3
  MaxRestarts = 0
  MaxWriteFaults = 0
  MaxReadFaults = 1
  AllowSoleRecordLoss = FALSE
  AllowIntraSetCollision = FALSE
  AllowContinueAfterVolatile = TRUE
  RelevantSignersOnly = TRUE
SPECIFICATION Spec
VIEW DirView
INVARIANTS D_UnreadableRevoked
CHECK_DEADLOCK FALSE
