CONSTANTS
  Keys <- K2
  Configured <- ConfA
  Tag <- Tag2
  RevTag <- Rev2
  DaySteps <- Days2
  ReadFaultKinds <- RF_none
  Delta = 10
  AgeCap = 91
  MaxRefresh = 3
  MaxRestarts = 1
  MaxWriteFaults = 0
  MaxReadFaults = 0
  AllowSoleRecordLoss = FALSE
  AllowIntraSetCollision = FALSE
  AllowContinueAfterVolatile = TRUE
  RelevantSignersOnly = TRUE
SPECIFICATION Spec
VIEW DirView
INVARIANTS D_BootEarned
CHECK_DEADLOCK FALSE
