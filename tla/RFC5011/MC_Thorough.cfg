CONSTANTS
  Keys <- K3
  Configured <- ConfA
  Tag <- TagAC
  RevTag <- RevAC
  Delta = 10
  DaySteps <- Days4
  AgeCap = 91
  MaxRefresh = 3
  MaxRestarts = 1
  MaxWriteFaults = 2
  MaxReadFaults = 1
  ReadFaultKinds <- RF_tombs
  AllowSoleRecordLoss = FALSE
  AllowIntraSetCollision = FALSE
  AllowContinueAfterVolatile = TRUE
  RelevantSignersOnly = TRUE
SPECIFICATION Spec
VIEW View
INVARIANTS TypeOK TrustOnlyByRFC RevokedNeverAgain RevokedNeverAtFetch UnreadableAborts
PROPERTIES UnauthenticatedChangesNothing RevokedOnlyRevokes FailClosed MissingKeepsTrust ReappearRestores PublishedFromState
CHECK_DEADLOCK FALSE
