CONSTANTS
  Keys <- K2
  Configured <- ConfAB
  Tag <- Tag2
  RevTag <- Rev2
  DaySteps <- Days_1_89
  ReadFaultKinds <- RF_none
  Delta = 10
  AgeCap = 91
  MaxRefresh = 4
  MaxRestarts = 0
  MaxWriteFaults = 0
  MaxReadFaults = 0
  AllowSoleRecordLoss = FALSE
  AllowIntraSetCollision = FALSE
  AllowContinueAfterVolatile = TRUE
  RelevantSignersOnly = TRUE
SPECIFICATION Spec
VIEW DirView
INVARIANTS D_MissingAfterLong
CHECK_DEADLOCK FALSE
