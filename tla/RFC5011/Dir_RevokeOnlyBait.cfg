CONSTANTS
  Keys <- K3
  Configured <- ConfAB
  Tag <- Tag3
  RevTag <- Rev3
  DaySteps <- Days1
  ReadFaultKinds <- RF_none
  Delta = 10
  AgeCap = 91
  MaxRefresh = 1
  MaxRestarts = 0
  MaxWriteFaults = 0
  MaxReadFaults = 0
  AllowSoleRecordLoss = FALSE
  AllowIntraSetCollision = FALSE
  AllowContinueAfterVolatile = TRUE
  RelevantSignersOnly = TRUE
SPECIFICATION Spec
VIEW DirView
INVARIANTS D_RevokeOnlyBait
CHECK_DEADLOCK FALSE
