CONSTANTS
  Keys <- K3
  Configured <- ConfAB
  Tag <- Tag3
  RevTag <- Rev3
  DaySteps <- Days6
  ReadFaultKinds <- RF_all
  Delta = 10
  AgeCap = 91
  MaxRefresh = 6
  MaxRestarts = 2
  MaxWriteFaults = 3
  MaxReadFaults = 2
  AllowSoleRecordLoss = FALSE
  AllowIntraSetCollision = FALSE
  AllowContinueAfterVolatile = FALSE
  RelevantSignersOnly = FALSE
INIT Init
NEXT Next
CHECK_DEADLOCK FALSE
