CONSTANTS
  Keys <- K2
  Configured <- ConfA
  Tag <- Tag2
  RevTag <- Rev2
  Delta = 10
  DaySteps <- Days4
  AgeCap = 91
  MaxRefresh = 3
  MaxRestarts = 1
  MaxWriteFaults = 2
  MaxReadFaults = 1
  ReadFaultKinds <- RF_tombs
  AllowSoleRecordLoss = FALSE
  AllowIntraSetCollision = FALSE
  AllowContinueAfterVolatile = TRUE
  RelevantSignersOnly = TRUE
SPECIFICATION Spec
VIEW View
INVARIANTS W_NeverUnreadable
CHECK_DEADLOCK FALSE
