CONSTANTS
  Keys <- K2
  Configured <- ConfAB
  Tag <- TagH2
  RevTag <- RevH2
  DaySteps <- Days1
  ReadFaultKinds <- RF_none
  Delta = 10
  AgeCap = 91
  MaxRefresh = 2
  MaxRestarts = 0
  MaxWriteFaults = 0
  MaxReadFaults = 0
  AllowSoleRecordLoss = FALSE
  AllowIntraSetCollision = FALSE
  AllowContinueAfterVolatile = TRUE
  RelevantSignersOnly = TRUE
SPECIFICATION Spec
VIEW View
INVARIANTS RevokedNeverAgain
CHECK_DEADLOCK FALSE
