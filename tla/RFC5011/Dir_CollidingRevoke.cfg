CONSTANTS
  Keys <- K3
  Configured <- ConfA
  Tag <- TagAC
  RevTag <- RevAC
  DaySteps <- Days1
  ReadFaultKinds <- RF_none
  Delta = 10
  AgeCap = 91
  MaxRefresh = 1
  MaxRestarts = 0
  MaxWriteFaults = 0
  MaxReadFaults = 0
  AllowSoleRecordLoss = FALSE
  AllowIntraSetCollision = FALSE
  AllowContinueAfterVolatile = TRUE
  RelevantSignersOnly = FALSE
SPECIFICATION Spec
VIEW DirView
INVARIANTS D_CollidingRevoke
CHECK_DEADLOCK FALSE
