CONSTANTS
  Keys <- K3
  Configured <- ConfAB
  Tag <- TagCrA
  RevTag <- RevCrA
  DaySteps <- Days1
  ReadFaultKinds <- RF_none
  Delta = 10
  AgeCap = 91
  MaxRefresh = 2
  MaxRestarts = 0
  MaxWriteFaults = 0
  MaxReadFaults = 0
  AllowSoleRecordLoss = FALSE
  AllowIntraSetCollision = TRUE
  AllowContinueAfterVolatile = TRUE
  RelevantSignersOnly = TRUE
SPECIFICATION Spec
VIEW View
INVARIANTS RevokedNeverAgain
CHECK_DEADLOCK FALSE
