CONSTANTS
  Keys <- K3
  Configured <- ConfA
  Tag <- TagAC
  RevTag <- RevAC
  DaySteps <- DaysAny
  ReadFaultKinds <- RF_all
  Delta = 10
  AgeCap = 91
  MaxRefresh = 100000
  MaxRestarts = 100000
  MaxWriteFaults = 100000
  MaxReadFaults = 100000
  AllowSoleRecordLoss = TRUE
  AllowIntraSetCollision = TRUE
  AllowContinueAfterVolatile = TRUE
  RelevantSignersOnly = FALSE
SPECIFICATION TraceSpec
INVARIANTS TypeOK TrustOnlyByRFC RevokedNeverAgain RevokedNeverAtFetch UnreadableAborts
PROPERTIES UnauthenticatedChangesNothing RevokedOnlyRevokes FailClosed MissingKeepsTrust ReappearRestores
POSTCONDITION TraceAccepted
CHECK_DEADLOCK FALSE
