--------------------------- MODULE MC_FailureCache ---------------------------
(* name tree shared by every config:
     1 = z.      2 = b.z. (the zone)   3 = a.b.z.   4 = c.b.z.   5 = ab.z. (sibling,
     a string suffix of the zone without a label boundary)                        *)
EXTENDS FailureCache
MCParent == (1 :> 0 @@ 2 :> 1 @@ 3 :> 2 @@ 4 :> 2 @@ 5 :> 1)
=============================================================================
