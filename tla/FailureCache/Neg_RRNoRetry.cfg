CONSTANTS
  Procs <- P2
  OpSets <- Ops2
  InitKinds <- AllKinds
  InitStreak = 3
  Retry = FALSE
SPECIFICATION Spec
INVARIANTS ResetWins
CHECK_DEADLOCK FALSE
