--------------------------- MODULE MC_ResetRace ---------------------------
EXTENDS ResetRace

P2 == 1..2
P3 == 1..3
(* one failing probe against one useful answer *)
Ops2 == {[p \in P2 |-> IF p = 1 THEN "rec" ELSE "reset"]}
(* three callers, at least one of each kind *)
Ops3 == {f \in [P3 -> {"rec", "reset"}] : (\E p \in P3 : f[p] = "rec") /\ (\E p \in P3 : f[p] = "reset")}
AllKinds == {"none", "active", "expired", "stale"}
=============================================================================
