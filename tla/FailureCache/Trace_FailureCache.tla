------------------------- MODULE Trace_FailureCache -------------------------
(***************************************************************************)
(* Property monitor for executions recorded from the real code             *)
(* (harness/c13): one NDJSON line per call of the real FailureCache /      *)
(* per request served by the real cache.Cache, carrying the arguments, what *)
(* the code returned and the projection of the retained failure states     *)
(* after the call (overlay shim VerifC13Snapshot).                          *)
(*                                                                         *)
(* The monitor state FOLLOWS the observed projection (so a deviating       *)
(* implementation is tracked, not lost), the property invariants of        *)
(* FailureCache.tla are checked on every observed state / step, and the    *)
(* spec's own operators predict every line; a line the spec does not       *)
(* predict is counted as drift (TLC register 1, printed at the end).       *)
(* Many runs are concatenated with Reset lines.                            *)
(***************************************************************************)
EXTENDS MC_FailureCache, Json, IOUtils

TraceLog == ndJsonDeserialize(IOEnv.TRACE_FILE)

VARIABLE l
tvars == <<vars, l>>

Line == TraceLog[l]
Has(f) == f \in DOMAIN Line

QRow(k) == LET idx == {i \in 1..Len(Line.fq) : SubSeq(Line.fq[i], 1, 5) = k} IN
           IF idx = {} THEN <<>> ELSE Line.fq[CHOOSE i \in idx : TRUE]
ZRow(k) == LET idx == {i \in 1..Len(Line.fz) : SubSeq(Line.fz[i], 1, 2) = k} IN
           IF idx = {} THEN <<>> ELSE Line.fz[CHOOSE i \in idx : TRUE]

(* the back-off of a generation is what was left of it when it was first observed *)
Follow(old, streak, rel, cause) ==
  [streak |-> Min2(streak, SCap), rel |-> rel, cause |-> cause,
   bo |-> IF old = None \/ (old.rel <= 0 /\ rel > 0) THEN rel ELSE old.bo]

ObsQ == [k \in QKeys |-> LET r == QRow(k) IN IF r = <<>> THEN None ELSE Follow(fq[k], r[6], r[7], r[8])]
ObsZ == [k \in ZKeys |-> LET r == ZRow(k) IN IF r = <<>> THEN None ELSE Follow(fz[k], r[3], r[4], r[5])]

(* every retained state must be one of the modelled keys (the driver reports others itself) *)
RowsKnown == /\ \A i \in 1..Len(Line.fq) : SubSeq(Line.fq[i], 1, 5) \in QKeys
             /\ \A i \in 1..Len(Line.fz) : SubSeq(Line.fz[i], 1, 2) \in ZKeys

ObsRes == [hit |-> Line.hit, kind |-> Line.kind, src |-> Line.src, streak |-> Min2(Line.streak, SCap), rel |-> Line.rel]

SameStore(S) == /\ \A k \in QKeys : (S.q[k] = None) = (ObsQ[k] = None)
                /\ \A k \in QKeys : S.q[k] # None => (S.q[k].streak = ObsQ[k].streak /\ S.q[k].rel = ObsQ[k].rel)
                /\ \A k \in ZKeys : (S.z[k] = None) = (ObsZ[k] = None)
                /\ \A k \in ZKeys : S.z[k] # None => (S.z[k].streak = ObsZ[k].streak /\ S.z[k].rel = ObsZ[k].rel)
Here == [q |-> fq, z |-> fz]
SameRes(r) == r.hit = Line.hit /\ (r.hit => (r.kind = Line.kind /\ r.src = Line.src /\ r.streak = Min2(Line.streak, SCap) /\ r.rel = Line.rel))

(* does FailureCache.tla predict this line? *)
Predicted ==
  CASE ~Enabled /\ Line.op \in {"RecordQuestion", "RecordZone", "Lookup", "LookupWire", "RetryKey", "ResetZone"} ->
         SameStore(Here) /\ ~Line.hit
    [] Line.op = "RecordQuestion" ->
         /\ \E S \in RecQSet(fq, fz, Line.k, Line.cause) : SameStore(S)
         /\ SameRes(HitOf("q", Line.k, RecordEntry(fq[Line.k], Line.cause)))
    [] Line.op = "RecordZone" ->
         /\ \E S \in RecZSet(fq, fz, Line.zk, Line.cause) : SameStore(S)
         /\ SameRes(HitOf("z", Line.zk, RecordEntry(fz[Line.zk], Line.cause)))
    [] Line.op \in {"Lookup", "LookupWire"} -> SameStore(Here) /\ SameRes(IF Enabled THEN LookupIn(fq, fz, Line.k) ELSE Miss)
    [] Line.op = "RetryKey" -> SameStore(Here) /\ Line.hit = (Enabled /\ RetryKeyIn(fq, fz, Line.k) # NoKey)
    [] Line.op = "ResetQuestion" -> SameStore([q |-> [fq EXCEPT ![Line.k] = None], z |-> fz])
    [] Line.op = "ResetZone" -> SameStore([q |-> fq, z |-> [fz EXCEPT ![Line.zk] = None]])
    [] Line.op = "ResetMatching" -> SameStore(ResetMatchingIn(fq, fz, Line.k)) /\ Line.n = ResetMatchingCount(fq, fz, Line.k)
    [] Line.op = "Purge" ->
         SameStore([q |-> [x \in QKeys |-> IF x[1] = Line.p[1] /\ x[2] = Line.p[2] /\ x[3] = Line.p[3] THEN None ELSE fq[x]],
                    z |-> [x \in ZKeys |-> IF x = <<Line.p[1], Line.p[3]>> THEN None ELSE fz[x]]])
    [] Line.op = "Tick" -> SameStore([q |-> [k \in QKeys |-> Age(fq[k], Line.d)], z |-> [k \in ZKeys |-> Age(fz[k], Line.d)]])
    [] Line.op = "Request" ->
         LET lk == LookupIn(fq, fz, Line.k) IN
         IF Enabled /\ lk.hit THEN Line.hit /\ ~Line.down /\ SameStore(Here)
         ELSE ~Line.hit /\ Line.down /\ \E S \in ReqEffectSet(fq, fz, Line.k, Line.o, Line.z) : SameStore(S)
    [] Line.op = "Finish" -> \E S \in ReqEffectSet(fq, fz, Line.k, Line.o, Line.z) : SameStore(S)
    [] Line.op \in {"Begin", "Wake"} ->
         /\ SameStore(Here)
         /\ Line.hit = (Enabled /\ LookupIn(fq, fz, Line.k).hit)
         /\ (Line.res = "shed" => RetryKeyIn(fq, fz, Line.k) # NoKey)
    [] OTHER -> FALSE

TraceInit == Init /\ l = 1 /\ TLCSet(1, 0)

Reset ==
  /\ Line.op = "Reset"
  /\ fq' = [k \in QKeys |-> None] /\ fz' = [k \in ZKeys |-> None]
  /\ last' = MkLast("Init", NoA, <<>>, Miss, 0, FALSE, "-")

Observe ==
  /\ Line.op # "Reset"
  /\ RowsKnown
  /\ fq' = ObsQ /\ fz' = ObsZ
  /\ last' = CASE Line.op = "Request" ->
                    MkLast("Request", A(0, Line.o, Line.z), Line.k,
                           [Miss EXCEPT !.hit = Line.hit, !.kind = IF Line.hit THEN "?" ELSE "-"], 0, Line.down, Line.res)
               [] Line.op = "Finish" ->
                    MkLast("Finish", A(Line.r, Line.o, Line.z), Line.k, Miss, 0, TRUE, Line.res)
               [] Line.op \in {"Begin", "Wake"} ->
                    MkLast(Line.op, A(Line.r, "-", -1), Line.k,
                           [Miss EXCEPT !.hit = Line.hit, !.kind = IF Line.hit THEN "?" ELSE "-"], 0, Line.down, Line.res)
               [] Line.op \in {"Lookup", "LookupWire", "RetryKey", "RecordQuestion", "ResetQuestion", "ResetMatching"} ->
                    MkLast(Line.op, NoA, Line.k, ObsRes, Line.n, FALSE, "-")
               [] OTHER -> MkLast(Line.op, NoA, <<>>, ObsRes, Line.n, FALSE, "-")
  /\ IF Predicted THEN TRUE ELSE TLCSet(1, TLCGet(1) + 1)

TraceNext ==
  /\ l <= Len(TraceLog)
  /\ l' = l + 1
  /\ (Reset \/ Observe)
  /\ UNCHANGED reqv

TraceSpec == TraceInit /\ [][TraceNext]_tvars

(* a request answered from the failure cache does not say which state served it *)
TContainment ==
  [][(last'.op \in HitOps /\ last'.hit) =>
       IF last'.kind = "?" THEN LookupIn(fq, fz, last'.k).hit /\ ContainOK(last'.k, LookupIn(fq, fz, last'.k))
       ELSE ContainOK(last'.k, last')]_vars

TraceAccepted ==
  /\ PrintT(<<"C13DRIFT", TLCGet(1)>>)
  /\ TLCGet("stats").diameter - 1 = Len(TraceLog)
=============================================================================
