CONSTANTS
  Procs <- P2
  OpSets <- Ops2
  InitKinds <- AllKinds
  InitStreak = 3
  Retry = FALSE
SPECIFICATION Spec
INVARIANTS Linearizable
CHECK_DEADLOCK FALSE
