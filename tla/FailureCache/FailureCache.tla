---------------------------- MODULE FailureCache ----------------------------
(***************************************************************************)
(* RFC 9520 failure cache of sdns: middleware/cache/failure_cache.go plus   *)
(* the request-level routing of cache.go / store.go / resolver.go.          *)
(*                                                                         *)
(* One action per API call of the real FailureCache (each call is one      *)
(* atomic step: `record` is a CAS loop, every attempt is atomic), and the  *)
(* request-level wrapper: Request (atomic, sequential) and its split form  *)
(* Begin / Finish / Wake for concurrent followers of a probe generation.   *)
(*                                                                         *)
(* Deliberate deviations from the code (all named):                        *)
(*  - time is relative: an entry keeps rel = retryAfter - now in seconds,  *)
(*    floored at -Max.  The code only ever asks `now < retryAfter` and     *)
(*    `now - retryAfter >= max`, so ages beyond Max are indistinguishable; *)
(*    the state space is finite without a horizon.                         *)
(*  - streak saturates at SCap (the first streak whose back-off is Max);   *)
(*    the code's uint32 keeps counting, back-off is identical.             *)
(*  - 64-bit hash collisions between different keys are not modelled.      *)
(*  - capacity eviction happens inside the record step (internal/cache     *)
(*    SetWithCap evicts 1..2 other entries when the table is over Cap);    *)
(*    the victims are a nondeterministic choice (C16 covers the table).    *)
(*  - the clock moves only while no request is in flight.                  *)
(*  - waitgroup details (15 s generation timeout, previous.next chaining)  *)
(*    are left to Dedup.tla; here a generation is "the registered leader   *)
(*    that is downstream under a key".                                     *)
(***************************************************************************)
EXTENDS Integers, FiniteSets, Sequences, TLC

CONSTANTS
  Parent,    \* [Names -> Names \cup {0}]; 0 is the root "."
  QNames,    \* names that appear in questions
  ZNames,    \* names that may be recorded as failed zones
  Types, Classes,
  CDs,       \* subset of {0, 1}: the CD bit values in play
  Scopes,    \* ECS audiences; 0 is the shared audience (no / invalid / /0 scope)
  Min, Max,  \* cfg.min, cfg.max (seconds)
  Enabled,   \* cfg.enabled (rfc9520 kill switch)
  Cap,       \* capacity of the bounded table
  MaxLive,   \* exploration bound: new keys are only recorded while fewer are retained
  ApiOps,    \* BOOLEAN: raw API actions
  SeqReq,    \* BOOLEAN: atomic sequential Request(q, outcome)
  Reqs,      \* ids of concurrent requests ({} switches the split form off)
  LocalKinds \* the request-local causes a downstream handler reports in this config

VARIABLES
  fq,    \* [QKeys -> Entry \cup {None}]   question failures
  fz,    \* [ZKeys -> Entry \cup {None}]   zone failures
  pc,    \* [Reqs -> {"idle","down","wait","woke"}]
  rq,    \* [Reqs -> QKeys]                the question a request carries
  gk,    \* [Reqs -> dedup / probe-generation key]
  rg,    \* [Reqs -> 0..1]                 failureProbeRegroups
  ld,    \* [Reqs -> BOOLEAN]              registered leader of gk
  last   \* observation of the last step (what the code returns); hidden by View

store == <<fq, fz>>
reqv  == <<pc, rq, gk, rg, ld>>
vars  == <<fq, fz, pc, rq, gk, rg, ld, last>>
View  == <<fq, fz, pc, rq, gk, rg, ld>>

Names == DOMAIN Parent
QKeys == QNames \X Types \X Classes \X CDs \X Scopes   \* <<name, type, class, cd, scope>>
ZKeys == ZNames \X Classes                                \* <<zone, class>>

SharedCauses == {"response", "authority"}
LocalCauses  == {"budget", "attemptLimit", "deadline", "cancel", "shed", "bestEffort", "probeLimit"}
DownLocal    == LocalKinds                                 \* what a downstream handler can report
ASSUME LocalKinds \subseteq LocalCauses \ {"probeLimit"}
(* "aliasfail": the downstream answered the question NOERROR with a CNAME and the cache's
   own alias completion (Cache.additionalAnswer, run by ResponseWriter.WriteMsg through the
   installed Queryer) turned the reply into SERVFAIL (the alias points back at its owner,
   directly or through its target).  The client-visible failure is produced by the SECOND
   failure branch of WriteMsg; for the shared state it is a plain question failure of the
   request's own five-dimensional key, exactly like "servfail". *)
SharedFail   == {"servfail", "authfail", "aliasfail"}
Outcomes     == {"useful"} \cup SharedFail \cup DownLocal

None == [streak |-> 0, rel |-> 0, bo |-> 0, cause |-> "-"]
Miss == [hit |-> FALSE, kind |-> "-", src |-> <<>>, streak |-> 0, rel |-> 0]
NoKey == <<>>

Min2(a, b) == IF a < b THEN a ELSE b
Max2(a, b) == IF a > b THEN a ELSE b

(* FailureCache.backoff(streak), transcribed *)
RECURSIVE BackoffFrom(_, _)
BackoffFrom(ttl, g) ==
  IF g = 0 \/ ttl >= Max THEN Min2(ttl, Max)
  ELSE IF 2 * ttl > Max THEN Max
  ELSE BackoffFrom(2 * ttl, g - 1)
Backoff(s) == BackoffFrom(Min, s - 1)
SCap == CHOOSE s \in 1..12 : Backoff(s) = Max /\ \A t \in 1..(s - 1) : Backoff(t) < Max

(* walkFailureZones: the name itself, then every ancestor, root last *)
RECURSIVE Walk(_)
Walk(n) == IF n = 0 THEN <<0>> ELSE <<n>> \o Walk(Parent[n])
AtOrAbove(z, n) == \E i \in 1..Len(Walk(n)) : Walk(n)[i] = z

Active(e) == e # None /\ e.rel > 0
ZoneAt(Z, z, c) == IF z \in ZNames THEN Z[<<z, c>>] ELSE None
HitOf(kind, src, e) == [hit |-> TRUE, kind |-> kind, src |-> src, streak |-> e.streak, rel |-> e.rel]

(* FailureCache.Lookup: exact active, else closest active ancestor zone *)
LookupIn(Q, Z, k) ==
  IF Active(Q[k]) THEN HitOf("q", k, Q[k])
  ELSE LET w   == Walk(k[1])
           idx == {i \in 1..Len(w) : Active(ZoneAt(Z, w[i], k[3]))}
       IN IF idx = {} THEN Miss
          ELSE LET i == CHOOSE i \in idx : \A j \in idx : i <= j
               IN HitOf("z", <<w[i], k[3]>>, Z[<<w[i], k[3]>>])

(* FailureCache.RetryKey: closest expired zone beats exact expired history;
   any active exact / ancestor state means "consume through Lookup" *)
RetryKeyIn(Q, Z, k) ==
  LET w   == Walk(k[1])
      ex  == {i \in 1..Len(w) : ZoneAt(Z, w[i], k[3]) # None}
      act == {i \in ex : Active(ZoneAt(Z, w[i], k[3]))}
  IN IF Active(Q[k]) \/ act # {} THEN NoKey
     ELSE IF ex # {} THEN <<"z", <<w[CHOOSE i \in ex : \A j \in ex : i <= j], k[3]>>>>
     ELSE IF Q[k] # None THEN <<"q", k>>
     ELSE NoKey

(* FailureCache.record on one slot *)
RecordEntry(cur, cause) ==
  IF cur = None THEN [streak |-> 1, rel |-> Min, bo |-> Min, cause |-> cause]
  ELSE IF cur.rel > 0 THEN cur                                  \* idempotent while active
  ELSE LET s == IF cur.rel <= -Max THEN 1                       \* idle >= max: new episode
                ELSE Min2(cur.streak + 1, SCap)
       IN [streak |-> s, rel |-> Backoff(s), bo |-> Backoff(s), cause |-> cause]

Occupied(Q, Z) == {<<"q", k>> : k \in {x \in QKeys : Q[x] # None}}
                  \cup {<<"z", k>> : k \in {x \in ZKeys : Z[x] # None}}

VictimSets(Q, Z, self, grows) ==
  IF ~grows \/ Cardinality(Occupied(Q, Z)) + 1 <= Cap THEN {{}}
  ELSE {V \in SUBSET (Occupied(Q, Z) \ {self}) : Cardinality(V) \in 1..2}

RecQSet(Q, Z, k, cause) ==
  {[q |-> [x \in QKeys |-> IF x = k THEN RecordEntry(Q[k], cause)
                           ELSE IF <<"q", x>> \in V THEN None ELSE Q[x]],
    z |-> [x \in ZKeys |-> IF <<"z", x>> \in V THEN None ELSE Z[x]]]
   : V \in VictimSets(Q, Z, <<"q", k>>, Q[k] = None)}

RecZSet(Q, Z, zk, cause) ==
  {[q |-> [x \in QKeys |-> IF <<"q", x>> \in V THEN None ELSE Q[x]],
    z |-> [x \in ZKeys |-> IF x = zk THEN RecordEntry(Z[zk], cause)
                           ELSE IF <<"z", x>> \in V THEN None ELSE Z[x]]]
   : V \in VictimSets(Q, Z, <<"z", zk>>, Z[zk] = None)}

Covers(zk, k) == zk[2] = k[3] /\ AtOrAbove(zk[1], k[1])

ResetMatchingIn(Q, Z, k) ==
  [q |-> [Q EXCEPT ![k] = None],
   z |-> [x \in ZKeys |-> IF Covers(x, k) THEN None ELSE Z[x]]]
(* a useful answer that reaches the cache's response writer: ResetMatching for the
   client's own audience; the answers of this model carry no ECS SCOPE, i.e. they are global
   and stored under the shared key, whose write also resets the shared audience's question
   failure (Store.setFromResponseWithKey) *)
Shared(k) == <<k[1], k[2], k[3], k[4], 0>>
UsefulIn(Q, Z, k) ==
  LET S == ResetMatchingIn(Q, Z, k) IN
  [q |-> [x \in QKeys |-> IF x = Shared(k) THEN None ELSE S.q[x]], z |-> S.z]
ResetMatchingCount(Q, Z, k) ==
  (IF Q[k] # None THEN 1 ELSE 0) + Cardinality({x \in ZKeys : Covers(x, k) /\ Z[x] # None})

Live == Cardinality(Occupied(fq, fz))
Quiet == \A r \in Reqs : pc[r] = "idle"
DefaultQ == CHOOSE k \in QKeys : TRUE
(* an idle request carries no residue (keeps the state space canonical) *)
Idle(f, r, v) == [f EXCEPT ![r] = v]

(* the action's request id / outcome / zone argument, uniformly typed (TLC compares
   whole states in simulation mode) *)
A(r, o, z) == [r |-> r, o |-> o, z |-> z]
NoA == A(0, "-", -1)
MkLast(op, a, k, r, n, down, res) ==
  [op |-> op, a |-> a, k |-> k, hit |-> r.hit, kind |-> r.kind, src |-> r.src,
   streak |-> r.streak, rel |-> r.rel, n |-> n, down |-> down, res |-> res]

Init ==
  /\ fq = [k \in QKeys |-> None]
  /\ fz = [k \in ZKeys |-> None]
  /\ pc = [r \in Reqs |-> "idle"]
  /\ rq = [r \in Reqs |-> DefaultQ]
  /\ gk = [r \in Reqs |-> <<"-">>]
  /\ rg = [r \in Reqs |-> 0]
  /\ ld = [r \in Reqs |-> FALSE]
  /\ last = MkLast("Init", NoA, <<>>, Miss, 0, FALSE, "-")

(* ------------------------------ API actions ---------------------------- *)
(* With Enabled = FALSE the actions are the Store-level calls, which the
   kill switch turns into no-ops (store.go: failureCacheDisabled). *)
RecordQuestion(k, cause) ==
  /\ ApiOps /\ (fq[k] # None \/ Live < MaxLive)
  /\ IF Enabled
       THEN /\ \E S \in RecQSet(fq, fz, k, cause) : fq' = S.q /\ fz' = S.z
            /\ last' = MkLast("RecordQuestion", NoA, k, HitOf("q", k, RecordEntry(fq[k], cause)), 0, FALSE, "-")
       ELSE /\ UNCHANGED store
            /\ last' = MkLast("RecordQuestion", NoA, k, Miss, 0, FALSE, "-")
  /\ UNCHANGED reqv

RecordZone(zk, cause) ==
  /\ ApiOps /\ (fz[zk] # None \/ Live < MaxLive)
  /\ IF Enabled
       THEN /\ \E S \in RecZSet(fq, fz, zk, cause) : fq' = S.q /\ fz' = S.z
            /\ last' = MkLast("RecordZone", NoA, <<>>, HitOf("z", zk, RecordEntry(fz[zk], cause)), 0, FALSE, "-")
       ELSE /\ UNCHANGED store
            /\ last' = MkLast("RecordZone", NoA, <<>>, Miss, 0, FALSE, "-")
  /\ UNCHANGED reqv

Lookup(k) ==
  /\ ApiOps
  /\ last' = MkLast("Lookup", NoA, k, IF Enabled THEN LookupIn(fq, fz, k) ELSE Miss, 0, FALSE, "-")
  /\ UNCHANGED <<store, reqv>>

(* LookupWire: wire-born question, no ECS scope: verdict of Lookup on the shared audience *)
LookupWire(n, t, c, cd) ==
  /\ ApiOps /\ 0 \in Scopes
  /\ LET k == <<n, t, c, cd, 0>> IN
     last' = MkLast("LookupWire", NoA, k, IF Enabled THEN LookupIn(fq, fz, k) ELSE Miss, 0, FALSE, "-")
  /\ UNCHANGED <<store, reqv>>

RetryKey(k) ==
  /\ ApiOps
  /\ LET rk == IF Enabled THEN RetryKeyIn(fq, fz, k) ELSE NoKey IN
     last' = MkLast("RetryKey", NoA, k, [Miss EXCEPT !.hit = (rk # NoKey),
                                                       !.kind = IF rk = NoKey THEN "-" ELSE rk[1],
                                                       !.src = IF rk = NoKey THEN <<>> ELSE rk[2]], 0, FALSE, "-")
  /\ UNCHANGED <<store, reqv>>

ResetQuestion(k) ==
  /\ ApiOps /\ Enabled
  /\ fq' = [fq EXCEPT ![k] = None] /\ UNCHANGED fz
  /\ last' = MkLast("ResetQuestion", NoA, k, Miss, IF fq[k] # None THEN 1 ELSE 0, FALSE, "-")
  /\ UNCHANGED reqv

ResetZone(zk) ==
  /\ ApiOps /\ Enabled
  /\ fz' = [fz EXCEPT ![zk] = None] /\ UNCHANGED fq
  /\ last' = MkLast("ResetZone", NoA, <<>>, Miss, IF fz[zk] # None THEN 1 ELSE 0, FALSE, "-")
  /\ UNCHANGED reqv

ResetMatching(k) ==
  /\ ApiOps /\ Enabled
  /\ LET S == ResetMatchingIn(fq, fz, k) IN fq' = S.q /\ fz' = S.z
  /\ last' = MkLast("ResetMatching", NoA, k, Miss, ResetMatchingCount(fq, fz, k), FALSE, "-")
  /\ UNCHANGED reqv

(* PurgeQuestion: every CD / ECS variant of the question and the zone state owned by the name *)
Purge(n, t, c) ==
  /\ ApiOps /\ Enabled
  /\ fq' = [x \in QKeys |-> IF x[1] = n /\ x[2] = t /\ x[3] = c THEN None ELSE fq[x]]
  /\ fz' = [x \in ZKeys |-> IF x = <<n, c>> THEN None ELSE fz[x]]
  /\ last' = MkLast("Purge", NoA, <<>>, Miss,
                    Cardinality({x \in QKeys : x[1] = n /\ x[2] = t /\ x[3] = c /\ fq[x] # None})
                    + Cardinality({x \in ZKeys : x = <<n, c>> /\ fz[x] # None}), FALSE, "-")
  /\ UNCHANGED reqv

Age(e, d) == IF e = None THEN None ELSE [e EXCEPT !.rel = Max2(e.rel - d, -Max)]
Tick(d) ==
  /\ Quiet /\ Live > 0
  /\ fq' = [k \in QKeys |-> Age(fq[k], d)]
  /\ fz' = [k \in ZKeys |-> Age(fz[k], d)]
  /\ last' = MkLast("Tick", NoA, <<>>, Miss, d, FALSE, "-")
  /\ UNCHANGED reqv

(* --------------------------- request level ----------------------------- *)
(* admission filter: cacheableResolutionFailure (cache.go) for the question,
   Resolver.recordResolutionZoneFailure for the zone *)
AdmitQ(o) == o \notin LocalCauses
AdmitZ(o) == o \notin LocalCauses
QCause(o) == IF o \in LocalCauses THEN o ELSE "response"
ZCause(o) == IF o \in LocalCauses THEN o ELSE "authority"

(* z = -1: no all-servers-failed signal; otherwise the zone whose every server failed.
   "shed" is a SERVFAIL another cache layer shed with the probe-limit mark: it never comes
   with a zone signal (the resolver never sees it as a lookup error). *)
ValidOutcome(k, o, z) ==
  /\ o \in Outcomes
  /\ \/ z = -1 /\ o # "authfail"
     \/ z \in ZNames /\ AtOrAbove(z, k[1]) /\ o \notin {"useful", "servfail", "aliasfail", "shed"}
  /\ (o \in SharedFail => (fq[k] # None \/ Live < MaxLive))

(* what the downstream outcome does to the shared state *)
ReqEffectSet(Q, Z, k, o, z) ==
  IF ~Enabled THEN {[q |-> Q, z |-> Z]}
  ELSE IF o = "useful" THEN {UsefulIn(Q, Z, k)}
  ELSE LET afterZone == IF z # -1 /\ AdmitZ(o) THEN RecZSet(Q, Z, <<z, k[3]>>, ZCause(o))
                        ELSE {[q |-> Q, z |-> Z]}
       IN UNION {IF AdmitQ(o) THEN RecQSet(S.q, S.z, k, QCause(o)) ELSE {S} : S \in afterZone}

ResOf(o) == IF o \in LocalCauses THEN "local" ELSE o

Request(k, o, z) ==
  /\ SeqReq /\ Quiet /\ ValidOutcome(k, o, z)
  /\ LET lk == LookupIn(fq, fz, k) IN
     IF Enabled /\ lk.hit
       THEN /\ UNCHANGED store
            /\ last' = MkLast("Request", A(0, o, z), k, lk, 0, FALSE, "hit")
       ELSE /\ \E S \in ReqEffectSet(fq, fz, k, o, z) : fq' = S.q /\ fz' = S.z
            /\ last' = MkLast("Request", A(0, o, z), k, Miss, 0, TRUE, ResOf(o))
  /\ UNCHANGED reqv

Leading(key, self) == \E r \in Reqs \ {self} : pc[r] = "down" /\ ld[r] /\ gk[r] = key

Begin(r, k) ==
  /\ pc[r] = "idle"
  /\ LET lk == LookupIn(fq, fz, k) IN
     IF Enabled /\ lk.hit
       THEN /\ last' = MkLast("Begin", A(r, "-", -1), k, lk, 0, FALSE, "hit")
            /\ UNCHANGED reqv
       ELSE LET rk  == IF Enabled THEN RetryKeyIn(fq, fz, k) ELSE NoKey
                key == IF rk # NoKey THEN <<"p", rk>> ELSE <<"d", k>>
                fol == Leading(key, r)
            IN /\ pc' = [pc EXCEPT ![r] = IF fol THEN "wait" ELSE "down"]
               /\ rq' = [rq EXCEPT ![r] = k]
               /\ gk' = [gk EXCEPT ![r] = key]
               /\ rg' = [rg EXCEPT ![r] = 0]
               /\ ld' = [ld EXCEPT ![r] = ~fol]
               /\ last' = MkLast("Begin", A(r, "-", -1), k, Miss, 0, ~fol, IF fol THEN "wait" ELSE "down")
  /\ UNCHANGED store

Finish(r, o, z) ==
  /\ pc[r] = "down" /\ ValidOutcome(rq[r], o, z)
  /\ \E S \in ReqEffectSet(fq, fz, rq[r], o, z) : fq' = S.q /\ fz' = S.z
  /\ LET released == {x \in Reqs \ {r} : ld[r] /\ pc[x] = "wait" /\ gk[x] = gk[r]}
         \* followers asking the leader's own question find its answer in the ordinary
         \* answer cache when they re-check (plain dedup): they are done
         answered == {x \in released : o = "useful" /\ Shared(rq[x]) = Shared(rq[r])}
     IN /\ pc' = [x \in Reqs |-> IF x = r \/ x \in answered THEN "idle"
                                 ELSE IF x \in released THEN "woke" ELSE pc[x]]
        /\ rq' = [x \in Reqs |-> IF x = r \/ x \in answered THEN DefaultQ ELSE rq[x]]
        /\ gk' = [x \in Reqs |-> IF x = r \/ x \in answered THEN <<"-">> ELSE gk[x]]
        /\ rg' = [x \in Reqs |-> IF x = r \/ x \in answered THEN 0 ELSE rg[x]]
  /\ ld' = [ld EXCEPT ![r] = FALSE]
  /\ last' = MkLast("Finish", A(r, o, z), rq[r], Miss, 0, TRUE, ResOf(o))

(* a follower released by its leader: re-check, then regroup once, then shed *)
Wake(r) ==
  /\ pc[r] = "woke"
  /\ LET k == rq[r] lk == LookupIn(fq, fz, k) IN
     IF Enabled /\ lk.hit
       THEN /\ pc' = [pc EXCEPT ![r] = "idle"]
            /\ last' = MkLast("Wake", A(r, "-", -1), k, lk, 0, FALSE, "hit")
            /\ rq' = Idle(rq, r, DefaultQ) /\ gk' = Idle(gk, r, <<"-">>) /\ rg' = Idle(rg, r, 0)
            /\ UNCHANGED ld
       ELSE LET rk == IF Enabled THEN RetryKeyIn(fq, fz, k) ELSE NoKey IN
            IF rk = NoKey
              THEN /\ pc' = [pc EXCEPT ![r] = "down"]     \* outcome known, nothing left to probe: own resolution
                   /\ ld' = [ld EXCEPT ![r] = FALSE]
                   /\ gk' = [gk EXCEPT ![r] = <<"d", k>>]
                   /\ last' = MkLast("Wake", A(r, "-", -1), k, Miss, 0, TRUE, "down")
                   /\ UNCHANGED <<rq, rg>>
              ELSE IF rg[r] >= 1
                THEN /\ pc' = [pc EXCEPT ![r] = "idle"]   \* writeFailureProbeLimit
                     /\ last' = MkLast("Wake", A(r, "-", -1), k, Miss, 0, FALSE, "shed")
                     /\ rq' = Idle(rq, r, DefaultQ) /\ gk' = Idle(gk, r, <<"-">>) /\ rg' = Idle(rg, r, 0)
                     /\ UNCHANGED ld
                ELSE LET key == <<"p", rk>> fol == Leading(key, r) IN
                     /\ pc' = [pc EXCEPT ![r] = IF fol THEN "wait" ELSE "down"]
                     /\ gk' = [gk EXCEPT ![r] = key]
                     /\ rg' = [rg EXCEPT ![r] = 1]
                     /\ ld' = [ld EXCEPT ![r] = ~fol]
                     /\ last' = MkLast("Wake", A(r, "-", -1), k, Miss, 0, ~fol, IF fol THEN "wait" ELSE "down")
                     /\ UNCHANGED rq
  /\ UNCHANGED store

Next ==
  \/ \E k \in QKeys : RecordQuestion(k, "response") \/ Lookup(k) \/ RetryKey(k)
                        \/ ResetQuestion(k) \/ ResetMatching(k)
  \/ \E zk \in ZKeys : RecordZone(zk, "authority") \/ ResetZone(zk)
  \/ \E n \in QNames, t \in Types, c \in Classes, cd \in CDs : LookupWire(n, t, c, cd)
  \/ \E n \in QNames \cup ZNames, t \in Types, c \in Classes : Purge(n, t, c)
  \/ \E d \in 1..Max : Tick(d)
  \/ \E k \in QKeys, o \in Outcomes, z \in ZNames \cup {-1} : Request(k, o, z)
  \/ \E r \in Reqs, k \in QKeys : Begin(r, k)
  \/ \E r \in Reqs, o \in Outcomes, z \in ZNames \cup {-1} : Finish(r, o, z)
  \/ \E r \in Reqs : Wake(r)

Spec == Init /\ [][Next]_vars

(* ------------------------------ properties ----------------------------- *)
EntryT == {None} \cup [streak : 1..SCap, rel : (-Max)..Max, bo : Min..Max,
                       cause : SharedCauses \cup LocalCauses]
TypeOK ==
  /\ fq \in [QKeys -> EntryT] /\ fz \in [ZKeys -> EntryT]
  /\ pc \in [Reqs -> {"idle", "down", "wait", "woke"}]
  /\ rg \in [Reqs -> 0..1] /\ ld \in [Reqs -> BOOLEAN]
  /\ Live <= Cap

AllEntries == {fq[k] : k \in QKeys} \cup {fz[k] : k \in ZKeys}

(* min <= backoff <= max <= 300 s; an active entry never outlives its backoff; first is min *)
Envelope ==
  /\ 1 <= Min /\ Min <= Max /\ Max <= 300
  /\ \A e \in AllEntries \ {None} :
       /\ Min <= e.bo /\ e.bo <= Max /\ e.rel <= e.bo
       /\ (e.streak = 1 => e.bo = Min)

NewGen(old, new) == new # None /\ new.rel > 0 /\ (old = None \/ old.rel <= 0)
StepOK(old, new) ==
  /\ NewGen(old, new) =>
       /\ new.rel = new.bo
       /\ (old = None => new.bo = Min)                      \* first is min
       /\ (old # None => new.bo <= 2 * old.bo)              \* at most doubles
       /\ (old # None /\ old.rel <= -Max => new.bo = Min)   \* idle >= max: new episode
  /\ (Active(old) /\ new # None) => (new.rel <= old.rel /\ new.bo = old.bo)   \* never extended while active
EnvelopeStep ==
  [][/\ \A k \in QKeys : StepOK(fq[k], fq'[k])
     /\ \A k \in ZKeys : StepOK(fz[k], fz'[k])]_vars

(* the part of the step rule the property statement itself demands (the trace monitor
   uses this one: the idle reset and "never touched while active" are drift-level) *)
StepOKProp(old, new) ==
  NewGen(old, new) =>
    /\ Min <= new.bo /\ new.bo <= Max
    /\ (old = None => new.bo = Min)
    /\ (old # None => new.bo <= 2 * old.bo)
EnvelopeStepProp ==
  [][/\ \A k \in QKeys : StepOKProp(fq[k], fq'[k])
     /\ \A k \in ZKeys : StepOKProp(fz[k], fz'[k])]_vars

(* a request creates failure state only for what failed: its own question, and the zone
   whose every server failed *)
OnlyWhatFailed ==
  [][(last'.op \in {"Request", "Finish"}) =>
       LET k == last'.k  o == last'.a.o  z == last'.a.z IN
       /\ \A x \in QKeys : NewGen(fq[x], fq'[x]) => (x = k /\ o \in SharedFail)
       /\ \A x \in ZKeys : NewGen(fz[x], fz'[x]) => (o = "authfail" /\ x = <<z, k[3]>>)]_vars

(* a hit for q comes from an entry equal in all five key dimensions, or from a zone
   at-or-above q.name of the same class whose every server failed *)
ContainOK(k, L) ==
  \/ L.kind = "q" /\ L.src = k /\ Active(fq[k]) /\ fq[k].cause \in SharedCauses
  \/ L.kind = "z" /\ L.src \in ZKeys /\ Covers(L.src, k) /\ Active(fz[L.src])
       /\ fz[L.src].cause = "authority"
HitOps == {"Lookup", "LookupWire", "Request", "Begin", "Wake"}
Containment == [][(last'.op \in HitOps /\ last'.hit) => ContainOK(last'.k, last')]_vars

LocalNeverShared == \A e \in AllEntries : e.cause \notin LocalCauses
(* stronger, on the step: a request-local outcome leaves the shared state untouched *)
LocalNoTrace ==
  [][(last'.op \in {"Request", "Finish"} /\ last'.res = "local") => UNCHANGED store]_vars

(* at most one request of a probe generation is downstream while its outcome is unknown *)
SingleProbe ==
  \A r1, r2 \in Reqs :
    (r1 # r2 /\ pc[r1] = "down" /\ pc[r2] = "down" /\ gk[r1][1] = "p") => gk[r1] # gk[r2]
(* ... and the others wait or are shed, they never go downstream as probes *)
ProbeFollowersWait ==
  [][(last'.op \in {"Begin", "Wake"} /\ last'.down) =>
       LET r == last'.a.r IN gk'[r][1] = "p" => ~Leading(gk'[r], r)]_vars

SuccessResets ==
  [][((last'.op \in {"Request", "Finish"} /\ last'.res = "useful" /\ Enabled)
        \/ last'.op = "ResetMatching") =>
       LET k == last'.k IN
       /\ fq'[k] = None
       /\ \A zk \in ZKeys : Covers(zk, k) => fz'[zk] = None]_vars

KillSwitch == ~Enabled => (\A e \in AllEntries : e = None)
KillSwitchStep == [][~Enabled => (~last'.hit /\ last'.res # "hit")]_vars

ReqOps == {"Request", "Begin", "Wake"}
NoUpstreamOnHit ==
  [][(last'.op \in ReqOps) =>
       /\ (last'.hit => (~last'.down /\ UNCHANGED store))
       /\ ((Enabled /\ LookupIn(fq, fz, last'.k).hit) => last'.hit)]_vars
=============================================================================
