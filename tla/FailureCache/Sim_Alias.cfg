CONSTANTS
  Parent <- MCParent
  QNames = {3, 5}
  ZNames = {2}
  Types = {1, 2}
  Classes = {1}
  CDs = {0, 1}
  Scopes = {0, 1, 2}
  Min = 1
  Max = 4
  Enabled = TRUE
  Cap = 99
  MaxLive = 99
  ApiOps = FALSE
  SeqReq = TRUE
  Reqs = {}
  LocalKinds = {"budget"}
INIT Init
NEXT Next
CHECK_DEADLOCK FALSE
