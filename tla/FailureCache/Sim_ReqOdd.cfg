CONSTANTS
  Parent <- MCParent
  QNames = {3, 4, 5}
  ZNames = {1, 2}
  Types = {1}
  Classes = {1}
  CDs = {0, 1}
  Scopes = {0, 1}
  Min = 2
  Max = 5
  Enabled = TRUE
  Cap = 99
  MaxLive = 99
  ApiOps = FALSE
  SeqReq = TRUE
  Reqs = {}
  LocalKinds = {"budget", "attemptLimit", "deadline", "cancel", "shed", "bestEffort"}
INIT Init
NEXT Next
CHECK_DEADLOCK FALSE
