CONSTANTS
  Parent <- MCParent
  QNames = {3}
  ZNames = {1}
  Types = {1, 2}
  Classes = {1}
  CDs = {0}
  Scopes = {0, 1}
  Min = 1
  Max = 2
  Enabled = TRUE
  Cap = 99
  MaxLive = 2
  ApiOps = TRUE
  SeqReq = FALSE
  Reqs = {}
  LocalKinds = {}
INIT Init
NEXT Next
VIEW View
INVARIANTS TypeOK Envelope LocalNeverShared SingleProbe KillSwitch
PROPERTIES EnvelopeStep EnvelopeStepProp Containment LocalNoTrace OnlyWhatFailed ProbeFollowersWait SuccessResets KillSwitchStep NoUpstreamOnHit
CHECK_DEADLOCK FALSE
