CONSTANTS
  Parent <- MCParent
  QNames = {3, 4, 5}
  ZNames = {1, 2}
  Types = {1}
  Classes = {1}
  CDs = {0, 1}
  Scopes = {0, 1}
  Min = 3
  Max = 7
  Enabled = TRUE
  Cap = 99
  MaxLive = 99
  ApiOps = TRUE
  SeqReq = FALSE
  Reqs = {}
  LocalKinds = {}
INIT Init
NEXT Next
CHECK_DEADLOCK FALSE
