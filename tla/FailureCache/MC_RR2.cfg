CONSTANTS
  Procs <- P2
  OpSets <- Ops2
  InitKinds <- AllKinds
  InitStreak = 3
  Retry = TRUE
SPECIFICATION Spec
INVARIANTS TypeOK Linearizable ResetWins AdvanceOnce Terminates
CHECK_DEADLOCK FALSE
