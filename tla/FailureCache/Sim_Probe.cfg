CONSTANTS
  Parent <- MCParent
  QNames = {3, 4, 5}
  ZNames = {1, 2}
  Types = {1}
  Classes = {1}
  CDs = {0}
  Scopes = {0}
  Min = 1
  Max = 2
  Enabled = TRUE
  Cap = 99
  MaxLive = 99
  ApiOps = FALSE
  SeqReq = FALSE
  Reqs = {1, 2, 3, 4}
  LocalKinds = {"budget", "cancel", "deadline"}
INIT Init
NEXT Next
CHECK_DEADLOCK FALSE
