CONSTANTS
  Procs <- P3
  OpSets <- Ops3
  InitKinds <- AllKinds
  InitStreak = 3
  Retry = TRUE
SPECIFICATION Spec
INVARIANTS TypeOK Linearizable ResetWins AdvanceOnce Terminates
CHECK_DEADLOCK FALSE
