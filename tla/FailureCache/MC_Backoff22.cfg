CONSTANTS
  Parent <- MCParent
  QNames = {3}
  ZNames = {2}
  Types = {1}
  Classes = {1}
  CDs = {0, 1}
  Scopes = {0}
  Min = 2
  Max = 2
  Enabled = TRUE
  Cap = 99
  MaxLive = 99
  ApiOps = TRUE
  SeqReq = TRUE
  Reqs = {}
  LocalKinds = {"budget", "attemptLimit", "deadline", "cancel", "shed", "bestEffort"}
INIT Init
NEXT Next
VIEW View
INVARIANTS TypeOK Envelope LocalNeverShared SingleProbe KillSwitch
PROPERTIES EnvelopeStep EnvelopeStepProp Containment LocalNoTrace OnlyWhatFailed ProbeFollowersWait SuccessResets KillSwitchStep NoUpstreamOnHit
CHECK_DEADLOCK FALSE
