----------------------------- MODULE ResetRace -----------------------------
(***************************************************************************)
(* C13, "a useful answer resets the backoff" under concurrency.            *)
(*                                                                         *)
(* FailureCache.tla takes RecordZone / ResetZone as atomic steps.  In the   *)
(* code (middleware/cache/failure_cache.go) neither is: both work on one    *)
(* slot of a concurrent map through load / compare-and-swap / compare-and-  *)
(* delete, and two clients of one flaky zone make them overlap: one         *)
(* client's probe fails (Store.RecordZoneFailure -> FailureCache.record)     *)
(* while another client's probe gets a useful answer                        *)
(* (Store.ClearZoneFailure -> FailureCache.ResetZone).                       *)
(*                                                                         *)
(* Every atomic of the two calls on ONE key is one action (p = caller):     *)
(*                                                                         *)
(*   record:    RecLoad   current := entries.Get(hash)                      *)
(*                        absent          -> RecAdd                          *)
(*                        back-off running -> return current (idempotent)    *)
(*                        expired          -> RecCAS                         *)
(*              RecAdd    entries.Add(hash, streak 1)           (a store)    *)
(*              RecCAS    entries.CompareAndSwap(current, next): next =      *)
(*                        streak+1 (or 1 when the entry is stale beyond the  *)
(*                        maximum); lost -> RecLoad again                    *)
(*   ResetZone: RstLoad   entry := entries.Get(hash); absent -> false        *)
(*              RstCAD    entries.CompareAndDelete(entry); lost -> RstLoad   *)
(*                        again (Retry; the negative config gives up: FALSE) *)
(*                                                                         *)
(* The clock stands still while the calls overlap (the binding's virtual    *)
(* clock moves only between rounds).  Entries are objects: a new one gets a *)
(* fresh identity, compare-and-X compares identities (pointers).            *)
(*                                                                         *)
(* Claim: every complete round is LINEARIZABLE -- its outcome (what each     *)
(* call returned and what the slot holds afterwards) is the outcome of the   *)
(* atomic RecordZone / ResetZone of FailureCache.tla in SOME order -- and in *)
(* particular ResetWins: once a reset took part, no streak above 1 survives  *)
(* (either the failure was counted first and the useful answer then deleted  *)
(* the history, or the useful answer came first and the failure opened a new *)
(* episode at the minimum).                                                 *)
(***************************************************************************)
EXTENDS Integers, Sequences, FiniteSets, TLC

CONSTANTS
  Procs,      \* callers, 1..K
  OpSets,     \* set of [Procs -> {"rec", "reset"}]: who does what
  InitKinds,  \* what the slot holds before the round: subset of {"none", "active", "expired", "stale"}
  InitStreak, \* the streak on record before the round
  Retry       \* TRUE: ResetZone retries a lost compare-and-delete (the code)

None == [id |-> 0, streak |-> 0, kind |-> "none"]
Entry(i, s, k) == [id |-> i, streak |-> s, kind |-> k]

VARIABLES
  op,     \* [Procs -> {"rec", "reset"}]
  init0,  \* the slot before the round (ghost)
  slot,   \* the map slot
  nid,    \* next object identity
  pc,     \* [Procs -> {"load", "add", "cas", "cad", "done"}]
  seen,   \* [Procs -> entry] what the caller loaded
  ret     \* [Procs -> Int]: record -> the streak of the hit it returns; reset -> 1 (true) / 0 (false); -1 = running

vars == <<op, init0, slot, nid, pc, seen, ret>>

InitEntry(k) == IF k = "none" THEN None ELSE Entry(1, InitStreak, k)

Init ==
  /\ op \in OpSets
  /\ \E k \in InitKinds : slot = InitEntry(k) /\ init0 = InitEntry(k)
  /\ nid = 2
  /\ pc = [p \in Procs |-> "load"]
  /\ seen = [p \in Procs |-> None]
  /\ ret = [p \in Procs |-> -1]

(* the renewal of an expired entry: "concurrent recorders advance the streak exactly once" *)
Renewed(e, i) == Entry(i, IF e.kind = "stale" THEN 1 ELSE e.streak + 1, "active")

Done(p, r) == pc' = [pc EXCEPT ![p] = "done"] /\ ret' = [ret EXCEPT ![p] = r]

RecLoad(p) ==
  /\ op[p] = "rec" /\ pc[p] = "load"
  /\ seen' = [seen EXCEPT ![p] = slot]
  /\ IF slot.kind = "none" THEN pc' = [pc EXCEPT ![p] = "add"] /\ UNCHANGED ret
     ELSE IF slot.kind = "active" THEN Done(p, slot.streak)
     ELSE pc' = [pc EXCEPT ![p] = "cas"] /\ UNCHANGED ret
  /\ UNCHANGED <<op, init0, slot, nid>>

RecAdd(p) ==
  /\ op[p] = "rec" /\ pc[p] = "add"
  /\ slot' = Entry(nid, 1, "active") /\ nid' = nid + 1
  /\ Done(p, 1)
  /\ UNCHANGED <<op, init0, seen>>

RecCAS(p) ==
  /\ op[p] = "rec" /\ pc[p] = "cas"
  /\ IF slot.id = seen[p].id
       THEN /\ slot' = Renewed(seen[p], nid) /\ nid' = nid + 1
            /\ Done(p, Renewed(seen[p], nid).streak)
       ELSE /\ pc' = [pc EXCEPT ![p] = "load"] /\ UNCHANGED <<slot, nid, ret>>
  /\ UNCHANGED <<op, init0, seen>>

RstLoad(p) ==
  /\ op[p] = "reset" /\ pc[p] = "load"
  /\ seen' = [seen EXCEPT ![p] = slot]
  /\ IF slot.kind = "none" THEN Done(p, 0) ELSE pc' = [pc EXCEPT ![p] = "cad"] /\ UNCHANGED ret
  /\ UNCHANGED <<op, init0, slot, nid>>

RstCAD(p) ==
  /\ op[p] = "reset" /\ pc[p] = "cad"
  /\ IF slot.id = seen[p].id
       THEN slot' = None /\ Done(p, 1)
       ELSE /\ UNCHANGED slot
            /\ IF Retry THEN pc' = [pc EXCEPT ![p] = "load"] /\ UNCHANGED ret ELSE Done(p, 0)
  /\ UNCHANGED <<op, init0, nid, seen>>

Next == \E p \in Procs : RecLoad(p) \/ RecAdd(p) \/ RecCAS(p) \/ RstLoad(p) \/ RstCAD(p)
Spec == Init /\ [][Next]_vars

(* ------------------------- the atomic reference ------------------------ *)
(* FailureCache.tla's RecordZone / ResetZone on the abstract slot <<streak, kind>> *)
AtomRec(e) ==
  IF e[2] = "none" THEN <<<<1, "active">>, 1>>
  ELSE IF e[2] = "active" THEN <<e, e[1]>>
  ELSE IF e[2] = "stale" THEN <<<<1, "active">>, 1>>
  ELSE <<<<e[1] + 1, "active">>, e[1] + 1>>
AtomReset(e) == IF e[2] = "none" THEN <<e, 0>> ELSE <<<<0, "none">>, 1>>

K == Cardinality(Procs)
Orders == {o \in [1..K -> Procs] : \A i, j \in 1..K : i # j => o[i] # o[j]}

RECURSIVE Serial(_, _, _, _)
Serial(o, i, e, r) ==
  IF i > K THEN <<e, r>>
  ELSE LET p == o[i]
           a == IF op[p] = "rec" THEN AtomRec(e) ELSE AtomReset(e)
       IN Serial(o, i + 1, a[1], [r EXCEPT ![p] = a[2]])

Abs(e) == <<e.streak, e.kind>>
AllDone == \A p \in Procs : pc[p] = "done"
Outcome == <<Abs(slot), ret>>
SerialOutcomes == {Serial(o, 1, Abs(init0), [p \in Procs |-> -1]) : o \in Orders}

(* ------------------------------ properties ----------------------------- *)
TypeOK ==
  /\ pc \in [Procs -> {"load", "add", "cas", "cad", "done"}]
  /\ slot.kind \in {"none", "active", "expired", "stale"}
  /\ ret \in [Procs -> -1..(InitStreak + K)]
Linearizable == AllDone => Outcome \in SerialOutcomes
(* C13: a useful answer resets the backoff *)
ResetWins == (AllDone /\ \E p \in Procs : op[p] = "reset") => (slot.kind = "none" \/ slot.streak = 1)
(* concurrent recorders advance the streak at most once *)
AdvanceOnce == slot.streak <= InitStreak + 1
(* every round ends: no livelock of the two retry loops (checked as deadlock-freedom short of AllDone) *)
Terminates == ~AllDone => ENABLED Next
=============================================================================
