------------------------------- MODULE Router -------------------------------
(* The API router (api/router.go, api/tree.go) as a pure function: registered route patterns x request path ->
   the pattern that serves it and the parameters it binds, or none (404).

   Statement: the endpoint table of api/README.md is written in this pattern language (`:key` = one path segment,
   `/debug/pprof/*` = everything below); the comments of tree.go ("node: /|:id  path: /|blog", "node: /:id|/posts
   path: /123|/posts", "node: /|*any  path: /|image.png").  A pattern is a sequence of segments: a static word, a
   parameter (":name") or, last, the catch-all "*".  A parameter binds exactly one non-empty segment, the catch-all
   binds the non-empty rest.

   Where several patterns match, the model prefers static over parameter over catch-all at the first segment where
   they differ (the README's table needs that for /debug/pprof/cmdline next to the pprof catch-all); the real tree does
   not backtrack, so on overlapping route sets it may answer differently: compared as drift, not judged. *)
EXTENDS Naturals, Sequences, FiniteSets, TLC, Json

CONSTANTS RouteSets, Mut
CONSTANT PathsOf(_)

VARIABLES rs, path, out
vars == <<rs, path, out>>

IsParam(s) == s \in {":p", ":q", ":key", ":qname", ":qtype"}
IsWild(s)  == s = "*"
Kind(s)    == IF IsWild(s) THEN 2 ELSE IF IsParam(s) THEN 1 ELSE 0

RECURSIVE MatchFrom(_, _, _, _)
MatchFrom(r, p, i, m) ==
    IF i > Len(r) THEN i > Len(p)
    ELSE IF IsWild(r[i]) THEN (i <= Len(p) \/ m = "wild-empty")
    ELSE IF i > Len(p) THEN FALSE
    ELSE IF IsParam(r[i]) THEN MatchFrom(r, p, i + 1, m)
    ELSE r[i] = p[i] /\ MatchFrom(r, p, i + 1, m)

MatchesDoc(r, p) == MatchFrom(r, p, 1, "none")
Matches(r, p)    == MatchFrom(r, p, 1, Mut)

Bind(r, p) ==
    {<<r[i], p[i]>> : i \in {j \in 1..Len(r) : IsParam(r[j]) /\ j <= Len(p)}}
Rest(r, p) == IF Len(r) > 0 /\ IsWild(r[Len(r)]) THEN SubSeq(p, Len(r), Len(p)) ELSE <<>>

\* r1 is preferred to r2: more specific at the first segment where their kinds differ
Better(r1, r2) ==
    \E i \in 1..Len(r1) : /\ i <= Len(r2)
                          /\ \A j \in 1..(i - 1) : Kind(r1[j]) = Kind(r2[j])
                          /\ Kind(r1[i]) < Kind(r2[i])

None == [route |-> <<>>, params |-> {}, rest |-> <<>>, n |-> 0]

Route(R, p) ==
    LET M  == {r \in R : Matches(r, p) /\ ~(Mut = "drop-wild" /\ IsWild(r[Len(r)]))}
        MD == {r \in R : MatchesDoc(r, p)}
    IN IF M = {}
       THEN IF Mut = "phantom" /\ R # {} THEN LET r == CHOOSE r \in R : TRUE IN [route |-> r, params |-> {}, rest |-> <<>>, n |-> 0] ELSE None
       ELSE LET best == CHOOSE r \in M : \A r2 \in M \ {r} : Better(r, r2) \/ ~Better(r2, r)
            IN [route |-> best, params |-> Bind(best, p), rest |-> Rest(best, p), n |-> Cardinality(MD)]

Init == /\ rs \in RouteSets
        /\ path \in PathsOf(rs)
        /\ out = Route(rs, path)
        /\ PrintT(ToJson([kase |-> "CASE", routes |-> rs, path |-> path, out |-> out]))
Next == UNCHANGED vars
Spec == Init /\ [][Next]_vars

Matching == {r \in rs : MatchesDoc(r, path)}
(* whatever serves the request is a pattern that matches it *)
Sound        == out.route # <<>> => (out.route \in rs /\ MatchesDoc(out.route, path))
(* a request that matches exactly one documented pattern reaches it, with the parameters the pattern binds *)
UniqueRouted == Cardinality(Matching) = 1 => (out.route \in Matching /\ out.params = Bind(out.route, path) /\ out.rest = Rest(out.route, path))
(* a request that matches no pattern is not served (404) *)
NoMatchNone  == Matching = {} => out.route = <<>>
(* a parameter binds exactly one segment *)
ParamOneSegment == \A b \in out.params : b[2] \in {path[i] : i \in 1..Len(path)}
=============================================================================
