SPECIFICATION Spec
CONSTANTS
  RouteSets <- Sets2
  PathsOf <- TinyPaths
  Mut = "drop-wild"
INVARIANT UniqueRouted
CHECK_DEADLOCK FALSE
