SPECIFICATION Spec
CONSTANTS
  RouteSets <- Sets2
  PathsOf <- TinyPaths
  Mut = "wild-empty"
INVARIANT Sound
CHECK_DEADLOCK FALSE
