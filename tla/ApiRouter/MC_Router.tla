----------------------------- MODULE MC_Router -----------------------------
EXTENDS Router

\* the endpoint table of api/README.md (GET tree; pprof rows as api.go registers them with SDNS_PPROF=1)
Readme == {
    <<"api", "v1", "block", "set", ":key">>, <<"api", "v1", "block", "get", ":key">>,
    <<"api", "v1", "block", "exists", ":key">>, <<"api", "v1", "block", "remove", ":key">>,
    <<"api", "v1", "purge", ":qname", ":qtype">>, <<"metrics">>,
    <<"debug", "pprof", "*">>, <<"debug", "pprof", "cmdline">>, <<"debug", "pprof", "profile">> }
ReadmeSets == {Readme}

Vals == {"x", "set", "batch"}
Insts(r) == {[i \in 1..Len(r) |-> IF Kind(r[i]) = 0 THEN r[i] ELSE f[i]] : f \in [1..Len(r) -> Vals]}
Variants(p) == {p, Append(p, "x"), Append(Append(p, "x"), "y")}
               \cup (IF Len(p) > 0 THEN {SubSeq(p, 1, Len(p) - 1)} ELSE {})
               \cup {[p EXCEPT ![i] = "zz"] : i \in 1..Len(p)}
               \cup {SubSeq(p, 1, i) : i \in 0..Len(p)}
               \cup (IF Len(p) > 0 THEN {[p EXCEPT ![Len(p)] = "cmdlinex"], [p EXCEPT ![Len(p)] = "c"], [p EXCEPT ![Len(p)] = "metric"]} ELSE {})
ReadmePaths(R) == UNION {Variants(p) : p \in UNION {Insts(r) : r \in R}}

\* tiny alphabet: every set of up to MaxSet patterns of length <= 2, every path of length <= 3
Words == {"a", "b", ":p", "*"}
Pats == {<<s>> : s \in Words} \cup {<<s, t>> : s \in {"a", "b", ":p"}, t \in {"a", "b", ":q", "*"}}
          \cup {<<"a", ":p", "b">>, <<":p", "a", ":q">>, <<"a", "b", "*">>}
Shape(r) == [i \in 1..Len(r) |-> IF Kind(r[i]) = 0 THEN r[i] ELSE IF Kind(r[i]) = 1 THEN ":" ELSE "*"]
NoClash(R) == \A r1, r2 \in R : r1 # r2 => Shape(r1) # Shape(r2)
Sets(n) == {R \in SUBSET Pats : Cardinality(R) \in 1..n /\ NoClash(R)}
Sets2 == Sets(2)
Sets3 == Sets(3)
Segs == {"a", "b", "c"}
TinyPaths(R) == {<<>>} \cup {<<s>> : s \in Segs} \cup {<<s, t>> : s, t \in Segs} \cup {<<s, t, u>> : s, t, u \in Segs}
=============================================================================
