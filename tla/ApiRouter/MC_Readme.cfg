SPECIFICATION Spec
CONSTANTS
  RouteSets <- ReadmeSets
  PathsOf <- ReadmePaths
  Mut = "none"
INVARIANT Sound
INVARIANT UniqueRouted
INVARIANT NoMatchNone
INVARIANT ParamOneSegment
CHECK_DEADLOCK FALSE
