SPECIFICATION Spec
CONSTANTS
  RouteSets <- Sets3
  PathsOf <- TinyPaths
  Mut = "none"
INVARIANT Sound
INVARIANT UniqueRouted
INVARIANT NoMatchNone
INVARIANT ParamOneSegment
CHECK_DEADLOCK FALSE
