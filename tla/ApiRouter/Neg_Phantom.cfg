SPECIFICATION Spec
CONSTANTS
  RouteSets <- Sets2
  PathsOf <- TinyPaths
  Mut = "phantom"
INVARIANT NoMatchNone
CHECK_DEADLOCK FALSE
