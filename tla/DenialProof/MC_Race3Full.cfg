CONSTANTS
  Pieces = {"p1", "p2"}
  Questions = {"ND1", "NX1", "NX12"}
  Need <- AllNeed
  Rcode <- AllRcode
  Lifetimes = {2, 5}
  Steps = {1, 3}
  Routes = {"srv", "get"}
  AliasTTL = 50
  MaxClock = 5
  MaxGen = 3
  Secure = TRUE
  Mutant = "none"
  Kind = "nsec3"
  Race = TRUE
  MaxBorn = 1
  Targets = {"flight", "other"}
INIT Init
NEXT Next
CHECK_DEADLOCK FALSE
VIEW StateView
INVARIANTS
  TypeOK DerivedWithinPieces EntryWithinTruth QuarantineEmptiesRing
PROPERTIES
  ATTLShown AHandDown ANoExpiredPiece ADerivedShown AADOnlyValidated ACoveredOnly APieceFoldsSoa ANoQuarantinedSynthesis
