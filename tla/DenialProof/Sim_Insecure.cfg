CONSTANTS
  Pieces = {"p1", "p2", "p3"}
  Questions = {"ND1", "NX1", "NX12"}
  Need <- AllNeed
  Rcode <- AllRcode
  Lifetimes = {2, 5}
  Steps = {1, 2}
  Routes = {"srv", "get"}
  AliasTTL = 50
  MaxClock = 12
  MaxGen = 6
  Secure = FALSE
  Mutant = "none"
  Kind = "nsec"
  Race = FALSE
  MaxBorn = 0
  Targets = {}
INIT Init
NEXT Next
CHECK_DEADLOCK FALSE
INVARIANTS
  TypeOK DerivedWithinPieces EntryWithinTruth TTLShown HandDown NoExpiredPiece DerivedShown ADOnlyValidated CoveredOnly
