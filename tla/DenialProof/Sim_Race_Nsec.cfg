CONSTANTS
  Pieces = {"p1", "p2", "p3"}
  Questions = {"ND1", "NX1", "ND2", "NX12"}
  Need <- AllNeed
  Rcode <- AllRcode
  Lifetimes = {2, 5}
  Steps = {1, 2}
  Routes = {"srv", "get"}
  AliasTTL = 50
  MaxClock = 14
  MaxGen = 8
  Secure = TRUE
  Mutant = "none"
  Kind = "nsec"
  Race = TRUE
  MaxBorn = 1
  Targets = {"flight", "other"}
INIT Init
NEXT Next
CHECK_DEADLOCK FALSE
INVARIANTS
  TypeOK DerivedWithinPieces EntryWithinTruth QuarantineEmptiesRing TTLShown HandDown NoExpiredPiece DerivedShown ADOnlyValidated CoveredOnly NoQuarantinedSynthesis
