#!/usr/bin/env python3
"""Regenerates the TLC configs of DenialProof (written next to this file)."""
import os

HERE = os.path.dirname(os.path.abspath(__file__))
ALLINV = ["TypeOK", "DerivedWithinPieces", "EntryWithinTruth"]
ALLPROP = ["ATTLShown", "AHandDown", "ANoExpiredPiece", "ADerivedShown", "AADOnlyValidated", "ACoveredOnly", "APieceFoldsSoa"]
RACEPROP = ["ANoQuarantinedSynthesis"]   # the lookup-in-flight dimension (Race = TRUE configs)
STATE_FORM = {"ANoQuarantinedSynthesis": "NoQuarantinedSynthesis", "ANoStaleSnapshotDenial": "NoStaleSnapshotDenial",
              "ATTLShown": "TTLShown", "AHandDown": "HandDown", "ANoExpiredPiece": "NoExpiredPiece", "ADerivedShown": "DerivedShown",
              "AADOnlyValidated": "ADOnlyValidated", "ACoveredOnly": "CoveredOnly", "APieceFoldsSoa": None}


def tla_set(xs):
    return "{" + ", ".join('"%s"' % x if isinstance(x, str) else str(x) for x in xs) + "}"


def cfg(name, questions, pieces=("p1", "p2", "p3"), lifetimes=(2, 5), steps=(1, 3), routes=("srv", "get"), maxclock=7, maxgen=3,
        secure=True, mutant="none", invs=None, props=None, view=True, sim=False,
        kind="nsec", race=False, maxborn=0, targets=()):
    invs = ALLINV if invs is None else invs
    props = ALLPROP if props is None else props
    out = ["CONSTANTS",
           "  Pieces = " + tla_set(pieces),
           "  Questions = " + tla_set(questions),
           "  Need <- AllNeed",
           "  Rcode <- AllRcode",
           "  Lifetimes = " + tla_set(lifetimes),
           "  Steps = " + tla_set(steps),
           "  Routes = " + tla_set(routes),
           "  AliasTTL = 50",
           "  MaxClock = %d" % maxclock,
           "  MaxGen = %d" % maxgen,
           "  Secure = %s" % ("TRUE" if secure else "FALSE"),
           '  Mutant = "%s"' % mutant,
           '  Kind = "%s"' % kind,
           "  Race = %s" % ("TRUE" if race else "FALSE"),
           "  MaxBorn = %d" % maxborn,
           "  Targets = " + tla_set(targets),
           "INIT Init", "NEXT Next", "CHECK_DEADLOCK FALSE"]
    if sim:
        # simulation: every state is evaluated, the predicates are plain invariants
        out += ["INVARIANTS", "  " + " ".join(invs + [STATE_FORM[p] for p in props if STATE_FORM[p]])]
    else:
        if view:
            out += ["VIEW StateView"]
        if invs:
            out += ["INVARIANTS", "  " + " ".join(invs)]
        if props:
            out += ["PROPERTIES", "  " + " ".join(props)]
    with open(os.path.join(HERE, name), "w") as f:
        f.write("\n".join(out) + "\n")


Q3 = ["ND1", "NX12", "ND3"]
cfg("MC_Quick.cfg", Q3)
cfg("MC_Insecure.cfg", ["ND1", "NX12"], secure=False, maxclock=4)
cfg("MC_Full.cfg", ["ND1", "NX12", "ND3", "NX23"], lifetimes=(2, 5), steps=(1, 3), maxclock=8, maxgen=4)
cfg("MC_Two.cfg", ["ND1", "NX12", "ND2", "NX2"], pieces=("p1", "p2"), lifetimes=(1, 3, 6), steps=(1, 2), maxclock=7, maxgen=4)
# negative twins: one model mutant each, one named predicate that it must refute
NEG = [("MC_NegProofsOnly.cfg", "proofsOnly", [], ["ATTLShown"], True),          # = the seeded change C04-r2-1
       ("MC_NegProofsOnlyHand.cfg", "proofsOnly", [], ["AHandDown"], True),
       ("MC_NegProofsOnlyDerived.cfg", "proofsOnly", ["DerivedWithinPieces"], [], True),
       ("MC_NegExpiredSoa.cfg", "expiredSoa", [], ["ANoExpiredPiece"], True),
       ("MC_NegExpiredPiece.cfg", "expiredPiece", [], ["ANoExpiredPiece"], True),
       ("MC_NegDerivedMax.cfg", "derivedMax", ["DerivedWithinPieces"], [], True),
       ("MC_NegDerivedShown.cfg", "derivedMax", [], ["ADerivedShown"], True),
       ("MC_NegSoaKeepsLonger.cfg", "soaKeepsLonger", ["EntryWithinTruth"], [], True),
       ("MC_NegSoaKeepsLongerTTL.cfg", "soaKeepsLonger", [], ["ATTLShown"], True),
       ("MC_NegHandSoaOnly.cfg", "handSoaOnly", [], ["AHandDown"], True),
       ("MC_NegUncovered.cfg", "uncovered", [], ["ACoveredOnly"], True),
       ("MC_NegAdmitUnvalidated.cfg", "admitUnvalidated", [], ["AADOnlyValidated"], False),
       ("MC_NegNoFold.cfg", "noFold", [], ["APieceFoldsSoa"], True)]
for name, mutant, invs, props, secure in NEG:
    cfg(name, Q3, mutant=mutant, invs=invs, props=props, secure=secure)
# simulation configs for the replay (one per zone family: the classes its catalogue realises)
cfg("Sim_Nsec.cfg", ["ND1", "NX1", "ND2", "NX2", "NX12", "ND3", "NX3", "NX23"], lifetimes=(2, 5, 9), steps=(1, 2, 4), maxclock=40, maxgen=12, sim=True)
cfg("Sim_Nsec3.cfg", ["ND1", "NX1", "ND2", "ND3", "NX12", "NX13", "NX123"], lifetimes=(2, 5, 9), steps=(1, 2, 4), maxclock=40, maxgen=12, sim=True,
    kind="nsec3")
cfg("Sim_Insecure.cfg", ["ND1", "NX1", "NX12"], lifetimes=(2, 5), steps=(1, 2), maxclock=12, maxgen=6, secure=False, sim=True)

# ---- Race = TRUE: lookups in flight (snapshot .. quarantine re-check .. shaping), zone changes, NSEC3 conflict quarantine
RQ = ["ND1", "NX1", "NX12"]
RACE = dict(pieces=("p1", "p2"), lifetimes=(2, 5), steps=(1, 3), maxclock=5, maxgen=3, race=True, maxborn=1, targets=("flight", "other"))
RINV = ALLINV + ["QuarantineEmptiesRing"]
QRACE = dict(RACE, steps=(2,), maxclock=4)       # quick: 1.3e5 distinct states each; thorough: 1.3e6
cfg("MC_Race3.cfg", ["ND1", "NX12"], kind="nsec3", invs=RINV, props=ALLPROP + RACEPROP, **QRACE)
cfg("MC_RaceNsec.cfg", ["ND1", "NX12"], kind="nsec", invs=RINV, props=ALLPROP + RACEPROP, **QRACE)
cfg("MC_Race3Full.cfg", RQ, kind="nsec3", invs=RINV, props=ALLPROP + RACEPROP, **RACE)
cfg("MC_RaceNsecFull.cfg", RQ, kind="nsec", invs=RINV, props=ALLPROP + RACEPROP, **RACE)
# as built and documented, not demanded: an NSEC lookup in flight answers from its snapshot although the RRset it rests on
# has meanwhile been replaced (NSEC has no quarantine; the lookup linearises at the capture) -- this config MUST be refuted
# (for NSEC3 the same is reachable only through a Purge between the capture and the conflicting admission)
cfg("MC_RaceNsecStale.cfg", RQ, kind="nsec", invs=[], props=["ANoStaleSnapshotDenial"], **RACE)
# negative twins.  The seeded change C02-r3-1 (the re-check skips NSEC3 selections); targets = flight only, so that the
# counter-example denies the very name/type whose creation caused the quarantine: once a type added at a NODATA name ...
NR = dict(RACE, targets=("flight",))
cfg("MC_NegRecheckType.cfg", ["ND1", "NX12"], kind="nsec3", mutant="recheckSkipsNsec3", invs=[], props=["ANoQuarantinedSynthesis"], **NR)
# ... once the NXDOMAIN name itself created
cfg("MC_NegRecheckName.cfg", ["NX1", "NX12"], kind="nsec3", mutant="recheckSkipsNsec3", invs=[], props=["ANoQuarantinedSynthesis"], **NR)
cfg("MC_NegQuarKeepsRing.cfg", RQ, kind="nsec3", mutant="quarKeepsRing", invs=["QuarantineEmptiesRing"], props=[], **RACE)
SR = dict(pieces=("p1", "p2", "p3"), lifetimes=(2, 5), steps=(1, 2), maxclock=14, maxgen=8, race=True, maxborn=1, targets=("flight", "other"),
          sim=True, props=ALLPROP + ["ANoQuarantinedSynthesis"], invs=ALLINV + ["QuarantineEmptiesRing"])
cfg("Sim_Race_Nsec3.cfg", ["ND1", "NX1", "ND2", "NX12"], kind="nsec3", **SR)
cfg("Sim_Race_Nsec.cfg", ["ND1", "NX1", "ND2", "NX12"], kind="nsec", **SR)
