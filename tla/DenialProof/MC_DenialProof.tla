-------------------------- MODULE MC_DenialProof --------------------------
EXTENDS DenialProof
(* Question classes shared by the configs.  pN = the RRset of the N-th proof owner; NDn = NODATA at that owner (its
   own RRset matches), NXs = NXDOMAIN proved by the RRsets s.  Which classes a zone family can realise is decided
   by the driver's catalogue (NSEC: p1 = b, p2 = apex, p3 = d; NSEC3: p1 = H(b), p2 = H(f), p3 = H(d)).           *)
AllNeed == [q \in {"ND1", "NX1", "ND2", "NX2", "ND3", "NX3", "NX12", "NX23", "NX13", "NX123"} |->
             CASE q \in {"ND1", "NX1"} -> {"p1"}
               [] q \in {"ND2", "NX2"} -> {"p2"}
               [] q \in {"ND3", "NX3"} -> {"p3"}
               [] q = "NX12" -> {"p1", "p2"}
               [] q = "NX23" -> {"p2", "p3"}
               [] q = "NX13" -> {"p1", "p3"}
               [] q = "NX123" -> {"p1", "p2", "p3"}]
AllRcode == [q \in DOMAIN AllNeed |-> IF q \in {"ND1", "ND2", "ND3"} THEN "ND" ELSE "NX"]
=============================================================================
