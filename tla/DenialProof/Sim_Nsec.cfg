CONSTANTS
  Pieces = {"p1", "p2", "p3"}
  Questions = {"ND1", "NX1", "ND2", "NX2", "NX12", "ND3", "NX3", "NX23"}
  Need <- AllNeed
  Rcode <- AllRcode
  Lifetimes = {2, 5, 9}
  Steps = {1, 2, 4}
  Routes = {"srv", "get"}
  AliasTTL = 50
  MaxClock = 40
  MaxGen = 12
  Secure = TRUE
  Mutant = "none"
  Kind = "nsec"
  Race = FALSE
  MaxBorn = 0
  Targets = {}
INIT Init
NEXT Next
CHECK_DEADLOCK FALSE
INVARIANTS
  TypeOK DerivedWithinPieces EntryWithinTruth TTLShown HandDown NoExpiredPiece DerivedShown ADOnlyValidated CoveredOnly
