CONSTANTS
  Pieces = {"p1", "p2", "p3"}
  Questions = {"ND1", "NX12", "ND3"}
  Need <- AllNeed
  Rcode <- AllRcode
  Lifetimes = {2, 5}
  Steps = {1, 3}
  Routes = {"srv", "get"}
  AliasTTL = 50
  MaxClock = 7
  MaxGen = 3
  Secure = TRUE
  Mutant = "soaKeepsLonger"
  Kind = "nsec"
  Race = FALSE
  MaxBorn = 0
  Targets = {}
INIT Init
NEXT Next
CHECK_DEADLOCK FALSE
VIEW StateView
INVARIANTS
  EntryWithinTruth
