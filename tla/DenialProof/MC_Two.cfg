CONSTANTS
  Pieces = {"p1", "p2"}
  Questions = {"ND1", "NX12", "ND2", "NX2"}
  Need <- AllNeed
  Rcode <- AllRcode
  Lifetimes = {1, 3, 6}
  Steps = {1, 2}
  Routes = {"srv", "get"}
  AliasTTL = 50
  MaxClock = 7
  MaxGen = 4
  Secure = TRUE
  Mutant = "none"
  Kind = "nsec"
  Race = FALSE
  MaxBorn = 0
  Targets = {}
INIT Init
NEXT Next
CHECK_DEADLOCK FALSE
VIEW StateView
INVARIANTS
  TypeOK DerivedWithinPieces EntryWithinTruth
PROPERTIES
  ATTLShown AHandDown ANoExpiredPiece ADerivedShown AADOnlyValidated ACoveredOnly APieceFoldsSoa
