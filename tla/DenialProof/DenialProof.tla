---------------------------- MODULE DenialProof ----------------------------
(***************************************************************************)
(* The aggressive denial-proof cache of sdns (RFC 8198 synthesis) as a     *)
(* lease-composition state machine: middleware/cache/denial_proof_cache.go *)
(* (admission = recordWithKind/extract, lookup = lookupWithMeta /          *)
(* denialProofEvaluate / denialProofResponse / pruneZoneLocked, purge) and *)
(* its two consumers in cache.go / store.go (Cache.lookupDenialProof and   *)
(* Store.GetWithContext, both handing the expiry of the synthesised reply  *)
(* to the request tree with boundRequestTo).                               *)
(*                                                                         *)
(* One signer zone.  The index retains per zone                            *)
(*   - ONE SOA entry   (id = zone apex; a later admission REPLACES it:     *)
(*                      c.byID[entry.id] -> detachEntryLocked(previous))   *)
(*   - one entry per denial RRset owner ("piece": an NSEC or NSEC3 RRset   *)
(*                      with its RRSIGs; same replacement rule)            *)
(* each with its own absolute expiry.  extract() gives the SOA entry       *)
(*   now + min(SOA TTL, SOA MINIMUM, RRSIG(SOA) OrigTTL / expiration, cap, *)
(*             delegation lease)                                           *)
(* and every proof entry the same minimum FOLDED with its own RRset's TTL  *)
(* and RRSIG window (lifetimeRecords = commonRecords + set).               *)
(* What kind of name a piece covers is C02's business (Denial.tla); here a *)
(* question is abstracted to the set of pieces Need[q] the evaluator must  *)
(* find live to prove it and to the rcode of the proof.                    *)
(*                                                                         *)
(* Lookup(q) (the body of Synth / MissGet / Resolve / Derive / HitDerChase): *)
(*   no live SOA entry     -> the whole zone is retired (PruneZone), miss  *)
(*   some entry expired    -> expired entries are dropped (PruneExpired)   *)
(*   every piece of Need[q] retained and live -> synthesis:                *)
(*        expires = min(soa.exp, exp of the pieces used)                   *)
(*        TTL of every record = expires - now, AD = 1,                     *)
(*        expires is handed to the request tree                            *)
(*   otherwise miss: the question goes upstream and, when the answer is    *)
(*   validated (Secure), its SOA and proof RRsets are admitted.            *)
(*                                                                         *)
(* Found by replaying this model on the code (first versions of the model  *)
(* had neither):                                                           *)
(*   - a synthesis INSIDE an alias chase is admitted again by the outer    *)
(*     cache writer (the reply keeps its validation provenance across the  *)
(*     alias merge): every piece used is replaced by itself with the       *)
(*     composed lifetime (Derive).  Deliberate deviation: the code rounds  *)
(*     that lifetime down to whole seconds at every such re-admission (up  *)
(*     to 1 s of erosion each); the model's ticks are coarser.             *)
(*   - a hit on the re-cached alias entry serves the stored composed reply *)
(*     and, for a NODATA target, chases the target again and merges the    *)
(*     result in (HitDer / HitDerChase / HitDerResolve).                   *)
(*                                                                         *)
(* Race = TRUE adds the dimension the atomic lookup above hides (C02: "for  *)
(* all orders in which such proofs are admitted to ... the caches"):        *)
(*   - lookupWithMeta is NOT one critical section: it captures the zone's  *)
(*     published snapshot under the read lock (Begin), evaluates it with   *)
(*     NO lock held (NSEC3 hashing; admissions of other clients interleave *)
(*     here) and only then, under the read lock again, re-checks the       *)
(*     conflict quarantine and shapes the answer FROM THE SNAPSHOT         *)
(*     (FlSynth / FlMissGet / FlResolve / FlPositive).  The evaluation     *)
(*     reads the immutable snapshot only, so the windows before and after  *)
(*     it are one window here (deliberate deviation; the prune after the   *)
(*     evaluation is done by the finishing step when the snapshot is still *)
(*     the published one, as pruneZoneLocked has it).                      *)
(*   - the zone CHANGES (Create(p, tgt)): the authority now serves another *)
(*     RRset at the owner of piece p (a type was added at that name, or a  *)
(*     name was created inside its span), and the answer to the question   *)
(*     in flight (tgt = "flight") or to some other name ("other") turned   *)
(*     positive.  Every retained piece remembers the version it is (v).    *)
(*   - recordWithKind for Kind = "nsec3": a validated RRset that differs   *)
(*     from the LIVE retained one at the same owner hash is an ambiguity:  *)
(*     nothing is admitted, the whole parameter ring is removed and the    *)
(*     tuple is tombstoned (quar) until the later of the two expiries;     *)
(*     while the tombstone is active every admission carrying that tuple   *)
(*     is refused.  Kind = "nsec": the later RRset replaces the earlier    *)
(*     one (no quarantine exists for NSEC).                                *)
(* NoQuarantinedSynthesis: no answer is shaped from a ring that is         *)
(* tombstoned at the instant of shaping -- in particular (hit) never a     *)
(* denial of the very name/type whose creation caused the quarantine.      *)
(* The seeded change C02-r3-1 (re-check skips NSEC3 selections) is the     *)
(* mutant "recheckSkipsNsec3".                                             *)
(*                                                                         *)
(* `tru` is a ghost: the lifetime the PROPERTY grants a piece (its own     *)
(* TTL / RRSIG window from the instant it was learned), kept apart from    *)
(* `exp`, the expiry the CODE computed; the mutants change exp only.       *)
(***************************************************************************)
EXTENDS Integers, FiniteSets, TLC

CONSTANTS
  Pieces,      \* proof RRset owners of the zone (abstract)
  Questions,   \* question classes
  Need,        \* [Questions -> SUBSET Pieces \ {{}}]
  Rcode,       \* [Questions -> {"NX", "ND"}]
  Lifetimes,   \* lifetimes an authority hands out (ticks)
  Steps,       \* clock advances
  Routes,      \* "srv" (Cache.ServeDNS: ServeMsg / ServeRaw), "get" (Store.GetWithContext)
  AliasTTL,    \* TTL of the alias record of Derive (longer than every lifetime)
  MaxClock, MaxGen,
  Secure,      \* the zone validates (answers carry local validation provenance)
  Mutant,      \* "none" or the name of a model mutant (negative configs)
  Kind,        \* "nsec" | "nsec3": the denial mechanism of the zone (decides what a second RRset at one owner means)
  Race,        \* TRUE: lookups in flight (snapshot .. re-check) and zone changes are part of the behaviours
  MaxBorn,     \* at most this many zone changes
  Targets      \* subset of {"flight", "other"}: whose answer a zone change turns positive

None == [g |-> 0]
ASSUME /\ \A q \in Questions : Need[q] \subseteq Pieces /\ Need[q] # {}
       /\ Secure \in BOOLEAN /\ Race \in BOOLEAN
       /\ Kind \in {"nsec", "nsec3"} /\ Targets \subseteq {"flight", "other"}

VARIABLES
  now,     \* clock (ticks)
  gen,     \* admissions so far (each admission = one validated negative answer)
  soa,     \* None or [g, exp, tru, val]   (g = the admission that brought it)
  pf,      \* [Pieces -> None or [g, exp, tru, val]]
  der,     \* None or the alias entry re-cached from a synthesised reply [g |-> 1, q, exp, mtru]
  reply,   \* what the last call returned
  ver,     \* [Pieces -> Nat]: which RRset the AUTHORITY serves at the owner of p now (zone version of that owner)
  born,    \* zone changes so far
  quar,    \* 0 or the instant the NSEC3 conflict tombstone of the zone's parameter tuple ends
  fl       \* None or the lookup in flight [g |-> 1, q, r, soa, pf (the captured snapshot), hit]
vars == <<now, gen, soa, pf, der, reply, ver, born, quar, fl>>
race == <<ver, born, quar, fl>>

Min(a, b) == IF a <= b THEN a ELSE b
Max(a, b) == IF a >= b THEN a ELSE b
SetMin(S) == CHOOSE x \in S : \A y \in S : x <= y
SetMax(S) == CHOOSE x \in S : \A y \in S : x >= y

Live(e) == e # None /\ e.exp > now
NoReply == [kind |-> "none"]

Init ==
  /\ now = 0 /\ gen = 0 /\ soa = None /\ der = None
  /\ pf = [p \in Pieces |-> None]
  /\ reply = NoReply
  /\ ver = [p \in Pieces |-> 0] /\ born = 0 /\ quar = 0 /\ fl = None

(* ---- lookupWithMeta: prune, evaluate, shape ---------------------------- *)
SoaUsable == IF Mutant = "expiredSoa" THEN soa # None ELSE Live(soa)

\* what pruneZoneLocked leaves behind
PrunedSoa == IF SoaUsable THEN soa ELSE None
PrunedPf  == IF SoaUsable THEN [p \in Pieces |-> IF Live(pf[p]) \/ Mutant = "expiredPiece" THEN pf[p] ELSE None]
                          ELSE [p \in Pieces |-> None]

PieceUsable(p) == IF Mutant = "expiredPiece" THEN pf[p] # None ELSE Live(pf[p])

Covered(q) == /\ SoaUsable
              /\ IF Mutant = "uncovered" THEN \E p \in Need[q] : PieceUsable(p)
                                         ELSE \A p \in Need[q] : PieceUsable(p)

UsedPieces(q) == {p \in Need[q] : PieceUsable(p)}
\* denialProofResponse: expires := soa.expires, folded with every proof entry
SynthExpiry(q) ==
  LET pe == {pf[p].exp : p \in {u \in UsedPieces(q) : Mutant = "expiredPiece" => Live(pf[u])}}
  IN  IF Mutant = "proofsOnly" THEN SetMin(pe)
      ELSE IF Mutant = "handSoaOnly" THEN soa.exp
      ELSE SetMin(pe \cup {soa.exp})
\* the lifetime the property grants the composed reply
MinTru(q) == SetMin({pf[p].tru : p \in UsedPieces(q)} \cup {soa.tru})

SynthReply(q, r) ==
  LET e  == SynthExpiry(q)
      te == IF Mutant = "handSoaOnly" THEN SetMin({pf[p].exp : p \in UsedPieces(q)} \cup {soa.exp}) ELSE e
  IN [kind |-> "synth", q |-> q, route |-> r, rc |-> Rcode[q], at |-> now,
      ttl  |-> te - now, hand |-> e, ad |-> TRUE,
      soaGen |-> soa.g, gens |-> [p \in UsedPieces(q) |-> pf[p].g],
      mtru |-> MinTru(q), allval |-> soa.val /\ \A p \in UsedPieces(q) : pf[p].val,
      complete |-> Need[q] \subseteq UsedPieces(q),
      quar |-> FALSE, hit |-> FALSE, inflight |-> FALSE, replaced |-> FALSE]   \* atomic: nothing comes between (see FlSynth)

(* ---- recordWithKind: the bundle of one validated negative answer ------- *)
Admits == Secure \/ Mutant = "admitUnvalidated"

NewSoa(s) ==
  LET e == IF Mutant = "soaKeepsLonger" /\ PrunedSoa # None THEN Max(PrunedSoa.exp, now + s) ELSE now + s
  IN  [g |-> gen + 1, exp |-> e, tru |-> now + s, val |-> Secure]
NewPiece(p, s, x) ==
  LET e == IF Mutant = "noFold" THEN now + x ELSE now + Min(s, x)
  IN  [g |-> gen + 1, exp |-> e, tru |-> now + x, val |-> Secure, v |-> ver[p]]

\* NSEC3 only: the parameter tuple of the zone's ring is tombstoned (nsec3ConflictActiveLocked)
QuarActive == Kind = "nsec3" /\ quar > now
\* the RRsets of an answer to q that differ from the LIVE retained RRset at the same owner (the miss that sent the
\* question upstream has pruned the zone first)
Conflicting(q) == {p \in Need[q] : PrunedPf[p] # None /\ PrunedPf[p].exp > now /\ PrunedPf[p].v # ver[p]}

\* the upstream leg of a miss: q is answered by the authority with SOA lifetime s and proof lifetime x
Upstream(q, r, s, x) ==
  /\ gen < MaxGen
  /\ gen' = gen + 1
  /\ IF ~Admits \/ QuarActive                   \* ... or refused: every NSEC3 RRset of the answer is of the tombstoned tuple
       THEN /\ soa' = PrunedSoa
            /\ pf'  = PrunedPf
            /\ quar' = quar
       ELSE IF Kind = "nsec3" /\ Conflicting(q) # {}
       \* a second validated RRset at one owner hash: never "latest wins" -- nothing of the bundle is admitted (the SOA
       \* entry stays as it was), the whole ring goes, the tuple is tombstoned through both observations' lifetimes
       \* (the first conflicting entry of the bundle decides the tombstone; configs keep MaxBorn <= 1, so there is one)
       THEN \E p \in Conflicting(q) :
              /\ soa' = PrunedSoa
              /\ pf'  = IF Mutant = "quarKeepsRing" THEN PrunedPf ELSE [pp \in Pieces |-> None]
              /\ quar' = Max(NewPiece(p, s, x).exp, PrunedPf[p].exp)
       ELSE /\ soa' = NewSoa(s)
            /\ pf'  = [p \in Pieces |-> IF p \in Need[q] THEN NewPiece(p, s, x) ELSE PrunedPf[p]]
            /\ quar' = quar
  /\ reply' = [kind |-> "resolved", q |-> q, route |-> r, rc |-> Rcode[q], at |-> now,
               ttl |-> Min(s, x), ad |-> Secure, s |-> s, x |-> x]

(* ---- client calls ------------------------------------------------------- *)
\* A fresh question of class q (never asked before: no exact entry, no subtree cut above it) through route r.
\* Query is one call of the code; it is split by outcome so that the authority's lifetimes are parameters only
\* where an authority is asked.
Synth(q, r) ==                       \* answered by the index
  /\ fl = None
  /\ Covered(q)
  /\ reply' = SynthReply(q, r)
  /\ soa' = PrunedSoa /\ pf' = PrunedPf
  /\ UNCHANGED <<now, gen, der>> /\ UNCHANGED race

MissGet(q) ==                        \* Store.GetWithContext never resolves: only the pruning is left behind
  /\ fl = None
  /\ "get" \in Routes
  /\ ~Covered(q)
  /\ reply' = [kind |-> "miss", q |-> q, route |-> "get"]
  /\ soa' = PrunedSoa /\ pf' = PrunedPf
  /\ UNCHANGED <<now, gen, der>> /\ UNCHANGED race

Resolve(q, s, x) ==                  \* Cache.ServeDNS: miss, resolved upstream, admitted on the way back
  /\ ~Covered(q)                     \* (also ANOTHER client's question while a lookup is in flight)
  /\ Upstream(q, "srv", s, x)
  /\ UNCHANGED <<now, der, ver, born, fl>>

\* A fresh alias (own TTL AliasTTL, resolved upstream) whose target is a fresh question of class q that the index
\* answers.  The composed reply is re-cached under the alias, bounded by what the synthesis handed down -- and, as the
\* synthesised reply keeps its validation provenance across the alias merge, ResponseWriter.WriteMsg ADMITS it again:
\* the SOA entry and the proof entries used are replaced by themselves with the composed lifetime (TTL = what was
\* left, request-tree bound = hand), i.e. a synthesis inside an alias chase shortens every piece it used to the
\* shortest of them.
Derive(q) ==
  /\ fl = None
  /\ Covered(q)
  /\ LET sr == SynthReply(q, "srv")
         e  == IF Mutant = "derivedMax" THEN Max(now + AliasTTL, sr.hand) ELSE Min(now + AliasTTL, sr.hand)
     IN /\ der' = [g |-> 1, q |-> q, exp |-> e, mtru |-> sr.mtru]
        /\ reply' = [sr EXCEPT !.kind = "derive"]
        /\ soa' = [soa EXCEPT !.exp = sr.hand]
        /\ pf'  = [p \in Pieces |-> IF p \in UsedPieces(q) THEN [pf[p] EXCEPT !.exp = sr.hand] ELSE PrunedPf[p]]
  /\ UNCHANGED <<now, gen>> /\ UNCHANGED race

\* The alias asked again while its entry is live.  The entry holds the COMPOSED reply (alias record + the synthesised
\* authority section as it was then); every record of it shows what the entry has left.
\*  - NXDOMAIN at the end of the alias is terminal (RFC 6604): the hit is served from the entry alone, the index is not
\*    consulted.
\*  - NODATA: the target is chased again through the same lookup and what that returns is merged in (records already
\*    present are not repeated; a newer SOA entry appears NEXT TO the stored one).  The hit path has no cache writer
\*    around it: nothing is admitted again.
HitDer ==
  /\ fl = None
  /\ der # None /\ der.exp > now /\ Rcode[der.q] = "NX"
  /\ reply' = [kind |-> "derhit", q |-> der.q, route |-> "srv", at |-> now, attl |-> der.exp - now, amtru |-> der.mtru]
  /\ UNCHANGED <<now, gen, soa, pf, der>> /\ UNCHANGED race

HitDerChase ==
  /\ fl = None
  /\ der # None /\ der.exp > now /\ Rcode[der.q] = "ND" /\ Covered(der.q)
  /\ reply' = [SynthReply(der.q, "srv") EXCEPT !.kind = "derchase"] @@ [attl |-> der.exp - now, amtru |-> der.mtru]
  /\ soa' = PrunedSoa /\ pf' = PrunedPf
  /\ UNCHANGED <<now, gen, der>> /\ UNCHANGED race

\* ... and when the index no longer answers the target, the chase goes upstream.  From then on the target has an
\* ordinary exact entry of its own: it is no longer a fresh question, the alias is not followed further.
HitDerResolve(s, x) ==
  /\ fl = None
  /\ der # None /\ der.exp > now /\ Rcode[der.q] = "ND" /\ ~Covered(der.q)
  /\ Upstream(der.q, "srv", s, x)
  /\ der' = None
  /\ UNCHANGED <<now, ver, born, fl>>

DropDer ==      \* the alias entry ages out (nothing observable; keeps the state space small)
  /\ fl = None
  /\ der # None /\ der.exp <= now
  /\ der' = None
  /\ UNCHANGED <<now, gen, soa, pf, reply>> /\ UNCHANGED race

Purge ==        \* Cache.Purge of any name of the zone: proof RRsets go, the SOA entry stays; the zone's conflict tombstones
  /\ pf' = [p \in Pieces |-> None]     \* go too ("an explicit recovery boundary"); a lookup in flight keeps its snapshot
  /\ reply' = NoReply
  /\ quar' = 0
  /\ UNCHANGED <<now, gen, soa, der, ver, born, fl>>

Tick(d) ==      \* a lookup takes microseconds: the clock does not move while one is in flight
  /\ fl = None
  /\ now + d <= MaxClock
  /\ now' = now + d
  /\ reply' = NoReply
  /\ quar' = IF quar <= now + d THEN 0 ELSE quar      \* an ended tombstone is as good as none
  /\ UNCHANGED <<gen, soa, pf, der, ver, born, fl>>

(* ---- Race: the zone changes; the lookup as the three sections it is ------ *)
\* The authority's zone changes at the owner of piece p: from now on its answers carry another RRset there (type bitmap
\* or next-owner field).  tgt = "flight": it is the answer to the question in flight that turned positive (a type added at
\* the NODATA name / the NXDOMAIN name itself created inside p's span); "other": some other name's.
Create(p, tgt) ==
  /\ Race /\ born < MaxBorn /\ tgt \in Targets
  /\ tgt = "flight" => (fl # None /\ ~fl.hit /\ p \in Need[fl.q])
  /\ ver' = [ver EXCEPT ![p] = @ + 1] /\ born' = born + 1
  /\ fl' = IF tgt = "flight" THEN [fl EXCEPT !.hit = TRUE] ELSE fl
  /\ reply' = NoReply
  /\ UNCHANGED <<now, gen, soa, pf, der, quar>>

\* lookupWithMeta, first section (read lock): the published snapshot of the zone is captured.  Only a lookup whose
\* snapshot proves the question is worth following (any other misses whatever happens meanwhile: Resolve / MissGet).
Begin(q, r) ==
  /\ Race /\ fl = None
  /\ Covered(q)
  /\ fl' = [g |-> 1, q |-> q, r |-> r, soa |-> soa, pf |-> pf, hit |-> FALSE]
  /\ reply' = NoReply
  /\ UNCHANGED <<now, gen, soa, pf, der, ver, born, quar>>

\* second section: denialProofEvaluate on the snapshot (no lock).  The clock stands still, so what Begin found covered
\* still is; the entries selected are the snapshot's.  Third section (read lock again): the quarantine re-check
\* (nsec3SelectionConflictedLocked: only NSEC3 selections can be tombstoned) and the shaping, from the SNAPSHOT.
FlBlocked == Mutant # "recheckSkipsNsec3" /\ QuarActive
FlUsed    == Need[fl.q]
FlExpiry  == SetMin({fl.pf[p].exp : p \in FlUsed} \cup {fl.soa.exp})
FlReply ==
  [kind |-> "synth", q |-> fl.q, route |-> fl.r, rc |-> Rcode[fl.q], at |-> now,
   ttl |-> FlExpiry - now, hand |-> FlExpiry, ad |-> TRUE,
   soaGen |-> fl.soa.g, gens |-> [p \in FlUsed |-> fl.pf[p].g],
   mtru |-> SetMin({fl.pf[p].tru : p \in FlUsed} \cup {fl.soa.tru}),
   allval |-> fl.soa.val /\ \A p \in FlUsed : fl.pf[p].val, complete |-> TRUE,
   quar |-> QuarActive,          \* shaped from a ring that is tombstoned at this very instant
   hit |-> fl.hit,               \* ... and it denies what the zone has meanwhile got
   inflight |-> TRUE,
   replaced |-> \E p \in FlUsed : pf[p] # None /\ pf[p].v # fl.pf[p].v]   \* the index retains ANOTHER version of a piece used
\* pruneZoneLocked: only when the snapshot evaluated is still the published one
FlPruned == <<soa, pf>> = <<fl.soa, fl.pf>>

FlSynth ==
  /\ fl # None /\ ~FlBlocked
  /\ reply' = FlReply
  /\ soa' = IF FlPruned THEN PrunedSoa ELSE soa
  /\ pf'  = IF FlPruned THEN PrunedPf ELSE pf
  /\ fl' = None
  /\ UNCHANGED <<now, gen, der, ver, born, quar>>

FlMissGet ==            \* the re-check gives up: Store.GetWithContext reports a miss
  /\ fl # None /\ FlBlocked /\ fl.r = "get"
  /\ reply' = [kind |-> "miss", q |-> fl.q, route |-> "get"]
  /\ fl' = None
  /\ UNCHANGED <<now, gen, soa, pf, der, ver, born, quar>>

FlResolve(s, x) ==      \* ... Cache.ServeDNS resolves the question upstream (the admission is refused: tombstoned)
  /\ fl # None /\ FlBlocked /\ fl.r = "srv" /\ ~fl.hit
  /\ Upstream(fl.q, "srv", s, x)
  /\ fl' = None
  /\ UNCHANGED <<now, der, ver, born>>

FlPositive ==           \* ... and what has meanwhile been created is answered positively (nothing for the proof index)
  /\ fl # None /\ FlBlocked /\ fl.r = "srv" /\ fl.hit
  /\ reply' = [kind |-> "positive", q |-> fl.q, route |-> "srv"]
  /\ fl' = None
  /\ UNCHANGED <<now, gen, soa, pf, der, ver, born, quar>>

Next ==
  \/ \E q \in Questions, r \in Routes : Synth(q, r)
  \/ \E q \in Questions : MissGet(q)
  \/ \E q \in Questions, s \in Lifetimes, x \in Lifetimes : Resolve(q, s, x)
  \/ \E q \in Questions : Derive(q)
  \/ HitDer
  \/ HitDerChase
  \/ \E s \in Lifetimes, x \in Lifetimes : HitDerResolve(s, x)
  \/ DropDer
  \/ Purge
  \/ \E d \in Steps : Tick(d)
  \/ \E p \in Pieces, t \in Targets : Create(p, t)
  \/ \E q \in Questions, r \in Routes : Begin(q, r)
  \/ FlSynth
  \/ FlMissGet
  \/ \E s \in Lifetimes, x \in Lifetimes : FlResolve(s, x)
  \/ FlPositive

Spec == Init /\ [][Next]_vars

(* ---- properties (C04 on the composed reply; the acceptance side abstract) *)
Composed == reply.kind \in {"synth", "derive", "derchase"}

TypeOK ==
  /\ now \in 0..MaxClock /\ gen \in 0..MaxGen /\ born \in 0..MaxBorn /\ quar \in Nat
  /\ (~Race => fl = None /\ born = 0 /\ quar = 0)
  /\ soa = None \/ soa.exp \in Nat
  /\ \A p \in Pieces : pf[p] = None \/ pf[p].exp \in Nat

\* the TTL shown never exceeds the time remaining of ANY piece used, the SOA entry included
TTLShown == Composed => reply.at + reply.ttl <= reply.mtru
\* the expiry handed to the request tree is no later than the shortest piece
HandDown == Composed => reply.hand <= reply.mtru
\* nothing is synthesised from a piece whose lifetime has ended
NoExpiredPiece == Composed => reply.at < reply.mtru
\* what is re-cached from a synthesised reply never outlives the pieces, and is never shown with more than they had left
DerivedWithinPieces == der # None => der.exp <= der.mtru
DerivedShown == reply.kind \in {"derhit", "derchase"} => /\ reply.at < reply.amtru
                                         /\ reply.at + reply.attl <= reply.amtru
\* AD only if every piece was validated
ADOnlyValidated == (reply.kind \in {"synth", "derive", "derchase", "resolved"} /\ reply.ad) =>
                      IF Composed THEN reply.allval ELSE Secure
\* a denial is synthesised only when the retained records cover the question
CoveredOnly == Composed => reply.complete
\* the expiry the index keeps is within the lifetime the records were given
EntryWithinTruth == /\ soa # None => soa.exp <= soa.tru
                    /\ \A p \in Pieces : pf[p] # None => pf[p].exp <= pf[p].tru
\* at admission a proof entry never outlives the SOA entry it came with (per-entry expiry folds the SOA bundle in);
\* later a synthesis inside an alias chase may cut the SOA entry below pieces it did not use
PieceFoldsSoaStep == (gen' = gen + 1 /\ soa' # None) =>
                        \A p \in Pieces : (pf'[p] # None /\ pf'[p].g = gen') => pf'[p].exp <= soa'.exp

\* C02, order of admission vs lookup: no answer is shaped from a ring that is tombstoned at the instant of shaping -- the
\* lookup or the conflict invalidation, never both (refuted by the seeded change C02-r3-1 = "recheckSkipsNsec3")
NoQuarantinedSynthesis == Composed => ~reply.quar
\* while the tombstone is active the index holds nothing of the ring (refuted by "quarKeepsRing")
QuarantineEmptiesRing == QuarActive => \A p \in Pieces : pf[p] = None
\* documented, NOT demanded (false for Kind = "nsec" as built, see MC_RaceNsecStale.cfg): a lookup in flight answers from
\* its snapshot although an admission has meanwhile REPLACED the RRset it rests on -- NSEC has no quarantine, the lookup
\* linearises at the capture of the snapshot (NSEC3: the same only when a Purge came between, which empties the ring
\* without a tombstone)
NoStaleSnapshotDenial == (Composed /\ reply.inflight /\ reply.hit) => ~reply.replaced

(* `reply` is an output, not state: the exhaustive configs hide it with the VIEW and check the predicates over it as
   action properties (every generated transition is evaluated, seen view or not).                                  *)
StateView == <<now, gen, soa, pf, der, ver, born, quar, fl>>
ATTLShown        == [][TTLShown']_vars
AHandDown        == [][HandDown']_vars
ANoExpiredPiece  == [][NoExpiredPiece']_vars
ADerivedShown    == [][DerivedShown']_vars
AADOnlyValidated == [][ADOnlyValidated']_vars
ACoveredOnly     == [][CoveredOnly']_vars
APieceFoldsSoa   == [][PieceFoldsSoaStep]_vars
ANoQuarantinedSynthesis == [][NoQuarantinedSynthesis']_vars
ANoStaleSnapshotDenial  == [][NoStaleSnapshotDenial']_vars
=============================================================================
